# Toolchain environment shared by every script in /verif (offline build).
# GOSUMDB must NOT be "off": the default `go` (1.23.5) switches to the cached
# go1.26.0 toolchain that /repo's go.mod names, and that switch verifies the
# toolchain module. If the switch does not work, fall back to the go1.26.8
# binary with GOTOOLCHAIN=local.
export GOPROXY=off
export GOFLAGS=-mod=mod
unset GOSUMDB 2>/dev/null || true
export GOTOOLCHAIN=auto
if ! (cd "${VERIF_REPO:-/repo}" && go version >/dev/null 2>&1); then
  export GOTOOLCHAIN=local
  go() { command go1.26 "$@"; }
  export -f go 2>/dev/null || true
fi
