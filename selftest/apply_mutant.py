#!/usr/bin/env python3
"""apply_mutant.py <mutant.json|.diff> <dir>: applies a mutation to the source tree at dir.
JSON format: {"property": "...", "what": "...", "needs": "...", "edits": [{"file":..., "old":..., "new":...}]}"""
import json, sys, subprocess, os
m, d = sys.argv[1], sys.argv[2]
if m.endswith('.diff'):
    sys.exit(subprocess.run(['patch','-p1','-s','-d',d,'-i',os.path.abspath(m)]).returncode)
spec = json.load(open(m))
for e in spec['edits']:
    p = os.path.join(d, e['file'])
    s = open(p).read()
    if s.count(e['old']) != 1:
        print('edit does not match exactly once in', e['file'], '(count', s.count(e['old']), ')'); sys.exit(2)
    open(p,'w').write(s.replace(e['old'], e['new']))
