#!/bin/bash
# selftest/run.sh <patch.diff> <check id> [tier] — applies a mutation to a scratch copy of /repo
# (outside /repo and /verif), runs the check against it, prints FIRED/SILENT, removes the copy.
set -u
PATCH="$(readlink -f "$1")"; ID="$2"; TIER="${3:-quick}"
ROOT="$(cd "$(dirname "$0")/.." && pwd)"
T="$(mktemp -d /tmp/vmut-XXXXXX)"
trap 'rm -rf "$T"' EXIT
mkdir -p "$T/core"
(cd /repo && git ls-files -z | xargs -0 cp --parents -t "$T/core") 
if ! python3 "$ROOT/selftest/apply_mutant.py" "$PATCH" "$T/core"; then echo "PATCH-FAILED $(basename "$PATCH")"; exit 2; fi
sed "s#=> /repo#=> $T/core#" "$ROOT/go.mod" > "$T/go.mod"; cp "$ROOT/go.sum" "$T/go.sum"
cd "$ROOT"
OUT="$T/out.txt"
VERIF_MODFILE="$T/go.mod" VERIF_WORK_SUFFIX="-mut$$" VERIF_SEED="${VERIF_SEED:-1}" ./check "$ID" "$TIER" -out "$T/ev.json" > "$OUT" 2>&1
rc=$?
[ -n "${KEEP_EV:-}" ] && cp "$T/ev.json" "$KEEP_EV" 2>/dev/null; [ -n "${KEEP_OUT:-}" ] && cp "$OUT" "$KEEP_OUT" 2>/dev/null
H=$(echo "$T/go.mod" | md5sum | cut -c1-10); rm -rf "$ROOT/.work/$ID-mut$$" "$ROOT/.work/bin/"*.mut$H "$ROOT/.work/bin/"*.mut$H.race "$ROOT/.work/bin/"*.mut$H.386 2>/dev/null
if grep -q "^VIOLATION" "$OUT"; then
  echo "FIRED  $(basename "${PATCH%.*}") x $ID ($(grep -c '^VIOLATION' "$OUT") violation lines; first key: $(grep -m1 'key=' "$OUT" | sed 's/.*key=//'))"
  exit 0
elif [ $rc -eq 2 ]; then
  echo "BUILD-FAILED $(basename "${PATCH%.*}") x $ID"; tail -5 "$OUT"; exit 2
else
  echo "SILENT $(basename "${PATCH%.*}") x $ID (exit $rc): $(tail -1 "$OUT")"
  exit 1
fi
