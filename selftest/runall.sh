#!/bin/bash
# Runs every mutant of selftest/mutants against the checks named in its file name (C05-C06-… => C05 and C06)
# and writes selftest/KILL_MATRIX.md. Usage: selftest/runall.sh [tier] [filter-regex]
cd "$(dirname "$0")/.."
TIER="${1:-quick}"; FILTER="${2:-.}"
OUT=selftest/KILL_MATRIX.md
TMP=$(mktemp)
for m in selftest/mutants/*; do
  base=$(basename "${m%.*}")
  echo "$base" | grep -Eq "$FILTER" || continue
  ids=$(echo "$base" | grep -oE '^(C[0-9]{2}-)+' | tr '-' ' ')
  for id in $ids; do
    [ -d "cmd/$(echo $id | tr A-Z a-z)" ] || continue
    res=$(./selftest/run.sh "$m" "$id" "$TIER" 2>&1 | tail -1)
    echo "| $base | $id | $TIER | $res |" | tee -a "$TMP"
  done
done
{ echo "# Kill matrix (mutant x check), tier $TIER, $(date -u +%F)"; echo; echo "| mutant | check | tier | result |"; echo "|---|---|---|---|"; sort "$TMP"; } > "$OUT"
rm -f "$TMP"
