#!/bin/bash
# Build the framework from files on disk only (offline) and warm the build cache.
cd "$(dirname "$0")"
. ./env.sh
cp -f /repo/go.sum go.sum
mkdir -p .work/bin evidence replays
go build -tags verif ./... || exit 1
for d in cmd/*/; do
  id=$(basename "$d")
  go build -tags verif -o .work/bin/$id ./cmd/$id || exit 1
  if [ -f "$d/RACE" ]; then go build -race -tags verif -o .work/bin/$id.race ./cmd/$id || exit 1; fi
done
echo setup ok
