#!/bin/bash
# Build the framework from files on disk only (offline) and warm the build cache.
cd "$(dirname "$0")"
. ./env.sh
cp -f /repo/go.sum go.sum
mkdir -p .work/bin evidence replays
fail=0
for id in $(jq -r '.checks[].property_id' MANIFEST.json | tr 'A-Z' 'a-z'); do
  go build -tags verif -o .work/bin/$id ./cmd/$id || { echo "setup: build of $id failed"; fail=1; }
  if [ -f "cmd/$id/RACE" ]; then go build -race -tags verif -o .work/bin/$id.race ./cmd/$id || { echo "setup: race build of $id failed"; fail=1; }; fi
done
[ $fail -eq 0 ] && echo setup ok
exit $fail
