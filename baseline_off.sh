#!/bin/bash
# Runs the repository's own test suite with the verif guard OFF (no -tags verif).
. "$(dirname "$0")/env.sh"
cd /repo && go test -json -vet=off -count=1 -timeout 25m ./...
