#!/usr/bin/env python3
"""tools/mkseedprompt.py <wave> <ID>... : writes /tmp/seedprompt<wave>-<ID>.txt for a fresh seeding sub-agent (property text only +
the one-line summaries of the changes already kept for that property) and creates the scratch worktree /tmp/seed<wave>-<ID>."""
import json, sys, glob, os, subprocess
wave = sys.argv[1]
props = {json.loads(l)['id']: json.loads(l) for l in open('/verif/properties.jsonl')}
T = open('/verif/tools/seedprompt.tmpl').read()
for pid in sys.argv[2:]:
    p = props[pid]
    tried = []
    for d in sorted(glob.glob(f'/verif/seeded/{pid}-*/meta.json')):
        tried.append('- ' + json.load(open(d))['summary'][:220])
    anchors = ', '.join(p['anchors']['files'])
    w = f'/tmp/seed{wave}-{pid}'
    if not os.path.exists(w):
        subprocess.check_call(['git', '-C', '/repo', 'worktree', 'add', '-q', '--detach', w, 'HEAD'])
    txt = T.replace('@W@', w).replace('@OUT@', f'/tmp/seedout{wave}-{pid}').replace('@ID@', pid).replace('@TITLE@', p['title']) \
        .replace('@STATEMENT@', p['statement']).replace('@QUANT@', p['quantifier']['text']).replace('@ANCHORS@', anchors).replace('@TRIED@', '\n'.join(tried))
    open(f'/tmp/seedprompt{wave}-{pid}.txt', 'w').write(txt)
    print(f'/tmp/seedprompt{wave}-{pid}.txt', len(tried), 'tried')
