#!/usr/bin/env python3
"""Regenerates selftest/reverts/*.diff: the reverse patch (non-test files) of every `fix:` commit of /repo that still
applies to HEAD, named <properties it is recorded under in KNOWN_FINDINGS.json>-<commit>.diff."""
import json, subprocess, collections, glob, os
d = json.load(open('/verif/KNOWN_FINDINGS.json'))
by = collections.OrderedDict()
for e in d['findings']:
    if e['status'] == 'fixed' and e.get('commit'):
        by.setdefault(e['commit'][:7], []).append(e)
for f in glob.glob('/verif/selftest/reverts/*.diff'):
    os.remove(f)
log = subprocess.run(['git', '-C', '/repo', 'log', '--format=%h %s', '--grep=^fix:'], capture_output=True, text=True).stdout.strip().split('\n')
for line in log:
    h, subj = line.split(' ', 1)
    props = sorted({e['property'] for e in by.get(h[:7], [])})
    diff = subprocess.run(['git', '-C', '/repo', 'diff', h, h + '~1', '--', ':!*_test.go'], capture_output=True, text=True).stdout
    ok = subprocess.run(['git', '-C', '/repo', 'apply', '--check', '-'], input=diff, capture_output=True, text=True).returncode == 0
    if ok and props:
        open(f"/verif/selftest/reverts/{'-'.join(props)}-{h}.diff", 'w').write(diff)
    print(h, props, 'ok' if ok else 'does not apply to HEAD any more (later fix touches the same lines)', subj[:60])
