#!/usr/bin/env python3
"""Regenerates selftest/reverts/*.diff: the reverse patch (non-test files) of every `fix:` commit of /repo that still
applies to HEAD, named <properties it is recorded under in KNOWN_FINDINGS.json>-<commit>.diff."""
import json, subprocess, collections, glob, os
d = json.load(open('/verif/KNOWN_FINDINGS.json'))
by = collections.OrderedDict()
for e in d['findings']:
    if e['status'] == 'fixed' and e.get('commit'):
        by.setdefault(e['commit'][:7], []).append(e)
W = '/tmp/mkreverts-w'
ENV = dict(os.environ, GOPROXY='off', GOFLAGS='-mod=mod')

def builds(diff):
    subprocess.run(['git', '-C', W, 'checkout', '-q', '--', '.'])
    subprocess.run(['git', '-C', W, 'apply', '-'], input=diff, text=True, check=True)
    r = subprocess.run(['go', 'build', './...'], cwd=W, env=ENV, capture_output=True, text=True)
    return r.returncode == 0

def buildable(diff):
    """A later fix may use an import that this fix introduced: the reverse patch then keeps the import line."""
    if builds(diff):
        return diff, ''
    import re
    # drop hunks that only remove import lines
    parts = re.split(r'(?m)^(?=@@ )', diff)
    kept = [parts[0]]
    dropped = 0
    for hunk in parts[1:]:
        body = [l for l in hunk.split('\n')[1:] if l[:1] in ('+', '-')]
        if body and all(re.match(r'^-\s*"[\w/.]+"$', l) for l in body):
            dropped += 1
            continue
        kept.append(hunk)
    d2 = ''.join(kept)
    if dropped and builds(d2):
        return d2, 'reverse patch without the hunk removing an import that a later fix still uses\n'
    return diff, 'DOES NOT BUILD on HEAD\n'

subprocess.run(['git', '-C', '/repo', 'worktree', 'remove', '--force', W], capture_output=True)
subprocess.check_call(['git', '-C', '/repo', 'worktree', 'add', '-q', '--detach', W, 'HEAD'])
import atexit
atexit.register(lambda: subprocess.run(['git', '-C', '/repo', 'worktree', 'remove', '--force', W], capture_output=True))
for f in glob.glob('/verif/selftest/reverts/*.diff'):
    os.remove(f)
log = subprocess.run(['git', '-C', '/repo', 'log', '--format=%h %s', '--grep=^fix:'], capture_output=True, text=True).stdout.strip().split('\n')
for line in log:
    h, subj = line.split(' ', 1)
    props = sorted({e['property'] for e in by.get(h[:7], [])})
    diff = subprocess.run(['git', '-C', '/repo', 'diff', h, h + '~1', '--', ':!*_test.go'], capture_output=True, text=True).stdout
    ok = subprocess.run(['git', '-C', '/repo', 'apply', '--check', '-'], input=diff, capture_output=True, text=True).returncode == 0
    if ok and props:
        diff, note = buildable(diff)
        open(f"/verif/selftest/reverts/{'-'.join(props)}-{h}.diff", 'w').write(note + diff)
    print(h, props, 'ok' if ok else 'does not apply to HEAD any more (later fix touches the same lines)', subj[:60])
