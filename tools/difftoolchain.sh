#!/bin/bash
# Differential toolchain run: every quick check built with the default go (1.26.0) and with go1.26.8; the summary
# lines (evaluations, distinct, violations, known, inconclusive) must agree in violations / known / inconclusive (evaluation counts of the timing-dependent checks C10 and C19 vary by a few units from run to run) - go1.26.0 is known to miscompile some
# closures over local arrays (mergelocals), which could make a check lie in either direction.
cd "$(dirname "$0")/.."
rc=0
for i in $(seq -w 1 20); do
  id=C$i
  a=$(./check $id quick 2>&1 | tail -1 | sed 's/ wall=.*//')
  b=$(VERIF_GO=go1.26.8 ./check $id quick 2>&1 | tail -1 | sed 's/ wall=.*//')
  va=$(echo "$a" | grep -o "violations=.*"); vb=$(echo "$b" | grep -o "violations=.*")
  if [ -n "$va" ] && [ "$va" = "$vb" ]; then echo "SAME $a"; else echo "DIFF $id"; echo "  go1.26.0: $a"; echo "  go1.26.8: $b"; rc=1; fi
done
exit $rc
