#!/usr/bin/env python3
"""tools/addfinding.py <property> <key-prefix> <open|fixed> <commit-or-> <what...> : appends an entry to KNOWN_FINDINGS.json"""
import json, sys
prop, key, status, commit = sys.argv[1:5]
what = ' '.join(sys.argv[5:])
p = '/verif/KNOWN_FINDINGS.json'
d = json.load(open(p))
e = {"property": prop, "key": key, "status": status, "what": what}
if status == 'fixed':
    e["commit"] = commit
    e["line"] = f"fixed: property={prop} {commit} {what}"
d['findings'].append(e)
json.dump(d, open(p, 'w'), indent=1)
print(e.get("line", "open: " + what))
