#!/bin/bash
# tools/mkmanualrevert.sh <commit> <PROP> : tries a three-way reverse application of a fix: commit whose plain reverse patch no
# longer applies, in the scratch worktree /tmp/manrev-w (left in place for manual conflict resolution; finish with
#   cd /tmp/manrev-w && git reset -q && go build ./... && git diff > /verif/selftest/reverts-manual/<PROP>-<commit>.diff
# and remove the worktree with git -C /repo worktree remove --force /tmp/manrev-w).
h=$1; p=$2; W=/tmp/manrev-w
[ -d $W ] || git -C /repo worktree add -q --detach $W HEAD
cd $W; git reset -q --hard; git checkout -q --detach $(git -C /repo rev-parse HEAD)
git diff $h $h~1 -- ':!*_test.go' > /tmp/rev-$h.diff
if git apply --3way /tmp/rev-$h.diff >/tmp/rev-$h.log 2>&1; then
  git reset -q; . /verif/env.sh
  if go build ./... 2>/tmp/rev-$h.build; then git diff > /verif/selftest/reverts-manual/$p-$h.diff; echo "$h: clean 3-way, builds -> reverts-manual/$p-$h.diff ($(git diff --stat | tail -1))"; git reset -q --hard
  else echo "$h: clean 3-way but does not build:"; head -3 /tmp/rev-$h.build; fi
else echo "$h: conflicts in: $(git diff --name-only --diff-filter=U | tr '\n' ' ')"; fi
