#!/bin/bash
# Runs the repository suite with hooks off and compares with BASELINE.json stable_pass. Exit 0 iff no test failed and none is missing.
OUT=$(mktemp)
"$(dirname "$0")/../baseline_off.sh" > "$OUT" 2>&1
python3 - "$OUT" <<'PY'
import json,sys
passed=set(); failed=set()
for l in open(sys.argv[1]):
    try: e=json.loads(l)
    except Exception: continue
    if e.get('Test'):
        k=e['Package']+'::'+e['Test']
        if e['Action']=='pass': passed.add(k)
        if e['Action']=='fail': failed.add(k)
    elif e.get('Action')=='fail': failed.add(e['Package'])
b=json.load(open('/root/.vp/BASELINE.json'))
sp=b.get('stable_pass') or []
def norm(x): return x
names=set(sp)
# try a few key formats
fmt=[lambda p,t:p+'::'+t, lambda p,t:p+'.'+t, lambda p,t:p+'/'+t, lambda p,t:t]
best=None
for f in fmt:
    got={f(*k.split('::',1)) for k in passed}
    miss=names-got
    if best is None or len(miss)<len(best): best=miss
print(f"passed={len(passed)} failed={len(failed)} baseline={len(names)} missing={len(best)}")
for x in sorted(failed)[:20]: print(" FAIL",x)
for x in sorted(best)[:20]: print(" MISSING",x)
sys.exit(1 if failed or best else 0)
PY
rc=$?; rm -f "$OUT"; exit $rc
