#!/usr/bin/env python3
"""Regenerates the two tables of DESIGN.md section 9.4 from KNOWN_FINDINGS.json (between the FINDINGS markers)."""
import json, re, subprocess, collections
d = json.load(open('/verif/KNOWN_FINDINGS.json'))['findings']
subjects = {}
for l in subprocess.run(['git','-C','/repo','log','--format=%h %s'],capture_output=True,text=True).stdout.splitlines():
    h, s = l.split(' ',1)
    subjects[h[:7]] = s
fixed = collections.OrderedDict()
for f in d:
    if f['status'] == 'fixed':
        fixed.setdefault(f['commit'][:7], []).append(f)
def esc(s): return s.replace('|','\\|').replace('\n',' ')
out = []
out.append("Repaired in /repo by minimal `fix:` commits (KNOWN_FINDINGS.json status `fixed`; a fixed entry suppresses nothing). One row per commit, in the order found:\n")
out.append("| commit | properties | `fix:` subject | defect as the check saw it (witness) |")
out.append("|---|---|---|---|")
for c, fs in fixed.items():
    props = ', '.join(sorted({f['property'] for f in fs}))
    what = ' / '.join(dict.fromkeys(f['what'] for f in fs))
    out.append(f"| {c} | {props} | {esc(subjects.get(c,'?'))} | {esc(what)} |")
out.append("")
op = [f for f in d if f['status'] == 'open']
out.append(f"Recorded as open known findings ({len(op)} keys; consensus-critical, protocol-level or not a small local patch). The check prints `KNOWN-FINDING:` for each one it reproduces and still reports any other key:\n")
out.append("| property | key | what fails |")
out.append("|---|---|---|")
for f in sorted(op, key=lambda f: (f['property'], f['key'])):
    out.append(f"| {f['property']} | `{esc(f['key'])}` | {esc(f['what'])} |")
txt = '\n'.join(out) + '\n'
p = '/verif/DESIGN.md'
s = open(p).read()
a, b = '<!-- FINDINGS:BEGIN -->', '<!-- FINDINGS:END -->'
assert a in s and b in s
s = s[:s.index(a)+len(a)] + '\n' + txt + s[s.index(b):]
open(p,'w').write(s)
print(len(fixed), 'fix commits,', len(op), 'open keys')
