#!/usr/bin/env python3
"""Regenerates /verif/MANIFEST.json from the table below and the cmd/ directory.
A property is claimed iff it has an entry in CHECKS and cmd/<id>/ exists."""
import json, os, subprocess
ROOT = os.path.dirname(os.path.dirname(os.path.abspath(__file__)))
props = [json.loads(l) for l in open(os.path.join(ROOT, 'properties.jsonl'))]

# id -> (technique, level text, level note, design ref)
CHECKS = {
 'C10': ('runtime monitors over hostile inputs: journalling child-process fuzzers for all 177 binary decoders and all text/JSON entry points (go/parser completeness self-check) with panic / fatal-error / allocation (heap-profile attributed) / thread-CPU monitors; structure-aware and directed mutations of real blocks and transactions, codec round-tripped, validated at transaction and block level on real chain states and applied + reverted when accepted; one tier under -race (checkptr)',
         'Every DecodeFrom / UnmarshalText / UnmarshalJSON / Parse* entry point of types, consensus, gateway and rhp v2/v3/v4 receives valid encodings, all prefixes, byte edits, random bytes, length-prefix attacks on every 8-byte window (incl. process-fatal magnitudes, run last in sacrificial sub-workers), deep/wide policy nests and numeric/hex/JSON-structure attacks; each call must return a value or an error, allocate at most 1 MiB + 1024 B per input byte (4096 for JSON) and stay within 10^4 x the calibrated per-byte CPU cost (confirmed alone). About 10^5 re-signed structure-aware variants of real blocks per quick run (extreme currencies, proofs, indices, duplicated/missing parents, policies, resolution types, cross-kind IDs) are validated in every era incl. the legacy ephemeral window; accepted ones are applied and reverted; any panic is a violation keyed by the innermost core frame.',
         'Trusted: Go runtime accounting (TotalAlloc, sampled heap profile, thread CPU time); bounds are restatements of "out of proportion" (1 KiB per byte + 1 MiB) and of "terminates" (bounded progress); a watchdog firing is inconclusive.', '§5 C10'),
 'C14': ('runtime differential monitor: independently written functional policy evaluator (two formulations cross-checked) vs SpendPolicy.Verify over exhaustively enumerated small policy trees x witness assignments and random large trees; address-commitment laws; limits; end-to-end spends through consensus',
         'All policy trees of depth <= 1 / breadth <= 3 and depth <= 2 / breadth <= 2 over every leaf kind with every threshold count (exhaustive sub-spaces), legacy unlock conditions over all short key/signature sequences incl. huge required counts, and random trees up to the complexity limits are verified with every witness assignment class (valid, corrupted, for another key, missing, surplus, swapped) at heights/times around each lock and compared with an evaluator written from the statement; Address(p) is compared with the definition and under every opaque substitution; opaqued branches become unusable; limits reject without blow-up; real outputs are spent through ValidateV2Transaction with harness-computed parent height and median.',
         'Trusted: the functional evaluator and its second formulation (disagreement between them = inconclusive); x/crypto blake2b for the address model.', '§5 C14'),
 'C20': ('runtime round-trip monitors over generated values of every type with a text/JSON form (registry with go/parser completeness self-check); shadow client store driven by JSON-round-tripped updates on generated histories; exhaustive single-character corruption of address strings and length/prefix/alphabet corruption of all identifier forms',
         '115 registered types (153 forms) are formatted and parsed back over generated values incl. the unusual ones the quantifier lists, compared up to an explicit normaliser; on generated chains with reorgs every ApplyUpdate/RevertUpdate goes through JSON and drives a shadow store that must stay identical (every element, leaf index and proof hash) to the store driven by the originals and verify against the state; every single-character substitution of address strings and length/prefix/alphabet/case corruptions of every identifier syntax must yield an error or the same value, never another value or a panic.',
         'Trusted: the explicit normaliser (nil = empty, instants, sentinel payout, convenience fields); values restricted to what JSON can represent.', '§5 C20'),
 'C18': ('runtime round-trip monitors on the states of generated histories: multiproof encode/decode with hash-by-hash proof comparison and an independent minimal-size oracle; outline ID/Missing/codec/Complete over all subsets of omitted transactions',
         'Accepted v2 blocks and synthetic transaction sets over all live store elements (every parent kind, storage-proof chain indices, ephemeral parents, duplicate leaves, several tree heights) are round-tripped through the multiproof form: every proof restored bit for bit, block ID / commitment / ValidateBlock verdict unchanged, transmitted hashes equal the minimal multiproof computed from leaf positions; outlines for every subset of omitted transactions (exhaustive for blocks of <= 10 transactions) keep the block ID, survive their codec, complete exactly from shuffled superset pools and report exactly the withheld hashes.',
         'Trusted: proofs come from the client store at one state; the minimal-multiproof size model.', '§5 C18'),
 'C09': ('runtime monitors: deep-fingerprint purity monitor around every validation/application entry point, provenance differential (decoded/multiproof/DeepCopy/JSON copies), stepwise-vs-blockwise comparison, alias walker + scribble test for copy operations, Go race detector with overlap gauge over shared inputs',
         'For every accepted block of generated histories and an invalid sibling: inputs are fingerprinted (incl. proofs and unexported fields) before/after ~15 entry points; the same block obtained five ways must give the same verdict, byte-identical state and identical update contents; transaction-by-transaction validation must agree with ValidateBlock; element Copy() and V2Transaction.DeepCopy() results must share no mutable memory with the original (region intersection + write-through test); under -race 2/8/32 goroutines run the pipeline on the same objects (overlap measured), every result compared with the sequential one.',
         'Trusted: the reflection fingerprint/alias walkers; the race detector only judges accesses that occur in the run.', '§5 C09'),
 'C13': ('runtime monitor: math/big proof-of-work model checking clamps, inverse relations and monotonicity after every real ApplyHeader step over generated timestamp histories; header-vs-block state comparison; ValidateHeader single-condition cases with real mining',
         'Header histories of 10^3-10^5 steps over generated networks (four families + testnet, fork heights crossed in the run) with 13 timestamp models filtered through the real median rule: no panic, per-step change of required work inside the era clamp (pre-Oak, Oak, single ASIC reset, v2, final cut), target/difficulty floored inverses, total work monotone; the same headers applied as real blocks must give identical PoW state; ValidateHeader accepts iff all four conditions hold (each violated singly); SufficientlyHeavierThan asymmetric on state pairs.',
         'Trusted: the big-integer model of the era rules (written from the statement and code comments); networks restricted to BlockInterval >= 1 s and FinalCutHeight >= AllowHeight.', '§5 C13'),
 'C16': ('runtime differential monitors: naive recursive Merkle model vs optimised roots/proofs, AVX2 vs generic vs reference hashing on guard-paged buffers, exhaustive small (n,start,end)/subset enumeration of proof builders and verifiers with single-corruption soundness tests, race detector on the parallel root functions',
         'Roots (SectorRoot, ReaderRoot under all chunkings, ReadSectorRoot, MetaRoot, Accumulator, CachedSectorSubtrees) are compared with a naive model on many sector contents; both CPU hashing paths are driven directly on buffers flush against PROT_NONE pages; every builder/verifier pair of rhp v2/v4 is enumerated exhaustively for small sizes and randomly beyond (completeness with the model\'s roots) and every single corruption of proof hashes, data, indices, roots and proof length must be rejected given the true count; parallel functions run under -race with NumCPU 1/3/16.',
         'Trusted: the naive Merkle model and an own RFC 7693 BLAKE2b used to cross-check the reference hash; only AVX2 and generic paths exist on this CPU.', '§5 C16'),
 'C12': ('runtime differential monitor: reflection-enumerated single-field mutations of real transactions/blocks with before/after comparison of every ID, hash and signature hash against a rule table; collision table of all derived IDs; era separation; block-binding via ValidateBlock',
         'For the transactions and blocks of generated histories every exported leaf field is mutated and ID, derived IDs, FullHash, MerkleLeafHash and all signature hashes are compared before/after (changed iff effect-bearing, unchanged for the exempt witness/signature/parent-content/proof fields); all derived IDs and purpose-specific signature hashes go into one collision table labelled by kind and index; v1 signature hashes are compared across replay-prefix eras; block content mutations that keep the header must change Block.ID() or be rejected by ValidateBlock.',
         'Trusted: the rule table of exempt fields (taken from the statement). Hash preimage layouts themselves are C11\'s subject.', '§5 C12'),
 'C08': ('runtime monitor: boundary-table scenarios on real chains - the rule-limited transaction is rebuilt per tip and offered to ValidateBlock at every height across the bound; verdict pattern compared with the independently computed bound',
         'For generated networks (all families, maturity delays 0-5) and 20 height/time rules (output/claim maturity v1+v2, unlock-condition and signature timelocks, above/after/legacy-uc policies against parent height and median time, v1 window start at formation/revision/proof, v2 proof height at formation/revision/proof/expiration, v1 until require height, v2 from allow height) the transaction valid except for the rule is offered at each height from before to after the bound; both sides of every flip are required; a wrong-side rejection must be the rule\'s own error, else inconclusive.',
         'Trusted: the scenario\'s computation of each bound from network parameters and recorded heights; harness median.', '§5 C08'),
 'C11': ('runtime differential monitors over generated values of every wire type: round-trip/normaliser, determinism (sequential + concurrent), reflection field-influence, independent layout-table encoder, truncation, checkptr build for the cast helpers',
         '178 registered wire types (completeness self-checked against /repo with go/parser) are exercised with generated values of every shape: decode(encode(v)) equals v up to an explicit normaliser and re-encodes byte-identically; every exported leaf field must influence the bytes unless documented as not transmitted; consensus-critical objects must equal a declaratively specified layout-table encoder (incl. hash preimages and golden addresses); every proper prefix must fail to decode; one batch runs under -race/checkptr.',
         'Trusted: the layout tables authored from the protocol as implemented at the pinned commit plus golden IDs; the normaliser list.', '§5 C11'),
 'C17': ('runtime monitor: big-integer conservation oracles over random sequences of RHP constructor calls filtered through the real Validate, each result signed, funded with exactly the reported costs and submitted to the real consensus validation',
         'Random price tables and requests that pass the real Validate drive sequences NewContract -> append/free/sector roots/fund/replenish/renew/refresh with balances steered to exact boundaries; per revision and renewal the statement\'s equalities are checked in math/big; every constructed contract/revision/renewal is accepted end-to-end by ValidateV2Transaction on a real chain state (with under/over-funded controls rejected); v1 tax inversion (rhp2/rhp3) checked over a boundary grid and through ValidateTransaction.',
         'Trusted: math/big; the harness\'s small chain client; RHP4 Validate methods are used as a filter only.', '§5 C17'),
 'C03': ('runtime fault injection: reflection-enumerated single-field tampers and witness-level tampers of accepted blocks (not re-signed, envelope re-sealed) judged by the real ValidateBlock against a rule table',
         'Every block accepted on generated histories is tampered one point at a time: a sample of all exported leaf fields of each signed v1/v2 transaction, dropped/duplicated/surplus/swapped/foreign signatures and preimages, substituted unlock conditions and policies, revisions and renewals signed by other or by the proposed keys, attestations, Foundation changes without Foundation authorization; the rule table demands rejection except for documented exceptions which are only recorded; positive controls: untampered block accepted, tamper followed by correct re-signing accepted.',
         'Trusted: the rule table (which field classes are bound by which signature / by the accumulator) and the re-seal code.', '§5 C03'),
 'C19': ('runtime monitors: size/limit oracle over maximal valid RPC objects, counting-reader read-bound monitor, exactly-once in-order trace checker over in-memory (fragmenting, tampering) and TCP transports under -race',
         'All RHP4/gateway/RHP2/RHP3 message types at their maximal protocol-valid sizes and random sizes must round-trip within the receiver limit; hostile/endless streams must not make a reader pull more than its limit; every RPCError must be delivered as that error; messages over gateway, RHP3 and RHP2 transports (1-byte fragmentation, stalls, TCP loopback, concurrent streams, race detector) must arrive exactly once, equal and in order; single-byte flips and truncations of frames must be detected and poison the session; handshake mismatches must fail on both sides.',
         'Trusted: memconn (in-memory conn), the harness\'s own parsers for tampered streams. Block/transaction RPC limits are judged against consensus-weight-maximal blocks.', '§5 C19'),
 'C07': ('runtime monitor: contract lifecycle state machine over the diff stream + revision-law fault injection + storage-proof differential against a naive Merkle prover in every era through real blocks',
         'Lifecycle monitor on generated histories (created -> revised* -> resolved once; payout outputs compared with the latest accepted revision per resolution kind, maturity, renewal split, revision laws) plus illegal revisions injected into accepted blocks (must be rejected); storage-proof differential: for files of every size class in the three v1 eras and under v2 the naive model\'s honest proof of the independently recomputed challenge must be accepted in a real block and ~12 corruptions per contract must be rejected; rhp/v2 BuildProof+ConvertProofOrdering cross-checked as second prover.',
         'Trusted: naive RFC-6962 Merkle model over zero-padded 64-byte segments; math/big challenge derivation; ID derivations via the library (C12\'s subject). Empty files have no leaf: no completeness/soundness demanded.', '§5 C07'),
 'C04': ('runtime monitor: membership oracle over generated histories - live elements vs single-field/proof mutants, spent, reverted-branch and fabricated elements, through all three library routes',
         'On generated chains with reorgs, samples of live elements of every kind must pass ValidateTransactionElements, a fully signed ValidateV2Transaction spend/expiration and ValidateBlock\'s supplement check; every single-field mutation of contents, leaf index and proof (incl. another element\'s proof/position, shortened/lengthened proofs), spent/resolved elements with proofs maintained by the store, elements remembered from reverted branches and fabricated elements must be rejected by each route. Complemented by C05\'s naive-forest comparison.',
         'Trusted: the carrier block of the supplement route; the re-signed spend of the transaction route.', '§5 C04'),
 'C02': ('runtime monitor: exactly-once trace checker over the spent/resolved/created ID stream + second-use fault injection into accepted blocks (re-signed, re-sealed) judged by the real ValidateBlock',
         'On generated chains every ApplyUpdate/RevertUpdate feeds a spent-set and created-set checker (no ID used twice without an intervening revert); every accepted block is turned into all applicable second-use variants (28 classes: within a txn, across txns v1/v2/mixed, ephemeral outputs, storage proofs, v2 resolutions/revisions after resolution, cross-block re-spend with a proof maintained since before the first use, stale element in the supplement) whose only fault is the second use; each must be rejected by the rule that concerns double use (other rejections are counted inconclusive).',
         'Trusted: the variant builder (re-balances values, re-signs, re-seals); the accepted original block is the positive control.', '§5 C02'),
 'C01': ('runtime monitor over generated histories: big-integer ledger (conservation trace checker) fed from the library\'s diffs, independent tax/claim/reward/subsidy schedule',
         'Every block accepted by the real ValidateBlock on generated chains (all eras, v1/mixed/v2, all transaction kinds, reorgs) is applied and the ledger identity unspent + locked(v1,v2) + unclaimed pool + forfeited = genesis + scheduled subsidy, the siafund count, each claim value (pool replayed inside the block), tax revenue and miner payouts are checked after every block and every revert; the client store totals are cross-checked. Held on the observed histories only.',
         'Trusted: math/big; schedules re-implemented from the protocol definition; genesis taken as allocation; legacy ephemeral-siafund window excluded as the quantifier says.', '§5 C01'),
 'C06': ('runtime monitor over generated histories: store snapshot comparison, diff-stream reversal checker, independent membership test, byte-for-byte re-apply comparison',
         'On generated chains with reorg schedules (revert k and continue, revert k and re-apply the same blocks, competing branch and back) the client store after every revert is compared element-for-element (fields, leaf index, proof) with the snapshot taken before the apply, RevertUpdate diffs are compared with the reversed ApplyUpdate diffs, every stored element is verified against the parent accumulator, and re-applied blocks must reproduce State encoding and ApplyUpdate JSON exactly; a consumer\'s own copies of elements updated in place are kept current and walked back with RevertUpdate.UpdateElementProof and must then prove the pre-block element.',
         'Trusted: the store model applies updates in the reported order; x/crypto blake2b; element hashes via the public types.Hasher.', '§5 C06'),
 'C05': ('runtime monitor over generated histories: naive Merkle-forest reference model fed from the diff stream + client-store proof checker after every apply/revert; exhaustive small-shape enumerator',
         'Real blocks are validated/applied/reverted on generated chains (5 network families, random reorg schedules up to whole-chain depth) and on a signature-free enumerator network (every leaf count up to a bound, every subset of spent leaves x added-leaf counts for small accumulators - exhaustive for that sub-space); after each step the accumulator roots, leaf count, ForEachTreeNode output and every proof the client store maintains via UpdateElementProof (live elements of all kinds, chain indices, proofs of spent outputs) are compared with a forest rebuilt naively from all leaves. Held on the observed executions only.',
         'Trusted: x/crypto blake2b, element hashes derived with the public types.Hasher (their layout is C11\'s subject), the harness store model (applies updates in order).', '§5 C05'),
 'C15': ('runtime differential monitor: math/big oracle over boundary-grid cross product + per-bit-length random operands; text/JSON round-trip monitor',
         'Every Currency operation is executed on the full cross product of a boundary grid (exhaustive for that grid), on random operands of every bit-length pair and on divisor-directed cases, each execution watched by a math/big oracle that also predicts the overflow/underflow/zero-division report; every text form is parsed back and compared. Held-on-observed executions, not a proof.',
         'Trusted: math/big, the harness. Wrapped results after overflow are unspecified and not judged.', '§5 C15'),
}
NA_DEFAULT = 'check not built yet in this commit (planned; see DESIGN.md §5)'
NA = {}

def hooks_commits():
    try:
        out = subprocess.run(['git','-C','/repo','log','--format=%H %s'],capture_output=True,text=True).stdout
        return [l.split()[0] for l in out.splitlines() if ' verif-hooks:' in ' '+l or l.split(' ',1)[1].startswith('verif:')]
    except Exception:
        return []

checks=[]; na=[]
for p in props:
    i=p['id']
    if i in CHECKS and os.path.isdir(os.path.join(ROOT,'cmd',i.lower())):
        tech,text,note,ref=CHECKS[i]
        checks.append({
          'property_id': i,
          'quick_cmd': f'./check {i} quick',
          'thorough_cmd': f'./check {i} thorough',
          'evidence_file': f'/verif/evidence/{i}.json',
          'replay_cmd_template': f'./check {i} quick --replay {{path}}',
          'engine': 'harness',
          'level_claimed': {'category':'exploration','text':text,'design_ref':ref},
          'level_note': note,
          'technique': tech,
        })
    else:
        na.append({'property_id': i, 'reason': NA.get(i, NA_DEFAULT)})
m={
 'version':1,
 'setup_cmd':'./setup.sh',
 'hooks':{
   'guard':'verif',
   'enable':'go build -tags verif (the ./check driver always passes -tags verif); hook files are //go:build verif re-exports in blake2b/ and gateway/',
   'baseline_off_cmd':'./baseline_off.sh',
   'source_commits': hooks_commits(),
   'add_only': True,
 },
 'engines':[{'name':'harness','path':'/verif/internal/harness','serves_properties':[c['property_id'] for c in checks],
             'kind_free_text':'runtime monitoring: workload generators drive the real code in child processes (plain, -race/checkptr builds); oracles = reference models, conservation/ordering trace checkers, crash/alloc/race/guard-page monitors'}],
 'checks':checks,
 'not_applicable':na,
 'notes':'All checks: cd /verif && ./check <id> quick|thorough. Exit 0 held / 1 VIOLATION / 3 broken check (observed nothing: fail closed). Known findings: KNOWN_FINDINGS.json.',
}
json.dump(m,open(os.path.join(ROOT,'MANIFEST.json'),'w'),indent=1)
print('claimed',[c['property_id'] for c in checks]); print('n/a',[n['property_id'] for n in na])
