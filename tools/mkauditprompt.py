#!/usr/bin/env python3
"""tools/mkauditprompt.py <round> <ID>... : writes /tmp/audit<round>prompt-<ID>.txt for a fresh auditing sub-agent (property text +
what is already repaired / recorded for that property) and creates the scratch worktree /tmp/audit<round>-<ID>."""
import json, sys, os, subprocess
rnd = sys.argv[1]
props = {json.loads(l)['id']: json.loads(l) for l in open('/verif/properties.jsonl')}
T = open('/verif/tools/auditprompt.tmpl').read()
kf = json.load(open('/verif/KNOWN_FINDINGS.json'))['findings']
for pid in sys.argv[2:]:
    p = props[pid]
    known = []
    for f in kf:
        if f['property'] == pid:
            known.append(('- [already repaired] ' if f['status'] == 'fixed' else '- [known, recorded] ') + f['what'][:320])
    w = f'/tmp/audit{rnd}-{pid}'
    if not os.path.exists(w):
        subprocess.check_call(['git', '-C', '/repo', 'worktree', 'add', '-q', '--detach', w, 'HEAD'])
    txt = T.replace('@W@', w).replace('@OUT@', f'/tmp/audit{rnd}out-{pid}').replace('@ID@', pid).replace('@TITLE@', p['title']) \
        .replace('@STATEMENT@', p['statement']).replace('@QUANT@', p['quantifier']['text']).replace('@ANCHORS@', ', '.join(p['anchors']['files'])).replace('@KNOWN@', '\n'.join(known))
    open(f'/tmp/audit{rnd}prompt-{pid}.txt', 'w').write(txt)
    print(f'/tmp/audit{rnd}prompt-{pid}.txt', len(known), 'known')
