package main

import (
	"bytes"
	"fmt"
	"math/bits"
	"runtime"
	"sync"
	"sync/atomic"

	rhp2 "go.sia.tech/core/rhp/v2"
	rhp4 "go.sia.tech/core/rhp/v4"
	"verif/internal/harness"
)

func numCPU() int { return runtime.NumCPU() }

// ---- concurrency (run from the -race build; checkptr is on there as well):
// several goroutines call the fan-out root functions and the builders on the SAME
// sector / cache / root list; every result is still compared with the model. ------

func runRace(b *harness.B, wantCPU int) {
	if wantCPU > 0 && numCPU() != wantCPU {
		b.Inconclusive(fmt.Sprintf("could not restrict the batch to %d CPU(s): runtime.NumCPU()=%d", wantCPU, numCPU()))
	}
	b.SetAdd("numcpu_seen_in_race_batches", fmt.Sprint(numCPU()))
	b.SetAdd("sector_root_fanout_goroutines", fmt.Sprint(1<<bits.Len(uint(numCPU()))))
	b.SetAdd("cpu_path_of_dispatch", cpuPath())
	nSec := b.Pick(4, 12)
	rounds := b.Pick(6, 16)
	const G = 8
	kinds := []string{"random", "zero", "random", "leafindex", "random", "ff"}
	sec := new([sectorSize]byte)
	for si := 0; si < nSec; si++ {
		kind := kinds[si%len(kinds)]
		seed := b.Rng.Uint64()
		genData(sec[:], kind, seed)
		tree := newTree(sectorLeaves(sec[:]))
		root := tree.root()
		pristine := refSum(sec[:])
		cache := rhp4.CachedSectorSubtrees(sec)
		cacheSum := hashHs(cache)
		rseed := b.Rng.Uint64()
		roots := genRoots(200+b.Rng.IntN(200), "random", rseed)
		rtree := newTree(roots)
		rootsSum := hashHs(roots)
		freed := []uint64{3, uint64(len(roots) - 1), 17, uint64(len(roots) - 2), 100}
		nl, _ := applyActions(roots, freeActions(freed, uint64(len(roots))))
		freedNew := mRoot(nl)
		wit := map[string]any{"sector": witData(kind, seed, sectorSize), "numcpu": numCPU(), "roots": witRoots("random", rseed, roots[:0]), "n_roots": len(roots)}
		b.Journal(fmt.Sprintf("race/sector kind=%s seed=%d numcpu=%d", kind, seed, numCPU()))

		var inflight, maxInflight atomic.Int64
		enter := func() {
			v := inflight.Add(1)
			for {
				m := maxInflight.Load()
				if v <= m || maxInflight.CompareAndSwap(m, v) {
					break
				}
			}
		}
		leave := func() { inflight.Add(-1) }
		var wg sync.WaitGroup
		start := make(chan struct{})
		for g := 0; g < G; g++ {
			wg.Add(1)
			go func(g int) {
				defer wg.Done()
				r := pcg(seed + uint64(g))
				<-start
				for round := 0; round < rounds; round++ {
					op := (g + round) % 7
					b.Guard("C16/concurrent", func() any { return map[string]any{"case": wit, "op": op} }, func() {
						enter()
						defer leave()
						switch op {
						case 0:
							if got := rhp2.SectorRoot(sec); got != root {
								rootMismatch(b, "rhp2.SectorRoot(concurrent callers)", got, root, wit)
							}
							b.Count("concurrent_SectorRoot_calls", 1)
						case 1:
							if got, err := rhp2.ReadSectorRoot(bytes.NewReader(sec[:])); err != nil || got != root {
								rootMismatch(b, "rhp2.ReadSectorRoot(concurrent callers)", got, root, wit)
							}
							b.Count("concurrent_ReadSectorRoot_calls", 1)
						case 2:
							c := rhp4.CachedSectorSubtrees(sec)
							if hashHs(c) != cacheSum || rhp4.MetaRoot(c) != root {
								rootMismatch(b, "rhp4.CachedSectorSubtrees(concurrent callers)", rhp4.MetaRoot(c), root, wit)
							}
							b.Count("concurrent_CachedSectorSubtrees_calls", 1)
						case 3:
							s := r.Uint64N(leavesPerSector)
							e := s + 1 + r.Uint64N(min(500, leavesPerSector-s))
							p := rhp2.BuildProof(sec, s, e, nil)
							v := rhp2.NewRangeProofVerifier(s, e)
							if _, err := v.ReadFrom(bytes.NewReader(sec[s*64 : e*64])); err != nil || !v.Verify(p, root) {
								b.Violate("C16/complete/RangeProofVerifier/rejects-builder-proof-with-model-roots", "under concurrent callers", map[string]any{"case": wit, "start": s, "end": e})
							} else {
								b.Count("proofs_verified", 1)
							}
						case 4:
							s := r.Uint64N(leavesPerSector)
							e := s + 1 + r.Uint64N(min(500, leavesPerSector-s))
							rs, re := rhp4.SectorSubtreeRange(s, e)
							p := rhp4.BuildSectorProof(sec[rs*64:re*64], s, e, cache) // shared cache, shared sector memory
							if !rhp2.VerifySectorRangeProof(p, tree.leaves[s:e], s, e, leavesPerSector, root) {
								b.Violate("C16/complete/VerifySectorRangeProof(leaf hashes)/rejects-builder-proof-with-model-roots", "under concurrent callers", map[string]any{"case": wit, "start": s, "end": e})
							} else {
								b.Count("proofs_verified", 1)
							}
						case 5:
							n := uint64(len(roots))
							s := r.Uint64N(n)
							e := s + 1 + r.Uint64N(n-s)
							if got := rhp2.MetaRoot(roots); got != rtree.root() {
								rootMismatch(b, "rhp2.MetaRoot(concurrent callers)", got, rtree.root(), wit)
							}
							p := rhp2.BuildSectorRangeProof(roots, s, e)
							if !rhp2.VerifySectorRangeProof(p, roots[s:e], s, e, n, rtree.root()) {
								b.Violate("C16/complete/VerifySectorRangeProof/rejects-builder-proof-with-model-roots", "under concurrent callers", map[string]any{"case": wit, "start": s, "end": e})
							} else {
								b.Count("proofs_verified", 1)
							}
						case 6:
							n := uint64(len(roots))
							th, lh := rhp4.BuildFreeSectorsProof(roots, freed) // shared inputs
							if !rhp4.VerifyFreeSectorsProof(th, lh, freed, n, rtree.root(), freedNew) {
								b.Violate("C16/complete/VerifyFreeSectorsProof/rejects-builder-proof-with-model-roots", "under concurrent callers", map[string]any{"case": wit, "freed": freed})
							} else {
								b.Count("proofs_verified", 1)
							}
							k := 1 + r.IntN(100)
							sp, nr := rhp4.BuildAppendProof(roots[:k], roots[k:])
							if nr != rtree.root() || !rhp4.VerifyAppendSectorsProof(uint64(k), sp, roots[k:], rtree.sub(0, k), rtree.root()) {
								b.Violate("C16/complete/VerifyAppendSectorsProof/rejects-builder-proof-with-model-roots", "under concurrent callers", map[string]any{"case": wit, "n_old": k})
							} else {
								b.Count("proofs_verified", 1)
							}
						}
					})
					b.Eval(1)
				}
			}(g)
		}
		// the memoising model trees are not safe for concurrent use: warm what the goroutines read
		rtree.root()
		for k := 1; k <= 100; k++ {
			rtree.sub(0, k)
		}
		close(start)
		wg.Wait()
		b.MaxOf("race_overlap_max", maxInflight.Load())
		if refSum(sec[:]) != pristine || hashHs(cache) != cacheSum || hashHs(roots) != rootsSum {
			b.Violate("C16/concurrent/shared-input-modified", "a shared sector / cache / root list changed while only library readers ran", wit)
		}
		b.Distinct("race", kind, numCPU(), si)
		for op := 0; op < 7; op++ {
			b.Distinct("race-op", op, numCPU(), kind)
		}
	}
	b.Count("race_build_batches_run", 1)
}
