package main

import (
	"bytes"
	"encoding/hex"
	"fmt"
	"unsafe"

	"go.sia.tech/core/blake2b"
	"verif/internal/harness"
)

// ---- CPU paths: hashBlocksAVX2 vs hashBlocksGeneric vs the reference, in guard
// paged buffers ------------------------------------------------------------------

var blockKinds = []string{"random", "zero", "ff", "same4", "onebitdiff", "counter", "highbits", "bytepos"}

func genBlocks(dst *[256]byte, kind string, b *harness.B) {
	r := b.Rng
	switch kind {
	case "random":
		fillRandom(dst[:], r)
	case "zero":
		clear(dst[:])
	case "ff":
		for i := range dst {
			dst[i] = 0xFF
		}
	case "same4":
		fillRandom(dst[:64], r)
		copy(dst[64:], dst[:64])
		copy(dst[128:], dst[:128])
	case "onebitdiff":
		fillRandom(dst[:64], r)
		copy(dst[64:], dst[:64])
		copy(dst[128:], dst[:128])
		for k := 1; k < 4; k++ {
			bit := r.IntN(512)
			dst[k*64+bit/8] ^= 1 << (bit % 8)
		}
	case "counter":
		for i := range dst {
			dst[i] = byte(i)
		}
	case "highbits":
		for i := range dst {
			dst[i] = 0x80
		}
		dst[r.IntN(256)] = 0x7F
	case "bytepos":
		// a single non-zero byte at each position of one of the four blocks in turn
		clear(dst[:])
		dst[r.IntN(256)] = byte(1 + r.IntN(255))
	}
}

func refBlocks(msgs *[256]byte, prefix byte) (out [128]byte) {
	var buf [65]byte
	buf[0] = prefix
	for k := 0; k < 4; k++ {
		copy(buf[1:], msgs[k*64:k*64+64])
		h := refSum(buf[:])
		copy(out[k*32:], h[:])
	}
	return
}

type placement struct {
	name string
	high bool
	off  int
}

func placements() []placement {
	ps := []placement{{"lo+0", false, 0}, {"hi-0", true, 0}}
	for a := 1; a <= 7; a++ {
		ps = append(ps, placement{fmt.Sprintf("lo+%d", a), false, a}, placement{fmt.Sprintf("hi-%d", a), true, a})
	}
	return ps
}

func (p placement) slice(g *guardRegion, size int) []byte {
	if p.high {
		return g.high(size, p.off)
	}
	return g.low(size, p.off)
}

const canary = 0xA5

func runCPUPaths(b *harness.B) {
	// the fast reference vs the from-the-RFC reference
	{
		r := b.SubRng("refhash")
		n := b.Pick(4000, 40000)
		for i := 0; i < n; i++ {
			l := 65
			if i%4 == 0 {
				l = r.IntN(400)
			}
			buf := make([]byte, l)
			fillRandom(buf, r)
			if i%7 == 0 && l > 0 {
				buf[0] = byte(i % 2)
			}
			if refSum(buf) != rfcBlake2b256(buf) {
				b.Violate("C16/cpu/reference-hashes-disagree", "x/crypto blake2b.Sum256 differs from the RFC 7693 reference implementation of this check (the oracle itself is in doubt)",
					map[string]any{"input": hex.EncodeToString(buf)})
				return
			}
		}
		if got := hex.EncodeToString(func() []byte { h := rfcBlake2b256([]byte("abc")); return h[:] }()); got != "bddd813c634239723171ef3fee98579b94964e3bb1cb3e427262c8c068d52319" {
			b.Violate("C16/cpu/reference-hash-vector", "RFC reference BLAKE2b-256(\"abc\") = "+got, nil)
			return
		}
		b.Count("ref_hash_crosschecked", n)
	}

	inR, outR := newGuardRegion(4096), newGuardRegion(4096)
	defer inR.free()
	defer outR.free()
	b.Count("guard_page_control_faults", inR.controlFaults()+outR.controlFaults())

	if !hasAVX2() {
		b.Inconclusive("this CPU/environment has no AVX2: the assembly path could not be exercised")
	}
	ps := placements()
	n := b.Pick(250000, 2500000)
	var blocks [256]byte
	canaryPage := bytes.Repeat([]byte{canary}, len(inR.mid))
	copy(inR.mid, canaryPage)
	copy(outR.mid, canaryPage)
	for i := 0; i < n; i++ {
		if i%512 == 0 {
			b.JournalReset()
		}
		kind := blockKinds[i%len(blockKinds)]
		if i%3 != 0 {
			kind = "random"
		}
		genBlocks(&blocks, kind, b)
		prefix := uint64(i>>1) & 1
		pin := ps[b.Rng.IntN(len(ps))]
		pout := ps[b.Rng.IntN(len(ps))]
		if i < 4*len(ps)*len(ps) { // every (in,out) placement pair at least 4 times
			pin, pout = ps[i%len(ps)], ps[(i/len(ps))%len(ps)]
		}
		alias := i%5 == 4 // outs == first half of msgs, as mergeNodeBuf and root4 call it
		want := refBlocks(&blocks, byte(prefix))
		if i%16 == 0 {
			var buf [65]byte
			buf[0] = byte(prefix)
			copy(buf[1:], blocks[:64])
			if h := rfcBlake2b256(buf[:]); !bytes.Equal(h[:], want[:32]) {
				b.Violate("C16/cpu/reference-hashes-disagree", "reference hashes disagree on a 65-byte input", map[string]any{"input": hex.EncodeToString(buf[:])})
			}
			b.Count("ref_hash_crosschecked", 1)
		}

		in := pin.slice(inR, 256)
		out := pout.slice(outR, 128)
		if alias {
			out = in[:128:128]
		}
		shape := fmt.Sprintf("in=%s,out=%s,alias=%v", pin.name, pout.name, alias)
		wit := func(fn string) map[string]any {
			return map[string]any{"fn": fn, "prefix": prefix, "msgs": hex.EncodeToString(blocks[:]), "placement": shape}
		}
		check := func(fn string, call func(o *[4][32]byte, m *[4][64]byte)) {
			copy(in, blocks[:])
			if !alias {
				for j := range out {
					out[j] = canary
				}
			}
			b.Journal(fmt.Sprintf("cpu/%s[%s] prefix=%d msgs=%s", fn, shape, prefix, hex.EncodeToString(blocks[:])))
			call((*[4][32]byte)(unsafe.Pointer(&out[0])), (*[4][64]byte)(unsafe.Pointer(&in[0])))
			b.Count("guard_page_calls", 1)
			if !bytes.Equal(out, want[:]) {
				b.Violate(fmt.Sprintf("C16/cpu/%s-differs-from-reference/prefix=%d", fn, prefix),
					fmt.Sprintf("%s(prefix=%d) = %x, BLAKE2b-256(prefix||msg) = %x (%s)", fn, prefix, out, want[:], shape), wit(fn))
			}
			if !alias && !bytes.Equal(in, blocks[:]) {
				b.Violate("C16/cpu/"+fn+"-modified-its-input", "message blocks changed by the call ("+shape+")", wit(fn))
			}
			// nothing outside the two buffers may have been written
			okCanary := func(page []byte, buf []byte) bool {
				lo, ln := 0, 0
				if buf != nil {
					lo, ln = int(uintptr(unsafe.Pointer(&buf[0]))-uintptr(unsafe.Pointer(&page[0]))), len(buf)
				}
				return bytes.Equal(page[:lo], canaryPage[:lo]) && bytes.Equal(page[lo+ln:], canaryPage[lo+ln:])
			}
			outBuf := out
			if alias {
				outBuf = nil
			}
			if !okCanary(inR.mid, in) || !okCanary(outR.mid, outBuf) {
				b.Violate("C16/cpu/"+fn+"-wrote-outside-its-buffers", "canary bytes next to the buffers changed ("+shape+")", wit(fn))
				copy(inR.mid, canaryPage)
				copy(outR.mid, canaryPage)
			}
		}
		if hasAVX2() {
			check("hashBlocksAVX2", func(o *[4][32]byte, m *[4][64]byte) { hashBlocksAVX2(o, m, prefix) })
			b.Count("avx2_blocks_checked", 4)
		}
		check("hashBlocksGeneric", func(o *[4][32]byte, m *[4][64]byte) { blake2b.VerifHashBlocksGeneric(o, m, prefix) })
		b.Count("generic_blocks_checked", 4)
		check("hashBlocks", func(o *[4][32]byte, m *[4][64]byte) { blake2b.VerifHashBlocks(o, m, prefix) })
		if prefix == 0 {
			check("SumLeaves", func(o *[4][32]byte, m *[4][64]byte) { blake2b.SumLeaves(o, m) })
		} else {
			check("SumNodes", func(o *[4][32]byte, m *[4][64]byte) {
				blake2b.SumNodes(o, (*[8][32]byte)(unsafe.Pointer(m)))
			})
		}
		// single-block forms on the first block
		{
			copy(in, blocks[:])
			m := (*[64]byte)(unsafe.Pointer(&in[0]))
			var got [32]byte
			name := "SumLeaf"
			if prefix == 0 {
				got = blake2b.SumLeaf(m)
			} else {
				name = "SumPair"
				got = blake2b.SumPair(*(*[32]byte)(in[:32]), *(*[32]byte)(in[32:64]))
			}
			if !bytes.Equal(got[:], want[:32]) {
				b.Violate("C16/cpu/"+name+"-differs-from-reference", fmt.Sprintf("%s = %x want %x", name, got, want[:32]), wit(name))
			}
			if g := blake2b.VerifHashBlock(m, prefix); !bytes.Equal(g[:], want[:32]) {
				b.Violate("C16/cpu/hashBlock-differs-from-reference", fmt.Sprintf("hashBlock = %x want %x", g, want[:32]), wit("hashBlock"))
			}
			if g := blake2b.VerifHashBlockGeneric(m, prefix); !bytes.Equal(g[:], want[:32]) {
				b.Violate("C16/cpu/hashBlockGeneric-differs-from-reference", fmt.Sprintf("hashBlockGeneric = %x want %x", g, want[:32]), wit("hashBlockGeneric"))
			}
		}
		copy(in, canaryPage)
		if !alias {
			copy(out, canaryPage)
		}
		b.Eval(1)
		b.Distinct("cpu", kind, prefix, pin.name, pout.name, alias)
		if i == 0 {
			b.Sample(map[string]any{"kind": "cpu-path case", "content": kind, "prefix": prefix, "placement": shape})
		}
	}
	b.SetAdd("cpu_path_of_dispatch", cpuPath())
}
