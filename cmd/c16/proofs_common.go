package main

import (
	"fmt"

	"verif/internal/harness"
)

// accept runs the verifier on the builder's untampered proof (completeness; it
// is also the positive control of every tamper family).
func accept(b *harness.B, verifier string, wit func() any, f func() bool) bool {
	b.Eval(1)
	ok := false
	if b.Guard("C16/complete/"+verifier, wit, func() { ok = f() }) {
		return false
	}
	if !ok {
		b.Violate("C16/complete/"+verifier+"/rejects-builder-proof-with-model-roots",
			verifier+" rejected the proof made by the matching builder although the roots are those of the naive Merkle tree over the same data and the true count was given", wit())
		return false
	}
	b.Count("proofs_verified", 1)
	b.SetAdd("verifiers_accepting_builder_proofs", verifier)
	return true
}

// tamper runs the verifier on a singly corrupted input; the count is the true
// one. Acceptance is a violation; so is a panic (the corrupted indices are kept
// inside the range the verifier treats as legal).
func tamper(b *harness.B, verifier, kind string, wit func() any, what string, f func() bool) {
	b.Eval(1)
	acc := false
	w := func() any { return map[string]any{"case": wit(), "corruption": kind, "what": what} }
	if b.Guard("C16/sound/"+verifier+"/"+kind, w, func() { acc = f() }) {
		return
	}
	if acc {
		b.Violate("C16/sound/"+verifier+"/accepts-"+kind,
			fmt.Sprintf("%s accepted although %s (true element count given)", verifier, what), w())
		return
	}
	b.Count("corruptions_rejected", 1)
	b.SetAdd("corruption_kinds_rejected", verifier+"/"+kind)
}

// observe notes a corruption the verifier's contract does not promise to detect.
func observe(b *harness.B, verifier, kind string, accepted bool) {
	if accepted {
		b.Count(fmt.Sprintf("not_demanded:%s/%s:accepted", verifier, kind), 1)
	} else {
		b.Count(fmt.Sprintf("not_demanded:%s/%s:rejected", verifier, kind), 1)
	}
}

// pickIdx returns every index below n when all is set, else up to k indices
// (first, last and random ones).
func pickIdx(b *harness.B, n int, all bool, k int) []int {
	if n <= 0 {
		return nil
	}
	if all || n <= k {
		out := make([]int, n)
		for i := range out {
			out[i] = i
		}
		return out
	}
	out := []int{0, n - 1}
	for len(out) < k {
		out = append(out, b.Rng.IntN(n))
	}
	return out
}

func withHash(hs []H, i int, h H) []H {
	out := cloneHs(hs)
	out[i] = h
	return out
}

func without(hs []H, i int) []H {
	out := make([]H, 0, len(hs))
	out = append(out, hs[:i]...)
	return append(out, hs[i+1:]...)
}

func randHash(b *harness.B) H {
	var h H
	fillRandom(h[:], b.Rng)
	return h
}
