//go:build !amd64

package main

func hasAVX2() bool { return false }

func hashBlocksAVX2(outs *[4][32]byte, msgs *[4][64]byte, prefix uint64) {
	panic("no AVX2 path on this architecture")
}
