package main

import (
	"fmt"
	"math/bits"

	rhp2 "go.sia.tech/core/rhp/v2"
	rhp4 "go.sia.tech/core/rhp/v4"
	"verif/internal/harness"
)

// ---- append proofs: rhp4.BuildAppendProof / VerifyAppendSectorsProof and the
// single-sector rhp2.VerifyAppendProof ------------------------------------------------

func runAppend(b *harness.B, share, shares int, light bool) {
	maxN, maxK := b.Pick(300, 1024), 8
	if light {
		maxN, maxK = 40, 2
	}
	seed := b.Rng.Uint64()
	list := genRoots(maxN+maxK, "random", seed)
	tree := newTree(list)
	for n := 0; n <= maxN; n++ {
		if n%shares != share {
			continue
		}
		for k := 0; k <= maxK; k++ {
			appendCase(b, list, tree, seed, n, k, true)
			b.Distinct("append", n, k)
		}
	}
	b.MaxOf("append_exhaustive_up_to_n", int64(maxN))
	b.MaxOf("append_exhaustive_up_to_batch", int64(maxK))

	// bigger trees
	var ns []int
	for k := 9; k <= 16; k++ {
		ns = append(ns, 1<<k-1, 1<<k, 1<<k+1)
	}
	for k := 0; k < b.Pick(60, 1200); k++ {
		ns = append(ns, 301+b.Rng.IntN(1<<16))
	}
	if light {
		ns = []int{1023, 4096, 65537}
	}
	bigSeed := b.Rng.Uint64()
	big := genRoots(1<<16+400+64, "random", bigSeed)
	bigTree := newTree(big)
	for i, n := range ns {
		if i%shares != share {
			continue
		}
		k := 1 + b.Rng.IntN(64)
		if i%5 == 0 {
			k = 1
		}
		appendCase(b, big, bigTree, bigSeed, n, k, false)
		b.Distinct("append", nClass(uint64(n)), k)
	}
}

func appendCase(b *harness.B, list []H, tree *mTree, seed uint64, n, k int, all bool) {
	old, appended := list[:n], list[n:n+k]
	oldRoot, newRoot := tree.sub(0, n), tree.sub(0, n+k)
	wit := func() any {
		return map[string]any{"roots": witRoots("random", seed, list[:n+k]), "n_old": n, "appended": k,
			"note": "old sector roots = first n_old of the list, appended = the next k", "model_old_root": hx(oldRoot), "model_new_root": hx(newRoot)}
	}
	var proof []H
	var builderNew H
	if b.Guard("C16/build/BuildAppendProof", wit, func() { proof, builderNew = rhp4.BuildAppendProof(old, appended) }) {
		return
	}
	if builderNew != newRoot {
		rootMismatch(b, "rhp4.BuildAppendProof(new root)", builderNew, newRoot, wit())
	}
	if len(proof) != bits.OnesCount(uint(n)) {
		b.Count("append_proof_length_differs_from_popcount(n)(observed)", 1)
	}
	if !equalHs(proof, tree.decomposition(n)) {
		b.Count("append_proof_differs_from_model_subtree_roots(observed)", 1)
	}
	N := uint64(n)
	name := "VerifyAppendSectorsProof"
	verify := func(p, app []H, o, nw H) bool { return rhp4.VerifyAppendSectorsProof(N, p, app, o, nw) }
	if !accept(b, name, wit, func() bool { return verify(proof, appended, oldRoot, newRoot) }) {
		return
	}
	kk := 4
	for _, i := range pickIdx(b, len(proof), all, kk) {
		bad := withHash(proof, i, flipBit(proof[i], b.Rng))
		tamper(b, name, "proof-hash-bit-flipped", wit, fmt.Sprintf("subtree root %d has one bit flipped", i), func() bool { return verify(bad, appended, oldRoot, newRoot) })
		short := without(proof, i)
		tamper(b, name, "proof-shortened", wit, fmt.Sprintf("subtree root %d is missing", i), func() bool { return verify(short, appended, oldRoot, newRoot) })
	}
	for _, i := range pickIdx(b, len(appended), all, kk) {
		bad := withHash(appended, i, flipBit(appended[i], b.Rng))
		tamper(b, name, "appended-root-bit-flipped", wit, fmt.Sprintf("appended root %d has one bit flipped", i), func() bool { return verify(proof, bad, oldRoot, newRoot) })
	}
	if k > 0 {
		tamper(b, name, "appended-root-dropped", wit, "the last appended root is missing", func() bool { return verify(proof, appended[:k-1], oldRoot, newRoot) })
	}
	tamper(b, name, "appended-root-added", wit, "one more root is appended than the new root covers", func() bool { return verify(proof, append(cloneHs(appended), randHash(b)), oldRoot, newRoot) })
	if k >= 2 {
		tamper(b, name, "appended-roots-swapped", wit, "the first two appended roots are exchanged", func() bool {
			bad := cloneHs(appended)
			bad[0], bad[1] = bad[1], bad[0]
			return verify(proof, bad, oldRoot, newRoot)
		})
	}
	tamper(b, name, "old-root-bit-flipped", wit, "the old root has one bit flipped", func() bool { return verify(proof, appended, flipBit(oldRoot, b.Rng), newRoot) })
	tamper(b, name, "new-root-bit-flipped", wit, "the new root has one bit flipped", func() bool { return verify(proof, appended, oldRoot, flipBit(newRoot, b.Rng)) })
	if len(proof) >= 2 {
		tamper(b, name, "proof-hashes-swapped", wit, "the first two subtree roots are exchanged", func() bool {
			bad := cloneHs(proof)
			bad[0], bad[1] = bad[1], bad[0]
			return verify(bad, appended, oldRoot, newRoot)
		})
	}
	// the verifier takes as many hashes as the count has bits and does not look at the
	// rest: the length is not fixed by it, so a longer proof is only observed.
	b.Guard("C16/sound/"+name+"/proof-lengthened", wit, func() {
		observe(b, name, "proof-lengthened(length not fixed by this verifier)", verify(append(cloneHs(proof), randHash(b)), appended, oldRoot, newRoot))
	})

	// rhp2.VerifyAppendProof: the same proof for exactly one appended sector
	if k == 1 {
		name := "rhp2.VerifyAppendProof"
		v2 := func(p []H, sr, o, nw H) bool { return rhp2.VerifyAppendProof(N, p, sr, o, nw) }
		if !accept(b, name, wit, func() bool { return v2(proof, appended[0], oldRoot, newRoot) }) {
			return
		}
		for _, i := range pickIdx(b, len(proof), all, kk) {
			bad := withHash(proof, i, flipBit(proof[i], b.Rng))
			tamper(b, name, "proof-hash-bit-flipped", wit, fmt.Sprintf("tree hash %d has one bit flipped", i), func() bool { return v2(bad, appended[0], oldRoot, newRoot) })
			short := without(proof, i)
			tamper(b, name, "proof-shortened", wit, fmt.Sprintf("tree hash %d is missing", i), func() bool { return v2(short, appended[0], oldRoot, newRoot) })
		}
		tamper(b, name, "appended-root-bit-flipped", wit, "the appended sector root has one bit flipped", func() bool { return v2(proof, flipBit(appended[0], b.Rng), oldRoot, newRoot) })
		tamper(b, name, "old-root-bit-flipped", wit, "the old root has one bit flipped", func() bool { return v2(proof, appended[0], flipBit(oldRoot, b.Rng), newRoot) })
		tamper(b, name, "new-root-bit-flipped", wit, "the new root has one bit flipped", func() bool { return v2(proof, appended[0], oldRoot, flipBit(newRoot, b.Rng)) })
		b.Guard("C16/sound/"+name+"/proof-lengthened", wit, func() {
			observe(b, name, "proof-lengthened(length not fixed by this verifier)", v2(append(cloneHs(proof), randHash(b)), appended[0], oldRoot, newRoot))
		})
	}
}
