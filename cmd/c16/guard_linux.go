package main

import (
	"os"
	"runtime"
	"runtime/debug"
	"strconv"
	"syscall"
	"unsafe"
)

// guardRegion is a run of read/write pages with an inaccessible page on each
// side: an access one byte below lo() or at/after hi() faults.
type guardRegion struct {
	all  []byte
	page int
	mid  []byte // the accessible pages
}

func newGuardRegion(size int) *guardRegion {
	page := syscall.Getpagesize()
	pages := (size + page - 1) / page
	if pages == 0 {
		pages = 1
	}
	all, err := syscall.Mmap(-1, 0, (pages+2)*page, syscall.PROT_READ|syscall.PROT_WRITE, syscall.MAP_ANON|syscall.MAP_PRIVATE)
	if err != nil {
		panic("mmap: " + err.Error())
	}
	if err := syscall.Mprotect(all[:page], syscall.PROT_NONE); err != nil {
		panic("mprotect: " + err.Error())
	}
	if err := syscall.Mprotect(all[(pages+1)*page:], syscall.PROT_NONE); err != nil {
		panic("mprotect: " + err.Error())
	}
	return &guardRegion{all: all, page: page, mid: all[page : (pages+1)*page : (pages+1)*page]}
}

func (g *guardRegion) free() { syscall.Munmap(g.all) }

// low returns size bytes flush against the lower guard page (+off bytes).
func (g *guardRegion) low(size, off int) []byte { return g.mid[off : off+size : off+size] }

// high returns size bytes flush against the upper guard page (-off bytes).
func (g *guardRegion) high(size, off int) []byte {
	e := len(g.mid) - off
	return g.mid[e-size : e : e]
}

// probeFault reads one byte at p and reports whether that faulted (positive
// control of the guard pages: the monitor can see an out-of-bounds access).
func probeFault(p unsafe.Pointer) (faulted bool) {
	old := debug.SetPanicOnFault(true)
	defer debug.SetPanicOnFault(old)
	defer func() {
		if recover() != nil {
			faulted = true
		}
	}()
	sink = *(*byte)(p)
	return false
}

var sink byte

// controlFaults checks both guard pages of a region really fault.
func (g *guardRegion) controlFaults() int {
	n := 0
	if probeFault(unsafe.Add(unsafe.Pointer(&g.mid[0]), -1)) {
		n++
	}
	if probeFault(unsafe.Add(unsafe.Pointer(&g.mid[len(g.mid)-1]), 1)) {
		n++
	}
	return n
}

// maybePin re-executes a child batch under a reduced CPU affinity mask when
// C16_NUMCPU is set, so that runtime.NumCPU() (read once at start-up) and with
// it the fan-out of SectorRoot / ReadSectorRoot changes (1 -> 2 goroutines,
// 3 -> 4, 16 -> 32).
func maybePin() {
	want, _ := strconv.Atoi(os.Getenv("C16_NUMCPU"))
	if want <= 0 || os.Getenv("C16_PINNED") != "" {
		return
	}
	isChild := false
	for _, a := range os.Args[1:] {
		if a == "-child" || a == "--child" {
			isChild = true
		}
	}
	if !isChild {
		return
	}
	runtime.LockOSThread()
	var mask [16]uint64
	if _, _, e := syscall.RawSyscall(syscall.SYS_SCHED_GETAFFINITY, 0, unsafe.Sizeof(mask), uintptr(unsafe.Pointer(&mask))); e != 0 {
		return
	}
	var nm [16]uint64
	kept := 0
	for i := 0; i < len(mask)*64 && kept < want; i++ {
		if mask[i/64]&(1<<(i%64)) != 0 {
			nm[i/64] |= 1 << (i % 64)
			kept++
		}
	}
	if kept != want {
		return
	}
	if _, _, e := syscall.RawSyscall(syscall.SYS_SCHED_SETAFFINITY, 0, unsafe.Sizeof(nm), uintptr(unsafe.Pointer(&nm))); e != 0 {
		return
	}
	os.Setenv("C16_PINNED", strconv.Itoa(want))
	exe, err := os.Executable()
	if err != nil {
		return
	}
	syscall.Exec(exe, os.Args, os.Environ())
}
