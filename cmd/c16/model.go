package main

// The independent half of C16: a BLAKE2b-256 written from RFC 7693 and a naive
// recursive Merkle tree written from the RFC 6962 shape the library documents
// (leaf = H(0x00 || 64 bytes), node = H(0x01 || left || right), a tree over n
// leaves splits at the largest power of two strictly smaller than n, the
// root of one leaf is the leaf hash itself, the root of nothing is the zero
// hash). Nothing here calls SumLeaf/SumPair/SumNodes/Accumulator/MetaRoot.

import (
	"encoding/binary"
	"math/bits"

	"go.sia.tech/core/blake2b"
	"go.sia.tech/core/types"
)

type H = types.Hash256

// ---- BLAKE2b-256 from RFC 7693 (unkeyed, one shot) ---------------------------

var b2IV = [8]uint64{
	0x6a09e667f3bcc908, 0xbb67ae8584caa73b, 0x3c6ef372fe94f82b, 0xa54ff53a5f1d36f1,
	0x510e527fade682d1, 0x9b05688c2b3e6c1f, 0x1f83d9abfb41bd6b, 0x5be0cd19137e2179,
}

var b2Sigma = [10][16]byte{
	{0, 1, 2, 3, 4, 5, 6, 7, 8, 9, 10, 11, 12, 13, 14, 15},
	{14, 10, 4, 8, 9, 15, 13, 6, 1, 12, 0, 2, 11, 7, 5, 3},
	{11, 8, 12, 0, 5, 2, 15, 13, 10, 14, 3, 6, 7, 1, 9, 4},
	{7, 9, 3, 1, 13, 12, 11, 14, 2, 6, 5, 10, 4, 0, 15, 8},
	{9, 0, 5, 7, 2, 4, 10, 15, 14, 1, 11, 12, 6, 8, 3, 13},
	{2, 12, 6, 10, 0, 11, 8, 3, 4, 13, 7, 5, 15, 14, 1, 9},
	{12, 5, 1, 15, 14, 13, 4, 10, 0, 7, 6, 3, 9, 2, 8, 11},
	{13, 11, 7, 14, 12, 1, 3, 9, 5, 0, 15, 4, 8, 6, 2, 10},
	{6, 15, 14, 9, 11, 3, 0, 8, 12, 2, 13, 7, 1, 4, 10, 5},
	{10, 2, 8, 4, 7, 6, 1, 5, 15, 11, 9, 14, 3, 12, 13, 0},
}

func b2Compress(h *[8]uint64, block *[128]byte, t uint64, last bool) {
	var m [16]uint64
	for i := range m {
		m[i] = binary.LittleEndian.Uint64(block[i*8:])
	}
	var v [16]uint64
	copy(v[:8], h[:])
	copy(v[8:], b2IV[:])
	v[12] ^= t // low word of the offset counter (inputs here are far below 2^64 bytes)
	if last {
		v[14] = ^v[14]
	}
	g := func(a, b, c, d int, x, y uint64) {
		v[a] = v[a] + v[b] + x
		v[d] = bits.RotateLeft64(v[d]^v[a], -32)
		v[c] = v[c] + v[d]
		v[b] = bits.RotateLeft64(v[b]^v[c], -24)
		v[a] = v[a] + v[b] + y
		v[d] = bits.RotateLeft64(v[d]^v[a], -16)
		v[c] = v[c] + v[d]
		v[b] = bits.RotateLeft64(v[b]^v[c], -63)
	}
	for r := 0; r < 12; r++ {
		s := &b2Sigma[r%10]
		g(0, 4, 8, 12, m[s[0]], m[s[1]])
		g(1, 5, 9, 13, m[s[2]], m[s[3]])
		g(2, 6, 10, 14, m[s[4]], m[s[5]])
		g(3, 7, 11, 15, m[s[6]], m[s[7]])
		g(0, 5, 10, 15, m[s[8]], m[s[9]])
		g(1, 6, 11, 12, m[s[10]], m[s[11]])
		g(2, 7, 8, 13, m[s[12]], m[s[13]])
		g(3, 4, 9, 14, m[s[14]], m[s[15]])
	}
	for i := range h {
		h[i] ^= v[i] ^ v[i+8]
	}
}

// rfcBlake2b256 is the from-the-RFC reference (slow; used to cross-check the
// fast reference below and on a sample of the CPU-path cases).
func rfcBlake2b256(data []byte) (out [32]byte) {
	h := b2IV
	h[0] ^= 0x01010000 ^ 32
	var t uint64
	for len(data) > 128 {
		var blk [128]byte
		copy(blk[:], data[:128])
		t += 128
		b2Compress(&h, &blk, t, false)
		data = data[128:]
	}
	var blk [128]byte
	copy(blk[:], data)
	t += uint64(len(data))
	b2Compress(&h, &blk, t, true)
	for i := 0; i < 4; i++ {
		binary.LittleEndian.PutUint64(out[i*8:], h[i])
	}
	return
}

// refSum is the fast reference hash: golang.org/x/crypto/blake2b.Sum256 (core's
// blake2b.Sum256 is a one-line re-export of it; importing x/crypto directly
// would make `go build -mod=mod` rewrite the shared go.mod). It is hashing the
// plainly concatenated bytes and shares no code with hashBlocksAVX2; it is
// itself cross-checked against rfcBlake2b256.
func refSum(b []byte) [32]byte { return blake2b.Sum256(b) }

func mLeaf(leaf []byte) H {
	var buf [65]byte
	buf[0] = 0x00
	if copy(buf[1:], leaf) != 64 || len(leaf) != 64 {
		panic("model: leaf must be 64 bytes")
	}
	return refSum(buf[:])
}

func mNode(l, r H) H {
	var buf [65]byte
	buf[0] = 0x01
	copy(buf[1:33], l[:])
	copy(buf[33:], r[:])
	return refSum(buf[:])
}

// splitPoint is the largest power of two strictly smaller than n (n >= 2).
func splitPoint(n int) int {
	k := 1
	for k*2 < n {
		k *= 2
	}
	return k
}

// mRoot is the definition, verbatim.
func mRoot(hs []H) H {
	switch len(hs) {
	case 0:
		return H{}
	case 1:
		return hs[0]
	}
	k := splitPoint(len(hs))
	return mNode(mRoot(hs[:k]), mRoot(hs[k:]))
}

// mTree is mRoot with memoisation of sub-roots so that many ranges over the same
// leaves are cheap. sub(lo,hi) is the root of the tree over leaves[lo:hi].
type mTree struct {
	leaves []H
	memo   map[uint64]H
}

func newTree(leaves []H) *mTree {
	return &mTree{leaves: leaves, memo: make(map[uint64]H, len(leaves))}
}

func (t *mTree) sub(lo, hi int) H {
	switch hi - lo {
	case 0:
		return H{}
	case 1:
		return t.leaves[lo]
	}
	key := uint64(lo)<<32 | uint64(hi)
	if h, ok := t.memo[key]; ok {
		return h
	}
	k := splitPoint(hi - lo)
	h := mNode(t.sub(lo, lo+k), t.sub(lo+k, hi))
	t.memo[key] = h
	return h
}

func (t *mTree) root() H { return t.sub(0, len(t.leaves)) }

// rangeProof: the roots of the maximal subtrees of the tree over all leaves that
// lie wholly outside [start,end), left to right.
func (t *mTree) rangeProof(start, end int) []H {
	var proof []H
	var rec func(lo, hi int)
	rec = func(lo, hi int) {
		if hi <= lo {
			return
		}
		if lo >= start && hi <= end {
			return
		}
		if hi <= start || lo >= end {
			proof = append(proof, t.sub(lo, hi))
			return
		}
		k := splitPoint(hi - lo)
		rec(lo, lo+k)
		rec(lo+k, hi)
	}
	rec(0, len(t.leaves))
	return proof
}

// auditPath is RFC 6962 PATH(m, D[n]) (leaf-to-root order).
func (t *mTree) auditPath(m int) []H {
	var rec func(m, lo, hi int) []H
	rec = func(m, lo, hi int) []H {
		if hi-lo <= 1 {
			return nil
		}
		k := splitPoint(hi - lo)
		if m < k {
			return append(rec(m, lo, lo+k), t.sub(lo+k, hi))
		}
		return append(rec(m-k, lo+k, hi), t.sub(lo, lo+k))
	}
	return rec(m, 0, len(t.leaves))
}

// decomposition: roots of the perfect subtrees of the binary decomposition of
// the first n leaves, smallest (rightmost) first.
func (t *mTree) decomposition(n int) []H {
	var out []H
	off := n
	for bit := 0; bit < 63; bit++ {
		if n&(1<<bit) != 0 {
			sz := 1 << bit
			out = append(out, t.sub(off-sz, off))
			off -= sz
		}
	}
	return out
}

// sectorLeaves hashes every 64-byte leaf of data.
func sectorLeaves(data []byte) []H {
	if len(data)%64 != 0 {
		panic("model: data not leaf aligned")
	}
	out := make([]H, len(data)/64)
	for i := range out {
		out[i] = mLeaf(data[i*64 : i*64+64])
	}
	return out
}

// ---- write actions (model of the list operation the diff proof speaks about) --

type mAction struct {
	Kind string // "append" | "trim" | "swap"
	A, B uint64
	Root H // appended root
}

// applyActions returns the root list after the actions, or ok=false if an
// action is not applicable (index / trim beyond the current length).
func applyActions(roots []H, acts []mAction) (out []H, ok bool) {
	out = append([]H(nil), roots...)
	for _, a := range acts {
		switch a.Kind {
		case "append":
			out = append(out, a.Root)
		case "trim":
			if a.A > uint64(len(out)) {
				return nil, false
			}
			out = out[:uint64(len(out))-a.A]
		case "swap":
			if a.A >= uint64(len(out)) || a.B >= uint64(len(out)) {
				return nil, false
			}
			out[a.A], out[a.B] = out[a.B], out[a.A]
		}
	}
	return out, true
}

// freeActions is the swap-and-trim sequence that "free these indices" means:
// the i-th freed index is swapped with the i-th sector from the end, then
// len(freed) sectors are trimmed.
func freeActions(freed []uint64, n uint64) []mAction {
	var acts []mAction
	for i, f := range freed {
		acts = append(acts, mAction{Kind: "swap", A: f, B: n - uint64(i) - 1})
	}
	return append(acts, mAction{Kind: "trim", A: uint64(len(freed))})
}
