package main

import "go.sia.tech/core/blake2b"

func hasAVX2() bool { return blake2b.VerifHasAVX2() }

func hashBlocksAVX2(outs *[4][32]byte, msgs *[4][64]byte, prefix uint64) {
	blake2b.VerifHashBlocksAVX2(outs, msgs, prefix)
}
