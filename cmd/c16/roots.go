package main

import (
	"bytes"
	"fmt"
	"io"
	"unsafe"

	"go.sia.tech/core/blake2b"
	rhp2 "go.sia.tech/core/rhp/v2"
	rhp4 "go.sia.tech/core/rhp/v4"
	"verif/internal/harness"
)

// ---- root differential: the whole public root API vs the naive model ------------

func rootMismatch(b *harness.B, fn string, got, want H, wit any) {
	b.Violate(fmt.Sprintf("C16/root/%s/differs-from-naive-tree[cpu=%s]", fn, cpuPath()),
		fmt.Sprintf("%s = %s, naive recursive Merkle root = %s", fn, hx(got), hx(want)), wit)
}

func runRoots(b *harness.B, share, shares int) {
	b.SetAdd("cpu_path_of_dispatch", cpuPath())
	b.Count("api_root_batches_on_"+cpuPath()+"_path", 1)
	rootsSectors(b)
	rootsStreams(b, share, shares)
	rootsMeta(b, share, shares)
	rootsAccumulator(b)
}

func rootsSectors(b *harness.B) {
	n := b.Pick(48, 800)
	g := newGuardRegion(sectorSize) // exactly 1024 pages: flush against both guards
	defer g.free()
	b.Count("guard_page_control_faults", g.controlFaults())
	sec := (*[sectorSize]byte)(unsafe.Pointer(&g.mid[0]))
	bigs := bigChunkings(false)
	tiny := bigChunkings(true)[len(bigs):]
	for i := 0; i < n; i++ {
		kind := sectorKinds[i%len(sectorKinds)]
		if i%2 == 1 {
			kind = "random"
		}
		seed := b.Rng.Uint64()
		genData(sec[:], kind, seed)
		before := refSum(sec[:])
		tree := newTree(sectorLeaves(sec[:]))
		want := tree.root()
		cs := bigs[i%len(bigs)]
		if i%9 == 4 {
			cs = tiny[(i/9)%len(tiny)]
		}
		wit := map[string]any{"sector": witData(kind, seed, sectorSize), "chunking": cs, "numcpu": numCPU()}
		b.Journal(fmt.Sprintf("roots/sector kind=%s seed=%d chunk=%s", kind, seed, cs))
		b.Guard("C16/root/sector-api", func() any { return wit }, func() {
			if got := rhp2.SectorRoot(sec); got != want {
				rootMismatch(b, "rhp2.SectorRoot", got, want, wit)
			}
			if got := rhp4.SectorRoot(sec); got != want {
				rootMismatch(b, "rhp4.SectorRoot", got, want, wit)
			}
			b.Count("guard_page_calls", 2)
			if got, err := rhp2.ReadSectorRoot(bytes.NewReader(sec[:])); err != nil || got != want {
				rootMismatch(b, "rhp2.ReadSectorRoot", got, want, map[string]any{"case": wit, "err": fmt.Sprint(err)})
			}
			if got, err := rhp4.ReadSectorRoot(newChunkReader(sec[:], cs, seed)); err != nil || got != want {
				rootMismatch(b, "rhp4.ReadSectorRoot(chunked)", got, want, map[string]any{"case": wit, "err": fmt.Sprint(err)})
			}
			if got, err := rhp2.ReaderRoot(newChunkReader(sec[:], cs, seed+1)); err != nil || got != want {
				rootMismatch(b, "rhp2.ReaderRoot(sector,chunked)", got, want, map[string]any{"case": wit, "err": fmt.Sprint(err)})
			}
			// ReadSector: a longer stream must be consumed for exactly one sector
			long := io.MultiReader(newChunkReader(sec[:], cs, seed+2), bytes.NewReader(make([]byte, 777)))
			cnt := &countReader{r: long}
			got, data, err := rhp2.ReadSector(cnt)
			if i%2 == 0 {
				cnt = &countReader{r: io.MultiReader(newChunkReader(sec[:], cs, seed+2), bytes.NewReader(make([]byte, 777)))}
				got, data, err = rhp4.ReadSector(cnt)
			}
			switch {
			case err != nil || data == nil:
				b.Violate("C16/root/ReadSector/fails-on-a-full-sector", fmt.Sprintf("ReadSector returned err=%v on a stream holding a whole sector", err), wit)
			case got != want:
				rootMismatch(b, "ReadSector", got, want, wit)
			case !bytes.Equal(data[:], sec[:]):
				b.Violate("C16/root/ReadSector/returned-data-differs-from-stream", "ReadSector returned sector bytes that differ from the bytes read", wit)
			case cnt.n != sectorSize:
				b.Count("ReadSector_consumed_other_than_one_sector(observed)", 1)
			}
			// cached subtrees
			cache := rhp4.CachedSectorSubtrees(sec)
			b.Count("guard_page_calls", 1)
			if len(cache) != leavesPerSector/64 {
				b.Violate("C16/root/CachedSectorSubtrees/wrong-count", fmt.Sprintf("%d subtree roots, want %d", len(cache), leavesPerSector/64), wit)
			} else {
				for k, h := range cache {
					if w := tree.sub(k*64, k*64+64); h != w {
						rootMismatch(b, "rhp4.CachedSectorSubtrees", h, w, map[string]any{"case": wit, "subtree": k})
						break
					}
				}
				if got := rhp4.MetaRoot(cache); got != want {
					rootMismatch(b, "rhp4.MetaRoot(CachedSectorSubtrees)", got, want, wit)
				}
			}
		})
		if refSum(sec[:]) != before {
			b.Violate("C16/root/sector-api/modified-its-input", "sector bytes changed by a root computation", wit)
		}
		b.Count("sectors_rooted_"+cpuPath(), 1)
		b.Eval(1)
		b.Distinct("sector", kind, cs.String(), cpuPath())
		if i == 1 {
			b.Sample(map[string]any{"kind": "sector root differential", "sector": witData(kind, seed, sectorSize), "model_root": hx(want), "cpu": cpuPath()})
		}

		// partial streams: ReadSectorRoot roots the zero-padded sector (the repo's own
		// TestPartialReadSectorRoot fixes that meaning); a stream that is not a whole
		// number of leaves is an error; ReadSector refuses anything short.
		if i%4 == 0 {
			for _, L := range []int{0, 1 + b.Rng.IntN(leavesPerSector-1), leavesPerSector - 1} {
				padded := make([]byte, sectorSize)
				copy(padded, sec[:L*64])
				wantP := mRoot(sectorLeaves(padded))
				w2 := map[string]any{"sector": witData(kind, seed, sectorSize), "stream_leaves": L}
				b.Guard("C16/root/ReadSectorRoot(partial)", func() any { return w2 }, func() {
					if got, err := rhp2.ReadSectorRoot(newChunkReader(sec[:L*64], cs, seed)); err != nil || got != wantP {
						rootMismatch(b, "rhp2.ReadSectorRoot(partial stream)", got, wantP, map[string]any{"case": w2, "err": fmt.Sprint(err)})
					}
					cut := L*64 + 1 + b.Rng.IntN(63)
					if cut < sectorSize {
						if _, err := rhp2.ReadSectorRoot(bytes.NewReader(sec[:cut])); err == nil {
							b.Violate("C16/root/ReadSectorRoot/accepts-stream-not-multiple-of-leaf", fmt.Sprintf("no error for a %d-byte stream", cut), w2)
						} else {
							b.Count("non_leaf_aligned_streams_rejected", 1)
						}
					}
					if _, _, err := rhp2.ReadSector(bytes.NewReader(sec[:L*64])); err == nil {
						b.Violate("C16/root/ReadSector/accepts-short-stream", fmt.Sprintf("no error for a %d-byte stream", L*64), w2)
					} else {
						b.Count("short_sector_streams_rejected", 1)
					}
				})
				b.Eval(1)
				b.Distinct("sector-partial", nClass(uint64(L)), cpuPath())
			}
		}
	}
}

type countReader struct {
	r io.Reader
	n int
}

func (c *countReader) Read(p []byte) (int, error) {
	n, err := c.r.Read(p)
	c.n += n
	return n, err
}

func rootsStreams(b *harness.B, share, shares int) {
	maxL := b.Pick(100, 300)
	specs := smallChunkings()
	for L := 0; L <= maxL; L++ {
		if L%shares != share {
			continue
		}
		kind := "random"
		if L%11 == 10 {
			kind = sectorKinds[(L/11)%len(sectorKinds)]
		}
		seed := b.Rng.Uint64()
		data := make([]byte, L*64)
		genData(data, kind, seed)
		want := mRoot(sectorLeaves(data))
		for si, cs := range specs {
			wit := map[string]any{"stream": witData(kind, seed, len(data)), "chunking": cs}
			b.Guard("C16/root/ReaderRoot", func() any { return wit }, func() {
				f := rhp2.ReaderRoot
				if si%2 == 1 {
					f = rhp4.ReaderRoot
				}
				if got, err := f(newChunkReader(data, cs, seed)); err != nil || got != want {
					rootMismatch(b, "ReaderRoot", got, want, map[string]any{"case": wit, "err": fmt.Sprint(err)})
				}
				// not a whole number of leaves: must be reported, under every chunking
				for _, d := range []int{1, 32, 63} {
					bad := append(append([]byte(nil), data...), make([]byte, d)...)
					if _, err := f(newChunkReader(bad, cs, seed)); err == nil {
						b.Violate("C16/root/ReaderRoot/accepts-stream-not-multiple-of-leaf", fmt.Sprintf("no error for a %d-byte stream", len(bad)), wit)
					} else {
						b.Count("non_leaf_aligned_streams_rejected", 1)
					}
				}
				// a stream that ends by reporting truncation: the streaming root must come back (root of what was
				// received, or the error)
				if cs.Mode == "random" || L == 0 {
					tr := &truncatedReader{data: data}
					if _, err := f(tr); err != nil {
						b.Count("truncated_streams_reported_as_error", 1)
					} else {
						b.Count("truncated_streams_returned_a_root", 1)
					}
				}
				// an I/O error must not be swallowed (observed only; not part of the statement)
				if L > 0 {
					cr := newChunkReader(data, cs, seed)
					cr.failAt = b.Rng.IntN(len(data))
					if _, err := f(cr); err == nil {
						b.Count("ReaderRoot_swallowed_injected_io_error(observed)", 1)
					}
				}
			})
			b.Eval(1)
			b.Distinct("readerroot", L, cs.String())
		}
	}
	// long streams, including more than one sector's worth of leaves
	longs := []int{1023, 1024, 1025, 4095, 4096, 4097, 16384, 65535, 65536, 65537, 65540, 98304, 100000, 131071}
	if !b.Quick() {
		for k := 0; k < 12; k++ {
			longs = append(longs, 1+b.Rng.IntN(131071))
		}
	}
	for li, L := range longs {
		if li%shares != share {
			continue
		}
		seed := b.Rng.Uint64()
		data := make([]byte, L*64)
		genData(data, "random", seed)
		want := mRoot(sectorLeaves(data))
		for _, cs := range []chunkSpec{{Mode: "fixed", K: 1 << 24}, {Mode: "random", K: 5000, EOFWithData: true}, {Mode: "fixed", K: 1023}} {
			wit := map[string]any{"stream": witData("random", seed, len(data)), "chunking": cs}
			b.Journal(fmt.Sprintf("roots/ReaderRoot leaves=%d seed=%d", L, seed))
			b.Guard("C16/root/ReaderRoot", func() any { return wit }, func() {
				if got, err := rhp2.ReaderRoot(newChunkReader(data, cs, seed)); err != nil || got != want {
					rootMismatch(b, "ReaderRoot", got, want, map[string]any{"case": wit, "err": fmt.Sprint(err)})
				}
			})
			b.Eval(1)
			b.Distinct("readerroot-long", nClass(uint64(L)), cs.String())
		}
	}
	// 2^17 leaves and beyond: ReaderRoot documents no upper bound on the stream
	if share == 0 {
		for _, L := range []int{131072, 131073, 200000} {
			data := make([]byte, L*64)
			genData(data, "leafindex", 0)
			want := mRoot(sectorLeaves(data))
			wit := map[string]any{"stream": witData("leafindex", 0, len(data)), "leaves": L, "minimal": "ReaderRoot(bytes.NewReader(make([]byte, 131072*64)))"}
			b.Journal(fmt.Sprintf("roots/ReaderRoot leaves=%d", L))
			b.Guard("C16/root/ReaderRoot/stream-of-2^17-leaves-or-more", func() any { return wit }, func() {
				if got, err := rhp2.ReaderRoot(bytes.NewReader(data)); err != nil || got != want {
					rootMismatch(b, "ReaderRoot(stream>=2^17 leaves)", got, want, map[string]any{"case": wit, "err": fmt.Sprint(err)})
				}
			})
			b.Eval(1)
			b.Distinct("readerroot-huge", L)
		}
	}
}

func rootsMeta(b *harness.B, share, shares int) {
	const big = 262144 + 8
	seed := b.Rng.Uint64()
	list := genRoots(big, "random", seed)
	tree := newTree(list)
	check := func(n int, kind string, roots []H, want H) {
		wit := map[string]any{"roots": witRoots(kind, seed, roots), "note": "roots = first n of the generated list"}
		var before [32]byte
		if n <= 4096 {
			before = hashHs(roots)
		}
		b.Guard("C16/root/MetaRoot", func() any { return wit }, func() {
			if got := rhp2.MetaRoot(roots); got != want {
				rootMismatch(b, "rhp2.MetaRoot", got, want, wit)
			}
			if n%3 == 0 {
				if got := rhp4.MetaRoot(roots); got != want {
					rootMismatch(b, "rhp4.MetaRoot", got, want, wit)
				}
			}
		})
		if n <= 4096 && hashHs(roots) != before {
			b.Violate("C16/root/MetaRoot/modified-its-input", "root list changed by MetaRoot", wit)
		}
		b.Count("metaroots_checked", 1)
		b.Eval(1)
		if n <= 300 {
			b.Distinct("metaroot", n, kind, cpuPath())
		} else {
			b.Distinct("metaroot", nClass(uint64(n)), kind, cpuPath())
		}
	}
	for n := 0; n <= 300; n++ {
		check(n, "random", list[:n], tree.sub(0, n))
		for _, kind := range []string{"zero", "equal", "index"} {
			rs := genRoots(n, kind, seed)
			check(n, kind, rs, mRoot(rs))
		}
	}
	b.Count("metaroot_0_to_300_exhaustive", 1)
	var ns []int
	for k := 8; k <= 18; k++ {
		for d := -2; d <= 2; d++ {
			if v := 1<<k + d; v > 300 && v <= big {
				ns = append(ns, v)
			}
		}
	}
	ns = append(ns, leavesPerSector+1000, 98304, 100000, 131072+65536, 200000, 3<<15+1)
	extra := b.Pick(20, 300)
	for k := 0; k < extra; k++ {
		ns = append(ns, 301+b.Rng.IntN(big-301))
	}
	for i, n := range ns {
		if i%shares != share {
			continue
		}
		check(n, "random", list[:n], tree.sub(0, n))
		if n > leavesPerSector {
			b.Count("metaroots_beyond_one_sector_of_leaves", 1)
		}
	}
}

func hashHs(hs []H) [32]byte {
	buf := make([]byte, 0, len(hs)*32)
	for _, h := range hs {
		buf = append(buf, h[:]...)
	}
	return refSum(buf)
}

func rootsAccumulator(b *harness.B) {
	seed := b.Rng.Uint64()
	maxN := b.Pick(1<<16+5, 1<<18+5)
	list := genRoots(maxN, "random", seed)
	tree := newTree(list)
	var acc blake2b.Accumulator
	if acc.Root() != (H{}) {
		b.Violate("C16/root/Accumulator/empty-root-not-zero", "Root() of an empty accumulator is not the zero hash", nil)
	}
	checkAt := map[int]bool{}
	for k := 8; k <= 18; k++ {
		for d := -2; d <= 2; d++ {
			checkAt[1<<k+d] = true
		}
	}
	for i := 0; i < maxN; i++ {
		b.Guard("C16/root/Accumulator", func() any { return map[string]any{"roots": witRoots("random", seed, list[:0]), "added": i + 1} }, func() {
			acc.AddLeaf(list[i])
		})
		n := i + 1
		if n <= 300 || checkAt[n] || n%8191 == 0 {
			want := tree.sub(0, n)
			wit := map[string]any{"leaves": witRoots("random", seed, list[:min(n, 128)]), "n": n}
			if got := H(acc.Root()); got != want {
				rootMismatch(b, "blake2b.Accumulator.Root", got, want, wit)
			}
			if acc.NumLeaves != uint64(n) {
				b.Violate("C16/root/Accumulator/wrong-NumLeaves", fmt.Sprintf("NumLeaves=%d after %d AddLeaf", acc.NumLeaves, n), wit)
			}
			// Trees must hold the perfect-subtree roots (BuildAppendProof publishes them)
			dec := tree.decomposition(n)
			j := 0
			for bit := 0; bit < 64; bit++ {
				if n&(1<<bit) != 0 {
					if H(acc.Trees[bit]) != dec[j] {
						b.Count("accumulator_tree_slot_differs_from_perfect_subtree_root(observed)", 1)
					}
					j++
				}
			}
			b.Count("accumulator_roots_checked", 1)
			b.Eval(1)
			if n <= 300 {
				b.Distinct("accumulator", n)
			} else {
				b.Distinct("accumulator", nClass(uint64(n)))
			}
		}
	}
}
