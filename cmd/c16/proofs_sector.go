package main

import (
	"bytes"
	"fmt"
	"unsafe"

	rhp2 "go.sia.tech/core/rhp/v2"
	rhp4 "go.sia.tech/core/rhp/v4"
	"verif/internal/harness"
)

// ---- proofs inside one sector: rhp2.BuildProof, rhp4.BuildSectorProof (with the
// subtree cache) against RangeProofVerifier (streaming), VerifySectorRangeProof over
// leaf hashes and rhp4.VerifyLeafProof ---------------------------------------------

type sectorCtx struct {
	b     *harness.B
	sec   *[sectorSize]byte
	kind  string
	seed  uint64
	tree  *mTree
	root  H
	cache []H
	segR  *guardRegion
	sound bool // leaves pairwise distinct: shifted / swapped claims are false
	cases int
}

func runSector(b *harness.B, share, shares int, light bool) {
	nSec := b.Pick(10, 100)
	if light {
		nSec = b.Pick(2, 16)
	}
	g := newGuardRegion(sectorSize)
	defer g.free()
	segR := newGuardRegion(sectorSize)
	defer segR.free()
	b.Count("guard_page_control_faults", g.controlFaults()+segR.controlFaults())
	sec := (*[sectorSize]byte)(unsafe.Pointer(&g.mid[0]))
	kinds := []string{"random", "leafindex", "random", "zero", "random", "ff", "random", "period128", "random", "halves", "random", "sparse"}
	for si := 0; si < nSec; si++ {
		kind := kinds[si%len(kinds)]
		seed := b.Rng.Uint64()
		genData(sec[:], kind, seed)
		c := &sectorCtx{b: b, sec: sec, kind: kind, seed: seed, segR: segR}
		c.tree = newTree(sectorLeaves(sec[:]))
		c.root = c.tree.root()
		c.sound = kind == "random" || kind == "leafindex"
		b.Journal(fmt.Sprintf("sector-proofs/CachedSectorSubtrees kind=%s seed=%d", kind, seed))
		if b.Guard("C16/build/CachedSectorSubtrees", func() any { return witData(kind, seed, sectorSize) }, func() { c.cache = rhp4.CachedSectorSubtrees(sec) }) {
			continue
		}
		const N = leavesPerSector
		var ranges [][2]uint64
		for _, i := range []uint64{0, 1, 2, 3, 63, 64, 65, 127, 128, 1023, 1024, 4095, 32767, 32768, 32769, 65534, 65535} {
			ranges = append(ranges, [2]uint64{i, i + 1})
		}
		ranges = append(ranges, [][2]uint64{{0, N}, {0, N / 2}, {N / 2, N}, {1, N - 1}, {N/2 - 1, N/2 + 1}, {63, 65}, {64, 128}, {0, 64}, {N - 64, N}, {100, 200},
			{0, 2}, {N - 2, N}, {1, 2}, {31, 97}, {4096, 8192}, {4095, 8193}, {N / 4, 3 * N / 4}}...)
		nr := b.Pick(34, 120)
		if light {
			nr = 12
		}
		for k := 0; k < nr; k++ {
			s := b.Rng.Uint64N(N)
			var e uint64
			switch k % 5 {
			case 0:
				e = s + 1
			case 1:
				e = s + 1 + b.Rng.Uint64N(min(64, N-s))
			case 2:
				e = s + 1 + b.Rng.Uint64N(min(4096, N-s))
			case 3:
				sz := uint64(1) << b.Rng.IntN(16)
				s = s / sz * sz
				e = s + sz
			default:
				e = s + 1 + b.Rng.Uint64N(N-s)
			}
			ranges = append(ranges, [2]uint64{s, e})
		}
		for ri, r := range ranges {
			c.rangeCase(r[0], r[1], ri)
		}
		b.Count("sectors_with_proofs_"+cpuPath(), 1)
	}
}

func (c *sectorCtx) streamVerify(v4 bool, proof []H, data []byte, s, e uint64, root H, cs chunkSpec) bool {
	var v *rhp2.RangeProofVerifier
	if v4 {
		v = rhp4.NewRangeProofVerifier(s, e)
	} else {
		v = rhp2.NewRangeProofVerifier(s, e)
	}
	if _, err := v.ReadFrom(newChunkReader(data, cs, c.seed)); err != nil {
		return false
	}
	return v.Verify(proof, root)
}

func (c *sectorCtx) rangeCase(start, end uint64, ri int) {
	b := c.b
	const N = leavesPerSector
	c.cases++
	specs := smallChunkings()
	cs := specs[c.cases%len(specs)]
	if end-start > 4096 && cs.K < 64 {
		cs = chunkSpec{Mode: "random", K: 9000, EOFWithData: c.cases%2 == 0}
	}
	wit := func() any {
		return map[string]any{"sector": witData(c.kind, c.seed, sectorSize), "start": start, "end": end, "chunking": cs, "model_root": hx(c.root), "cpu": cpuPath()}
	}
	b.Journal(fmt.Sprintf("sector-proofs/case kind=%s seed=%d start=%d end=%d", c.kind, c.seed, start, end))

	// builders
	var proof []H
	if b.Guard("C16/build/BuildSectorProof", wit, func() {
		rs, re := rhp4.SectorSubtreeRange(start, end)
		segLen := int(re-rs) * 64
		var seg []byte
		if c.cases%2 == 0 {
			seg = c.segR.high(segLen, 0)
		} else {
			seg = c.segR.low(segLen, 0)
		}
		copy(seg, c.sec[rs*64:re*64])
		proof = rhp4.BuildSectorProof(seg, start, end, c.cache)
		b.Count("guard_page_calls", 1)
	}) {
		return
	}
	// rhp2.BuildProof hashes the rest of the sector itself unless precalc supplies roots
	v2build := ri < 28 || c.cases%3 == 0
	if v2build {
		usePre := c.cases%2 == 1
		var proof2 []H
		if b.Guard("C16/build/BuildProof", wit, func() {
			var pre func(i, j uint64) H
			if usePre {
				pre = func(i, j uint64) H {
					if j-i >= 256 {
						return c.tree.sub(int(i), int(j))
					}
					return H{}
				}
			}
			proof2 = rhp2.BuildProof(c.sec, start, end, pre)
			b.Count("guard_page_calls", 1)
		}) {
			return
		}
		if !equalHs(proof, proof2) {
			b.Count("BuildProof_differs_from_BuildSectorProof(observed)", 1)
			// both are judged on their own: verify the rhp2 one as well
			accept(b, "RangeProofVerifier(BuildProof)", wit, func() bool {
				return c.streamVerify(false, proof2, c.sec[start*64:end*64], start, end, c.root, cs)
			})
		}
		b.Count("BuildProof_calls", 1)
	}
	if sz := rhp2.RangeProofSize(N, start, end); sz != uint64(len(proof)) {
		b.Violate("C16/size/RangeProofSize/differs-from-built-proof-length", fmt.Sprintf("RangeProofSize(%d,%d,%d)=%d, BuildSectorProof produced %d hashes", N, start, end, sz, len(proof)), wit())
	}
	b.Count("proof_sizes_compared", 1)
	if !equalHs(c.tree.rangeProof(int(start), int(end)), proof) {
		b.Count("builder_range_proof_differs_from_model_proof(observed)", 1)
	}

	data := c.sec[start*64 : end*64]
	v4 := c.cases%2 == 0
	name := "RangeProofVerifier"
	sv := func(p []H, d []byte, s, e uint64, root H) bool { return c.streamVerify(v4, p, d, s, e, root, cs) }
	if !accept(b, name, wit, func() bool { return sv(proof, data, start, end, c.root) }) {
		return
	}
	b.Count("streaming_verifications", 1)
	b.SetAdd("stream_chunkings_verified", cs.String())
	// the verdict belongs to (data, proof, root), not to how often the caller asked: after a call with a wrong root
	// the right root is still accepted, again and again
	if end-start <= 4096 {
		b.Guard("C16/complete/RangeProofVerifier/repeated-verify", wit, func() {
			v := rhp2.NewRangeProofVerifier(start, end)
			if _, err := v.ReadFrom(bytes.NewReader(data)); err != nil {
				return
			}
			wrong := c.root
			wrong[5] ^= 4
			r1 := v.Verify(cloneHs(proof), wrong)
			r2 := v.Verify(cloneHs(proof), c.root)
			r3 := v.Verify(cloneHs(proof), c.root)
			b.Eval(1)
			b.Count("repeated_verify_sequences", 1)
			if r1 {
				b.Violate("C16/sound/RangeProofVerifier/accepts-root-bit-flipped", "first call with an altered root accepted", wit())
			}
			if !r2 || !r3 {
				b.Violate("C16/complete/RangeProofVerifier/rejects-builder-proof-on-a-later-call", fmt.Sprintf("Verify(proof, wrong root)=%v, then Verify(proof, root)=%v, then again %v: the verifier no longer accepts the builder's proof with the correct root", r1, r2, r3), wit())
			}
		})
	}
	heavy := end-start > 4096
	shape := []any{"sector-range", c.kind, idxClass(start, N), idxClass(end, N), cs.Mode, cpuPath()}
	b.Distinct(shape...)
	if c.cases == 3 {
		b.Sample(map[string]any{"kind": "sector range proof", "case": wit(), "proof_len": len(proof)})
	}

	// the same proof through VerifySectorRangeProof over the leaf hashes
	lname := "VerifySectorRangeProof(leaf hashes)"
	lh := c.tree.leaves[start:end]
	lv := func(p, l []H, s, e uint64, root H) bool { return rhp2.VerifySectorRangeProof(p, l, s, e, N, root) }
	if !heavy {
		accept(b, lname, wit, func() bool { return lv(proof, lh, start, end, c.root) })
	}

	single := end == start+1
	var leaf [64]byte
	if single {
		copy(leaf[:], data)
		if !accept(b, "VerifyLeafProof", wit, func() bool { return rhp4.VerifyLeafProof(proof, leaf, start, c.root) }) {
			return
		}
		b.Guard("C16/build/ConvertProofOrdering", wit, func() {
			if equalHs(rhp2.ConvertProofOrdering(cloneHs(proof), start), c.tree.auditPath(int(start))) {
				b.Count("ConvertProofOrdering_equals_rfc6962_audit_path(observed)", 1)
			} else {
				b.Count("ConvertProofOrdering_differs_from_rfc6962_audit_path(observed)", 1)
			}
		})
	}
	// an I/O error while streaming must surface (observed only)
	if len(data) > 0 {
		b.Guard("C16/sound/RangeProofVerifier/io-error", wit, func() {
			v := rhp2.NewRangeProofVerifier(start, end)
			cr := newChunkReader(data, cs, c.seed)
			cr.failAt = b.Rng.IntN(len(data))
			if _, err := v.ReadFrom(cr); err == nil {
				b.Count("RangeProofVerifier_swallowed_injected_io_error(observed)", 1)
			}
		})
	}
	if !c.sound {
		return
	}

	// ---- soundness ----
	all := !heavy && c.cases%4 == 0
	k := 3
	if heavy {
		k = 1
	}
	for _, i := range pickIdx(b, len(proof), all, k) {
		bad := withHash(proof, i, flipBit(proof[i], b.Rng))
		tamper(b, name, "proof-hash-bit-flipped", wit, fmt.Sprintf("proof[%d] has one bit flipped", i), func() bool { return sv(bad, data, start, end, c.root) })
		if !heavy {
			tamper(b, lname, "proof-hash-bit-flipped", wit, fmt.Sprintf("proof[%d] has one bit flipped", i), func() bool { return lv(bad, lh, start, end, c.root) })
		}
	}
	positions := []int{0, len(data) - 1, b.Rng.IntN(len(data))}
	if all {
		for j := 0; j < 6; j++ {
			positions = append(positions, b.Rng.IntN(len(data)))
		}
	}
	if heavy {
		positions = positions[2:]
	}
	for _, pos := range positions {
		bad := append([]byte(nil), data...)
		bit := b.Rng.IntN(8)
		bad[pos] ^= 1 << bit
		tamper(b, name, "covered-data-bit-flipped", wit, fmt.Sprintf("bit %d of byte %d of the range data is flipped", bit, pos), func() bool { return sv(proof, bad, start, end, c.root) })
	}
	tamper(b, name, "root-bit-flipped", wit, "the sector root has one bit flipped", func() bool { return sv(proof, data, start, end, flipBit(c.root, b.Rng)) })
	if end < N {
		tamper(b, name, "range-shifted-up", wit, "start and end are both one higher than the position of the data", func() bool { return sv(proof, data, start+1, end+1, c.root) })
	}
	if start > 0 {
		tamper(b, name, "range-shifted-down", wit, "start and end are both one lower than the position of the data", func() bool { return sv(proof, data, start-1, end-1, c.root) })
	}
	if ln := end - start; end+ln <= N && !heavy {
		tamper(b, name, "range-shifted-by-its-length", wit, "the range is claimed one range-length further right", func() bool { return sv(proof, data, start+ln, end+ln, c.root) })
	}
	if !heavy {
		ln := end - start
		for k := 0; k < 3; k++ {
			s := b.Rng.Uint64N(N - ln + 1)
			if k == 0 && start >= ln {
				s = start - ln // the sibling-side neighbour
			}
			if s == start {
				continue
			}
			tamper(b, name, "range-moved", wit, fmt.Sprintf("the data is claimed at [%d,%d)", s, s+ln), func() bool { return sv(proof, data, s, s+ln, c.root) })
		}
	}
	if end-start >= 2 && !heavy {
		tamper(b, name, "start-altered", wit, "start is one higher (all but the last leaf claimed at [start+1,end))", func() bool { return sv(proof, data[:len(data)-64], start+1, end, c.root) })
		tamper(b, name, "end-altered", wit, "end is one lower (all but the first leaf claimed at [start,end-1))", func() bool { return sv(proof, data[64:], start, end-1, c.root) })
		if c.tree.leaves[start] != c.tree.leaves[start+1] {
			tamper(b, name, "covered-leaves-swapped", wit, "the first two leaves of the data are exchanged", func() bool {
				bad := append([]byte(nil), data...)
				copy(bad[:64], data[64:128])
				copy(bad[64:128], data[:64])
				return sv(proof, bad, start, end, c.root)
			})
		}
	}
	tamper(b, name, "covered-data-truncated", wit, "the stream lacks the last leaf of the range", func() bool { return sv(proof, data[:len(data)-64], start, end, c.root) })
	if len(proof) > 0 {
		tamper(b, name, "proof-shortened", wit, "the last proof hash is missing", func() bool { return sv(proof[:len(proof)-1], data, start, end, c.root) })
		tamper(b, name, "proof-shortened", wit, "the first proof hash is missing", func() bool { return sv(proof[1:], data, start, end, c.root) })
	}
	tamper(b, name, "proof-lengthened", wit, "a random hash is appended to the proof", func() bool { return sv(append(cloneHs(proof), randHash(b)), data, start, end, c.root) })
	tamper(b, name, "proof-lengthened", wit, "a zero hash is prepended to the proof", func() bool { return sv(append([]H{{}}, proof...), data, start, end, c.root) })
	// trailing bytes after the range are not the verifier's to read: observed only
	b.Guard("C16/sound/RangeProofVerifier/trailing-bytes", wit, func() {
		observe(b, name, "stream-has-trailing-bytes(the verifier reads only the range)", sv(proof, append(append([]byte(nil), data...), 1, 2, 3), start, end, c.root))
	})

	if single {
		name := "VerifyLeafProof"
		vl := func(p []H, l [64]byte, i uint64, root H) bool { return rhp4.VerifyLeafProof(p, l, i, root) }
		for _, i := range pickIdx(b, len(proof), all, 4) {
			bad := withHash(proof, i, flipBit(proof[i], b.Rng))
			tamper(b, name, "proof-hash-bit-flipped", wit, fmt.Sprintf("proof[%d] has one bit flipped", i), func() bool { return vl(bad, leaf, start, c.root) })
		}
		for _, pos := range []int{0, 63, b.Rng.IntN(64), b.Rng.IntN(64)} {
			bad := leaf
			bad[pos] ^= 1 << b.Rng.IntN(8)
			tamper(b, name, "leaf-bit-flipped", wit, fmt.Sprintf("byte %d of the leaf has one bit flipped", pos), func() bool { return vl(proof, bad, start, c.root) })
		}
		for _, bit := range pickIdx(b, 16, all, 4) {
			alt := start ^ (1 << bit)
			tamper(b, name, "leaf-index-altered", wit, fmt.Sprintf("leaf index is %d instead of %d", alt, start), func() bool { return vl(proof, leaf, alt, c.root) })
		}
		if start+1 < N {
			tamper(b, name, "leaf-index-altered", wit, "leaf index is one higher", func() bool { return vl(proof, leaf, start+1, c.root) })
		}
		tamper(b, name, "root-bit-flipped", wit, "the sector root has one bit flipped", func() bool { return vl(proof, leaf, start, flipBit(c.root, b.Rng)) })
		tamper(b, name, "proof-shortened", wit, "the last proof hash is missing", func() bool { return vl(proof[:len(proof)-1], leaf, start, c.root) })
		tamper(b, name, "proof-shortened", wit, "the first proof hash is missing", func() bool { return vl(proof[1:], leaf, start, c.root) })
		tamper(b, name, "proof-lengthened", wit, "a random hash is appended to the proof", func() bool { return vl(append(cloneHs(proof), randHash(b)), leaf, start, c.root) })
	}
}
