// C16 — RHP Merkle roots and proofs are complete, sound and implementation-independent.
//
// Monitors (DESIGN.md §5 C16):
//   - root differential: SectorRoot / ReaderRoot / ReadSectorRoot / ReadSector /
//     MetaRoot / blake2b.Accumulator / CachedSectorSubtrees against a naive recursive
//     Merkle tree (model.go) whose hash is cross-checked against an RFC 7693
//     implementation written for this check;
//   - CPU paths: hashBlocksAVX2 vs hashBlocksGeneric vs the reference on guard-paged
//     buffers (both page edges, 8 alignments, the aliased layout the accumulator
//     uses); whole-API batches repeated with GODEBUG=cpu.avx2=off; fan-out varied
//     by CPU affinity under -race;
//   - proof completeness and soundness for every exported builder/verifier pair of
//     rhp/v2/merkle.go and rhp/v4/merkle.go with the model's roots and the true count.
package main

import (
	"fmt"
	"strconv"
	"time"

	"verif/internal/harness"
)

const (
	roleCPU = iota
	roleRoots
	roleRootsNoAVX2
	roleRace
	roleRace1CPU
	roleRace3CPU
	roleRange
	roleAppend
	roleDiff
	roleSector
	roleProofsNoAVX2
	role386
	nFixed
)

var roleNames = map[int]string{roleCPU: "cpu-paths", roleRoots: "roots", roleRootsNoAVX2: "roots(avx2 off)", roleRace: "race", roleRace1CPU: "race(1 cpu)",
	roleRace3CPU: "race(3 cpus)", roleRange: "range-proofs", roleAppend: "append-proofs", roleDiff: "diff/free-proofs", roleSector: "sector-proofs", roleProofsNoAVX2: "proofs(avx2 off)", role386: "roots+proofs(GOARCH=386)"}

// extra batches of the thorough tier
var extraRoles = []int{roleSector, roleRange, roleRoots, roleDiff, roleSector, roleAppend, roleRootsNoAVX2, roleCPU, roleSector, roleRange, roleProofsNoAVX2, roleDiff}

const nExtra = 24

func roleOf(batch int) int {
	if batch < nFixed {
		return batch
	}
	return extraRoles[(batch-nFixed)%len(extraRoles)]
}

// shareOf: position of the batch among the batches of the same role.
func shareOf(batch, nb int) (share, shares int) {
	r := roleOf(batch)
	for k := 0; k < nb; k++ {
		if roleOf(k) == r {
			if k == batch {
				share = shares
			}
			shares++
		}
	}
	return
}

func run(b *harness.B) {
	role := roleOf(b.Batch)
	share, shares := shareOf(b.Batch, b.NB)
	b.SetAdd("batch_roles", roleNames[role])
	switch role {
	case roleCPU:
		runCPUPaths(b)
	case roleRoots:
		runRoots(b, share, shares)
	case roleRootsNoAVX2:
		if hasAVX2() {
			b.Inconclusive("GODEBUG=cpu.avx2=off was not honoured: the generic path was not forced")
		}
		runRoots(b, share, shares)
	case roleRace:
		runRace(b, 0)
	case roleRace1CPU:
		runRace(b, 1)
	case roleRace3CPU:
		runRace(b, 3)
	case roleRange:
		runRange(b, share, shares, false)
	case roleAppend:
		runAppend(b, share, shares, false)
	case roleDiff:
		runDiff(b, share, shares, false)
	case roleSector:
		runSector(b, share, shares, false)
	case role386:
		// built for GOARCH=386: int is 32 bits wide, the hash runs on the generic path
		if strconv.IntSize != 32 {
			b.Inconclusive("the GOARCH=386 batch was not run from a 32-bit build")
		}
		b.Count("batches_run_with_32_bit_int", 1)
		runRoots(b, 0, 1)
		runSector(b, 0, 1, true)
		runRange(b, 0, 1, true)
		runAppend(b, 0, 1, true)
		runDiff(b, 0, 1, true)
	case roleProofsNoAVX2:
		if hasAVX2() {
			b.Inconclusive("GODEBUG=cpu.avx2=off was not honoured: the generic path was not forced")
		}
		b.Count("proof_batches_on_"+cpuPath()+"_path", 1)
		runSector(b, 0, 1, true)
		runRange(b, 0, 1, true)
		runAppend(b, 0, 1, true)
		runDiff(b, 0, 1, true)
	}
}

func main() {
	maybePin()
	harness.Main(harness.Spec{
		ID: "C16",
		Rule: "Roots: every public root function on generated sectors (random, zero, 0xFF, leaf-index, period-64/128, one-bit, equal halves, sparse) and streams of 0..N leaves under " +
			"every reader chunking (1-byte reads, EOF-with-data, zero-length reads, random sizes), MetaRoot/Accumulator for n=0..300 exhaustively, around 2^k up to 2^18 and beyond one sector of leaves, " +
			"each compared with a naive recursive RFC-6962-shaped tree. CPU paths: 4-block hash calls on random and structured blocks in guard-paged buffers at 16 placements each for input and output plus the aliased layout. " +
			"Proofs: all (n,start,end) up to the exhaustive bound for sector-root range proofs, all (n,batch) for append proofs, all subsets x 4 orders for free proofs, random admissible Append/Trim/Swap sequences, " +
			"structured+random leaf ranges inside sectors; every builder proof is verified with the model's roots, then every single corruption (each proof hash, each covered datum, indices, roots, shorter, longer) is replayed with the true count. " +
			"A case shape is (function family, n or its bit pattern class, start/end class or exact values when small, chunking / placement / action-shape, cpu path).",
		Assume: []string{
			"golang.org/x/crypto/blake2b.Sum256 (reached through core's one-line re-export) is the reference hash; it is cross-checked in every run against an RFC 7693 implementation written for this check",
			"the root of an empty tree is the all-zero hash and the root of a single leaf/root is that value itself (the library's documented convention)",
			"ReadSectorRoot on a stream shorter than a sector means the root of the zero-padded sector (fixed by the repo's TestPartialReadSectorRoot)",
			"soundness is judged with the true element count supplied, on data whose leaves/roots are pairwise distinct; an altered index set whose application yields the same list is a true claim and is only observed",
			"VerifyAppendSectorsProof / VerifyAppendProof do not fix the proof length: a longer proof is observed, not demanded to fail",
			"a clean -race / checkptr / guard-page run means no report on the executions made, not memory safety in general",
		},
		Batches: func(t string) int {
			if t == "quick" {
				return nFixed
			}
			return nFixed + nExtra
		},
		Run: run,
		RaceBatches: func(t string) []int {
			return []int{roleRace, roleRace1CPU, roleRace3CPU}
		},
		Arch386Batches: func(t string) []int { return []int{role386} },
		ChildEnv: func(batch int) []string {
			switch roleOf(batch) {
			case roleRootsNoAVX2, roleProofsNoAVX2:
				return []string{"GODEBUG=cpu.avx2=off"}
			case roleRace1CPU:
				return []string{"C16_NUMCPU=1"}
			case roleRace3CPU:
				return []string{"C16_NUMCPU=3"}
			}
			return nil
		},
		ChildTimeout: func(t string) time.Duration {
			if t == "quick" {
				return 5 * time.Minute
			}
			return 60 * time.Minute
		},
		MinEvals:    600000,
		MinDistinct: 20000,
		Require: []string{
			"ref_hash_crosschecked", "guard_page_control_faults", "guard_page_calls", "avx2_blocks_checked", "generic_blocks_checked",
			"api_root_batches_on_avx2_path", "api_root_batches_on_generic_path", "proof_batches_on_generic_path",
			"sectors_rooted_avx2", "sectors_rooted_generic", "metaroot_0_to_300_exhaustive", "metaroots_beyond_one_sector_of_leaves", "accumulator_roots_checked",
			"non_leaf_aligned_streams_rejected", "short_sector_streams_rejected",
			"proofs_verified", "corruptions_rejected", "proof_sizes_compared", "streaming_verifications", "BuildProof_calls",
			"range_exhaustive_up_to_n", "append_exhaustive_up_to_n", "free_all_subsets_up_to_n", "diff_proofs_verified_with_sector_data",
			"race_build_batches_run", "race_overlap_max", "concurrent_SectorRoot_calls", "concurrent_ReadSectorRoot_calls", "concurrent_CachedSectorSubtrees_calls",
		},
		Extra: func(m *harness.Result, cov map[string]any) {
			cov["exhaustive"] = true
			cov["exhaustive_subspaces"] = fmt.Sprintf("sector-root range proofs: all (n,start,end) for n<=%d; append proofs: all n<=%d x batch<=%d; free proofs: all subsets (x up to 4 orders) for n<=%d; MetaRoot and Accumulator: n=0..300",
				m.Max["range_exhaustive_up_to_n"], m.Max["append_exhaustive_up_to_n"], m.Max["append_exhaustive_up_to_batch"], m.Max["free_all_subsets_up_to_n"])
			cov["sanitizers"] = "race detector + checkptr on the race batches (reports counted in race_report_blocks); guard pages around sectors, segments and hash blocks; a clean run = no report on these executions"
		},
	})
}
