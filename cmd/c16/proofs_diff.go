package main

import (
	"fmt"
	"sort"

	rhp2 "go.sia.tech/core/rhp/v2"
	rhp4 "go.sia.tech/core/rhp/v4"
	"verif/internal/harness"
)

// ---- diff proofs: rhp4.BuildFreeSectorsProof / VerifyFreeSectorsProof (swap-and-
// trim) and rhp2.BuildDiffProof / VerifyDiffProof / DiffProofSize over sequences
// of Append / Trim / Swap actions --------------------------------------------------

func toLib(acts []mAction, withData map[int][]byte) (out []rhp2.RPCWriteAction, appendRoots []H) {
	for i, a := range acts {
		switch a.Kind {
		case "append":
			out = append(out, rhp2.RPCWriteAction{Type: rhp2.RPCWriteActionAppend, Data: withData[i]})
			appendRoots = append(appendRoots, a.Root)
		case "trim":
			out = append(out, rhp2.RPCWriteAction{Type: rhp2.RPCWriteActionTrim, A: a.A})
		case "swap":
			out = append(out, rhp2.RPCWriteAction{Type: rhp2.RPCWriteActionSwap, A: a.A, B: a.B})
		}
	}
	return
}

func actsString(acts []mAction) []string {
	var out []string
	for _, a := range acts {
		switch a.Kind {
		case "append":
			out = append(out, "append("+hx(a.Root)+")")
		case "trim":
			out = append(out, fmt.Sprintf("trim(%d)", a.A))
		case "swap":
			out = append(out, fmt.Sprintf("swap(%d,%d)", a.A, a.B))
		}
	}
	return out
}

func actsShape(acts []mAction) string {
	s := ""
	for _, a := range acts {
		s += a.Kind[:1]
		if a.Kind == "swap" && a.A == a.B {
			s += "="
		}
		if a.Kind == "trim" && a.A == 0 {
			s += "0"
		}
	}
	return s
}

func distinctLegal(freed []uint64, n uint64) bool {
	seen := map[uint64]bool{}
	for _, f := range freed {
		if f >= n || seen[f] {
			return false
		}
		seen[f] = true
	}
	return true
}

func runDiff(b *harness.B, share, shares int, light bool) {
	// A. free: every subset of {0..n-1}, in four orders
	maxN := b.Pick(10, 12)
	if light {
		maxN = 6
	}
	idx := 0
	for n := 0; n <= maxN; n++ {
		seed := b.Rng.Uint64()
		leaves := genRoots(n, "random", seed)
		for mask := 0; mask < 1<<n; mask++ {
			idx++
			if idx%shares != share {
				continue
			}
			var asc []uint64
			for i := 0; i < n; i++ {
				if mask&(1<<i) != 0 {
					asc = append(asc, uint64(i))
				}
			}
			orders := [][]uint64{asc}
			if len(asc) >= 2 {
				desc := make([]uint64, len(asc))
				for i, v := range asc {
					desc[len(asc)-1-i] = v
				}
				orders = append(orders, desc)
				for k := 0; k < 2; k++ {
					p := append([]uint64(nil), asc...)
					b.Rng.Shuffle(len(p), func(i, j int) { p[i], p[j] = p[j], p[i] })
					orders = append(orders, p)
				}
			}
			for oi, freed := range orders {
				freeCase(b, leaves, seed, freed, n <= 8 || oi == 0)
				b.Distinct("free", n, mask, oi)
			}
		}
		b.Count("free_n_exhaustive_(all subsets)", 1)
	}
	b.MaxOf("free_all_subsets_up_to_n", int64(maxN))

	// B. free: random index sets on bigger trees
	cases := b.Pick(150, 1500)
	if light {
		cases = 20
	}
	for c := 0; c < cases; c++ {
		n := 11 + b.Rng.IntN(1<<12-10)
		switch c % 6 {
		case 0:
			n = 1 << (4 + b.Rng.IntN(9))
		case 1:
			n = 1<<(4+b.Rng.IntN(9)) + 1
		case 2:
			n = 11 + b.Rng.IntN(60)
		}
		seed := b.Rng.Uint64()
		leaves := genRoots(n, "random", seed)
		k := 1 + b.Rng.IntN(min(n, 24))
		if c%10 == 9 {
			k = n - b.Rng.IntN(min(n, 3)) // almost everything
			if n > 300 {
				k = 1 + b.Rng.IntN(200)
			}
		}
		perm := b.Rng.Perm(n)[:k]
		freed := make([]uint64, k)
		for i, v := range perm {
			freed[i] = uint64(v)
		}
		switch c % 4 {
		case 0: // cluster at the end (overlaps the swap targets)
			for i := range freed {
				freed[i] = uint64(n - 1 - i)
			}
			if c%8 == 0 {
				b.Rng.Shuffle(len(freed), func(i, j int) { freed[i], freed[j] = freed[j], freed[i] })
			}
		case 1: // a contiguous run somewhere
			s := b.Rng.IntN(n - k + 1)
			for i := range freed {
				freed[i] = uint64(s + i)
			}
		}
		freeCase(b, leaves, seed, freed, false)
		b.Distinct("free", nClass(uint64(n)), min(k, 30), c%4)
	}

	// C. rhp2 action sequences (Append / Trim / Swap in any admissible order)
	seqs := b.Pick(2500, 40000)
	if light {
		seqs = 200
	}
	for c := 0; c < seqs; c++ {
		n := b.Rng.IntN(20)
		if c%7 == 0 {
			n = b.Rng.IntN(1 << 10)
		}
		seed := b.Rng.Uint64()
		leaves := genRoots(n, "random", seed)
		cur := uint64(n)
		var acts []mAction
		steps := 1 + b.Rng.IntN(5)
		for s := 0; s < steps; s++ {
			switch r := b.Rng.IntN(10); {
			case r < 3:
				acts = append(acts, mAction{Kind: "append", Root: randHash(b)})
				cur++
			case r < 6 && cur > 0:
				a := uint64(b.Rng.IntN(int(min(cur, 3)) + 1))
				acts = append(acts, mAction{Kind: "trim", A: a})
				cur -= a
			case cur > 0:
				x, y := b.Rng.Uint64N(cur), b.Rng.Uint64N(cur)
				if r == 9 {
					y = cur - 1
				}
				acts = append(acts, mAction{Kind: "swap", A: x, B: y})
			default:
				acts = append(acts, mAction{Kind: "append", Root: randHash(b)})
				cur++
			}
		}
		diffCase(b, leaves, seed, acts, nil)
		b.Distinct("diff", nClass(uint64(n)), actsShape(acts))
	}

	// D. a few sequences whose Append actions carry real sector data (the verifier
	// computes SectorRoot itself when no precomputed roots are given)
	if !light {
		for c := 0; c < b.Pick(2, 12); c++ {
			n := b.Rng.IntN(9)
			seed := b.Rng.Uint64()
			leaves := genRoots(n, "random", seed)
			data := make([]byte, sectorSize)
			dseed := b.Rng.Uint64()
			genData(data, "random", dseed)
			root := mRoot(sectorLeaves(data))
			acts := []mAction{{Kind: "append", Root: root}}
			if n > 0 && c%2 == 0 {
				acts = append([]mAction{{Kind: "swap", A: 0, B: uint64(n - 1)}}, acts...)
			}
			wd := map[int][]byte{len(acts) - 1: data}
			diffCase(b, leaves, seed, acts, wd)
			b.Distinct("diff-with-sector-data", n, actsShape(acts))
		}
	}
}

func freeCase(b *harness.B, leaves []H, seed uint64, freed []uint64, all bool) {
	n := uint64(len(leaves))
	acts := freeActions(freed, n)
	newList, ok := applyActions(leaves, acts)
	if !ok {
		panic("generator: inadmissible free set")
	}
	oldRoot, newRoot := mRoot(leaves), mRoot(newList)
	wit := func() any {
		return map[string]any{"sector_roots": witRoots("random", seed, leaves), "n": n, "freed": freed, "model_old_root": hx(oldRoot), "model_new_root": hx(newRoot)}
	}
	var th, lh []H
	if b.Guard("C16/build/BuildFreeSectorsProof", wit, func() { th, lh = rhp4.BuildFreeSectorsProof(leaves, cloneU(freed)) }) {
		return
	}
	lib, _ := toLib(acts, nil)
	b.Guard("C16/size/DiffProofSize", wit, func() {
		if sz := rhp2.DiffProofSize(lib, n); sz != uint64(len(th)+len(lh)) {
			b.Violate("C16/size/DiffProofSize/differs-from-built-proof-length", fmt.Sprintf("DiffProofSize=%d, builder produced %d tree + %d leaf hashes", sz, len(th), len(lh)), wit())
		}
		b.Count("proof_sizes_compared", 1)
	})
	name := "VerifyFreeSectorsProof"
	verify := func(th, lh []H, fr []uint64, o, nw H) bool {
		return rhp4.VerifyFreeSectorsProof(th, lh, cloneU(fr), n, o, nw)
	}
	if !accept(b, name, wit, func() bool { return verify(th, lh, freed, oldRoot, newRoot) }) {
		return
	}
	// the new root that the builder's proof certifies must be the root of a list holding exactly the sectors that
	// were NOT named (in whatever order swap-and-trim leaves them): "free these indices" means these and no others
	{
		want := map[H]int{}
		isFreed := map[uint64]bool{}
		for _, f := range freed {
			isFreed[f] = true
		}
		for i, l := range leaves {
			if !isFreed[uint64(i)] {
				want[l]++
			}
		}
		got := map[H]int{}
		for _, l := range newList {
			got[l]++
		}
		same := len(got) == len(want)
		for k, v := range want {
			same = same && got[k] == v
		}
		b.Eval(1)
		b.Count("free_survivor_sets_compared", 1)
		if !same {
			order := "unsorted-indices"
			if sort.SliceIsSorted(freed, func(i, j int) bool { return freed[i] > freed[j] }) {
				order = "descending-indices"
			} else if sort.SliceIsSorted(freed, func(i, j int) bool { return freed[i] < freed[j] }) {
				order = "ascending-indices"
			}
			b.Violate("C16/complete/VerifyFreeSectorsProof/certified-new-root-keeps-a-freed-sector-and-drops-an-unfreed-one/"+order, fmt.Sprintf("freeing indices %v of %d sectors: the new root accepted with the builder's proof is the root of a list that still holds a named sector and lacks a sector that was not named", freed, n), wit())
		}
	}
	diffTampers(b, name, wit, th, lh, all, func(th, lh []H, o, nw H) bool { return verify(th, lh, freed, o, nw) }, oldRoot, newRoot)

	// altered index sets: a verifier is unsound only if it accepts a claim that is
	// false, i.e. the altered set applied to the same old list does NOT give newRoot.
	// The rhp2 verifier is given the corresponding altered swap/trim actions.
	judgeSet := func(kind, v2kind, what string, fr []uint64) {
		if !distinctLegal(fr, n) {
			return
		}
		nl, _ := applyActions(leaves, freeActions(fr, n))
		l2, _ := toLib(freeActions(fr, n), nil)
		v2 := func() bool { return rhp2.VerifyDiffProof(l2, n, th, lh, oldRoot, newRoot, nil) }
		if mRoot(nl) == newRoot {
			b.Guard("C16/sound/"+name+"/"+kind, wit, func() {
				observe(b, name, kind+"(same resulting list: claim still true)", verify(th, lh, fr, oldRoot, newRoot))
			})
			return
		}
		tamper(b, name, kind, wit, what, func() bool { return verify(th, lh, fr, oldRoot, newRoot) })
		if all {
			tamper(b, "VerifyDiffProof", v2kind, wit, what+" (as swap/trim actions)", v2)
		}
	}
	inSet := map[uint64]bool{}
	for _, f := range freed {
		inSet[f] = true
	}
	var outside []uint64
	for i := uint64(0); i < n && len(outside) < 64; i++ {
		if !inSet[i] {
			outside = append(outside, i)
		}
	}
	if n > 64 {
		for k := 0; k < 8; k++ {
			if x := b.Rng.Uint64N(n); !inSet[x] {
				outside = append(outside, x)
			}
		}
	}
	for _, i := range pickIdx(b, len(freed), all, 3) {
		repls := outside
		if !all && len(outside) > 2 {
			repls = []uint64{outside[b.Rng.IntN(len(outside))], outside[b.Rng.IntN(len(outside))]}
		}
		for _, repl := range repls { // small trees: every replacement index
			fr := cloneU(freed)
			fr[i] = repl
			judgeSet("freed-index-replaced", "action-swap-operand-altered", fmt.Sprintf("freed[%d] is %d instead of %d", i, repl, freed[i]), fr)
		}
		fr := append(cloneU(freed[:i]), freed[i+1:]...)
		judgeSet("freed-index-dropped", "action-swap-dropped", fmt.Sprintf("freed[%d]=%d is missing", i, freed[i]), fr)
	}
	adds := outside
	if !all && len(outside) > 1 {
		adds = []uint64{outside[b.Rng.IntN(len(outside))]}
	}
	for _, extra := range adds {
		judgeSet("freed-index-added", "action-swap-added", fmt.Sprintf("index %d is freed in addition", extra), append(cloneU(freed), extra))
	}
	for i := 0; i+1 < len(freed); i++ {
		if !all && i != 0 {
			break
		}
		fr := cloneU(freed)
		fr[i], fr[i+1] = fr[i+1], fr[i]
		judgeSet("freed-indices-reordered", "action-swaps-reordered", fmt.Sprintf("freed[%d] and freed[%d] are exchanged", i, i+1), fr)
	}

	// the same operation through the rhp2 names
	if all {
		var th2, lh2 []H
		if b.Guard("C16/build/BuildDiffProof", wit, func() { th2, lh2 = rhp2.BuildDiffProof(lib, leaves) }) {
			return
		}
		if !equalHs(th, th2) || !equalHs(lh, lh2) {
			b.Count("BuildDiffProof_differs_from_BuildFreeSectorsProof(observed)", 1)
		}
		accept(b, "VerifyDiffProof", wit, func() bool { return rhp2.VerifyDiffProof(lib, n, th2, lh2, oldRoot, newRoot, nil) })
	}
}

func cloneU(u []uint64) []uint64 { return append([]uint64(nil), u...) }

// diffTampers: corruptions common to both diff verifiers.
func diffTampers(b *harness.B, name string, wit func() any, th, lh []H, all bool, verify func(th, lh []H, o, nw H) bool, oldRoot, newRoot H) {
	for _, i := range pickIdx(b, len(th), all, 4) {
		bad := withHash(th, i, flipBit(th[i], b.Rng))
		tamper(b, name, "tree-hash-bit-flipped", wit, fmt.Sprintf("treeHashes[%d] has one bit flipped", i), func() bool { return verify(bad, lh, oldRoot, newRoot) })
	}
	for _, i := range pickIdx(b, len(lh), all, 4) {
		bad := withHash(lh, i, flipBit(lh[i], b.Rng))
		tamper(b, name, "leaf-hash-bit-flipped", wit, fmt.Sprintf("leafHashes[%d] has one bit flipped", i), func() bool { return verify(th, bad, oldRoot, newRoot) })
	}
	tamper(b, name, "old-root-bit-flipped", wit, "the old root has one bit flipped", func() bool { return verify(th, lh, flipBit(oldRoot, b.Rng), newRoot) })
	tamper(b, name, "new-root-bit-flipped", wit, "the new root has one bit flipped", func() bool { return verify(th, lh, oldRoot, flipBit(newRoot, b.Rng)) })
	if len(th) > 0 {
		tamper(b, name, "proof-shortened", wit, "the last tree hash is missing", func() bool { return verify(th[:len(th)-1], lh, oldRoot, newRoot) })
		tamper(b, name, "proof-shortened", wit, "the first tree hash is missing", func() bool { return verify(th[1:], lh, oldRoot, newRoot) })
	}
	if len(lh) > 0 {
		tamper(b, name, "leaf-hashes-shortened", wit, "the last leaf hash is missing", func() bool { return verify(th, lh[:len(lh)-1], oldRoot, newRoot) })
	}
	tamper(b, name, "proof-lengthened", wit, "a random hash is appended to the tree hashes", func() bool { return verify(append(cloneHs(th), randHash(b)), lh, oldRoot, newRoot) })
	tamper(b, name, "proof-lengthened", wit, "a zero hash is prepended to the tree hashes", func() bool { return verify(append([]H{{}}, th...), lh, oldRoot, newRoot) })
	tamper(b, name, "leaf-hashes-lengthened", wit, "a random hash is appended to the leaf hashes", func() bool { return verify(th, append(cloneHs(lh), randHash(b)), oldRoot, newRoot) })
	if len(th) >= 2 && th[0] != th[1] {
		tamper(b, name, "tree-hashes-swapped", wit, "the first two tree hashes are exchanged", func() bool {
			bad := cloneHs(th)
			bad[0], bad[1] = bad[1], bad[0]
			return verify(bad, lh, oldRoot, newRoot)
		})
	}
	if len(lh) >= 2 {
		tamper(b, name, "leaf-hashes-swapped", wit, "the first two leaf hashes are exchanged", func() bool {
			bad := cloneHs(lh)
			bad[0], bad[1] = bad[1], bad[0]
			return verify(th, bad, oldRoot, newRoot)
		})
	}
}

func diffCase(b *harness.B, leaves []H, seed uint64, acts []mAction, withData map[int][]byte) {
	n := uint64(len(leaves))
	newList, ok := applyActions(leaves, acts)
	if !ok {
		panic("generator: inadmissible action sequence")
	}
	oldRoot, newRoot := mRoot(leaves), mRoot(newList)
	wit := func() any {
		w := map[string]any{"sector_roots": witRoots("random", seed, leaves), "n": n, "actions": actsString(acts), "model_old_root": hx(oldRoot), "model_new_root": hx(newRoot)}
		if withData != nil {
			w["append_data"] = "4 MiB sector whose naive Merkle root is the append root shown; the verifier is given the data, not the root"
		}
		return w
	}
	lib, appendRoots := toLib(acts, withData)
	if withData != nil {
		appendRoots = nil
	}
	var th, lh []H
	if b.Guard("C16/build/BuildDiffProof", wit, func() { th, lh = rhp2.BuildDiffProof(lib, leaves) }) {
		return
	}
	b.Guard("C16/size/DiffProofSize", wit, func() {
		if sz := rhp2.DiffProofSize(lib, n); sz != uint64(len(th)+len(lh)) {
			b.Violate("C16/size/DiffProofSize/differs-from-built-proof-length", fmt.Sprintf("DiffProofSize=%d, builder produced %d tree + %d leaf hashes", sz, len(th), len(lh)), wit())
		}
		b.Count("proof_sizes_compared", 1)
	})
	name := "VerifyDiffProof"
	verifyA := func(l []rhp2.RPCWriteAction, th, lh []H, o, nw H, ar []H) bool {
		return rhp2.VerifyDiffProof(l, n, th, lh, o, nw, ar)
	}
	if !accept(b, name, wit, func() bool { return verifyA(lib, th, lh, oldRoot, newRoot, appendRoots) }) {
		return
	}
	if withData != nil {
		b.Count("diff_proofs_verified_with_sector_data", 1)
		tamper(b, name, "append-data-bit-flipped", wit, "one bit of the appended sector data is flipped", func() bool {
			l2 := append([]rhp2.RPCWriteAction(nil), lib...)
			for i := range l2 {
				if l2[i].Data != nil {
					d := append([]byte(nil), l2[i].Data...)
					d[b.Rng.IntN(len(d))] ^= 1 << b.Rng.IntN(8)
					l2[i].Data = d
				}
			}
			return verifyA(l2, th, lh, oldRoot, newRoot, nil)
		})
		return
	}
	diffTampers(b, name, wit, th, lh, n <= 12, func(th, lh []H, o, nw H) bool { return verifyA(lib, th, lh, o, nw, appendRoots) }, oldRoot, newRoot)
	ai := 0
	for j, a := range acts {
		if a.Kind != "append" {
			continue
		}
		i := ai
		ai++
		bad := withHash(appendRoots, i, flipBit(appendRoots[i], b.Rng))
		// an appended sector that a later trim removes again does not reach the new list:
		// altering it leaves the claim true
		alt := append([]mAction(nil), acts...)
		alt[j].Root = bad[i]
		if nl, _ := applyActions(leaves, alt); mRoot(nl) == newRoot {
			b.Guard("C16/sound/"+name+"/append-root-bit-flipped", wit, func() {
				observe(b, name, "append-root-bit-flipped(sector trimmed again: claim still true)", verifyA(lib, th, lh, oldRoot, newRoot, bad))
			})
			continue
		}
		tamper(b, name, "append-root-bit-flipped", wit, fmt.Sprintf("append root %d has one bit flipped", i), func() bool { return verifyA(lib, th, lh, oldRoot, newRoot, bad) })
	}
	// one action altered (kept admissible); demanded only if the claim becomes false
	for i := range acts {
		alt := append([]mAction(nil), acts...)
		what := ""
		switch acts[i].Kind {
		case "swap":
			alt[i].A = acts[i].A ^ 1
			what = fmt.Sprintf("action %d swaps index %d instead of %d", i, alt[i].A, acts[i].A)
		case "trim":
			alt[i].A = acts[i].A + 1
			what = fmt.Sprintf("action %d trims %d instead of %d", i, alt[i].A, acts[i].A)
		default:
			continue
		}
		nl, ok := applyActions(leaves, alt)
		if !ok {
			continue
		}
		l2, ar2 := toLib(alt, nil)
		kind := "action-" + acts[i].Kind + "-operand-altered"
		if mRoot(nl) == newRoot {
			b.Guard("C16/sound/"+name+"/"+kind, wit, func() {
				observe(b, name, kind+"(same resulting list: claim still true)", verifyA(l2, th, lh, oldRoot, newRoot, ar2))
			})
			continue
		}
		tamper(b, name, kind, wit, what, func() bool { return verifyA(l2, th, lh, oldRoot, newRoot, ar2) })
	}
}
