package main

import (
	"fmt"
	"math/bits"

	rhp2 "go.sia.tech/core/rhp/v2"
	rhp4 "go.sia.tech/core/rhp/v4"
	"verif/internal/harness"
)

// ---- range proofs over a list of sector roots ------------------------------------
// BuildSectorRangeProof / VerifySectorRangeProof / RangeProofSize (rhp2) and their
// rhp4 names BuildSectorRootsProof / VerifySectorRootsProof.

func runRange(b *harness.B, share, shares int, light bool) {
	maxN := b.Pick(40, 96)
	if light {
		maxN = 18
	}
	for n := 0; n <= maxN; n++ {
		if n%shares != share {
			continue
		}
		seed := b.Rng.Uint64()
		leaves := genRoots(n, "random", seed)
		tree := newTree(leaves)
		if n == 0 {
			rangeEmpty(b)
			continue
		}
		for start := 0; start < n; start++ {
			for end := start + 1; end <= n; end++ {
				rangeCase(b, leaves, tree, seed, uint64(start), uint64(end), true)
				b.Distinct("range", n, start, end)
			}
		}
		b.Count("range_n_exhaustive_(all start<end)", 1)
	}
	b.MaxOf("range_exhaustive_up_to_n", int64(maxN))

	// larger trees: structured and random n up to 2^16 (+ a little beyond one sector of roots)
	var ns []int
	for k := 7; k <= 16; k++ {
		ns = append(ns, 1<<k-1, 1<<k, 1<<k+1)
	}
	ns = append(ns, 3<<14, 1<<16+3, 1<<17+1)
	for k := 0; k < b.Pick(24, 600); k++ {
		ns = append(ns, 97+b.Rng.IntN(1<<16-97))
	}
	if light {
		ns = []int{127, 1024, 4097, 65535, 1<<16 + 3}
	}
	for i, n := range ns {
		if i%shares != share {
			continue
		}
		seed := b.Rng.Uint64()
		leaves := genRoots(n, "random", seed)
		tree := newTree(leaves)
		N := uint64(n)
		var ranges [][2]uint64
		add := func(s, e uint64) {
			if s < e && e <= N {
				ranges = append(ranges, [2]uint64{s, e})
			}
		}
		add(0, N)
		add(0, 1)
		add(N-1, N)
		add(1, N-1)
		hp := uint64(1) << (bits.Len64(N-1) - 1) // largest power of two < n
		add(0, hp)
		add(hp, N)
		add(hp-1, hp+1)
		add(hp, hp+1)
		add(hp-1, hp)
		for k := 0; k < b.Pick(10, 40); k++ {
			s := b.Rng.Uint64N(N)
			var e uint64
			switch k % 4 {
			case 0:
				e = s + 1
			case 1:
				e = s + 1 + b.Rng.Uint64N(min(64, N-s))
			case 2:
				sz := uint64(1) << b.Rng.IntN(bits.Len64(N))
				s = s / sz * sz
				e = s + sz
			default:
				e = s + 1 + b.Rng.Uint64N(N-s)
			}
			add(s, e)
		}
		for _, r := range ranges {
			rangeCase(b, leaves, tree, seed, r[0], r[1], false)
			b.Distinct("range", nClass(N), idxClass(r[0], N), idxClass(r[1], N))
		}
	}
}

func rangeEmpty(b *harness.B) {
	// n = 0 admits no range (start < end <= n is impossible): nothing to demand.
	b.Guard("C16/build/BuildSectorRangeProof(n=0)", func() any { return "n=0" }, func() {
		p := rhp2.BuildSectorRangeProof(nil, 0, 0)
		ok := rhp2.VerifySectorRangeProof(p, nil, 0, 0, 0, H{})
		okAny := rhp2.VerifySectorRangeProof(p, nil, 0, 0, 0, H{1})
		b.Count(fmt.Sprintf("n=0(observed; no admissible range): empty proof accepted=%v, with a non-zero root accepted=%v", ok, okAny), 1)
	})
}

func rangeCase(b *harness.B, leaves []H, tree *mTree, seed uint64, start, end uint64, all bool) {
	n := uint64(len(leaves))
	root := tree.root()
	wit := func() any {
		return map[string]any{"sector_roots": witRoots("random", seed, leaves), "n": n, "start": start, "end": end, "model_root": hx(root)}
	}
	useV4 := (start+end)%2 == 1
	var proof []H
	if b.Guard("C16/build/BuildSectorRangeProof", wit, func() {
		if useV4 {
			proof = rhp4.BuildSectorRootsProof(leaves, start, end)
		} else {
			proof = rhp2.BuildSectorRangeProof(leaves, start, end)
		}
	}) {
		return
	}
	if sz := rhp2.RangeProofSize(n, start, end); sz != uint64(len(proof)) {
		b.Violate("C16/size/RangeProofSize/differs-from-built-proof-length", fmt.Sprintf("RangeProofSize(%d,%d,%d)=%d, BuildSectorRangeProof produced %d hashes", n, start, end, sz, len(proof)), wit())
	}
	if end == start+1 {
		if sz := rhp2.ProofSize(n, start); sz != uint64(len(proof)) {
			b.Violate("C16/size/ProofSize/differs-from-built-proof-length", fmt.Sprintf("ProofSize(%d,%d)=%d, builder produced %d hashes", n, start, sz, len(proof)), wit())
		}
	}
	b.Count("proof_sizes_compared", 1)
	if mp := tree.rangeProof(int(start), int(end)); !equalHs(mp, proof) {
		b.Count("builder_range_proof_differs_from_model_proof(observed)", 1)
	}
	rr := leaves[start:end]
	name := "VerifySectorRangeProof"
	verify := func(p, rr []H, s, e uint64, root H) bool {
		if useV4 {
			return rhp4.VerifySectorRootsProof(p, rr, n, s, e, root)
		}
		return rhp2.VerifySectorRangeProof(p, rr, s, e, n, root)
	}
	if !accept(b, name, wit, func() bool { return verify(proof, rr, start, end, root) }) {
		return
	}
	if end == start+1 && n > 1 {
		// ConvertProofOrdering (left-to-right -> leaf-to-root): compared with RFC 6962 PATH; observed only
		b.Guard("C16/build/ConvertProofOrdering", wit, func() {
			if !equalHs(rhp2.ConvertProofOrdering(cloneHs(proof), start), tree.auditPath(int(start))) {
				b.Count("ConvertProofOrdering_differs_from_rfc6962_audit_path(observed)", 1)
			} else {
				b.Count("ConvertProofOrdering_equals_rfc6962_audit_path(observed)", 1)
			}
		})
	}

	// big ranges cost O(end-start) hashes per verification: sample fewer corruptions there
	heavy := end-start > 2048
	k := 5
	if heavy {
		k = 1
	}
	for _, i := range pickIdx(b, len(proof), all, k) {
		bad := withHash(proof, i, flipBit(proof[i], b.Rng))
		tamper(b, name, "proof-hash-bit-flipped", wit, fmt.Sprintf("proof[%d] has one bit flipped", i), func() bool { return verify(bad, rr, start, end, root) })
	}
	for _, i := range pickIdx(b, len(rr), all, k) {
		bad := withHash(rr, i, flipBit(rr[i], b.Rng))
		tamper(b, name, "covered-root-bit-flipped", wit, fmt.Sprintf("range root %d has one bit flipped", i), func() bool { return verify(proof, bad, start, end, root) })
	}
	tamper(b, name, "root-bit-flipped", wit, "the tree root has one bit flipped", func() bool { return verify(proof, rr, start, end, flipBit(root, b.Rng)) })
	if end < n {
		tamper(b, name, "range-shifted-up", wit, "start and end are both one higher than the positions of the given roots", func() bool { return verify(proof, rr, start+1, end+1, root) })
	}
	if start > 0 {
		tamper(b, name, "range-shifted-down", wit, "start and end are both one lower than the positions of the given roots", func() bool { return verify(proof, rr, start-1, end-1, root) })
	}
	if all {
		// small trees: the same roots claimed at every other position of the same length
		ln := end - start
		for s := uint64(0); s+ln <= n; s++ {
			if s == start || s+1 == start || s == start+1 {
				continue // start±1 are the two shifted cases above
			}
			tamper(b, name, "range-moved", wit, fmt.Sprintf("the roots are claimed at [%d,%d)", s, s+ln), func() bool { return verify(proof, rr, s, s+ln, root) })
		}
	}
	if len(rr) >= 2 && !heavy {
		tamper(b, name, "start-altered", wit, "start is one higher (the first len-1 roots are claimed to sit at [start+1,end))", func() bool { return verify(proof, rr[:len(rr)-1], start+1, end, root) })
		tamper(b, name, "end-altered", wit, "end is one lower (the last len-1 roots are claimed to sit at [start,end-1))", func() bool { return verify(proof, rr[1:], start, end-1, root) })
		tamper(b, name, "covered-roots-swapped", wit, "two adjacent covered roots are exchanged", func() bool {
			bad := cloneHs(rr)
			bad[0], bad[1] = bad[1], bad[0]
			return verify(proof, bad, start, end, root)
		})
	}
	if len(proof) > 0 {
		tamper(b, name, "proof-shortened", wit, "the last proof hash is missing", func() bool { return verify(proof[:len(proof)-1], rr, start, end, root) })
		tamper(b, name, "proof-shortened", wit, "the first proof hash is missing", func() bool { return verify(proof[1:], rr, start, end, root) })
	}
	if len(proof) >= 2 && proof[0] != proof[1] {
		tamper(b, name, "proof-hashes-swapped", wit, "the first two proof hashes are exchanged", func() bool {
			bad := cloneHs(proof)
			bad[0], bad[1] = bad[1], bad[0]
			return verify(bad, rr, start, end, root)
		})
	}
	tamper(b, name, "proof-lengthened", wit, "a random hash is appended to the proof", func() bool { return verify(append(cloneHs(proof), randHash(b)), rr, start, end, root) })
	tamper(b, name, "proof-lengthened", wit, "a zero hash is prepended to the proof", func() bool { return verify(append([]H{{}}, proof...), rr, start, end, root) })
}

func equalHs(a, b []H) bool {
	if len(a) != len(b) {
		return false
	}
	for i := range a {
		if a[i] != b[i] {
			return false
		}
	}
	return true
}
