package main

import (
	"encoding/binary"
	"encoding/hex"
	"errors"
	"fmt"
	"io"
	"math/bits"
	"math/rand/v2"

	rhp2 "go.sia.tech/core/rhp/v2"
)

const (
	sectorSize      = rhp2.SectorSize
	leavesPerSector = rhp2.LeavesPerSector
)

func cpuPath() string {
	if hasAVX2() {
		return "avx2"
	}
	return "generic"
}

func pcg(seed uint64) *rand.Rand { return rand.New(rand.NewPCG(seed, seed^0x9e3779b97f4a7c15)) }

func fillRandom(p []byte, r *rand.Rand) {
	i := 0
	for ; i+8 <= len(p); i += 8 {
		binary.LittleEndian.PutUint64(p[i:], r.Uint64())
	}
	for ; i < len(p); i++ {
		p[i] = byte(r.Uint32())
	}
}

var sectorKinds = []string{"random", "zero", "ff", "leafindex", "period64", "period128", "onebit", "halves", "sparse"}

// genData fills dst (a multiple of 64 bytes) deterministically from (kind, seed);
// a witness therefore only needs kind, seed and len(dst).
func genData(dst []byte, kind string, seed uint64) {
	r := pcg(seed)
	switch kind {
	case "random":
		fillRandom(dst, r)
	case "zero":
		clear(dst)
	case "ff":
		for i := range dst {
			dst[i] = 0xFF
		}
	case "leafindex":
		for i := 0; i+64 <= len(dst); i += 64 {
			for j := 0; j < 64; j++ {
				dst[i+j] = byte(i / 64)
			}
			binary.LittleEndian.PutUint64(dst[i:], uint64(i/64))
		}
	case "period64":
		var leaf [64]byte
		fillRandom(leaf[:], r)
		for i := 0; i+64 <= len(dst); i += 64 {
			copy(dst[i:], leaf[:])
		}
	case "period128":
		var two [128]byte
		fillRandom(two[:], r)
		for i := 0; i < len(dst); i += 128 {
			copy(dst[i:], two[:])
		}
	case "onebit":
		clear(dst)
		if len(dst) > 0 {
			bit := r.Uint64N(uint64(len(dst)) * 8)
			dst[bit/8] = 1 << (bit % 8)
		}
	case "halves":
		fillRandom(dst[:len(dst)/2], r)
		copy(dst[len(dst)/2:], dst[:len(dst)/2])
	case "sparse":
		clear(dst)
		for k := 0; k < 16 && len(dst) > 0; k++ {
			dst[r.IntN(len(dst))] = byte(1 + r.IntN(255))
		}
	default:
		panic("unknown data kind " + kind)
	}
}

type dataWit struct {
	Gen  string `json:"generator"`
	Kind string `json:"kind"`
	Seed uint64 `json:"seed"`
	Len  int    `json:"len"`
}

func witData(kind string, seed uint64, n int) dataWit {
	return dataWit{"genData(kind,seed): math/rand/v2 PCG(seed, seed^0x9e3779b97f4a7c15), see cmd/c16/util.go", kind, seed, n}
}

// genRoots makes n 32-byte hashes. kind "random" gives pairwise distinct values.
func genRoots(n int, kind string, seed uint64) []H {
	out := make([]H, n)
	r := pcg(seed)
	switch kind {
	case "random":
		for i := range out {
			fillRandom(out[i][:], r)
		}
	case "zero":
	case "equal":
		var h H
		fillRandom(h[:], r)
		for i := range out {
			out[i] = h
		}
	case "index":
		for i := range out {
			binary.LittleEndian.PutUint64(out[i][:], uint64(i)+1)
		}
	default:
		panic("unknown roots kind " + kind)
	}
	return out
}

type rootsWit struct {
	Gen   string   `json:"generator"`
	Kind  string   `json:"kind"`
	Seed  uint64   `json:"seed"`
	N     int      `json:"n"`
	Roots []string `json:"roots_hex,omitempty"` // given in full when n <= 128
}

func witRoots(kind string, seed uint64, roots []H) rootsWit {
	w := rootsWit{"genRoots(n,kind,seed): math/rand/v2 PCG(seed, seed^0x9e3779b97f4a7c15), 32 bytes each, see cmd/c16/util.go", kind, seed, len(roots), nil}
	if len(roots) <= 128 {
		w.Roots = hexs(roots)
	}
	return w
}

func hexs(hs []H) []string {
	out := make([]string, len(hs))
	for i, h := range hs {
		out[i] = hex.EncodeToString(h[:])
	}
	return out
}

func hx(h H) string { return hex.EncodeToString(h[:]) }

func flipBit(h H, r *rand.Rand) H {
	b := r.IntN(256)
	h[b/8] ^= 1 << (b % 8)
	return h
}

func cloneHs(hs []H) []H { return append([]H(nil), hs...) }

// idxClass describes an index structurally (for Distinct shapes of big trees).
func idxClass(x, n uint64) string {
	switch {
	case x == 0:
		return "0"
	case x == n:
		return "n"
	}
	tz := bits.TrailingZeros64(x)
	return fmt.Sprintf("len%d/tz%d/pc%d", bits.Len64(x), tz, min(bits.OnesCount64(x), 3))
}

func nClass(n uint64) string {
	if n == 0 {
		return "0"
	}
	if n&(n-1) == 0 {
		return fmt.Sprintf("2^%d", bits.Len64(n)-1)
	}
	return fmt.Sprintf("len%d/pc%d/tz%d", bits.Len64(n), min(bits.OnesCount64(n), 4), bits.TrailingZeros64(n))
}

// ---- readers with every kind of chunking --------------------------------------

var errInjected = errors.New("injected read error")

type chunkSpec struct {
	Mode        string `json:"mode"` // fixed | random | alt
	K           int    `json:"k"`
	EOFWithData bool   `json:"eof_with_data"`
	ZeroEvery   int    `json:"zero_every"`
}

func (c chunkSpec) String() string {
	return fmt.Sprintf("%s%d/eof%v/z%d", c.Mode, c.K, c.EOFWithData, c.ZeroEvery)
}

// truncatedReader delivers its data and then reports, on every further call, that the stream was cut short
// (0, io.ErrUnexpectedEOF) - what crypto/tls, compress/gzip and length-framed transports do when the peer goes
// away. A consumer must come back with a result or an error; one that keeps polling is stopped by a panic.
type truncatedReader struct {
	data  []byte
	pos   int
	polls int
}

func (t *truncatedReader) Read(p []byte) (int, error) {
	if t.pos < len(t.data) {
		n := copy(p, t.data[t.pos:])
		t.pos += n
		return n, nil
	}
	t.polls++
	if t.polls > 100000 {
		panic("reader polled 100000 times after it reported the end of the stream (io.ErrUnexpectedEOF)")
	}
	return 0, io.ErrUnexpectedEOF
}

type chunkReader struct {
	data   []byte
	pos    int
	spec   chunkSpec
	rng    *rand.Rand
	calls  int
	failAt int // >= 0: fail with errInjected once pos reaches failAt
}

func newChunkReader(data []byte, spec chunkSpec, seed uint64) *chunkReader {
	return &chunkReader{data: data, spec: spec, rng: pcg(seed), failAt: -1}
}

func (c *chunkReader) Read(p []byte) (int, error) {
	c.calls++
	if len(p) == 0 {
		return 0, nil
	}
	if c.failAt >= 0 && c.pos >= c.failAt {
		return 0, errInjected
	}
	if c.pos >= len(c.data) {
		return 0, io.EOF
	}
	if c.spec.ZeroEvery > 0 && c.calls%c.spec.ZeroEvery == 0 {
		return 0, nil
	}
	k := c.spec.K
	switch c.spec.Mode {
	case "random":
		k = 1 + c.rng.IntN(c.spec.K)
	case "alt":
		if c.calls%2 == 0 {
			k = 1
		}
	}
	if k > len(p) {
		k = len(p)
	}
	if k > len(c.data)-c.pos {
		k = len(c.data) - c.pos
	}
	if c.failAt >= 0 && c.pos+k > c.failAt {
		k = c.failAt - c.pos
		if k == 0 {
			return 0, errInjected
		}
	}
	copy(p, c.data[c.pos:c.pos+k])
	c.pos += k
	if c.spec.EOFWithData && c.pos == len(c.data) {
		return k, io.EOF
	}
	return k, nil
}

// smallChunkings: used on short streams (every one of them is tried).
func smallChunkings() []chunkSpec {
	var out []chunkSpec
	for _, k := range []int{1, 2, 3, 5, 7, 13, 31, 32, 33, 63, 64, 65, 127, 128, 129, 191, 255, 256, 257, 1000, 1023, 1024, 1025, 1 << 20} {
		out = append(out, chunkSpec{Mode: "fixed", K: k})
	}
	out = append(out,
		chunkSpec{Mode: "fixed", K: 1, EOFWithData: true},
		chunkSpec{Mode: "fixed", K: 64, EOFWithData: true},
		chunkSpec{Mode: "fixed", K: 1 << 20, EOFWithData: true},
		chunkSpec{Mode: "fixed", K: 3, ZeroEvery: 2},
		chunkSpec{Mode: "fixed", K: 100, ZeroEvery: 3},
		chunkSpec{Mode: "random", K: 5},
		chunkSpec{Mode: "random", K: 130},
		chunkSpec{Mode: "random", K: 3000, EOFWithData: true},
		chunkSpec{Mode: "alt", K: 64},
		chunkSpec{Mode: "alt", K: 1024},
	)
	return out
}

// bigChunkings: used on whole sectors (1-byte reads of 4 MiB are tried, but not
// for every sector).
func bigChunkings(withTiny bool) []chunkSpec {
	out := []chunkSpec{
		{Mode: "fixed", K: 1 << 22},
		{Mode: "fixed", K: 4096},
		{Mode: "fixed", K: 4097},
		{Mode: "fixed", K: 65},
		{Mode: "random", K: 100000, EOFWithData: true},
		{Mode: "random", K: 300},
		{Mode: "alt", K: 131072},
		{Mode: "fixed", K: 131071, ZeroEvery: 5},
	}
	if withTiny {
		out = append(out, chunkSpec{Mode: "fixed", K: 1}, chunkSpec{Mode: "fixed", K: 7, EOFWithData: true})
	}
	return out
}
