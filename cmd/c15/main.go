// C15 — Currency is exact 128-bit arithmetic with faithful overflow reporting.
//
// Monitor: a math/big oracle watches every call of the real Currency
// operations over (a) the full cross product of a boundary grid, (b) random
// operands of every bit-length pair, (c) divisor-directed cases for the
// trial-quotient path; plus text/JSON round trips and hostile strings.
package main

import (
	"encoding/json"
	"fmt"
	"math/big"
	"math/rand/v2"
	"runtime"
	"strings"

	"go.sia.tech/core/types"
	"verif/internal/harness"
)

var (
	two128 = new(big.Int).Lsh(big.NewInt(1), 128)
	two64  = new(big.Int).Lsh(big.NewInt(1), 64)
)

func toBig(c types.Currency) *big.Int {
	b := new(big.Int).SetUint64(c.Hi)
	b.Lsh(b, 64)
	return b.Add(b, new(big.Int).SetUint64(c.Lo))
}

func fromBig(b *big.Int) types.Currency {
	m := new(big.Int).Mod(b, two128)
	lo := new(big.Int).Mod(m, two64).Uint64()
	hi := new(big.Int).Rsh(m, 64).Uint64()
	return types.NewCurrency(lo, hi)
}

func inRange(b *big.Int) bool { return b.Sign() >= 0 && b.Cmp(two128) < 0 }

func grid() []types.Currency {
	var g []*big.Int
	add := func(b *big.Int) {
		for d := int64(-2); d <= 2; d++ {
			v := new(big.Int).Add(b, big.NewInt(d))
			if inRange(v) {
				g = append(g, v)
			}
		}
	}
	for _, sh := range []uint{0, 1, 8, 31, 32, 33, 62, 63, 64, 65, 95, 96, 97, 126, 127} {
		add(new(big.Int).Lsh(big.NewInt(1), sh))
	}
	add(big.NewInt(0))
	add(new(big.Int).Sub(two128, big.NewInt(1)))
	add(new(big.Int).Sub(two128, big.NewInt(3)))
	t24 := new(big.Int).Exp(big.NewInt(10), big.NewInt(24), nil)
	add(t24)
	add(new(big.Int).Mul(t24, big.NewInt(300000)))
	add(new(big.Int).Exp(big.NewInt(10), big.NewInt(38), nil))
	// 0xFFFFFFFF00000000FFFFFFFF00000000 style patterns
	p1, _ := new(big.Int).SetString("FFFFFFFF00000000FFFFFFFF00000000", 16)
	p2, _ := new(big.Int).SetString("00000000FFFFFFFF00000000FFFFFFFF", 16)
	p3, _ := new(big.Int).SetString("8000000000000000FFFFFFFFFFFFFFFF", 16)
	p4, _ := new(big.Int).SetString("FFFFFFFFFFFFFFFF0000000000000000", 16)
	g = append(g, p1, p2, p3, p4)
	seen := map[string]bool{}
	var out []types.Currency
	for _, b := range g {
		if !seen[b.String()] {
			seen[b.String()] = true
			out = append(out, fromBig(b))
		}
	}
	return out
}

func grid64() []uint64 {
	var out []uint64
	seen := map[uint64]bool{}
	for _, base := range []uint64{0, 1, 1 << 8, 1 << 31, 1 << 32, 1 << 33, 1 << 62, 1 << 63, ^uint64(0), 10000, 25, 1000, 961, 39} {
		for d := int64(-2); d <= 2; d++ {
			v := base + uint64(d)
			if !seen[v] {
				seen[v] = true
				out = append(out, v)
			}
		}
	}
	return out
}

// call runs f and reports whether it panicked.
func call(f func()) (panicked bool, msg string) {
	defer func() {
		if r := recover(); r != nil {
			panicked = true
			msg = fmt.Sprint(r)
		}
	}()
	f()
	return
}

type wit struct {
	Op string `json:"op"`
	A  string `json:"a"`
	B  string `json:"b"`
}

func checkPair(b *harness.B, a, v types.Currency) {
	A, V := toBig(a), toBig(v)
	w := func(op string) wit { return wit{op, A.String(), V.String()} }
	viol := func(op, detail string) {
		b.Violate("C15/"+op, detail, w(op))
	}
	b.Eval(1)
	// Add
	{
		exp := new(big.Int).Add(A, V)
		got, of := a.AddWithOverflow(v)
		if of != !inRange(exp) {
			viol("AddWithOverflow/flag", fmt.Sprintf("%v+%v overflow flag=%v, exact result in range=%v", A, V, of, inRange(exp)))
		} else if !of && toBig(got).Cmp(exp) != 0 {
			viol("AddWithOverflow/value", fmt.Sprintf("%v+%v = %v, got %v", A, V, exp, toBig(got)))
		} else if of && got != fromBig(exp) {
			// documented nowhere; wrapped value is not relied on -> only recorded
			b.Count("add_wrapped_value_not_mod_2^128", 1)
		}
		var r types.Currency
		p, _ := call(func() { r = a.Add(v) })
		if p != !inRange(exp) {
			viol("Add/panic", fmt.Sprintf("%v+%v panicked=%v, exact result in range=%v", A, V, p, inRange(exp)))
		} else if !p && toBig(r).Cmp(exp) != 0 {
			viol("Add/value", fmt.Sprintf("%v+%v = %v, got %v", A, V, exp, toBig(r)))
		}
	}
	// Sub
	{
		exp := new(big.Int).Sub(A, V)
		got, uf := a.SubWithUnderflow(v)
		if uf != !inRange(exp) {
			viol("SubWithUnderflow/flag", fmt.Sprintf("%v-%v underflow flag=%v, exact=%v", A, V, uf, exp))
		} else if !uf && toBig(got).Cmp(exp) != 0 {
			viol("SubWithUnderflow/value", fmt.Sprintf("%v-%v = %v, got %v", A, V, exp, toBig(got)))
		}
		var r types.Currency
		p, _ := call(func() { r = a.Sub(v) })
		if p != !inRange(exp) {
			viol("Sub/panic", fmt.Sprintf("%v-%v panicked=%v exact=%v", A, V, p, exp))
		} else if !p && toBig(r).Cmp(exp) != 0 {
			viol("Sub/value", fmt.Sprintf("%v-%v = %v, got %v", A, V, exp, toBig(r)))
		}
	}
	// Mul
	{
		exp := new(big.Int).Mul(A, V)
		got, of := a.MulWithOverflow(v)
		if of != !inRange(exp) {
			viol("MulWithOverflow/flag", fmt.Sprintf("%v*%v overflow flag=%v, exact in range=%v", A, V, of, inRange(exp)))
		} else if !of && toBig(got).Cmp(exp) != 0 {
			viol("MulWithOverflow/value", fmt.Sprintf("%v*%v = %v, got %v", A, V, exp, toBig(got)))
		}
		var r types.Currency
		p, _ := call(func() { r = a.Mul(v) })
		if p != !inRange(exp) {
			viol("Mul/panic", fmt.Sprintf("%v*%v panicked=%v exact in range=%v", A, V, p, inRange(exp)))
		} else if !p && toBig(r).Cmp(exp) != 0 {
			viol("Mul/value", fmt.Sprintf("%v*%v = %v, got %v", A, V, exp, toBig(r)))
		}
	}
	// Div
	{
		var r types.Currency
		p, _ := call(func() { r = a.Div(v) })
		if V.Sign() == 0 {
			if !p {
				viol("Div/zero", fmt.Sprintf("%v/0 did not panic, returned %v", A, toBig(r)))
			}
		} else if p {
			viol("Div/panic", fmt.Sprintf("%v/%v panicked", A, V))
		} else if exp := new(big.Int).Quo(A, V); toBig(r).Cmp(exp) != 0 {
			viol("Div/value", fmt.Sprintf("%v/%v = %v, got %v", A, V, exp, toBig(r)))
		}
	}
	// Cmp / Equals
	{
		if got, exp := a.Cmp(v), A.Cmp(V); got != exp {
			viol("Cmp", fmt.Sprintf("Cmp(%v,%v)=%d want %d", A, V, got, exp))
		}
		if a.Equals(v) != (A.Cmp(V) == 0) {
			viol("Equals", fmt.Sprintf("Equals(%v,%v) wrong", A, V))
		}
	}
	shape := fmt.Sprint(A.BitLen(), "x", V.BitLen())
	b.Distinct("pair", shape, a.Lo&1, v.Lo&1)
}

func checkPair64(b *harness.B, a types.Currency, v uint64) {
	A, V := toBig(a), new(big.Int).SetUint64(v)
	w := func(op string) wit { return wit{op, A.String(), V.String()} }
	viol := func(op, detail string) { b.Violate("C15/"+op, detail, w(op)) }
	b.Eval(1)
	exp := new(big.Int).Mul(A, V)
	got, of := a.Mul64WithOverflow(v)
	if of != !inRange(exp) {
		viol("Mul64WithOverflow/flag", fmt.Sprintf("%v*%v overflow flag=%v exact in range=%v", A, V, of, inRange(exp)))
	} else if !of && toBig(got).Cmp(exp) != 0 {
		viol("Mul64WithOverflow/value", fmt.Sprintf("%v*%v = %v, got %v", A, V, exp, toBig(got)))
	}
	var r types.Currency
	p, _ := call(func() { r = a.Mul64(v) })
	if p != !inRange(exp) {
		viol("Mul64/panic", fmt.Sprintf("%v*%v panicked=%v", A, V, p))
	} else if !p && toBig(r).Cmp(exp) != 0 {
		viol("Mul64/value", fmt.Sprintf("%v*%v = %v, got %v", A, V, exp, toBig(r)))
	}
	p, _ = call(func() { r = a.Div64(v) })
	if v == 0 {
		if !p {
			viol("Div64/zero", fmt.Sprintf("%v/0 did not panic", A))
		}
	} else if p {
		viol("Div64/panic", fmt.Sprintf("%v/%v panicked", A, V))
	} else if e := new(big.Int).Quo(A, V); toBig(r).Cmp(e) != 0 {
		viol("Div64/value", fmt.Sprintf("%v/%v = %v, got %v", A, V, e, toBig(r)))
	}
	b.Distinct("pair64", A.BitLen(), "x", V.BitLen())
}

func randBits(r *rand.Rand, n int) *big.Int {
	if n == 0 {
		return big.NewInt(0)
	}
	v := new(big.Int).SetUint64(r.Uint64())
	v.Lsh(v, 64)
	v.Add(v, new(big.Int).SetUint64(r.Uint64()))
	v.Rsh(v, uint(128-n))
	v.SetBit(v, n-1, 1)
	// occasionally saturate low bits
	switch r.IntN(6) {
	case 0:
		for i := 0; i < n-1; i++ {
			v.SetBit(v, i, 1)
		}
	case 1:
		for i := 0; i < n-1; i++ {
			v.SetBit(v, i, 0)
		}
	}
	return v
}

func checkText(b *harness.B, c types.Currency) {
	C := toBig(c)
	viol := func(op, detail string) {
		b.Violate("C15/text/"+op, detail, map[string]string{"value": C.String(), "op": op})
	}
	b.Eval(1)
	forms := map[string]string{
		"ExactString": c.ExactString(),
		"String":      c.String(),
		"%d":          fmt.Sprintf("%d", c),
		"%s":          fmt.Sprintf("%s", c),
		"%v":          fmt.Sprintf("%v", c),
	}
	mt, err := c.MarshalText()
	if err != nil {
		viol("MarshalText", "error: "+err.Error())
	}
	forms["MarshalText"] = string(mt)
	if forms["ExactString"] != C.String() || forms["%d"] != C.String() || forms["MarshalText"] != C.String() {
		viol("exact-form", fmt.Sprintf("exact forms %q %q %q != %s", forms["ExactString"], forms["%d"], forms["MarshalText"], C))
	}
	if x := fmt.Sprintf("%x", c); x != C.Text(16) {
		viol("%x", fmt.Sprintf("%%x gives %q want %q", x, C.Text(16)))
	}
	for name, s := range forms {
		var got types.Currency
		var perr error
		p, msg := call(func() { got, perr = types.ParseCurrency(s) })
		if p {
			viol("Parse/"+name+"/panic", fmt.Sprintf("ParseCurrency(%q) panicked: %s", s, msg))
			continue
		}
		if perr != nil {
			viol("Parse/"+name+"/error", fmt.Sprintf("ParseCurrency(%q) (own output) failed: %v", s, perr))
			continue
		}
		if got != c {
			viol("Parse/"+name+"/value", fmt.Sprintf("ParseCurrency(%q) = %v want %v", s, toBig(got), C))
		}
		var u types.Currency
		if err := u.UnmarshalText([]byte(s)); err != nil || u != c {
			viol("UnmarshalText/"+name, fmt.Sprintf("UnmarshalText(%q) = %v,%v want %v", s, toBig(u), err, C))
		}
	}
	// String() denotes exactly the value: independent decimal expansion
	if s := c.String(); true {
		parts := strings.Fields(s)
		if len(parts) != 2 {
			viol("String/shape", fmt.Sprintf("String()=%q", s))
		} else {
			exps := map[string]int64{"H": 0, "pS": 12, "nS": 15, "uS": 18, "mS": 21, "SC": 24, "KS": 27, "MS": 30, "GS": 33, "TS": 36}
			e, ok := exps[parts[1]]
			r, ok2 := new(big.Rat).SetString(parts[0])
			if !ok || !ok2 {
				viol("String/unit", fmt.Sprintf("String()=%q", s))
			} else {
				r.Mul(r, new(big.Rat).SetInt(new(big.Int).Exp(big.NewInt(10), big.NewInt(e), nil)))
				if !r.IsInt() || r.Num().Cmp(C) != 0 {
					viol("String/denotes", fmt.Sprintf("String()=%q denotes %s, value is %s", s, r.RatString(), C))
				}
			}
		}
	}
	// JSON
	js, err := json.Marshal(c)
	if err != nil {
		viol("json/marshal", err.Error())
	} else {
		var u types.Currency
		if err := json.Unmarshal(js, &u); err != nil || u != c {
			viol("json/roundtrip", fmt.Sprintf("json %s -> %v,%v", js, toBig(u), err))
		}
		if string(js) != `"`+C.String()+`"` {
			viol("json/form", fmt.Sprintf("json form %s", js))
		}
	}
	// binary v1 / v2 encodings round trip (shares C11's oracle at the value level)
	b.Distinct("text", C.BitLen(), len(c.String()), strings.Fields(c.String())[1])
}

func checkReject(b *harness.B) {
	bad := []string{
		"", " ", "-1", "-0", "-1 SC", "1.5", "1.5 H", "0.5 pS", "0.0000000000001 pS", "1e3", "abc", "1 XS", "1 sc", "SC", ".", "..", "1..2 SC", "1.2.3 SC",
		"340282366920938463463374607431768211456",     // 2^128
		"340282366920938463463374607431768211456 H",   // 2^128
		"340282366920938.463463374607431768211456 SC", // 2^128 in SC
		"340282366920939 SC", "1000 TS", "341 TS", "0x10", "+1", "1_000", "１２", "1 SC SC", "1SC2", "1/2 SC", "1/1 SC", "inf SC", "NaN SC",
		"1e1 SC", "-1e1 SC", "1e-1 SC", "1E2 KS", "1p2 SC",
		// negative amounts whose integer part is zero or absent
		"-0.5 SC", "-.5 SC", "-00.75 mS", "-0.000000000001 pS", "-0.5 KS", "-0.1 H", "-0.000000000000000000000001 SC",
	}
	for _, s := range bad {
		b.Eval(1)
		var got types.Currency
		var err error
		p, msg := call(func() { got, err = types.ParseCurrency(s) })
		if p {
			b.Violate("C15/parse-hostile/panic", fmt.Sprintf("ParseCurrency(%q) panicked: %s", s, msg), s)
			continue
		}
		b.Distinct("reject", s)
		if err == nil {
			// accepted: it must then denote exactly that non-negative in-range integer.
			// A few of the strings above are legitimately parseable by big.Rat (e.g. "1/1 SC", "1e1 SC", "+1");
			// the property only demands rejection of negative, fractional-hasting and out-of-range inputs.
			den, ok := denote(s)
			if !ok {
				b.Violate("C15/parse-accepts-junk", fmt.Sprintf("ParseCurrency(%q) accepted as %v but the string denotes no amount", s, toBig(got)), s)
			} else if !den.IsInt() || den.Sign() < 0 || !inRange(den.Num()) {
				b.Violate("C15/parse-accepts-invalid", fmt.Sprintf("ParseCurrency(%q) accepted as %v but denotes %s", s, toBig(got), den.RatString()), s)
			} else if den.Num().Cmp(toBig(got)) != 0 {
				b.Violate("C15/parse-wrong-value", fmt.Sprintf("ParseCurrency(%q) = %v but denotes %s", s, toBig(got), den.RatString()), s)
			} else {
				b.Count("lenient_forms_accepted_with_exact_value", 1)
			}
		} else {
			b.Count("rejected", 1)
		}
	}
	// parse of the maximum in every unit
	max := new(big.Int).Sub(two128, big.NewInt(1))
	for unit, e := range map[string]int64{"H": 0, "pS": 12, "nS": 15, "uS": 18, "mS": 21, "SC": 24, "KS": 27, "MS": 30, "GS": 33, "TS": 36} {
		for _, d := range []int64{0, 1} {
			b.Eval(1)
			v := new(big.Int).Add(max, big.NewInt(d))
			s := v.String()
			if e > 0 {
				for int64(len(s)) <= e {
					s = "0" + s
				}
				s = s[:int64(len(s))-e] + "." + s[int64(len(s))-e:]
			}
			s += " " + unit
			got, err := types.ParseCurrency(s)
			if d == 0 && (err != nil || toBig(got).Cmp(max) != 0) {
				b.Violate("C15/parse-max/"+unit, fmt.Sprintf("ParseCurrency(%q) = %v, %v; want max", s, toBig(got), err), s)
			}
			if d == 1 && err == nil {
				b.Violate("C15/parse-overflow-accepted/"+unit, fmt.Sprintf("ParseCurrency(%q) accepted as %v", s, toBig(got)), s)
			}
			b.Distinct("maxunit", unit, d)
		}
	}
}

// denote gives the amount in hastings that a "<number> <unit>" string denotes under the
// documented grammar (decimal number, optional unit), or false.
func denote(s string) (*big.Rat, bool) {
	i := strings.LastIndexAny(s, "0123456789.") + 1
	if i == 0 {
		return nil, false
	}
	n, unit := s[:i], strings.TrimSpace(s[i:])
	exps := map[string]int64{"": 0, "H": 0, "pS": 12, "nS": 15, "uS": 18, "mS": 21, "SC": 24, "KS": 27, "MS": 30, "GS": 33, "TS": 36}
	e, ok := exps[unit]
	if !ok {
		return nil, false
	}
	r, ok := new(big.Rat).SetString(n)
	if !ok {
		return nil, false
	}
	return r.Mul(r, new(big.Rat).SetInt(new(big.Int).Exp(big.NewInt(10), big.NewInt(e), nil))), true
}

// hostile strings: cost proportional to input
func checkHostile(b *harness.B) {
	cases := []string{
		"1e1000000 SC", "1e100000 SC", "1e-1000000 SC", "1e9999999 H", "9e999999999 TS",
		strings.Repeat("9", 100000), strings.Repeat("9", 100000) + " SC", "0." + strings.Repeat("0", 100000) + "1 SC",
		strings.Repeat("1", 50) + "e" + strings.Repeat("9", 7) + " pS",
	}
	for _, s := range cases {
		b.Eval(1)
		b.Journal("hostile " + truncate(s, 60))
		var ms0, ms1 runtime.MemStats
		runtime.ReadMemStats(&ms0)
		var err error
		p, msg := call(func() { _, err = types.ParseCurrency(s) })
		runtime.ReadMemStats(&ms1)
		alloc := ms1.TotalAlloc - ms0.TotalAlloc
		b.MaxOf("hostile_parse_alloc_bytes", int64(alloc))
		b.Distinct("hostile", truncate(s, 20), len(s))
		if p {
			b.Violate("C15/parse-hostile/panic", fmt.Sprintf("ParseCurrency(%q...) panicked: %s", truncate(s, 40), msg), truncate(s, 200))
		}
		// Allocation out of proportion is C10's claim, judged there; here it is only observed.
		if alloc > uint64(1<<20+1024*len(s)) {
			b.Count("hostile_parse_alloc_over_proportional_bound(observed; judged by C10)", 1)
		}
		_ = err
	}
}

func truncate(s string, n int) string {
	if len(s) > n {
		return s[:n]
	}
	return s
}

func run(b *harness.B) {
	g := grid()
	g64 := grid64()
	switch {
	case b.Batch == 0:
		// exhaustive boundary grid
		for _, a := range g {
			for _, v := range g {
				checkPair(b, a, v)
			}
			for _, v := range g64 {
				checkPair64(b, a, v)
			}
			checkText(b, a)
		}
		b.Count("grid_values", len(g))
		b.Count("grid_pairs_exhaustive", len(g)*len(g)+len(g)*len(g64))
		checkReject(b)
		b.Sample(map[string]any{"kind": "grid pair", "a": toBig(g[len(g)/2]).String(), "b": toBig(g[len(g)-1]).String()})
	case b.Batch == 1:
		checkHostile(b)
		// divisor-directed: c = q*v + r with r in {0,1,v-1}, v.Hi != 0
		r := b.Rng
		n := b.Pick(40000, 2000000)
		for i := 0; i < n; i++ {
			vb := randBits(r, 65+r.IntN(64))
			qmaxBits := 128 - vb.BitLen()
			q := randBits(r, r.IntN(qmaxBits+1))
			var rem *big.Int
			switch r.IntN(4) {
			case 0:
				rem = big.NewInt(0)
			case 1:
				rem = big.NewInt(1)
			case 2:
				rem = new(big.Int).Sub(vb, big.NewInt(1))
			default:
				rem = new(big.Int).Mod(randBits(r, 1+r.IntN(vb.BitLen())), vb)
			}
			c := new(big.Int).Mul(q, vb)
			c.Add(c, rem)
			if !inRange(c) {
				continue
			}
			checkPair(b, fromBig(c), fromBig(vb))
		}
		b.Count("divisor_directed_cases", n)
	default:
		r := b.Rng
		per := b.Pick(8, 400)
		for la := 0; la <= 128; la++ {
			for lv := 0; lv <= 128; lv++ {
				for k := 0; k < per; k++ {
					a, v := fromBig(randBits(r, la)), fromBig(randBits(r, lv))
					checkPair(b, a, v)
					if lv <= 64 {
						checkPair64(b, a, v.Lo)
					}
				}
			}
			for k := 0; k < per*4; k++ {
				checkText(b, fromBig(randBits(r, la)))
			}
		}
		b.Sample(map[string]any{"kind": "random pair per bit-length class", "classes": 129 * 129, "per_class": per})
	}
}

func main() {
	harness.Main(harness.Spec{
		ID:     "C15",
		Rule:   "batch 0: full cross product of a boundary grid (neighbours of 0, 2^k for k in {1,8,31..33,62..65,95..97,126,127}, 2^128-1, 10^24, patterns) for Add/Sub/Mul/Div/Cmp (+WithOverflow and panicking forms) and grid x 64-bit grid for Mul64/Div64 — exhaustive over the grid; batch 1: divisor-directed cases c=q*v+r (v.Hi!=0, r in {0,1,v-1,random}) and hostile strings under an allocation monitor; other batches: random operands for every (bitlen a, bitlen b) class in 0..128 x 0..128; text forms per value. A case is non-trivial/distinct by (op family, bit lengths of operands, parities).",
		Assume: []string{"math/big is the arithmetic oracle", "the value of a wrapped (overflowed) result is unspecified and not judged"},
		Batches: func(t string) int {
			if t == "quick" {
				return 4
			}
			return 16
		},
		Run:         run,
		MinEvals:    100000,
		MinDistinct: 5000,
		Require:     []string{"grid_pairs_exhaustive", "divisor_directed_cases", "rejected"},
		Extra: func(m *harness.Result, cov map[string]any) {
			cov["exhaustive_subspace"] = "boundary grid cross product (batch 0)"
		},
	})
}
