package main

import (
	"fmt"

	"go.sia.tech/core/types"
	"verif/internal/chaingen"
	"verif/internal/harness"
)

// partialIndexBinding: a v1 partial signature hash lists the fields it covers by index. For each field kind, a
// transaction with several distinct entries is hashed with a covered-fields object listing ONE index k (not a prefix
// of the list); changing entry j afterwards changes the hash iff j == k.
func partialIndexBinding(b *harness.B) {
	rng := b.SubRng("partial-index")
	net := chaingen.GenNet(rng, "compressed", 7)
	cs := chaingen.NewChain(net, rng).Tip()
	h := func(x byte) (o types.Hash256) { o[0], o[5] = x, 0x5a; return }
	hb := func(x byte) []byte { v := h(x); return v[:] }
	uc := func(x byte) types.UnlockConditions {
		return types.UnlockConditions{Timelock: uint64(x), SignaturesRequired: 1, PublicKeys: []types.UnlockKey{{Algorithm: types.SpecifierEd25519, Key: hb(x)}}}
	}
	fc := func(x byte) types.FileContract {
		return types.FileContract{Filesize: uint64(x), WindowStart: 10, WindowEnd: 20, Payout: types.NewCurrency64(uint64(x) + 100), UnlockHash: types.Address(h(x))}
	}
	const n = 4
	mk := func() types.Transaction {
		var t types.Transaction
		for i := byte(0); i < n; i++ {
			t.SiacoinInputs = append(t.SiacoinInputs, types.SiacoinInput{ParentID: types.SiacoinOutputID(h(i)), UnlockConditions: uc(i)})
			t.SiacoinOutputs = append(t.SiacoinOutputs, types.SiacoinOutput{Value: types.NewCurrency64(uint64(i) + 1), Address: types.Address(h(i))})
			t.FileContracts = append(t.FileContracts, fc(i))
			t.FileContractRevisions = append(t.FileContractRevisions, types.FileContractRevision{ParentID: types.FileContractID(h(i)), UnlockConditions: uc(i), FileContract: fc(i)})
			t.StorageProofs = append(t.StorageProofs, types.StorageProof{ParentID: types.FileContractID(h(i)), Proof: []types.Hash256{h(i)}})
			t.SiafundInputs = append(t.SiafundInputs, types.SiafundInput{ParentID: types.SiafundOutputID(h(i)), UnlockConditions: uc(i), ClaimAddress: types.Address(h(i))})
			t.SiafundOutputs = append(t.SiafundOutputs, types.SiafundOutput{Value: uint64(i) + 1, Address: types.Address(h(i))})
			t.MinerFees = append(t.MinerFees, types.NewCurrency64(uint64(i)+7))
			t.ArbitraryData = append(t.ArbitraryData, []byte{i, 1, 2, 3})
			t.Signatures = append(t.Signatures, types.TransactionSignature{ParentID: h(i), PublicKeyIndex: uint64(i), Signature: hb(i)})
		}
		return t
	}
	kinds := []struct {
		name string
		cf   func(k uint64) types.CoveredFields
		mut  func(t *types.Transaction, j int)
	}{
		{"SiacoinInputs", func(k uint64) types.CoveredFields { return types.CoveredFields{SiacoinInputs: []uint64{k}} }, func(t *types.Transaction, j int) { t.SiacoinInputs[j].ParentID[9] ^= 1 }},
		{"SiacoinOutputs", func(k uint64) types.CoveredFields { return types.CoveredFields{SiacoinOutputs: []uint64{k}} }, func(t *types.Transaction, j int) { t.SiacoinOutputs[j].Address[9] ^= 1 }},
		{"FileContracts", func(k uint64) types.CoveredFields { return types.CoveredFields{FileContracts: []uint64{k}} }, func(t *types.Transaction, j int) { t.FileContracts[j].UnlockHash[9] ^= 1 }},
		{"FileContractRevisions", func(k uint64) types.CoveredFields { return types.CoveredFields{FileContractRevisions: []uint64{k}} }, func(t *types.Transaction, j int) { t.FileContractRevisions[j].ParentID[9] ^= 1 }},
		{"StorageProofs", func(k uint64) types.CoveredFields { return types.CoveredFields{StorageProofs: []uint64{k}} }, func(t *types.Transaction, j int) { t.StorageProofs[j].ParentID[9] ^= 1 }},
		{"SiafundInputs", func(k uint64) types.CoveredFields { return types.CoveredFields{SiafundInputs: []uint64{k}} }, func(t *types.Transaction, j int) { t.SiafundInputs[j].ClaimAddress[9] ^= 1 }},
		{"SiafundOutputs", func(k uint64) types.CoveredFields { return types.CoveredFields{SiafundOutputs: []uint64{k}} }, func(t *types.Transaction, j int) { t.SiafundOutputs[j].Address[9] ^= 1 }},
		{"MinerFees", func(k uint64) types.CoveredFields { return types.CoveredFields{MinerFees: []uint64{k}} }, func(t *types.Transaction, j int) { t.MinerFees[j] = t.MinerFees[j].Add(types.NewCurrency64(1000)) }},
		{"ArbitraryData", func(k uint64) types.CoveredFields { return types.CoveredFields{ArbitraryData: []uint64{k}} }, func(t *types.Transaction, j int) { t.ArbitraryData[j] = append([]byte{0xEE}, t.ArbitraryData[j]...) }},
		{"Signatures", func(k uint64) types.CoveredFields { return types.CoveredFields{Signatures: []uint64{k}} }, func(t *types.Transaction, j int) { t.Signatures[j].ParentID[9] ^= 1 }},
	}
	for _, kd := range kinds {
		for k := 0; k < n; k++ {
			cf := kd.cf(uint64(k))
			base := cs.PartialSigHash(mk(), cf)
			for j := 0; j < n; j++ {
				t := mk()
				kd.mut(&t, j)
				got := cs.PartialSigHash(t, cf)
				b.Eval(1)
				b.Count("partial_signature_hash_index_cases", 1)
				b.Distinct("partial-index", kd.name, j == k)
				if j == k && got == base {
					b.Violate("C12/sighash-does-not-bind-covered-content/partial/"+kd.name, fmt.Sprintf("the partial signature hash listing %s index %d is unchanged after entry %d changed", kd.name, k, j), map[string]any{"kind": kd.name, "covered": k})
				} else if j != k && got != base {
					b.Violate("C12/sighash-binds-content-it-does-not-list/partial/"+kd.name, fmt.Sprintf("the partial signature hash listing only %s index %d changed after entry %d changed: it hashes an entry the signer did not list", kd.name, k, j), map[string]any{"kind": kd.name, "covered": k, "changed": j})
				}
			}
		}
	}
}
