package main

import (
	"bytes"
	"encoding/binary"
	"fmt"
	"time"

	"go.sia.tech/core/consensus"
	"go.sia.tech/core/types"
	"verif/internal/harness"
)

// polyglot: the commitment of a v2 block hashes v1 and v2 transactions as leaves of one tree with the same leaf prefix
// and nothing that marks the kind of a leaf. The byte string built here (audit round 2) is at once the canonical
// encoding of a v2 transaction with one validly signed attestation and of a v1 transaction with 32770 siacoin
// inputs. The block carrying it in the v2 list and the block carrying it in the v1 list keep all header fields; the
// rule of the statement is applied to the pair: different content => different ID (or both rejected).
func polyglot(b *harness.B) {
	n := &consensus.Network{Name: "c12-polyglot", InitialCoinbase: types.Siacoins(300000), MinimumCoinbase: types.Siacoins(30000),
		InitialTarget: types.BlockID{0xFF}, BlockInterval: 10 * time.Minute, MaturityDelay: 3}
	n.HardforkOak.GenesisTimestamp = time.Unix(1700000000, 0).UTC()
	n.HardforkASIC.OakTime = 10000 * time.Second
	n.HardforkASIC.OakTarget = n.InitialTarget
	n.HardforkASIC.NonceFactor = 1009
	n.HardforkV2.AllowHeight = 1
	n.HardforkV2.RequireHeight = 1000
	n.HardforkV2.FinalCutHeight = 2000
	g := types.Block{Timestamp: n.HardforkOak.GenesisTimestamp}
	cs, _ := consensus.ApplyBlock(n.GenesisState(), g, consensus.V1BlockSupplement{}, time.Time{})

	sk := types.NewPrivateKeyFromSeed(make([]byte, 32))
	pk := sk.PublicKey()
	const numInputs = 2 + 256*(1<<7)
	numKeys0 := 256*1 + int(pk[31])
	var v bytes.Buffer
	u64 := func(x uint64) { _ = binary.Write(&v, binary.LittleEndian, x) }
	zeros := func(k int) { v.Write(make([]byte, k)) }
	zeros(6)
	u64(0)
	for i := 1; i < numKeys0; i++ {
		zeros(16)
		u64(0)
	}
	u64(0)
	for i := 1; i < numInputs; i++ {
		zeros(32)
		u64(0)
		u64(0)
		u64(0)
	}
	for i := 0; i < 8; i++ {
		u64(0)
	}
	u64(1)
	zeros(32)
	u64(0)
	u64(0)
	zeros(1)
	for i := 0; i < 10; i++ {
		u64(0)
	}
	u64(64)
	att := types.Attestation{PublicKey: pk, Key: "k", Value: v.Bytes()}
	att.Signature = sk.SignHash(cs.AttestationSigHash(att))
	v2txn := types.V2Transaction{Attestations: []types.Attestation{att}}
	var buf bytes.Buffer
	e := types.NewEncoder(&buf)
	v2txn.EncodeTo(e)
	e.Flush()
	wire := buf.Bytes()
	var v1txn types.Transaction
	d := types.NewBufDecoder(wire)
	v1txn.DecodeFrom(d)
	var buf1 bytes.Buffer
	e = types.NewEncoder(&buf1)
	if d.Err() == nil {
		v1txn.EncodeTo(e)
		e.Flush()
	}
	b.Eval(1)
	b.Count("polyglot_constructions", 1)
	if d.Err() != nil || !bytes.Equal(buf1.Bytes(), wire) {
		// the codecs no longer admit the double reading: nothing to judge
		b.Count("polyglot_not_constructible", 1)
		return
	}
	mk := func(v1 []types.Transaction, v2 []types.V2Transaction) types.Block {
		blk := types.Block{ParentID: cs.Index.ID, Timestamp: cs.PrevTimestamps[0].Add(time.Second),
			MinerPayouts: []types.SiacoinOutput{{Address: types.VoidAddress, Value: cs.BlockReward()}},
			Transactions: v1, V2: &types.V2BlockData{Height: cs.Index.Height + 1, Transactions: v2}}
		blk.V2.Commitment = cs.Commitment(types.VoidAddress, blk.Transactions, blk.V2Transactions())
		return blk
	}
	y := mk(nil, []types.V2Transaction{v2txn})
	for i := 0; i < 1<<20 && y.ID().CmpWork(cs.ChildTarget) < 0; i++ {
		y.Nonce += n.HardforkASIC.NonceFactor
	}
	x := mk([]types.Transaction{v1txn}, nil)
	x.Nonce = y.Nonce
	errY := consensus.ValidateBlock(cs, y, consensus.V1BlockSupplement{})
	errX := consensus.ValidateBlock(cs, x, consensus.V1BlockSupplement{Transactions: make([]consensus.V1TransactionSupplement, 1)})
	if errY != nil {
		b.Inconclusive("polyglot: the v2 reading is not accepted: " + errY.Error())
		return
	}
	if x.ID() == y.ID() {
		b.Violate("C12/block-not-bound/transaction-kind/one-encoding-read-as-v1-and-as-v2",
			fmt.Sprintf("two blocks with the same header fields and ID %v: X carries the bytes as a v1 transaction with %d siacoin inputs (ValidateBlock: %v), Y carries them as a v2 transaction with one attestation (accepted). The commitment does not bind of which kind a transaction leaf is", y.ID(), len(v1txn.SiacoinInputs), errX),
			map[string]any{"wire_bytes": len(wire)})
	}
}
