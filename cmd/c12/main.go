// C12 — IDs and sighashes bind exactly the effect-bearing content; block IDs
// bind all.
//
// Over the transactions and blocks of generated histories:
//
//	(1) every exported leaf field of every transaction is mutated (reflection)
//	    and all IDs / hashes / sighashes are compared before and after; a rule
//	    table says for each (hash, field class) whether the statement demands a
//	    change, forbids one, or says nothing;
//	(2) collision matrix: every derived ID of every object goes into one table
//	    labelled (kind, index); equal IDs under different labels are violations;
//	(3) era / purpose separation of signature hashes;
//	(4) block binding: every content mutation of an accepted block that keeps
//	    the header fields must make ValidateBlock reject or change Block.ID().
package main

import (
	"bytes"
	"encoding/json"
	"errors"
	"fmt"
	"reflect"
	"strings"

	"go.sia.tech/core/consensus"
	"go.sia.tech/core/types"
	"verif/internal/chaingen"
	"verif/internal/harness"
	"verif/internal/mutate"
)

type hv struct {
	name string
	h    [32]byte
}

func v1Hashes(cs consensus.State, t *types.Transaction) []hv {
	out := []hv{{"ID", t.ID()}, {"FullHash", t.FullHash()}, {"MerkleLeafHash", t.MerkleLeafHash()}}
	for i := range t.SiacoinOutputs {
		out = append(out, hv{fmt.Sprintf("SiacoinOutputID[%d]", i), t.SiacoinOutputID(i)})
	}
	for i := range t.SiafundOutputs {
		out = append(out, hv{fmt.Sprintf("SiafundOutputID[%d]", i), t.SiafundOutputID(i)})
	}
	for i := range t.FileContracts {
		out = append(out, hv{fmt.Sprintf("FileContractID[%d]", i), t.FileContractID(i)})
	}
	return out
}

func v2Hashes(cs consensus.State, t *types.V2Transaction) []hv {
	id := t.ID()
	out := []hv{{"ID", id}, {"FullHash", t.FullHash()}, {"MerkleLeafHash", t.MerkleLeafHash()}, {"InputSigHash", cs.InputSigHash(*t)}}
	for i := range t.SiacoinOutputs {
		out = append(out, hv{fmt.Sprintf("SiacoinOutputID[%d]", i), t.SiacoinOutputID(id, i)})
	}
	for i := range t.SiafundOutputs {
		out = append(out, hv{fmt.Sprintf("SiafundOutputID[%d]", i), t.SiafundOutputID(id, i)})
	}
	for i := range t.FileContracts {
		out = append(out, hv{fmt.Sprintf("V2FileContractID[%d]", i), t.V2FileContractID(id, i)})
	}
	for i := range t.Attestations {
		out = append(out, hv{fmt.Sprintf("AttestationID[%d]", i), t.AttestationID(id, i)})
	}
	return out
}

// v2Rule: how the transaction ID (and everything derived from it, and the input
// sighash) must react to a change of the field class.
func v2Rule(class string) string {
	switch {
	case strings.Contains(class, ".SatisfiedPolicy"):
		return "unchanged" // input witnesses
	case strings.HasSuffix(class, ".RenterSignature"), strings.HasSuffix(class, ".HostSignature"):
		return "unchanged" // contract and renewal signatures
	case strings.Contains(class, ".Parent.ID"):
		return "changed"
	case strings.Contains(class, ".Parent."):
		return "unchanged" // parent contents other than IDs, proofs
	case strings.Contains(class, ".Resolution<V2StorageProof>") && strings.Contains(class, ".ProofIndex.StateElement.MerkleProof"):
		return "unchanged" // the Merkle proof of the chain index element the storage proof refers to
	case strings.Contains(class, ".Resolution<V2StorageProof>"):
		return "either" // the proof object itself: not constrained by the statement
	case strings.HasPrefix(class, ".Attestations[].Signature"):
		return "either"
	}
	return "changed"
}

func v1Rule(class string) string {
	switch {
	case strings.HasPrefix(class, ".Signatures"):
		return "unchanged"
	case strings.Contains(class, ".FileContractRevisions[].(FileContract).Payout"):
		return "either" // never transmitted
	}
	return "changed"
}

type env struct {
	b    *harness.B
	c    *chaingen.Chain
	per  int
	ids  map[[32]byte]string
	eraH map[string][32]byte
}

// kindIndex strips the owner from a label: "v1-siacoin-output[2] of abc" -> "v1-siacoin-output[2]".
func kindIndex(label string) string {
	if i := strings.Index(label, " "); i > 0 {
		return label[:i]
	}
	return label
}

func (e *env) label(id [32]byte, label string) {
	// the statement is about distinct positions and kinds: the same (kind, index)
	// derived from identical content legitimately repeats
	if old, ok := e.ids[id]; ok && kindIndex(old) != kindIndex(label) {
		e.b.Violate("C12/collision/"+kindOf(old)+"-vs-"+kindOf(label), fmt.Sprintf("derived IDs coincide: %s and %s are both %x", old, label, id[:8]), map[string]any{"a": old, "b": label})
		return
	}
	e.ids[id] = label
	e.b.Count("derived_ids_in_collision_table", 1)
}

func kindOf(label string) string {
	if i := strings.IndexByte(label, ' '); i > 0 {
		return label[:i]
	}
	return label
}

func (e *env) collect(cs consensus.State, blk types.Block) {
	bid := blk.ID()
	e.label(bid, fmt.Sprintf("block %x", bid[:6]))
	for i := range blk.MinerPayouts {
		e.label(bid.MinerOutputID(i), fmt.Sprintf("miner-output[%d] of block %x", i, bid[:6]))
	}
	e.label(bid.FoundationOutputID(), fmt.Sprintf("foundation-output of block %x", bid[:6]))
	for ti := range blk.Transactions {
		t := &blk.Transactions[ti]
		id := t.ID()
		e.label(id, fmt.Sprintf("v1-txn %x", id[:6]))
		for i := range t.SiacoinOutputs {
			e.label(t.SiacoinOutputID(i), fmt.Sprintf("v1-siacoin-output[%d] of %x", i, id[:6]))
		}
		for i := range t.SiafundOutputs {
			sf := t.SiafundOutputID(i)
			e.label(sf, fmt.Sprintf("v1-siafund-output[%d] of %x", i, id[:6]))
			e.label(sf.ClaimOutputID(), fmt.Sprintf("v1-claim-output of sf %x", sf[:6]))
			e.label(sf.V2ClaimOutputID(), fmt.Sprintf("v2-claim-output of sf %x", sf[:6]))
		}
		for i, fc := range t.FileContracts {
			fcid := t.FileContractID(i)
			e.label(fcid, fmt.Sprintf("v1-contract[%d] of %x", i, id[:6]))
			for k := range fc.ValidProofOutputs {
				e.label(fcid.ValidOutputID(k), fmt.Sprintf("valid-output[%d] of contract %x", k, fcid[:6]))
			}
			for k := range fc.MissedProofOutputs {
				e.label(fcid.MissedOutputID(k), fmt.Sprintf("missed-output[%d] of contract %x", k, fcid[:6]))
			}
		}
	}
	for ti := range blk.V2Transactions() {
		t := &blk.V2.Transactions[ti]
		id := t.ID()
		e.label(id, fmt.Sprintf("v2-txn %x", id[:6]))
		for i := range t.SiacoinOutputs {
			e.label(t.SiacoinOutputID(id, i), fmt.Sprintf("v2-siacoin-output[%d] of %x", i, id[:6]))
		}
		for i := range t.SiafundOutputs {
			sf := t.SiafundOutputID(id, i)
			e.label(sf, fmt.Sprintf("v2-siafund-output[%d] of %x", i, id[:6]))
			e.label(sf.ClaimOutputID(), fmt.Sprintf("v1-claim-output of sf %x", sf[:6]))
			e.label(sf.V2ClaimOutputID(), fmt.Sprintf("v2-claim-output of sf %x", sf[:6]))
		}
		for i := range t.FileContracts {
			fcid := t.V2FileContractID(id, i)
			e.label(fcid, fmt.Sprintf("v2-contract[%d] of %x", i, id[:6]))
			e.label(fcid.V2RenterOutputID(), fmt.Sprintf("v2-renter-output of contract %x", fcid[:6]))
			e.label(fcid.V2HostOutputID(), fmt.Sprintf("v2-host-output of contract %x", fcid[:6]))
			e.label(fcid.V2RenewalID(), fmt.Sprintf("v2-renewal-id of contract %x", fcid[:6]))
		}
		for i := range t.Attestations {
			e.label(t.AttestationID(id, i), fmt.Sprintf("attestation[%d] of %x", i, id[:6]))
		}
		// signature hashes by purpose
		e.label(cs.InputSigHash(*t), fmt.Sprintf("sighash/input of %x", id[:6]))
		for i := range t.FileContracts {
			e.label(cs.ContractSigHash(t.FileContracts[i]), fmt.Sprintf("sighash/contract %x[%d]", id[:6], i))
		}
		for i := range t.FileContractRevisions {
			e.label(cs.ContractSigHash(t.FileContractRevisions[i].Revision), fmt.Sprintf("sighash/contract rev %x[%d]", id[:6], i))
		}
		for i := range t.FileContractResolutions {
			if r, ok := t.FileContractResolutions[i].Resolution.(*types.V2FileContractRenewal); ok {
				e.label(cs.RenewalSigHash(*r), fmt.Sprintf("sighash/renewal %x[%d]", id[:6], i))
				e.label(cs.ContractSigHash(r.NewContract), fmt.Sprintf("sighash/contract renewal-new %x[%d]", id[:6], i))
			}
		}
		for i := range t.Attestations {
			e.label(cs.AttestationSigHash(t.Attestations[i]), fmt.Sprintf("sighash/attestation %x[%d]", id[:6], i))
		}
	}
}

func (e *env) fields(cs consensus.State, blk types.Block) {
	rng := e.c.Rng
	for ti := range blk.Transactions {
		t := blk.Transactions[ti]
		before := v1Hashes(cs, &t)
		paths := mutate.Leaves(&t)
		pick := paths
		if len(paths) > e.per {
			pick = nil
			for _, k := range rng.Perm(len(paths))[:e.per] {
				pick = append(pick, paths[k])
			}
		}
		for _, p := range pick {
			class := mutate.Class(p)
			m := chaingen.CloneV1(t)
			if !mutate.Apply(&m, p, rng.IntN(3)) {
				continue
			}
			after := v1Hashes(cs, &m)
			rule := v1Rule(class)
			e.b.Eval(1)
			e.b.Distinct("v1", class, rule)
			for i, h := range before {
				if i >= len(after) {
					break
				}
				changed := after[i].h != h.h
				want := rule
				if h.name == "FullHash" || h.name == "MerkleLeafHash" {
					// the full hash / Merkle leaf covers everything that is transmitted
					want = "changed"
					if strings.Contains(class, ".FileContractRevisions[].(FileContract).Payout") {
						want = "either"
					}
				}
				if strings.HasSuffix(h.name, "]") {
					if changed != (after[0].h != before[0].h) {
						e.b.Violate("C12/derived-id-does-not-follow-transaction-id/v1/"+h.name[:strings.Index(h.name, "[")], "a derived ID changed without the transaction ID changing, or vice versa", map[string]any{"field": class})
					}
					continue
				}
				e.judge("v1", class, h.name, want, changed)
			}
		}
		// sighashes: whole-transaction signature hash must change with every effect-bearing field
		if len(t.Signatures) > 0 {
			s0 := t.Signatures[0]
			base := cs.WholeSigHash(t, s0.ParentID, s0.PublicKeyIndex, s0.Timelock, nil)
			for _, p := range pick {
				class := mutate.Class(p)
				if strings.HasPrefix(class, ".Signatures") || v1Rule(class) != "changed" {
					continue
				}
				m := chaingen.CloneV1(t)
				if !mutate.Apply(&m, p, 0) {
					continue
				}
				e.judge("v1", class, "WholeSigHash", "changed", cs.WholeSigHash(m, s0.ParentID, s0.PublicKeyIndex, s0.Timelock, nil) != base)
			}
		}
	}
	for ti := range blk.V2Transactions() {
		t := blk.V2.Transactions[ti]
		before := v2Hashes(cs, &t)
		paths := mutate.Leaves(&t)
		pick := paths
		if len(paths) > e.per {
			pick = nil
			for _, k := range rng.Perm(len(paths))[:e.per] {
				pick = append(pick, paths[k])
			}
		}
		for _, p := range pick {
			class := mutate.Class(p)
			m := chaingen.CloneV2(t)
			if !mutate.Apply(&m, p, rng.IntN(3)) {
				continue
			}
			if strings.HasSuffix(p, "(nil)") && strings.Contains(p, "NewFoundationAddress") {
				class = ".NewFoundationAddress(nil->set)"
			}
			after := v2Hashes(cs, &m)
			rule := v2Rule(class)
			e.b.Eval(1)
			e.b.Distinct("v2", class, rule)
			for i, h := range before {
				if i >= len(after) || after[i].name != h.name {
					break
				}
				changed := after[i].h != h.h
				want := rule
				if h.name == "FullHash" || h.name == "MerkleLeafHash" {
					want = "changed" // the block commitment covers the whole encoded transaction
				}
				if strings.HasSuffix(h.name, "]") {
					// derived IDs must follow the transaction ID exactly
					if changed != (after[0].h != before[0].h) {
						e.b.Violate("C12/derived-id-does-not-follow-transaction-id/v2/"+h.name[:strings.Index(h.name, "[")], "a derived ID changed without the transaction ID changing, or vice versa", map[string]any{"field": class})
					}
					continue
				}
				e.judge("v2", class, h.name, want, changed)
			}
			// purpose-specific sighashes
			switch {
			case strings.HasPrefix(class, ".FileContracts[]"):
				var k int
				fmt.Sscanf(p, ".FileContracts[%d]", &k)
				want := "changed"
				if strings.HasSuffix(class, "Signature") {
					want = "unchanged"
				}
				e.judge("v2", class, "ContractSigHash", want, cs.ContractSigHash(t.FileContracts[k]) != cs.ContractSigHash(m.FileContracts[k]))
			case strings.HasPrefix(class, ".FileContractRevisions[].Revision"):
				var k int
				fmt.Sscanf(p, ".FileContractRevisions[%d]", &k)
				want := "changed"
				if strings.HasSuffix(class, "Signature") {
					want = "unchanged"
				}
				e.judge("v2", class, "ContractSigHash", want, cs.ContractSigHash(t.FileContractRevisions[k].Revision) != cs.ContractSigHash(m.FileContractRevisions[k].Revision))
			case strings.HasPrefix(class, ".FileContractResolutions[].Resolution<V2FileContractRenewal>"):
				var k int
				fmt.Sscanf(p, ".FileContractResolutions[%d]", &k)
				a, _ := t.FileContractResolutions[k].Resolution.(*types.V2FileContractRenewal)
				bb, _ := m.FileContractResolutions[k].Resolution.(*types.V2FileContractRenewal)
				if a != nil && bb != nil {
					want := "changed"
					if strings.HasSuffix(class, "Signature") {
						want = "unchanged"
					}
					e.judge("v2", class, "RenewalSigHash", want, cs.RenewalSigHash(*a) != cs.RenewalSigHash(*bb))
				}
			case strings.HasPrefix(class, ".Attestations[]"):
				var k int
				fmt.Sscanf(p, ".Attestations[%d]", &k)
				want := "changed"
				if strings.HasSuffix(class, ".Signature") {
					want = "unchanged"
				}
				e.judge("v2", class, "AttestationSigHash", want, cs.AttestationSigHash(t.Attestations[k]) != cs.AttestationSigHash(m.Attestations[k]))
			}
		}
	}
}

func (e *env) judge(ver, class, hash, want string, changed bool) {
	switch want {
	case "changed":
		if !changed {
			e.b.Violate(fmt.Sprintf("C12/id-unchanged/%s%s/%s", ver, class, hash), fmt.Sprintf("%s of a %s transaction is unchanged after changing the effect-bearing field %s", hash, ver, class), map[string]any{"field": class, "hash": hash})
		} else {
			e.b.Count("effect_bearing_changes_detected", 1)
		}
	case "unchanged":
		if changed {
			e.b.Violate(fmt.Sprintf("C12/id-changed-by-exempt-field/%s%s/%s", ver, class, hash), fmt.Sprintf("%s of a %s transaction changed although only the exempt field %s changed", hash, ver, class), map[string]any{"field": class, "hash": hash})
		} else {
			e.b.Count("exempt_changes_ignored", 1)
		}
	default:
		e.b.Count(fmt.Sprintf("either:%s%s/%s changed=%v", ver, class, hash, changed), 1)
	}
}

// framing: two transactions that differ in TWO adjacent fields of the semantic encoding at once (bytes moved from the
// end of the arbitrary data into the optional Foundation address that follows it, or between attestation key and
// value) must still have different IDs and signature hashes: a variable-length field must be framed.
func (e *env) framing(cs consensus.State, blk types.Block) {
	for ti := range blk.V2Transactions() {
		base := chaingen.CloneV2(blk.V2.Transactions[ti])
		// A: arbitrary data = X || 0x01 || addr[:31], no Foundation address; B: arbitrary data = X, Foundation address = addr (last byte 0)
		var addr types.Address
		for i := 0; i < 31; i++ {
			addr[i] = byte(0x40 + i)
		}
		x := append([]byte(nil), base.ArbitraryData...)
		a, bb := chaingen.CloneV2(base), chaingen.CloneV2(base)
		a.ArbitraryData = append(append(append([]byte(nil), x...), 0x01), addr[:31]...)
		a.NewFoundationAddress = nil
		bb.ArbitraryData = x
		ad := addr
		bb.NewFoundationAddress = &ad
		e.b.Eval(1)
		e.b.Count("framing_pairs", 1)
		e.b.Distinct("framing", "arbitrary-data/foundation-address", len(x) > 0)
		if a.ID() == bb.ID() || cs.InputSigHash(a) == cs.InputSigHash(bb) {
			e.b.Violate("C12/id-collision/v2/arbitrary-data-vs-new-foundation-address", "two v2 transactions - one carrying extra arbitrary data, the other a Foundation address change - have the same ID / input signature hash: the arbitrary data is not framed in the semantic encoding", map[string]any{"arbitrary_data_len": len(x)})
		}
		// resolution kinds: a renewal whose first field reads as "0 attestations, L bytes of arbitrary data" against an
		// expiration of the same contract whose arbitrary data is the rest of the renewal's encoding. They resolve the
		// contract in different ways, so their IDs and input signature hashes must differ: the kind must be framed.
		{
			var ren types.V2FileContractRenewal
			ren.FinalRenterOutput.Address[0], ren.FinalHostOutput.Address[0] = 0x11, 0x22
			ren.RenterRollover, ren.HostRollover = types.Siacoins(13), types.Siacoins(7)
			ren.NewContract.RenterOutput.Value, ren.NewContract.HostOutput.Value = types.Siacoins(9), types.Siacoins(11)
			ren.NewContract.ProofHeight, ren.NewContract.ExpirationHeight = cs.Index.Height+20, cs.Index.Height+30
			ren.NewContract.RenterPublicKey[0], ren.NewContract.HostPublicKey[0] = 0x33, 0x44
			encRen := func() []byte {
				var buf bytes.Buffer
				en := types.NewEncoder(&buf)
				ren.EncodeTo(en)  // signatures are zero, as in the semantic encoding
				en.WriteUint64(0) // attestations of the renewing transaction
				en.WriteUint64(0) // its arbitrary data
				en.Flush()
				return buf.Bytes()
			}
			L := len(encRen()) - 16
			ren.FinalRenterOutput.Value = types.NewCurrency(0, uint64(L)) // lo = 0 attestations, hi = L bytes follow
			var parent types.V2FileContractElement
			parent.ID[0], parent.ID[1] = 0x09, byte(cs.Index.Height)
			r2 := ren
			ta := types.V2Transaction{FileContractResolutions: []types.V2FileContractResolution{{Parent: parent.Copy(), Resolution: &r2}}}
			tb := types.V2Transaction{FileContractResolutions: []types.V2FileContractResolution{{Parent: parent.Copy(), Resolution: &types.V2FileContractExpiration{}}}, ArbitraryData: encRen()[16:]}
			e.b.Eval(1)
			e.b.Count("framing_pairs", 1)
			e.b.Distinct("framing", "resolution-kind/renewal-vs-expiration")
			if ta.ID() == tb.ID() || cs.InputSigHash(ta) == cs.InputSigHash(tb) {
				e.b.Violate("C12/id-collision/v2/resolution-kind/renewal-vs-expiration-with-arbitrary-data", "a transaction renewing a contract and a transaction expiring the same contract (its arbitrary data holding the rest of the renewal's encoding) have the same ID and input signature hash: the resolution kind is not part of the semantic encoding", map[string]any{"arbitrary_data_len": L})
			}
		}
		// attestation key/value boundary
		if len(base.Attestations) > 0 {
			a2, b2 := chaingen.CloneV2(base), chaingen.CloneV2(base)
			a2.Attestations[0].Key, a2.Attestations[0].Value = "keyAB", []byte("CD")
			b2.Attestations[0].Key, b2.Attestations[0].Value = "keyABC", []byte("D")
			e.b.Eval(1)
			e.b.Count("framing_pairs", 1)
			if a2.ID() == b2.ID() || cs.AttestationSigHash(a2.Attestations[0]) == cs.AttestationSigHash(b2.Attestations[0]) {
				e.b.Violate("C12/id-collision/v2/attestation-key-vs-value", "moving a byte from an attestation's value into its key leaves the ID or the attestation signature hash unchanged", nil)
			}
		}
		break
	}
	for ti := range blk.Transactions {
		base := chaingen.CloneV1(blk.Transactions[ti])
		// v1: two arbitrary-data entries "ab","c" vs "a","bc"
		a, bb := chaingen.CloneV1(base), chaingen.CloneV1(base)
		a.ArbitraryData = [][]byte{[]byte("ab"), []byte("c")}
		bb.ArbitraryData = [][]byte{[]byte("a"), []byte("bc")}
		e.b.Eval(1)
		e.b.Count("framing_pairs", 1)
		if a.ID() == bb.ID() {
			e.b.Violate("C12/id-collision/v1/arbitrary-data-entries", "moving a byte between two arbitrary-data entries leaves the v1 transaction ID unchanged", nil)
		}
		break
	}
}

// eras: the v1 signature hash of a transaction with inputs must differ between replay-prefix eras
func (e *env) eras(cs consensus.State, blk types.Block) {
	n := e.c.Net.N
	heights := map[string]uint64{}
	add := func(name string, h uint64) {
		if h < 1<<39 {
			heights[name] = h
		}
	}
	add("pre-asic", 0)
	add("asic", n.HardforkASIC.Height)
	add("foundation", n.HardforkFoundation.Height)
	add("v2", n.HardforkV2.AllowHeight)
	// v2 signature hashes do not depend on the height at all: a v2 transaction signed against the parent of the first
	// v2-capable block (height allow-1) is the same transaction in every later block
	if allow := n.HardforkV2.AllowHeight; allow < 1<<39 {
		for ti := range blk.V2Transactions() {
			t := blk.V2.Transactions[ti]
			hs := []uint64{allow, allow + 1, allow + 1000}
			if allow > 0 {
				hs = append(hs, allow-1)
			}
			sig := func(st consensus.State) (out [][32]byte) {
				out = append(out, st.InputSigHash(t))
				for i := range t.FileContracts {
					out = append(out, st.ContractSigHash(t.FileContracts[i]))
				}
				for i := range t.Attestations {
					out = append(out, st.AttestationSigHash(t.Attestations[i]))
				}
				for i := range t.FileContractResolutions {
					if r, ok := t.FileContractResolutions[i].Resolution.(*types.V2FileContractRenewal); ok {
						out = append(out, st.RenewalSigHash(*r))
					}
				}
				return
			}
			ref := sig(cs)
			e.b.Eval(1)
			e.b.Count("v2_sighash_height_independence_cases", 1)
			for _, h := range hs {
				st := cs
				st.Index.Height = h
				if got := sig(st); !reflect.DeepEqual(got, ref) {
					e.b.Violate("C12/sighash-depends-on-height/v2", fmt.Sprintf("a v2 signature hash computed against a parent state of height %d (v2 allow height %d) differs from the one computed at height %d", h, allow, cs.Index.Height), map[string]any{"height": h, "allow": allow})
					break
				}
			}
			break
		}
	}
	for ti := range blk.Transactions {
		t := blk.Transactions[ti]
		if len(t.Signatures) == 0 {
			continue
		}
		if len(t.SiacoinInputs)+len(t.SiafundInputs) == 0 {
			// a signed transaction without inputs (a revision): its signature must be bound to its era all the same
			s0 := t.Signatures[0]
			got := map[[32]byte]bool{}
			for _, h := range heights {
				st := cs
				st.Index.Height = h
				got[st.WholeSigHash(t, s0.ParentID, s0.PublicKeyIndex, s0.Timelock, nil)] = true
			}
			e.b.Eval(1)
			e.b.Count("era_separation_cases_without_inputs", 1)
			if len(heights) > 1 && len(got) == 1 {
				e.b.Violate("C12/sighash-not-bound-to-era/WholeSigHash/transaction-without-inputs", "the whole-transaction signature hash of a signed v1 transaction without siacoin or siafund inputs (a contract revision) is the same in every replay-prefix era: the prefix is only written next to inputs", nil)
			}
			continue
		}
		s0 := t.Signatures[0]
		seen := map[[32]byte]string{}
		prefixes := map[string]string{}
		for name, h := range heights {
			st := cs
			st.Index.Height = h
			// which prefix applies is defined by the protocol: none / 0 / 1 / 2 by the highest fork reached
			pfx := "none"
			if h >= n.HardforkASIC.Height {
				pfx = "0"
			}
			if h >= n.HardforkFoundation.Height {
				pfx = "1"
			}
			if h >= n.HardforkV2.AllowHeight {
				pfx = "2"
			}
			prefixes[name] = pfx
			hsh := st.WholeSigHash(t, s0.ParentID, s0.PublicKeyIndex, s0.Timelock, nil)
			if other, ok := seen[hsh]; ok && prefixes[other] != pfx {
				e.b.Violate("C12/sighash-not-bound-to-era/WholeSigHash", fmt.Sprintf("the whole-transaction signature hash is the same under the replay prefixes of eras %s and %s", other, name), nil)
			}
			seen[hsh] = name
			ph := st.PartialSigHash(t, types.CoveredFields{SiacoinInputs: idx(len(t.SiacoinInputs)), SiafundInputs: idx(len(t.SiafundInputs))})
			key := [32]byte(ph)
			key[0] ^= 0xFF // keep partial hashes apart from whole hashes in the same map
			if other, ok := seen[key]; ok && prefixes[other] != pfx {
				e.b.Violate("C12/sighash-not-bound-to-era/PartialSigHash", fmt.Sprintf("the partial signature hash covering the inputs is the same in eras %s and %s", other, name), nil)
			}
			seen[key] = name
		}
		e.b.Count("era_separation_cases", 1)
		e.b.Eval(1)
		// the first block of an era: every other rule of these forks (subsidy, nonce factor, "v2 allowed") switches
		// for the block AT the fork height, i.e. when the parent state has height fork-1; the signature hashes that
		// validate that block must then differ from those of the block before it
		for name, h := range heights {
			if h < 2 {
				continue
			}
			last, first := cs, cs
			last.Index.Height, first.Index.Height = h-2, h-1 // parents of the last block of the old era and of the first of the new
			e.b.Count("era_first_block_cases", 1)
			if last.WholeSigHash(t, s0.ParentID, s0.PublicKeyIndex, s0.Timelock, nil) == first.WholeSigHash(t, s0.ParentID, s0.PublicKeyIndex, s0.Timelock, nil) {
				e.b.Violate("C12/sighash-not-bound-to-era/WholeSigHash/first-block-of-the-era", fmt.Sprintf("the signature hash that validates the block at the %s fork height (%d) equals the one of the block before it: a signature made in the old era is valid in the first block of the new one", name, h), map[string]any{"fork": name, "height": h})
			}
		}
		break
	}
}

func idx(n int) []uint64 {
	var s []uint64
	for i := 0; i < n; i++ {
		s = append(s, uint64(i))
	}
	return s
}

// blockBinding: content mutations with the header fields kept
func (e *env) blockBinding(cs consensus.State, orig types.Block, bs consensus.V1BlockSupplement) {
	e.bindingLoop(cs, orig, bs)
	e.parentStateBinding(cs, orig, bs)
	// the same v1 content in a v2 envelope below the allow height (accepted when its commitment is right): its ID is
	// then the header with that commitment, which must bind the content all the same
	if h := cs.Index.Height + 1; orig.V2 == nil && h < e.c.Net.N.HardforkV2.AllowHeight {
		env := chaingen.CloneBlock(orig)
		env.V2 = &types.V2BlockData{}
		miner := types.VoidAddress
		if len(env.MinerPayouts) > 0 {
			miner = env.MinerPayouts[0].Address
		}
		if e.c.Seal(cs, &env, miner, 1, nil) == nil {
			if consensus.ValidateBlock(cs, env, bs) == nil {
				e.b.Count("v2_envelopes_below_the_allow_height_accepted", 1)
				e.bindingLoop(cs, env, bs)
			} else {
				e.b.Count("v2_envelopes_below_the_allow_height_rejected", 1)
			}
		}
	}
}

// parentStateBinding: the commitment of a v2 block (hence its ID) covers the parent state. With the block's own
// commitment computed first, every single-field change of the state - chain index included or not - gives another
// commitment, the block is refused on the changed state, and the original state still gives the original commitment
// afterwards (a result may not depend on which states were committed to before).
func (e *env) parentStateBinding(cs consensus.State, orig types.Block, bs consensus.V1BlockSupplement) {
	if orig.V2 == nil || len(orig.MinerPayouts) == 0 {
		return
	}
	rng := e.c.Rng
	miner := orig.MinerPayouts[0].Address
	base := cs.Commitment(miner, orig.Transactions, orig.V2Transactions())
	if base != orig.V2.Commitment {
		return
	}
	nts := int(min(cs.Index.Height+1, uint64(len(cs.PrevTimestamps))))
	var cand []string
	probe := cs
	for _, p := range mutate.Leaves(&probe) {
		if strings.HasPrefix(p, ".Network") {
			continue
		}
		var i int
		if n, _ := fmt.Sscanf(p, ".Elements.Trees[%d]", &i); n == 1 && cs.Elements.NumLeaves&(1<<uint(i)) == 0 {
			continue // unused slot: not part of the state
		}
		if n, _ := fmt.Sscanf(p, ".PrevTimestamps[%d]", &i); n == 1 && i >= nts {
			continue
		}
		cand = append(cand, p)
	}
	n := min(e.per, len(cand))
	for _, k := range rng.Perm(len(cand))[:n] {
		p := cand[k]
		class := mutate.Class(p)
		alt := cs
		if !mutate.Apply(&alt, p, rng.IntN(3)) || bytes.Equal(encState(alt), encState(cs)) {
			continue
		}
		e.b.Eval(1)
		e.b.Count("parent_state_fields_changed_under_a_v2_block", 1)
		e.b.Distinct("parent-state", class)
		wit := map[string]any{"field": class, "height": cs.Index.Height + 1}
		if alt.Commitment(miner, orig.Transactions, orig.V2Transactions()) == base {
			e.b.Violate("C12/block-not-bound/parent-state"+class, fmt.Sprintf("after changing %s of the parent state the commitment of the v2 block is unchanged", class), wit)
		} else if err := func() (err error) {
			defer func() {
				if recover() != nil {
					err = errors.New("panic")
				}
			}()
			return consensus.ValidateBlock(alt, orig, bs)
		}(); err == nil {
			e.b.Violate("C12/block-not-bound/parent-state"+class+"/accepted", fmt.Sprintf("the v2 block is accepted on a parent state that differs in %s", class), wit)
		}
		if cs.Commitment(miner, orig.Transactions, orig.V2Transactions()) != base {
			e.b.Violate("C12/commitment-depends-on-states-seen-before"+class, "the commitment over the original parent state differs after a commitment over a changed state was computed", wit)
		}
	}
}

func (e *env) bindingLoop(cs consensus.State, orig types.Block, bs consensus.V1BlockSupplement) {
	rng := e.c.Rng
	id0 := orig.ID()
	paths := mutate.Leaves(&orig)
	var cand []string
	for _, p := range paths {
		if p == ".ParentID" || p == ".Nonce" || p == ".Timestamp" || strings.HasPrefix(p, ".V2.Commitment") {
			continue // header fields are kept (for a v2 block the commitment is one of them)
		}
		cand = append(cand, p)
	}
	n := e.per
	if len(cand) < n {
		n = len(cand)
	}
	for _, k := range rng.Perm(len(cand))[:n] {
		p := cand[k]
		class := mutate.Class(p)
		m := chaingen.CloneBlock(orig)
		if !mutate.Apply(&m, p, rng.IntN(3)) {
			continue
		}
		e.b.Eval(1)
		e.b.Distinct("block", class, orig.V2 != nil)
		idChanged := m.ID() != id0
		var verr error
		rejected := false
		if !idChanged {
			func() {
				defer func() {
					if r := recover(); r != nil {
						rejected = true // a crash is C10's subject; for binding it is not an acceptance
						e.b.Count("block_mutations_that_panicked_in_validation(judged by C10)", 1)
					}
				}()
				verr = consensus.ValidateBlock(cs, m, bs)
				rejected = verr != nil
			}()
		}
		switch {
		case idChanged:
			e.b.Count("block_mutations_changing_the_id", 1)
		case rejected:
			e.b.Count("block_mutations_rejected_with_same_id", 1)
		case strings.Contains(class, ".FileContractRevisions[].(FileContract).Payout"):
			// never transmitted and not covered by any ID: then it must not bear any effect either
			e.b.Count("either:block"+class, 1)
			ts := e.c.AncestorTimestamp(cs.Index.Height)
			s0, au0 := consensus.ApplyBlock(cs, orig, bs, ts)
			s1, au1 := consensus.ApplyBlock(cs, m, bs, ts)
			j0, _ := json.Marshal(au0)
			j1, _ := json.Marshal(au1)
			e.b.Count("unbound_field_effect_comparisons", 1)
			if !bytes.Equal(encState(s0), encState(s1)) || !bytes.Equal(j0, j1) {
				e.b.Violate("C12/same-id-different-effect/"+class, fmt.Sprintf("two accepted blocks with the same ID %x that differ only in %s lead to different states / updates", id0[:8], class), map[string]any{"field": class, "height": cs.Index.Height + 1})
			}
		default:
			e.b.Violate("C12/block-not-bound/"+class, fmt.Sprintf("after changing %s the block keeps its ID %x and is still accepted", class, id0[:8]), map[string]any{"field": class, "height": cs.Index.Height + 1})
		}
	}
}

// derivedVsCreated: the ID-derivation helpers of the transaction and block types must name exactly the elements the
// block creates (an ID helper that names another element is a derived ID coinciding with a different position).
func (e *env) derivedVsCreated(ev chaingen.ApplyEvent) {
	blk := ev.Block
	bid := blk.ID()
	expSC := map[types.SiacoinOutputID]string{}
	must := map[types.SiacoinOutputID]string{} // helper IDs that are certainly created by this block
	for i := range blk.MinerPayouts {
		expSC[bid.MinerOutputID(i)] = "miner-output"
		must[bid.MinerOutputID(i)] = "Block.ID().MinerOutputID"
	}
	expSC[bid.FoundationOutputID()] = "foundation-output"
	expSF := map[types.SiafundOutputID]bool{}
	expFC := map[types.FileContractID]bool{}
	for ti := range blk.Transactions {
		t := &blk.Transactions[ti]
		for i := range t.SiacoinOutputs {
			expSC[t.SiacoinOutputID(i)] = "v1-output"
			must[t.SiacoinOutputID(i)] = "Transaction.SiacoinOutputID"
		}
		for i := range t.SiafundInputs {
			expSC[t.SiafundClaimOutputID(i)] = "v1-claim"
			must[t.SiafundClaimOutputID(i)] = "Transaction.SiafundClaimOutputID"
		}
		for i := range t.SiafundOutputs {
			expSF[t.SiafundOutputID(i)] = true
		}
		for i := range t.FileContracts {
			expFC[t.FileContractID(i)] = true
		}
	}
	for ti := range blk.V2Transactions() {
		t := &blk.V2.Transactions[ti]
		id := t.ID()
		for i := range t.SiacoinOutputs {
			expSC[t.SiacoinOutputID(id, i)] = "v2-output"
			must[t.SiacoinOutputID(id, i)] = "V2Transaction.SiacoinOutputID"
		}
		for i := range t.SiafundInputs {
			cid := t.SiafundInputs[i].Parent.ID.V2ClaimOutputID()
			expSC[cid] = "v2-claim"
			must[cid] = "SiafundOutputID.V2ClaimOutputID"
		}
		for i := range t.SiafundOutputs {
			expSF[t.SiafundOutputID(id, i)] = true
		}
		for i := range t.FileContracts {
			expFC[t.V2FileContractID(id, i)] = true
		}
		for _, r := range t.FileContractResolutions {
			expSC[r.Parent.ID.V2RenterOutputID()] = "v2-resolution"
			expSC[r.Parent.ID.V2HostOutputID()] = "v2-resolution"
			must[r.Parent.ID.V2RenterOutputID()] = "FileContractID.V2RenterOutputID"
			must[r.Parent.ID.V2HostOutputID()] = "FileContractID.V2HostOutputID"
			if _, ok := r.Resolution.(*types.V2FileContractRenewal); ok {
				expFC[r.Parent.ID.V2RenewalID()] = true
			}
		}
	}
	// resolved v1 contracts pay valid / missed outputs
	for _, d := range ev.AU.FileContractElementDiffs() {
		if d.Resolved {
			fc := d.FileContractElement.FileContract
			if d.Revision != nil {
				fc = *d.Revision
			}
			for k := range fc.ValidProofOutputs {
				expSC[d.FileContractElement.ID.ValidOutputID(k)] = "v1-valid"
			}
			for k := range fc.MissedProofOutputs {
				expSC[d.FileContractElement.ID.MissedOutputID(k)] = "v1-missed"
			}
		}
	}
	created := map[types.SiacoinOutputID]bool{}
	for _, d := range ev.AU.SiacoinElementDiffs() {
		if d.Created {
			created[d.SiacoinElement.ID] = true
			e.b.Eval(1)
			if _, ok := expSC[d.SiacoinElement.ID]; !ok {
				e.b.Violate("C12/derived-id/created-siacoin-element-not-named-by-any-helper", fmt.Sprintf("block at height %d creates siacoin element %v that no ID helper of the block's transactions names", ev.Next.Index.Height, d.SiacoinElement.ID), map[string]any{"height": ev.Next.Index.Height, "kinds": ev.Kinds})
			}
		}
	}
	for id, helper := range must {
		if !created[id] {
			e.b.Violate("C12/derived-id/helper-names-an-element-the-block-does-not-create/"+helper, fmt.Sprintf("%s gives %v, but applying the block at height %d creates no siacoin element with that ID", helper, id, ev.Next.Index.Height), map[string]any{"height": ev.Next.Index.Height, "helper": helper, "kinds": ev.Kinds})
		}
	}
	for _, d := range ev.AU.SiafundElementDiffs() {
		if d.Created && !expSF[d.SiafundElement.ID] {
			e.b.Violate("C12/derived-id/created-siafund-element-not-named-by-any-helper", fmt.Sprintf("siafund element %v", d.SiafundElement.ID), map[string]any{"height": ev.Next.Index.Height})
		}
	}
	for _, d := range ev.AU.FileContractElementDiffs() {
		if d.Created && !expFC[d.FileContractElement.ID] {
			e.b.Violate("C12/derived-id/created-contract-not-named-by-any-helper", fmt.Sprintf("contract %v", d.FileContractElement.ID), map[string]any{"height": ev.Next.Index.Height})
		}
	}
	for _, d := range ev.AU.V2FileContractElementDiffs() {
		if d.Created && !expFC[d.V2FileContractElement.ID] {
			e.b.Violate("C12/derived-id/created-v2-contract-not-named-by-any-helper", fmt.Sprintf("contract %v", d.V2FileContractElement.ID), map[string]any{"height": ev.Next.Index.Height})
		}
	}
	e.b.Count("derived_id_helper_sets_compared_with_created_elements", 1)
}

func encState(s consensus.State) []byte {
	var buf bytes.Buffer
	e := types.NewEncoder(&buf)
	s.EncodeTo(e)
	e.Flush()
	return buf.Bytes()
}

// attestationReplay: an attestation-only transaction consumes nothing, so its ID - and the IDs of the attestation
// elements derived from it - are only unique if the transaction cannot be included again. The same transaction is
// placed twice in one block and offered to the real ValidateBlock; if the block is accepted and applied, two distinct
// elements (two accumulator leaves) carry one AttestationID.
func (e *env) attestationReplay() bool {
	c := e.c
	cs := c.Tip()
	if cs.Index.Height+1 < c.Net.N.HardforkV2.AllowHeight {
		return false
	}
	key := c.W.Keys[2]
	a := types.Attestation{PublicKey: key.PublicKey(), Key: "HostAnnouncement", Value: []byte("host.example:9984")}
	a.Signature = key.SignHash(cs.AttestationSigHash(a))
	t := types.V2Transaction{Attestations: []types.Attestation{a}}
	blk, bs, err := c.BlockWith(nil, []types.V2Transaction{chaingen.CloneV2(t), chaingen.CloneV2(t)})
	if err != nil {
		return false
	}
	e.b.Eval(1)
	e.b.Count("attestation_only_transaction_repeated", 1)
	if consensus.ValidateBlock(cs, blk, bs) != nil {
		e.b.Count("attestation_only_repetition_rejected", 1)
		return true
	}
	_, au := consensus.ApplyBlock(cs, blk, bs, c.AncestorTimestamp(cs.Index.Height))
	n := 0
	leaves := []uint64{}
	// the attestation elements are only visible in the JSON form of the update
	var aj struct {
		AttestationElements []types.AttestationElement `json:"attestationElements"`
	}
	if js, err := json.Marshal(au); err != nil || json.Unmarshal(js, &aj) != nil {
		e.b.Inconclusive("attestation replay: update not readable")
		return true
	}
	for _, ae := range aj.AttestationElements {
		if ae.ID == t.AttestationID(t.ID(), 0) {
			n++
			leaves = append(leaves, ae.StateElement.LeafIndex)
		}
	}
	if n >= 2 {
		e.b.Violate("C12/collision/attestation-vs-attestation/attestation-only-transaction-repeated",
			fmt.Sprintf("a block containing the same attestation-only v2 transaction twice is accepted; applying it creates %d attestation elements (accumulator leaves %v) with the one ID %v", n, leaves, t.AttestationID(t.ID(), 0)), map[string]any{"height": cs.Index.Height + 1})
	}
	return true
}

// emptyContractProof: the storage-proof object of a v2 resolution is part of the transaction ID. For a contract
// that stores no data the verifier constrains neither the leaf nor (below 64 hashes) the proof, and the resolution
// needs no signed input: anyone relaying the transaction can rewrite both, the transaction stays valid and has the
// same effects, but another ID. Both forms are offered to the real ValidateBlock and applied.
func (e *env) emptyContractProof() bool {
	c := e.c
	h := c.Height() + 1
	if h < c.Net.N.HardforkV2.AllowHeight {
		return false
	}
	blk, bs, ids, err := c.BlockWithV2Contracts([]chaingen.V2ContractSpec{{Data: nil, ProofHeight: h + 1, ExpirationHeight: h + 6}})
	if err != nil || ids[0] == (types.FileContractID{}) || c.Offer(blk, bs, nil) != nil {
		return false
	}
	for i := 0; i < 2; i++ {
		if eb, ebs, err := c.EmptyBlock(); err != nil || c.Offer(eb, ebs, nil) != nil {
			return true
		}
	}
	fce, ok := c.S.V2FCEs[ids[0]]
	cie, ok2 := c.S.CIEs[h+1]
	if !ok || !ok2 {
		return true
	}
	cs := c.Tip()
	mk := func(leaf [64]byte, proof []types.Hash256) types.V2Transaction {
		return types.V2Transaction{FileContractResolutions: []types.V2FileContractResolution{{Parent: fce.Copy(), Resolution: &types.V2StorageProof{ProofIndex: cie.Copy(), Leaf: leaf, Proof: proof}}}}
	}
	ta := mk([64]byte{}, nil)
	tb := mk([64]byte{0xAA}, []types.Hash256{{1}, {2}, {3}})
	outs := func(t types.V2Transaction) (string, bool) {
		blk, bs, err := c.BlockWith(nil, []types.V2Transaction{t})
		if err != nil || consensus.ValidateBlock(cs, blk, bs) != nil {
			return "", false
		}
		_, au := consensus.ApplyBlock(cs, blk, bs, c.AncestorTimestamp(cs.Index.Height))
		s := ""
		for _, d := range au.SiacoinElementDiffs() {
			if d.Created && d.SiacoinElement.ID != blk.ID().MinerOutputID(0) && d.SiacoinElement.ID != blk.ID().FoundationOutputID() {
				s += fmt.Sprintf("%v:%v:%v;", d.SiacoinElement.ID, d.SiacoinElement.SiacoinOutput.Value, d.SiacoinElement.SiacoinOutput.Address)
			}
		}
		for _, d := range au.V2FileContractElementDiffs() {
			s += fmt.Sprintf("fc %v resolved=%v;", d.V2FileContractElement.ID, d.Resolution != nil)
		}
		return s, true
	}
	ea, okA := outs(ta)
	eb, okB := outs(tb)
	e.b.Eval(1)
	e.b.Count("empty_contract_proof_pairs", 1)
	if okA && okB && ea == eb && ta.ID() != tb.ID() {
		e.b.Violate("C12/id-changed/v2.FileContractResolutions[].Resolution(storage-proof-of-an-empty-contract).Leaf+Proof/ID",
			"two v2 transactions resolving the same empty contract by storage proof, one with a zero leaf and no proof, one with an arbitrary leaf and three arbitrary hashes, are both accepted and have identical effects (same resolved contract, same created outputs) but different transaction IDs: the witness of a resolution that needs no signature is rewritable by anyone (third-party malleability)", nil)
	}
	return true
}

func run(b *harness.B) {
	if b.Batch == 0 {
		polyglot(b)
		partialIndexBinding(b)
	}
	nNets := b.Pick(6, 10)
	blocks := b.Pick(200, 500)
	for i := 0; i < nNets; i++ {
		fam := chaingen.Families[(b.Batch+i)%len(chaingen.Families)]
		rng := b.SubRng(fmt.Sprint("net", i))
		net := chaingen.GenNet(rng, fam, b.Batch*100+i)
		c := chaingen.NewChain(net, rng)
		e := &env{b: b, c: c, per: b.Pick(60, 200), ids: map[[32]byte]string{}}
		c.OnAccepted = func(cs consensus.State, orig types.Block, bs consensus.V1BlockSupplement, kinds []string) {
			if len(kinds) >= 3 {
				b.Sample(chaingen.DescribeBlock(cs, orig, kinds))
			}
			b.Count("accepted_blocks", 1)
			b.SetAdd("eras", chaingen.Era(net.N, cs.Index.Height+1))
			e.collect(cs, orig)
			e.fields(cs, orig)
			e.eras(cs, orig)
			e.framing(cs, orig)
			e.blockBinding(cs, orig, bs)
		}
		c.OnStoreApplied = func(ev chaingen.ApplyEvent) { e.derivedVsCreated(ev) }
		replayed, emptyProof := false, false
		for done := 0; done < blocks; {
			done += c.Grow(1+rng.IntN(10), chaingen.Plan{MaxTxns: 6})
			if c.Height() > 2 && rng.IntN(8) == 0 {
				c.RevertTip()
			}
			if !replayed {
				replayed = e.attestationReplay()
			}
			if !emptyProof && replayed {
				emptyProof = e.emptyContractProof()
			}
		}
		if i == 0 {
			b.Sample(map[string]any{"network": net.Name, "family": fam, "height": c.Height(), "ids_in_collision_table": len(e.ids)})
		}
	}
}

func main() {
	harness.Main(harness.Spec{
		ID:     "C12",
		Rule:   "transactions and blocks of chaingen histories (all kinds, all eras). (1) for a sample of every transaction's exported leaf fields (reflection), the field is mutated and ID, derived output/contract/attestation IDs, FullHash, MerkleLeafHash and the signature hashes are compared before/after against the rule table changed / unchanged / either; (2) all derived IDs and signature hashes are labelled (kind, index, owner) in one table: equal values under different labels are collisions; (3) v1 signature hashes of transactions with inputs under each replay-prefix era; (4) block content mutations keeping the header: ID changes or ValidateBlock rejects. distinct = (version, field class, rule).",
		Assume: []string{"exempt fields are exactly those the statement lists; the storage-proof object of a v2 resolution (a changed proof of a non-empty contract is simply invalid), an attestation's own signature and the never-transmitted revision payout are unconstrained ('either') in the field sweep; the one case in which two storage-proof objects are both accepted with identical effects - an empty contract - is judged by a directed scenario", "signed v1 transactions without inputs are judged for era separation under a key of their own (known finding: siad-inherited design)"},
		Batches: func(t string) int {
			if t == "quick" {
				return 16
			}
			return 48
		},
		Run:         run,
		MinEvals:    5000,
		MinDistinct: 150,
		Require:     []string{"attestation_only_transaction_repeated", "empty_contract_proof_pairs", "polyglot_constructions", "era_first_block_cases", "accepted_blocks", "effect_bearing_changes_detected", "exempt_changes_ignored", "derived_ids_in_collision_table", "era_separation_cases", "framing_pairs", "block_mutations_changing_the_id", "block_mutations_rejected_with_same_id", "parent_state_fields_changed_under_a_v2_block", "partial_signature_hash_index_cases"},
	})
}
