package main

// Reference LAYOUT TABLES: an independent, declarative statement of the byte
// layout of every consensus-critical wire object, plus a small generic
// encoder over the tables. Authored from the protocol as implemented at the
// pinned commit; cross-checked against the golden addresses in the repo's
// tests (golden.go). A symmetric field swap / drop in the library's encoder
// and decoder cannot pass the comparison against these tables.
//
// Row spec grammar (the whole "schema language"):
//
//	u8 u64 bool        little-endian integers, bool as one byte 0/1 (int64/Duration as its two's complement u64)
//	time               u64 LE of the Unix time in seconds
//	raw                the bytes of a fixed-size byte array, no prefix
//	bytes              u64 LE length, then the bytes ([]byte or string)
//	curv1              u64 LE length n<=16, then the n-byte big-endian magnitude without leading zeros
//	curv2              u64 LE low word, u64 LE high word
//	sfv1               a uint64 siafund count encoded as curv1
//	@Name              nested object with layout Name
//	[]X                u64 LE count, then each element as X
//	?X                 bool presence byte, then X when present (pointer)
//	=hex               constant bytes
//	!name              special form (see specials)
//
// Field "." is the value itself; dotted fields descend (embedded structs by type name).

import (
	"encoding/binary"
	"encoding/hex"
	"fmt"
	"math/bits"
	"reflect"
	"sort"
	"strings"
	"time"

	"go.sia.tech/core/consensus"
	"go.sia.tech/core/types"
	"verif/internal/valgen"
)

type row struct{ Field, Spec string }

var idLayout = []row{{".", "raw"}}

var layouts = map[string][]row{
	"Hash256": idLayout, "BlockID": idLayout, "TransactionID": idLayout, "Address": idLayout, "PublicKey": idLayout,
	"Signature": idLayout, "Specifier": idLayout, "AttestationID": idLayout, "SiacoinOutputID": idLayout,
	"SiafundOutputID": idLayout, "FileContractID": idLayout,

	"UnlockKey":        {{"Algorithm", "raw"}, {"Key", "bytes"}},
	"UnlockConditions": {{"Timelock", "u64"}, {"PublicKeys", "[]@UnlockKey"}, {"SignaturesRequired", "u64"}},
	"V1Currency":       {{".", "curv1"}},
	"V2Currency":       {{".", "curv2"}},
	"ChainIndex":       {{"Height", "u64"}, {"ID", "raw"}},
	"V1SiacoinOutput":  {{"Value", "curv1"}, {"Address", "raw"}},
	"V2SiacoinOutput":  {{"Value", "curv2"}, {"Address", "raw"}},
	"V1SiafundOutput":  {{"Value", "sfv1"}, {"Address", "raw"}, {"", "=0000000000000000"}}, // trailing empty "claim start" currency
	"V2SiafundOutput":  {{"Value", "u64"}, {"Address", "raw"}},
	"SiacoinInput":     {{"ParentID", "raw"}, {"UnlockConditions", "@UnlockConditions"}},
	"SiafundInput":     {{"ParentID", "raw"}, {"UnlockConditions", "@UnlockConditions"}, {"ClaimAddress", "raw"}},
	"FileContract": {{"Filesize", "u64"}, {"FileMerkleRoot", "raw"}, {"WindowStart", "u64"}, {"WindowEnd", "u64"}, {"Payout", "curv1"},
		{"ValidProofOutputs", "[]@V1SiacoinOutput"}, {"MissedProofOutputs", "[]@V1SiacoinOutput"}, {"UnlockHash", "raw"}, {"RevisionNumber", "u64"}},
	"FileContractRevision": {{"ParentID", "raw"}, {"UnlockConditions", "@UnlockConditions"}, {"FileContract.RevisionNumber", "u64"},
		{"FileContract.Filesize", "u64"}, {"FileContract.FileMerkleRoot", "raw"}, {"FileContract.WindowStart", "u64"}, {"FileContract.WindowEnd", "u64"},
		{"FileContract.ValidProofOutputs", "[]@V1SiacoinOutput"}, {"FileContract.MissedProofOutputs", "[]@V1SiacoinOutput"}, {"FileContract.UnlockHash", "raw"}},
	"StorageProof":            {{"ParentID", "raw"}, {"Leaf", "raw"}, {"Proof", "[]raw"}},
	"FoundationAddressUpdate": {{"NewPrimary", "raw"}, {"NewFailsafe", "raw"}},
	"CoveredFields": {{"WholeTransaction", "bool"}, {"SiacoinInputs", "[]u64"}, {"SiacoinOutputs", "[]u64"}, {"FileContracts", "[]u64"},
		{"FileContractRevisions", "[]u64"}, {"StorageProofs", "[]u64"}, {"SiafundInputs", "[]u64"}, {"SiafundOutputs", "[]u64"},
		{"MinerFees", "[]u64"}, {"ArbitraryData", "[]u64"}, {"Signatures", "[]u64"}},
	"TransactionSignature": {{"ParentID", "raw"}, {"PublicKeyIndex", "u64"}, {"Timelock", "u64"}, {"CoveredFields", "@CoveredFields"}, {"Signature", "bytes"}},
	"TransactionNoSigs": {{"SiacoinInputs", "[]@SiacoinInput"}, {"SiacoinOutputs", "[]@V1SiacoinOutput"}, {"FileContracts", "[]@FileContract"},
		{"FileContractRevisions", "[]@FileContractRevision"}, {"StorageProofs", "[]@StorageProof"}, {"SiafundInputs", "[]@SiafundInput"},
		{"SiafundOutputs", "[]@V1SiafundOutput"}, {"MinerFees", "[]curv1"}, {"ArbitraryData", "[]bytes"}},
	"Transaction": {{".", "@TransactionNoSigs"}, {"Signatures", "[]@TransactionSignature"}},

	"SpendPolicy":           {{".", "!policy"}},
	"SatisfiedPolicy":       {{"Policy", "!policy"}, {"Signatures", "[]raw"}, {"Preimages", "[]raw"}},
	"StateElement":          {{"LeafIndex", "u64"}, {"MerkleProof", "[]raw"}},
	"ChainIndexElement":     {{"StateElement", "@StateElement"}, {"ID", "raw"}, {"ChainIndex", "@ChainIndex"}},
	"SiacoinElement":        {{"StateElement", "@StateElement"}, {"ID", "raw"}, {"SiacoinOutput", "@V2SiacoinOutput"}, {"MaturityHeight", "u64"}},
	"SiafundElement":        {{"StateElement", "@StateElement"}, {"ID", "raw"}, {"SiafundOutput", "@V2SiafundOutput"}, {"ClaimStart", "curv2"}},
	"FileContractElement":   {{"StateElement", "@StateElement"}, {"ID", "raw"}, {"FileContract", "@FileContract"}},
	"V2FileContractElement": {{"StateElement", "@StateElement"}, {"ID", "raw"}, {"V2FileContract", "@V2FileContract"}},
	"V2SiacoinInput":        {{"Parent", "@SiacoinElement"}, {"SatisfiedPolicy", "@SatisfiedPolicy"}},
	"V2SiafundInput":        {{"Parent", "@SiafundElement"}, {"ClaimAddress", "raw"}, {"SatisfiedPolicy", "@SatisfiedPolicy"}},
	"V2FileContract": {{"Capacity", "u64"}, {"Filesize", "u64"}, {"FileMerkleRoot", "raw"}, {"ProofHeight", "u64"}, {"ExpirationHeight", "u64"},
		{"RenterOutput", "@V2SiacoinOutput"}, {"HostOutput", "@V2SiacoinOutput"}, {"MissedHostValue", "curv2"}, {"TotalCollateral", "curv2"},
		{"RenterPublicKey", "raw"}, {"HostPublicKey", "raw"}, {"RevisionNumber", "u64"}, {"RenterSignature", "raw"}, {"HostSignature", "raw"}},
	"V2FileContractRevision": {{"Parent", "@V2FileContractElement"}, {"Revision", "@V2FileContract"}},
	"V2FileContractRenewal": {{"FinalRenterOutput", "@V2SiacoinOutput"}, {"FinalHostOutput", "@V2SiacoinOutput"}, {"RenterRollover", "curv2"},
		{"HostRollover", "curv2"}, {"NewContract", "@V2FileContract"}, {"RenterSignature", "raw"}, {"HostSignature", "raw"}},
	"V2StorageProof":           {{"ProofIndex", "@ChainIndexElement"}, {"Leaf", "raw"}, {"Proof", "[]raw"}},
	"V2FileContractExpiration": {},
	"V2FileContractResolution": {{"Parent", "@V2FileContractElement"}, {"Resolution", "!resolution"}},
	"Attestation":              {{"PublicKey", "raw"}, {"Key", "bytes"}, {"Value", "bytes"}, {"Signature", "raw"}},
	"V2Transaction":            {{".", "!v2txn"}},
	"V2TransactionsMultiproof": {{".", "!multiproof"}},
	"V2BlockData":              {{"Height", "u64"}, {"Commitment", "raw"}, {"Transactions", "!multiproof"}},
	"BlockHeader":              {{"ParentID", "raw"}, {"Nonce", "u64"}, {"Timestamp", "time"}, {"Commitment", "raw"}},
	"V1Block":                  {{"ParentID", "raw"}, {"Nonce", "u64"}, {"Timestamp", "time"}, {"MinerPayouts", "[]@V1SiacoinOutput"}, {"Transactions", "[]@Transaction"}},
	"V2Block":                  {{".", "@V1Block"}, {"V2", "?@V2BlockData"}},

	"Work":               {{".", "!work"}},
	"ElementAccumulator": {{".", "!accumulator"}},
	"State": {{"Index", "@ChainIndex"}, {".", "!prevtimestamps"}, {"Depth", "raw"}, {"ChildTarget", "raw"}, {"SiafundTaxRevenue", "curv2"},
		{"OakTime", "u64"}, {"OakTarget", "raw"}, {"FoundationSubsidyAddress", "raw"}, {"FoundationManagementAddress", "raw"},
		{"TotalWork", "!work"}, {"Difficulty", "!work"}, {"OakWork", "!work"}, {"Elements", "!accumulator"}, {"Attestations", "u64"}},
	"V1StorageProofSupplement": {{"FileContract", "@FileContractElement"}, {"WindowID", "raw"}},
	"V1TransactionSupplement": {{"SiacoinInputs", "[]@SiacoinElement"}, {"SiafundInputs", "[]@SiafundElement"},
		{"RevisedFileContracts", "[]@FileContractElement"}, {"StorageProofs", "[]@V1StorageProofSupplement"}},
	"V1BlockSupplement": {{"Transactions", "[]@V1TransactionSupplement"}, {"ExpiringFileContracts", "[]@FileContractElement"}},

	// semantic (ID / sighash) view of a v2 transaction: element parents reduced to their IDs, all signatures zeroed,
	// the storage proof's chain-index element without its Merkle proof
	"V2TransactionSemantics": {{"SiacoinInputs", "[]@ParentIDOnly"}, {"SiacoinOutputs", "[]@V2SiacoinOutput"}, {"SiafundInputs", "[]@ParentIDOnly"},
		{"SiafundOutputs", "[]@V2SiafundOutput"}, {"FileContracts", "[]@V2FileContractNoSigs"}, {"FileContractRevisions", "[]@RevisionSemantics"},
		{"FileContractResolutions", "[]@ResolutionSemantics"}, {"Attestations", "[]@Attestation"}, {"ArbitraryData", "bytes"},
		{"NewFoundationAddress", "?raw"}, {"MinerFee", "curv2"}},
	"ParentIDOnly": {{"Parent.ID", "raw"}},
	"V2FileContractNoSigs": {{"Capacity", "u64"}, {"Filesize", "u64"}, {"FileMerkleRoot", "raw"}, {"ProofHeight", "u64"}, {"ExpirationHeight", "u64"},
		{"RenterOutput", "@V2SiacoinOutput"}, {"HostOutput", "@V2SiacoinOutput"}, {"MissedHostValue", "curv2"}, {"TotalCollateral", "curv2"},
		{"RenterPublicKey", "raw"}, {"HostPublicKey", "raw"}, {"RevisionNumber", "u64"}, {"", "=" + strings.Repeat("00", 128)}},
	"RevisionSemantics":   {{"Parent.ID", "raw"}, {"Revision", "@V2FileContractNoSigs"}},
	"ResolutionSemantics": {{"Parent.ID", "raw"}, {"Resolution", "!resolutionsemantics"}},
	"V2FileContractRenewalNoSigs": {{"FinalRenterOutput", "@V2SiacoinOutput"}, {"FinalHostOutput", "@V2SiacoinOutput"}, {"RenterRollover", "curv2"},
		{"HostRollover", "curv2"}, {"NewContract", "@V2FileContractNoSigs"}, {"", "=" + strings.Repeat("00", 128)}},
	"V2StorageProofSemantics": {{"ProofIndex.StateElement.LeafIndex", "u64"}, {"", "=0000000000000000"}, {"ProofIndex.ID", "raw"},
		{"ProofIndex.ChainIndex", "@ChainIndex"}, {"Leaf", "raw"}, {"Proof", "[]raw"}},
	"AttestationNoSig": {{"PublicKey", "raw"}, {"Key", "bytes"}, {"Value", "bytes"}, {"", "=" + strings.Repeat("00", 64)}},
}

type lenc struct{ b []byte }

func (e *lenc) u64(x uint64) { e.b = binary.LittleEndian.AppendUint64(e.b, x) }
func (e *lenc) u8(x uint8)   { e.b = append(e.b, x) }
func (e *lenc) boolean(x bool) {
	if x {
		e.u8(1)
	} else {
		e.u8(0)
	}
}
func (e *lenc) raw(v reflect.Value) {
	for i := 0; i < v.Len(); i++ {
		e.b = append(e.b, byte(v.Index(i).Uint()))
	}
}
func (e *lenc) curv1(lo, hi uint64) {
	var be [16]byte
	binary.BigEndian.PutUint64(be[:8], hi)
	binary.BigEndian.PutUint64(be[8:], lo)
	n := (bits.Len64(hi) + 7) / 8
	if hi == 0 {
		n = (bits.Len64(lo) + 7) / 8
	} else {
		n += 8
	}
	e.u64(uint64(n))
	e.b = append(e.b, be[16-n:]...)
}

func field(v reflect.Value, name string) reflect.Value {
	if name == "." || name == "" {
		return v
	}
	for _, p := range strings.Split(name, ".") {
		for v.Kind() == reflect.Ptr || v.Kind() == reflect.Interface {
			v = v.Elem()
		}
		v = v.FieldByName(p)
		if !v.IsValid() {
			panic("layout: no field " + name)
		}
	}
	return v
}

// encode is the generic table-driven encoder.
func (e *lenc) encode(v reflect.Value, spec string) {
	switch {
	case spec == "u8":
		e.u8(uint8(v.Uint()))
	case spec == "u64":
		if v.Kind() == reflect.Int64 {
			e.u64(uint64(v.Int()))
		} else {
			e.u64(v.Uint())
		}
	case spec == "bool":
		e.boolean(v.Bool())
	case spec == "time":
		e.u64(uint64(v.Convert(reflect.TypeOf(time.Time{})).Interface().(time.Time).Unix()))
	case spec == "raw":
		e.raw(v)
	case spec == "bytes":
		if v.Kind() == reflect.String {
			e.u64(uint64(len(v.String())))
			e.b = append(e.b, v.String()...)
		} else {
			e.u64(uint64(v.Len()))
			e.b = append(e.b, v.Bytes()...)
		}
	case spec == "curv1":
		e.curv1(v.FieldByName("Lo").Uint(), v.FieldByName("Hi").Uint())
	case spec == "curv2":
		e.u64(v.FieldByName("Lo").Uint())
		e.u64(v.FieldByName("Hi").Uint())
	case spec == "sfv1":
		e.curv1(v.Uint(), 0)
	case spec[0] == '@':
		for v.Kind() == reflect.Ptr || v.Kind() == reflect.Interface {
			v = v.Elem()
		}
		rows, ok := layouts[spec[1:]]
		if !ok {
			panic("layout: unknown table " + spec)
		}
		for _, r := range rows {
			if r.Spec[0] == '=' {
				c, _ := hex.DecodeString(r.Spec[1:])
				e.b = append(e.b, c...)
				continue
			}
			e.encode(field(v, r.Field), r.Spec)
		}
	case strings.HasPrefix(spec, "[]"):
		e.u64(uint64(v.Len()))
		for i := 0; i < v.Len(); i++ {
			e.encode(v.Index(i), spec[2:])
		}
	case spec[0] == '?':
		e.boolean(!v.IsNil())
		if !v.IsNil() {
			e.encode(v.Elem(), spec[1:])
		}
	case spec[0] == '!':
		specials[spec[1:]](e, v)
	default:
		panic("layout: bad spec " + spec)
	}
}

var specials map[string]func(e *lenc, v reflect.Value)

func init() {
	specials = map[string]func(e *lenc, v reflect.Value){
		"work": func(e *lenc, v reflect.Value) {
			b := valgen.WorkBytes(v.Interface().(consensus.Work))
			e.b = append(e.b, b[:]...)
		},
		"accumulator": func(e *lenc, v reflect.Value) {
			n := v.FieldByName("NumLeaves").Uint()
			e.u64(n)
			trees := v.FieldByName("Trees")
			for i := 0; i < 64; i++ {
				if n>>uint(i)&1 == 1 {
					e.raw(trees.Index(i))
				}
			}
		},
		"prevtimestamps": func(e *lenc, v reflect.Value) {
			// the timestamps of the min(height+1, 11) most recent blocks, newest first; height+1 wraps to 0 for the pre-genesis state
			n := v.FieldByName("Index").FieldByName("Height").Uint() + 1
			if n > 11 {
				n = 11
			}
			ts := v.FieldByName("PrevTimestamps")
			for i := 0; i < int(n); i++ {
				e.encode(ts.Index(i), "time")
			}
		},
		"policy": func(e *lenc, v reflect.Value) {
			e.u8(1) // policy encoding version
			policyBody(e, v.Interface().(types.SpendPolicy))
		},
		"resolution": func(e *lenc, v reflect.Value) {
			switch r := v.Interface().(type) {
			case *types.V2FileContractRenewal:
				e.u8(0)
				e.encode(reflect.ValueOf(r), "@V2FileContractRenewal")
			case *types.V2StorageProof:
				e.u8(1)
				e.encode(reflect.ValueOf(r), "@V2StorageProof")
			case *types.V2FileContractExpiration:
				e.u8(2)
			default:
				panic("layout: unknown resolution")
			}
		},
		"resolutionsemantics": func(e *lenc, v reflect.Value) {
			// NB: no type tag in the semantic encoding
			switch r := v.Interface().(type) {
			case *types.V2FileContractRenewal:
				e.encode(reflect.ValueOf(r), "@V2FileContractRenewalNoSigs")
			case *types.V2StorageProof:
				e.encode(reflect.ValueOf(r), "@V2StorageProofSemantics")
			case *types.V2FileContractExpiration:
			default:
				panic("layout: unknown resolution")
			}
		},
		"v2txn": func(e *lenc, v reflect.Value) {
			e.u8(2) // transaction version
			// field bitmap: bit i set iff the i-th field (in this order) is non-empty / non-nil / non-zero
			fields := []row{{"SiacoinInputs", "[]@V2SiacoinInput"}, {"SiacoinOutputs", "[]@V2SiacoinOutput"}, {"SiafundInputs", "[]@V2SiafundInput"},
				{"SiafundOutputs", "[]@V2SiafundOutput"}, {"FileContracts", "[]@V2FileContract"}, {"FileContractRevisions", "[]@V2FileContractRevision"},
				{"FileContractResolutions", "[]@V2FileContractResolution"}, {"Attestations", "[]@Attestation"}, {"ArbitraryData", "bytes"},
				{"NewFoundationAddress", "raw"}, {"MinerFee", "curv2"}}
			var bitmap uint64
			present := make([]bool, len(fields))
			for i, f := range fields {
				fv := v.FieldByName(f.Field)
				switch fv.Kind() {
				case reflect.Slice:
					present[i] = fv.Len() > 0
				case reflect.Ptr:
					present[i] = !fv.IsNil()
				default: // currency
					present[i] = fv.FieldByName("Lo").Uint() != 0 || fv.FieldByName("Hi").Uint() != 0
				}
				if present[i] {
					bitmap |= 1 << uint(i)
				}
			}
			e.u64(bitmap)
			for i, f := range fields {
				if present[i] {
					fv := v.FieldByName(f.Field)
					if fv.Kind() == reflect.Ptr {
						fv = fv.Elem()
					}
					e.encode(fv, f.Spec)
				}
			}
		},
		"multiproof": func(e *lenc, v reflect.Value) { multiproofRef(e, v) },
	}
}

func policyBody(e *lenc, p types.SpendPolicy) {
	switch t := p.Type.(type) {
	case types.PolicyTypeAbove:
		e.u8(1)
		e.u64(uint64(t))
	case types.PolicyTypeAfter:
		e.u8(2)
		e.u64(uint64(time.Time(t).Unix()))
	case types.PolicyTypePublicKey:
		e.u8(3)
		e.b = append(e.b, t[:]...)
	case types.PolicyTypeHash:
		e.u8(4)
		e.b = append(e.b, t[:]...)
	case types.PolicyTypeThreshold:
		e.u8(5)
		e.u8(t.N)
		e.u8(uint8(len(t.Of)))
		for _, sub := range t.Of {
			policyBody(e, sub)
		}
	case types.PolicyTypeOpaque:
		e.u8(6)
		e.b = append(e.b, t[:]...)
	case types.PolicyTypeUnlockConditions:
		e.u8(7)
		e.encode(reflect.ValueOf(types.UnlockConditions(t)), "@UnlockConditions")
	default:
		panic(fmt.Sprintf("layout: unknown policy %T", t))
	}
}

// multiproofRef is the reference statement of the multiproof form of a v2
// transaction set: the transactions with the Merkle proof of every
// accumulator element (leaf index != unassigned) emptied; then a number whose
// binary form lets the reader recover every proof length h(i) as the position
// of the highest bit where leaf index i and the number differ (it is the
// bitwise OR, over the elements, of the accumulator's leaf count with the bits
// below the element's tree height cleared); then, for every tree height in
// ascending order, the roots of the maximal element-free sub-trees of that
// tree in left-to-right order.
func multiproofRef(e *lenc, v reflect.Value) {
	txns := v.Convert(reflect.TypeOf([]types.V2Transaction{})).Interface().([]types.V2Transaction)
	cp := valgen.DeepCopy(txns)
	type leaf struct {
		idx   uint64
		proof []types.Hash256
	}
	var leaves []leaf
	var numLeaves uint64
	for _, pe := range valgen.ProofElements(cp) {
		if pe.SE.LeafIndex == types.UnassignedLeafIndex {
			continue
		}
		leaves = append(leaves, leaf{pe.SE.LeafIndex, pe.SE.MerkleProof})
		h := uint(len(pe.SE.MerkleProof))
		numLeaves |= (pe.SE.LeafIndex>>h | 1) << h
		pe.SE.MerkleProof = nil
	}
	e.u64(uint64(len(cp)))
	for i := range cp {
		e.encode(reflect.ValueOf(cp[i]), "!v2txn")
	}
	e.u64(numLeaves)
	// group by tree height, ascending
	byHeight := map[int][]leaf{}
	for _, l := range leaves {
		byHeight[len(l.proof)] = append(byHeight[len(l.proof)], l)
	}
	var heights []int
	for h := range byHeight {
		heights = append(heights, h)
	}
	sort.Ints(heights)
	for _, h := range heights {
		ls := byHeight[h]
		// hashOf(level, index): root of the sub-tree `index` at `level`, taken from the proof of any element in its sibling
		var walk func(level int, index uint64)
		walk = func(level int, index uint64) {
			var inside []leaf
			for _, l := range ls {
				if l.idx>>uint(level) == index {
					inside = append(inside, l)
				}
			}
			if len(inside) == 0 {
				// element-free: its root is the level-th proof hash of the lowest element of the sibling sub-tree
				var best *leaf
				for i := range ls {
					if ls[i].idx>>uint(level) == index^1 && (best == nil || ls[i].idx < best.idx) {
						best = &ls[i]
					}
				}
				e.b = append(e.b, best.proof[level][:]...)
				return
			}
			if level == 0 {
				return
			}
			walk(level-1, 2*index)
			walk(level-1, 2*index+1)
		}
		if h > 0 {
			root := ls[0].idx >> uint(h)
			walk(h-1, 2*root)
			walk(h-1, 2*root+1)
		}
	}
}

// layoutEncode encodes v (pointer or value) with the table of the given name.
func layoutEncode(name string, v any) (b []byte, err error) {
	defer func() {
		if r := recover(); r != nil {
			err = fmt.Errorf("layout encoder: %v", r)
		}
	}()
	rv := reflect.ValueOf(v)
	for rv.Kind() == reflect.Ptr {
		rv = rv.Elem()
	}
	var e lenc
	e.encode(rv, "@"+name)
	return e.b, nil
}
