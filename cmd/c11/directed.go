package main

import (
	"bytes"
	"fmt"
	"math/rand/v2"
	"reflect"
	"time"

	"go.sia.tech/core/types"
	"verif/internal/elems"
	"verif/internal/harness"
	"verif/internal/refmodel"
)

func encT(v types.EncoderTo) []byte {
	var buf bytes.Buffer
	e := types.NewEncoder(&buf)
	v.EncodeTo(e)
	e.Flush()
	return buf.Bytes()
}

// checkDirected: shapes the random value generator does not reach by itself —
// wide-but-shallow policies with many threshold nodes, and multiproof sets in
// which one accumulator leaf is referenced by several elements (legal: two
// storage proofs sharing a proof-height chain index; two inputs naming the same parent).
func checkDirected(b *harness.B, rng *rand.Rand) {
	// ---- policies: many thresholds, little depth
	pk := func(i int) types.SpendPolicy {
		var k types.PublicKey
		k[0], k[1] = byte(i), byte(i>>8)
		return types.PolicyPublicKey(k)
	}
	for _, width := range []int{1, 31, 32, 33, 40, 100, 255} {
		var of []types.SpendPolicy
		for i := 0; i < width; i++ {
			of = append(of, types.PolicyThreshold(1, []types.SpendPolicy{pk(2 * i), pk(2*i + 1)}))
		}
		p := types.PolicyThreshold(2, of)
		b.Eval(1)
		b.Distinct("directed-policy", "wide", width)
		b.Count("directed_wide_policies", 1)
		raw := encT(p)
		var q types.SpendPolicy
		d := types.NewBufDecoder(raw)
		q.DecodeFrom(d)
		if d.Err() != nil {
			b.Violate("C11/roundtrip/SpendPolicy/wide-shallow-policy/decode-error", fmt.Sprintf("a depth-2 policy with %d threshold nodes does not decode from its own encoding: %v", width+1, d.Err()), map[string]any{"children": width})
			continue
		}
		if !bytes.Equal(encT(q), raw) || q.Address() != p.Address() {
			b.Violate("C11/roundtrip/SpendPolicy/wide-shallow-policy/value", "a wide policy changes in a round trip", map[string]any{"children": width})
		}
		// inside a transaction
		txn := types.V2Transaction{SiacoinInputs: []types.V2SiacoinInput{{Parent: types.SiacoinElement{StateElement: types.StateElement{LeafIndex: types.UnassignedLeafIndex}}, SatisfiedPolicy: types.SatisfiedPolicy{Policy: p}}}}
		var t2 types.V2Transaction
		d2 := types.NewBufDecoder(encT(txn))
		t2.DecodeFrom(d2)
		if d2.Err() != nil || !bytes.Equal(encT(t2), encT(txn)) {
			b.Violate("C11/roundtrip/V2Transaction/wide-shallow-policy", fmt.Sprintf("a transaction carrying a depth-2 policy with %d threshold nodes does not round-trip: %v", width+1, d2.Err()), map[string]any{"children": width})
		}
	}
	// a threshold with more children than its one-byte count can say (the value exists in memory and has an address)
	for _, kids := range []int{255, 256, 300} {
		of := make([]types.SpendPolicy, kids)
		for i := range of {
			of[i] = types.PolicyAbove(uint64(i))
		}
		p := types.PolicyThreshold(1, of)
		raw := encT(p)
		var q types.SpendPolicy
		d := types.NewBufDecoder(raw)
		q.DecodeFrom(d)
		b.Eval(1)
		b.Count("directed_cases", 1)
		same := d.Err() == nil && bytes.Equal(encT(q), raw) && q.Address() == p.Address()
		if t, ok := q.Type.(types.PolicyTypeThreshold); same && ok && len(t.Of) != kids {
			same = false
		}
		if !same {
			b.Violate("C11/roundtrip/SpendPolicy/threshold-with-more-than-255-children", fmt.Sprintf("a threshold policy with %d children encodes to %d bytes whose count byte is %d; decoding gives a different policy (%v)", kids, len(raw), uint8(kids), d.Err()), map[string]any{"children": kids})
		}
	}
	// nesting depth: the decoder's documented limit is recorded, not judged
	for _, depth := range []int{30, 31, 32, 33} {
		p := pk(1)
		for i := 0; i < depth; i++ {
			p = types.PolicyThreshold(1, []types.SpendPolicy{p})
		}
		var q types.SpendPolicy
		d := types.NewBufDecoder(encT(p))
		q.DecodeFrom(d)
		b.Count(fmt.Sprintf("observed:nested-depth-%d-decodes=%v", depth, d.Err() == nil), 1)
	}

	// ---- long byte strings (beyond any chunk a decoder may read them in, and not a multiple of it)
	for _, n := range []int{65535, 65536, 65537, 100000, 131072, 131073, 200001, 1 << 20, 1<<20 + 7} {
		data := make([]byte, n)
		for i := range data {
			data[i] = byte(i*7 + n)
		}
		type rt struct {
			name string
			enc  []byte
			dec  func(d *types.Decoder) []byte
		}
		key := types.PublicKey{9}
		cases := []rt{
			{"Transaction.ArbitraryData", encT(types.Transaction{ArbitraryData: [][]byte{data, {1, 2, 3}}, MinerFees: []types.Currency{types.NewCurrency64(5)}}), func(d *types.Decoder) []byte {
				var t types.Transaction
				t.DecodeFrom(d)
				return encT(t)
			}},
			{"V2Transaction.ArbitraryData", encT(types.V2Transaction{ArbitraryData: data, MinerFee: types.NewCurrency64(5)}), func(d *types.Decoder) []byte {
				var t types.V2Transaction
				t.DecodeFrom(d)
				return encT(t)
			}},
			{"Attestation.Value", encT(types.V2Transaction{Attestations: []types.Attestation{{PublicKey: key, Key: "k", Value: data}, {PublicKey: key, Key: "after", Value: []byte{4}}}}), func(d *types.Decoder) []byte {
				var t types.V2Transaction
				t.DecodeFrom(d)
				return encT(t)
			}},
		}
		for _, c := range cases {
			d := types.NewBufDecoder(c.enc)
			var re []byte
			p := safely(func() { re = c.dec(d) })
			b.Eval(1)
			b.Count("directed_long_byte_strings", 1)
			b.Distinct("directed-long-bytes", c.name, n)
			switch {
			case p != "":
				b.Violate("C11/panic/decode/long-byte-string/"+c.name, fmt.Sprintf("decoding a %d-byte string panicked: %s", n, p), map[string]any{"length": n})
			case d.Err() != nil:
				b.Violate("C11/roundtrip/long-byte-string/"+c.name+"/decode-error", fmt.Sprintf("a value with a %d-byte string does not decode from its own encoding: %v", n, d.Err()), map[string]any{"length": n})
			case !bytes.Equal(re, c.enc):
				b.Violate("C11/roundtrip/long-byte-string/"+c.name+"/reencode", fmt.Sprintf("a value with a %d-byte string re-encodes differently (at byte %d)", n, firstDiff(c.enc, re)), map[string]any{"length": n})
			}
		}
	}

	// ---- unlock keys labelled ed25519 whose key is not 32 bytes long (consensus tolerates them as listed, unused keys)
	for _, n := range []int{0, 1, 16, 31, 33, 40, 64} {
		kb := make([]byte, n)
		for i := range kb {
			kb[i] = byte(i + n)
		}
		uc := types.UnlockConditions{SignaturesRequired: 1, PublicKeys: []types.UnlockKey{{Algorithm: types.SpecifierEd25519, Key: kb}, types.PublicKey{7}.UnlockKey()}}
		cases := []struct {
			name string
			enc  []byte
			dec  func(d *types.Decoder) []byte
		}{
			{"UnlockKey", encT(uc.PublicKeys[0]), func(d *types.Decoder) []byte { var v types.UnlockKey; v.DecodeFrom(d); return encT(v) }},
			{"UnlockConditions", encT(uc), func(d *types.Decoder) []byte { var v types.UnlockConditions; v.DecodeFrom(d); return encT(v) }},
			{"Transaction.SiacoinInputs[].UnlockConditions", encT(types.Transaction{SiacoinInputs: []types.SiacoinInput{{ParentID: types.SiacoinOutputID{1}, UnlockConditions: uc}}}), func(d *types.Decoder) []byte {
				var v types.Transaction
				v.DecodeFrom(d)
				return encT(v)
			}},
			{"SpendPolicy(uc)", encT(types.SpendPolicy{Type: types.PolicyTypeUnlockConditions(uc)}), func(d *types.Decoder) []byte { var v types.SpendPolicy; v.DecodeFrom(d); return encT(v) }},
		}
		for _, c := range cases {
			d := types.NewBufDecoder(c.enc)
			var re []byte
			p := safely(func() { re = c.dec(d) })
			b.Eval(1)
			b.Count("directed_odd_length_ed25519_keys", 1)
			b.Distinct("directed-odd-key", c.name, n)
			switch {
			case p != "":
				b.Violate("C11/panic/decode/ed25519-unlock-key-of-odd-length/"+c.name, fmt.Sprintf("decoding a value listing a %d-byte ed25519 unlock key panicked: %s", n, p), map[string]any{"key_bytes": n})
			case d.Err() != nil:
				b.Violate("C11/roundtrip/ed25519-unlock-key-of-odd-length/"+c.name+"/decode-error", fmt.Sprintf("a value listing a %d-byte ed25519 unlock key does not decode from its own encoding: %v", n, d.Err()), map[string]any{"key_bytes": n})
			case !bytes.Equal(re, c.enc):
				b.Violate("C11/roundtrip/ed25519-unlock-key-of-odd-length/"+c.name+"/reencode", fmt.Sprintf("a value listing a %d-byte ed25519 unlock key re-encodes differently", n), map[string]any{"key_bytes": n})
			}
		}
	}

	// ---- multiproof sets with shared leaves
	for round := 0; round < 40; round++ {
		n := uint64(3 + rng.IntN(200))
		f := &refmodel.Forest{}
		for i := uint64(0); i < n; i++ {
			var h refmodel.Hash
			for k := range h {
				h[k] = byte(rng.IntN(256))
			}
			f.Append(h)
		}
		// a chain index element and a siacoin element placed at random leaves
		ciIdx, scIdx := rng.Uint64N(n), rng.Uint64N(n)
		for scIdx == ciIdx {
			scIdx = rng.Uint64N(n)
		}
		cie := types.ChainIndexElement{ID: types.BlockID{1, byte(round)}, ChainIndex: types.ChainIndex{Height: 7, ID: types.BlockID{1, byte(round)}}, StateElement: types.StateElement{LeafIndex: ciIdx}}
		sce := types.SiacoinElement{ID: types.SiacoinOutputID{2, byte(round)}, SiacoinOutput: types.SiacoinOutput{Value: types.Siacoins(3)}, StateElement: types.StateElement{LeafIndex: scIdx}}
		f.Set(ciIdx, refmodel.ElementLeafHash(elems.ChainIndex(cie.ID, cie.ChainIndex), ciIdx, false))
		f.Set(scIdx, refmodel.ElementLeafHash(elems.Siacoin(sce), scIdx, false))
		proof := func(i uint64) []types.Hash256 {
			var out []types.Hash256
			for _, h := range f.Proof(i) {
				out = append(out, types.Hash256(h))
			}
			return out
		}
		cie.StateElement.MerkleProof = proof(ciIdx)
		sce.StateElement.MerkleProof = proof(scIdx)
		fce := func(k byte) types.V2FileContractElement {
			return types.V2FileContractElement{ID: types.FileContractID{3, k, byte(round)}, StateElement: types.StateElement{LeafIndex: types.UnassignedLeafIndex}}
		}
		refs := 2 + rng.IntN(3)
		var txns []types.V2Transaction
		for k := 0; k < refs; k++ {
			t := types.V2Transaction{FileContractResolutions: []types.V2FileContractResolution{{Parent: fce(byte(k)), Resolution: &types.V2StorageProof{ProofIndex: cie.Copy()}}}}
			if k%2 == 1 {
				t.SiacoinInputs = []types.V2SiacoinInput{{Parent: sce.Copy(), SatisfiedPolicy: types.SatisfiedPolicy{Policy: types.AnyoneCanSpend()}}}
			}
			txns = append(txns, t)
		}
		want := make([][]types.Hash256, 0)
		for _, t := range txns {
			for _, r := range t.FileContractResolutions {
				want = append(want, r.Resolution.(*types.V2StorageProof).ProofIndex.StateElement.MerkleProof)
			}
			for _, in := range t.SiacoinInputs {
				want = append(want, in.Parent.StateElement.MerkleProof)
			}
		}
		raw := encT(types.V2TransactionsMultiproof(txns))
		var dec types.V2TransactionsMultiproof
		d := types.NewBufDecoder(raw)
		dec.DecodeFrom(d)
		b.Eval(1)
		b.Distinct("directed-multiproof-shared-leaf", refs, len(cie.StateElement.MerkleProof), len(sce.StateElement.MerkleProof))
		b.Count("directed_shared_leaf_multiproofs", 1)
		if d.Err() != nil {
			b.Violate("C11/roundtrip/multiproof/shared-leaf/decode-error", "a transaction set in which one leaf is referenced by several elements does not decode: "+d.Err().Error(), map[string]any{"references": refs})
			continue
		}
		var got [][]types.Hash256
		for _, t := range dec {
			for _, r := range t.FileContractResolutions {
				got = append(got, r.Resolution.(*types.V2StorageProof).ProofIndex.StateElement.MerkleProof)
			}
			for _, in := range t.SiacoinInputs {
				got = append(got, in.Parent.StateElement.MerkleProof)
			}
		}
		same := len(got) == len(want)
		for i := 0; same && i < len(got); i++ {
			// a leaf that is a tree of its own has no proof hashes: nil and empty are the same proof
			same = len(got[i]) == len(want[i]) && (len(got[i]) == 0 || reflect.DeepEqual(got[i], want[i]))
		}
		if !same {
			b.Violate("C11/roundtrip/multiproof/shared-leaf/proof-not-restored", fmt.Sprintf("with one chain-index leaf referenced by %d storage proofs (and a parent referenced twice) the multiproof round trip does not restore every proof", refs), map[string]any{"references": refs, "leaves": n})
		}
	}
}

// checkReusedBlock: a Block variable that held a v2 block and then receives a v1 block through the V1Block codec (a
// store or a sync loop decoding successive blocks into one variable). The v1 encoding carries no v2 part, so the
// decoded block has none - whatever the variable held before - and its ID is the ID of the block that was encoded.
func checkReusedBlock(b *harness.B, rng *rand.Rand) {
	for it := 0; it < 20; it++ {
		v1 := types.Block{ParentID: types.BlockID{byte(it + 1)}, Nonce: rng.Uint64(), Timestamp: time.Unix(1600000000+int64(it), 0),
			MinerPayouts: []types.SiacoinOutput{{Value: types.Siacoins(uint32(1 + it)), Address: types.Address{byte(it)}}}}
		if it%2 == 0 {
			v1.Transactions = []types.Transaction{{ArbitraryData: [][]byte{{byte(it), 2, 3}}}}
		}
		enc := encT(types.V1Block(v1))
		used := types.Block{ParentID: types.BlockID{0xEE}, Nonce: 7, Timestamp: time.Unix(1700000000, 0),
			V2: &types.V2BlockData{Height: 555555 + uint64(it), Commitment: types.Hash256{0xAA}}}
		if it%3 != 0 {
			used.V2.Transactions = []types.V2Transaction{{ArbitraryData: []byte{1, byte(it)}}}
		}
		// the variable really held that block: it was decoded into it
		(*types.V2Block)(&used).DecodeFrom(types.NewBufDecoder(encT(types.V2Block(used))))
		b.Eval(1)
		b.Count("v1_blocks_decoded_into_a_variable_that_held_a_v2_block", 1)
		b.Distinct("directed-reused-block", it%2, it%3 != 0)
		d := types.NewBufDecoder(enc)
		(*types.V1Block)(&used).DecodeFrom(d)
		if d.Err() != nil {
			b.Violate("C11/roundtrip/V1Block/decode-error", d.Err().Error(), nil)
			continue
		}
		if used.V2 != nil || used.ID() != v1.ID() || !bytes.Equal(encT(types.V2Block(used)), encT(types.V2Block(v1))) {
			b.Violate("C11/reused-receiver/types.V1Block/v2-part-of-the-previous-block-survives", fmt.Sprintf("a v1 block decoded into a Block that held a v2 block keeps that block's v2 data (height %d, %d v2 transactions): its ID is %v, the encoded block's ID is %v", used.V2.Height, len(used.V2.Transactions), used.ID(), v1.ID()), map[string]any{"encoded": fmt.Sprintf("%x", enc)})
		}
	}
}
