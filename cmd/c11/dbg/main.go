package main

import (
	"bytes"
	"fmt"
	"math/rand/v2"

	"go.sia.tech/core/types"
	"verif/internal/valgen"
	"verif/internal/wirereg"
)

func main() {
	e, _ := wirereg.ByName("types.V2TransactionsMultiproof")
	for seed := uint64(0); seed < 200000; seed++ {
		rng := rand.New(rand.NewPCG(seed, 1))
		v := e.Gen(rng, &valgen.Opts{Budget: 30})
		enc := e.Encode(v)
		dec, err := e.Decode(enc)
		if err != nil {
			fmt.Println("err", err)
			continue
		}
		w := valgen.CopyAny(v)
		e.Normalise(w)
		valgen.Canon(w)
		valgen.Canon(dec)
		if d := valgen.Diff(w, dec); d != "" {
			txns := *v.(*types.V2TransactionsMultiproof)
			els := valgen.ProofElements(txns)
			if len(els) > 4 {
				continue
			}
			fmt.Println("seed", seed, d)
			for _, el := range els {
				fmt.Printf("  %s idx=%d (%b) h=%d\n", el.Path, el.SE.LeafIndex, el.SE.LeafIndex, len(el.SE.MerkleProof))
			}
			_ = bytes.Equal
			return
		}
	}
}
