// C11 — Binary encoding round-trips, is canonical, field-complete, wire-format exact.
//
// For every registered wire type (internal/wirereg; completeness of the
// registry is itself checked against the repository source at run time) and
// generated values of every shape (internal/valgen):
//
//  1. decode(encode(v)) == Normalise(v) (explicit normaliser = the documented
//     normalisations), the decoder consumes exactly the encoding, and
//     encode(decode(encode(v))) == encode(v) byte for byte;
//  2. encoding twice and from several goroutines gives identical bytes;
//  3. every leaf field path changed => bytes change, unless the normaliser
//     erases the change (documented as not transmitted) or — multiproof form —
//     the reference model says that proof hash is recomputable;
//  4. bytes == independent layout-table encoder (layout.go) for all
//     consensus-critical objects; exported IDs / sighashes == hash of the
//     table-built preimage; golden addresses of the repo's tests;
//  5. every proper prefix of an encoding fails to decode;
//  6. one batch runs from the -race (checkptr) build so the unsafe cast
//     helpers are exercised under instrumentation.
package main

import (
	"bytes"
	"encoding/hex"
	"fmt"
	"math/rand/v2"
	"os"
	"reflect"
	"sort"
	"strings"
	"sync"

	"go.sia.tech/core/types"
	"verif/internal/harness"
	"verif/internal/valgen"
	"verif/internal/wirereg"
)

func repoDir() string {
	if r := os.Getenv("VERIF_REPO"); r != "" {
		return r
	}
	// resolve the directory the build actually used: the replace directive of the mod file
	mod := os.Getenv("VERIF_MODFILE")
	if mod == "" {
		mod = "/verif/go.mod"
	}
	raw, err := os.ReadFile(mod)
	if err == nil {
		for _, ln := range strings.Split(string(raw), "\n") {
			if i := strings.Index(ln, "go.sia.tech/core =>"); i >= 0 {
				return strings.TrimSpace(ln[i+len("go.sia.tech/core =>"):])
			}
		}
	}
	return "/repo"
}

func hexCap(b []byte, n int) string {
	if len(b) > n {
		return hex.EncodeToString(b[:n]) + fmt.Sprintf("…(+%d bytes)", len(b)-n)
	}
	return hex.EncodeToString(b)
}

func dump(v any) string {
	s := fmt.Sprintf("%+v", v)
	if len(s) > 3000 {
		s = s[:3000] + "…"
	}
	return s
}

type witness struct {
	Entry    string `json:"entry"`
	Path     string `json:"path,omitempty"`
	Encoding string `json:"encoding_hex"`
	Other    string `json:"other_hex,omitempty"`
	Value    string `json:"value"`
}

// safely runs f and reports a panic as a string.
func safely(f func()) (panicMsg string) {
	defer func() {
		if r := recover(); r != nil {
			panicMsg = fmt.Sprint(r)
			if panicMsg == "" {
				panicMsg = "panic"
			}
		}
	}()
	f()
	return ""
}

func firstDiff(a, b []byte) int {
	n := min(len(a), len(b))
	for i := 0; i < n; i++ {
		if a[i] != b[i] {
			return i
		}
	}
	return n
}

type checker struct {
	b       *harness.B
	rng     *rand.Rand
	race    bool
	covered map[string]bool
}

// roundtrip runs monitors 1, 2 and 4 on one value and returns its encoding.
func (c *checker) roundtrip(e *wirereg.Entry, v any, concurrent bool) (enc []byte, ok bool) {
	b := c.b
	wit := func(other []byte) witness {
		return witness{Entry: e.Name, Encoding: hexCap(enc, 4096), Other: hexCap(other, 4096), Value: dump(v)}
	}
	b.Eval(1)
	if p := safely(func() { enc = e.Encode(v) }); p != "" {
		b.Violate("C11/panic/encode/"+e.Name, "Encode panicked on a generated in-domain value: "+p, wit(nil))
		return nil, false
	}
	// 2. determinism
	var enc2 []byte
	if p := safely(func() { enc2 = e.Encode(v) }); p != "" || !bytes.Equal(enc, enc2) {
		b.Violate("C11/determinism/sequential/"+e.Name, fmt.Sprintf("encoding the same value twice differs at byte %d (panic=%q)", firstDiff(enc, enc2), p), wit(enc2))
		return enc, false
	}
	if concurrent {
		const g = 4
		outs := make([][]byte, g)
		var wg sync.WaitGroup
		for i := 0; i < g; i++ {
			wg.Add(1)
			go func(i int) {
				defer wg.Done()
				safely(func() { outs[i] = e.Encode(v) })
			}(i)
		}
		wg.Wait()
		for i := range outs {
			if !bytes.Equal(outs[i], enc) {
				b.Violate("C11/determinism/concurrent/"+e.Name, fmt.Sprintf("concurrent encoding of the same value differs at byte %d", firstDiff(enc, outs[i])), wit(outs[i]))
				return enc, false
			}
		}
		b.Count("concurrent_encodings", g)
	}
	// 4. layout
	if e.Critical {
		name := e.Name[strings.IndexByte(e.Name, '.')+1:]
		ref, err := layoutEncode(name, v)
		b.Count("layout_cases", 1)
		b.Eval(1)
		if err != nil {
			b.Inconclusive("layout table encoder failed for " + e.Name + ": " + err.Error())
		} else if !bytes.Equal(ref, enc) {
			b.Violate("C11/layout/"+e.Name, fmt.Sprintf("library bytes differ from the layout-table encoding at offset %d (lib %d bytes, table %d bytes)", firstDiff(ref, enc), len(enc), len(ref)), wit(ref))
		}
	}
	if e.EncodeOnly {
		b.Count("roundtrips", 1)
		return enc, true
	}
	// 1. round trip
	var dec any
	var n int
	var err error
	if p := safely(func() { dec, n, err = e.DecodeN(enc) }); p != "" {
		b.Violate("C11/panic/decode/"+e.Name, "decoder panicked on the library's own encoding: "+p, wit(nil))
		return enc, false
	}
	b.Count("roundtrips", 1)
	if err != nil {
		b.Violate("C11/roundtrip/decode-error/"+e.Name, "decoding the library's own encoding failed: "+err.Error(), wit(nil))
		return enc, false
	}
	if n != len(enc) {
		b.Violate("C11/roundtrip/consumed/"+e.Name, fmt.Sprintf("decoder consumed %d of %d encoded bytes", n, len(enc)), wit(nil))
	}
	want := valgen.CopyAny(v)
	e.Normalise(want)
	valgen.Canon(want)
	var enc3 []byte
	if p := safely(func() { enc3 = e.Encode(dec) }); p != "" {
		b.Violate("C11/panic/reencode/"+e.Name, "re-encoding the decoded value panicked: "+p, wit(nil))
		return enc, false
	}
	if !bytes.Equal(enc3, enc) {
		b.Violate("C11/roundtrip/reencode/"+e.Name, fmt.Sprintf("encode(decode(encode(v))) differs from encode(v) at byte %d", firstDiff(enc, enc3)), wit(enc3))
	}
	valgen.Canon(dec)
	if d := valgen.Diff(want, dec); d != "" {
		path := d
		if i := strings.Index(d, ": "); i >= 0 {
			path = d[:i]
		}
		b.Violate("C11/roundtrip/value/"+e.Name+"/"+valgen.StripIndices(path), "decode(encode(v)) != normalise(v): "+d, wit(nil))
		return enc, false
	}
	return enc, true
}

// multiproofVerdict says, for a path inside a multiproof-encoded transaction
// set, whether the reference model expects the leaf to be transmitted.
// known=false: the path is not a Merkle proof position of a multiproof element.
func multiproofVerdict(e *wirereg.Entry, v any, path string) (known, transmitted bool, why string) {
	if e.MultiproofTxns == nil {
		return false, false, ""
	}
	for _, set := range e.MultiproofTxns(v) {
		els := valgen.ProofElements(set.Txns)
		for _, el := range els {
			full := set.Prefix + el.Path
			if set.PathOf != nil {
				full = set.PathOf(el.Path)
			}
			if !strings.HasPrefix(path, full+".MerkleProof") {
				continue
			}
			if el.SE.LeafIndex == types.UnassignedLeafIndex {
				return false, false, "" // ephemeral: proof travels in full
			}
			rest := path[len(full+".MerkleProof"):]
			if rest == "#len" {
				return true, false, "proof length is recovered from the leaf count"
			}
			var level int
			fmt.Sscanf(rest, "[%d]", &level)
			h := len(el.SE.MerkleProof)
			idx := el.SE.LeafIndex
			sibEmpty, lowest := true, true
			for _, o := range els {
				if o.SE == el.SE || o.SE.LeafIndex == types.UnassignedLeafIndex || len(o.SE.MerkleProof) != h {
					continue
				}
				if o.SE.LeafIndex>>uint(level) == (idx>>uint(level))^1 {
					sibEmpty = false
				}
				if o.SE.LeafIndex>>uint(level) == idx>>uint(level) && o.SE.LeafIndex < idx {
					lowest = false
				}
			}
			if sibEmpty && lowest {
				return true, true, ""
			}
			if !sibEmpty {
				return true, false, "sibling sub-tree contains another element: hash recomputed by the receiver"
			}
			return true, false, "same hash is carried by a lower-indexed element of the sub-tree"
		}
	}
	return false, false, ""
}

// influence runs monitor 3 on one value.
func (c *checker) influence(e *wirereg.Entry, v any, enc []byte, maxPaths int) {
	b := c.b
	if e.EncodeOnly {
		return // a semantic (hash preimage) view, not a codec pair: what it binds is C12's subject
	}
	paths := valgen.Paths(v)
	if len(paths) > maxPaths {
		// keep at least one representative of every structural position, then fill up randomly
		byKey := map[string][]string{}
		var keys []string
		for _, p := range paths {
			k := valgen.StripIndices(p)
			if _, ok := byKey[k]; !ok {
				keys = append(keys, k)
			}
			byKey[k] = append(byKey[k], p)
		}
		sort.Strings(keys)
		var sel []string
		for _, k := range keys {
			ps := byKey[k]
			sel = append(sel, ps[c.rng.IntN(len(ps))])
		}
		for len(sel) < maxPaths {
			sel = append(sel, paths[c.rng.IntN(len(paths))])
		}
		b.Count("influence_paths_sampled_out", len(paths)-len(sel))
		paths = sel
	}
	var base any // normalised original, built lazily
	for _, p := range paths {
		m, ok := valgen.Mutated(c.rng, v, p)
		if !ok {
			b.Count("influence_path_not_applicable", 1)
			b.SetAdd("paths_not_applicable", e.Name+"."+valgen.StripIndices(p))
			continue
		}
		var menc []byte
		if pm := safely(func() { menc = e.Encode(m) }); pm != "" {
			// a single-leaf change can leave the codec's documented domain (multiproof proofs no longer
			// valid for one state; OutputLength != len(Output)…): not judged here (C10 judges panics)
			b.Count("influence_mutant_outside_domain(encode panicked)", 1)
			continue
		}
		b.Eval(1)
		b.Count("field_influence_cases", 1)
		key := valgen.StripIndices(p)
		if !bytes.Equal(menc, enc) {
			b.Count("influence_changed_bytes", 1)
			continue
		}
		// bytes unchanged: documented?
		if known, transmitted, why := multiproofVerdict(e, v, p); known {
			if !transmitted {
				b.Count("influence_exempt/multiproof: "+why, 1)
				continue
			}
			b.Violate("C11/field-not-encoded/"+e.Name+"."+key+"(multiproof)", "the reference multiproof model says this proof hash is transmitted, but changing it does not change the bytes", witness{Entry: e.Name, Path: p, Encoding: hexCap(enc, 4096), Value: dump(v)})
			continue
		}
		if base == nil {
			base = valgen.CopyAny(v)
			e.Normalise(base)
			valgen.Canon(base)
		}
		e.Normalise(m)
		valgen.Canon(m)
		if valgen.Diff(base, m) == "" {
			b.Count("influence_exempt/documented-not-transmitted", 1)
			b.SetAdd("exempt_paths", e.Name+"."+key)
			continue
		}
		b.Violate("C11/field-not-encoded/"+e.Name+"."+key, "changing this field does not change the encoding and no documented normalisation covers it", witness{Entry: e.Name, Path: p, Encoding: hexCap(enc, 4096), Value: dump(v)})
	}
}

// truncation runs monitor 5 on one encoding.
func (c *checker) truncation(e *wirereg.Entry, v any, enc []byte) {
	b := c.b
	if e.EncodeOnly {
		return
	}
	b.Eval(1)
	b.Count("truncation_cases", 1)
	try := func(n int) {
		var err error
		var dec any
		if p := safely(func() { dec, _, err = e.DecodeN(enc[:n:n]) }); p != "" {
			b.Violate("C11/truncation/panic/"+e.Name, fmt.Sprintf("decoder panicked on a %d-byte prefix of a %d-byte encoding: %s", n, len(enc), p), witness{Entry: e.Name, Encoding: hexCap(enc[:n], 8192), Value: dump(v)})
			return
		}
		b.Count("truncation_prefixes", 1)
		if err == nil {
			b.Violate("C11/truncation/accepted/"+e.Name, fmt.Sprintf("a %d-byte proper prefix of a %d-byte encoding decoded without error (partial value returned)", n, len(enc)), witness{Entry: e.Name, Encoding: hexCap(enc, 8192), Other: hexCap(enc[:n], 8192), Value: dump(dec)})
		}
	}
	if len(enc) == 0 {
		b.Count("truncation_empty_encodings(no proper prefix)", 1)
		return
	}
	if len(enc) <= 2500 {
		for n := 0; n < len(enc); n++ {
			try(n)
		}
		return
	}
	for n := 0; n < 1000; n++ {
		try(n)
	}
	for n := len(enc) - 1000; n < len(enc); n++ {
		try(n)
	}
	for i := 0; i < 500; i++ {
		try(1000 + c.rng.IntN(len(enc)-2000))
	}
	b.Count("truncation_large_encodings_sampled", 1)
}

func run(b *harness.B) {
	reg := wirereg.Registry()
	race := b.Batch == b.NB-1
	c := &checker{b: b, rng: b.Rng, race: race, covered: map[string]bool{}}

	if b.Batch == 0 {
		// completeness self-check (fail closed)
		missing, stale, err := wirereg.MissingFromRegistry(repoDir())
		switch {
		case err != nil:
			b.Inconclusive("registry completeness check could not parse " + repoDir() + ": " + err.Error())
		case len(missing) > 0:
			b.Inconclusive("wire types declared in the source but missing from the registry: " + strings.Join(missing, ", "))
		case len(stale) > 0:
			b.Inconclusive("registry names types that no longer declare a codec: " + strings.Join(stale, ", "))
		default:
			b.Count("registry_complete", 1)
		}
		decl, _ := wirereg.DeclaredWireTypes(repoDir())
		b.MaxOf("declared_wire_types_in_source", int64(len(decl)))
		b.MaxOf("excluded_types", int64(len(wirereg.Excluded)))
		checkGolden(b)
		checkHighLeafIndex(b, b.SubRng("highleaf"))
		checkDirected(b, b.SubRng("directed"))
		checkReusedBlock(b, b.SubRng("reused-block"))
	}
	// reference hashes (all batches, cheap)
	if p := safely(func() { checkHashes(b, b.SubRng("hashes"), b.Pick(30, 2000)) }); p != "" {
		b.Violate("C11/panic/hash-preimage", "panic while comparing hashes: "+p, nil)
	}

	// per-type budgets (case counts, never wall clock)
	nRound := b.Pick(24, 1600) // values per type per batch
	nInfl := b.Pick(3, 32)     // of which get the field-influence sweep
	nTrunc := b.Pick(3, 32)    // of which get the truncation sweep
	maxPaths := b.Pick(400, 1500)
	if race {
		nRound, nInfl, nTrunc, maxPaths = b.Pick(6, 100), b.Pick(1, 4), b.Pick(1, 4), 150
	}
	sampled := 0
	for ei := range reg {
		e := &reg[ei]
		okAll := true
		var prevEnc []byte
		for i := 0; i < nRound; i++ {
			opts := &valgen.Opts{SubSecond: true, Budget: []int{12, 40, 120, 300}[c.rng.IntN(4)]}
			if i == 0 {
				opts.Budget = 1 // near-empty value of every type
			}
			var v any
			if p := safely(func() { v = e.Gen(c.rng, opts) }); p != "" {
				b.Inconclusive("generator panicked for " + e.Name + ": " + p)
				okAll = false
				break
			}
			b.Journal(e.Name)
			enc, ok := c.roundtrip(e, v, race || i%4 == 0)
			b.Distinct(e.Name, valgen.Shape(v))
			if !ok {
				continue
			}
			// 1b. a caller that reuses one variable for successive messages: decoding an encoding into a value
			// that already holds another one yields the encoded value, not a mixture
			if e.DecodeInto != nil && prevEnc != nil {
				dst := e.New()
				var e1, e2 error
				var re []byte
				var moved string
				if p := safely(func() {
					e1 = e.DecodeInto(dst, prevEnc)
					// every other time the earlier value's elements are views of memory owned elsewhere (Share()):
					// what the decoder puts in their place is the decoder's own memory again
					if i%2 == 1 {
						markShared(reflect.ValueOf(dst))
					}
					e2 = e.DecodeInto(dst, enc)
					re = e.Encode(dst)
					if e1 == nil && e2 == nil {
						moved = moveAll(reflect.ValueOf(dst))
					}
				}); p != "" {
					b.Violate("C11/panic/decode-into-used-value/"+e.Name, "decoding into a value that holds an earlier message panicked: "+p, witness{Entry: e.Name, Encoding: hexCap(enc, 4096), Other: hexCap(prevEnc, 4096)})
				} else if e1 == nil && e2 == nil {
					b.Eval(1)
					b.Count("decodes_into_a_used_value", 1)
					if moved != "" {
						b.Violate("C11/roundtrip/decode-into-used-value/element-still-marked-shared/"+e.Name, "after decoding into a variable whose elements were shared views, a decoded element still refuses Move() (\""+moved+"\"): the decoder's own memory is treated as someone else's", witness{Entry: e.Name, Encoding: hexCap(enc, 4096), Other: hexCap(prevEnc, 4096)})
					}
					if !bytes.Equal(re, enc) {
						b.Violate("C11/roundtrip/decode-into-used-value/"+e.Name, fmt.Sprintf("decoding encode(B) into a variable that held A gives a value that re-encodes differently from B (at byte %d; %d vs %d bytes): fields of A survive", firstDiff(enc, re), len(re), len(enc)), witness{Entry: e.Name, Encoding: hexCap(enc, 4096), Other: hexCap(prevEnc, 4096)})
					}
				}
			}
			prevEnc = enc
			if i < nInfl || (i < 2*nInfl && len(enc) < 400) {
				c.influence(e, v, enc, maxPaths)
			}
			if i < nTrunc || (i < 2*nTrunc && len(enc) < 400) {
				c.truncation(e, v, enc)
			}
			b.MaxOf("max_encoding_bytes", int64(len(enc)))
			if sampled < 3 && ei%40 == b.Batch%40 && len(enc) > 0 && len(enc) < 300 {
				sampled++
				b.Sample(map[string]any{"entry": e.Name, "encoding_hex": hex.EncodeToString(enc), "shape": valgen.Shape(v)})
			}
		}
		if okAll {
			c.covered[e.Name] = true
			b.SetAdd("types", e.Name)
		}
		b.JournalReset()
	}
	b.MaxOf("registry_size", int64(len(reg)))
	if len(c.covered) == len(reg) {
		b.MaxOf("types_covered", int64(len(c.covered)))
	} else {
		b.Inconclusive(fmt.Sprintf("only %d of %d registered types could be exercised", len(c.covered), len(reg)))
	}
	if race {
		b.Count("race_build_batches", 1)
	}
}

func main() {
	harness.Main(harness.Spec{
		ID:   "C11",
		Rule: "every registered wire type (registry checked for completeness against the repository source with go/parser) x generated values of every shape: nil/empty/populated lists, extreme integers, currencies of every byte length, zero/extreme/sub-second/non-UTC times, every policy kind nested to depth 3, every resolution kind, v1/v2/multiproof block forms with Merkle proofs valid for one pseudo-random forest. Per value: round trip vs explicit normaliser, consumed length, re-encode, sequential+concurrent determinism, layout-table bytes (consensus-critical types), hash preimages; per selected value: every leaf field path mutated (field influence) and every proper prefix decoded (truncation). A case is distinct by (type, structural shape: per list position nil/empty/one/many, pointer nil/set, dynamic kinds, currency/time classes).",
		Assume: []string{
			"the layout tables (cmd/c11/layout.go) are the statement of the protocol layout: authored from the implementation at the pinned commit and cross-checked with the golden addresses in types/policy_test.go",
			"blake2b itself is trusted here (C16); only preimage layouts are judged",
			"documented normalisations = wirereg.Normalise (+ per-entry rules); a field all of whose changes are erased by it counts as documented-not-transmitted",
			"values whose single-field mutation makes the encoder panic (multiproof proofs no longer valid for one state) are outside the codec's documented domain and not judged",
			"unexported framing types rhp/v2.rpcResponse, rhp/v3.rpcResponse, rhp/v2.loopKeyExchange* are exercised through their transports in C19, not here",
		},
		Batches: func(t string) int {
			if t == "quick" {
				return 16
			}
			return 64
		},
		RaceBatches: func(t string) []int {
			if t == "quick" {
				return []int{15}
			}
			return []int{63}
		},
		Run:         run,
		MinEvals:    50000,
		MinDistinct: 2000,
		Require:     []string{"types_covered", "roundtrips", "field_influence_cases", "layout_cases", "truncation_cases", "registry_complete", "golden_ids_matched", "influence_exempt/documented-not-transmitted", "race_build_batches"},
		Extra: func(m *harness.Result, cov map[string]any) {
			cov["registry_size"] = m.Max["registry_size"]
			cov["types_covered"] = m.Max["types_covered"]
			cov["excluded_types"] = wirereg.Excluded
			cov["trust_base"] = "layout tables in cmd/c11/layout.go + golden addresses of types/policy_test.go"
		},
	})
}

var stateElementType = reflect.TypeOf(types.StateElement{})

// markShared replaces every addressable types.StateElement reachable from v by its Share()d view.
func markShared(v reflect.Value) {
	walkStateElements(v, func(se *types.StateElement) { *se = se.Share() })
}

// moveAll calls Move() on every StateElement reachable from v and returns the first panic message ("" if none).
func moveAll(v reflect.Value) (msg string) {
	walkStateElements(v, func(se *types.StateElement) {
		if msg != "" {
			return
		}
		func() {
			defer func() {
				if r := recover(); r != nil {
					msg = fmt.Sprint(r)
				}
			}()
			cp := *se
			_ = cp.Move()
		}()
	})
	return
}

func walkStateElements(v reflect.Value, f func(*types.StateElement)) {
	switch v.Kind() {
	case reflect.Ptr, reflect.Interface:
		if !v.IsNil() {
			walkStateElements(v.Elem(), f)
		}
	case reflect.Struct:
		if v.Type() == stateElementType {
			if v.CanAddr() && v.Addr().CanInterface() {
				f(v.Addr().Interface().(*types.StateElement))
			}
			return
		}
		for i := 0; i < v.NumField(); i++ {
			if v.Type().Field(i).PkgPath == "" {
				walkStateElements(v.Field(i), f)
			}
		}
	case reflect.Slice, reflect.Array:
		if v.Type().Elem().Kind() == reflect.Uint8 {
			return
		}
		for i := 0; i < v.Len(); i++ {
			walkStateElements(v.Index(i), f)
		}
	}
}
