package main

// Cross-checks of the layout tables against (a) the golden addresses in the
// repo's own tests (types/policy_test.go TestPolicyGolden) and (b) every
// exported hash whose preimage is an encoding: transaction IDs, output IDs,
// full hashes, block header ID, v1 whole/partial sighashes with replay
// prefixes, v2 input/contract/renewal/attestation sighashes, the state's
// commitment leaf. The hash function itself (blake2b) is taken from the
// library (it is C16's subject); only the preimage layout is judged here.

import (
	"bytes"
	"encoding/hex"
	"fmt"
	"math/rand/v2"
	"reflect"

	"go.sia.tech/core/blake2b"
	"go.sia.tech/core/consensus"
	"go.sia.tech/core/types"
	"verif/internal/harness"
	"verif/internal/valgen"
	"verif/internal/wirereg"
)

func must(b []byte, err error) []byte {
	if err != nil {
		panic(err)
	}
	return b
}

func h256(parts ...[]byte) types.Hash256 {
	var all []byte
	for _, p := range parts {
		all = append(all, p...)
	}
	return blake2b.Sum256(all)
}

func dist(s string) []byte { return []byte("sia/" + s + "|") }

func le64(x uint64) []byte {
	var e lenc
	e.u64(x)
	return e.b
}

// refMerkleRoot is the RFC-6962-shaped root over leaf hashes used by unlock hashes and v1 block roots.
func refMerkleRoot(leaves []types.Hash256) types.Hash256 {
	if len(leaves) == 0 {
		return types.Hash256{}
	}
	if len(leaves) == 1 {
		return leaves[0]
	}
	k := 1
	for k*2 < len(leaves) {
		k *= 2
	}
	l, r := refMerkleRoot(leaves[:k]), refMerkleRoot(leaves[k:])
	return h256([]byte{1}, l[:], r[:])
}

// refPolicyAddress computes a policy address from the layout tables.
func refPolicyAddress(p types.SpendPolicy) types.Address {
	if uc, ok := p.Type.(types.PolicyTypeUnlockConditions); ok {
		u := types.UnlockConditions(uc)
		leaves := []types.Hash256{h256([]byte{0}, le64(u.Timelock))}
		for _, k := range u.PublicKeys {
			leaves = append(leaves, h256([]byte{0}, must(layoutEncode("UnlockKey", k))))
		}
		leaves = append(leaves, h256([]byte{0}, le64(u.SignaturesRequired)))
		return types.Address(refMerkleRoot(leaves))
	}
	if th, ok := p.Type.(types.PolicyTypeThreshold); ok {
		of := make([]types.SpendPolicy, len(th.Of))
		for i, sub := range th.Of {
			if _, isOpaque := sub.Type.(types.PolicyTypeOpaque); isOpaque {
				of[i] = sub
			} else {
				of[i] = types.SpendPolicy{Type: types.PolicyTypeOpaque(refPolicyAddress(sub))}
			}
		}
		p = types.SpendPolicy{Type: types.PolicyTypeThreshold{N: th.N, Of: of}}
	}
	return types.Address(h256(dist("address"), must(layoutEncode("SpendPolicy", p))))
}

func checkGolden(b *harness.B) {
	pk := types.PublicKey{1, 2, 3}
	cases := []struct {
		name string
		p    types.SpendPolicy
		want string // address with checksum, from types/policy_test.go
	}{
		{"uc-standard", types.SpendPolicy{Type: types.PolicyTypeUnlockConditions(types.StandardUnlockConditions(pk))}, "72b0762b382d4c251af5ae25b6777d908726d75962e5224f98d7f619bb39515dd64b9a56043a"},
		{"threshold-nested", types.PolicyThreshold(2, []types.SpendPolicy{
			types.PolicyAbove(100), types.PolicyPublicKey(pk),
			types.PolicyThreshold(2, []types.SpendPolicy{types.PolicyAbove(200), types.PolicyPublicKey(types.PublicKey{4, 5, 6})}),
		}), "111d2995afa8bf162180a647b9f1eb6a275fe8818e836b69b351871d5caf9c590ed25aec0616"},
	}
	for _, c := range cases {
		b.Eval(1)
		got := refPolicyAddress(c.p)
		if hex.EncodeToString(got[:]) != c.want[:64] {
			b.Violate("C11/layout/golden/"+c.name, fmt.Sprintf("address from the layout tables %x != golden %s of the repo's tests", got[:], c.want[:64]), map[string]string{"case": c.name})
		} else {
			b.Count("golden_ids_matched", 1)
		}
		b.Distinct("golden", c.name)
	}
}

func testNetwork() *consensus.Network {
	n := &consensus.Network{Name: "c11"}
	n.HardforkASIC.Height = 10
	n.HardforkFoundation.Height = 20
	n.HardforkV2.AllowHeight = 30
	n.HardforkV2.RequireHeight = 40
	return n
}

// checkHashes compares exported hashes with H(layout-table preimage).
func checkHashes(b *harness.B, rng *rand.Rand, n int) {
	o := &valgen.Opts{Budget: 60, SubSecond: true}
	cmp := func(name string, got, want types.Hash256, witness func() any) {
		b.Eval(1)
		b.Count("layout_cases", 1)
		b.Count("hash_preimage_cases", 1)
		if got != want {
			b.Violate("C11/layout/hash-preimage/"+name, fmt.Sprintf("%s: library %x != hash of the layout-table preimage %x", name, got[:], want[:]), witness())
		}
	}
	net := testNetwork()
	for i := 0; i < n; i++ {
		// v1 transaction
		txn := valgen.New[types.Transaction](rng, o)
		wit := func() any { return map[string]string{"v1txn": hex.EncodeToString(encodeStd(&txn))} }
		nosigs := must(layoutEncode("TransactionNoSigs", txn))
		full := must(layoutEncode("Transaction", txn))
		cmp("Transaction.ID", types.Hash256(txn.ID()), h256(nosigs), wit)
		cmp("Transaction.FullHash", txn.FullHash(), h256(full), wit)
		cmp("Transaction.MerkleLeafHash", txn.MerkleLeafHash(), h256([]byte{0}, full), wit)
		idx := rng.IntN(5)
		spec := func(s string) []byte { sp := types.NewSpecifier(s); return sp[:] }
		cmp("Transaction.SiacoinOutputID", types.Hash256(txn.SiacoinOutputID(idx)), h256(spec("siacoin output"), nosigs, le64(uint64(idx))), wit)
		cmp("Transaction.SiafundOutputID", types.Hash256(txn.SiafundOutputID(idx)), h256(spec("siafund output"), nosigs, le64(uint64(idx))), wit)
		cmp("Transaction.FileContractID", types.Hash256(txn.FileContractID(idx)), h256(spec("file contract"), nosigs, le64(uint64(idx))), wit)
		fcid := types.FileContractID(valgen.New[types.Hash256](rng, o))
		cmp("FileContractID.ValidOutputID", types.Hash256(fcid.ValidOutputID(idx)), h256(spec("storage proof"), fcid[:], []byte{1}, le64(uint64(idx))), wit)
		cmp("FileContractID.MissedOutputID", types.Hash256(fcid.MissedOutputID(idx)), h256(spec("storage proof"), fcid[:], []byte{0}, le64(uint64(idx))), wit)

		// v1 sighashes in every replay-prefix era
		height := []uint64{5, 15, 25, 35}[rng.IntN(4)]
		var prefix []byte
		switch {
		case height >= 30:
			prefix = []byte{2}
		case height >= 20:
			prefix = []byte{1}
		case height >= 10:
			prefix = []byte{0}
		}
		cs := consensus.State{Network: net, Index: types.ChainIndex{Height: height}}
		var pre []byte
		list := func(n int, each func(i int) []byte) {
			pre = append(pre, le64(uint64(n))...)
			for i := 0; i < n; i++ {
				pre = append(pre, each(i)...)
			}
		}
		list(len(txn.SiacoinInputs), func(i int) []byte {
			return append(append([]byte{}, prefix...), must(layoutEncode("SiacoinInput", txn.SiacoinInputs[i]))...)
		})
		list(len(txn.SiacoinOutputs), func(i int) []byte { return must(layoutEncode("V1SiacoinOutput", txn.SiacoinOutputs[i])) })
		list(len(txn.FileContracts), func(i int) []byte { return must(layoutEncode("FileContract", txn.FileContracts[i])) })
		list(len(txn.FileContractRevisions), func(i int) []byte { return must(layoutEncode("FileContractRevision", txn.FileContractRevisions[i])) })
		list(len(txn.StorageProofs), func(i int) []byte { return must(layoutEncode("StorageProof", txn.StorageProofs[i])) })
		list(len(txn.SiafundInputs), func(i int) []byte {
			return append(append([]byte{}, prefix...), must(layoutEncode("SiafundInput", txn.SiafundInputs[i]))...)
		})
		list(len(txn.SiafundOutputs), func(i int) []byte { return must(layoutEncode("V1SiafundOutput", txn.SiafundOutputs[i])) })
		list(len(txn.MinerFees), func(i int) []byte { return must(layoutEncode("V1Currency", txn.MinerFees[i])) })
		list(len(txn.ArbitraryData), func(i int) []byte { var e lenc; e.encode(reflect.ValueOf(txn.ArbitraryData[i]), "bytes"); return e.b })
		parent := valgen.New[types.Hash256](rng, o)
		pki, tl := valgen.Uint64(rng), valgen.Uint64(rng)
		pre = append(pre, parent[:]...)
		pre = append(pre, le64(pki)...)
		pre = append(pre, le64(tl)...)
		var covered []uint64
		for j := range txn.Signatures {
			if rng.IntN(2) == 0 {
				covered = append(covered, uint64(j))
				pre = append(pre, must(layoutEncode("TransactionSignature", txn.Signatures[j]))...)
			}
		}
		cmp(fmt.Sprintf("State.WholeSigHash/replay-prefix-%x", prefix), cs.WholeSigHash(txn, parent, pki, tl, covered), h256(pre), wit)
		// partial: cover the first element of every non-empty list
		var cf types.CoveredFields
		pre = nil
		add := func(n int, dst *[]uint64, enc func() []byte) {
			if n > 0 {
				*dst = []uint64{uint64(n - 1)}
				pre = append(pre, enc()...)
			}
		}
		add(len(txn.SiacoinInputs), &cf.SiacoinInputs, func() []byte {
			return append(append([]byte{}, prefix...), must(layoutEncode("SiacoinInput", txn.SiacoinInputs[len(txn.SiacoinInputs)-1]))...)
		})
		add(len(txn.SiacoinOutputs), &cf.SiacoinOutputs, func() []byte {
			return must(layoutEncode("V1SiacoinOutput", txn.SiacoinOutputs[len(txn.SiacoinOutputs)-1]))
		})
		add(len(txn.FileContracts), &cf.FileContracts, func() []byte { return must(layoutEncode("FileContract", txn.FileContracts[len(txn.FileContracts)-1])) })
		add(len(txn.FileContractRevisions), &cf.FileContractRevisions, func() []byte {
			return must(layoutEncode("FileContractRevision", txn.FileContractRevisions[len(txn.FileContractRevisions)-1]))
		})
		add(len(txn.StorageProofs), &cf.StorageProofs, func() []byte { return must(layoutEncode("StorageProof", txn.StorageProofs[len(txn.StorageProofs)-1])) })
		add(len(txn.SiafundInputs), &cf.SiafundInputs, func() []byte {
			return append(append([]byte{}, prefix...), must(layoutEncode("SiafundInput", txn.SiafundInputs[len(txn.SiafundInputs)-1]))...)
		})
		add(len(txn.SiafundOutputs), &cf.SiafundOutputs, func() []byte {
			return must(layoutEncode("V1SiafundOutput", txn.SiafundOutputs[len(txn.SiafundOutputs)-1]))
		})
		add(len(txn.MinerFees), &cf.MinerFees, func() []byte { return must(layoutEncode("V1Currency", txn.MinerFees[len(txn.MinerFees)-1])) })
		add(len(txn.ArbitraryData), &cf.ArbitraryData, func() []byte {
			var e lenc
			e.encode(reflect.ValueOf(txn.ArbitraryData[len(txn.ArbitraryData)-1]), "bytes")
			return e.b
		})
		add(len(txn.Signatures), &cf.Signatures, func() []byte {
			return must(layoutEncode("TransactionSignature", txn.Signatures[len(txn.Signatures)-1]))
		})
		cmp(fmt.Sprintf("State.PartialSigHash/replay-prefix-%x", prefix), cs.PartialSigHash(txn, cf), h256(pre), wit)

		// v2 transaction
		v2 := valgen.New[types.V2Transaction](rng, o)
		wit2 := func() any { return map[string]string{"v2txn": hex.EncodeToString(encodeStd(&v2))} }
		sem := must(layoutEncode("V2TransactionSemantics", v2))
		v2full := must(layoutEncode("V2Transaction", v2))
		txid := v2.ID()
		cmp("V2Transaction.ID", types.Hash256(txid), h256(dist("id/transaction"), sem), wit2)
		cmp("V2Transaction.FullHash", v2.FullHash(), h256(v2full), wit2)
		cmp("V2Transaction.MerkleLeafHash", v2.MerkleLeafHash(), h256([]byte{0}, v2full), wit2)
		cmp("V2Transaction.SiacoinOutputID", types.Hash256(v2.SiacoinOutputID(txid, idx)), h256(dist("id/siacoinoutput"), txid[:], le64(uint64(idx))), wit2)
		cmp("V2Transaction.SiafundOutputID", types.Hash256(v2.SiafundOutputID(txid, idx)), h256(dist("id/siafundoutput"), txid[:], le64(uint64(idx))), wit2)
		cmp("V2Transaction.V2FileContractID", types.Hash256(v2.V2FileContractID(txid, idx)), h256(dist("id/filecontract"), txid[:], le64(uint64(idx))), wit2)
		cmp("V2Transaction.AttestationID", types.Hash256(v2.AttestationID(txid, idx)), h256(dist("id/attestation"), txid[:], le64(uint64(idx))), wit2)
		cmp("State.InputSigHash", cs.InputSigHash(v2), h256(dist("sig/input"), []byte{2}, sem), wit2)
		fc := valgen.New[types.V2FileContract](rng, o)
		cmp("State.ContractSigHash", cs.ContractSigHash(fc), h256(dist("sig/filecontract"), []byte{2}, must(layoutEncode("V2FileContractNoSigs", fc))), func() any { return map[string]string{"contract": hex.EncodeToString(encodeStd(&fc))} })
		ren := valgen.New[types.V2FileContractRenewal](rng, o)
		cmp("State.RenewalSigHash", cs.RenewalSigHash(ren), h256(dist("sig/filecontractrenewal"), []byte{2}, must(layoutEncode("V2FileContractRenewalNoSigs", ren))), func() any { return map[string]string{"renewal": hex.EncodeToString(encodeStd(&ren))} })
		att := valgen.New[types.Attestation](rng, o)
		cmp("State.AttestationSigHash", cs.AttestationSigHash(att), h256(dist("sig/attestation"), []byte{2}, must(layoutEncode("AttestationNoSig", att))), func() any { return map[string]string{"attestation": hex.EncodeToString(encodeStd(&att))} })

		// header, state commitment leaf, policy address
		hdr := valgen.New[types.BlockHeader](rng, o)
		cmp("BlockHeader.ID", types.Hash256(hdr.ID()), h256(must(layoutEncode("BlockHeader", hdr))), func() any { return map[string]string{"header": hex.EncodeToString(encodeStd(&hdr))} })
		st := valgen.New[consensus.State](rng, o)
		st.Network = net
		addr := valgen.New[types.Address](rng, o)
		stateHash := h256(must(layoutEncode("State", st)))
		cmp("State.MerkleLeafHash", st.MerkleLeafHash(addr), h256([]byte{0}, dist("commitment"), []byte{2}, stateHash[:], addr[:]), func() any { return map[string]string{"state": hex.EncodeToString(encodeStd(&st))} })
		pol := valgen.Policy(rng, 3, o)
		cmp("SpendPolicy.Address", types.Hash256(pol.Address()), types.Hash256(refPolicyAddress(pol)), func() any { return map[string]string{"policy": hex.EncodeToString(encodeStd(&pol))} })
		b.Distinct("hashes", height, len(txn.Signatures) > 0, len(covered), valgen.Shape(&v2))
	}
}

func encodeStd(v types.EncoderTo) []byte {
	var e encBuf
	enc := types.NewEncoder(&e)
	v.EncodeTo(enc)
	enc.Flush()
	return e.b
}

type encBuf struct{ b []byte }

func (e *encBuf) Write(p []byte) (int, error) { e.b = append(e.b, p...); return len(p), nil }

// checkHighLeafIndex is a directed case: the generator keeps accumulators
// below 2^62 leaves (larger ones are not reachable consensus states), so the
// half of the uint64 leaf-index space above 2^63 is probed here with one
// minimal, fully valid value: two sibling elements at leaf indices 2^63 and
// 2^63+1 of a forest with 2^63+2 leaves. Positive control: the same shape at 2^62.
func checkHighLeafIndex(b *harness.B, rng *rand.Rand) {
	e, _ := wirereg.ByName("types.V2TransactionsMultiproof")
	for _, base := range []uint64{1 << 62, 1 << 63} {
		txns := types.V2TransactionsMultiproof{{SiacoinInputs: []types.V2SiacoinInput{
			{Parent: types.SiacoinElement{ID: types.SiacoinOutputID{1}}, SatisfiedPolicy: types.SatisfiedPolicy{Policy: types.AnyoneCanSpend()}},
			{Parent: types.SiacoinElement{ID: types.SiacoinOutputID{2}}, SatisfiedPolicy: types.SatisfiedPolicy{Policy: types.AnyoneCanSpend()}},
		}}}
		valgen.AssignProofs(rng, txns, base+2, []uint64{base, base + 1})
		b.Eval(1)
		var enc []byte
		var dec any
		var err error
		p := safely(func() {
			enc = e.Encode(&txns)
			dec, err = e.Decode(enc)
		})
		want := valgen.CopyAny(&txns)
		valgen.Canon(want)
		diff := ""
		if p == "" && err == nil {
			valgen.Canon(dec)
			diff = valgen.Diff(want, dec)
		}
		ref, _ := layoutEncode("V2TransactionsMultiproof", &txns)
		bad := p != "" || err != nil || diff != "" || !bytes.Equal(ref, enc)
		w := map[string]any{"leaf_indices": []uint64{base, base + 1}, "num_leaves": base + 2, "encoding_hex": hex.EncodeToString(enc), "reference_encoding_hex": hex.EncodeToString(ref), "panic": p, "decode_error": fmt.Sprint(err), "diff": diff}
		if base == 1<<62 {
			if bad {
				b.Violate("C11/roundtrip/multiproof/sibling-pair", "two sibling elements at leaf indices 2^62, 2^62+1 do not round-trip in multiproof form", w)
			} else {
				b.Count("multiproof_directed_control_ok", 1)
			}
			continue
		}
		if bad {
			b.Violate("C11/roundtrip/multiproof/leaf-index>=2^63", fmt.Sprintf("two sibling elements at leaf indices 2^63, 2^63+1 (forest of 2^63+2 leaves, proofs valid) do not round-trip in multiproof form: library encoding is %d bytes, reference %d bytes; panic=%q err=%v diff=%s", len(enc), len(ref), p, err, diff), w)
		} else {
			b.Count("multiproof_high_leaf_index_ok", 1)
		}
	}
}
