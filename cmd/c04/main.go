// C04 — accumulator membership is sound: only genuine, live elements pass.
//
// On generated histories (with reorgs) the client store's elements are
// presented to the library through its three membership routes —
// ElementAccumulator.ValidateTransactionElements, ValidateV2Transaction (a
// fully signed spend / revision / resolution built around the element) and
// ValidateBlock's supplement check — live ones must pass all routes; every
// single-field or proof mutation, spent elements with their maintained proof,
// elements of reverted branches and fabricated elements must be rejected.
package main

import (
	"bytes"
	"encoding/binary"
	"fmt"
	"math/rand/v2"
	"reflect"
	"strings"

	"go.sia.tech/core/consensus"
	"go.sia.tech/core/types"
	"verif/internal/chaingen"
	"verif/internal/harness"
	"verif/internal/refmodel"
)

type tester struct {
	b      *harness.B
	c      *chaingen.Chain
	rng    *rand.Rand
	payout map[types.FileContractID]types.Currency // v1 contracts: payout as formed
	// carrier block for the supplement route (one arbitrary-data v1 txn), rebuilt per state
	carrier    *types.Block
	carrierFor types.BlockID
	// the same for a block with a v2 part and no v1 transaction
	pool           []types.V2Transaction // decoded from a multiproof set, parents kept current (wirePool)
	poolAge        int
	carrierV2      *types.Block
	carrierV2For   types.BlockID
	expiringProbes int
	spentSC        []spentSC
	spentSF        []spentSF
	resolvedV2     []resolvedV2
	resolvedV1     []resolvedV1
	revertedSC     []types.SiacoinElement
	revertedSF     []types.SiafundElement
	revertedCI     []types.ChainIndexElement
}

type spentSC struct {
	e  types.SiacoinElement
	x  *chaingen.ExtraElem
	at uint64
}
type spentSF struct {
	e  types.SiafundElement
	x  *chaingen.ExtraElem
	at uint64
}
type resolvedV1 struct {
	e  types.FileContractElement
	x  *chaingen.ExtraElem
	at uint64
}
type resolvedV2 struct {
	e  types.V2FileContractElement
	x  *chaingen.ExtraElem
	at uint64
}

func flipHash(h types.Hash256) types.Hash256 { h[7] ^= 0x10; return h }

// ---- routes ---------------------------------------------------------------------------

// route1: ValidateTransactionElements
func (t *tester) r1(cs consensus.State, txn types.V2Transaction) bool {
	return cs.Elements.ValidateTransactionElements(txn) == nil
}

func wrapSC(e types.SiacoinElement) types.V2Transaction {
	return types.V2Transaction{SiacoinInputs: []types.V2SiacoinInput{{Parent: e, SatisfiedPolicy: types.SatisfiedPolicy{Policy: types.AnyoneCanSpend()}}}}
}
func wrapSF(e types.SiafundElement) types.V2Transaction {
	return types.V2Transaction{SiafundInputs: []types.V2SiafundInput{{Parent: e, SatisfiedPolicy: types.SatisfiedPolicy{Policy: types.AnyoneCanSpend()}}}}
}
func wrapV2FCrev(e types.V2FileContractElement) types.V2Transaction {
	return types.V2Transaction{FileContractRevisions: []types.V2FileContractRevision{{Parent: e}}}
}
func wrapV2FCres(e types.V2FileContractElement) types.V2Transaction {
	return types.V2Transaction{FileContractResolutions: []types.V2FileContractResolution{{Parent: e, Resolution: &types.V2FileContractExpiration{}}}}
}
func wrapCI(host types.V2FileContractElement, e types.ChainIndexElement) types.V2Transaction {
	return types.V2Transaction{FileContractResolutions: []types.V2FileContractResolution{{Parent: host, Resolution: &types.V2StorageProof{ProofIndex: e}}}}
}

// route3: supplement check of ValidateBlock. ok=false if the route is unavailable at this height.
func (t *tester) r3(cs consensus.State, fill func(bs *consensus.V1BlockSupplement)) (accepted bool, ok bool) {
	n := t.c.Net.N
	h := cs.Index.Height + 1
	if h >= n.HardforkV2.RequireHeight {
		return false, false
	}
	if t.carrier == nil || t.carrierFor != cs.Index.ID {
		b := types.Block{ParentID: cs.Index.ID, Timestamp: cs.PrevTimestamps[0].Add(n.BlockInterval), Transactions: []types.Transaction{{ArbitraryData: [][]byte{[]byte("carrier")}}}}
		if b.Timestamp.Before(chaingen.Median(cs)) {
			b.Timestamp = chaingen.Median(cs)
		}
		if err := t.c.Seal(cs, &b, types.VoidAddress, 1, nil); err != nil {
			return false, false
		}
		t.carrier, t.carrierFor = &b, cs.Index.ID
	}
	bs := consensus.V1BlockSupplement{Transactions: make([]consensus.V1TransactionSupplement, 1)}
	fill(&bs)
	carrier := t.carrier
	if ts := bs.Transactions[0]; h >= n.HardforkV2.AllowHeight && len(bs.ExpiringFileContracts) > 0 && len(ts.SiacoinInputs)+len(ts.SiafundInputs)+len(ts.RevisedFileContracts)+len(ts.StorageProofs) == 0 {
		// a supplement that only lists expiring contracts also travels with a block that has a v2 part and no v1
		// transaction at all (every other probe of this kind uses that carrier)
		if t.expiringProbes++; t.expiringProbes%2 == 1 {
			if t.carrierV2 == nil || t.carrierV2For != cs.Index.ID {
				b := types.Block{ParentID: cs.Index.ID, Timestamp: t.carrier.Timestamp, V2: &types.V2BlockData{Transactions: []types.V2Transaction{{ArbitraryData: []byte("carrier")}}}}
				if err := t.c.Seal(cs, &b, types.VoidAddress, 1, nil); err != nil {
					return false, false
				}
				t.carrierV2, t.carrierV2For = &b, cs.Index.ID
			}
			carrier = t.carrierV2
			bs.Transactions = nil
			t.b.Count("supplement_expiring_probes_on_a_v2_only_carrier", 1)
		}
	}
	err := consensus.ValidateBlock(cs, *carrier, bs)
	if err != nil && !strings.Contains(err.Error(), "block supplement is invalid") {
		// the carrier itself failed for another reason: route unusable
		t.b.Inconclusive("supplement carrier block rejected: " + chaingen.NormErr(err))
		return false, false
	}
	return err == nil, true
}

// route2 for siacoin: a fully signed v2 spend of the element
func (t *tester) r2SC(cs consensus.State, e types.SiacoinElement) (accepted bool, ok bool) {
	n := t.c.Net.N
	h := cs.Index.Height + 1
	l := t.c.W.Locks[e.SiacoinOutput.Address]
	if h < n.HardforkV2.AllowHeight || l == nil || !l.SpendableV2(cs.Index.Height, chaingen.Median(cs)) || e.SiacoinOutput.Value.IsZero() {
		return false, false
	}
	txn := t.c.NewV2Spend(cs, e, l, types.VoidAddress)
	return consensus.ValidateV2Transaction(consensus.NewMidState(cs), txn) == nil, true
}

func (t *tester) r2SF(cs consensus.State, e types.SiafundElement) (accepted bool, ok bool) {
	n := t.c.Net.N
	h := cs.Index.Height + 1
	l := t.c.W.Locks[e.SiafundOutput.Address]
	if h < n.HardforkV2.AllowHeight || l == nil || !l.SpendableV2(cs.Index.Height, chaingen.Median(cs)) || e.SiafundOutput.Value == 0 {
		return false, false
	}
	txn := t.c.NewV2SFSpend(cs, e, l, types.VoidAddress)
	return consensus.ValidateV2Transaction(consensus.NewMidState(cs), txn) == nil, true
}

// route2 for v2 contracts: an expiration when the height allows it
func (t *tester) r2V2FC(cs consensus.State, e types.V2FileContractElement) (accepted bool, ok bool) {
	h := cs.Index.Height + 1
	if h < t.c.Net.N.HardforkV2.AllowHeight || h <= e.V2FileContract.ExpirationHeight {
		return false, false
	}
	return consensus.ValidateV2Transaction(consensus.NewMidState(cs), wrapV2FCres(e)) == nil, true
}

// ---- judging ------------------------------------------------------------------------------

func (t *tester) expect(kind, mut string, want bool, route string, got bool) {
	t.b.Eval(1)
	t.b.Distinct(kind, mut, route)
	if want {
		t.b.Count("live_elements_accepted", 0)
	}
	if got == want {
		if want {
			t.b.Count("live_elements_accepted", 1)
		} else {
			t.b.Count("non_members_rejected", 1)
		}
		return
	}
	if want {
		t.b.Violate(fmt.Sprintf("C04/live-element-rejected/%s/%s", kind, route), fmt.Sprintf("a live %s element with its maintained proof is rejected by %s", kind, route), map[string]any{"kind": kind, "route": route, "height": t.c.Height()})
	} else {
		t.b.Violate(fmt.Sprintf("C04/non-member-accepted/%s/%s/%s", kind, mut, route), fmt.Sprintf("%s element with mutation %q is accepted as a member by %s", kind, mut, route), map[string]any{"kind": kind, "mutation": mut, "route": route, "height": t.c.Height()})
	}
}

type seMut struct {
	name string
	f    func(se *types.StateElement)
}

// proof / position mutations, given another element's state element of the same tree where available
func (t *tester) seMuts(se types.StateElement, other *types.StateElement, numLeaves uint64) []seMut {
	var ms []seMut
	ms = append(ms, seMut{"leaf-index+1", func(s *types.StateElement) { s.LeafIndex++ }})
	if se.LeafIndex > 0 {
		ms = append(ms, seMut{"leaf-index-1", func(s *types.StateElement) { s.LeafIndex-- }})
	}
	ms = append(ms, seMut{"leaf-index-sibling", func(s *types.StateElement) { s.LeafIndex ^= 1 }})
	for i := range se.MerkleProof {
		i := i
		if i < 3 || i == len(se.MerkleProof)-1 {
			ms = append(ms, seMut{fmt.Sprintf("proof-hash-flipped"), func(s *types.StateElement) { s.MerkleProof[i] = flipHash(s.MerkleProof[i]) }})
		}
	}
	if len(se.MerkleProof) > 0 {
		ms = append(ms, seMut{"proof-shortened", func(s *types.StateElement) { s.MerkleProof = s.MerkleProof[:len(s.MerkleProof)-1] }})
		ms = append(ms, seMut{"proof-first-hash-dropped", func(s *types.StateElement) { s.MerkleProof = s.MerkleProof[1:] }})
	}
	ms = append(ms, seMut{"proof-lengthened-zero-hash", func(s *types.StateElement) { s.MerkleProof = append(s.MerkleProof, types.Hash256{}) }})
	if len(se.MerkleProof) > 0 {
		ms = append(ms, seMut{"proof-lengthened-duplicate-last", func(s *types.StateElement) {
			s.MerkleProof = append(s.MerkleProof, s.MerkleProof[len(s.MerkleProof)-1])
		}})
	}
	if other != nil && other.LeafIndex != se.LeafIndex {
		o := *other
		ms = append(ms, seMut{"other-elements-proof", func(s *types.StateElement) { s.MerkleProof = append([]types.Hash256(nil), o.MerkleProof...) }})
		ms = append(ms, seMut{"other-elements-position-and-proof", func(s *types.StateElement) {
			s.LeafIndex = o.LeafIndex
			s.MerkleProof = append([]types.Hash256(nil), o.MerkleProof...)
		}})
		ms = append(ms, seMut{"other-elements-position", func(s *types.StateElement) { s.LeafIndex = o.LeafIndex }})
	}
	ms = append(ms, seMut{"leaf-index-unassigned-kept-proof", nil}) // handled by callers where meaningful
	return ms[:len(ms)-1]
}

func (t *tester) testSC(cs consensus.State, e types.SiacoinElement, other *types.StateElement) {
	// positive
	t.expect("siacoin", "none", true, "ValidateTransactionElements", t.r1(cs, wrapSC(e.Copy())))
	if acc, ok := t.r3(cs, func(bs *consensus.V1BlockSupplement) {
		bs.Transactions[0].SiacoinInputs = []types.SiacoinElement{e.Copy()}
	}); ok {
		t.expect("siacoin", "none", true, "supplement", acc)
	}
	mature := e.MaturityHeight <= cs.Index.Height+1
	if mature {
		if acc, ok := t.r2SC(cs, e.Copy()); ok {
			t.expect("siacoin", "none", true, "ValidateV2Transaction", acc)
		}
	}
	type mut struct {
		name string
		f    func(x *types.SiacoinElement)
	}
	muts := []mut{
		{"id", func(x *types.SiacoinElement) { x.ID[3] ^= 1 }},
		{"value+1", func(x *types.SiacoinElement) {
			x.SiacoinOutput.Value = x.SiacoinOutput.Value.Add(types.NewCurrency64(1))
		}},
		{"value-doubled", func(x *types.SiacoinElement) {
			x.SiacoinOutput.Value = x.SiacoinOutput.Value.Add(x.SiacoinOutput.Value)
		}},
		{"value-hi-word", func(x *types.SiacoinElement) { x.SiacoinOutput.Value.Hi ^= 1 }},
		{"address", func(x *types.SiacoinElement) { x.SiacoinOutput.Address[0] ^= 0x80 }},
		{"maturity-height-lowered", func(x *types.SiacoinElement) {
			if x.MaturityHeight > 0 {
				x.MaturityHeight--
			} else {
				x.MaturityHeight = 1
			}
		}},
		{"maturity-height-zero", func(x *types.SiacoinElement) {
			if x.MaturityHeight == 0 {
				x.MaturityHeight = 2
			} else {
				x.MaturityHeight = 0
			}
		}},
	}
	for _, sm := range t.seMuts(e.StateElement, other, cs.Elements.NumLeaves) {
		sm := sm
		muts = append(muts, mut{sm.name, func(x *types.SiacoinElement) { sm.f(&x.StateElement) }})
	}
	for _, m := range muts {
		x := e.Copy()
		m.f(&x)
		if reflect.DeepEqual(x, e) {
			continue // the mutation is a no-op on this value (e.g. doubling zero)
		}
		t.expect("siacoin", m.name, false, "ValidateTransactionElements", t.r1(cs, wrapSC(x.Copy())))
		if acc, ok := t.r3(cs, func(bs *consensus.V1BlockSupplement) {
			bs.Transactions[0].SiacoinInputs = []types.SiacoinElement{x.Copy()}
		}); ok {
			t.expect("siacoin", m.name, false, "supplement", acc)
		}
		// full spend: for the value/address/maturity mutations the spend is rebuilt around the claimed contents
		if x.SiacoinOutput.Address == e.SiacoinOutput.Address && (mature || strings.HasPrefix(m.name, "maturity")) {
			if acc, ok := t.r2SC(cs, x.Copy()); ok {
				t.expect("siacoin", m.name, false, "ValidateV2Transaction", acc)
			}
		}
	}
}

func (t *tester) testSF(cs consensus.State, e types.SiafundElement, other *types.StateElement) {
	t.expect("siafund", "none", true, "ValidateTransactionElements", t.r1(cs, wrapSF(e.Copy())))
	if acc, ok := t.r3(cs, func(bs *consensus.V1BlockSupplement) {
		bs.Transactions[0].SiafundInputs = []types.SiafundElement{e.Copy()}
	}); ok {
		t.expect("siafund", "none", true, "supplement", acc)
	}
	if acc, ok := t.r2SF(cs, e.Copy()); ok {
		t.expect("siafund", "none", true, "ValidateV2Transaction", acc)
	}
	type mut struct {
		name string
		f    func(x *types.SiafundElement)
	}
	muts := []mut{
		{"id", func(x *types.SiafundElement) { x.ID[3] ^= 1 }},
		{"value+1", func(x *types.SiafundElement) { x.SiafundOutput.Value++ }},
		{"address", func(x *types.SiafundElement) { x.SiafundOutput.Address[0] ^= 0x80 }},
		{"claim-start-lowered", func(x *types.SiafundElement) {
			if x.ClaimStart.IsZero() {
				x.ClaimStart = types.NewCurrency64(1)
			} else {
				x.ClaimStart = x.ClaimStart.Sub(types.NewCurrency64(1))
			}
		}},
		{"claim-start-zero", func(x *types.SiafundElement) {
			if x.ClaimStart.IsZero() {
				x.ClaimStart = types.Siacoins(1)
			} else {
				x.ClaimStart = types.ZeroCurrency
			}
		}},
	}
	for _, sm := range t.seMuts(e.StateElement, other, cs.Elements.NumLeaves) {
		sm := sm
		muts = append(muts, mut{sm.name, func(x *types.SiafundElement) { sm.f(&x.StateElement) }})
	}
	for _, m := range muts {
		x := e.Copy()
		m.f(&x)
		if reflect.DeepEqual(x, e) {
			continue
		}
		t.expect("siafund", m.name, false, "ValidateTransactionElements", t.r1(cs, wrapSF(x.Copy())))
		if acc, ok := t.r3(cs, func(bs *consensus.V1BlockSupplement) {
			bs.Transactions[0].SiafundInputs = []types.SiafundElement{x.Copy()}
		}); ok {
			t.expect("siafund", m.name, false, "supplement", acc)
		}
		if x.SiafundOutput.Address == e.SiafundOutput.Address {
			if acc, ok := t.r2SF(cs, x.Copy()); ok {
				t.expect("siafund", m.name, false, "ValidateV2Transaction", acc)
			}
		}
	}
}

func (t *tester) testFC(cs consensus.State, e types.FileContractElement, other *types.StateElement) {
	routes := []struct {
		name string
		fill func(x types.FileContractElement) func(bs *consensus.V1BlockSupplement)
	}{
		{"supplement-revised", func(x types.FileContractElement) func(bs *consensus.V1BlockSupplement) {
			return func(bs *consensus.V1BlockSupplement) {
				bs.Transactions[0].RevisedFileContracts = []types.FileContractElement{x.Copy()}
			}
		}},
		{"supplement-storage-proof", func(x types.FileContractElement) func(bs *consensus.V1BlockSupplement) {
			return func(bs *consensus.V1BlockSupplement) {
				bs.Transactions[0].StorageProofs = []consensus.V1StorageProofSupplement{{FileContract: x.Copy()}}
			}
		}},
		{"supplement-expiring", func(x types.FileContractElement) func(bs *consensus.V1BlockSupplement) {
			return func(bs *consensus.V1BlockSupplement) {
				bs.ExpiringFileContracts = []types.FileContractElement{x.Copy()}
			}
		}},
	}
	for _, r := range routes {
		if acc, ok := t.r3(cs, r.fill(e)); ok {
			t.expect("filecontract", "none", true, r.name, acc)
		}
	}
	type mut struct {
		name string
		f    func(x *types.FileContractElement)
	}
	muts := []mut{
		{"id", func(x *types.FileContractElement) { x.ID[3] ^= 1 }},
		{"filesize", func(x *types.FileContractElement) { x.FileContract.Filesize++ }},
		{"file-merkle-root", func(x *types.FileContractElement) { x.FileContract.FileMerkleRoot[1] ^= 2 }},
		{"window-start", func(x *types.FileContractElement) { x.FileContract.WindowStart++ }},
		{"window-end", func(x *types.FileContractElement) { x.FileContract.WindowEnd++ }},
		{"payout", func(x *types.FileContractElement) {
			x.FileContract.Payout = x.FileContract.Payout.Add(types.NewCurrency64(1))
		}},
		{"unlock-hash", func(x *types.FileContractElement) { x.FileContract.UnlockHash[5] ^= 4 }},
		{"revision-number", func(x *types.FileContractElement) { x.FileContract.RevisionNumber++ }},
	}
	if len(e.FileContract.ValidProofOutputs) > 0 {
		muts = append(muts,
			mut{"valid-output-value", func(x *types.FileContractElement) {
				x.FileContract.ValidProofOutputs = append([]types.SiacoinOutput(nil), x.FileContract.ValidProofOutputs...)
				x.FileContract.ValidProofOutputs[0].Value = x.FileContract.ValidProofOutputs[0].Value.Add(types.NewCurrency64(1))
			}},
			mut{"valid-output-address", func(x *types.FileContractElement) {
				x.FileContract.ValidProofOutputs = append([]types.SiacoinOutput(nil), x.FileContract.ValidProofOutputs...)
				x.FileContract.ValidProofOutputs[0].Address[9] ^= 1
			}},
			mut{"valid-output-dropped", func(x *types.FileContractElement) {
				x.FileContract.ValidProofOutputs = x.FileContract.ValidProofOutputs[:len(x.FileContract.ValidProofOutputs)-1]
			}})
	}
	if len(e.FileContract.MissedProofOutputs) > 0 {
		muts = append(muts,
			mut{"missed-output-value", func(x *types.FileContractElement) {
				x.FileContract.MissedProofOutputs = append([]types.SiacoinOutput(nil), x.FileContract.MissedProofOutputs...)
				k := len(x.FileContract.MissedProofOutputs) - 1
				x.FileContract.MissedProofOutputs[k].Value = x.FileContract.MissedProofOutputs[k].Value.Add(types.NewCurrency64(1))
			}},
			mut{"missed-output-address", func(x *types.FileContractElement) {
				x.FileContract.MissedProofOutputs = append([]types.SiacoinOutput(nil), x.FileContract.MissedProofOutputs...)
				x.FileContract.MissedProofOutputs[0].Address[9] ^= 1
			}})
	}
	for _, sm := range t.seMuts(e.StateElement, other, cs.Elements.NumLeaves) {
		sm := sm
		muts = append(muts, mut{sm.name, func(x *types.FileContractElement) { sm.f(&x.StateElement) }})
	}
	for _, m := range muts {
		x := e.Copy()
		m.f(&x)
		if reflect.DeepEqual(x, e) {
			continue
		}
		for _, r := range routes {
			if acc, ok := t.r3(cs, r.fill(x)); ok {
				t.expect("filecontract", m.name, false, r.name, acc)
			}
		}
	}
}

func (t *tester) testV2FC(cs consensus.State, e types.V2FileContractElement, other *types.StateElement) {
	t.expect("v2filecontract", "none", true, "ValidateTransactionElements/revision", t.r1(cs, wrapV2FCrev(e.Copy())))
	t.expect("v2filecontract", "none", true, "ValidateTransactionElements/resolution", t.r1(cs, wrapV2FCres(e.Copy())))
	if acc, ok := t.r2V2FC(cs, e.Copy()); ok {
		t.expect("v2filecontract", "none", true, "ValidateV2Transaction/expiration", acc)
	}
	type mut struct {
		name string
		f    func(x *types.V2FileContractElement)
	}
	one := types.NewCurrency64(1)
	muts := []mut{
		{"id", func(x *types.V2FileContractElement) { x.ID[3] ^= 1 }},
		{"capacity", func(x *types.V2FileContractElement) { x.V2FileContract.Capacity++ }},
		{"filesize", func(x *types.V2FileContractElement) { x.V2FileContract.Filesize ^= 1 }},
		{"file-merkle-root", func(x *types.V2FileContractElement) { x.V2FileContract.FileMerkleRoot[1] ^= 2 }},
		{"proof-height", func(x *types.V2FileContractElement) { x.V2FileContract.ProofHeight++ }},
		{"expiration-height-lowered", func(x *types.V2FileContractElement) { x.V2FileContract.ExpirationHeight-- }},
		{"renter-output-value", func(x *types.V2FileContractElement) {
			x.V2FileContract.RenterOutput.Value = x.V2FileContract.RenterOutput.Value.Add(one)
		}},
		{"renter-output-address", func(x *types.V2FileContractElement) { x.V2FileContract.RenterOutput.Address[2] ^= 8 }},
		{"host-output-value", func(x *types.V2FileContractElement) {
			x.V2FileContract.HostOutput.Value = x.V2FileContract.HostOutput.Value.Add(one)
		}},
		{"host-output-address", func(x *types.V2FileContractElement) { x.V2FileContract.HostOutput.Address[2] ^= 8 }},
		{"missed-host-value", func(x *types.V2FileContractElement) {
			x.V2FileContract.MissedHostValue = x.V2FileContract.MissedHostValue.Add(one)
		}},
		{"total-collateral", func(x *types.V2FileContractElement) {
			x.V2FileContract.TotalCollateral = x.V2FileContract.TotalCollateral.Add(one)
		}},
		{"renter-public-key", func(x *types.V2FileContractElement) { x.V2FileContract.RenterPublicKey[0] ^= 1 }},
		{"host-public-key", func(x *types.V2FileContractElement) { x.V2FileContract.HostPublicKey[0] ^= 1 }},
		{"revision-number", func(x *types.V2FileContractElement) { x.V2FileContract.RevisionNumber++ }},
		{"renter-signature", func(x *types.V2FileContractElement) { x.V2FileContract.RenterSignature[0] ^= 1 }},
		{"host-signature", func(x *types.V2FileContractElement) { x.V2FileContract.HostSignature[63] ^= 1 }},
		// a contract parent can never be an in-block ("ephemeral") element: the sentinel leaf index is no excuse
		{"leaf-index-unassigned", func(x *types.V2FileContractElement) { x.StateElement.LeafIndex = types.UnassignedLeafIndex }},
		{"leaf-index-unassigned+renter-output-value", func(x *types.V2FileContractElement) {
			x.StateElement.LeafIndex = types.UnassignedLeafIndex
			x.V2FileContract.RenterOutput.Value = x.V2FileContract.RenterOutput.Value.Add(types.Siacoins(1000))
		}},
		{"leaf-index-unassigned+never-created", func(x *types.V2FileContractElement) {
			x.StateElement = types.StateElement{LeafIndex: types.UnassignedLeafIndex}
			x.ID = types.FileContractID{0xAA}
		}},
	}
	for _, sm := range t.seMuts(e.StateElement, other, cs.Elements.NumLeaves) {
		sm := sm
		muts = append(muts, mut{sm.name, func(x *types.V2FileContractElement) { sm.f(&x.StateElement) }})
	}
	for _, m := range muts {
		x := e.Copy()
		m.f(&x)
		if reflect.DeepEqual(x, e) {
			continue
		}
		t.expect("v2filecontract", m.name, false, "ValidateTransactionElements/revision", t.r1(cs, wrapV2FCrev(x.Copy())))
		t.expect("v2filecontract", m.name, false, "ValidateTransactionElements/resolution", t.r1(cs, wrapV2FCres(x.Copy())))
		if m.name != "expiration-height-lowered" || true {
			if acc, ok := t.r2V2FC(cs, x.Copy()); ok {
				t.expect("v2filecontract", m.name, false, "ValidateV2Transaction/expiration", acc)
			}
		}
	}
}

func (t *tester) testCI(cs consensus.State, host types.V2FileContractElement, e types.ChainIndexElement, other *types.StateElement) {
	t.expect("chainindex", "none", true, "ValidateTransactionElements/storage-proof", t.r1(cs, wrapCI(host.Copy(), e.Copy())))
	type mut struct {
		name string
		f    func(x *types.ChainIndexElement)
	}
	muts := []mut{
		{"id", func(x *types.ChainIndexElement) { x.ID[3] ^= 1 }},
		{"chain-index-height", func(x *types.ChainIndexElement) { x.ChainIndex.Height++ }},
		{"chain-index-id", func(x *types.ChainIndexElement) { x.ChainIndex.ID[30] ^= 1 }},
		{"leaf-index-unassigned", func(x *types.ChainIndexElement) { x.StateElement.LeafIndex = types.UnassignedLeafIndex }},
		{"leaf-index-unassigned+never-created", func(x *types.ChainIndexElement) {
			x.StateElement = types.StateElement{LeafIndex: types.UnassignedLeafIndex}
			x.ID = types.BlockID{0xAB}
			x.ChainIndex.ID = x.ID
		}},
	}
	for _, sm := range t.seMuts(e.StateElement, other, cs.Elements.NumLeaves) {
		sm := sm
		muts = append(muts, mut{sm.name, func(x *types.ChainIndexElement) { sm.f(&x.StateElement) }})
	}
	for _, m := range muts {
		x := e.Copy()
		m.f(&x)
		if reflect.DeepEqual(x, e) {
			continue
		}
		t.expect("chainindex", m.name, false, "ValidateTransactionElements/storage-proof", t.r1(cs, wrapCI(host.Copy(), x.Copy())))
	}
}

// testCIProof: route 2 for chain index elements (see sample).
func (t *tester) testCIProof(cs consensus.State, host types.V2FileContractElement, e types.ChainIndexElement) {
	fc := host.V2FileContract
	data := t.c.Files[fc.FileMerkleRoot]
	build := func(ci types.ChainIndexElement) types.V2Transaction {
		idx := cs.StorageProofLeafIndex(fc.Filesize, e.ChainIndex.ID, host.ID) // the honest index: forged elements keep the genuine block ID unless the mutation is about it
		sp := &types.V2StorageProof{ProofIndex: ci}
		if fc.Filesize > 0 {
			sp.Leaf = refmodel.FileSegment(data, int(idx))
			for _, h := range refmodel.Proof(refmodel.FileLeaves(data), int(idx)) {
				sp.Proof = append(sp.Proof, types.Hash256(h))
			}
		}
		return types.V2Transaction{FileContractResolutions: []types.V2FileContractResolution{{Parent: host.Copy(), Resolution: sp}}}
	}
	kind := "chainindex"
	route := "ValidateV2Transaction/storage-proof-of-nonempty-contract"
	if fc.Filesize == 0 {
		route = "ValidateV2Transaction/storage-proof-of-empty-contract"
	}
	if err := consensus.ValidateV2Transaction(consensus.NewMidState(cs), build(e.Copy())); err != nil {
		// the honest proof is not accepted here (e.g. historical leaf rules): route unusable for this contract
		t.b.Count("ci_route2_unavailable:"+chaingen.NormErr(err), 1)
		return
	}
	t.expect(kind, "none", true, route, true)
	type mut struct {
		name string
		f    func(x *types.ChainIndexElement)
	}
	muts := []mut{
		{"id", func(x *types.ChainIndexElement) { x.ID[3] ^= 1 }},
	}
	if fc.Filesize == 0 {
		// with nothing to prove the block ID does not select a leaf, so a forged ID is judged by membership alone
		muts = append(muts, mut{"chain-index-id", func(x *types.ChainIndexElement) { x.ChainIndex.ID[30] ^= 1 }})
		muts = append(muts, mut{"never-created", func(x *types.ChainIndexElement) {
			x.ID = types.BlockID{0xEE, 1}
			x.ChainIndex.ID = x.ID
			x.StateElement.LeafIndex = cs.Elements.NumLeaves + 5
		}})
	}
	for _, sm := range t.seMuts(e.StateElement, t.otherSE(e.StateElement.LeafIndex), cs.Elements.NumLeaves) {
		sm := sm
		muts = append(muts, mut{sm.name, func(x *types.ChainIndexElement) { sm.f(&x.StateElement) }})
	}
	for _, m := range muts {
		x := e.Copy()
		m.f(&x)
		if reflect.DeepEqual(x, e) {
			continue
		}
		t.expect(kind, m.name, false, route, consensus.ValidateV2Transaction(consensus.NewMidState(cs), build(x.Copy())) == nil)
	}
	t.b.Count("ci_route2_contracts", 1)
}

// testCIReuse: see sample. Both proofs are complete and honest with respect to the block ID they name.
func (t *tester) testCIReuse(cs consensus.State, a types.V2FileContractElement, ea types.ChainIndexElement, bEl types.V2FileContractElement) {
	proofFor := func(host types.V2FileContractElement, ci types.ChainIndexElement) *types.V2StorageProof {
		fc := host.V2FileContract
		data := t.c.Files[fc.FileMerkleRoot]
		sp := &types.V2StorageProof{ProofIndex: ci}
		if fc.Filesize > 0 {
			idx := cs.StorageProofLeafIndex(fc.Filesize, ci.ChainIndex.ID, host.ID)
			sp.Leaf = refmodel.FileSegment(data, int(idx))
			for _, h := range refmodel.Proof(refmodel.FileLeaves(data), int(idx)) {
				sp.Proof = append(sp.Proof, types.Hash256(h))
			}
		}
		return sp
	}
	genuine := types.V2FileContractResolution{Parent: a.Copy(), Resolution: proofFor(a, ea.Copy())}
	if consensus.ValidateV2Transaction(consensus.NewMidState(cs), types.V2Transaction{FileContractResolutions: []types.V2FileContractResolution{genuine}}) != nil {
		return
	}
	forged := ea.Copy()
	forged.ChainIndex.Height = bEl.V2FileContract.ProofHeight
	forged.ChainIndex.ID = types.BlockID{0xF0, 0x0D, byte(cs.Index.Height)}
	second := types.V2FileContractResolution{Parent: bEl.Copy(), Resolution: proofFor(bEl, forged)}
	alone := consensus.ValidateV2Transaction(consensus.NewMidState(cs), types.V2Transaction{FileContractResolutions: []types.V2FileContractResolution{second}}) == nil
	t.expect("chainindex", "genuine-id-with-forged-block-id/alone", false, "ValidateV2Transaction/storage-proof", alone)
	both := consensus.ValidateV2Transaction(consensus.NewMidState(cs), types.V2Transaction{FileContractResolutions: []types.V2FileContractResolution{genuine, second}}) == nil
	t.expect("chainindex", "genuine-id-with-forged-block-id/behind-a-genuine-proof-in-the-same-transaction", false, "ValidateV2Transaction/storage-proof", both)
	t.b.Count("ci_reuse_cases", 1)
}

// otherSE picks the state element of a different tracked element (any kind).
func (t *tester) otherSE(notIndex uint64) *types.StateElement {
	s := t.c.S
	for _, id := range s.OrderedSC() {
		e := s.SCEs[id]
		if e.StateElement.LeafIndex != notIndex && t.rng.IntN(3) == 0 {
			se := e.StateElement.Copy()
			return &se
		}
	}
	for _, e := range s.CIEs {
		if e.StateElement.LeafIndex != notIndex {
			se := e.StateElement.Copy()
			return &se
		}
	}
	return nil
}

// wireDuplicates: a live element is a member however its proof reached the validator. Transaction sets in which one
// live element is the parent of several transactions (one chain index used by two storage proofs, one contract
// revised by two transactions, one output named twice) are sent through the multiproof wire form - which transmits
// each leaf's proof once and rebuilds the others - and every decoded copy must still be accepted.
func (t *tester) wireDuplicates(cs consensus.State, host types.V2FileContractElement, haveHost bool) {
	s := t.c.S
	try := func(kind string, txns []types.V2Transaction, depth int) {
		var buf bytes.Buffer
		e := types.NewEncoder(&buf)
		ok := true
		func() {
			defer func() {
				if recover() != nil {
					ok = false
				}
			}()
			types.V2TransactionsMultiproof(txns).EncodeTo(e)
		}()
		e.Flush()
		var out types.V2TransactionsMultiproof
		d := types.NewBufDecoder(buf.Bytes())
		if ok {
			out.DecodeFrom(d)
		}
		if !ok || d.Err() != nil || len(out) != len(txns) {
			t.b.Count("wire_duplicate_sets_not_decodable(not judged here)", 1)
			return
		}
		acc := true
		for _, txn := range out {
			acc = acc && t.r1(cs, txn)
		}
		t.expect(kind, "none/same-live-parent-in-several-transactions-through-the-wire-form", true, "ValidateTransactionElements", acc)
		t.b.Count("wire_duplicate_sets_tried", 1)
		if depth >= 2 {
			t.b.Count("wire_duplicate_sets_tried_with_proofs_of_two_or_more_hashes", 1)
		}
	}
	if scs := s.OrderedSC(); len(scs) > 0 {
		e := s.SCEs[scs[t.rng.IntN(len(scs))]]
		try("siacoin", []types.V2Transaction{wrapSC(e.Copy()), wrapSC(e.Copy()), wrapSC(e.Copy())}, len(e.StateElement.MerkleProof))
	}
	if !haveHost {
		return
	}
	try("v2filecontract", []types.V2Transaction{wrapV2FCrev(host.Copy()), wrapV2FCres(host.Copy())}, len(host.StateElement.MerkleProof))
	hh := uint64(t.rng.IntN(int(cs.Index.Height) + 1))
	if ci, ok := s.CIEs[hh]; ok {
		try("chainindex", []types.V2Transaction{wrapCI(host.Copy(), ci.Copy()), wrapCI(host.Copy(), ci.Copy())}, len(ci.StateElement.MerkleProof))
	}
}

func (t *tester) sample(cs consensus.State) {
	s := t.c.S
	per := 2
	scs := s.OrderedSC()
	for k := 0; k < per && len(scs) > 0; k++ {
		e := s.SCEs[scs[t.rng.IntN(len(scs))]]
		t.testSC(cs, e.Copy(), t.otherSE(e.StateElement.LeafIndex))
	}
	sfs := s.OrderedSF()
	for k := 0; k < 1 && len(sfs) > 0; k++ {
		e := s.SFEs[sfs[t.rng.IntN(len(sfs))]]
		t.testSF(cs, e.Copy(), t.otherSE(e.StateElement.LeafIndex))
	}
	fcs := s.OrderedFC()
	if len(fcs) > 0 {
		e := s.FCEs[fcs[t.rng.IntN(len(fcs))]]
		t.testFC(cs, e.Copy(), t.otherSE(e.StateElement.LeafIndex))
	}
	v2s := s.OrderedV2FC()
	var host types.V2FileContractElement
	if len(v2s) > 0 {
		e := s.V2FCEs[v2s[t.rng.IntN(len(v2s))]]
		host = e.Copy()
		t.testV2FC(cs, e.Copy(), t.otherSE(e.StateElement.LeafIndex))
		t.wireDuplicates(cs, host, true)
		// chain index (needs a live contract as the carrier of the storage proof)
		hh := uint64(t.rng.IntN(int(cs.Index.Height) + 1))
		if ci, ok := s.CIEs[hh]; ok {
			t.testCI(cs, host, ci.Copy(), t.otherSE(ci.StateElement.LeafIndex))
		}
		// route 2 for chain indices: a complete, honest storage proof of a live contract whose file is known,
		// validated by ValidateV2Transaction with the genuine and with forged history elements. Empty contracts
		// (nothing to prove) are preferred: there only the history proof decides.
		var pick *types.V2FileContractElement
		for _, id := range v2s {
			e := s.V2FCEs[id]
			fc := e.V2FileContract
			data, have := t.c.Files[fc.FileMerkleRoot]
			if _, haveIdx := s.CIEs[fc.ProofHeight]; !have || !haveIdx || uint64(len(data)) != fc.Filesize || fc.ProofHeight > cs.Index.Height {
				continue
			}
			if pick == nil || (fc.Filesize == 0 && pick.V2FileContract.Filesize != 0) {
				ec := e.Copy()
				pick = &ec
			}
		}
		if pick != nil && cs.Index.Height+1 >= t.c.Net.N.HardforkV2.AllowHeight {
			t.testCIProof(cs, *pick, s.CIEs[pick.V2FileContract.ProofHeight].Copy())
			// a second provable contract: its proof rides in the same transaction behind the genuine one and names a
			// history element that reuses the genuine element's ID with another block ID
			for _, id := range v2s {
				e2 := s.V2FCEs[id]
				fc2 := e2.V2FileContract
				data2, have := t.c.Files[fc2.FileMerkleRoot]
				if id == pick.ID || !have || uint64(len(data2)) != fc2.Filesize || fc2.ProofHeight > cs.Index.Height {
					continue
				}
				t.testCIReuse(cs, *pick, s.CIEs[pick.V2FileContract.ProofHeight].Copy(), e2.Copy())
				break
			}
		}
	}

	// spent / resolved elements with their maintained proof must not be members
	for i := range t.spentSC {
		sp := &t.spentSC[i]
		if sp.x.Dead {
			continue
		}
		e := sp.e.Copy()
		e.StateElement = sp.x.SE.Copy()
		t.expect("siacoin", "spent-with-maintained-proof", false, "ValidateTransactionElements", t.r1(cs, wrapSC(e.Copy())))
		if acc, ok := t.r3(cs, func(bs *consensus.V1BlockSupplement) {
			bs.Transactions[0].SiacoinInputs = []types.SiacoinElement{e.Copy()}
		}); ok {
			t.expect("siacoin", "spent-with-maintained-proof", false, "supplement", acc)
		}
		if e.MaturityHeight <= cs.Index.Height+1 {
			if acc, ok := t.r2SC(cs, e.Copy()); ok {
				t.expect("siacoin", "spent-with-maintained-proof", false, "ValidateV2Transaction", acc)
			}
		}
	}
	for i := range t.spentSF {
		sp := &t.spentSF[i]
		if sp.x.Dead {
			continue
		}
		e := sp.e.Copy()
		e.StateElement = sp.x.SE.Copy()
		t.expect("siafund", "spent-with-maintained-proof", false, "ValidateTransactionElements", t.r1(cs, wrapSF(e.Copy())))
		if acc, ok := t.r2SF(cs, e.Copy()); ok {
			t.expect("siafund", "spent-with-maintained-proof", false, "ValidateV2Transaction", acc)
		}
	}
	for i := range t.resolvedV2 {
		sp := &t.resolvedV2[i]
		if sp.x.Dead {
			continue
		}
		e := sp.e.Copy()
		e.StateElement = sp.x.SE.Copy()
		t.expect("v2filecontract", "resolved-with-maintained-proof", false, "ValidateTransactionElements/resolution", t.r1(cs, wrapV2FCres(e.Copy())))
		if acc, ok := t.r2V2FC(cs, e.Copy()); ok {
			t.expect("v2filecontract", "resolved-with-maintained-proof", false, "ValidateV2Transaction/expiration", acc)
		}
	}
	for i := range t.resolvedV1 {
		sp := &t.resolvedV1[i]
		if sp.x.Dead {
			continue
		}
		e := sp.e.Copy()
		e.StateElement = sp.x.SE.Copy()
		for _, r := range []struct {
			name string
			fill func(bs *consensus.V1BlockSupplement)
		}{
			{"supplement-revised", func(bs *consensus.V1BlockSupplement) {
				bs.Transactions[0].RevisedFileContracts = []types.FileContractElement{e.Copy()}
			}},
			{"supplement-storage-proof", func(bs *consensus.V1BlockSupplement) {
				bs.Transactions[0].StorageProofs = []consensus.V1StorageProofSupplement{{FileContract: e.Copy()}}
			}},
			{"supplement-expiring", func(bs *consensus.V1BlockSupplement) {
				bs.ExpiringFileContracts = []types.FileContractElement{e.Copy()}
			}},
		} {
			if acc, ok := t.r3(cs, r.fill); ok {
				t.expect("filecontract", "resolved-with-maintained-proof", false, r.name, acc)
			}
		}
	}
	// elements of reverted branches (with the proof they had there) unless the very same element is live again
	for _, e := range t.revertedSC {
		if live, ok := s.SCEs[e.ID]; ok && live.SiacoinOutput == e.SiacoinOutput && live.MaturityHeight == e.MaturityHeight {
			continue
		}
		t.expect("siacoin", "from-reverted-branch", false, "ValidateTransactionElements", t.r1(cs, wrapSC(e.Copy())))
		if acc, ok := t.r3(cs, func(bs *consensus.V1BlockSupplement) {
			bs.Transactions[0].SiacoinInputs = []types.SiacoinElement{e.Copy()}
		}); ok {
			t.expect("siacoin", "from-reverted-branch", false, "supplement", acc)
		}
	}
	for _, e := range t.revertedSF {
		if live, ok := s.SFEs[e.ID]; ok && live.SiafundOutput == e.SiafundOutput && live.ClaimStart == e.ClaimStart {
			continue
		}
		t.expect("siafund", "from-reverted-branch", false, "ValidateTransactionElements", t.r1(cs, wrapSF(e.Copy())))
	}
	for _, e := range t.revertedCI {
		if live, ok := s.CIEs[e.ChainIndex.Height]; ok && live.ID == e.ID {
			continue
		}
		if len(v2s) > 0 {
			t.expect("chainindex", "from-reverted-branch", false, "ValidateTransactionElements/storage-proof", t.r1(cs, wrapCI(host.Copy(), e.Copy())))
		}
	}
	// genuine element followed by a forged element with the same ID elsewhere in the same supplement
	if len(scs) > 0 {
		e := s.SCEs[scs[t.rng.IntN(len(scs))]]
		forged := e.Copy()
		forged.SiacoinOutput.Value = forged.SiacoinOutput.Value.Add(types.Siacoins(7))
		if acc, ok := t.r3(cs, func(bs *consensus.V1BlockSupplement) {
			bs.Transactions[0].SiacoinInputs = []types.SiacoinElement{e.Copy(), forged.Copy()}
		}); ok {
			t.expect("siacoin", "genuine-then-forged-same-id", false, "supplement", acc)
		}
	}
	if len(sfs) > 0 {
		e := s.SFEs[sfs[t.rng.IntN(len(sfs))]]
		forged := e.Copy()
		forged.SiafundOutput.Value++
		if acc, ok := t.r3(cs, func(bs *consensus.V1BlockSupplement) {
			bs.Transactions[0].SiafundInputs = []types.SiafundElement{e.Copy(), forged.Copy()}
		}); ok {
			t.expect("siafund", "genuine-then-forged-same-id", false, "supplement", acc)
		}
	}
	if len(fcs) > 0 {
		e := s.FCEs[fcs[t.rng.IntN(len(fcs))]]
		forged := e.Copy()
		forged.FileContract.UnlockHash[3] ^= 0x40
		forged2 := e.Copy()
		forged2.FileContract.MissedProofOutputs = append([]types.SiacoinOutput(nil), forged2.FileContract.MissedProofOutputs...)
		if len(forged2.FileContract.MissedProofOutputs) > 0 {
			forged2.FileContract.MissedProofOutputs[0].Address[0] ^= 1
		} else {
			forged2.FileContract.WindowEnd++
		}
		places := []struct {
			name string
			fill func(bs *consensus.V1BlockSupplement)
		}{
			{"revised+revised", func(bs *consensus.V1BlockSupplement) {
				bs.Transactions[0].RevisedFileContracts = []types.FileContractElement{e.Copy(), forged.Copy()}
			}},
			{"revised+storage-proof", func(bs *consensus.V1BlockSupplement) {
				bs.Transactions[0].RevisedFileContracts = []types.FileContractElement{e.Copy()}
				bs.Transactions[0].StorageProofs = []consensus.V1StorageProofSupplement{{FileContract: forged.Copy()}}
			}},
			{"storage-proof+expiring", func(bs *consensus.V1BlockSupplement) {
				bs.Transactions[0].StorageProofs = []consensus.V1StorageProofSupplement{{FileContract: e.Copy()}}
				bs.ExpiringFileContracts = []types.FileContractElement{forged2.Copy()}
			}},
			{"expiring+expiring", func(bs *consensus.V1BlockSupplement) {
				bs.ExpiringFileContracts = []types.FileContractElement{e.Copy(), forged2.Copy()}
			}},
		}
		for _, pl := range places {
			if acc, ok := t.r3(cs, pl.fill); ok {
				t.expect("filecontract", "genuine-then-forged-same-id/"+pl.name, false, "supplement", acc)
			}
		}
	}
	// fabricated element carrying a real element's position and proof
	if len(scs) > 0 {
		real := s.SCEs[scs[t.rng.IntN(len(scs))]]
		fab := types.SiacoinElement{ID: types.SiacoinOutputID{1, 2, 3, byte(t.rng.IntN(256))}, StateElement: real.StateElement.Copy(), SiacoinOutput: types.SiacoinOutput{Value: types.Siacoins(1000000), Address: real.SiacoinOutput.Address}}
		t.expect("siacoin", "fabricated-with-real-proof", false, "ValidateTransactionElements", t.r1(cs, wrapSC(fab.Copy())))
		if acc, ok := t.r2SC(cs, fab.Copy()); ok {
			t.expect("siacoin", "fabricated-with-real-proof", false, "ValidateV2Transaction", acc)
		}
		if acc, ok := t.r3(cs, func(bs *consensus.V1BlockSupplement) {
			bs.Transactions[0].SiacoinInputs = []types.SiacoinElement{fab.Copy()}
		}); ok {
			t.expect("siacoin", "fabricated-with-real-proof", false, "supplement", acc)
		}
	}
}

// ephemeralFabrications appends to an accepted v2 block a spend of an "ephemeral" (in-block) parent that no
// transaction of the block created: a random ID, and the ID of an element of ANOTHER kind created in the block at the
// same position of its diff list (the contents claimed are those of a siacoin output the block really creates).
func (t *tester) ephemeralFabrications(cs consensus.State, orig types.Block, bs consensus.V1BlockSupplement) {
	if orig.V2 == nil {
		return
	}
	_, au := consensus.ApplyBlock(cs, orig, bs, t.c.AncestorTimestamp(cs.Index.Height))
	sces := au.SiacoinElementDiffs()
	type alias struct {
		name string
		id   [32]byte
	}
	h := cs.Index.Height + 1
	// attestation ids in block order
	var attIDs [][32]byte
	for _, txn := range orig.V2.Transactions {
		id := txn.ID()
		for i := range txn.Attestations {
			attIDs = append(attIDs, txn.AttestationID(id, i))
		}
	}
	for j, d := range sces {
		if !d.Created || d.Spent || d.SiacoinElement.MaturityHeight > h || d.SiacoinElement.SiacoinOutput.Value.IsZero() {
			continue
		}
		l := t.c.W.Locks[d.SiacoinElement.SiacoinOutput.Address]
		if l == nil || !l.SpendableV2(cs.Index.Height, chaingen.Median(cs)) {
			continue
		}
		var al []alias
		al = append(al, alias{"never-created-id", [32]byte{0xEE, byte(j), byte(h)}})
		if sf := au.SiafundElementDiffs(); j < len(sf) && sf[j].Created {
			al = append(al, alias{"id-of-siafund-element-at-same-diff-index", sf[j].SiafundElement.ID})
		}
		if fc := au.FileContractElementDiffs(); j < len(fc) && fc[j].Created {
			al = append(al, alias{"id-of-v1-contract-at-same-diff-index", fc[j].FileContractElement.ID})
		}
		if fc := au.V2FileContractElementDiffs(); j < len(fc) && fc[j].Created {
			al = append(al, alias{"id-of-v2-contract-at-same-diff-index", fc[j].V2FileContractElement.ID})
		}
		if j < len(attIDs) {
			al = append(al, alias{"id-of-attestation-at-same-diff-index", attIDs[j]})
		}
		for _, a := range al {
			fab := types.SiacoinElement{ID: a.id, StateElement: types.StateElement{LeafIndex: types.UnassignedLeafIndex}, SiacoinOutput: d.SiacoinElement.SiacoinOutput, MaturityHeight: d.SiacoinElement.MaturityHeight}
			blk := chaingen.CloneBlock(orig)
			blk.V2.Transactions = append(blk.V2.Transactions, t.c.NewV2Spend(cs, fab, l, types.VoidAddress))
			err, _ := t.c.TryVariant(&blk)
			if chaingen.IsSealFailure(err) {
				continue
			}
			want := false
			if h < t.c.Net.N.HardforkV2.EphemeralOutputHeight && a.name != "never-created-id" {
				// below the ephemeral-output height the ID and contents of an in-block parent are not cross-checked (the
				// hardfork's reason for being). The statement makes no exception for it: judged under a key of its own.
				t.expect("ephemeral-siacoin-parent", "fabricated/"+a.name+"/below-the-ephemeral-output-height", want, "ValidateBlock", err == nil)
				t.b.Count("ephemeral_fabrications_tried_in_the_legacy_window", 1)
				continue
			}
			t.expect("ephemeral-siacoin-parent", "fabricated/"+a.name, want, "ValidateBlock", err == nil)
			t.b.Count("ephemeral_fabrications_tried", 1)
		}
		break // one position per block is enough
	}
	// the same for siafund parents: a siafund output created in the block, spent again under the ID of an element of
	// another kind sitting at the same position of its diff list
	sfes := au.SiafundElementDiffs()
	for j, d := range sfes {
		if !d.Created || d.Spent || d.SiafundElement.SiafundOutput.Value == 0 {
			continue
		}
		l := t.c.W.Locks[d.SiafundElement.SiafundOutput.Address]
		if l == nil || !l.SpendableV2(cs.Index.Height, chaingen.Median(cs)) {
			continue
		}
		var al []alias
		al = append(al, alias{"never-created-id", [32]byte{0xED, byte(j), byte(h)}})
		if j < len(sces) && sces[j].Created {
			al = append(al, alias{"id-of-siacoin-element-at-same-diff-index", sces[j].SiacoinElement.ID})
		}
		if fc := au.V2FileContractElementDiffs(); j < len(fc) && fc[j].Created {
			al = append(al, alias{"id-of-v2-contract-at-same-diff-index", fc[j].V2FileContractElement.ID})
		}
		if j < len(attIDs) {
			al = append(al, alias{"id-of-attestation-at-same-diff-index", attIDs[j]})
		}
		for _, a := range al {
			fab := types.SiafundElement{ID: a.id, StateElement: types.StateElement{LeafIndex: types.UnassignedLeafIndex}, SiafundOutput: d.SiafundElement.SiafundOutput, ClaimStart: d.SiafundElement.ClaimStart}
			txn := types.V2Transaction{SiafundInputs: []types.V2SiafundInput{{Parent: fab, ClaimAddress: types.VoidAddress, SatisfiedPolicy: types.SatisfiedPolicy{Policy: l.Policy}}},
				SiafundOutputs: []types.SiafundOutput{{Value: fab.SiafundOutput.Value, Address: types.VoidAddress}}}
			t.c.SignV2(cs, &txn, nil)
			blk := chaingen.CloneBlock(orig)
			blk.V2.Transactions = append(blk.V2.Transactions, txn)
			err, _ := t.c.TryVariant(&blk)
			if chaingen.IsSealFailure(err) {
				continue
			}
			if h < t.c.Net.N.HardforkV2.EphemeralOutputHeight && a.name != "never-created-id" {
				t.expect("ephemeral-siafund-parent", "fabricated/"+a.name+"/below-the-ephemeral-output-height", false, "ValidateBlock", err == nil)
				t.b.Count("ephemeral_fabrications_tried_in_the_legacy_window", 1)
				continue
			}
			t.expect("ephemeral-siafund-parent", "fabricated/"+a.name, false, "ValidateBlock", err == nil)
			t.b.Count("ephemeral_siafund_fabrications_tried", 1)
		}
		break
	}
}

// v2ForgedParentAfterInBlockRevision: an accepted block that revises a v2 contract is extended by a further
// transaction on the same contract whose Parent keeps the genuine ID and state element but carries forged contract
// fields (signed by the contract's own keys, consistent with the forged fields): a second revision, and an
// expiration made possible only by the forged heights. The parent of every transaction must be a member.
func (t *tester) v2ForgedParentAfterInBlockRevision(cs consensus.State, orig types.Block) {
	if orig.V2 == nil {
		return
	}
	h := cs.Index.Height + 1
	done := 0
	for i := range orig.V2.Transactions {
		for _, r := range orig.V2.Transactions[i].FileContractRevisions {
			if done >= 2 {
				return
			}
			later := false
			for j := i + 1; j < len(orig.V2.Transactions); j++ {
				for _, r2 := range orig.V2.Transactions[j].FileContractRevisions {
					later = later || r2.Parent.ID == r.Parent.ID
				}
				for _, r2 := range orig.V2.Transactions[j].FileContractResolutions {
					later = later || r2.Parent.ID == r.Parent.ID
				}
			}
			_, okR := t.c.W.Priv(r.Revision.RenterPublicKey)
			_, okH := t.c.W.Priv(r.Revision.HostPublicKey)
			if later || !okR || !okH || r.Revision.RevisionNumber >= types.MaxRevisionNumber-2 {
				continue
			}
			standing := map[types.FileContractID]types.V2FileContract{r.Parent.ID: r.Revision}
			type forge struct {
				name string
				f    func(x *types.V2FileContract)
			}
			forges := []forge{
				{"renter-output-address", func(x *types.V2FileContract) { x.RenterOutput.Address[2] ^= 8 }},
				{"host-output-value-raised", func(x *types.V2FileContract) { x.HostOutput.Value = x.HostOutput.Value.Add(types.Siacoins(1000)) }},
				{"total-collateral", func(x *types.V2FileContract) { x.TotalCollateral = x.TotalCollateral.Add(types.NewCurrency64(1)) }},
			}
			for _, fg := range forges {
				// (a) a second revision carried by the forged parent
				parent := r.Parent.Copy()
				fg.f(&parent.V2FileContract)
				rev := r.Revision
				rev.RevisionNumber++
				txn := types.V2Transaction{FileContractRevisions: []types.V2FileContractRevision{{Parent: parent, Revision: rev}}}
				t.c.SignV2(cs, &txn, standing)
				blk := chaingen.CloneBlock(orig)
				blk.V2.Transactions = append(blk.V2.Transactions, txn)
				if err, _ := t.c.TryVariant(&blk); !chaingen.IsSealFailure(err) {
					t.expect("v2filecontract", "forged-parent-after-genuine-revision-in-block/"+fg.name, false, "ValidateBlock/second-revision", err == nil)
				}
			}
			// (a') the parent is the pending revision itself - the contract as the block's earlier transaction left
			// it, which no accumulator holds - at the contract's own leaf and at the leaf of an unrelated element
			for _, alt := range []string{"at-the-contracts-own-leaf", "at-the-leaf-of-an-unrelated-element"} {
				parent := r.Parent.Copy()
				parent.V2FileContract = r.Revision
				if alt == "at-the-leaf-of-an-unrelated-element" {
					ids := t.c.S.OrderedSC()
					if len(ids) == 0 {
						continue
					}
					other := t.c.S.SCEs[ids[len(ids)/2]]
					parent.StateElement = other.Copy().StateElement
				}
				rev := r.Revision
				rev.RevisionNumber++
				txn := types.V2Transaction{FileContractRevisions: []types.V2FileContractRevision{{Parent: parent, Revision: rev}}}
				t.c.SignV2(cs, &txn, standing)
				blk := chaingen.CloneBlock(orig)
				blk.V2.Transactions = append(blk.V2.Transactions, txn)
				if err, _ := t.c.TryVariant(&blk); !chaingen.IsSealFailure(err) {
					t.expect("v2filecontract", "pending-revision-as-parent-after-revision-in-block/"+alt, false, "ValidateBlock/second-revision", err == nil)
					t.b.Count("v2_pending_revision_parents_tried", 1)
				}
			}
			// (b) an expiration that only the forged heights allow
			if h > 2 && r.Parent.V2FileContract.ExpirationHeight >= h {
				parent := r.Parent.Copy()
				parent.V2FileContract.ProofHeight, parent.V2FileContract.ExpirationHeight = h-2, h-1
				txn := types.V2Transaction{FileContractResolutions: []types.V2FileContractResolution{{Parent: parent, Resolution: &types.V2FileContractExpiration{}}}}
				blk := chaingen.CloneBlock(orig)
				blk.V2.Transactions = append(blk.V2.Transactions, txn)
				if err, _ := t.c.TryVariant(&blk); !chaingen.IsSealFailure(err) {
					t.expect("v2filecontract", "forged-parent-after-genuine-revision-in-block/heights-lowered", false, "ValidateBlock/expiration", err == nil)
				}
			}
			// (c) a renewal-free payout grab: resolution by expiration of a forged parent whose payout is inflated
			t.b.Count("v2_forged_parent_after_revision_tried", 1)
			done++
		}
	}
}

// v1WindowID: a v1 storage proof is judged against the block at WindowStart-1, whose ID travels in the supplement
// (V1StorageProofSupplement.WindowID). A chain index is accepted as an ancestor only if it is one: the supplement of
// an accepted block with a storage proof is offered again with an ID that no block of the chain has, chosen so that
// it challenges the same leaf (so that nothing but ancestry is at stake).
func (t *tester) v1WindowID(cs consensus.State, orig types.Block, bs consensus.V1BlockSupplement) {
	for i := range bs.Transactions {
		for j, sps := range bs.Transactions[i].StorageProofs {
			fc := sps.FileContract
			if i >= len(orig.Transactions) || j >= len(orig.Transactions[i].StorageProofs) {
				continue
			}
			want := cs.StorageProofLeafIndex(fc.FileContract.Filesize, sps.WindowID, fc.ID)
			var fake types.BlockID
			found := false
			for k := uint64(1); k < 4096 && !found; k++ {
				fake = types.BlockID{0xFA, 0x4E}
				binary.LittleEndian.PutUint64(fake[8:], k)
				found = cs.StorageProofLeafIndex(fc.FileContract.Filesize, fake, fc.ID) == want
			}
			if !found {
				continue
			}
			bs2 := bs
			bs2.Transactions = append([]consensus.V1TransactionSupplement(nil), bs.Transactions...)
			ts := bs2.Transactions[i]
			ts.StorageProofs = append([]consensus.V1StorageProofSupplement(nil), ts.StorageProofs...)
			ts.StorageProofs[j].WindowID = fake
			bs2.Transactions[i] = ts
			err := consensus.ValidateBlock(cs, orig, bs2)
			t.b.Count("v1_window_ids_replaced_by_a_non_ancestor", 1)
			t.expect("chainindex", "v1-supplement-window-id-of-no-block-of-the-chain", false, "ValidateBlock/supplement", err == nil)
			return
		}
	}
}

// v1Fabrications: the same for v1 transactions, whose in-block parents are looked up by ID alone. A siacoin / siafund
// input is appended whose ParentID no transaction created as an element of that kind: a random ID, and the ID of an
// element of another kind sitting at the same position of the block's (v1) diff lists. The unlock conditions are
// those of the siacoin / siafund element at that position, so only membership decides.
func (t *tester) v1Fabrications(cs consensus.State, orig types.Block) {
	h := cs.Index.Height + 1
	if h >= t.c.Net.N.HardforkV2.RequireHeight || len(orig.Transactions) == 0 {
		return
	}
	scs, sfs, fcs := t.c.V1MidDiffs(orig)
	type alias struct {
		name string
		id   [32]byte
	}
	done := 0
	for j, d := range scs {
		e := d.SiacoinElement
		l := t.c.W.Locks[e.SiacoinOutput.Address]
		if l == nil || l.UC == nil || !l.SpendableV1(h) || e.MaturityHeight > h || e.SiacoinOutput.Value.IsZero() || done >= 2 {
			continue
		}
		al := []alias{{"never-created-id", [32]byte{0xEE, byte(j), byte(h)}}}
		if j < len(sfs) {
			al = append(al, alias{"id-of-siafund-element-at-same-diff-index", sfs[j].SiafundElement.ID})
		}
		if j < len(fcs) {
			al = append(al, alias{"id-of-v1-contract-at-same-diff-index", fcs[j].FileContractElement.ID})
		}
		for _, a := range al {
			blk := chaingen.CloneBlock(orig)
			blk.Transactions = append(blk.Transactions, t.c.NewV1Spend(cs, types.SiacoinOutputID(a.id), e.SiacoinOutput.Value, l, types.VoidAddress))
			err, _ := t.c.TryVariant(&blk)
			if chaingen.IsSealFailure(err) {
				continue
			}
			t.expect("v1-in-block-siacoin-parent", "fabricated/"+a.name, false, "ValidateBlock", err == nil)
			t.b.Count("v1_fabrications_tried", 1)
		}
		done++
	}
	done = 0
	for j, d := range sfs {
		e := d.SiafundElement
		l := t.c.W.Locks[e.SiafundOutput.Address]
		if l == nil || l.UC == nil || !l.SpendableV1(h) || e.SiafundOutput.Value == 0 || done >= 2 {
			continue
		}
		al := []alias{{"never-created-id", [32]byte{0xEF, byte(j), byte(h)}}}
		if j < len(scs) {
			al = append(al, alias{"id-of-siacoin-element-at-same-diff-index", scs[j].SiacoinElement.ID})
		}
		if j < len(fcs) {
			al = append(al, alias{"id-of-v1-contract-at-same-diff-index", fcs[j].FileContractElement.ID})
		}
		for _, a := range al {
			blk := chaingen.CloneBlock(orig)
			blk.Transactions = append(blk.Transactions, t.c.NewV1SFSpend(cs, types.SiafundOutputID(a.id), e.SiafundOutput.Value, *l.UC, types.VoidAddress))
			err, _ := t.c.TryVariant(&blk)
			if chaingen.IsSealFailure(err) {
				continue
			}
			t.expect("v1-in-block-siafund-parent", "fabricated/"+a.name, false, "ValidateBlock", err == nil)
			t.b.Count("v1_fabrications_tried", 1)
		}
		done++
	}
}

// wirePool: a transaction pool holds transactions as they came off the wire (a multiproof set: the proofs of all
// parents are rebuilt by the decoder) and keeps their parents' proofs current with every block. A pooled parent that
// is still live stays a member - whatever happened to the proofs of the parents decoded beside it.
func (t *tester) wirePool(ev chaingen.ApplyEvent) {
	s := t.c.S
	for i := range t.pool {
		for k := range t.pool[i].SiacoinInputs {
			ev.AU.UpdateElementProof(&t.pool[i].SiacoinInputs[k].Parent.StateElement)
		}
	}
	for i := range t.pool {
		for k := range t.pool[i].SiacoinInputs {
			p := &t.pool[i].SiacoinInputs[k].Parent
			live, ok := s.SCEs[p.ID]
			if !ok || live.StateElement.LeafIndex != p.StateElement.LeafIndex {
				continue // spent (or re-created elsewhere by a reorg) meanwhile
			}
			t.b.Count("pooled_wire_parents_checked_after_a_block", 1)
			if !t.r1(ev.Next, wrapSC(p.Copy())) {
				t.expect("siacoin", "none/parent-of-a-pooled-wire-transaction-kept-current", true, "ValidateTransactionElements", false)
				t.pool = nil
				return
			}
		}
	}
	if t.poolAge++; len(t.pool) > 0 && t.poolAge < 12 {
		return
	}
	// refill: up to four live outputs from different parts of the accumulator, one transaction each, through the wire
	t.pool, t.poolAge = nil, 0
	ids := s.OrderedSC()
	if len(ids) < 4 {
		return
	}
	var txns []types.V2Transaction
	for _, j := range []int{0, len(ids) / 3, 2 * len(ids) / 3, len(ids) - 1} {
		txns = append(txns, wrapSC(s.SCEs[ids[j]].Copy()))
	}
	var buf bytes.Buffer
	e := types.NewEncoder(&buf)
	ok := true
	func() {
		defer func() {
			if recover() != nil {
				ok = false
			}
		}()
		types.V2TransactionsMultiproof(txns).EncodeTo(e)
	}()
	e.Flush()
	var out types.V2TransactionsMultiproof
	d := types.NewBufDecoder(buf.Bytes())
	if ok {
		out.DecodeFrom(d)
	}
	if ok && d.Err() == nil && len(out) == len(txns) {
		t.pool = out
		t.b.Count("wire_pools_filled", 1)
	}
}

func (t *tester) onApply(ev chaingen.ApplyEvent) {
	t.wirePool(ev)
	h := ev.Next.Index.Height
	// the field values of a v1 contract leaf are those the history created: the payout is fixed at formation (a
	// revision cannot change it and does not even transmit it), so every later report of the contract carries it
	if t.payout == nil {
		t.payout = map[types.FileContractID]types.Currency{}
	}
	for i := range ev.Block.Transactions {
		txn := &ev.Block.Transactions[i]
		for k, fc := range txn.FileContracts {
			t.payout[txn.FileContractID(k)] = fc.Payout
		}
	}
	revs := map[types.FileContractID]int{}
	for i := range ev.Block.Transactions {
		for _, r := range ev.Block.Transactions[i].FileContractRevisions {
			if revs[r.ParentID]++; revs[r.ParentID] == 2 {
				t.b.Count(fmt.Sprintf("v1_contracts_revised_twice_in_a_block/wire=%v", t.c.WireBlocks), 1)
			}
		}
	}
	for _, d := range ev.AU.FileContractElementDiffs() {
		want, ok := t.payout[d.FileContractElement.ID]
		if !ok {
			continue
		}
		t.b.Count("v1_contract_payout_fields_checked", 1)
		got := d.FileContractElement.FileContract.Payout
		if d.Revision != nil && !d.Resolved {
			got = d.Revision.Payout
		}
		if got != want {
			t.b.Violate("C04/element-field-not-from-history/v1-contract-payout", fmt.Sprintf("v1 contract %v was formed with payout %v; the update of height %d reports it (and writes its leaf) with payout %v", d.FileContractElement.ID, want, h, got), map[string]any{"height": h, "kinds": ev.Kinds})
		}
	}
	// remember freshly spent elements (post-block proof is in the diff)
	n := 0
	for _, d := range ev.AU.SiacoinElementDiffs() {
		if d.Spent && !d.Created && n < 1 && len(t.spentSC) < 25 {
			sp := spentSC{e: d.SiacoinElement.Copy(), at: h}
			se := sp.e.StateElement.Copy()
			sp.x = &chaingen.ExtraElem{Tag: "spent", SE: &se}
			t.c.S.Extra = append(t.c.S.Extra, sp.x)
			t.spentSC = append(t.spentSC, sp)
			n++
		}
	}
	n = 0
	for _, d := range ev.AU.SiafundElementDiffs() {
		if d.Spent && !d.Created && n < 1 && len(t.spentSF) < 15 {
			sp := spentSF{e: d.SiafundElement.Copy(), at: h}
			se := sp.e.StateElement.Copy()
			sp.x = &chaingen.ExtraElem{Tag: "spent", SE: &se}
			t.c.S.Extra = append(t.c.S.Extra, sp.x)
			t.spentSF = append(t.spentSF, sp)
			n++
		}
	}
	n = 0
	for _, d := range ev.AU.FileContractElementDiffs() {
		if d.Resolved && !d.Created && n < 1 && len(t.resolvedV1) < 15 {
			e := d.FileContractElement.Copy()
			if d.Revision != nil {
				e.FileContract = *d.Revision
			}
			sp := resolvedV1{e: e, at: h}
			se := e.StateElement.Copy()
			sp.x = &chaingen.ExtraElem{Tag: "resolved-v1", SE: &se}
			t.c.S.Extra = append(t.c.S.Extra, sp.x)
			t.resolvedV1 = append(t.resolvedV1, sp)
			n++
		}
	}
	n = 0
	for _, d := range ev.AU.V2FileContractElementDiffs() {
		if d.Resolution != nil && !d.Created && n < 1 && len(t.resolvedV2) < 15 {
			e := d.V2FileContractElement.Copy()
			if d.Revision != nil {
				e.V2FileContract = *d.Revision
			}
			sp := resolvedV2{e: e, at: h}
			se := e.StateElement.Copy()
			sp.x = &chaingen.ExtraElem{Tag: "resolved", SE: &se}
			t.c.S.Extra = append(t.c.S.Extra, sp.x)
			t.resolvedV2 = append(t.resolvedV2, sp)
			n++
		}
	}
}

func (t *tester) onRevert(ev chaingen.RevertEvent, au *consensus.ApplyUpdate) {
	t.pool = nil // pooled proofs belong to the branch that is being left
	h := ev.Prev.Index.Height
	for i := range t.spentSC {
		if t.spentSC[i].at > h {
			t.spentSC[i].x.Dead = true
		}
	}
	for i := range t.spentSF {
		if t.spentSF[i].at > h {
			t.spentSF[i].x.Dead = true
		}
	}
	for i := range t.resolvedV2 {
		if t.resolvedV2[i].at > h {
			t.resolvedV2[i].x.Dead = true
		}
	}
	for i := range t.resolvedV1 {
		if t.resolvedV1[i].at > h {
			t.resolvedV1[i].x.Dead = true
		}
	}
	// elements the reverted block created, as the revert reports them (with the proof valid on that branch: taken from the store before the revert — see caller)
}

func run(b *harness.B) {
	nNets := b.Pick(3, 8)
	blocks := b.Pick(110, 400)
	for i := 0; i < nNets; i++ {
		fam := chaingen.Families[(b.Batch+i)%len(chaingen.Families)]
		rng := b.SubRng(fmt.Sprint("net", i))
		net := chaingen.GenNet(rng, fam, b.Batch*100+i)
		c := chaingen.NewChain(net, rng)
		c.WireBlocks = i%2 == 1 // every other network receives its blocks from the wire
		t := &tester{b: b, c: c, rng: b.SubRng(fmt.Sprint("tester", i))}
		every := b.Pick(4, 3)
		c.OnStoreApplied = func(ev chaingen.ApplyEvent) {
			if len(ev.Kinds) >= 3 {
				b.Sample(chaingen.DescribeBlock(ev.Prev, ev.Block, ev.Kinds))
			}
			t.onApply(ev)
			b.Count("blocks_applied", 1)
			b.SetAdd("eras", chaingen.Era(net.N, ev.Next.Index.Height))
			if int(ev.Next.Index.Height)%every == 0 {
				t.sample(ev.Next)
			}
		}
		c.OnAccepted = func(cs consensus.State, orig types.Block, bs consensus.V1BlockSupplement, kinds []string) {
			t.ephemeralFabrications(cs, orig, bs)
			t.v1Fabrications(cs, orig)
			t.v2ForgedParentAfterInBlockRevision(cs, orig)
			t.v1WindowID(cs, orig, bs)
		}
		c.OnRevert = func(ev chaingen.RevertEvent) {
			// before the store processes the revert: elements created by the block being reverted, with their proofs valid on that branch
			cnt := 0
			for _, d := range ev.RU.SiacoinElementDiffs() {
				if d.Created && !d.Spent && cnt < 2 && len(t.revertedSC) < 30 {
					if e, ok := c.S.SCEs[d.SiacoinElement.ID]; ok {
						t.revertedSC = append(t.revertedSC, e.Copy())
						cnt++
					}
				}
			}
			for _, d := range ev.RU.SiafundElementDiffs() {
				if d.Created && !d.Spent && len(t.revertedSF) < 10 {
					if e, ok := c.S.SFEs[d.SiafundElement.ID]; ok {
						t.revertedSF = append(t.revertedSF, e.Copy())
					}
				}
			}
			if e, ok := c.S.CIEs[ev.Reverted.Index.Height]; ok && len(t.revertedCI) < 20 {
				t.revertedCI = append(t.revertedCI, e.Copy())
			}
		}
		c.OnStoreReverted = func(ev chaingen.RevertEvent) {
			t.onRevert(ev, nil)
			b.Count("blocks_reverted", 1)
			t.sample(ev.Prev)
		}
		for done := 0; done < blocks; {
			plan := chaingen.Plan{MaxTxns: 6}
			if c.WireBlocks {
				// contracts formed and revised again and again (several times per block): the fields of a contract
				// leaf must survive revisions whose payout field arrives as the not-transmitted sentinel
				plan.Weights = map[string]int{"v1-form": 3, "v1-revise": 8, "v1-form+revise": 3}
			}
			done += c.Grow(1+rng.IntN(10), plan)
			if c.Height() > 2 && rng.IntN(3) == 0 {
				k := min(1+rng.IntN(4), int(c.Height()))
				for r := 0; r < k; r++ {
					c.RevertTip()
				}
			}
		}
		if i == 0 {
			b.Sample(map[string]any{"network": net.Name, "family": fam, "height": c.Height(), "spent_tracked": len(t.spentSC), "reverted_branch_elements": len(t.revertedSC) + len(t.revertedSF) + len(t.revertedCI)})
		}
	}
}

func main() {
	harness.Main(harness.Spec{
		ID:     "C04",
		Rule:   "chaingen histories (five families, reorgs); every few blocks and after every revert a sample of live elements of each kind (siacoin, siafund, v1 contract, v2 contract, chain index) is presented through the three membership routes, together with every single-field mutation of the element's contents, leaf index and proof (each proof hash position class, shortened, lengthened, another element's proof / position), spent or resolved elements with their maintained proof, elements remembered from reverted branches and fabricated elements. distinct = (element kind, mutation, route).",
		Assume: []string{"the supplement route uses a sealed carrier block with one arbitrary-data transaction; a rejection counts only when the error is the supplement check's", "ValidateV2Transaction route rebuilds and re-signs a spend around the claimed element so that membership is the only fault"},
		Batches: func(t string) int {
			if t == "quick" {
				return 16
			}
			return 48
		},
		Run:         run,
		MinEvals:    5000,
		MinDistinct: 150,
		Require:     []string{"v1_window_ids_replaced_by_a_non_ancestor", "blocks_applied", "blocks_reverted", "live_elements_accepted", "non_members_rejected", "v2_pending_revision_parents_tried", "supplement_expiring_probes_on_a_v2_only_carrier", "wire_duplicate_sets_tried_with_proofs_of_two_or_more_hashes", "pooled_wire_parents_checked_after_a_block"},
	})
}
