package main

import (
	"fmt"
	"math/big"

	"verif/internal/chaingen"
	"verif/internal/chainmon"
	"verif/internal/harness"
)

// rewardSchedule: the scheduled subsidy max(Initial - height SC, Minimum) at heights no generated history reaches
// (around every multiple of 2^32, powers of two, the largest heights), read from State.BlockReward() of a state placed
// at that height and, at a sample, through ValidateBlock of an empty block paying exactly the scheduled reward. The
// schedule never rises with the height.
func rewardSchedule(b *harness.B) {
	rng := b.SubRng("reward-schedule")
	for i, fam := range []string{"compressed", "v2genesis", "testnet"} {
		net := chaingen.GenNet(rng, fam, 900+i)
		c := chaingen.NewChain(net, rng)
		base := c.Tip()
		var heights []uint64
		for _, k := range []uint64{1, 2, 3, 1 << 8, 1 << 31} {
			for d := int64(-3); d <= 3; d++ {
				heights = append(heights, k<<32+uint64(d))
			}
		}
		for sh := uint(20); sh < 64; sh += 3 {
			heights = append(heights, 1<<sh-1, 1<<sh, 1<<sh+1)
		}
		heights = append(heights, 1<<64-3, 1<<64-2)
		for j := 0; j < 200; j++ {
			heights = append(heights, rng.Uint64()>>uint(rng.IntN(40)))
		}
		var prev *big.Int
		var prevH uint64
		for _, child := range heights {
			if child == 0 {
				continue
			}
			cs := base
			cs.Index.Height = child - 1
			want := chainmon.Reward(net.N, child)
			got := cs.BlockReward().Big()
			b.Eval(1)
			b.Count("reward_schedule_heights_checked", 1)
			b.Distinct("reward-schedule", fam, child>>32 > 0, got.Cmp(want) == 0)
			if got.Cmp(want) != 0 {
				b.Violate("C01/reward-schedule/differs-from-max(initial-height,minimum)", fmt.Sprintf("network %s (initial %v, minimum %v): the block reward at height %d is %v H, the schedule gives %v H", net.Name, net.N.InitialCoinbase, net.N.MinimumCoinbase, child, got, want), map[string]any{"height": child, "network": net.Name})
				break
			}
			if prev != nil && ((child > prevH && got.Cmp(prev) > 0) || (child < prevH && got.Cmp(prev) < 0)) {
				b.Violate("C01/reward-schedule/rises-with-the-height", fmt.Sprintf("the block reward at height %d (%v H) and at height %d (%v H): the subsidy rose with the height", prevH, prev, child, got), nil)
				break
			}
			prev, prevH = got, child
		}
	}
}
