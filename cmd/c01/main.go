// C01 — no value is created or destroyed; siafund count constant; claims exact.
//
// Monitor: the integer ledger (internal/chainmon.Ledger) is fed only by what the
// library reports for every accepted block of generated histories and checks,
// after every block and every revert, the balance-sheet identity, the siafund
// count, every claim output against the share formula (pool value replayed
// inside the block), tax revenue against the tax definition, and miner payouts
// against reward + fees; the client store's totals are cross-checked with it.
package main

import (
	"fmt"

	"verif/internal/chaingen"
	"verif/internal/chainmon"
	"verif/internal/harness"
)

func run(b *harness.B) {
	nNets := b.Pick(3, 10)
	blocks := b.Pick(150, 600)
	for i := 0; i < nNets; i++ {
		fam := chaingen.Families[(b.Batch+i)%len(chaingen.Families)]
		if b.Batch == 0 && i == 0 {
			fam = "legacywin" // directed: long pre-fix window with contracts being revised and expired
		}
		rng := b.SubRng(fmt.Sprint("net", i))
		net := chaingen.GenNet(rng, fam, b.Batch*100+i)
		c := chaingen.NewChain(net, rng)
		c.NoLegacyEphemeralSF = true // outside the claim (see the property's quantifier)
		led := chainmon.NewLedger("C01", b, net.N)
		led.OnApply(c.GenesisEvent)
		led.CompareStore(c.S, "after-genesis")
		c.OnStoreApplied = func(ev chaingen.ApplyEvent) {
			led.OnApply(ev)
			led.CompareStore(c.S, "after-apply")
			b.Eval(1)
			b.Count("blocks_applied", 1)
			era := chaingen.Era(net.N, ev.Next.Index.Height)
			b.SetAdd("eras", era)
			shape := ""
			for _, k := range ev.Kinds {
				b.SetAdd("kinds", k)
				shape += k + ","
			}
			b.Distinct(era, shape)
		}
		c.OnStoreReverted = func(ev chaingen.RevertEvent) {
			led.OnRevert(ev)
			led.CompareStore(c.S, "after-revert")
			b.Eval(1)
			b.Count("blocks_reverted", 1)
		}
		// weights: emphasise everything that moves value between the ledger's accounts
		w := map[string]int{"v1-arb": 1, "v2-arb": 1, "v2-attest": 1, "v1-sf": 4, "v2-sf": 4, "v1-form": 4, "v2-form": 4, "v2-renew": 4, "v2-expire": 4, "v2-proof": 3, "v1-proof": 3}
		if fam == "legacywin" {
			w = map[string]int{"v2-form": 6, "v2-revise": 8, "v2-expire": 8, "v2-pay": 2, "v2-arb": 0, "v2-attest": 0, "v2-renew": 1, "v2-proof": 1, "v2-sf": 1, "v2-eph": 1, "v2-foundation": 0, "v2-revise+resolve": 0}
		}
		for done := 0; done < blocks; {
			done += c.Grow(1+rng.IntN(12), chaingen.Plan{MaxTxns: 7, Weights: w, TimeMode: []string{"schedule", "jitter"}[rng.IntN(2)]})
			if c.Height() > 2 && rng.IntN(4) == 0 {
				k := min(1+rng.IntN(5), int(c.Height()))
				for r := 0; r < k; r++ {
					c.RevertTip()
				}
			}
		}
		for k, v := range c.Stats {
			if len(k) > 12 && k[:12] == "gen_rejected" {
				b.Count("generator_library_disagreement:"+k, v)
			}
			if k == "legacy_ephemeral_siafund_spend" {
				b.Count(k, v)
			}
		}
		if i == 0 {
			b.Sample(map[string]any{"network": net.Name, "family": fam, "height": c.Height(), "unspent": led.Unspent.String(), "locked_v1": led.LockedV1.String(), "locked_v2": led.LockedV2.String(),
				"claims_paid": led.ClaimsPaid.String(), "forfeited": led.Forfeited.String(), "issued": led.Issued.String(), "tax_revenue": c.Tip().SiafundTaxRevenue.ExactString()})
		}
		if led.Forfeited.Sign() > 0 {
			b.Count("histories_with_forfeited_value", 1)
		}
	}
}

func main() {
	harness.Main(harness.Spec{
		ID:     "C01",
		Rule:   "chaingen histories (five network families incl. all v1 eras, mixed and v2-only heights; all transaction kinds, weighted towards contracts, siafund transfers, renewals, expirations) with reorgs; the ledger identity, siafund count, claims, tax revenue and miner payouts are checked after every block and every revert. distinct = (era, ordered transaction kinds of the block).",
		Assume: []string{"genesis is taken as the allocation", "ephemeral siafund parents below the ephemeral-output fix height are not judged (documented legacy window); the generator uses honest values there", "math/big is the arithmetic oracle; tax, reward and subsidy schedules are re-implemented from the protocol definition"},
		Batches: func(t string) int {
			if t == "quick" {
				return 16
			}
			return 64
		},
		Run:         run,
		MinEvals:    1000,
		MinDistinct: 200,
		Require:     []string{"blocks_applied", "blocks_reverted", "conservation_identities_checked", "claims_checked_nonzero", "foundation_subsidies", "blocks_with_fees", "store_vs_ledger_comparisons", "histories_with_forfeited_value"},
	})
}
