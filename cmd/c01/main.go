// C01 — no value is created or destroyed; siafund count constant; claims exact.
//
// Monitor: the integer ledger (internal/chainmon.Ledger) is fed only by what the
// library reports for every accepted block of generated histories and checks,
// after every block and every revert, the balance-sheet identity, the siafund
// count, every claim output against the share formula (pool value replayed
// inside the block), tax revenue against the tax definition, and miner payouts
// against reward + fees; the client store's totals are cross-checked with it.
package main

import (
	"fmt"

	"go.sia.tech/core/consensus"
	"go.sia.tech/core/types"

	"verif/internal/chaingen"
	"verif/internal/chainmon"
	"verif/internal/harness"
)

func run(b *harness.B) {
	if b.Batch == 0 {
		rewardSchedule(b)
	}
	nNets := b.Pick(3, 10)
	blocks := b.Pick(150, 600)
	for i := 0; i < nNets; i++ {
		fam := chaingen.Families[(b.Batch+i)%len(chaingen.Families)]
		if b.Batch == 0 && i == 0 {
			fam = "legacywin" // directed: long pre-fix window with contracts being revised and expired
		}
		rng := b.SubRng(fmt.Sprint("net", i))
		net := chaingen.GenNet(rng, fam, b.Batch*100+i)
		prop := "C01"
		if b.Batch == 2 && i == 0 {
			// directed (audit round 2): nothing ties the siafunds allocated by the genesis block to the constant the
			// claims divide by
			net.SFParts = []uint64{1, 999, 1000, 3000, 5000, 10000}
			prop = "C01/genesis-allocating-20000-siafunds"
			b.Count("networks_with_a_genesis_allocating_20000_siafunds", 1)
		}
		c := chaingen.NewChain(net, rng)
		c.NoLegacyEphemeralSF = true // outside the claim (see the property's quantifier)
		led := chainmon.NewLedger(prop, b, net.N)
		led.OnApply(c.GenesisEvent)
		led.CompareStore(c.S, "after-genesis")
		c.OnStoreApplied = func(ev chaingen.ApplyEvent) {
			if len(ev.Kinds) >= 3 {
				b.Sample(chaingen.DescribeBlock(ev.Prev, ev.Block, ev.Kinds))
			}
			led.OnApply(ev)
			led.CompareStore(c.S, "after-apply")
			b.Eval(1)
			b.Count("blocks_applied", 1)
			era := chaingen.Era(net.N, ev.Next.Index.Height)
			b.SetAdd("eras", era)
			shape := ""
			for _, k := range ev.Kinds {
				b.SetAdd("kinds", k)
				shape += k + ","
			}
			b.Distinct(era, shape)
		}
		c.OnStoreReverted = func(ev chaingen.RevertEvent) {
			led.OnRevert(ev)
			led.CompareStore(c.S, "after-revert")
			b.Eval(1)
			b.Count("blocks_reverted", 1)
		}
		// greedy-adversary variants: blocks that would create value if accepted; an accepted one is applied to a
		// copy of the ledger, which then judges it
		c.OnAccepted = func(cs consensus.State, orig types.Block, bs consensus.V1BlockSupplement, kinds []string) {
			if prop == "C01" {
				greedy(b, c, led, cs, orig)
			}
		}
		// a generator block the library refuses is still a template: every value-creating or value-destroying
		// variant of it must be refused too, and an accepted one is judged by the ledger
		c.OnRejected = func(cs consensus.State, orig types.Block, bs consensus.V1BlockSupplement, kinds []string, err error) {
			if prop != "C01" {
				return
			}
			b.Count("greedy_templates_from_rejected_generator_blocks", 1)
			greedy(b, c, led, cs, orig)
		}
		// weights: emphasise everything that moves value between the ledger's accounts
		w := map[string]int{"v1-arb": 1, "v2-arb": 1, "v2-attest": 1, "v1-sf": 4, "v2-sf": 4, "v1-form": 4, "v2-form": 4, "v2-renew": 4, "v2-expire": 4, "v2-proof": 3, "v1-proof": 3}
		if fam == "legacywin" {
			w = map[string]int{"v2-form": 6, "v2-revise": 8, "v2-expire": 8, "v2-pay": 2, "v2-arb": 0, "v2-attest": 0, "v2-renew": 1, "v2-proof": 1, "v2-sf": 1, "v2-eph": 1, "v2-foundation": 0, "v2-revise+resolve": 0}
		}
		for done := 0; done < blocks; {
			step := 1 + rng.IntN(12)
			// the block at exactly the ephemeral-output height is the first one inside the claim: it always carries
			// in-block spends (the templates of the greedy variants about in-block parents)
			if fix := net.N.HardforkV2.EphemeralOutputHeight; fix >= net.N.HardforkV2.AllowHeight && c.Height() < fix && c.Height()+uint64(step) >= fix {
				if c.Height()+1 < fix {
					step = int(fix - c.Height() - 1)
				} else {
					n := c.Grow(1, chaingen.Plan{MaxTxns: 5, Only: []string{"v2-eph", "v2-pay"}})
					done += n
					b.Count("blocks_at_the_ephemeral_output_height_with_in_block_spends", n)
					if n == 0 {
						done += c.Grow(1, chaingen.Plan{MaxTxns: 3})
					}
					continue
				}
			}
			done += c.Grow(step, chaingen.Plan{MaxTxns: 7, Weights: w, TimeMode: []string{"schedule", "jitter"}[rng.IntN(2)]})
			if c.Height() > 2 && rng.IntN(4) == 0 {
				k := min(1+rng.IntN(5), int(c.Height()))
				for r := 0; r < k; r++ {
					c.RevertTip()
				}
			}
		}
		for k, v := range c.Stats {
			if len(k) > 12 && k[:12] == "gen_rejected" {
				b.Count("generator_library_disagreement:"+k, v)
			}
			if k == "legacy_ephemeral_siafund_spend" {
				b.Count(k, v)
			}
		}
		if i == 0 {
			b.Sample(map[string]any{"network": net.Name, "family": fam, "height": c.Height(), "unspent": led.Unspent.String(), "locked_v1": led.LockedV1.String(), "locked_v2": led.LockedV2.String(),
				"claims_paid": led.ClaimsPaid.String(), "forfeited": led.Forfeited.String(), "issued": led.Issued.String(), "tax_revenue": c.Tip().SiafundTaxRevenue.ExactString()})
		}
		if led.Forfeited.Sign() > 0 {
			b.Count("histories_with_forfeited_value", 1)
		}
	}
}

// greedy builds value-creating variants of an accepted block (fully re-signed, re-sealed). Each must be rejected;
// if one is accepted it is applied and the ledger copy reports what it does to the balance sheet.
func greedy(b *harness.B, c *chaingen.Chain, led *chainmon.Ledger, cs consensus.State, orig types.Block) {
	one := types.NewCurrency64(1)
	try := func(name string, blk types.Block) {
		err, vbs := c.TryVariant(&blk)
		if chaingen.IsSealFailure(err) {
			return
		}
		b.Eval(1)
		b.Count("greedy_variants", 1)
		b.Distinct("greedy", name, chaingen.Era(c.Net.N, cs.Index.Height+1))
		if err != nil {
			b.Count("greedy_variants_rejected", 1)
			b.SetAdd("greedy_rejections", name+" => "+chaingen.NormErr(err))
			return
		}
		// accepted: let the ledger judge the effect
		next, au := consensus.ApplyBlock(cs, blk, vbs, c.AncestorTimestamp(cs.Index.Height))
		l2 := led.Clone()
		l2.OnApply(chaingen.ApplyEvent{Prev: cs, Next: next, Block: blk, Supp: vbs, AU: au, Kinds: []string{"greedy:" + name}})
		b.Count("greedy_variants_accepted_and_judged_by_the_ledger", 1)
	}
	for i, t := range orig.V2Transactions() {
		if len(t.SiacoinOutputs) > 0 && len(t.SiacoinInputs) > 0 {
			blk := chaingen.CloneBlock(orig)
			tt := &blk.V2.Transactions[i]
			tt.SiacoinOutputs[0].Value = tt.SiacoinOutputs[0].Value.Add(one)
			blk.V2.Transactions = blk.V2.Transactions[:i+1]
			c.SignV2(cs, tt, nil)
			try("v2-output-exceeds-inputs-by-one-hasting", blk)
		}
		if len(t.FileContractRevisions) > 0 {
			r := t.FileContractRevisions[0]
			if !r.Revision.MissedHostValue.IsZero() && r.Revision.MissedHostValue.Cmp(r.Revision.TotalCollateral) >= 0 {
				// move host value to the renter until the host value is just below the missed host value
				blk := chaingen.CloneBlock(orig)
				tt := &blk.V2.Transactions[i]
				rev := &tt.FileContractRevisions[0].Revision
				sum := rev.RenterOutput.Value.Add(rev.HostOutput.Value)
				rev.HostOutput.Value = rev.MissedHostValue.Sub(one)
				if rev.HostOutput.Value.Cmp(rev.TotalCollateral) >= 0 || true {
					rev.RenterOutput.Value = sum.Sub(rev.HostOutput.Value)
					blk.V2.Transactions = blk.V2.Transactions[:i+1]
					c.SignV2(cs, tt, nil)
					try("v2-revision-host-value-below-missed-host-value", blk)
				}
			}
		}
		if len(t.FileContracts) > 0 && len(t.SiacoinOutputs) > 0 {
			// contract value raised by one without funding it
			blk := chaingen.CloneBlock(orig)
			tt := &blk.V2.Transactions[i]
			tt.FileContracts[0].RenterOutput.Value = tt.FileContracts[0].RenterOutput.Value.Add(types.NewCurrency64(25))
			blk.V2.Transactions = blk.V2.Transactions[:i+1]
			c.SignV2(cs, tt, nil)
			try("v2-contract-value-raised-without-funding", blk)
		}
		if len(t.FileContracts) > 0 && len(t.SiacoinOutputs) > 0 {
			// two contracts in one transaction, each worth 13 hastings more than a multiple of 25 (the tax rounds down
			// per contract: 2 x floor(v/25), one hasting less than floor(2v/25)); the transaction pays one hasting
			// MORE than contracts + taxes + fee: that hasting would belong to nobody
			blk := chaingen.CloneBlock(orig)
			tt := &blk.V2.Transactions[i]
			fc := &tt.FileContracts[0]
			v0 := fc.RenterOutput.Value.Add(fc.HostOutput.Value)
			rem := v0.Sub(v0.Div64(25).Mul64(25))
			bump := (13 + 25 - rem.Lo%25) % 25
			fc.RenterOutput.Value = fc.RenterOutput.Value.Add(types.NewCurrency64(bump))
			second := *fc
			second.RevisionNumber++
			tt.FileContracts = append(tt.FileContracts, second)
			cost := func(x types.V2FileContract) types.Currency {
				return x.RenterOutput.Value.Add(x.HostOutput.Value).Add(cs.V2FileContractTax(x))
			}
			extra := cost(second).Add(types.NewCurrency64(bump)).Add(cs.V2FileContractTax(*fc).Sub(cs.V2FileContractTax(t.FileContracts[0]))).Add(one)
			if tt.SiacoinOutputs[0].Value.Cmp(extra) > 0 {
				tt.SiacoinOutputs[0].Value = tt.SiacoinOutputs[0].Value.Sub(extra)
				blk.V2.Transactions = blk.V2.Transactions[:i+1]
				c.SignV2(cs, tt, nil)
				try("v2-two-contracts-in-one-transaction-overpaid-by-one-hasting", blk)
				b.Count("two_contract_transactions_tried", 1)
			}
		}
		for k := range t.FileContractResolutions {
			if _, ok := t.FileContractResolutions[k].Resolution.(*types.V2FileContractRenewal); ok {
				blk := chaingen.CloneBlock(orig)
				tt := &blk.V2.Transactions[i]
				ren := tt.FileContractResolutions[k].Resolution.(*types.V2FileContractRenewal)
				ren.FinalRenterOutput.Value = ren.FinalRenterOutput.Value.Add(one)
				blk.V2.Transactions = blk.V2.Transactions[:i+1]
				c.SignV2(cs, tt, nil)
				try("v2-renewal-final-outputs-plus-rollover-exceed-contract-value", blk)
				blk2 := chaingen.CloneBlock(orig)
				t2 := &blk2.V2.Transactions[i]
				ren2 := t2.FileContractResolutions[k].Resolution.(*types.V2FileContractRenewal)
				if !ren2.FinalRenterOutput.Value.IsZero() {
					// shift one hasting from the final output into the rollover AND add an output of one hasting: total spent grows
					ren2.FinalRenterOutput.Value = ren2.FinalRenterOutput.Value.Sub(one)
					ren2.RenterRollover = ren2.RenterRollover.Add(one).Add(one)
					blk2.V2.Transactions = blk2.V2.Transactions[:i+1]
					c.SignV2(cs, t2, nil)
					try("v2-renewal-rollover-inflated", blk2)
				}
				break
			}
		}
	}
	// the same parent listed twice in one transaction, its value paid out twice (every lock kind the wallet knows,
	// including conditions that need no signature)
	for i, t := range orig.Transactions {
		if len(t.SiacoinInputs) > 0 && len(t.StorageProofs) == 0 {
			if e, ok := c.S.SCEs[t.SiacoinInputs[0].ParentID]; ok && !e.SiacoinOutput.Value.IsZero() {
				blk := chaingen.CloneBlock(orig)
				tt := &blk.Transactions[i]
				tt.SiacoinInputs = append(tt.SiacoinInputs, tt.SiacoinInputs[0])
				tt.SiacoinOutputs = append(tt.SiacoinOutputs, types.SiacoinOutput{Value: e.SiacoinOutput.Value, Address: types.VoidAddress})
				blk.Transactions = blk.Transactions[:i+1]
				if blk.V2 != nil {
					blk.V2.Transactions = nil
				}
				c.SignV1(cs, tt, nil)
				kind := "signed"
				if t.SiacoinInputs[0].UnlockConditions.SignaturesRequired == 0 {
					kind = "no-signature-required"
				}
				try("v1-parent-listed-twice-value-paid-twice/"+kind, blk)
			}
		}
	}
	for i, t := range orig.V2Transactions() {
		if len(t.SiacoinInputs) > 0 && !t.SiacoinInputs[0].Parent.SiacoinOutput.Value.IsZero() {
			blk := chaingen.CloneBlock(orig)
			tt := &blk.V2.Transactions[i]
			tt.SiacoinInputs = append(tt.SiacoinInputs, chaingen.CloneV2(t).SiacoinInputs[0])
			tt.SiacoinOutputs = append(tt.SiacoinOutputs, types.SiacoinOutput{Value: t.SiacoinInputs[0].Parent.SiacoinOutput.Value, Address: types.VoidAddress})
			blk.V2.Transactions = blk.V2.Transactions[:i+1]
			c.SignV2(cs, tt, nil)
			try("v2-parent-listed-twice-value-paid-twice", blk)
			// an in-block output spent once more under the ID of an attestation the block is made to carry
			// (from the ephemeral-output height on: below it in-block parents are outside the claim)
			if in := t.SiacoinInputs[0]; in.Parent.StateElement.LeafIndex == types.UnassignedLeafIndex && cs.Index.Height+1 >= c.Net.N.HardforkV2.EphemeralOutputHeight {
				b2 := chaingen.CloneBlock(orig)
				key := c.W.Keys[0]
				att := types.V2Transaction{}
				for k := 0; k < 4; k++ {
					att.Attestations = append(att.Attestations, types.Attestation{PublicKey: key.PublicKey(), Key: fmt.Sprint("k", k), Value: []byte{byte(k)}})
				}
				c.SignV2(cs, &att, nil)
				b2.V2.Transactions = append([]types.V2Transaction{att}, b2.V2.Transactions[:i+1]...)
				aid := att.ID()
				if l := c.W.Locks[in.Parent.SiacoinOutput.Address]; l != nil {
					for k := 0; k < 4; k++ {
						alias := in.Parent.Copy()
						alias.ID = types.SiacoinOutputID(att.AttestationID(aid, k))
						b3 := chaingen.CloneBlock(b2)
						b3.V2.Transactions = append(b3.V2.Transactions, c.NewV2Spend(cs, alias, l, types.VoidAddress))
						try("v2-in-block-output-spent-again-under-an-attestation-id", b3)
					}
				}
			}
			break
		}
	}
	// an in-block parent whose claimed value is larger than the value of the output the block created, the surplus
	// paid out (from the ephemeral-output height on: below it such parents are outside the claim)
	if cs.Index.Height+1 >= c.Net.N.HardforkV2.EphemeralOutputHeight {
	eph:
		for i, t := range orig.V2Transactions() {
			for k, in := range t.SiacoinInputs {
				if in.Parent.StateElement.LeafIndex != types.UnassignedLeafIndex {
					continue
				}
				b4 := chaingen.CloneBlock(orig)
				t4 := &b4.V2.Transactions[i]
				t4.SiacoinInputs[k].Parent.SiacoinOutput.Value = t4.SiacoinInputs[k].Parent.SiacoinOutput.Value.Add(types.Siacoins(1000))
				t4.SiacoinOutputs = append(t4.SiacoinOutputs, types.SiacoinOutput{Value: types.Siacoins(1000), Address: types.VoidAddress})
				b4.V2.Transactions = b4.V2.Transactions[:i+1]
				c.SignV2(cs, t4, nil)
				try("v2-in-block-parent-claims-more-than-the-output-holds", b4)
				break eph
			}
		}
	}
	// siafund outputs whose 64-bit sum wraps around to the input sum (two extra outputs of 2^63 each)
	for i, t := range orig.V2Transactions() {
		if len(t.SiafundInputs) > 0 && len(t.SiafundOutputs) > 0 {
			blk := chaingen.CloneBlock(orig)
			tt := &blk.V2.Transactions[i]
			tt.SiafundOutputs = append(tt.SiafundOutputs, types.SiafundOutput{Value: 1 << 63, Address: types.VoidAddress}, types.SiafundOutput{Value: 1 << 63, Address: types.VoidAddress})
			blk.V2.Transactions = blk.V2.Transactions[:i+1]
			c.SignV2(cs, tt, nil)
			try("v2-siafund-outputs-wrap-around-2^64", blk)
			break
		}
	}
	for i, t := range orig.Transactions {
		if len(t.SiafundInputs) > 0 && len(t.SiafundOutputs) > 0 {
			blk := chaingen.CloneBlock(orig)
			tt := &blk.Transactions[i]
			tt.SiafundOutputs = append(tt.SiafundOutputs, types.SiafundOutput{Value: 1 << 63, Address: types.VoidAddress}, types.SiafundOutput{Value: 1 << 63, Address: types.VoidAddress})
			blk.Transactions = blk.Transactions[:i+1]
			if blk.V2 != nil {
				blk.V2.Transactions = nil
			}
			c.SignV1(cs, tt, nil)
			try("v1-siafund-outputs-wrap-around-2^64", blk)
			break
		}
	}
	// miner payout that differs from reward + fees: sealed honestly, then the payout is changed and the block re-mined
	payout := func(name string, change func(total types.Currency) (types.Currency, bool)) {
		blk := chaingen.CloneBlock(orig)
		miner := types.VoidAddress
		if len(blk.MinerPayouts) > 0 {
			miner = blk.MinerPayouts[0].Address
		}
		if c.Seal(cs, &blk, miner, 1, nil) != nil {
			return
		}
		v, ok := change(blk.MinerPayouts[0].Value)
		if !ok {
			return
		}
		blk.MinerPayouts[0].Value = v
		if chaingen.Mine(cs, &blk) != nil {
			return
		}
		bs := c.SupplementFor(blk)
		err := consensus.ValidateBlock(cs, blk, bs)
		b.Eval(1)
		b.Count("greedy_variants", 1)
		b.Distinct("greedy", name, chaingen.Era(c.Net.N, cs.Index.Height+1))
		if err != nil {
			b.Count("greedy_variants_rejected", 1)
			b.SetAdd("greedy_rejections", name+" => "+chaingen.NormErr(err))
			return
		}
		next, au := consensus.ApplyBlock(cs, blk, bs, c.AncestorTimestamp(cs.Index.Height))
		l2 := led.Clone()
		l2.OnApply(chaingen.ApplyEvent{Prev: cs, Next: next, Block: blk, Supp: bs, AU: au, Kinds: []string{"greedy:" + name}})
		b.Count("greedy_variants_accepted_and_judged_by_the_ledger", 1)
	}
	var v1Fees, v2Fees types.Currency
	for _, t := range orig.Transactions {
		for _, f := range t.MinerFees {
			v1Fees = v1Fees.Add(f)
		}
	}
	for _, t := range orig.V2Transactions() {
		v2Fees = v2Fees.Add(t.MinerFee)
	}
	payout("miner-payout-exceeds-reward-plus-fees-by-one-hasting", func(t types.Currency) (types.Currency, bool) { return t.Add(one), true })
	payout("miner-payout-below-reward-plus-fees-by-one-hasting", func(t types.Currency) (types.Currency, bool) { return t.Sub(one), true })
	if !v1Fees.IsZero() {
		name := "miner-payout-omits-v1-fees/v1-block"
		if orig.V2 != nil {
			name = "miner-payout-omits-v1-fees/v2-block"
		}
		payout(name, func(t types.Currency) (types.Currency, bool) { return t.Sub(v1Fees), true })
	}
	if !v2Fees.IsZero() {
		payout("miner-payout-omits-v2-fees", func(t types.Currency) (types.Currency, bool) { return t.Sub(v2Fees), true })
	}
	for i, t := range orig.Transactions {
		if len(t.SiacoinOutputs) > 0 && len(t.SiacoinInputs) > 0 && len(t.StorageProofs) == 0 {
			blk := chaingen.CloneBlock(orig)
			tt := &blk.Transactions[i]
			tt.SiacoinOutputs[0].Value = tt.SiacoinOutputs[0].Value.Add(one)
			blk.Transactions = blk.Transactions[:i+1]
			if blk.V2 != nil {
				blk.V2.Transactions = nil
			}
			c.SignV1(cs, tt, nil)
			try("v1-output-exceeds-inputs-by-one-hasting", blk)
		}
		if len(t.FileContractRevisions) > 0 {
			// a revision pays out what the contract holds - the sums its parent pays out - whatever tax rule is in force
			// when it is revised: (a) one tax step more; (b) the sums "payout minus tax" computed with the rule of
			// the revising block, which differs from the parent's sums for a contract formed under the other rule
			r0 := t.FileContractRevisions[0]
			if pe, ok := c.S.FCEs[r0.ParentID]; ok && len(r0.FileContract.ValidProofOutputs) > 0 && len(r0.FileContract.MissedProofOutputs) > 0 {
				var held types.Currency
				for _, o := range pe.FileContract.ValidProofOutputs {
					held = held.Add(o.Value)
				}
				rebased, under := pe.FileContract.Payout.SubWithUnderflow(cs.FileContractTax(pe.FileContract))
				for _, v := range []struct {
					name string
					sum  types.Currency
					skip bool
				}{{"v1-revision-outputs-exceed-what-the-contract-holds", held.Add(types.NewCurrency64(10000)), false},
					{"v1-revision-output-sums-recomputed-with-the-tax-rule-of-the-revising-block", rebased, under || rebased.Equals(held)}} {
					if v.skip {
						continue
					}
					blk := chaingen.CloneBlock(orig)
					tt := &blk.Transactions[i]
					fc := &tt.FileContractRevisions[0].FileContract
					set := func(outs []types.SiacoinOutput) bool {
						var rest types.Currency
						for _, o := range outs[1:] {
							rest = rest.Add(o.Value)
						}
						if v.sum.Cmp(rest) < 0 {
							return false
						}
						outs[0].Value = v.sum.Sub(rest)
						return true
					}
					if !set(fc.ValidProofOutputs) || !set(fc.MissedProofOutputs) {
						continue
					}
					blk.Transactions = blk.Transactions[:i+1]
					if blk.V2 != nil {
						blk.V2.Transactions = nil
					}
					c.SignV1(cs, tt, nil)
					try(v.name, blk)
					if v.name[3:11] == "revision" && v.sum.Equals(rebased) {
						b.Count("v1_revisions_of_contracts_formed_under_the_other_tax_rule", 1)
					}
				}
			}
		}
		if len(t.FileContracts) > 0 {
			blk := chaingen.CloneBlock(orig)
			tt := &blk.Transactions[i]
			fc := &tt.FileContracts[0]
			if len(fc.ValidProofOutputs) > 0 && len(fc.MissedProofOutputs) > 0 {
				// pay out more than payout - tax
				fc.ValidProofOutputs[0].Value = fc.ValidProofOutputs[0].Value.Add(types.NewCurrency64(10000))
				fc.MissedProofOutputs[0].Value = fc.MissedProofOutputs[0].Value.Add(types.NewCurrency64(10000))
				blk.Transactions = blk.Transactions[:i+1]
				if blk.V2 != nil {
					blk.V2.Transactions = nil
				}
				c.SignV1(cs, tt, nil)
				try("v1-contract-outputs-exceed-payout-minus-tax", blk)
			}
		}
	}
}

func main() {
	harness.Main(harness.Spec{
		ID:     "C01",
		Rule:   "chaingen histories (five network families incl. all v1 eras, mixed and v2-only heights; all transaction kinds, weighted towards contracts, siafund transfers, renewals, expirations) with reorgs; the ledger identity, siafund count, claims, tax revenue and miner payouts are checked after every block and every revert. distinct = (era, ordered transaction kinds of the block).",
		Assume: []string{"genesis is taken as the allocation", "ephemeral siafund parents below the ephemeral-output fix height are not judged (documented legacy window); the generator uses honest values there", "math/big is the arithmetic oracle; tax, reward and subsidy schedules are re-implemented from the protocol definition"},
		Batches: func(t string) int {
			if t == "quick" {
				return 16
			}
			return 64
		},
		Run:         run,
		MinEvals:    1000,
		MinDistinct: 200,
		Require:     []string{"networks_with_a_genesis_allocating_20000_siafunds", "blocks_applied", "blocks_reverted", "conservation_identities_checked", "claims_checked_nonzero", "foundation_subsidies", "blocks_with_fees", "store_vs_ledger_comparisons", "histories_with_forfeited_value", "greedy_variants_rejected", "two_contract_transactions_tried", "v1_revisions_of_contracts_formed_under_the_other_tax_rule", "v1_revisions_checked_by_the_ledger", "reward_schedule_heights_checked"},
	})
}
