// C09 — validation and application are deterministic, side-effect free and
// concurrency-safe; copies share no mutable memory.
//
// Batches from the plain binary: purity (deep fingerprints, incl. unexported
// fields, of every input before/after each call), determinism across
// provenance (generator object / multiproof-decoded copy / DeepCopy / JSON
// round trip), stepwise == blockwise validation, copy operations (alias walker
// + scribble test). Batches from the -race binary: many goroutines call the
// same functions on THE SAME memory; each result is compared with the
// sequential result; the race detector watches; an overlap gauge proves the
// calls really overlapped.
package main

import (
	"bytes"
	"encoding/json"
	"fmt"
	"runtime"
	"sort"
	"strings"
	"sync"
	"sync/atomic"
	"time"
	"verif/internal/refmodel"

	"go.sia.tech/core/consensus"
	"go.sia.tech/core/types"
	"verif/internal/chaingen"
	"verif/internal/harness"
	"verif/internal/probe"
)

func enc(v types.EncoderTo) []byte {
	var buf bytes.Buffer
	e := types.NewEncoder(&buf)
	v.EncodeTo(e)
	e.Flush()
	return buf.Bytes()
}

func safelyDo(f func()) (ok bool) {
	defer func() {
		if recover() != nil {
			ok = false
		}
	}()
	f()
	return true
}

func errStr(err error) string {
	if err == nil {
		return "<accepted>"
	}
	return err.Error()
}

type sample struct {
	cs    consensus.State
	b     types.Block
	bs    consensus.V1BlockSupplement
	anc   chaingen.ApplyEvent
	valid bool
	kinds []string
}

type outcome struct {
	verdict  string
	stateEnc []byte
	auJSON   []byte
	ruJSON   []byte
}

// evaluate runs the full validate/apply/revert pipeline on one sample.
func evaluate(cs consensus.State, b types.Block, bs consensus.V1BlockSupplement, c *chaingen.Chain) outcome {
	var o outcome
	err := consensus.ValidateBlock(cs, b, bs)
	// the verdict is accept/reject plus the class of the rejection; which of several equally failing parents a
	// message names first (Go map order in the signature check) is not part of it
	o.verdict = errStr(err)
	if err != nil {
		o.verdict = chaingen.NormErr(err)
	}
	if err == nil {
		next, au := consensus.ApplyBlock(cs, b, bs, c.AncestorTimestamp(cs.Index.Height))
		o.stateEnc = enc(next)
		o.auJSON, _ = json.Marshal(au)
		ru := consensus.RevertBlock(cs, b, bs)
		o.ruJSON, _ = json.Marshal(ru)
	}
	return o
}

func (o outcome) equal(p outcome) string {
	switch {
	case o.verdict != p.verdict:
		return fmt.Sprintf("verdict %q vs %q", o.verdict, p.verdict)
	case !bytes.Equal(o.stateEnc, p.stateEnc):
		return "resulting state encoding differs"
	case !bytes.Equal(o.auJSON, p.auJSON):
		return "ApplyUpdate contents differ"
	case !bytes.Equal(o.ruJSON, p.ruJSON):
		return "RevertUpdate contents differ"
	}
	return ""
}

// ---------------------------------------------------------------- purity

func purity(b *harness.B, c *chaingen.Chain, s sample) {
	in := func() [32]byte { return probe.Fingerprint(&s.cs, &s.b, &s.bs) }
	base := in()
	wit := map[string]any{"height": s.cs.Index.Height + 1, "kinds": s.kinds, "valid": s.valid}
	check := func(fn string, f func()) {
		f()
		b.Eval(1)
		b.Count("purity_calls_checked", 1)
		b.Distinct("purity", fn, s.valid, s.b.V2 != nil, len(s.b.Transactions) > 0)
		if in() != base {
			b.Violate("C09/purity/"+fn+"-modifies-its-inputs", fn+" changed the state, block or supplement passed in (deep fingerprint incl. proofs and unexported fields differs)", wit)
			base = in()
		}
	}
	check("ValidateBlock", func() { consensus.ValidateBlock(s.cs, s.b, s.bs) })
	check("ValidateOrphan", func() { consensus.ValidateOrphan(s.cs, s.b) })
	check("ValidateHeader", func() { consensus.ValidateHeader(s.cs, s.b.Header()) })
	check("Block.ID", func() { s.b.ID() })
	check("Commitment", func() {
		if len(s.b.MinerPayouts) > 0 {
			s.cs.Commitment(s.b.MinerPayouts[0].Address, s.b.Transactions, s.b.V2Transactions())
		}
	})
	check("TransactionWeight", func() {
		for _, t := range s.b.Transactions {
			s.cs.TransactionWeight(t)
		}
		for _, t := range s.b.V2Transactions() {
			s.cs.V2TransactionWeight(t)
		}
	})
	check("IDs-and-sighashes", func() {
		for i := range s.b.Transactions {
			t := &s.b.Transactions[i]
			t.ID()
			t.FullHash()
			t.MerkleLeafHash()
			for _, sg := range t.Signatures {
				if sg.CoveredFields.WholeTransaction {
					s.cs.WholeSigHash(*t, sg.ParentID, sg.PublicKeyIndex, sg.Timelock, nil)
				}
			}
		}
		for i := range s.b.V2Transactions() {
			t := &s.b.V2.Transactions[i]
			t.ID()
			t.FullHash()
			t.MerkleLeafHash()
			s.cs.InputSigHash(*t)
			for _, fc := range t.FileContracts {
				s.cs.ContractSigHash(fc)
			}
			for _, r := range t.FileContractRevisions {
				s.cs.ContractSigHash(r.Revision)
			}
			for _, r := range t.FileContractResolutions {
				if ren, ok := r.Resolution.(*types.V2FileContractRenewal); ok {
					s.cs.RenewalSigHash(*ren)
				}
			}
			for _, a := range t.Attestations {
				s.cs.AttestationSigHash(a)
			}
		}
	})
	check("ValidateTransactionElements", func() {
		for _, t := range s.b.V2Transactions() {
			s.cs.Elements.ValidateTransactionElements(t)
		}
	})
	check("V2Block.EncodeTo(multiproof)", func() {
		if s.valid && s.b.V2 != nil {
			enc(types.V2Block(s.b))
		}
	})
	check("V2Transaction.DeepCopy", func() {
		for i := range s.b.V2Transactions() {
			s.b.V2.Transactions[i].DeepCopy()
		}
	})
	check("json.Marshal(block)", func() { json.Marshal(s.b) })
	// transaction-by-transaction route
	check("MidState-stepwise", func() {
		ms := consensus.NewMidState(s.cs)
		for i, t := range s.b.Transactions {
			if i >= len(s.bs.Transactions) {
				return
			}
			if consensus.ValidateTransaction(ms, t, s.bs.Transactions[i]) != nil {
				return
			}
			ms.ApplyTransaction(t, s.bs.Transactions[i])
		}
		for _, t := range s.b.V2Transactions() {
			if consensus.ValidateV2Transaction(ms, t) != nil {
				return
			}
			ms.ApplyV2Transaction(t)
		}
	})
	if s.valid {
		var au consensus.ApplyUpdate
		var ru consensus.RevertUpdate
		check("ApplyBlock", func() { _, au = consensus.ApplyBlock(s.cs, s.b, s.bs, c.AncestorTimestamp(s.cs.Index.Height)) })
		check("RevertBlock", func() { ru = consensus.RevertBlock(s.cs, s.b, s.bs) })
		// UpdateElementProof may change only its target
		ids := c.S.OrderedSC()
		if len(ids) >= 2 {
			target := c.S.SCEs[ids[0]].Copy()
			other := c.S.SCEs[ids[1]].Copy()
			fau, fru, fo := probe.Fingerprint(&au), probe.Fingerprint(&ru), probe.Fingerprint(&other)
			au.UpdateElementProof(&target.StateElement)
			b.Eval(1)
			if probe.Fingerprint(&au) != fau || probe.Fingerprint(&other) != fo || in() != base {
				b.Violate("C09/purity/ApplyUpdate.UpdateElementProof-changes-more-than-its-target", "UpdateElementProof changed the update, another element or the inputs", wit)
			}
			_ = fru
			b.Count("update_element_proof_purity_checked", 1)
		}
	}
}

// ---------------------------------------------------------------- provenance / stepwise

func provenance(b *harness.B, c *chaingen.Chain, s sample) {
	wit := map[string]any{"height": s.cs.Index.Height + 1, "kinds": s.kinds, "valid": s.valid}
	ref := evaluate(s.cs, s.b, s.bs, c)
	if (ref.verdict == "<accepted>") != s.valid {
		b.Inconclusive("sample validity label disagrees with the library")
		return
	}
	variants := map[string]func() (types.Block, bool){
		"repeated-call": func() (types.Block, bool) { return s.b, true },
		"DeepCopy": func() (types.Block, bool) {
			cp := s.b
			cp.MinerPayouts = append([]types.SiacoinOutput(nil), s.b.MinerPayouts...)
			cp.Transactions = append([]types.Transaction(nil), s.b.Transactions...)
			if s.b.V2 != nil {
				v2 := *s.b.V2
				v2.Transactions = nil
				for i := range s.b.V2.Transactions {
					v2.Transactions = append(v2.Transactions, s.b.V2.Transactions[i].DeepCopy())
				}
				cp.V2 = &v2
			}
			return cp, true
		},
		"binary-codec-copy": func() (types.Block, bool) { return chaingen.CloneBlock(s.b), true },
		"multiproof-decoded": func() (types.Block, bool) {
			if !s.valid || s.b.V2 == nil {
				return types.Block{}, false
			}
			var out types.Block
			d := types.NewBufDecoder(enc(types.V2Block(s.b)))
			(*types.V2Block)(&out).DecodeFrom(d)
			if d.Err() != nil {
				b.Violate("C09/provenance/multiproof-decode-error", "an accepted block does not decode from its own multiproof encoding: "+d.Err().Error(), wit)
				return out, false
			}
			return out, true
		},
		"json-round-trip": func() (types.Block, bool) {
			js, err := json.Marshal(s.b)
			if err != nil {
				return types.Block{}, false
			}
			var out types.Block
			if json.Unmarshal(js, &out) != nil {
				return out, false
			}
			// the JSON form of a v1 revision does not carry the payout (documented sentinel): restore for comparison of behaviour
			return out, true
		},
	}
	// a block built in memory may carry a timestamp with a sub-second part (time.Now()); its ID and wire form know
	// whole seconds only, so it is the same block as its decoded copy and must lead to the same state
	if s.valid {
		sub := chaingen.CloneBlock(s.b)
		sub.Timestamp = sub.Timestamp.Add(750 * time.Millisecond)
		if sub.ID() == s.b.ID() {
			dec := chaingen.CloneBlock(sub)
			dec.Timestamp = time.Unix(sub.Timestamp.Unix(), 0) // what the wire form carries
			a, d := evaluate(s.cs, sub, s.bs, c), evaluate(s.cs, dec, s.bs, c)
			b.Eval(1)
			b.Count("sub_second_timestamp_comparisons", 1)
			if diff := a.equal(d); diff != "" {
				b.Violate("C09/provenance/sub-second-timestamp-vs-decoded-copy", "a block whose in-memory timestamp has a sub-second part and its decode(encode()) copy (same ID, same bytes) give different results: "+diff, wit)
			}
		}
	}
	// the multiproof wire form of a v2 block drops every proof hash that can be recomputed from another element of
	// the block and regenerates it when decoding: a block whose in-memory proofs differ only in such a hash has the
	// same bytes and the same ID, and must get the same verdict from memory as from its own encoding
	if s.valid && s.b.V2 != nil && len(s.b.Transactions) == 0 {
		var origEnc []byte
		if safelyDo(func() { origEnc = enc(types.V2Block(s.b)) }) {
			tries := 0
		search:
			for ti := range s.b.V2.Transactions {
				for ii := range s.b.V2.Transactions[ti].SiacoinInputs {
					for pi := range s.b.V2.Transactions[ti].SiacoinInputs[ii].Parent.StateElement.MerkleProof {
						if tries++; tries > 24 {
							break search
						}
						m := chaingen.CloneBlock(s.b)
						m.V2.Transactions[ti].SiacoinInputs[ii].Parent.StateElement.MerkleProof[pi][7] ^= 0x20
						var mEnc []byte
						if !safelyDo(func() { mEnc = enc(types.V2Block(m)) }) || !bytes.Equal(mEnc, origEnc) {
							continue // the hash is part of the encoding: a different block on the wire
						}
						var dec types.Block
						d := types.NewBufDecoder(mEnc)
						(*types.V2Block)(&dec).DecodeFrom(d)
						if d.Err() != nil {
							continue
						}
						a, g := evaluate(s.cs, m, s.bs, c), evaluate(s.cs, dec, s.bs, c)
						b.Eval(1)
						b.Count("recomputable_proof_hash_comparisons", 1)
						if diff := a.equal(g); diff != "" {
							b.Violate("C09/provenance/multiproof-decoded/in-memory-proof-hash-that-the-encoding-drops", "a block whose in-memory Merkle proofs differ from the genuine ones in a hash the multiproof encoder does not write (same bytes, same ID) and its decode(encode()) copy give different results: "+diff, wit)
						}
						break search
					}
				}
			}
		}
	}
	// the supplement is derived from (parent state, block) by the caller's store; ValidateBlock checks it. A supplement
	// that additionally lists a live v1 contract which does NOT expire at this height must be refused - or else lead
	// to the same state
	if h := s.cs.Index.Height + 1; s.valid && h < c.Net.N.HardforkV2.RequireHeight && c.Tip().Index == s.cs.Index {
		touched := map[types.FileContractID]bool{}
		for _, t := range s.b.Transactions {
			for _, r := range t.FileContractRevisions {
				touched[r.ParentID] = true
			}
			for _, sp := range t.StorageProofs {
				touched[sp.ParentID] = true
			}
		}
		for _, e := range s.bs.ExpiringFileContracts {
			touched[e.ID] = true
		}
		for _, id := range c.S.OrderedFC() {
			fce := c.S.FCEs[id]
			if touched[id] || fce.FileContract.WindowEnd == h {
				continue
			}
			bs2 := s.bs
			bs2.ExpiringFileContracts = append(append([]types.FileContractElement(nil), s.bs.ExpiringFileContracts...), fce.Copy())
			got := evaluate(s.cs, s.b, bs2, c)
			b.Eval(1)
			b.Count("supplement_with_a_contract_not_expiring_comparisons", 1)
			if got.verdict == "<accepted>" {
				if d := ref.equal(got); d != "" {
					b.Violate("C09/provenance/state-depends-on-the-supplement/contract-listed-as-expiring-before-its-window-end",
						fmt.Sprintf("the same block on the same parent state is accepted with the store's supplement and with one that also lists live v1 contract %v (window end %d) as expiring at height %d, and reaches different states: %s", id, fce.FileContract.WindowEnd, h, d), wit)
				}
			}
			break
		}
	}
	// the same set of expiring contracts listed in another order (nothing fixes the order of that list)
	if len(s.bs.ExpiringFileContracts) >= 2 && s.valid {
		bs2 := s.bs
		bs2.ExpiringFileContracts = nil
		for i := len(s.bs.ExpiringFileContracts) - 1; i >= 0; i-- {
			bs2.ExpiringFileContracts = append(bs2.ExpiringFileContracts, s.bs.ExpiringFileContracts[i].Copy())
		}
		got := evaluate(s.cs, s.b, bs2, c)
		b.Eval(1)
		b.Count("supplement_with_the_expiring_contracts_in_another_order_comparisons", 1)
		if got.verdict == "<accepted>" {
			if d := ref.equal(got); d != "" {
				b.Violate("C09/provenance/state-depends-on-the-supplement/expiring-contracts-listed-in-another-order",
					fmt.Sprintf("the same block on the same parent state is accepted with the %d expiring contracts listed in the store's order and in the reverse order, and reaches different states: %s", len(s.bs.ExpiringFileContracts), d), wit)
			}
		}
	}
	// while the chain holds an even number of timestamps their median may fall on a half second: a header stamped
	// between the whole second and the median is the same block as its decoded copy (whole seconds only)
	if med := chaingen.Median(s.cs); s.valid && med.Nanosecond() != 0 {
		sub := chaingen.CloneBlock(s.b)
		sub.Timestamp = med.Truncate(time.Second).Add(700 * time.Millisecond)
		f := s.cs.NonceFactor()
		if f == 0 {
			f = 1
		}
		for i := 0; i < 1<<16 && sub.ID().CmpWork(s.cs.ChildTarget) < 0; i++ {
			sub.Nonce += f
		}
		dec := chaingen.CloneBlock(sub)
		dec.Timestamp = time.Unix(sub.Timestamp.Unix(), 0)
		if sub.ID() == dec.ID() {
			a, d := evaluate(s.cs, sub, s.bs, c), evaluate(s.cs, dec, s.bs, c)
			b.Eval(1)
			b.Count("half_second_median_timestamp_comparisons", 1)
			if diff := a.equal(d); diff != "" {
				b.Violate("C09/provenance/sub-second-timestamp-vs-decoded-copy/header-between-the-whole-second-and-a-half-second-median", "a header stamped 0.7 s into the second of a half-second median and its decode(encode()) copy (same ID, same bytes) give different results: "+diff, wit)
			}
		}
	}
	// the verdict depends on the state passed in, not on which states were looked at before: a v2 block commits to
	// its parent state, so against a state that differs in one field (same chain index) it must be refused, whatever
	// was validated just before - and the original must still be accepted right after
	if s.valid && s.b.V2 != nil {
		alt := s.cs
		alt.SiafundTaxRevenue = alt.SiafundTaxRevenue.Add(types.NewCurrency64(1))
		alt2 := s.cs
		alt2.FoundationSubsidyAddress[5] ^= 0x10
		seq := []struct {
			st   consensus.State
			want bool
		}{{s.cs, true}, {alt, false}, {s.cs, true}, {alt2, false}, {alt, false}, {s.cs, true}}
		for k, q := range seq {
			err := consensus.ValidateBlock(q.st, s.b, s.bs)
			b.Eval(1)
			b.Count("state_identity_comparisons", 1)
			if (err == nil) != q.want {
				b.Violate("C09/provenance/verdict-depends-on-previously-seen-state", fmt.Sprintf("call %d of an alternating sequence over the genuine parent state and two states differing from it in one field (same chain index): accepted=%v, expected %v", k, err == nil, q.want), wit)
				break
			}
		}
	}
	for name, mk := range variants {
		blk, ok := mk()
		if !ok {
			continue
		}
		got := evaluate(s.cs, blk, s.bs, c)
		b.Eval(1)
		b.Count("provenance_comparisons", 1)
		b.Distinct("provenance", name, s.valid, s.b.V2 != nil)
		if d := ref.equal(got); d != "" {
			b.Violate("C09/provenance/"+name, fmt.Sprintf("the same block obtained as %s gives a different result: %s", name, d), wit)
		}
	}
	// proofs kept up to date by a client (transaction pool) across an intervening block: a copy obtained from the
	// multiproof wire form must behave like a copy decoded transaction by transaction
	if s.valid && s.b.V2 != nil && len(s.b.Transactions) == 0 {
		maintained(b, c, s, wit)
	}
	// stepwise == blockwise (for blocks that pass the envelope checks)
	if consensus.ValidateOrphan(s.cs, s.b) == nil {
		ms := consensus.NewMidState(s.cs)
		var stepErr error
		for i, t := range s.b.Transactions {
			if i >= len(s.bs.Transactions) {
				break
			}
			if stepErr = consensus.ValidateTransaction(ms, t, s.bs.Transactions[i]); stepErr != nil {
				break
			}
			ms.ApplyTransaction(t, s.bs.Transactions[i])
		}
		if stepErr == nil {
			for _, t := range s.b.V2Transactions() {
				if stepErr = consensus.ValidateV2Transaction(ms, t); stepErr != nil {
					break
				}
				ms.ApplyV2Transaction(t)
			}
		}
		blockErr := consensus.ValidateBlock(s.cs, s.b, s.bs)
		b.Eval(1)
		b.Count("stepwise_comparisons", 1)
		// the block verdict may additionally fail on supplement / commitment; compare only the transaction part
		blockTxnFail := blockErr != nil && (bytes.Contains([]byte(blockErr.Error()), []byte("transaction")) && bytes.Contains([]byte(blockErr.Error()), []byte("is invalid")))
		if blockErr == nil && stepErr != nil {
			b.Violate("C09/stepwise/block-accepted-but-a-transaction-rejected-stepwise", "ValidateBlock accepts but validating the transactions one by one against the evolving intermediate state rejects: "+stepErr.Error(), wit)
		}
		if blockTxnFail && stepErr == nil {
			b.Violate("C09/stepwise/block-rejected-on-a-transaction-that-passes-stepwise", "ValidateBlock rejects a transaction that passes one-by-one validation: "+blockErr.Error(), wit)
		}
	}
}

// maintained: an empty block is mined on the sample's parent state; the element proofs of two copies of the sample
// block (plain binary copy, multiproof-decoded copy) are updated with that block's ApplyUpdate, element by element
// in transaction order, exactly as a pool would; the copies must stay identical and, re-sealed on the new tip,
// receive the same verdict.
func maintained(b *harness.B, c *chaingen.Chain, s sample, wit map[string]any) {
	eb := types.Block{ParentID: s.cs.Index.ID, Timestamp: s.b.Timestamp, V2: &types.V2BlockData{}}
	if c.Seal(s.cs, &eb, types.VoidAddress, 1, nil) != nil {
		return
	}
	ebs := consensus.V1BlockSupplement{}
	if consensus.ValidateBlock(s.cs, eb, ebs) != nil {
		return
	}
	cs1, au := consensus.ApplyBlock(s.cs, eb, ebs, c.AncestorTimestamp(s.cs.Index.Height))
	plain := chaingen.CloneBlock(s.b)
	var multi types.Block
	d := types.NewBufDecoder(enc(types.V2Block(s.b)))
	(*types.V2Block)(&multi).DecodeFrom(d)
	if d.Err() != nil {
		return // reported by the provenance variant
	}
	update := func(blk *types.Block) {
		up := func(se *types.StateElement) {
			if se.LeafIndex != types.UnassignedLeafIndex {
				au.UpdateElementProof(se)
			}
		}
		for i := range blk.V2.Transactions {
			t := &blk.V2.Transactions[i]
			for k := range t.SiacoinInputs {
				up(&t.SiacoinInputs[k].Parent.StateElement)
			}
			for k := range t.SiafundInputs {
				up(&t.SiafundInputs[k].Parent.StateElement)
			}
			for k := range t.FileContractRevisions {
				up(&t.FileContractRevisions[k].Parent.StateElement)
			}
			for k := range t.FileContractResolutions {
				up(&t.FileContractResolutions[k].Parent.StateElement)
				if sp, ok := t.FileContractResolutions[k].Resolution.(*types.V2StorageProof); ok {
					up(&sp.ProofIndex.StateElement)
				}
			}
		}
	}
	update(&plain)
	update(&multi)
	b.Eval(1)
	b.Count("maintained_proof_comparisons", 1)
	nProofs := 0
	for i := range plain.V2.Transactions {
		nProofs += len(plain.V2.Transactions[i].SiacoinInputs) + len(plain.V2.Transactions[i].SiafundInputs) + len(plain.V2.Transactions[i].FileContractRevisions) + len(plain.V2.Transactions[i].FileContractResolutions)
		if !bytes.Equal(enc(plain.V2.Transactions[i]), enc(multi.V2.Transactions[i])) {
			b.Violate("C09/provenance/multiproof-decoded/maintained-proofs-differ", fmt.Sprintf("after updating every element proof with the next block's ApplyUpdate, transaction %d of the multiproof-decoded copy differs from the plainly decoded copy", i), wit)
			return
		}
	}
	b.Distinct("maintained", min(nProofs, 6), cs1.Elements.NumLeaves&(cs1.Elements.NumLeaves-1) == 0)
	reseal := func(blk types.Block) string {
		blk.ParentID = cs1.Index.ID
		if blk.Timestamp.Before(chaingen.Median(cs1)) {
			blk.Timestamp = chaingen.Median(cs1)
		}
		miner := types.VoidAddress
		if len(blk.MinerPayouts) > 0 {
			miner = blk.MinerPayouts[0].Address
		}
		if c.Seal(cs1, &blk, miner, 1, nil) != nil {
			return "<unsealed>"
		}
		return errStr(consensus.ValidateBlock(cs1, blk, consensus.V1BlockSupplement{}))
	}
	vp, vm := reseal(plain), reseal(multi)
	if vp != vm {
		b.Violate("C09/provenance/multiproof-decoded/maintained-verdict-differs", fmt.Sprintf("one block later, the plainly decoded copy gets %q and the multiproof-decoded copy %q", vp, vm), wit)
	}
	if vp == "<accepted>" {
		b.Count("maintained_copies_accepted_one_block_later", 1)
	}
}

// ancestorProvenance: the timestamp of the ancestor 500 blocks back, which the pre-Oak retarget consumes, is handed
// to ApplyBlock by the caller. Taken from the node's own in-memory copy of that block it may carry a sub-second part,
// taken from a decoded copy (same ID) it does not: the state reached must be the same.
func ancestorProvenance(b *harness.B) {
	n := &consensus.Network{Name: "c09-ancestor", InitialCoinbase: types.Siacoins(300000), MinimumCoinbase: types.Siacoins(30000),
		InitialTarget: types.BlockID{0xFF}, BlockInterval: 10 * time.Minute, MaturityDelay: 3}
	n.HardforkOak.Height, n.HardforkOak.FixHeight = 100000, 100000
	n.HardforkOak.GenesisTimestamp = time.Unix(1700000000, 0).UTC()
	n.HardforkASIC.Height, n.HardforkASIC.OakTime, n.HardforkASIC.OakTarget, n.HardforkASIC.NonceFactor = 100000, 10000*time.Second, n.InitialTarget, 1009
	n.HardforkFoundation.Height = 100000
	n.HardforkV2.AllowHeight, n.HardforkV2.RequireHeight, n.HardforkV2.FinalCutHeight = 200000, 300000, 400000
	t0 := n.HardforkOak.GenesisTimestamp
	g := types.Block{Timestamp: t0}
	cs, _ := consensus.ApplyBlock(n.GenesisState(), g, consensus.V1BlockSupplement{}, time.Time{})
	mk := func(cs consensus.State, ts time.Time) types.Block {
		blk := types.Block{ParentID: cs.Index.ID, Timestamp: ts, MinerPayouts: []types.SiacoinOutput{{Address: types.VoidAddress, Value: cs.BlockReward()}}}
		for i := 0; i < 1<<16 && blk.ID().CmpWork(cs.ChildTarget) < 0; i++ {
			blk.Nonce++
		}
		return blk
	}
	for cs.Index.Height < 499 {
		blk := mk(cs, t0.Add(time.Duration(cs.Index.Height+1)*n.BlockInterval))
		cs, _ = consensus.ApplyBlock(cs, blk, consensus.V1BlockSupplement{}, t0)
	}
	blk := mk(cs, t0.Add(500*n.BlockInterval))
	if consensus.ValidateBlock(cs, blk, consensus.V1BlockSupplement{}) != nil {
		b.Inconclusive("ancestor provenance: block 500 not accepted")
		return
	}
	wire, _ := consensus.ApplyBlock(cs, blk, consensus.V1BlockSupplement{}, t0)
	mem, _ := consensus.ApplyBlock(cs, blk, consensus.V1BlockSupplement{}, t0.Add(900*time.Millisecond))
	b.Eval(1)
	b.Count("ancestor_timestamp_provenance_comparisons", 1)
	if !bytes.Equal(enc(wire), enc(mem)) {
		b.Violate("C09/provenance/sub-second-ancestor-timestamp-vs-decoded-copy", fmt.Sprintf("the pre-Oak retarget at height 500 gives child target %v with the ancestor's timestamp as decoded and %v with the same block's in-memory timestamp 0.9 s later", wire.ChildTarget, mem.ChildTarget), nil)
	}
}

// policyProvenance: a time lock built in memory with a sub-second part encodes (and hashes into its address) as
// whole seconds; the in-memory policy and its decoded copy are the same policy and must get the same verdict.
func policyProvenance(b *harness.B) {
	base := time.Unix(1_700_000_000, 0)
	for _, lockFrac := range []time.Duration{0, 100 * time.Millisecond, 900 * time.Millisecond} {
		for _, medOff := range []time.Duration{0, 500 * time.Millisecond, time.Second, 1500 * time.Millisecond} {
			p := types.PolicyAfter(base.Add(lockFrac))
			var q types.SpendPolicy
			d := types.NewBufDecoder(enc(p))
			q.DecodeFrom(d)
			if d.Err() != nil || p.Address() != q.Address() {
				continue
			}
			med := base.Add(medOff)
			e1 := p.Verify(10, med, types.Hash256{}, nil, nil)
			e2 := q.Verify(10, med, types.Hash256{}, nil, nil)
			b.Eval(1)
			b.Count("policy_provenance_comparisons", 1)
			if (e1 == nil) != (e2 == nil) {
				b.Violate("C09/provenance/after-policy-with-sub-second-lock-vs-decoded-copy", fmt.Sprintf("after(%v) at median %v: in-memory policy accepted=%v, its decoded copy (same address) accepted=%v", base.Add(lockFrac).Format("15:04:05.000"), med.Format("15:04:05.000"), e1 == nil, e2 == nil), map[string]any{"lock_fraction": lockFrac.String(), "median_offset": medOff.String()})
			}
		}
	}
}

// ---------------------------------------------------------------- copies

func copies(b *harness.B, c *chaingen.Chain, s sample) {
	wit := map[string]any{"height": s.cs.Index.Height + 1, "kinds": s.kinds}
	try := func(kind string, orig any, cp any) {
		b.Eval(1)
		b.Count("copies_checked", 1)
		b.Distinct("copy", kind)
		before := probe.Fingerprint(orig)
		if ov := probe.Overlap(probe.Regions(orig), probe.Regions(cp)); len(ov) > 0 {
			b.Violate("C09/copy-shares-memory/"+kind+ov[0][0], fmt.Sprintf("%s: the copy shares mutable memory with the original at %s", kind, ov[0][0]), wit)
		}
		probe.Scribble(cp)
		if probe.Fingerprint(orig) != before {
			b.Violate("C09/copy-shares-memory/"+kind+"/write-through", kind+": writing through the copy changed the original", wit)
		}
	}
	// the same for an element whose proof has been emptied but still owns its array (what walking an element back to
	// a state in which it is a tree of its own leaves behind): the copy's proof grows in memory of its own
	emptied := func(kind string, orig any, se *types.StateElement, mk func() *types.StateElement) {
		if cap(se.MerkleProof) == 0 {
			return
		}
		se.MerkleProof = se.MerkleProof[:0]
		before := probe.Fingerprint(orig)
		cse := mk()
		cse.MerkleProof = append(cse.MerkleProof, types.Hash256{0xEE, 0xEE})
		b.Eval(1)
		b.Count("copies_of_elements_with_an_emptied_proof_checked", 1)
		b.Distinct("copy", kind, "emptied-proof")
		if probe.Fingerprint(orig) != before {
			b.Violate("C09/copy-shares-memory/"+kind+"/emptied-proof/write-through", kind+": the copy of an element whose proof is empty but has capacity grows into the original's array", wit)
		}
	}
	for i := range s.b.V2Transactions() {
		t := s.b.V2.Transactions[i]
		o := chaingen.CloneV2(t) // private original
		cp := o.DeepCopy()
		kind := "V2Transaction.DeepCopy"
		try(kind, &o, &cp)
		for k := range t.SiacoinInputs {
			e := chaingen.CloneV2(t).SiacoinInputs[k].Parent
			ec := e.Copy()
			try("SiacoinElement.Copy", &e, &ec)
			e2 := chaingen.CloneV2(t).SiacoinInputs[k].Parent
			emptied("SiacoinElement.Copy", &e2, &e2.StateElement, func() *types.StateElement { c := e2.Copy(); return &c.StateElement })
			break
		}
		for k := range t.SiafundInputs {
			e := chaingen.CloneV2(t).SiafundInputs[k].Parent
			ec := e.Copy()
			try("SiafundElement.Copy", &e, &ec)
			break
		}
		for k := range t.FileContractRevisions {
			e := chaingen.CloneV2(t).FileContractRevisions[k].Parent
			ec := e.Copy()
			try("V2FileContractElement.Copy", &e, &ec)
			e2 := chaingen.CloneV2(t).FileContractRevisions[k].Parent
			emptied("V2FileContractElement.Copy", &e2, &e2.StateElement, func() *types.StateElement { c := e2.Copy(); return &c.StateElement })
			o2 := chaingen.CloneV2(t)
			emptied("V2Transaction.DeepCopy", &o2, &o2.FileContractRevisions[k].Parent.StateElement, func() *types.StateElement { c := o2.DeepCopy(); return &c.FileContractRevisions[k].Parent.StateElement })
			break
		}
		for k := range t.FileContractResolutions {
			if sp, ok := chaingen.CloneV2(t).FileContractResolutions[k].Resolution.(*types.V2StorageProof); ok {
				e := sp.ProofIndex
				ec := e.Copy()
				try("ChainIndexElement.Copy", &e, &ec)
				e2 := sp.ProofIndex.Copy()
				emptied("ChainIndexElement.Copy", &e2, &e2.StateElement, func() *types.StateElement { c := e2.Copy(); return &c.StateElement })
			}
		}
	}
	for _, ts := range s.bs.Transactions {
		for _, e := range ts.RevisedFileContracts {
			o := e.Copy()
			o.FileContract.ValidProofOutputs = append([]types.SiacoinOutput(nil), o.FileContract.ValidProofOutputs...)
			o.FileContract.MissedProofOutputs = append([]types.SiacoinOutput(nil), o.FileContract.MissedProofOutputs...)
			ec := o.Copy()
			// documented as "a deep copy of the element": proof and contract (output slices) alike
			try("FileContractElement.Copy", &o, &ec)
			break
		}
	}
	// attestation elements (reported in the JSON form of the update only)
	if s.b.V2 != nil {
		for _, t := range s.b.V2.Transactions {
			for _, a := range t.Attestations {
				o := types.AttestationElement{ID: types.AttestationID{1}, StateElement: types.StateElement{LeafIndex: 3, MerkleProof: []types.Hash256{{1}, {2}}}, Attestation: a}
				o.Attestation.Value = append([]byte{}, a.Value...)
				o.Attestation.Key = a.Key
				ec := o.Copy()
				try("AttestationElement.Copy", &o, &ec)
				return
			}
		}
	}
}

// ---------------------------------------------------------------- concurrency (race binary)

func concurrent(b *harness.B, c *chaingen.Chain, samples []sample) {
	if len(samples) == 0 {
		return
	}
	refs := make([]outcome, len(samples))
	for i, s := range samples {
		refs[i] = evaluate(s.cs, s.b, s.bs, c)
	}
	fps := make([][32]byte, len(samples))
	for i := range samples {
		fps[i] = probe.Fingerprint(&samples[i].cs, &samples[i].b, &samples[i].bs)
	}
	for _, G := range []int{2, 8, 32} {
		var inflight, maxOverlap int64
		var wg sync.WaitGroup
		var mu sync.Mutex
		diffs := map[string]string{}
		rounds := b.Pick(2, 6)
		for g := 0; g < G; g++ {
			wg.Add(1)
			go func(g int) {
				defer wg.Done()
				for r := 0; r < rounds; r++ {
					for i := range samples {
						s := &samples[(i+g)%len(samples)]
						k := (i + g) % len(samples)
						n := atomic.AddInt64(&inflight, 1)
						for {
							m := atomic.LoadInt64(&maxOverlap)
							if n <= m || atomic.CompareAndSwapInt64(&maxOverlap, m, n) {
								break
							}
						}
						got := evaluate(s.cs, s.b, s.bs, c)
						// also the encode / copy / weight paths on the shared object
						if s.valid && s.b.V2 != nil {
							enc(types.V2Block(s.b))
						}
						for ti := range s.b.V2Transactions() {
							s.b.V2.Transactions[ti].DeepCopy()
							s.cs.V2TransactionWeight(s.b.V2.Transactions[ti])
							s.cs.Elements.ValidateTransactionElements(s.b.V2.Transactions[ti])
						}
						s.b.ID()
						atomic.AddInt64(&inflight, -1)
						if d := refs[k].equal(got); d != "" {
							mu.Lock()
							diffs[fmt.Sprint(k)] = d
							mu.Unlock()
						}
						if (i+g)%3 == 0 {
							runtime.Gosched()
						}
					}
				}
			}(g)
		}
		wg.Wait()
		b.Eval(G * rounds * len(samples))
		b.Count("concurrent_calls", G*rounds*len(samples))
		b.MaxOf("max_overlapping_calls", maxOverlap)
		b.Distinct("concurrent", G, len(samples))
		for k, d := range diffs {
			b.Violate("C09/concurrency/result-differs-from-sequential", fmt.Sprintf("with %d concurrent callers on shared inputs a result differs from the sequential one: %s", G, d), map[string]any{"sample": k, "goroutines": G})
		}
	}
	for i := range samples {
		if probe.Fingerprint(&samples[i].cs, &samples[i].b, &samples[i].bs) != fps[i] {
			b.Violate("C09/concurrency/inputs-modified", "inputs shared between concurrent callers were modified", nil)
		}
	}
}

// ---------------------------------------------------------------- workload

// spareCapacity re-allocates the slices of every v2 transaction with room behind their last element and returns the
// number of transactions in which a renewal now stands beside a directly formed contract.
func spareCapacity(blk *types.Block) (renewals int) {
	for i := range blk.V2.Transactions {
		t := &blk.V2.Transactions[i]
		for _, res := range t.FileContractResolutions {
			if r, ok := res.Resolution.(*types.V2FileContractRenewal); ok && len(t.FileContracts) == 0 {
				t.FileContracts = []types.V2FileContract{r.NewContract}
				renewals++
				break
			}
		}
		t.SiacoinInputs = append(make([]types.V2SiacoinInput, 0, len(t.SiacoinInputs)+2), t.SiacoinInputs...)
		t.SiacoinOutputs = append(make([]types.SiacoinOutput, 0, len(t.SiacoinOutputs)+2), t.SiacoinOutputs...)
		t.SiafundInputs = append(make([]types.V2SiafundInput, 0, len(t.SiafundInputs)+2), t.SiafundInputs...)
		t.SiafundOutputs = append(make([]types.SiafundOutput, 0, len(t.SiafundOutputs)+2), t.SiafundOutputs...)
		t.FileContracts = append(make([]types.V2FileContract, 0, len(t.FileContracts)+3), t.FileContracts...)
		t.FileContractRevisions = append(make([]types.V2FileContractRevision, 0, len(t.FileContractRevisions)+2), t.FileContractRevisions...)
		t.FileContractResolutions = append(make([]types.V2FileContractResolution, 0, len(t.FileContractResolutions)+2), t.FileContractResolutions...)
		t.Attestations = append(make([]types.Attestation, 0, len(t.Attestations)+2), t.Attestations...)
	}
	blk.V2.Transactions = append(make([]types.V2Transaction, 0, len(blk.V2.Transactions)+2), blk.V2.Transactions...)
	return
}

func collect(b *harness.B, fam string, idx int, blocks int, each func(c *chaingen.Chain, s sample)) (*chaingen.Chain, []sample) {
	rng := b.SubRng(fmt.Sprint("net", idx))
	net := chaingen.GenNet(rng, fam, b.Batch*100+idx)
	c := chaingen.NewChain(net, rng)
	var kept []sample
	// update contents are stable: what an ApplyUpdate reports must not change because a client goes on using elements
	// it obtained from it - the chain index element as returned by the accessor, and elements the client held before
	// the block, brought up to date with UpdateElementProof (for a revised contract that call hands back the update's
	// own leaf) - with later updates.
	type retained struct {
		au   consensus.ApplyUpdate
		json []byte
		h    uint64
	}
	var past []retained
	var held []*types.StateElement
	c.OnApply = func(ev chaingen.ApplyEvent) {
		// 1. elements held from before this block that the block revises: updated in place, kept
		for _, d := range ev.AU.V2FileContractElementDiffs() {
			if d.Revision != nil && d.Resolution == nil && !d.Created {
				if e, ok := c.S.V2FCEs[d.V2FileContractElement.ID]; ok {
					se := e.StateElement.Copy()
					held = append(held, &se)
				}
			}
		}
		for _, d := range ev.AU.FileContractElementDiffs() {
			if d.Revision != nil && !d.Resolved && !d.Created {
				if e, ok := c.S.FCEs[d.FileContractElement.ID]; ok {
					se := e.StateElement.Copy()
					held = append(held, &se)
				}
			}
		}
		for _, se := range held {
			ev.AU.UpdateElementProof(se)
		}
		// 2. earlier updates still say what they said
		for _, r := range past {
			now, _ := json.Marshal(r.au)
			b.Eval(1)
			b.Count("retained_updates_recompared", 1)
			if !bytes.Equal(now, r.json) {
				b.Violate("C09/purity/earlier-ApplyUpdate-changed-by-later-proof-updates", fmt.Sprintf("the ApplyUpdate of the block at height %d reads differently after a client updated elements it holds with the update of height %d", r.h, ev.Next.Index.Height), map[string]any{"height_of_the_changed_update": r.h, "height": ev.Next.Index.Height, "kinds": ev.Kinds})
				past = nil
				held = nil
				break
			}
		}
		// 3. retain this update; the client keeps its chain index element as the accessor returned it
		js, _ := json.Marshal(ev.AU)
		past = append(past, retained{ev.AU, js, ev.Next.Index.Height})
		if len(past) > 4 {
			past = past[1:]
		}
		cie := ev.AU.ChainIndexElement()
		held = append(held, &cie.StateElement)
		if len(held) > 24 {
			held = held[len(held)-24:]
		}
	}
	c.OnStoreReverted = func(ev chaingen.RevertEvent) {
		past, held = nil, nil // held proofs belong to the abandoned branch
	}
	c.OnAccepted = func(cs consensus.State, orig types.Block, bs consensus.V1BlockSupplement, kinds []string) {
		if len(kinds) >= 3 {
			b.Sample(chaingen.DescribeBlock(cs, orig, kinds))
		}
		s := sample{cs: cs, b: orig, bs: bs, valid: true, kinds: kinds}
		each(c, s)
		// an invalid sibling: the last v2 transaction (or v1) duplicated -> double spend / duplicate
		inv := chaingen.CloneBlock(orig)
		made := false
		if inv.V2 != nil && len(inv.V2.Transactions) > 0 {
			inv.V2.Transactions = append(inv.V2.Transactions, chaingen.CloneV2(inv.V2.Transactions[len(inv.V2.Transactions)-1]))
			made = true
		} else if len(inv.Transactions) > 0 {
			inv.Transactions = append(inv.Transactions, chaingen.CloneV1(inv.Transactions[len(inv.Transactions)-1]))
			made = true
		}
		if made {
			if err, ibs := c.TryVariant(&inv); err != nil && !chaingen.IsSealFailure(err) {
				each(c, sample{cs: cs, b: inv, bs: ibs, valid: false, kinds: kinds})
				if len(kept) < 12 && rng.IntN(6) == 0 {
					kept = append(kept, sample{cs: cs, b: chaingen.CloneBlock(inv), bs: ibs, valid: false, kinds: kinds})
				}
			}
		}
		// a sibling whose slices have room behind them (as decoded blocks and block builders that carve transactions
		// out of one array have): a transaction with a renewal also forms a contract, so that both kinds of new
		// contract meet in one transaction. Valid or not, the inputs stay as they are - including the spare room.
		if orig.V2 != nil && len(orig.V2.Transactions) > 0 {
			sp := chaingen.CloneBlock(orig)
			renewals := spareCapacity(&sp)
			if err, sbs := c.TryVariant(&sp); !chaingen.IsSealFailure(err) {
				spareCapacity(&sp) // fresh room: sealing has already validated the block once
				each(c, sample{cs: cs, b: sp, bs: sbs, valid: err == nil, kinds: append(append([]string(nil), kinds...), "spare-capacity")})
				b.Count("spare_capacity_siblings_sampled", 1)
				if renewals > 0 {
					b.Count("spare_capacity_siblings_with_formation_and_renewal_in_one_transaction", 1)
					b.SetAdd("spare_capacity_sibling_verdicts", chaingen.NormErr(err))
				}
			}
		}
		if len(kept) < 12 && rng.IntN(4) == 0 && (len(orig.Transactions) > 0 || len(orig.V2Transactions()) > 0) {
			kept = append(kept, sample{cs: cs, b: chaingen.CloneBlock(orig), bs: bs, valid: true, kinds: kinds})
		}
		b.Count("accepted_blocks", 1)
		b.SetAdd("eras", chaingen.Era(net.N, cs.Index.Height+1))
	}
	stalled := 0
	for done := 0; done < blocks && stalled < 20; {
		// contracts and their proofs are emphasised: several proofs in one block (and in one transaction) are the
		// shapes in which validation handles slices of the caller's block
		n := c.Grow(1+rng.IntN(10), chaingen.Plan{MaxTxns: 6, Weights: map[string]int{"v1-form": 4, "v1-proof": 8, "v2-form": 3, "v2-proof": 5}})
		done += n
		if n == 0 {
			stalled++ // nothing is accepted any more (reported by the caller's comparison)
		} else {
			stalled = 0
		}
		if c.Height() > 2 && rng.IntN(8) == 0 {
			c.RevertTip()
		}
	}
	return c, kept
}

// clockIndependence: the verdict is a function of the parent state and the block, so the library has no business
// with the machine's clock. The chain just generated (all timestamps in 2023) is generated again from the same seed
// with every timestamp - genesis, network parameters, blocks, time locks - moved to the year 2200, far beyond any
// tolerance around the real clock. Blocks the generator builds as valid must be treated alike in both runs: a
// rejection class that appears only in one of them is a verdict that depends on when the code runs.
func clockIndependence(b *harness.B, fam string, idx int, past *chaingen.Chain) {
	orig := chaingen.GenesisTime()
	chaingen.SetGenesisTime(time.Date(2200, 1, 1, 0, 0, 0, 0, time.UTC))
	defer chaingen.SetGenesisTime(orig)
	future, _ := collect(b, fam, idx, b.Pick(60, 250), func(c *chaingen.Chain, s sample) {})
	classes := func(c *chaingen.Chain) map[string]int {
		m := map[string]int{}
		for k, v := range c.Stats {
			if strings.HasPrefix(k, "gen_rejected:") {
				m[strings.TrimPrefix(k, "gen_rejected:")] = v
			}
		}
		return m
	}
	p, f := classes(past), classes(future)
	b.Eval(1)
	b.Count("clock_shifted_chains_compared", 1)
	b.Count("clock_shifted_blocks_accepted", int(future.Height()))
	b.Distinct("clock", fam)
	for k, v := range f {
		if p[k] == 0 {
			b.Violate("C09/clock/rejection-only-on-the-future-dated-chain", fmt.Sprintf("%d block(s) built as valid are rejected with %q on the chain dated 2200 and never on the same chain dated 2023", v, k), map[string]any{"family": fam, "class": k, "height_reached_2023": past.Height(), "height_reached_2200": future.Height()})
		}
	}
	for k, v := range p {
		if f[k] == 0 {
			b.Violate("C09/clock/rejection-only-on-the-past-dated-chain", fmt.Sprintf("%d block(s) built as valid are rejected with %q on the chain dated 2023 and never on the same chain dated 2200", v, k), map[string]any{"family": fam, "class": k})
		}
	}
	if future.Height() == 0 && past.Height() > 0 {
		b.Violate("C09/clock/future-dated-chain-does-not-grow", "no block was accepted on the chain dated 2200", map[string]any{"family": fam})
	}
}

// multiProofSample: one v1 transaction carrying the storage proofs of several contracts, in ascending, descending and
// shuffled order of contract ID - the shape in which validation works on a slice of the caller's block. Each block
// goes through the purity, provenance and copy monitors like any sampled block.
func multiProofSample(b *harness.B) {
	rng := b.SubRng("multi-proof")
	net := chaingen.GenNet(rng, "v1only", 7000+b.Batch)
	c := chaingen.NewChain(net, rng)
	for c.Height() < net.N.HardforkStorageProof.Height+1 {
		if c.Grow(1, chaingen.Plan{MaxTxns: 4, Only: []string{"v1-pay"}}) == 0 {
			return
		}
	}
	H := c.Height()
	var specs []chaingen.V1ContractSpec
	datas := [][]byte{bytes.Repeat([]byte{0xA1}, 128), bytes.Repeat([]byte{0xB2}, 36), bytes.Repeat([]byte{0xC3}, 200), bytes.Repeat([]byte{0xD4}, 64)}
	for _, d := range datas {
		specs = append(specs, chaingen.V1ContractSpec{Data: d, WindowStart: H + 2, WindowEnd: H + 6})
	}
	blk, bs, ids, err := c.BlockWithV1Contracts(specs)
	if err != nil || c.Offer(blk, bs, []string{"form"}) != nil {
		b.Inconclusive("multi-proof sample: formation block not accepted")
		return
	}
	windowID, _ := c.BlockIDAt(H + 1)
	cs := c.Tip()
	type pr struct {
		id types.FileContractID
		sp types.StorageProof
	}
	var proofs []pr
	for i, id := range ids {
		if id == (types.FileContractID{}) {
			continue
		}
		d := datas[i]
		idx := cs.StorageProofLeafIndex(uint64(len(d)), windowID, id)
		sp := types.StorageProof{ParentID: id, Leaf: refmodel.FileSegment(d, int(idx))}
		for _, h := range refmodel.Proof(refmodel.FileLeaves(d), int(idx)) {
			sp.Proof = append(sp.Proof, types.Hash256(h))
		}
		proofs = append(proofs, pr{id, sp})
	}
	if len(proofs) < 2 {
		b.Inconclusive("multi-proof sample: fewer than two contracts funded")
		return
	}
	orders := map[string]func(i, j int) bool{
		"ascending-contract-id":  func(i, j int) bool { return bytes.Compare(proofs[i].id[:], proofs[j].id[:]) < 0 },
		"descending-contract-id": func(i, j int) bool { return bytes.Compare(proofs[i].id[:], proofs[j].id[:]) > 0 },
	}
	for name, less := range orders {
		sort.Slice(proofs, less)
		txn := types.Transaction{}
		for _, p := range proofs {
			txn.StorageProofs = append(txn.StorageProofs, p.sp)
		}
		pb, pbs, err := c.BlockWith([]types.Transaction{txn}, nil)
		if err != nil {
			continue
		}
		s := sample{cs: cs, b: pb, bs: pbs, valid: consensus.ValidateBlock(cs, chaingen.CloneBlock(pb), pbs) == nil, kinds: []string{"v1-proofs-sharing-a-txn/" + name}}
		b.Count("multi_proof_transactions_sampled", 1)
		b.Count(fmt.Sprintf("observed:multi-proof-block-accepted=%v", s.valid), 1)
		purity(b, c, s)
		provenance(b, c, s)
		if s.valid {
			copies(b, c, s)
		}
	}
}

func run(b *harness.B) {
	race := b.Batch%4 == 3
	if b.Batch == 0 {
		policyProvenance(b)
		ancestorProvenance(b)
	}
	if b.Batch <= 1 {
		multiProofSample(b)
	}
	nNets := b.Pick(2, 6)
	for i := 0; i < nNets; i++ {
		fam := chaingen.Families[(b.Batch+i)%len(chaingen.Families)]
		if race {
			c, kept := collect(b, fam, i, b.Pick(40, 120), func(c *chaingen.Chain, s sample) {})
			concurrent(b, c, kept)
			continue
		}
		cPast, _ := collect(b, fam, i, b.Pick(60, 250), func(c *chaingen.Chain, s sample) {
			purity(b, c, s)
			provenance(b, c, s)
			if s.valid {
				copies(b, c, s)
			}
		})
		if i == 0 {
			clockIndependence(b, fam, i, cPast)
		}
	}
	b.Sample(map[string]any{"batch_kind": map[bool]string{true: "concurrent (-race)", false: "purity/provenance/stepwise/copies"}[race]})
}

func main() {
	harness.Main(harness.Spec{
		ID:     "C09",
		Rule:   "every block accepted on chaingen histories plus an invalid sibling (duplicated transaction, re-sealed): purity fingerprints around ~15 entry points, 5 provenances of the same block, stepwise vs blockwise validation, alias/scribble test of every copy operation on the block's elements and transactions; every 4th batch runs from the -race binary: 2/8/32 goroutines run validate+apply+revert+encode+DeepCopy+weight on the same objects, results compared with sequential, overlap gauge. distinct = (check kind, entry point / provenance / copy kind, valid?, block shape).",
		Assume: []string{"the deep fingerprint covers everything reachable incl. unexported fields; time is compared by instant", "race reports whose frames are all outside go.sia.tech/core are listed separately"},
		Batches: func(t string) int {
			if t == "quick" {
				return 16
			}
			return 48
		},
		RaceBatches: func(t string) []int {
			n := 16
			if t != "quick" {
				n = 48
			}
			var out []int
			for k := 3; k < n; k += 4 {
				out = append(out, k)
			}
			return out
		},
		Run:         run,
		MinEvals:    3000,
		MinDistinct: 60,
		Require:     []string{"half_second_median_timestamp_comparisons", "supplement_with_a_contract_not_expiring_comparisons", "recomputable_proof_hash_comparisons", "sub_second_timestamp_comparisons", "state_identity_comparisons", "accepted_blocks", "purity_calls_checked", "provenance_comparisons", "stepwise_comparisons", "copies_checked", "concurrent_calls", "max_overlapping_calls", "update_element_proof_purity_checked", "spare_capacity_siblings_with_formation_and_renewal_in_one_transaction", "supplement_with_the_expiring_contracts_in_another_order_comparisons", "copies_of_elements_with_an_emptied_proof_checked"},
	})
}
