// C06 — reverting a block is the exact inverse of applying it.
//
// Monitor over chaingen histories with reorg schedules:
//   - the client store is snapshotted (every element of every kind with all
//     fields, leaf index and proof) before each apply; after the revert of that
//     block the store must be identical to the snapshot;
//   - the RevertUpdate's diffs must be the ApplyUpdate's diffs in reverse order,
//     same elements, same flags, same leaf indices;
//   - after each revert every stored element verifies against the parent state
//     (independent membership test);
//   - re-applying the same block gives a byte-identical State encoding and an
//     identical ApplyUpdate JSON; switching to a competing branch and back
//     reproduces the original states.
package main

import (
	"bytes"
	"encoding/json"
	"fmt"
	"sort"

	"go.sia.tech/core/consensus"
	"go.sia.tech/core/types"
	"verif/internal/chaingen"
	"verif/internal/chainmon"
	"verif/internal/elems"
	"verif/internal/harness"
)

func enc(v types.EncoderTo) []byte {
	var buf bytes.Buffer
	e := types.NewEncoder(&buf)
	v.EncodeTo(e)
	e.Flush()
	return buf.Bytes()
}

// snapshot is the store as a sorted list of (kind, id, encoded element).
func snapshot(s *chaingen.Store) []string {
	var out []string
	for id, e := range s.SCEs {
		out = append(out, fmt.Sprintf("sc %x %x", id[:], enc(e)))
	}
	for id, e := range s.SFEs {
		out = append(out, fmt.Sprintf("sf %x %x", id[:], enc(e)))
	}
	for id, e := range s.FCEs {
		out = append(out, fmt.Sprintf("fc %x %x", id[:], enc(e)))
	}
	for id, e := range s.V2FCEs {
		out = append(out, fmt.Sprintf("v2fc %x %x", id[:], enc(e)))
	}
	for h, e := range s.CIEs {
		out = append(out, fmt.Sprintf("ci %d %x", h, enc(e)))
	}
	sort.Strings(out)
	return out
}

func diffSnap(a, b []string) string {
	am := map[string]bool{}
	for _, x := range a {
		am[x] = true
	}
	bm := map[string]bool{}
	for _, x := range b {
		bm[x] = true
	}
	missing, extra := 0, 0
	first := ""
	for _, x := range a {
		if !bm[x] {
			missing++
			if first == "" {
				first = "missing after revert: " + x[:min(len(x), 90)]
			}
		}
	}
	for _, x := range b {
		if !am[x] {
			extra++
			if first == "" {
				first = "unexpected after revert: " + x[:min(len(x), 90)]
			}
		}
	}
	if missing+extra == 0 {
		return ""
	}
	// classify: same id but different contents?
	return fmt.Sprintf("%d entries of the pre-apply store missing, %d unexpected; first: %s", missing, extra, first)
}

type diffRec struct {
	Kind    string
	ID      string
	Body    string // element contents without the proof
	Leaf    uint64
	Flags   string
	RevBody string
}

func scBody(e types.SiacoinElement) string {
	return fmt.Sprintf("%x/%d", enc(types.V2SiacoinOutput(e.SiacoinOutput)), e.MaturityHeight)
}
func sfBody(e types.SiafundElement) string {
	return fmt.Sprintf("%x/%x", enc(types.V2SiafundOutput(e.SiafundOutput)), enc(types.V2Currency(e.ClaimStart)))
}

type diffs interface {
	SiacoinElementDiffs() []consensus.SiacoinElementDiff
	SiafundElementDiffs() []consensus.SiafundElementDiff
	FileContractElementDiffs() []consensus.FileContractElementDiff
	V2FileContractElementDiffs() []consensus.V2FileContractElementDiff
	ChainIndexElement() types.ChainIndexElement
}

func records(u diffs) (sc, sf, fc, v2 []diffRec) {
	for _, d := range u.SiacoinElementDiffs() {
		sc = append(sc, diffRec{"sc", d.SiacoinElement.ID.String(), scBody(d.SiacoinElement), d.SiacoinElement.StateElement.LeafIndex, fmt.Sprint(d.Created, d.Spent), ""})
	}
	for _, d := range u.SiafundElementDiffs() {
		sf = append(sf, diffRec{"sf", d.SiafundElement.ID.String(), sfBody(d.SiafundElement), d.SiafundElement.StateElement.LeafIndex, fmt.Sprint(d.Created, d.Spent), ""})
	}
	for _, d := range u.FileContractElementDiffs() {
		r := diffRec{"fc", d.FileContractElement.ID.String(), fmt.Sprintf("%x", enc(d.FileContractElement.FileContract)), d.FileContractElement.StateElement.LeafIndex, fmt.Sprint(d.Created, d.Resolved, d.Valid), ""}
		if d.Revision != nil {
			r.RevBody = fmt.Sprintf("%x", enc(*d.Revision))
		}
		fc = append(fc, r)
	}
	for _, d := range u.V2FileContractElementDiffs() {
		r := diffRec{"v2fc", d.V2FileContractElement.ID.String(), fmt.Sprintf("%x", enc(d.V2FileContractElement.V2FileContract)), d.V2FileContractElement.StateElement.LeafIndex, fmt.Sprint(d.Created, d.Resolution != nil, fmt.Sprintf("%T", d.Resolution)), ""}
		if d.Revision != nil {
			r.RevBody = fmt.Sprintf("%x", enc(*d.Revision))
		}
		v2 = append(v2, r)
	}
	return
}

func reversed(r []diffRec) []diffRec {
	out := make([]diffRec, len(r))
	for i := range r {
		out[len(r)-1-i] = r[i]
	}
	return out
}

func eqRecs(a, b []diffRec) (bool, string) {
	if len(a) != len(b) {
		return false, fmt.Sprintf("count %d vs %d", len(a), len(b))
	}
	for i := range a {
		if a[i] != b[i] {
			what := "element contents"
			switch {
			case a[i].ID != b[i].ID:
				what = "order/identity"
			case a[i].Flags != b[i].Flags:
				what = "flags"
			case a[i].Leaf != b[i].Leaf:
				what = "leaf index"
			case a[i].RevBody != b[i].RevBody:
				what = "revision"
			}
			return false, fmt.Sprintf("%s differs at position %d (%s): apply-reversed {id %s.. leaf %d flags %s} vs revert {id %s.. leaf %d flags %s}", what, i, a[i].Kind, a[i].ID[:8], a[i].Leaf, a[i].Flags, b[i].ID[:8], b[i].Leaf, b[i].Flags)
		}
	}
	return true, ""
}

type applied struct {
	snapBefore     []string
	stateEnc       []byte // encoding of the state after the block
	auJSON         []byte
	sc, sf, fc, v2 []diffRec
	block          types.Block
	supp           consensus.V1BlockSupplement
	kinds          []string
	id             types.BlockID
	arch           []*archived
}

// archived is a consumer's own copy of an element a block updated in place (spent, resolved or revised), kept with the
// proof the block's update reported so that the block can be undone: RevertUpdate.UpdateElementProof must turn it back
// into a proof of the element as it was before the block.
type archived struct {
	kind          string
	se            types.StateElement
	before, after elems.Hash
	spentAfter    bool
}

const archiveDepth = 6

func archive(au consensus.ApplyUpdate) (out []*archived) {
	for _, d := range au.SiacoinElementDiffs() {
		if d.Spent && !d.Created {
			e := d.SiacoinElement.Copy()
			out = append(out, &archived{"siacoin", e.StateElement, elems.Siacoin(e), elems.Siacoin(e), true})
		}
	}
	for _, d := range au.SiafundElementDiffs() {
		if d.Spent && !d.Created {
			e := d.SiafundElement.Copy()
			out = append(out, &archived{"siafund", e.StateElement, elems.Siafund(e), elems.Siafund(e), true})
		}
	}
	for _, d := range au.FileContractElementDiffs() {
		if d.Created || !(d.Resolved || d.Revision != nil) {
			continue
		}
		e := d.FileContractElement.Copy()
		after := e.FileContract
		if d.Revision != nil {
			after = *d.Revision
		}
		out = append(out, &archived{"filecontract", e.StateElement, elems.FileContract(e.ID, e.FileContract), elems.FileContract(e.ID, after), d.Resolved})
	}
	for _, d := range au.V2FileContractElementDiffs() {
		if d.Created || !(d.Resolution != nil || d.Revision != nil) {
			continue
		}
		e := d.V2FileContractElement.Copy()
		after := e.V2FileContract
		if d.Revision != nil {
			after = *d.Revision
		}
		out = append(out, &archived{"v2filecontract", e.StateElement, elems.V2FileContract(e.ID, e.V2FileContract), elems.V2FileContract(e.ID, after), d.Resolution != nil})
	}
	return
}

func run(b *harness.B) {
	nNets := b.Pick(3, 10)
	blocks := b.Pick(120, 450)
	for i := 0; i < nNets; i++ {
		fam := chaingen.Families[(b.Batch+i)%len(chaingen.Families)]
		rng := b.SubRng(fmt.Sprint("net", i))
		net := chaingen.GenNet(rng, fam, b.Batch*100+i)
		c := chaingen.NewChain(net, rng)
		var stack []*applied // stack[k] describes block at height k+1
		// a consumer that stores tree nodes instead of proofs: fed by ForEachTreeNode of every apply and revert update,
		// its nodes are those of the parent state again after a revert
		nodeMon := chainmon.NewForestMon("C06", b)
		nodeMon.CheckTreeNodes = true
		nodeMon.OnApply(c.GenesisEvent)
		var pendingSnap []string
		reapplyExpect := map[types.BlockID]*applied{}

		c.OnApply = func(ev chaingen.ApplyEvent) {
			// called before the store processes the update
			pendingSnap = snapshot(c.S)
		}
		c.OnStoreApplied = func(ev chaingen.ApplyEvent) {
			if len(ev.Kinds) >= 3 {
				b.Sample(chaingen.DescribeBlock(ev.Prev, ev.Block, ev.Kinds))
			}
			nodeMon.OnApply(ev)
			a := &applied{snapBefore: pendingSnap, stateEnc: enc(ev.Next), block: ev.Block, supp: ev.Supp, kinds: ev.Kinds, id: ev.Next.Index.ID}
			a.auJSON, _ = json.Marshal(ev.AU)
			a.sc, a.sf, a.fc, a.v2 = records(ev.AU)
			// the consumer's archive of updated-in-place elements: the copies of earlier blocks follow the chain, the
			// copies of this block start from the proofs this update reported
			for k := len(stack) - 1; k >= 0 && k >= len(stack)-archiveDepth; k-- {
				for _, x := range stack[k].arch {
					ev.AU.UpdateElementProof(&x.se)
				}
			}
			if len(stack) >= archiveDepth {
				stack[len(stack)-archiveDepth].arch = nil
			}
			a.arch = archive(ev.AU)
			for _, x := range a.arch {
				if !elems.Member(ev.Next.Elements, x.after, x.se, x.spentAfter) {
					b.Violate("C06/archive/reported-element-does-not-verify/"+x.kind, "an element the apply update reports as updated in place does not verify in its new form against the new state", map[string]any{"height": ev.Next.Index.Height, "kinds": ev.Kinds, "leaf": x.se.LeafIndex})
				}
			}
			stack = append(stack, a)
			b.Eval(1)
			b.Count("blocks_applied", 1)
			b.SetAdd("eras", chaingen.Era(net.N, ev.Next.Index.Height))
			for _, k := range ev.Kinds {
				b.SetAdd("kinds", k)
			}
			// was this block applied before (re-apply after revert)?
			if prev, ok := reapplyExpect[a.id]; ok {
				b.Count("reapplies_compared", 1)
				if !bytes.Equal(prev.stateEnc, a.stateEnc) {
					b.Violate("C06/reapply/state-differs", fmt.Sprintf("state after re-applying block %v at height %d differs from the first apply", a.id, ev.Next.Index.Height), map[string]any{"height": ev.Next.Index.Height, "kinds": ev.Kinds})
				}
				if !bytes.Equal(prev.auJSON, a.auJSON) {
					b.Violate("C06/reapply/update-differs", fmt.Sprintf("ApplyUpdate JSON after re-applying block at height %d differs from the first apply", ev.Next.Index.Height), map[string]any{"height": ev.Next.Index.Height, "kinds": ev.Kinds})
				}
			}
		}
		c.OnStoreReverted = func(ev chaingen.RevertEvent) {
			nodeMon.OnRevert(ev)
			a := stack[len(stack)-1]
			stack = stack[:len(stack)-1]
			reapplyExpect[a.id] = a
			b.Eval(1)
			b.Count("blocks_reverted", 1)
			wit := map[string]any{"height": ev.Reverted.Index.Height, "kinds": a.kinds}
			// 1. store == snapshot before the apply
			if d := diffSnap(a.snapBefore, snapshot(c.S)); d != "" {
				b.Violate("C06/store-not-restored", "after reverting the tip the store differs from the store before the apply: "+d, wit)
			}
			b.Count("store_snapshots_compared", 1)
			// 2. revert diffs == apply diffs reversed
			rsc, rsf, rfc, rv2 := records(ev.RU)
			for _, p := range []struct {
				name string
				a, r []diffRec
			}{{"siacoin", a.sc, rsc}, {"siafund", a.sf, rsf}, {"filecontract", a.fc, rfc}, {"v2filecontract", a.v2, rv2}} {
				if ok, why := eqRecs(reversed(p.a), p.r); !ok {
					b.Violate("C06/revert-diffs-not-reverse-of-apply/"+p.name, why, wit)
				}
				if len(p.a) > 0 {
					b.Count("diff_lists_compared_nonempty", 1)
				}
			}
			if ev.RU.ChainIndexElement().ID != a.id {
				b.Violate("C06/revert-chain-index", "RevertUpdate reports a different chain index element than the block", wit)
			}
			// the chain index element and the attestation elements (the latter are only visible in the JSON form of
			// the updates) are elements the apply reported too: same identity and leaf index, reverse order
			var aj, rj struct {
				AttestationElements []types.AttestationElement `json:"attestationElements"`
				ChainIndexElement   types.ChainIndexElement    `json:"chainIndexElement"`
			}
			ruJSON, _ := json.Marshal(ev.RU)
			if json.Unmarshal(a.auJSON, &aj) == nil && json.Unmarshal(ruJSON, &rj) == nil {
				if aj.ChainIndexElement.StateElement.LeafIndex != rj.ChainIndexElement.StateElement.LeafIndex || aj.ChainIndexElement.ChainIndex != rj.ChainIndexElement.ChainIndex {
					b.Violate("C06/revert-diffs-not-reverse-of-apply/chain-index-element", fmt.Sprintf("apply reported the chain index element at leaf %d, revert reports it at leaf %d", aj.ChainIndexElement.StateElement.LeafIndex, rj.ChainIndexElement.StateElement.LeafIndex), wit)
				}
				b.Count("chain_index_elements_compared", 1)
				if len(aj.AttestationElements) != len(rj.AttestationElements) {
					b.Violate("C06/revert-diffs-not-reverse-of-apply/attestation", fmt.Sprintf("count %d vs %d", len(aj.AttestationElements), len(rj.AttestationElements)), wit)
				} else {
					n := len(aj.AttestationElements)
					for i := range aj.AttestationElements {
						x, y := aj.AttestationElements[n-1-i], rj.AttestationElements[i]
						if x.ID != y.ID || x.StateElement.LeafIndex != y.StateElement.LeafIndex {
							what := "leaf index"
							if x.ID != y.ID {
								what = "order/identity"
							}
							b.Violate("C06/revert-diffs-not-reverse-of-apply/attestation", fmt.Sprintf("%s differs at position %d of %d: apply-reversed {id %v leaf %d} vs revert {id %v leaf %d}", what, i, n, x.ID, x.StateElement.LeafIndex, y.ID, y.StateElement.LeafIndex), wit)
							break
						}
					}
					if n > 0 {
						b.Count("attestation_lists_compared_nonempty", 1)
					}
					if n > 1 {
						b.Count("attestation_lists_compared_with_two_or_more", 1)
					}
				}
			}
			// 2b. the consumer's own copies of the elements this block updated in place, walked back with
			// RevertUpdate.UpdateElementProof, prove the elements as they were before the block; the copies of deeper
			// blocks stay proofs of the updated form
			for _, x := range a.arch {
				ev.RU.UpdateElementProof(&x.se)
				b.Count("archived_copies_walked_back", 1)
				if !elems.Member(ev.Prev.Elements, x.before, x.se, false) {
					b.Violate("C06/archive/own-copy-not-restored/"+x.kind, fmt.Sprintf("a consumer's copy of leaf %d, updated in place by the reverted block and walked back with RevertUpdate.UpdateElementProof, does not prove the element as it was before the block (%d elements updated in place by the block)", x.se.LeafIndex, len(a.arch)), wit)
					break
				}
			}
			if len(a.arch) > 1 {
				b.Count("reverted_blocks_with_two_or_more_archived_copies", 1)
			}
			for k := len(stack) - 1; k >= 0 && k >= len(stack)-archiveDepth; k-- {
				for _, x := range stack[k].arch {
					ev.RU.UpdateElementProof(&x.se)
					if !x.spentAfter {
						continue // a revised contract may have been updated again since
					}
					b.Count("archived_copies_of_deeper_blocks_followed", 1)
					if !elems.Member(ev.Prev.Elements, x.after, x.se, x.spentAfter) {
						b.Violate("C06/archive/deeper-copy-broken-by-revert/"+x.kind, fmt.Sprintf("a consumer's copy of leaf %d (updated in place %d blocks below the reverted one) no longer verifies after RevertUpdate.UpdateElementProof", x.se.LeafIndex, len(stack)-k), wit)
						break
					}
				}
			}
			// 3. every stored element verifies against the parent state
			bad := 0
			n := 0
			for _, e := range c.S.SCEs {
				n++
				if !elems.Member(ev.Prev.Elements, elems.Siacoin(e), e.StateElement, false) {
					bad++
				}
			}
			for _, e := range c.S.SFEs {
				n++
				if !elems.Member(ev.Prev.Elements, elems.Siafund(e), e.StateElement, false) {
					bad++
				}
			}
			for _, e := range c.S.FCEs {
				n++
				if !elems.Member(ev.Prev.Elements, elems.FileContract(e.ID, e.FileContract), e.StateElement, false) {
					bad++
				}
			}
			for _, e := range c.S.V2FCEs {
				n++
				if !elems.Member(ev.Prev.Elements, elems.V2FileContract(e.ID, e.V2FileContract), e.StateElement, false) {
					bad++
				}
			}
			for _, e := range c.S.CIEs {
				n++
				if !elems.Member(ev.Prev.Elements, elems.ChainIndex(e.ID, e.ChainIndex), e.StateElement, false) {
					bad++
				}
			}
			b.Count("elements_verified_after_revert", n)
			if bad > 0 {
				b.Violate("C06/element-does-not-verify-after-revert", fmt.Sprintf("%d of %d stored elements do not verify against the parent state after the revert", bad, n), wit)
			}
			shape := ""
			for _, k := range a.kinds {
				shape += k + ","
			}
			b.Distinct("reverted-block", fam, shape)
		}

		for done := 0; done < blocks; {
			done += c.Grow(1+rng.IntN(10), chaingen.Plan{MaxTxns: 6, TimeMode: []string{"schedule", "jitter", "fast"}[rng.IntN(3)]})
			if c.Height() <= 2 {
				continue
			}
			switch rng.IntN(4) {
			case 0: // plain reorg: revert k, continue differently
				k := 1 + rng.IntN(5)
				if rng.IntN(12) == 0 {
					k = int(c.Height())
				}
				k = min(k, int(c.Height()))
				for r := 0; r < k; r++ {
					c.RevertTip()
				}
				b.MaxOf("max_reorg_depth", int64(k))
				b.Distinct("reorg", fam, k)
			case 1: // revert k, re-apply the very same blocks
				k := min(1+rng.IntN(5), int(c.Height()))
				saved := append([]*applied(nil), stack[len(stack)-k:]...)
				for r := 0; r < k; r++ {
					c.RevertTip()
				}
				for _, a := range saved {
					if err := c.Offer(a.block, a.supp, a.kinds); err != nil {
						b.Violate("C06/reapply/rejected", fmt.Sprintf("block accepted before is rejected when re-applied after a revert: %s", chaingen.NormErr(err)), map[string]any{"kinds": a.kinds})
						break
					}
				}
				b.Count("same_branch_reapplied", 1)
			case 2: // revert k, apply a competing branch of length j, revert it, return to the original branch
				k := min(1+rng.IntN(4), int(c.Height()))
				saved := append([]*applied(nil), stack[len(stack)-k:]...)
				for r := 0; r < k; r++ {
					c.RevertTip()
				}
				h0 := c.Height()
				c.Grow(1+rng.IntN(4), chaingen.Plan{MaxTxns: 5})
				for c.Height() > h0 {
					c.RevertTip()
				}
				for _, a := range saved {
					if err := c.Offer(a.block, a.supp, a.kinds); err != nil {
						b.Violate("C06/return-to-branch/rejected", fmt.Sprintf("original branch rejected after visiting a competing branch: %s", chaingen.NormErr(err)), map[string]any{"kinds": a.kinds})
						break
					}
				}
				b.Count("competing_branch_roundtrips", 1)
			}
		}
		for k, v := range c.Stats {
			if len(k) > 12 && k[:12] == "gen_rejected" {
				b.Count("generator_library_disagreement:"+k, v)
			}
		}
		if i == 0 {
			b.Sample(map[string]any{"network": net.Name, "family": fam, "final_height": c.Height(), "store_size": len(snapshot(c.S))})
		}
	}
}

func main() {
	harness.Main(harness.Spec{
		ID:     "C06",
		Rule:   "chaingen histories over five network families; after random growth one of: reorg of depth k (up to the whole chain), revert-k-and-reapply-the-same-blocks, revert-k / competing branch / back to the original branch. Per reverted block: store vs snapshot taken before its apply (all elements incl. proofs), revert diffs vs reversed apply diffs, membership of every stored element in the parent accumulator; per re-applied block: State encoding and ApplyUpdate JSON vs first apply. distinct = (family, ordered kinds of the reverted block) and (family, reorg depth).",
		Assume: []string{"the store applies diffs and UpdateElementProof exactly in the order the library reports them", "independent membership test uses x/crypto blake2b and element hashes from the public types.Hasher"},
		Batches: func(t string) int {
			if t == "quick" {
				return 16
			}
			return 64
		},
		Run:         run,
		MinEvals:    1000,
		MinDistinct: 100,
		Require:     []string{"blocks_applied", "blocks_reverted", "store_snapshots_compared", "diff_lists_compared_nonempty", "reapplies_compared", "competing_branch_roundtrips", "elements_verified_after_revert", "archived_copies_walked_back", "reverted_blocks_with_two_or_more_archived_copies", "archived_copies_of_deeper_blocks_followed"},
	})
}
