package main

import (
	"fmt"

	rhp4 "go.sia.tech/core/rhp/v4"
	"go.sia.tech/core/types"
	"verif/internal/harness"
)

// runHugeContract: a consensus-valid contract whose size is close to 2^64 bytes (the state 2^24 validated
// maximum-batch appends lead to, at a cost of about 0.02 SC with prices of 1 H; audit round 3). One more validated
// append must either yield a revision consensus accepts (capacity never decreases, size within capacity) or fail
// cleanly.
func runHugeContract(b *harness.B) {
	r := b.SubRng("huge-contract")
	host, renter := newActor(r), newActor(r)
	hp := rhp4.HostPrices{StoragePrice: types.NewCurrency64(1), Collateral: types.NewCurrency64(1), TipHeight: 10, ValidUntil: farFuture}
	hp.Signature = host.sk.SignHash(hp.SigHash())
	params := rhp4.RPCFormContractParams{RenterPublicKey: renter.pk, RenterAddress: renter.addr, Allowance: types.Siacoins(2000), Collateral: types.Siacoins(2000), ProofHeight: 1000}
	fc, _ := rhp4.NewContract(hp, params, host.pk, host.addr)
	for _, c := range []struct {
		size     uint64
		appended uint64
	}{
		{1<<64 - 1<<40, 1 << 18},         // exactly 2^64 after the append
		{1<<64 - 1<<40, 1<<18 - 1},       // the largest append that still fits
		{1<<64 - 1<<41, 1 << 18},         // fits
		{1<<64 - rhp4.SectorSize, 2},     // wraps to one sector
		{1<<64 - 2*rhp4.SectorSize, 1},   // fits
		{1<<64 - 3*rhp4.SectorSize, 100}, // wraps
	} {
		old := fc
		old.Filesize, old.Capacity = c.size, c.size
		var rev types.V2FileContract
		var err error
		wit := map[string]any{"filesize": c.size, "capacity": c.size, "appended_sectors": c.appended}
		b.Eval(1)
		b.Count("huge_contract_appends", 1)
		if b.Guard("C17/revise/ReviseForAppendSectors/contract-of-nearly-2^64-bytes", func() any { return wit }, func() {
			rev, _, err = rhp4.ReviseForAppendSectors(old, hp, types.Hash256{7}, c.appended)
		}) || err != nil {
			continue
		}
		if rev.Capacity < old.Capacity || rev.Filesize < old.Filesize || rev.Filesize > rev.Capacity {
			b.Violate("C17/consensus-reject/revision/ReviseForAppendSectors/size-wraps-around-2^64",
				fmt.Sprintf("appending %d sectors to a contract of %d bytes returns no error and a revision with filesize %d, capacity %d: consensus refuses it (capacity must not decrease)", c.appended, c.size, rev.Filesize, rev.Capacity), wit)
		}
	}
}
