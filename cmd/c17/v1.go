package main

import (
	"fmt"
	"math/big"
	"math/rand/v2"
	"reflect"

	"go.sia.tech/core/consensus"
	rhp2 "go.sia.tech/core/rhp/v2"
	rhp3 "go.sia.tech/core/rhp/v3"
	"go.sia.tech/core/types"
	"verif/internal/harness"
)

// refTax is the post-tax-hardfork v1 file contract tax written from its definition:
// 3.9 % of the payout, rounded down to a multiple of the siafund count (10000).
func refTax(payout *big.Int) *big.Int {
	t := new(big.Int).Mul(payout, big.NewInt(39))
	t.Quo(t, big.NewInt(1000))
	return t.Sub(t, new(big.Int).Mod(t, big.NewInt(10000)))
}

func sumOutputs(outs []types.SiacoinOutput) *big.Int {
	s := new(big.Int)
	for _, o := range outs {
		s.Add(s, toBig(o.Value))
	}
	return s
}

type v1Witness struct {
	Kind     string `json:"kind"`
	Target   string `json:"target"`
	Contract any    `json:"contract"`
	Params   any    `json:"params,omitempty"`
}

// checkV1Contract is the tax-equation oracle for a contract built by ctor.
func checkV1Contract(b *harness.B, ctor string, fc types.FileContract, cs consensus.State, target *big.Int, params any) bool {
	b.Eval(1)
	b.Count("v1_payouts_checked", 1)
	b.SetAdd("constructors_exercised", ctor)
	w := v1Witness{ctor, target.String(), jsonOf(fc), params}
	valid, missed := sumOutputs(fc.ValidProofOutputs), sumOutputs(fc.MissedProofOutputs)
	payout := toBig(fc.Payout)
	ok := true
	if target != nil && valid.Cmp(target) != 0 {
		// generator disagreement only: the contract was meant to have this valid sum
		b.Inconclusive("v1 generator: valid sum differs from intended target")
		return false
	}
	if valid.Cmp(missed) != 0 {
		b.Violate("C17/v1/"+ctor+"/valid-sum-differs-from-missed-sum", fmt.Sprintf("valid proof outputs sum to %v, missed to %v", valid, missed), w)
		ok = false
	}
	tax := refTax(payout)
	if want := new(big.Int).Add(valid, tax); payout.Cmp(want) != 0 {
		b.Violate("C17/v1/"+ctor+"/payout-violates-tax-equation", fmt.Sprintf("payout %v != valid sum %v + tax(payout) %v (off by %v)", payout, valid, tax, new(big.Int).Sub(payout, want)), w)
		ok = false
	}
	if ct := cs.FileContractTax(fc); toBig(ct).Cmp(tax) != 0 {
		b.Count("v1_consensus_tax_differs_from_definition(observed; C01's subject)", 1)
	}
	return ok
}

// v1Targets is the boundary grid for the tax inversion.
func v1Targets(r *rand.Rand, nRandom int) []*big.Int {
	var g []*big.Int
	seen := map[string]bool{}
	add := func(v *big.Int) {
		if v.Sign() <= 0 || v.BitLen() > 117 || seen[v.String()] {
			return
		}
		seen[v.String()] = true
		g = append(g, new(big.Int).Set(v))
	}
	around := func(v *big.Int, w int64) {
		for d := -w; d <= w; d++ {
			add(new(big.Int).Add(v, big.NewInt(d)))
		}
	}
	for i := int64(1); i <= 40; i++ {
		add(big.NewInt(i))
	}
	for k := uint(1); k <= 117; k++ {
		around(new(big.Int).Lsh(big.NewInt(1), k), 1)
	}
	ms := []*big.Int{}
	for _, m := range []int64{1, 2, 3, 7, 10, 25, 39, 96, 100, 961, 1000, 1039, 9999, 10000, 10001, 25641, 25642, 256410, 256411} {
		ms = append(ms, big.NewInt(m))
	}
	for i := 0; i < 40; i++ {
		ms = append(ms, toBig(randCurrency(r, 100)))
	}
	for _, m := range ms {
		for _, base := range []int64{961, 1000, 9610, 10000, 9610000, 10000000} {
			around(new(big.Int).Mul(m, big.NewInt(base)), 1)
		}
		// payouts at which the tax steps to its next multiple of 10000: P = ceil(10^7 j / 39)
		p := new(big.Int).Mul(m, big.NewInt(10000000))
		p.Add(p, big.NewInt(38))
		p.Quo(p, big.NewInt(39))
		for d := int64(-2); d <= 2; d++ {
			pp := new(big.Int).Add(p, big.NewInt(d))
			if pp.Sign() > 0 {
				around(new(big.Int).Sub(pp, refTax(pp)), 1)
			}
		}
	}
	// values whose upper 64-bit word is a number the arithmetic treats specially (the siafund count the tax is rounded
	// to, the tax rate's numerator and denominator), and targets whose first payout estimate target*1000/961 is one
	for _, hw := range []int64{1, 2, 39, 961, 1000, 9999, 10000, 10001, 20000, 1 << 32} {
		for _, lo := range []*big.Int{big.NewInt(0), big.NewInt(1), new(big.Int).Lsh(big.NewInt(1), 63), new(big.Int).Sub(new(big.Int).Lsh(big.NewInt(1), 64), big.NewInt(1)),
			new(big.Int).SetUint64(r.Uint64()), new(big.Int).SetUint64(r.Uint64()), new(big.Int).SetUint64(r.Uint64())} {
			v := new(big.Int).Lsh(big.NewInt(hw), 64)
			v.Add(v, lo)
			around(v, 1)
			est := new(big.Int).Mul(v, big.NewInt(961))
			est.Quo(est, big.NewInt(1000))
			around(est, 1)
		}
	}
	for i := 0; i < nRandom; i++ {
		add(toBig(randCurrency(r, 117)))
	}
	return g
}

func randBelow(r *rand.Rand, max *big.Int) *big.Int {
	if max.Sign() <= 0 {
		return new(big.Int)
	}
	switch r.IntN(6) {
	case 0:
		return new(big.Int)
	case 1:
		return new(big.Int).Set(max)
	}
	v := toBig(randCurrency(r, max.BitLen()))
	return v.Mod(v, new(big.Int).Add(max, big.NewInt(1)))
}

// v1Case is one constructed v1 contract together with what each party must fund.
type v1Case struct {
	ctor       string
	fc         types.FileContract
	renterCost func(cs consensus.State, minerFee types.Currency) types.Currency // incl. miner fee
	hostCost   types.Currency
	params     any
}

type v1Gen struct {
	r            *rand.Rand
	renter, host actor
	uc           types.UnlockConditions
}

func newV1Gen(r *rand.Rand) *v1Gen {
	g := &v1Gen{r: r, renter: newActor(r), host: newActor(r)}
	g.uc = types.UnlockConditions{PublicKeys: []types.UnlockKey{g.renter.pk.UnlockKey(), g.host.pk.UnlockKey()}, SignaturesRequired: 2}
	return g
}

// formation builds a contract whose valid sum is exactly target.
func (g *v1Gen) formation(target *big.Int, endHeight uint64) v1Case {
	r := g.r
	renterPayout := randBelow(r, target)
	rest := new(big.Int).Sub(target, renterPayout)
	price := randBelow(r, rest)
	collateral := fromBig(new(big.Int).Sub(rest, price))
	hs := rhp2.HostSettings{ContractPrice: fromBig(price), WindowSize: 1 + r.Uint64N(200), Address: g.host.addr}
	fc := rhp2.PrepareContractFormation(g.renter.pk, g.host.pk, fromBig(renterPayout), collateral, endHeight, hs, g.renter.addr)
	return v1Case{
		ctor: "rhp2.PrepareContractFormation", fc: fc, hostCost: collateral,
		renterCost: func(cs consensus.State, fee types.Currency) types.Currency {
			return rhp2.ContractFormationCost(cs, fc, hs.ContractPrice).Add(fee)
		},
		params: map[string]any{"renter_payout": renterPayout.String(), "contract_price": price.String(), "collateral": collateral.ExactString(), "window": hs.WindowSize},
	}
}

// oldRevision is a current revision to renew from: a formation contract, optionally with
// data (filesize is set by the harness; core has no v1 append constructor).
func (g *v1Gen) oldRevision(windowStart uint64) types.FileContractRevision {
	r := g.r
	hs := rhp2.HostSettings{ContractPrice: types.NewCurrency64(r.Uint64N(1000)), WindowSize: 1 + r.Uint64N(100), Address: g.host.addr}
	fc := rhp2.PrepareContractFormation(g.renter.pk, g.host.pk, types.NewCurrency64(1+r.Uint64N(1<<40)), types.NewCurrency64(r.Uint64N(1<<40)), windowStart, hs, g.renter.addr)
	if r.IntN(4) != 0 {
		fc.Filesize = rhp2.SectorSize * (1 + r.Uint64N(1<<uint(1+r.IntN(18))))
		fc.FileMerkleRoot = randHash(r)
		fc.RevisionNumber = 1 + r.Uint64N(1000)
	}
	return types.FileContractRevision{ParentID: types.FileContractID(randHash(r)), UnlockConditions: g.uc, FileContract: fc}
}

// renewal2 builds an rhp2 renewal whose valid sum is exactly target (when feasible).
func (g *v1Gen) renewal2(target *big.Int, cur types.FileContractRevision, endHeight uint64) (v1Case, bool) {
	r := g.r
	hs := rhp2.HostSettings{WindowSize: 1 + r.Uint64N(200), Address: g.host.addr}
	var ext uint64
	if end := endHeight + hs.WindowSize; end > cur.FileContract.WindowEnd {
		ext = end - cur.FileContract.WindowEnd
	}
	quarter := new(big.Int).Rsh(target, 2)
	unit := new(big.Int).Mul(new(big.Int).SetUint64(max(cur.FileContract.Filesize, 1)), new(big.Int).SetUint64(max(ext, 1)))
	hs.StoragePrice = fromBig(randBelow(r, new(big.Int).Quo(quarter, unit)))
	hs.Collateral = fromBig(randBelow(r, new(big.Int).Quo(quarter, unit)))
	hs.ContractPrice = fromBig(randBelow(r, quarter))
	newCollateral := fromBig(randBelow(r, quarter))
	hostValid, _, _, _ := rhp2.CalculateHostPayouts(cur.FileContract, newCollateral, hs, endHeight)
	if toBig(hostValid).Cmp(target) > 0 {
		return v1Case{}, false
	}
	renterPayout := fromBig(new(big.Int).Sub(target, toBig(hostValid)))
	fc, basePrice := rhp2.PrepareContractRenewal(cur, g.renter.addr, renterPayout, newCollateral, hs, endHeight)
	return v1Case{
		ctor: "rhp2.PrepareContractRenewal", fc: fc,
		hostCost: hostValid.Sub(hs.ContractPrice).Sub(basePrice),
		renterCost: func(cs consensus.State, fee types.Currency) types.Currency {
			return rhp2.ContractRenewalCost(cs, fc, hs.ContractPrice, fee, basePrice)
		},
		params: map[string]any{"renter_payout": renterPayout.ExactString(), "new_collateral": newCollateral.ExactString(), "settings": jsonOf(map[string]any{"contractprice": hs.ContractPrice, "storageprice": hs.StoragePrice, "collateral": hs.Collateral, "windowsize": hs.WindowSize}), "end_height": endHeight, "current": jsonOf(cur.FileContract), "base_price": basePrice.ExactString()},
	}, true
}

// renewal3 builds an rhp3 renewal whose valid sum is exactly target (when feasible).
func (g *v1Gen) renewal3(target *big.Int, cur types.FileContractRevision, endHeight, hostHeight uint64) (v1Case, bool, error) {
	r := g.r
	pt := rhp3.HostPriceTable{WindowSize: 1 + r.Uint64N(200), HostBlockHeight: hostHeight}
	var ext uint64
	if end := endHeight + pt.WindowSize; end > cur.FileContract.WindowEnd {
		ext = end - cur.FileContract.WindowEnd
	}
	eighth := new(big.Int).Rsh(target, 3)
	unit := new(big.Int).Mul(new(big.Int).SetUint64(max(cur.FileContract.Filesize, 1)), new(big.Int).SetUint64(max(ext, 1)))
	pt.WriteStoreCost = fromBig(randBelow(r, new(big.Int).Quo(eighth, unit)))
	pt.CollateralCost = fromBig(randBelow(r, new(big.Int).Quo(eighth, unit)))
	pt.ContractPrice = fromBig(randBelow(r, eighth))
	pt.RenewContractCost = fromBig(randBelow(r, eighth))
	// MaxCollateral below, at or above the uncapped collateral
	pt.MaxCollateral = fromBig(randBelow(r, new(big.Int).Lsh(eighth, 1)))
	expectedNew := uint64(0)
	if !pt.CollateralCost.IsZero() && r.IntN(2) == 0 {
		dur := endHeight + pt.WindowSize - hostHeight
		lim := new(big.Int).Quo(eighth, new(big.Int).Mul(toBig(pt.CollateralCost), new(big.Int).SetUint64(max(dur, 1))))
		if lim.IsUint64() {
			expectedNew = r.Uint64N(lim.Uint64() + 1)
		} else {
			expectedNew = r.Uint64()
		}
	}
	minNew := types.ZeroCurrency
	hostValid, _, _, _, err := rhp3.CalculateHostPayouts(cur.FileContract, minNew, pt, expectedNew, endHeight)
	if err != nil {
		return v1Case{}, false, err
	}
	if toBig(hostValid).Cmp(target) > 0 {
		return v1Case{}, false, nil
	}
	if r.IntN(2) == 0 {
		// the largest admissible minimum: exactly the new collateral the host adds
		_, _, nc := rhp3.RenewalCosts(cur.FileContract, pt, expectedNew, endHeight)
		minNew = nc
	}
	renterPayout := fromBig(new(big.Int).Sub(target, toBig(hostValid)))
	hostAddr := g.host.addr
	fc, basePrice, err := rhp3.PrepareContractRenewal(cur, hostAddr, g.renter.addr, renterPayout, minNew, pt, expectedNew, endHeight)
	if err != nil {
		return v1Case{}, false, err
	}
	return v1Case{
		ctor: "rhp3.PrepareContractRenewal", fc: fc,
		hostCost: hostValid.Sub(pt.ContractPrice).Sub(basePrice),
		renterCost: func(cs consensus.State, fee types.Currency) types.Currency {
			return rhp3.ContractRenewalCost(cs, pt, fc, fee, basePrice)
		},
		params: map[string]any{"renter_payout": renterPayout.ExactString(), "min_new_collateral": minNew.ExactString(), "expected_new_storage": expectedNew, "end_height": endHeight,
			"price_table": jsonOf(map[string]any{"contractprice": pt.ContractPrice, "renewcontractcost": pt.RenewContractCost, "writestorecost": pt.WriteStoreCost, "collateralcost": pt.CollateralCost, "maxcollateral": pt.MaxCollateral, "windowsize": pt.WindowSize, "hostblockheight": pt.HostBlockHeight}),
			"current":     jsonOf(cur.FileContract), "base_price": basePrice.ExactString()},
	}, true, nil
}

// guarded variants: a panic inside a constructor is a violation of its own, not the end of the batch.
func (g *v1Gen) formationG(b *harness.B, target *big.Int, endHeight uint64) (vc v1Case, ok bool) {
	p := b.Guard("C17/v1/rhp2.PrepareContractFormation", func() any { return map[string]any{"target": target.String(), "end_height": endHeight} }, func() { vc = g.formation(target, endHeight) })
	return vc, !p
}

func (g *v1Gen) renewal2G(b *harness.B, target *big.Int, cur types.FileContractRevision, endHeight uint64) (vc v1Case, ok bool) {
	p := b.Guard("C17/v1/rhp2.PrepareContractRenewal", func() any {
		return map[string]any{"target": target.String(), "end_height": endHeight, "current": jsonOf(cur.FileContract)}
	}, func() { vc, ok = g.renewal2(target, cur, endHeight) })
	return vc, ok && !p
}

func (g *v1Gen) renewal3G(b *harness.B, target *big.Int, cur types.FileContractRevision, endHeight, hostHeight uint64) (vc v1Case, ok bool, err error) {
	p := b.Guard("C17/v1/rhp3.PrepareContractRenewal", func() any {
		return map[string]any{"target": target.String(), "end_height": endHeight, "host_height": hostHeight, "current": jsonOf(cur.FileContract)}
	}, func() { vc, ok, err = g.renewal3(target, cur, endHeight, hostHeight) })
	return vc, ok && !p, err
}

// ---------------------------------------------------------------------------
// v1 consensus submission

func stdInput(id types.SiacoinOutputID, a actor) types.SiacoinInput {
	return types.SiacoinInput{ParentID: id, UnlockConditions: types.StandardUnlockConditions(a.pk)}
}

func signV1(cs consensus.State, txn *types.Transaction, parent types.Hash256, keyIndex uint64, sk types.PrivateKey) {
	sig := sk.SignHash(cs.WholeSigHash(*txn, parent, keyIndex, 0, nil))
	txn.Signatures = append(txn.Signatures, types.TransactionSignature{ParentID: parent, PublicKeyIndex: keyIndex, CoveredFields: types.CoveredFields{WholeTransaction: true}, Signature: sig[:]})
}

// submitV1 funds vc's contract with exactly the reported costs and validates it on the
// MidState after a setup transaction. With mine=true the two transactions are mined and the
// contract element is returned.
func submitV1(b *harness.B, r *rand.Rand, c *chain, g *v1Gen, vc v1Case, mine bool) (types.FileContractElement, bool) {
	fee := types.NewCurrency64(1 + r.Uint64N(1<<40))
	var rc types.Currency
	if b.Guard("C17/v1/cost/"+vc.ctor, func() any { return v1Witness{vc.ctor, "", jsonOf(vc.fc), vc.params} }, func() { rc = vc.renterCost(c.cs, fee) }) {
		return types.FileContractElement{}, false
	}
	w := map[string]any{"constructor": vc.ctor, "contract": jsonOf(vc.fc), "params": vc.params, "renter_cost_incl_fee": rc.ExactString(), "host_cost": vc.hostCost.ExactString(), "miner_fee": fee.ExactString()}
	type slot struct {
		a   actor
		val types.Currency
	}
	slots := []slot{{g.renter, rc}}
	if !vc.hostCost.IsZero() {
		slots = append(slots, slot{g.host, vc.hostCost})
	}
	anyone := types.UnlockConditions{}
	setup := types.Transaction{SiacoinInputs: []types.SiacoinInput{{ParentID: c.fund.ID, UnlockConditions: anyone}}}
	total := new(big.Int)
	for _, sl := range slots {
		setup.SiacoinOutputs = append(setup.SiacoinOutputs, types.SiacoinOutput{Address: types.StandardUnlockHash(sl.a.pk), Value: sl.val})
		total.Add(total, toBig(sl.val))
	}
	ctrlIdx := -1
	if r.IntN(3) == 0 {
		v := slots[0].val.Add(types.NewCurrency64(1))
		if r.IntN(2) == 0 && slots[0].val.Cmp(types.NewCurrency64(1)) > 0 {
			v = slots[0].val.Sub(types.NewCurrency64(1))
		}
		ctrlIdx = len(setup.SiacoinOutputs)
		setup.SiacoinOutputs = append(setup.SiacoinOutputs, types.SiacoinOutput{Address: types.StandardUnlockHash(slots[0].a.pk), Value: v})
		total.Add(total, toBig(v))
	}
	change := new(big.Int).Sub(toBig(c.fund.SiacoinOutput.Value), total)
	if change.Sign() <= 0 {
		b.Inconclusive("v1 funding element exhausted")
		return types.FileContractElement{}, false
	}
	changeIdx := len(setup.SiacoinOutputs)
	setup.SiacoinOutputs = append(setup.SiacoinOutputs, types.SiacoinOutput{Address: anyone.UnlockHash(), Value: fromBig(change)})
	setupSup := consensus.V1TransactionSupplement{SiacoinInputs: []types.SiacoinElement{c.fund.Copy()}}
	ms := consensus.NewMidState(c.cs)
	if err := consensus.ValidateTransaction(ms, setup, setupSup); err != nil {
		b.Inconclusive("harness v1 setup transaction rejected: " + errClass(err))
		return types.FileContractElement{}, false
	}
	ms.ApplyTransaction(setup, setupSup)
	build := func(useCtrl bool) types.Transaction {
		txn := types.Transaction{FileContracts: []types.FileContract{vc.fc}, MinerFees: []types.Currency{fee}}
		for i, sl := range slots {
			idx := i
			if useCtrl && i == 0 {
				idx = ctrlIdx
			}
			txn.SiacoinInputs = append(txn.SiacoinInputs, stdInput(setup.SiacoinOutputID(idx), sl.a))
		}
		for i, sl := range slots {
			signV1(c.cs, &txn, types.Hash256(txn.SiacoinInputs[i].ParentID), 0, sl.a.sk)
		}
		return txn
	}
	if ctrlIdx >= 0 {
		bad := build(true)
		if err := consensus.ValidateTransaction(ms, bad, consensus.V1TransactionSupplement{}); err == nil {
			b.Violate("C17/v1/control/misfunded-transaction-accepted", "a v1 contract transaction funded with reported cost ±1 H was accepted", w)
		} else {
			b.Count("v1_consensus_rejected_controls", 1)
			b.SetAdd("control_rejection_classes", "v1: "+errClass(err))
		}
	}
	txn := build(false)
	if err := consensus.ValidateTransaction(ms, txn, consensus.V1TransactionSupplement{}); err != nil {
		w["transaction"] = jsonOf(txn)
		b.Violate("C17/v1/consensus-reject/"+vc.ctor+"/"+errClass(err), fmt.Sprintf("contract from %s funded with exactly the reported costs was rejected by ValidateTransaction: %v", vc.ctor, err), w)
		return types.FileContractElement{}, false
	}
	b.Count("v1_consensus_accepted", 1)
	b.Count("v1_consensus_accepted_"+vc.ctor, 1)
	if !mine {
		return types.FileContractElement{}, true
	}
	au, err := c.mine([]types.Transaction{setup, txn}, []consensus.V1TransactionSupplement{setupSup, {}}, nil, setup.SiacoinOutputID(changeIdx))
	if err != nil {
		b.Inconclusive("v1 block rejected after its transactions were accepted: " + errClass(err))
		return types.FileContractElement{}, false
	}
	b.Count("blocks_validated", 1)
	el, ok := findV1Contract(au, txn.FileContractID(0))
	if !ok {
		b.Inconclusive("formed v1 contract not reported by ApplyUpdate")
		return types.FileContractElement{}, false
	}
	return el, true
}

// ---------------------------------------------------------------------------
// batch 0: tax inversion over the grid, through all three v1 constructors

// preTaxHardfork: the v1 constructors on a state below the network's tax hardfork height, where the consensus tax is
// the historical floating-point 3.9% (not rounded to a multiple of the siafund count). One fixed witness.
func preTaxHardfork(b *harness.B) {
	n := newNetwork(false, 1)
	n.HardforkTax.Height = 21000
	cs := n.GenesisState()
	cs.Index.Height = 5 // any height below the fork; only the tax rule depends on it
	renter, host := newActor(b.SubRng("pre-tax")), newActor(b.SubRng("pre-tax-host"))
	hs := rhp2.HostSettings{ContractPrice: types.Siacoins(1).Div64(5), WindowSize: 144, Address: host.addr}
	fc := rhp2.PrepareContractFormation(renter.pk, host.pk, types.Siacoins(500), types.Siacoins(1000), 5000, hs, renter.addr)
	valid := sumOutputs(fc.ValidProofOutputs)
	want := new(big.Int).Add(valid, toBig(cs.FileContractTax(fc)))
	b.Eval(1)
	b.Count("v1_pre_tax_hardfork_cases", 1)
	if toBig(fc.Payout).Cmp(want) != 0 {
		b.Violate("C17/v1/rhp2.PrepareContractFormation/payout-violates-the-consensus-tax-equation/below-the-tax-hardfork-height",
			fmt.Sprintf("at a height below HardforkTax.Height the consensus tax of the constructed contract is %v: payout %v != valid sum %v + tax (off by %v); validation rejects it with \"payout with incorrect tax\"", cs.FileContractTax(fc), fc.Payout, valid, new(big.Int).Sub(toBig(fc.Payout), want)),
			map[string]any{"tax_hardfork_height": 21000, "height": 5, "renter_payout": "500 SC", "host_collateral": "1 KS", "contract_price": "0.2 SC"})
	}
}

func runV1Payouts(b *harness.B) {
	r := b.Rng
	preTaxHardfork(b)
	c, err := newChain(false, 1, pow2(126))
	if err != nil {
		b.Inconclusive("cannot build v1 chain: " + err.Error())
		return
	}
	for i := 0; i < 5; i++ {
		if _, err := c.mine(nil, nil, nil, types.SiacoinOutputID{}); err != nil {
			b.Inconclusive("cannot build v1 chain: " + errClass(err))
			return
		}
	}
	b.Count("blocks_validated", 5)
	g := newV1Gen(r)
	targets := v1Targets(r, b.Pick(20000, 300000))
	b.Count("v1_grid_targets", len(targets))
	submitEvery := b.Pick(12, 40)
	for i, t := range targets {
		child := c.childHeight()
		endHeight := child + r.Uint64N(500)
		cls := fmt.Sprint(t.BitLen(), "/", new(big.Int).Mod(t, big.NewInt(10000)).Cmp(new(big.Int).Mod(new(big.Int).Quo(new(big.Int).Mul(t, big.NewInt(1000)), big.NewInt(961)), big.NewInt(10000))))
		// formation
		vc, built := g.formationG(b, t, endHeight)
		if built {
			ok := checkV1Contract(b, vc.ctor, vc.fc, c.cs, t, vc.params)
			b.Distinct("v1", vc.ctor, cls)
			if ok && i%submitEvery == 0 {
				submitV1(b, r, c.snapshot(), g, vc, false)
			}
		}
		// renewals from a current revision
		cur := g.oldRevision(child + r.Uint64N(200))
		end2 := max(cur.FileContract.WindowStart, child) + r.Uint64N(300)
		if vc2, feasible := g.renewal2G(b, t, cur, end2); feasible {
			ok := checkV1Contract(b, vc2.ctor, vc2.fc, c.cs, t, vc2.params)
			b.Distinct("v1", vc2.ctor, cls, cur.FileContract.Filesize > 0, end2+1 > cur.FileContract.WindowEnd)
			if ok && i%submitEvery == 1 {
				submitV1(b, r, c.snapshot(), g, vc2, false)
			}
			b.Count("v1_renewals_checked", 1)
		}
		// the renter-side helper that proposes the new collateral of a renewal: with the time extension the
		// constructor uses (CalculateHostPayouts), base + proposed collateral stays within the host's maximum
		if i%7 == 0 {
			hs := rhp2.HostSettings{WindowSize: 1 + r.Uint64N(200), Collateral: types.NewCurrency64(r.Uint64N(1 << 20)), MaxCollateral: randCurrency(r, 90)}
			fc := cur.FileContract
			endH := max(fc.WindowStart, child) + r.Uint64N(300)
			newStorage := r.Uint64N(1 << 40)
			var got types.Currency
			wit := func() any {
				return map[string]any{"contract": jsonOf(fc), "expected_new_storage": newStorage, "collateral": hs.Collateral.ExactString(), "max_collateral": hs.MaxCollateral.ExactString(), "window_size": hs.WindowSize, "block_height": child, "end_height": endH}
			}
			b.Eval(1)
			b.Count("v1_renewal_collateral_proposals_checked", 1)
			if !b.Guard("C17/v1/rhp2.ContractRenewalCollateral", wit, func() { got = rhp2.ContractRenewalCollateral(fc, newStorage, hs, child, endH) }) {
				var ext uint64
				if end := endH + hs.WindowSize; end > fc.WindowEnd {
					ext = end - fc.WindowEnd
				}
				base := new(big.Int).Mul(toBig(hs.Collateral), new(big.Int).Mul(new(big.Int).SetUint64(fc.Filesize), new(big.Int).SetUint64(ext)))
				total := new(big.Int).Add(base, toBig(got))
				if !got.IsZero() && total.Cmp(toBig(hs.MaxCollateral)) > 0 {
					b.Violate("C17/v1/rhp2.ContractRenewalCollateral/proposal-exceeds-the-host-maximum", fmt.Sprintf("proposed new collateral %v plus the base collateral the renewal constructor will add (%v, extension %d blocks) exceeds MaxCollateral %v", got.ExactString(), base, ext, hs.MaxCollateral.ExactString()), wit())
				}
			}
		}
		hostHeight := child - 1 - r.Uint64N(min(child-1, 3)+1)
		if vc3, feasible, err := g.renewal3G(b, t, cur, end2, hostHeight); err != nil {
			b.Count("v1_rhp3_renewal_refused", 1)
			b.SetAdd("validate_rejections", "rhp3 renewal: "+errClass(err))
		} else if feasible {
			ok := checkV1Contract(b, vc3.ctor, vc3.fc, c.cs, t, vc3.params)
			b.Distinct("v1", vc3.ctor, cls, cur.FileContract.Filesize > 0)
			if ok && i%submitEvery == 2 {
				submitV1(b, r, c.snapshot(), g, vc3, false)
			}
			b.Count("v1_renewals_checked", 1)
		}
		if i == 0 && built {
			b.Sample(map[string]any{"kind": "v1 formation", "target": t.String(), "payout": vc.fc.Payout.ExactString()})
		}
	}
	// CalculateHostPayouts on their own: valid = missed + void
	for i := 0; i < b.Pick(3000, 100000); i++ {
		b.Eval(1)
		cur := g.oldRevision(10 + r.Uint64N(200))
		end := cur.FileContract.WindowStart + r.Uint64N(300)
		hs := rhp2.HostSettings{WindowSize: 1 + r.Uint64N(200), StoragePrice: randCurrency(r, 40), Collateral: randCurrency(r, 40), ContractPrice: randCurrency(r, 90), MaxCollateral: randCurrency(r, 100)}
		nc := randCurrency(r, 100)
		var hv, hm, vm types.Currency
		wit := func() any {
			return map[string]any{"current": jsonOf(cur.FileContract), "end_height": end, "new_collateral": nc.ExactString(), "window": hs.WindowSize, "storageprice": hs.StoragePrice.ExactString(), "collateral": hs.Collateral.ExactString(), "contractprice": hs.ContractPrice.ExactString()}
		}
		if !b.Guard("C17/v1/rhp2.CalculateHostPayouts", wit, func() { hv, hm, vm, _ = rhp2.CalculateHostPayouts(cur.FileContract, nc, hs, end) }) {
			if bsum(hm, vm).Cmp(toBig(hv)) != 0 {
				b.Violate("C17/v1/rhp2.CalculateHostPayouts/valid-differs-from-missed-plus-void", fmt.Sprintf("valid %v != missed %v + void %v", hv, hm, vm), wit())
			}
			b.Count("v1_host_payouts_checked", 1)
		}
		pt := rhp3.HostPriceTable{WindowSize: 1 + r.Uint64N(200), HostBlockHeight: r.Uint64N(end + 1), WriteStoreCost: randCurrency(r, 40), CollateralCost: randCurrency(r, 40), ContractPrice: randCurrency(r, 90), RenewContractCost: randCurrency(r, 90), MaxCollateral: randCurrency(r, 110)}
		exp := r.Uint64N(1 << 30)
		hv, hm, vm, _, err := rhp3.CalculateHostPayouts(cur.FileContract, types.ZeroCurrency, pt, exp, end)
		if err == nil {
			if bsum(hm, vm).Cmp(toBig(hv)) != 0 {
				b.Violate("C17/v1/rhp3.CalculateHostPayouts/valid-differs-from-missed-plus-void", fmt.Sprintf("valid %v != missed %v + void %v", hv, hm, vm), map[string]any{"current": jsonOf(cur.FileContract), "end_height": end, "price_table": jsonOf(pt), "expected_new_storage": exp})
			}
			b.Count("v1_host_payouts_checked", 1)
			b.SetAdd("constructors_exercised", "rhp2.CalculateHostPayouts")
			b.SetAdd("constructors_exercised", "rhp3.CalculateHostPayouts")
			b.Distinct("v1hp", toBig(pt.MaxCollateral).BitLen()/8, cur.FileContract.Filesize > 0)
		}
	}
}

// ---------------------------------------------------------------------------
// batch 1: contracts on a real v1 chain, PayByContract revisions, renewals

func revisionTxn(cs consensus.State, g *v1Gen, rev types.FileContractRevision) types.Transaction {
	txn := types.Transaction{FileContractRevisions: []types.FileContractRevision{cloneRevision(rev)}}
	signV1(cs, &txn, types.Hash256(rev.ParentID), 0, g.renter.sk)
	signV1(cs, &txn, types.Hash256(rev.ParentID), 1, g.host.sk)
	return txn
}

func cloneRevision(rev types.FileContractRevision) types.FileContractRevision {
	c := rev
	c.FileContract.ValidProofOutputs = append([]types.SiacoinOutput(nil), rev.FileContract.ValidProofOutputs...)
	c.FileContract.MissedProofOutputs = append([]types.SiacoinOutput(nil), rev.FileContract.MissedProofOutputs...)
	return c
}

func runV1Chain(b *harness.B) {
	r := b.SubRng("v1chain")
	base, err := newChain(false, uint64(r.IntN(3)), pow2(126))
	if err != nil {
		b.Inconclusive("cannot build v1 chain: " + err.Error())
		return
	}
	for i := 0; i < 3+r.IntN(20); i++ {
		if _, err := base.mine(nil, nil, nil, types.SiacoinOutputID{}); err != nil {
			b.Inconclusive("cannot build v1 chain: " + errClass(err))
			return
		}
		b.Count("blocks_validated", 1)
	}
	nseq := b.Pick(3000, 40000)
	for q := 0; q < nseq; q++ {
		c := base.snapshot()
		g := newV1Gen(r)
		target := toBig(randCurrency(r, 8+r.IntN(100)))
		if target.Sign() == 0 {
			target.SetInt64(1)
		}
		endHeight := c.childHeight() + 2 + r.Uint64N(40)
		vc, built := g.formationG(b, target, endHeight)
		if !built || !checkV1Contract(b, vc.ctor, vc.fc, c.cs, target, vc.params) {
			continue
		}
		fce, ok := submitV1(b, r, c, g, vc, true)
		if !ok {
			continue
		}
		rev := types.FileContractRevision{ParentID: fce.ID, UnlockConditions: g.uc, FileContract: fce.FileContract}
		rev = cloneRevision(rev)
		ops := []string{"form"}
		steps := 1 + r.IntN(6)
		dead := false
		for i := 0; i < steps && !dead; i++ {
			if r.IntN(4) == 0 && rev.FileContract.RevisionNumber != types.MaxRevisionNumber {
				// harness "write": data only, values untouched
				rev.FileContract.Filesize += rhp2.SectorSize * (1 + r.Uint64N(64))
				rev.FileContract.FileMerkleRoot = randHash(r)
				rev.FileContract.RevisionNumber++
				ops = append(ops, "write")
				if mo := rev.FileContract.MissedProofOutputs; r.IntN(3) == 0 && len(mo) == 3 && !mo[types.RenterContractIndex].Value.IsZero() {
					// the missed side need not mirror the valid side: part of what the renter gets back on a missed
					// proof goes to the void output instead (the sums stay equal, which is all consensus asks)
					rev.FileContract.MissedProofOutputs = append([]types.SiacoinOutput(nil), mo...)
					mo = rev.FileContract.MissedProofOutputs
					x := fromBig(new(big.Int).Rsh(toBig(mo[types.RenterContractIndex].Value), uint(r.IntN(4))))
					mo[types.RenterContractIndex].Value = mo[types.RenterContractIndex].Value.Sub(x)
					mo[2].Value = mo[2].Value.Add(x)
					ops = append(ops, "burn-renter-missed")
					b.Count("v1_revisions_with_renter_missed_below_valid", 1)
				}
				if r.IntN(6) == 0 && rev.FileContract.RevisionNumber < types.MaxRevisionNumber-3 {
					// the revision number jumps to the end of its range (the last one is what a finalised contract carries)
					rev.FileContract.RevisionNumber = types.MaxRevisionNumber - uint64(r.IntN(3))
					ops = append(ops, fmt.Sprintf("write-to-max-%d", types.MaxRevisionNumber-rev.FileContract.RevisionNumber))
				}
				continue
			}
			b.Eval(1)
			before := cloneRevision(rev)
			vr, mr := before.FileContract.ValidRenterPayout(), before.FileContract.MissedRenterPayout()
			avail := vr
			if mr.Cmp(avail) < 0 {
				avail = mr
			}
			var amount types.Currency
			cls := "fraction"
			switch r.IntN(6) {
			case 0:
				amount, cls = avail, "all"
			case 1:
				amount, cls = avail.Add(types.NewCurrency64(1)), "all+1"
			case 2:
				if !avail.IsZero() {
					amount, cls = avail.Sub(types.NewCurrency64(1)), "all-1"
				}
			case 3:
				amount, cls = types.ZeroCurrency, "zero"
			default:
				v := toBig(avail)
				amount = fromBig(v.Rsh(v, uint(1+r.IntN(8))))
			}
			wit := func() any {
				return map[string]any{"before": jsonOf(before.FileContract), "amount": amount.ExactString(), "ops": ops}
			}
			var req rhp3.PayByContractRequest
			var paid bool
			if b.Guard("C17/v1/rhp3.PayByContract", wit, func() { req, paid = rhp3.PayByContract(&rev, amount, rhp3.Account(g.renter.pk), g.renter.sk) }) {
				dead = true
				break
			}
			ops = append(ops, "pay-"+cls)
			b.Distinct("v1pay", cls, paid, len(ops))
			sufficient := vr.Cmp(amount) >= 0 && mr.Cmp(amount) >= 0
			key := "C17/v1/rhp3.PayByContract"
			if before.FileContract.RevisionNumber == types.MaxRevisionNumber {
				// "no further revisions are possible": whatever the funds, the constructor has to refuse
				b.Count("v1_paybycontract_on_the_last_revision_number", 1)
				if paid {
					b.Violate(key+"/last-revision-number/revision-number-wraps-around", fmt.Sprintf("the contract is at revision number 2^64-1; PayByContract returned ok with revision number %d (request %d), which consensus rejects", rev.FileContract.RevisionNumber, req.RevisionNumber), wit())
					dead = true
				} else if !reflect.DeepEqual(rev, before) {
					b.Violate(key+"/modifies-revision-on-failure", "PayByContract returned false and changed the revision", wit())
					dead = true
				}
				continue
			}
			if !sufficient {
				b.Count("v1_paybycontract_insufficient", 1)
				if paid {
					b.Violate(key+"/accepts-insufficient-funds", fmt.Sprintf("paid %v from valid %v / missed %v", amount, vr, mr), wit())
					dead = true
				} else if !reflect.DeepEqual(rev, before) {
					b.Violate(key+"/modifies-revision-on-failure", "PayByContract returned false and changed the revision", wit())
					dead = true
				}
				continue
			}
			if !paid {
				b.Violate(key+"/rejects-sufficient-funds", fmt.Sprintf("refused %v from valid %v / missed %v", amount, vr, mr), wit())
				dead = true
				continue
			}
			a, z := before.FileContract, rev.FileContract
			if sumOutputs(a.ValidProofOutputs).Cmp(sumOutputs(z.ValidProofOutputs)) != 0 {
				b.Violate(key+"/changes-valid-sum", "valid proof output sum changed", wit())
			}
			if sumOutputs(a.MissedProofOutputs).Cmp(sumOutputs(z.MissedProofOutputs)) != 0 {
				b.Violate(key+"/changes-missed-sum", "missed proof output sum changed", wit())
			}
			if new(big.Int).Sub(toBig(vr), toBig(z.ValidRenterPayout())).Cmp(toBig(amount)) != 0 || new(big.Int).Sub(toBig(mr), toBig(z.MissedRenterPayout())).Cmp(toBig(amount)) != 0 {
				b.Violate(key+"/renter-not-charged-amount", "renter valid/missed payout not reduced by the amount", wit())
			}
			if z.RevisionNumber != a.RevisionNumber+1 || req.RevisionNumber != z.RevisionNumber {
				b.Violate(key+"/revision-number-not-incremented", fmt.Sprintf("revision number %d -> %d (request %d)", a.RevisionNumber, z.RevisionNumber, req.RevisionNumber), wit())
			}
			if !g.renter.pk.VerifyHash(req.SigHash(rev), req.Signature) {
				b.Violate(key+"/request-signature-invalid", "the request signature does not verify over the new revision", wit())
			}
			b.Count("v1_revisions_checked", 1)
			b.SetAdd("constructors_exercised", "rhp3.PayByContract")
			// consensus: the revision against the confirmed parent
			txn := revisionTxn(c.cs, g, rev)
			sup := consensus.V1TransactionSupplement{RevisedFileContracts: []types.FileContractElement{fce.Copy()}}
			if err := consensus.ValidateTransaction(consensus.NewMidState(c.cs), txn, sup); err != nil {
				b.Violate("C17/v1/consensus-reject/revision/rhp3.PayByContract/"+errClass(err), fmt.Sprintf("PayByContract revision rejected by ValidateTransaction: %v", err), wit())
				dead = true
				continue
			}
			b.Count("v1_consensus_accepted", 1)
			b.Count("v1_consensus_accepted_revision", 1)
			if r.IntN(6) == 0 {
				bad := cloneRevision(rev)
				bad.FileContract.ValidProofOutputs[1].Value = bad.FileContract.ValidProofOutputs[1].Value.Add(types.NewCurrency64(1))
				if err := consensus.ValidateTransaction(consensus.NewMidState(c.cs), revisionTxn(c.cs, g, bad), sup); err == nil {
					b.Violate("C17/v1/control/value-creating-revision-accepted", "a v1 revision adding 1 H to the valid host output was accepted", wit())
				} else {
					b.Count("v1_consensus_rejected_controls", 1)
					b.SetAdd("control_rejection_classes", "v1: "+errClass(err))
				}
			}
			if r.IntN(4) == 0 && c.childHeight() < rev.FileContract.WindowStart {
				au, err := c.mine([]types.Transaction{txn}, []consensus.V1TransactionSupplement{sup}, nil, types.SiacoinOutputID{})
				if err != nil {
					b.Inconclusive("v1 block rejected after its transactions were accepted: " + errClass(err))
					dead = true
					continue
				}
				b.Count("blocks_validated", 1)
				if el, ok := findV1Contract(au, fce.ID); ok {
					fce = el
					fce.FileContract = cloneRevision(types.FileContractRevision{FileContract: el.FileContract}).FileContract
					ops = append(ops, "confirm")
				} else {
					b.Inconclusive("revised v1 contract not reported by ApplyUpdate")
					dead = true
				}
			}
		}
		if dead {
			continue
		}
		// renew from the latest revision
		t2 := toBig(randCurrency(r, 8+r.IntN(100)))
		if t2.Sign() == 0 {
			t2.SetInt64(1)
		}
		end2 := max(rev.FileContract.WindowStart, c.childHeight()) + r.Uint64N(100)
		var vc2 v1Case
		var feasible bool
		if r.IntN(2) == 0 {
			vc2, feasible = g.renewal2G(b, t2, rev, end2)
		} else {
			var err error
			vc2, feasible, err = g.renewal3G(b, t2, rev, end2, c.cs.Index.Height)
			if err != nil {
				b.Count("v1_rhp3_renewal_refused", 1)
			}
		}
		if feasible {
			if checkV1Contract(b, vc2.ctor, vc2.fc, c.cs, t2, vc2.params) {
				submitV1(b, r, c, g, vc2, r.IntN(3) == 0)
			}
			b.Count("v1_renewals_checked", 1)
			ops = append(ops, vc2.ctor)
		}
		// a renewal asked for when the chain has reached the contract's window start, ending at the host's current
		// height: the renewed window would start in a block that exists already. Refused, or valid - not built and
		// then rejected by consensus.
		if gap := int64(rev.FileContract.WindowStart) - int64(c.cs.Index.Height); r.IntN(5) == 0 && gap >= 0 && gap <= 45 {
			okChain := true
			for i := int64(0); i < gap && okChain; i++ {
				_, err := c.mine(nil, nil, nil, types.SiacoinOutputID{})
				okChain = err == nil
			}
			if okChain && c.cs.Index.Height == rev.FileContract.WindowStart {
				tip := c.cs.Index.Height
				t3 := toBig(randCurrency(r, 8+r.IntN(60)))
				if t3.Sign() == 0 {
					t3.SetInt64(1)
				}
				vc3, feasible, _ := g.renewal3G(b, t3, rev, tip, tip)
				b.Count("v1_rhp3_renewals_ending_at_the_hosts_height", 1)
				if feasible {
					b.Count("v1_rhp3_renewals_ending_at_the_hosts_height_built", 1)
					if checkV1Contract(b, vc3.ctor, vc3.fc, c.cs, t3, vc3.params) {
						submitV1(b, r, c, g, vc3, false)
					}
				}
			}
		}
		if len(ops) > 6 {
			ops = ops[:6]
		}
		b.Distinct("v1seq", fmt.Sprint(ops))
	}
}
