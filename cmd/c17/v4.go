package main

import (
	"encoding/json"
	"fmt"
	"math/big"
	"math/rand/v2"
	"reflect"
	"strings"
	"time"

	"go.sia.tech/core/consensus"
	rhp4 "go.sia.tech/core/rhp/v4"
	"go.sia.tech/core/types"
	"verif/internal/harness"
)

// farFuture is the fixed expiry of every price table so that the library's own
// time.Now() comparisons have a constant outcome.
var farFuture = time.Unix(4102444800, 0).UTC() // 2100-01-01

const sectorSize = uint64(rhp4.SectorSize)

type actor struct {
	sk   types.PrivateKey
	pk   types.PublicKey
	pol  types.SpendPolicy
	addr types.Address
}

func newActor(r *rand.Rand) actor {
	seed := make([]byte, 32)
	for i := range seed {
		seed[i] = byte(r.Uint32())
	}
	sk := types.NewPrivateKeyFromSeed(seed)
	pk := sk.PublicKey()
	pol := types.PolicyPublicKey(pk)
	return actor{sk, pk, pol, pol.Address()}
}

func randHash(r *rand.Rand) (h types.Hash256) {
	for i := 0; i < 32; i += 8 {
		v := r.Uint64()
		for j := 0; j < 8; j++ {
			h[i+j] = byte(v >> (8 * j))
		}
	}
	return
}

// shared pool of sector roots (content is irrelevant for the helpers)
var sectorPool = func() []types.Hash256 {
	p := make([]types.Hash256, rhp4.MaxSectorBatchSize)
	for i := range p {
		p[i][0], p[i][1], p[i][2] = byte(i), byte(i>>8), byte(i>>16)
	}
	return p
}()

func randPrice(r *rand.Rand, largeBits int) types.Currency {
	switch r.IntN(10) {
	case 0:
		return types.ZeroCurrency
	case 1, 2:
		return types.NewCurrency64(1 + r.Uint64N(100))
	case 3, 4, 5, 6, 7:
		return randCurrency(r, 10+r.IntN(36))
	default:
		return randCurrency(r, largeBits)
	}
}

type seqState struct {
	b  *harness.B
	r  *rand.Rand
	c  *chain
	id int

	renter, host  actor
	prices        rhp4.HostPrices
	maxCollateral types.Currency
	maxDuration   uint64

	fc   types.V2FileContract        // latest constructor-produced revision, signed
	elem types.V2FileContractElement // its confirmed parent (accumulator element)

	ops  []string
	hist []any
	plan *appendPlan
	dead bool
}

// appendPlan is the append the sequence will perform right after a formation /
// renewal / refresh whose collateral and allowance were chosen for it.
type appendPlan struct {
	n      uint64
	dc, da int // requested offsets of missed host value / renter output relative to the append's cost
}

func (s *seqState) note(op string, rec map[string]any) {
	s.ops = append(s.ops, op)
	if rec == nil {
		rec = map[string]any{}
	}
	rec["op"] = op
	s.hist = append(s.hist, rec)
}

func jsonOf(v any) json.RawMessage {
	raw, err := json.Marshal(v)
	if err != nil {
		return json.RawMessage(`"` + err.Error() + `"`)
	}
	return raw
}

func (s *seqState) witness(extra map[string]any) map[string]any {
	w := map[string]any{
		"sequence":       strings.Join(s.ops, ">"),
		"history":        s.hist,
		"prices":         jsonOf(s.prices),
		"contract":       jsonOf(s.fc),
		"chain_height":   s.c.cs.Index.Height,
		"sequence_index": s.id,
	}
	for k, v := range extra {
		w[k] = v
	}
	return w
}

func (s *seqState) violate(key, detail string, extra map[string]any) {
	s.b.Violate(key, detail, s.witness(extra))
}

// newPrices draws and signs a price table whose TipHeight is near the chain tip but
// (if a contract exists) below its proof height.
func (s *seqState) newPrices() {
	r := s.r
	tip := s.c.cs.Index.Height
	th := int64(tip) + int64(r.IntN(7)) - 3
	if th < 0 {
		th = 0
	}
	if s.fc.ProofHeight > 0 && uint64(th) >= s.fc.ProofHeight {
		th = int64(s.fc.ProofHeight) - 1
	}
	s.prices = rhp4.HostPrices{
		ContractPrice:   randPrice(r, 100),
		Collateral:      randPrice(r, 56),
		StoragePrice:    randPrice(r, 56),
		IngressPrice:    randPrice(r, 56),
		EgressPrice:     randPrice(r, 56),
		FreeSectorPrice: randPrice(r, 80),
		TipHeight:       uint64(th),
		ValidUntil:      farFuture,
	}
	s.prices.Signature = s.host.sk.SignHash(s.prices.SigHash())
}

func (s *seqState) priceShape() string {
	p := s.prices
	return bitClass(p.ContractPrice) + bitClass(p.Collateral) + bitClass(p.StoragePrice) + bitClass(p.IngressPrice) + bitClass(p.EgressPrice) + bitClass(p.FreeSectorPrice)
}

func (s *seqState) signContract(fc *types.V2FileContract) {
	h := s.c.cs.ContractSigHash(*fc)
	fc.RenterSignature = s.renter.sk.SignHash(h)
	fc.HostSignature = s.host.sk.SignHash(h)
}

// ---------------------------------------------------------------------------
// consensus submission

// submitFunded funds mk()'s transaction with exactly renterCost and hostCost (ephemeral
// outputs of a setup transaction that spends the chain's funding element), validates it
// on the MidState after the setup transaction and, when accepted, mines both. It returns
// the ApplyUpdate and the final transaction.
func (s *seqState) submitFunded(kind string, renterCost, hostCost types.Currency, mk func() types.V2Transaction) (consensus.ApplyUpdate, types.V2Transaction, bool) {
	b, c := s.b, s.c
	type slot struct {
		a   actor
		val types.Currency
	}
	slots := []slot{}
	if !renterCost.IsZero() {
		slots = append(slots, slot{s.renter, renterCost})
	}
	if !hostCost.IsZero() {
		slots = append(slots, slot{s.host, hostCost})
	}
	// rejection control: the same transaction with the first input off by one hasting
	ctrl := -1
	var ctrlVal types.Currency
	if len(slots) > 0 && s.r.IntN(3) == 0 {
		ctrl = 0
		if s.r.IntN(2) == 0 && slots[0].val.Cmp(types.NewCurrency64(1)) > 0 {
			ctrlVal = slots[0].val.Sub(types.NewCurrency64(1))
		} else {
			ctrlVal = slots[0].val.Add(types.NewCurrency64(1))
		}
	}
	total := new(big.Int)
	setup := types.V2Transaction{SiacoinInputs: []types.V2SiacoinInput{{Parent: c.fund.Copy(), SatisfiedPolicy: types.SatisfiedPolicy{Policy: types.AnyoneCanSpend()}}}}
	for _, sl := range slots {
		setup.SiacoinOutputs = append(setup.SiacoinOutputs, types.SiacoinOutput{Address: sl.a.addr, Value: sl.val})
		total.Add(total, toBig(sl.val))
	}
	ctrlIdx := -1
	if ctrl >= 0 {
		ctrlIdx = len(setup.SiacoinOutputs)
		setup.SiacoinOutputs = append(setup.SiacoinOutputs, types.SiacoinOutput{Address: slots[ctrl].a.addr, Value: ctrlVal})
		total.Add(total, toBig(ctrlVal))
	}
	change := new(big.Int).Sub(toBig(c.fund.SiacoinOutput.Value), total)
	if change.Sign() <= 0 {
		b.Inconclusive("funding element exhausted")
		s.dead = true
		return consensus.ApplyUpdate{}, types.V2Transaction{}, false
	}
	changeIdx := len(setup.SiacoinOutputs)
	setup.SiacoinOutputs = append(setup.SiacoinOutputs, types.SiacoinOutput{Address: types.AnyoneCanSpend().Address(), Value: fromBig(change)})

	ms := consensus.NewMidState(c.cs)
	if err := consensus.ValidateV2Transaction(ms, setup); err != nil {
		b.Inconclusive("harness setup transaction rejected: " + errClass(err))
		s.dead = true
		return consensus.ApplyUpdate{}, types.V2Transaction{}, false
	}
	ms.ApplyV2Transaction(setup)

	build := func(useCtrl bool) types.V2Transaction {
		txn := mk()
		for i, sl := range slots {
			idx := i
			if useCtrl && i == ctrl {
				idx = ctrlIdx
			}
			txn.SiacoinInputs = append(txn.SiacoinInputs, types.V2SiacoinInput{
				Parent:          setup.EphemeralSiacoinOutput(idx),
				SatisfiedPolicy: types.SatisfiedPolicy{Policy: sl.a.pol},
			})
		}
		sh := c.cs.InputSigHash(txn)
		for i, sl := range slots {
			txn.SiacoinInputs[i].SatisfiedPolicy.Signatures = []types.Signature{sl.a.sk.SignHash(sh)}
		}
		return txn
	}
	if ctrl >= 0 {
		bad := build(true)
		if err := consensus.ValidateV2Transaction(ms, bad); err == nil {
			s.violate("C17/control/misfunded-transaction-accepted/"+kind, "a transaction funded with reported cost ±1 H was accepted by ValidateV2Transaction", map[string]any{"transaction": jsonOf(bad)})
		} else {
			b.Count("consensus_rejected_controls", 1)
			b.SetAdd("control_rejection_classes", errClass(err))
		}
	}
	txn := build(false)
	if err := consensus.ValidateV2Transaction(ms, txn); err != nil {
		s.violate("C17/consensus-reject/"+kind+"/"+errClass(err), fmt.Sprintf("%s funded with exactly the reported costs (renter %v, host %v) was rejected by ValidateV2Transaction: %v", kind, renterCost, hostCost, err),
			map[string]any{"transaction": jsonOf(txn), "renter_cost": renterCost.ExactString(), "host_cost": hostCost.ExactString()})
		s.dead = true
		return consensus.ApplyUpdate{}, txn, false
	}
	b.Count("consensus_accepted", 1)
	b.Count("consensus_accepted_"+kind, 1)
	au, err := c.mine(nil, nil, []types.V2Transaction{setup, txn}, setup.SiacoinOutputID(setup.ID(), changeIdx))
	if err != nil {
		b.Inconclusive("block rejected after its transactions were accepted: " + errClass(err))
		s.dead = true
		return au, txn, false
	}
	b.Count("blocks_validated", 1)
	return au, txn, true
}

// submitRevision validates the latest revision against the confirmed parent on a fresh
// MidState of the tip; confirm=true also mines it.
func (s *seqState) submitRevision(helper string, confirm bool) {
	b, c := s.b, s.c
	txn := types.V2Transaction{FileContractRevisions: []types.V2FileContractRevision{{Parent: s.elem.Copy(), Revision: s.fc}}}
	ms := consensus.NewMidState(c.cs)
	if err := consensus.ValidateV2Transaction(ms, txn); err != nil {
		s.violate("C17/consensus-reject/revision/"+helper+"/"+errClass(err), fmt.Sprintf("revision built by %s was rejected by ValidateV2Transaction: %v", helper, err),
			map[string]any{"parent": jsonOf(s.elem.V2FileContract), "revision": jsonOf(s.fc)})
		s.dead = true
		return
	}
	b.Count("consensus_accepted", 1)
	b.Count("consensus_accepted_revision", 1)
	// rejection control (tamper + re-sign): the revision with one hasting created
	if s.r.IntN(8) == 0 {
		bad := s.fc
		bad.HostOutput.Value = bad.HostOutput.Value.Add(types.NewCurrency64(1))
		s.signContract(&bad)
		btxn := types.V2Transaction{FileContractRevisions: []types.V2FileContractRevision{{Parent: s.elem.Copy(), Revision: bad}}}
		if err := consensus.ValidateV2Transaction(consensus.NewMidState(c.cs), btxn); err == nil {
			s.violate("C17/control/value-creating-revision-accepted", "a revision that adds 1 H to the host output was accepted", map[string]any{"revision": jsonOf(bad)})
		} else {
			b.Count("consensus_rejected_controls", 1)
			b.SetAdd("control_rejection_classes", errClass(err))
		}
	}
	if !confirm {
		return
	}
	au, err := c.mine(nil, nil, []types.V2Transaction{txn}, types.SiacoinOutputID{})
	if err != nil {
		b.Inconclusive("block rejected after its transactions were accepted: " + errClass(err))
		s.dead = true
		return
	}
	b.Count("blocks_validated", 1)
	el, ok := findV2Contract(au, s.elem.ID)
	if !ok {
		b.Inconclusive("revised contract not reported by ApplyUpdate")
		s.dead = true
		return
	}
	if !reflect.DeepEqual(el.V2FileContract, s.fc) {
		s.violate("C17/confirmed-revision-differs", "the contract element reported after confirming the revision differs from the revision", map[string]any{"element": jsonOf(el.V2FileContract)})
	}
	s.elem = el
	b.Count("revisions_confirmed_on_chain", 1)
}

// appendPastProofHeight: the host's chain has reached the proof height of the confirmed contract (no block above it may
// revise the contract any more) and the renter asks for an append against the host's current, validly signed price
// table. Either the constructor refuses, or what it returns - signed by both parties - is accepted by consensus at
// that tip. The contract itself is left as it was.
func (s *seqState) appendPastProofHeight() {
	if s.dead || s.c.childHeight() <= s.fc.ProofHeight || s.c.childHeight() > s.fc.ExpirationHeight {
		return
	}
	hp := s.prices
	hp.TipHeight = s.c.cs.Index.Height
	hp.Signature = s.host.sk.SignHash(hp.SigHash())
	req := rhp4.RPCAppendSectorsRequest{Prices: hp, Sectors: []types.Hash256{randHash(s.r)}}
	if req.Validate(s.host.pk) != nil {
		return
	}
	s.b.Eval(1)
	s.b.Count("appends_requested_at_or_past_the_proof_height", 1)
	s.b.Distinct("append-past-proof-height", s.c.cs.Index.Height == s.fc.ProofHeight, s.c.cs.Index.Height == s.fc.ExpirationHeight, s.fc.Capacity > s.fc.Filesize)
	var rev types.V2FileContract
	var err error
	if p, msg := call(func() { rev, _, err = rhp4.ReviseForAppendSectors(s.fc, hp, randHash(s.r), 1) }); p {
		s.violate("C17/v4/ReviseForAppendSectors/price-table-tip-at-or-past-the-proof-height/panics", msg, map[string]any{"prices": jsonOf(hp)})
		return
	}
	if err != nil {
		s.b.Count("appends_at_or_past_the_proof_height_refused", 1)
		return
	}
	s.signContract(&rev)
	txn := types.V2Transaction{FileContractRevisions: []types.V2FileContractRevision{{Parent: s.elem.Copy(), Revision: rev}}}
	if verr := consensus.ValidateV2Transaction(consensus.NewMidState(s.c.cs), txn); verr != nil {
		s.violate("C17/consensus-reject/revision/ReviseForAppendSectors/price-table-tip-at-or-past-the-proof-height", fmt.Sprintf("proof height %d, expiration height %d, price table tip %d (the chain tip): ReviseForAppendSectors succeeded and the signed revision is rejected by ValidateV2Transaction: %v", s.fc.ProofHeight, s.fc.ExpirationHeight, hp.TipHeight, verr), map[string]any{"prices": jsonOf(hp), "revision": jsonOf(rev)})
	}
}

// ---------------------------------------------------------------------------
// formation

func (s *seqState) pickProofHeight(minPH uint64) (uint64, string) {
	maxPH := s.prices.TipHeight + s.maxDuration - rhp4.ProofWindow
	if maxPH < minPH {
		s.maxDuration = minPH + rhp4.ProofWindow - s.prices.TipHeight + uint64(s.r.IntN(50))
		maxPH = s.prices.TipHeight + s.maxDuration - rhp4.ProofWindow
	}
	switch s.r.IntN(4) {
	case 0:
		return minPH, "min"
	case 1:
		return maxPH, "max"
	default:
		return minPH + s.r.Uint64N(maxPH-minPH+1), "mid"
	}
}

func minProofHeight(tip, priceTip uint64) uint64 {
	return max(tip, priceTip) + rhp4.MinContractDuration
}

func (s *seqState) newPlan() *appendPlan {
	r := s.r
	if r.IntN(3) == 0 {
		return nil
	}
	n := 1 + r.Uint64N(40)
	if r.IntN(40) == 0 {
		n = 1 + r.Uint64N(rhp4.MaxSectorBatchSize)
	}
	return &appendPlan{n: n, dc: r.IntN(3) - 1, da: r.IntN(3) - 1}
}

// minAllowanceBig is MinRenterAllowance's documented meaning in math/big (generator use:
// keeps requests inside the 2^120 domain; the library's own Validate remains the filter).
func minAllowanceBig(hp rhp4.HostPrices, collateral types.Currency) *big.Int {
	if hp.Collateral.IsZero() {
		return new(big.Int)
	}
	q := new(big.Int).Quo(toBig(collateral), toBig(hp.Collateral))
	return q.Mul(q, toBig(hp.StoragePrice))
}

// capCollateral lowers a requested collateral until the allowance it demands stays below 2^112.
func capCollateral(hp rhp4.HostPrices, collateral types.Currency) types.Currency {
	lim := new(big.Int).Lsh(big.NewInt(1), 112)
	if minAllowanceBig(hp, collateral).Cmp(lim) < 0 {
		return collateral
	}
	q := new(big.Int).Quo(lim, toBig(hp.StoragePrice))
	q.Mul(q, toBig(hp.Collateral))
	if q.Cmp(toBig(collateral)) > 0 {
		return collateral
	}
	return fromBig(q)
}

func addDelta(c types.Currency, d int) types.Currency {
	v := toBig(c)
	v.Add(v, big.NewInt(int64(d)))
	if v.Sign() < 0 {
		v.SetInt64(0)
	}
	return fromBig(v)
}

// staleTableProbe: a host-signed, unexpired price table may lag the chain; what bounds the proof height of a new
// contract is the chain tip. A formation request built against a table 18+ blocks old, asking for a proof height the
// chain has already reached, has to be refused by Validate - if it is admitted, the constructor's contract goes to
// consensus like any other and a rejection there is the violation.
func (s *seqState) staleTableProbe() {
	b, r := s.b, s.r
	tip := s.c.cs.Index
	if tip.Height < rhp4.MinContractDuration+2 {
		return
	}
	stale := s.prices
	stale.TipHeight = tip.Height - rhp4.MinContractDuration - r.Uint64N(min(4, tip.Height-rhp4.MinContractDuration))
	stale.Signature = s.host.sk.SignHash(stale.SigHash())
	ph := stale.TipHeight + rhp4.MinContractDuration + r.Uint64N(tip.Height-stale.TipHeight-rhp4.MinContractDuration+1) // <= tip
	params := rhp4.RPCFormContractParams{RenterPublicKey: s.renter.pk, RenterAddress: s.renter.addr, ProofHeight: ph, Collateral: types.ZeroCurrency}
	params.Allowance = fromBig(minAllowanceBig(stale, params.Collateral))
	if params.Allowance.IsZero() {
		params.Allowance = types.NewCurrency64(1)
	}
	fee := types.NewCurrency64(1 + r.Uint64N(1<<30))
	req := rhp4.RPCFormContractRequest{Prices: stale, Contract: params, MinerFee: fee, Basis: tip, RenterInputs: []types.SiacoinElement{s.c.fund.Copy()}}
	b.Eval(1)
	b.Count("formations_against_a_stale_price_table_with_a_proof_height_already_reached", 1)
	b.Distinct("stale-table", tip.Height-stale.TipHeight, tip.Height-ph)
	if err := req.Validate(s.host.pk, tip, types.Siacoins(1), 100000); err != nil {
		b.Count("stale_table_requests_rejected_by_validate", 1)
		return
	}
	saved := s.prices
	s.prices = stale
	defer func() { s.prices = saved }()
	var fc types.V2FileContract
	if b.Guard("C17/NewContract", func() any { return s.witness(nil) }, func() { fc, _ = rhp4.NewContract(stale, params, s.host.pk, s.host.addr) }) {
		return
	}
	rc, hc := rhp4.ContractCost(s.c.cs, fc, fee)
	s.signContract(&fc)
	s.note("form-with-stale-table", map[string]any{"proof_height": ph, "tip": tip.Height, "price_table_tip": stale.TipHeight})
	s.submitFunded("formation", rc, hc, func() types.V2Transaction {
		return types.V2Transaction{FileContracts: []types.V2FileContract{fc}, MinerFee: fee}
	})
}

func (s *seqState) form() bool {
	b, r := s.b, s.r
	if r.IntN(4) == 0 {
		s.staleTableProbe()
		if s.dead {
			return false
		}
	}
	tip := s.c.cs.Index
	s.maxDuration = 170 + r.Uint64N(5000)
	ph, phClass := s.pickProofHeight(minProofHeight(tip.Height, s.prices.TipHeight))
	s.plan = s.newPlan()
	var params rhp4.RPCFormContractParams
	params.RenterPublicKey = s.renter.pk
	params.RenterAddress = s.renter.addr
	params.ProofHeight = ph
	cls := "random"
	if s.plan != nil {
		u := s.prices.RPCAppendSectorsCost(s.plan.n, ph+rhp4.ProofWindow-s.prices.TipHeight)
		params.Collateral = addDelta(u.RiskedCollateral, s.plan.dc)
		params.Allowance = addDelta(u.RenterCost(), s.plan.da)
		cls = "planned"
	} else {
		params.Collateral = randCurrency(r, 110)
		params.Collateral = capCollateral(s.prices, params.Collateral)
		switch r.IntN(3) {
		case 0:
			params.Allowance = fromBig(minAllowanceBig(s.prices, params.Collateral))
			cls = "min-allowance"
		default:
			params.Allowance = randCurrency(r, 112)
		}
		if r.IntN(6) == 0 {
			params.Collateral = types.ZeroCurrency
			cls += "/no-collateral"
		}
	}
	params.Collateral = capCollateral(s.prices, params.Collateral)
	if params.Allowance.IsZero() {
		params.Allowance = types.NewCurrency64(1)
	}
	if min := fromBig(minAllowanceBig(s.prices, params.Collateral)); params.Allowance.Cmp(min) < 0 {
		params.Allowance = min
		cls += "/raised"
	}
	s.maxCollateral = params.Collateral
	if r.IntN(2) == 0 {
		s.maxCollateral = params.Collateral.Add(randCurrency(r, 100))
	}
	fee := types.NewCurrency64(1 + r.Uint64N(1<<40))
	if r.IntN(4) == 0 {
		fee = randCurrency(r, 80).Add(types.NewCurrency64(1))
	}
	req := rhp4.RPCFormContractRequest{Prices: s.prices, Contract: params, MinerFee: fee, Basis: tip, RenterInputs: []types.SiacoinElement{s.c.fund.Copy()}}
	s.note("form", map[string]any{"allowance": params.Allowance.ExactString(), "collateral": params.Collateral.ExactString(), "proof_height": ph, "miner_fee": fee.ExactString(), "class": cls, "tip": tip.Height, "max_duration": s.maxDuration})
	if err := req.Validate(s.host.pk, tip, s.maxCollateral, s.maxDuration); err != nil {
		b.Count("requests_rejected_by_validate", 1)
		b.SetAdd("validate_rejections", "form: "+errClass(err))
		return false
	}
	b.Eval(1)
	var fc types.V2FileContract
	if b.Guard("C17/NewContract", func() any { return s.witness(nil) }, func() { fc, _ = rhp4.NewContract(s.prices, params, s.host.pk, s.host.addr) }) {
		return false
	}
	var rc, hc types.Currency
	if b.Guard("C17/ContractCost", func() any { return s.witness(map[string]any{"new_contract": jsonOf(fc)}) }, func() { rc, hc = rhp4.ContractCost(s.c.cs, fc, fee) }) {
		return false
	}
	tax := s.c.cs.V2FileContractTax(fc)
	if ref := new(big.Int).Quo(bsum(fc.RenterOutput.Value, fc.HostOutput.Value), big.NewInt(25)); ref.Cmp(toBig(tax)) != 0 {
		b.Count("v2_tax_differs_from_4_percent(observed; C01's subject)", 1)
	}
	if got, want := bsum(rc, hc), bsum(fc.RenterOutput.Value, fc.HostOutput.Value, tax, fee); got.Cmp(want) != 0 {
		s.violate("C17/form/ContractCost-does-not-fund-contract", fmt.Sprintf("ContractCost renter %v + host %v = %v, but contract outputs + tax + miner fee = %v", rc, hc, got, want), map[string]any{"new_contract": jsonOf(fc)})
	}
	b.Count("formations_checked", 1)
	b.SetAdd("constructors_exercised", "NewContract")
	b.SetAdd("constructors_exercised", "ContractCost")
	s.signContract(&fc)
	s.fc = fc
	au, txn, ok := s.submitFunded("formation", rc, hc, func() types.V2Transaction {
		return types.V2Transaction{FileContracts: []types.V2FileContract{fc}, MinerFee: fee}
	})
	if !ok {
		return false
	}
	el, found := findV2Contract(au, txn.V2FileContractID(txn.ID(), 0))
	if !found {
		b.Inconclusive("formed contract not reported by ApplyUpdate")
		return false
	}
	s.elem = el
	b.Distinct("form", cls, phClass, s.priceShape(), bitClass(params.Allowance), bitClass(params.Collateral), hc.IsZero())
	return true
}

// ---------------------------------------------------------------------------
// revisions

type reviseOut struct {
	rev   types.V2FileContract
	usage rhp4.Usage
	err   error
}

func usageCost(u rhp4.Usage) *big.Int {
	return bsum(u.RPC, u.Storage, u.Egress, u.Ingress, u.AccountFunding)
}

func relClass(have, need *big.Int) string {
	d := new(big.Int).Sub(have, need)
	switch {
	case need.Sign() == 0:
		return "free"
	case d.Sign() == 0:
		return "eq"
	case d.Cmp(big.NewInt(1)) == 0:
		return "plus1"
	case d.Cmp(big.NewInt(-1)) == 0:
		return "minus1"
	case d.Sign() < 0:
		return "lt"
	default:
		return "gt"
	}
}

// steer moves the renter output to exactly cost+d with a fund-accounts revision (itself a
// fully judged revision) when that is possible.
func (s *seqState) steer(cost *big.Int, d int) {
	target := new(big.Int).Add(cost, big.NewInt(int64(d)))
	have := toBig(s.fc.RenterOutput.Value)
	if target.Sign() < 0 || have.Cmp(target) <= 0 {
		return
	}
	amount := fromBig(new(big.Int).Sub(have, target))
	s.revise("ReviseForFundAccounts", "steer", rhp4.Usage{AccountFunding: amount}, false, map[string]any{"amount": amount.ExactString()}, func(fc types.V2FileContract) reviseOut {
		rev, u, err := rhp4.ReviseForFundAccounts(fc, amount)
		return reviseOut{rev, u, err}
	})
}

// revise runs one revision helper under the full oracle. exp is the usage the library's
// own cost function reports for the request (the "reported usage").
func (s *seqState) revise(helper, op string, exp rhp4.Usage, growth bool, rec map[string]any, f func(fc types.V2FileContract) reviseOut) {
	if s.dead || s.c.childHeight() > s.fc.ProofHeight {
		return // (a block mined inside this operation moved the contract past its revisable window)
	}
	b := s.b
	before := s.fc
	cost, risk := usageCost(exp), toBig(exp.RiskedCollateral)
	renter, missed := toBig(before.RenterOutput.Value), toBig(before.MissedHostValue)
	rc, cc := relClass(renter, cost), relClass(missed, risk)
	if rec == nil {
		rec = map[string]any{}
	}
	rec["helper"], rec["cost"], rec["risked"], rec["renter_vs_cost"], rec["missed_vs_risked"] = helper, cost.String(), risk.String(), rc, cc
	s.note(op, rec)
	b.Eval(1)
	key := "C17/revise/" + helper
	var out reviseOut
	if b.Guard(key, func() any { return s.witness(nil) }, func() { out = f(before) }) {
		s.dead = true
		return
	}
	switch rc {
	case "eq":
		b.Count("boundary_renter_eq_cost", 1)
	case "plus1":
		b.Count("boundary_renter_cost_plus_1", 1)
	case "minus1":
		b.Count("boundary_renter_cost_minus_1", 1)
	}
	switch cc {
	case "eq":
		b.Count("boundary_missed_eq_risked", 1)
	case "plus1":
		b.Count("boundary_missed_risked_plus_1", 1)
	case "minus1":
		b.Count("boundary_missed_risked_minus_1", 1)
	}
	b.Distinct("rev", helper, op, rc, cc, growth, s.priceShape())
	b.SetAdd("constructors_exercised", helper)
	lackFunds, lackColl := renter.Cmp(cost) < 0, missed.Cmp(risk) < 0
	if lackFunds || lackColl {
		if lackFunds {
			b.Count("insufficient_funds_cases", 1)
		} else {
			b.Count("insufficient_collateral_cases", 1)
		}
		if out.err == nil {
			what := "accepts-insufficient-renter-funds"
			if !lackFunds {
				what = "accepts-insufficient-host-collateral"
			}
			s.violate(key+"/"+what, fmt.Sprintf("%s returned no error although renter output %v / missed host value %v cannot cover cost %v / risked collateral %v", helper, renter, missed, cost, risk), map[string]any{"revision": jsonOf(out.rev)})
			s.dead = true
		}
		return
	}
	if out.err != nil {
		s.violate(key+"/rejects-sufficient-funds", fmt.Sprintf("%s failed (%v) although renter output %v >= cost %v and missed host value %v >= risked collateral %v", helper, out.err, renter, cost, missed, risk), nil)
		s.dead = true
		return
	}
	rev := out.rev
	ex := map[string]any{"revision": jsonOf(rev), "usage": jsonOf(out.usage)}
	if out.usage != exp {
		s.violate(key+"/reported-usage-differs-from-cost-function", fmt.Sprintf("returned usage %+v differs from the cost function's usage %+v", out.usage, exp), ex)
	}
	ucost, urisk := usageCost(out.usage), toBig(out.usage.RiskedCollateral)
	if a, z := bsum(before.RenterOutput.Value, before.HostOutput.Value), bsum(rev.RenterOutput.Value, rev.HostOutput.Value); a.Cmp(z) != 0 {
		s.violate(key+"/changes-total-value", fmt.Sprintf("renter+host %v -> %v", a, z), ex)
	}
	if d := new(big.Int).Sub(renter, toBig(rev.RenterOutput.Value)); d.Cmp(ucost) != 0 {
		s.violate(key+"/renter-not-charged-reported-usage", fmt.Sprintf("renter output decreased by %v, reported usage costs %v", d, ucost), ex)
	}
	if d := new(big.Int).Sub(missed, toBig(rev.MissedHostValue)); d.Cmp(urisk) != 0 {
		s.violate(key+"/missed-host-value-not-reduced-by-risked-collateral", fmt.Sprintf("missed host value decreased by %v, reported risked collateral %v", d, urisk), ex)
	}
	if rev.TotalCollateral != before.TotalCollateral {
		s.violate(key+"/touches-total-collateral", fmt.Sprintf("total collateral %v -> %v", before.TotalCollateral, rev.TotalCollateral), ex)
	}
	if rev.RevisionNumber != before.RevisionNumber+1 {
		s.violate(key+"/revision-number-not-incremented", fmt.Sprintf("revision number %d -> %d", before.RevisionNumber, rev.RevisionNumber), ex)
	}
	b.Count("revisions_checked", 1)
	s.signContract(&rev)
	s.fc = rev
	s.submitRevision(helper, s.r.IntN(5) == 0)
}

func (s *seqState) maybeSteer(exp rhp4.Usage) {
	switch s.r.IntN(6) {
	case 0:
		s.steer(usageCost(exp), -1)
	case 1:
		s.steer(usageCost(exp), 0)
	case 2:
		s.steer(usageCost(exp), 1)
	}
}

func (s *seqState) opAppend() {
	r := s.r
	free := (s.fc.Capacity - s.fc.Filesize) / sectorSize
	var n uint64
	planned := s.plan != nil
	switch {
	case planned:
		n = s.plan.n
	case free > 0 && r.IntN(2) == 0:
		switch r.IntN(3) {
		case 0:
			n = free
		case 1:
			n = free + 1
		default:
			n = 1 + r.Uint64N(free)
		}
	default:
		n = 1 + r.Uint64N(60)
		if r.IntN(60) == 0 && s.fc.Filesize < 1<<41 {
			n = 1 + r.Uint64N(rhp4.MaxSectorBatchSize)
		}
	}
	n = min(n, rhp4.MaxSectorBatchSize)
	s.plan = nil
	req := rhp4.RPCAppendSectorsRequest{Prices: s.prices, Sectors: sectorPool[:n], ContractID: s.elem.ID}
	req.ChallengeSignature = s.renter.sk.SignHash(req.ChallengeSigHash(s.fc.RevisionNumber + 1))
	if err := req.Validate(s.host.pk); err != nil {
		s.b.Count("requests_rejected_by_validate", 1)
		s.b.SetAdd("validate_rejections", "append: "+errClass(err))
		return
	}
	growth := n - min(n, free)
	exp := s.prices.RPCAppendSectorsCost(growth, s.fc.ExpirationHeight-s.prices.TipHeight)
	if !planned {
		s.maybeSteer(exp)
	}
	if growth > 0 {
		s.b.Count("append_with_growth", 1)
	} else {
		s.b.Count("append_within_capacity", 1)
	}
	root := randHash(r)
	op := "append"
	if growth == 0 {
		op = "append-nogrow"
	} else if growth < n {
		op = "append-partgrow"
	}
	s.revise("ReviseForAppendSectors", op, exp, growth > 0, map[string]any{"sectors": n, "free_capacity_sectors": free, "planned": planned}, func(fc types.V2FileContract) reviseOut {
		rev, u, err := rhp4.ReviseForAppendSectors(fc, s.prices, root, n)
		return reviseOut{rev, u, err}
	})
}

func (s *seqState) opFree() {
	r := s.r
	sectors := s.fc.Filesize / sectorSize
	// hostile requests at the edge of the index range: whatever Validate lets through goes to the constructor
	if r.IntN(6) == 0 && sectors <= 64 {
		var idx []uint64
		hostile := ""
		switch r.IntN(4) {
		case 0: // every sector plus the index one past the end
			for i := uint64(0); i <= sectors; i++ {
				idx = append(idx, i)
			}
			hostile = "all-sectors-plus-one-past-the-end"
		case 1:
			idx = []uint64{sectors}
			hostile = "only-one-past-the-end"
		case 2:
			if sectors == 0 {
				return
			}
			idx = []uint64{sectors - 1, sectors - 1}
			hostile = "duplicate-index"
		case 3:
			idx = []uint64{sectors + 1 + r.Uint64N(1<<40)}
			hostile = "far-past-the-end"
		}
		req := rhp4.RPCFreeSectorsRequest{ContractID: s.elem.ID, Prices: s.prices, Indices: idx}
		req.ChallengeSignature = s.renter.sk.SignHash(req.ChallengeSigHash(s.fc.RevisionNumber + 1))
		s.b.Count("hostile_free_requests", 1)
		if err := req.Validate(s.host.pk, s.fc); err != nil {
			s.b.Count("hostile_free_requests_rejected_by_validate", 1)
			s.b.SetAdd("validate_rejections", "free/"+hostile+": "+errClass(err))
			return
		}
		k := uint64(len(idx))
		exp := s.prices.RPCFreeSectorsCost(int(k))
		s.maybeSteer(exp)
		root := randHash(r)
		s.revise("ReviseForFreeSectors", "free/"+hostile+"-accepted-by-Validate", exp, false, map[string]any{"deleted": k, "of": sectors, "indices": idx}, func(fc types.V2FileContract) reviseOut {
			rev, u, err := rhp4.ReviseForFreeSectors(fc, s.prices, root, int(k))
			return reviseOut{rev, u, err}
		})
		return
	}
	if sectors == 0 {
		return
	}
	k := 1 + r.Uint64N(min(sectors, 50))
	switch r.IntN(12) {
	case 0:
		k = sectors // everything
	case 1:
		k = min(sectors, 1+r.Uint64N(5000))
	}
	k = min(k, 20000)
	start := r.Uint64N(sectors - k + 1)
	idx := make([]uint64, k)
	for i := range idx {
		idx[i] = start + uint64(i)
	}
	r.Shuffle(len(idx), func(i, j int) { idx[i], idx[j] = idx[j], idx[i] })
	req := rhp4.RPCFreeSectorsRequest{ContractID: s.elem.ID, Prices: s.prices, Indices: idx}
	req.ChallengeSignature = s.renter.sk.SignHash(req.ChallengeSigHash(s.fc.RevisionNumber + 1))
	if err := req.Validate(s.host.pk, s.fc); err != nil {
		s.b.Count("requests_rejected_by_validate", 1)
		s.b.SetAdd("validate_rejections", "free: "+errClass(err))
		return
	}
	exp := s.prices.RPCFreeSectorsCost(int(k))
	s.maybeSteer(exp)
	root := randHash(r)
	s.revise("ReviseForFreeSectors", "free", exp, false, map[string]any{"deleted": k, "of": sectors}, func(fc types.V2FileContract) reviseOut {
		rev, u, err := rhp4.ReviseForFreeSectors(fc, s.prices, root, int(k))
		return reviseOut{rev, u, err}
	})
}

func (s *seqState) opRoots() {
	r := s.r
	sectors := s.fc.Filesize / sectorSize
	if sectors == 0 {
		return
	}
	off := r.Uint64N(sectors)
	length := 1 + r.Uint64N(sectors-off)
	if r.IntN(4) == 0 {
		off, length = 0, sectors
	}
	req := rhp4.RPCSectorRootsRequest{Prices: s.prices, ContractID: s.elem.ID, Offset: off, Length: length}
	req.RenterSignature = s.renter.sk.SignHash(randHash(r))
	if err := req.Validate(s.host.pk, s.fc); err != nil {
		s.b.Count("requests_rejected_by_validate", 1)
		s.b.SetAdd("validate_rejections", "roots: "+errClass(err))
		return
	}
	exp := s.prices.RPCSectorRootsCost(length)
	s.maybeSteer(exp)
	s.revise("ReviseForSectorRoots", "roots", exp, false, map[string]any{"offset": off, "length": length}, func(fc types.V2FileContract) reviseOut {
		rev, u, err := rhp4.ReviseForSectorRoots(fc, s.prices, length)
		return reviseOut{rev, u, err}
	})
}

// splitAmount splits total into k positive parts.
func splitAmount(r *rand.Rand, total types.Currency, k int) []types.Currency {
	t := toBig(total)
	if t.Cmp(big.NewInt(int64(k))) < 0 {
		k = int(t.Int64())
	}
	if k <= 1 {
		return []types.Currency{total}
	}
	parts := make([]types.Currency, 0, k)
	rest := new(big.Int).Set(t)
	for i := 0; i < k-1; i++ {
		// leave at least 1 for each remaining part
		maxPart := new(big.Int).Sub(rest, big.NewInt(int64(k-1-i)))
		p := new(big.Int).Rsh(maxPart, uint(1+r.IntN(4)))
		if p.Sign() == 0 {
			p.SetInt64(1)
		}
		parts = append(parts, fromBig(p))
		rest.Sub(rest, p)
	}
	return append(parts, fromBig(rest))
}

func (s *seqState) fundTotal() (types.Currency, string) {
	r := s.r
	renter := s.fc.RenterOutput.Value
	one := types.NewCurrency64(1)
	switch r.IntN(8) {
	case 0:
		if !renter.IsZero() {
			return renter, "all"
		}
	case 1:
		return renter.Add(one), "all+1"
	case 2:
		if renter.Cmp(one) > 0 {
			return renter.Sub(one), "all-1"
		}
	case 3:
		return types.NewCurrency64(1 + r.Uint64N(1000)), "tiny"
	}
	v := toBig(renter)
	v.Rsh(v, uint(1+r.IntN(10)))
	if v.Sign() == 0 {
		v.SetInt64(1)
	}
	return fromBig(v), "fraction"
}

func (s *seqState) opFund() {
	r := s.r
	total, cls := s.fundTotal()
	parts := splitAmount(r, total, 1+r.IntN(5))
	req := rhp4.RPCFundAccountsRequest{ContractID: s.elem.ID}
	for _, p := range parts {
		req.Deposits = append(req.Deposits, rhp4.AccountDeposit{Account: rhp4.Account(newActor(r).pk), Amount: p})
	}
	req.RenterSignature = s.renter.sk.SignHash(randHash(r))
	if err := req.Validate(); err != nil {
		s.b.Count("requests_rejected_by_validate", 1)
		s.b.SetAdd("validate_rejections", "fund: "+errClass(err))
		return
	}
	var amount types.Currency
	for _, d := range req.Deposits {
		amount = amount.Add(d.Amount)
	}
	s.revise("ReviseForFundAccounts", "fund", rhp4.Usage{AccountFunding: amount}, false, map[string]any{"amount": amount.ExactString(), "deposits": len(parts), "class": cls}, func(fc types.V2FileContract) reviseOut {
		rev, u, err := rhp4.ReviseForFundAccounts(fc, amount)
		return reviseOut{rev, u, err}
	})
}

func (s *seqState) opReplenish() {
	r := s.r
	total, cls := s.fundTotal()
	k := 1 + r.IntN(5)
	parts := splitAmount(r, total, k)
	// target = the largest deposit; every account is below the target by its deposit
	target := parts[0]
	for _, p := range parts {
		if p.Cmp(target) > 0 {
			target = p
		}
	}
	req := rhp4.RPCReplenishAccountsRequest{Target: target, ContractID: s.elem.ID}
	var resp rhp4.RPCReplenishAccountsResponse
	for _, p := range parts {
		acc := rhp4.Account(newActor(r).pk)
		req.Accounts = append(req.Accounts, acc)
		resp.Deposits = append(resp.Deposits, rhp4.AccountDeposit{Account: acc, Amount: p}) // balance was target-p
	}
	req.ChallengeSignature = s.renter.sk.SignHash(req.ChallengeSigHash(s.fc.RevisionNumber))
	if err := req.Validate(); err != nil {
		s.b.Count("requests_rejected_by_validate", 1)
		s.b.SetAdd("validate_rejections", "replenish: "+errClass(err))
		return
	}
	amount := resp.TotalCost()
	if toBig(amount).Cmp(toBig(total)) != 0 {
		s.violate("C17/RPCReplenishAccountsResponse.TotalCost/not-the-sum-of-deposits", fmt.Sprintf("TotalCost %v, deposits sum to %v", amount, total), nil)
	}
	s.revise("ReviseForReplenish", "replenish", rhp4.Usage{AccountFunding: amount}, false, map[string]any{"amount": amount.ExactString(), "accounts": k, "class": cls}, func(fc types.V2FileContract) reviseOut {
		rev, u, err := rhp4.ReviseForReplenish(fc, amount)
		return reviseOut{rev, u, err}
	})
}

// opPay drives PayWithContract directly with a usage whose cost / collateral sit on or
// next to the contract's balances.
func (s *seqState) opPay() {
	r := s.r
	renter, missed := s.fc.RenterOutput.Value, s.fc.MissedHostValue
	one := types.NewCurrency64(1)
	pick := func(avail types.Currency) types.Currency {
		switch r.IntN(7) {
		case 0:
			return avail
		case 1:
			return avail.Add(one)
		case 2:
			if !avail.IsZero() {
				return avail.Sub(one)
			}
		case 3:
			return types.ZeroCurrency
		}
		v := toBig(avail)
		v.Rsh(v, uint(1+r.IntN(12)))
		return fromBig(v)
	}
	total := pick(renter)
	var u rhp4.Usage
	if !total.IsZero() {
		parts := splitAmount(r, total, 1+r.IntN(5))
		fields := []*types.Currency{&u.RPC, &u.Storage, &u.Egress, &u.Ingress, &u.AccountFunding}
		r.Shuffle(len(fields), func(i, j int) { fields[i], fields[j] = fields[j], fields[i] })
		for i, p := range parts {
			*fields[i] = p
		}
	}
	u.RiskedCollateral = pick(missed)
	s.revise("PayWithContract", "pay", u, false, map[string]any{"usage": jsonOf(u)}, func(fc types.V2FileContract) reviseOut {
		orig := fc
		err := rhp4.PayWithContract(&fc, u)
		if err != nil && fc != orig {
			s.violate("C17/revise/PayWithContract/modifies-contract-on-error", "PayWithContract returned an error and changed the contract", map[string]any{"after": jsonOf(fc)})
		}
		return reviseOut{fc, u, err}
	})
}

// ---------------------------------------------------------------------------
// renewal / refresh

func rolloverShape(roll, old, capv types.Currency) string {
	switch {
	case roll.IsZero():
		return "none"
	case roll == old && roll == capv:
		return "all=cap"
	case roll == old:
		return "all"
	case roll == capv:
		return "cap"
	default:
		return "other"
	}
}

// judgeRenewal applies the renewal/refresh oracle, then funds, signs, submits and mines
// the renewal and moves the sequence to the new contract.
func (s *seqState) judgeRenewal(kind, ctor string, renewal types.V2FileContractRenewal, fee types.Currency, cost func() (types.Currency, types.Currency), costName string, shape string) {
	b := s.b
	old := s.fc
	key := "C17/" + kind + "/" + ctor
	ex := map[string]any{"renewal": jsonOf(renewal), "miner_fee": fee.ExactString()}
	nc := renewal.NewContract
	if a, z := bsum(renewal.FinalRenterOutput.Value, renewal.FinalHostOutput.Value, renewal.RenterRollover, renewal.HostRollover), bsum(old.RenterOutput.Value, old.HostOutput.Value); a.Cmp(z) != 0 {
		s.violate(key+"/final-outputs-plus-rollover-differ-from-old-value", fmt.Sprintf("final outputs + rollovers = %v, old renter + host = %v", a, z), ex)
	}
	tax := s.c.cs.V2FileContractTax(nc)
	if ref := new(big.Int).Quo(bsum(nc.RenterOutput.Value, nc.HostOutput.Value), big.NewInt(25)); ref.Cmp(toBig(tax)) != 0 {
		b.Count("v2_tax_differs_from_4_percent(observed; C01's subject)", 1)
	}
	newCost := bsum(nc.RenterOutput.Value, nc.HostOutput.Value, tax)
	if roll := bsum(renewal.RenterRollover, renewal.HostRollover); roll.Cmp(newCost) > 0 {
		s.violate(key+"/rollover-exceeds-new-contract-cost", fmt.Sprintf("rollover %v > new contract cost %v", roll, newCost), ex)
	}
	var rc, hc types.Currency
	if b.Guard("C17/"+kind+"/"+costName, func() any { return s.witness(ex) }, func() { rc, hc = cost() }) {
		s.dead = true
		return
	}
	ex["renter_cost"], ex["host_cost"] = rc.ExactString(), hc.ExactString()
	if got, want := bsum(rc, hc, renewal.RenterRollover, renewal.HostRollover), new(big.Int).Add(newCost, toBig(fee)); got.Cmp(want) != 0 {
		s.violate(key+"/"+costName+"-plus-rollover-does-not-fund-new-contract", fmt.Sprintf("%s renter %v + host %v + rollovers = %v, but new contract + tax + miner fee = %v", costName, rc, hc, got, want), ex)
	}
	switch kind {
	case "renew":
		b.Count("renewals_checked", 1)
	case "refresh-full":
		b.Count("refreshes_full_checked", 1)
	default:
		b.Count("refreshes_partial_checked", 1)
	}
	b.SetAdd("rollover_shapes", kind+" "+shape)
	b.SetAdd("constructors_exercised", ctor)
	b.SetAdd("constructors_exercised", costName)
	b.Distinct(kind, shape, s.priceShape(), rc.IsZero(), hc.IsZero(), renewal.FinalRenterOutput.Value.IsZero(), renewal.FinalHostOutput.Value.IsZero())

	s.signContract(&renewal.NewContract)
	rh := s.c.cs.RenewalSigHash(renewal)
	renewal.RenterSignature = s.renter.sk.SignHash(rh)
	renewal.HostSignature = s.host.sk.SignHash(rh)
	parent := s.elem.Copy()
	au, _, ok := s.submitFunded(kind, rc, hc, func() types.V2Transaction {
		rn := renewal
		return types.V2Transaction{FileContractResolutions: []types.V2FileContractResolution{{Parent: parent.Copy(), Resolution: &rn}}, MinerFee: fee}
	})
	if !ok {
		s.dead = true
		return
	}
	el, found := findV2Contract(au, parent.ID.V2RenewalID())
	if !found {
		b.Inconclusive("renewed contract not reported by ApplyUpdate")
		s.dead = true
		return
	}
	if !reflect.DeepEqual(el.V2FileContract, renewal.NewContract) {
		s.violate(key+"/confirmed-contract-differs", "the contract element created by the renewal differs from NewContract", map[string]any{"element": jsonOf(el.V2FileContract)})
	}
	s.elem = el
	s.fc = renewal.NewContract
}

func (s *seqState) randFee() types.Currency {
	if s.r.IntN(4) == 0 {
		return randCurrency(s.r, 80).Add(types.NewCurrency64(1))
	}
	return types.NewCurrency64(1 + s.r.Uint64N(1<<40))
}

func (s *seqState) nextHostAddr() types.Address {
	if s.r.IntN(3) == 0 {
		return newActor(s.r).addr
	}
	return s.host.addr
}

func (s *seqState) opRenew() {
	b, r := s.b, s.r
	fc := s.fc
	tip := s.c.cs.Index
	minPH := max(minProofHeight(tip.Height, s.prices.TipHeight), fc.ProofHeight+1)
	ph, phClass := s.pickProofHeight(minPH)
	duration := ph + rhp4.ProofWindow - s.prices.TipHeight
	risked := s.prices.Collateral.Mul64(fc.Filesize).Mul64(duration)
	one := big.NewInt(1)
	var rp rhp4.RPCRenewContractParams
	rp.ContractID = s.elem.ID
	rp.ProofHeight = ph
	s.plan = s.newPlan()
	acls, ccls := "random", "random"
	renter := toBig(fc.RenterOutput.Value)
	switch k := r.IntN(8); {
	case k == 0:
		rp.Allowance, acls = fc.RenterOutput.Value, "=old"
	case k == 1:
		rp.Allowance, acls = fromBig(new(big.Int).Add(renter, one)), "old+1"
	case k == 2 && renter.Cmp(one) > 0:
		rp.Allowance, acls = fromBig(new(big.Int).Sub(renter, one)), "old-1"
	case k == 3:
		rp.Allowance, acls = types.NewCurrency64(1+r.Uint64N(100)), "tiny"
	case k == 4 && s.plan != nil:
		u := s.prices.RPCAppendSectorsCost(s.plan.n, duration)
		rp.Allowance, acls = addDelta(u.RenterCost(), s.plan.da), "planned"
	default:
		rp.Allowance = randCurrency(r, 112)
	}
	oldTotal := toBig(fc.TotalCollateral)
	switch k := r.IntN(7); {
	case k <= 2 && oldTotal.Cmp(toBig(risked)) >= 0:
		d := k - 1
		v := new(big.Int).Sub(oldTotal, toBig(risked))
		v.Add(v, big.NewInt(int64(d)))
		if v.Sign() >= 0 {
			rp.Collateral, ccls = fromBig(v), fmt.Sprintf("newtotal=oldtotal%+d", d)
		}
	case k == 3:
		rp.Collateral, ccls = types.ZeroCurrency, "zero"
	case k == 4 && s.plan != nil:
		u := s.prices.RPCAppendSectorsCost(s.plan.n, duration)
		rp.Collateral, ccls = addDelta(u.RiskedCollateral, s.plan.dc), "planned"
	default:
		rp.Collateral = randCurrency(r, 110)
	}
	rp.Collateral = capCollateral(s.prices, rp.Collateral)
	if rp.Allowance.IsZero() {
		rp.Allowance = types.NewCurrency64(1)
	}
	if min := fromBig(minAllowanceBig(s.prices, rp.Collateral)); rp.Allowance.Cmp(min) < 0 {
		rp.Allowance = min
		acls += "/raised"
	}
	total := rp.Collateral.Add(risked)
	if s.maxCollateral.Cmp(total) < 0 || r.IntN(4) == 0 {
		s.maxCollateral = total
		if r.IntN(2) == 0 {
			s.maxCollateral = total.Add(randCurrency(r, 100))
		}
	}
	fee := s.randFee()
	req := rhp4.RPCRenewContractRequest{Prices: s.prices, Renewal: rp, MinerFee: fee, Basis: tip, RenterInputs: []types.SiacoinElement{s.c.fund.Copy()}}
	req.ChallengeSignature = s.renter.sk.SignHash(req.ChallengeSigHash(fc.RevisionNumber))
	s.note("renew", map[string]any{"allowance": rp.Allowance.ExactString(), "collateral": rp.Collateral.ExactString(), "proof_height": ph, "miner_fee": fee.ExactString(), "allowance_class": acls, "collateral_class": ccls, "tip": tip.Height, "max_duration": s.maxDuration})
	if err := req.Validate(s.host.pk, tip, fc, s.maxCollateral, s.maxDuration); err != nil {
		b.Count("requests_rejected_by_validate", 1)
		b.SetAdd("validate_rejections", "renew: "+errClass(err))
		s.plan = nil
		return
	}
	b.Eval(1)
	hostAddr := s.nextHostAddr()
	var renewal types.V2FileContractRenewal
	if b.Guard("C17/renew/RenewContract", func() any { return s.witness(nil) }, func() { renewal, _ = rhp4.RenewContract(fc, s.prices, hostAddr, rp) }) {
		s.dead = true
		return
	}
	shape := fmt.Sprint(acls, "|", ccls, "|", phClass, "|r:", rolloverShape(renewal.RenterRollover, fc.RenterOutput.Value, rp.Allowance), "|h:", rolloverShape(renewal.HostRollover, fc.TotalCollateral, renewal.NewContract.TotalCollateral), "|data:", fc.Filesize > 0)
	s.judgeRenewal("renew", "RenewContract", renewal, fee, func() (types.Currency, types.Currency) { return rhp4.RenewalCost(s.c.cs, renewal, fee) }, "RenewalCost", shape)
}

func (s *seqState) opRefresh(partial bool) {
	b, r := s.b, s.r
	fc := s.fc
	tip := s.c.cs.Index
	kind, ctor := "refresh-full", "RefreshContractFullRollover"
	if partial {
		kind, ctor = "refresh-partial", "RefreshContractPartialRollover"
	}
	one := big.NewInt(1)
	var rp rhp4.RPCRefreshContractParams
	rp.ContractID = s.elem.ID
	s.plan = s.newPlan()
	duration := fc.ExpirationHeight - s.prices.TipHeight
	free := (fc.Capacity - fc.Filesize) / sectorSize
	var planU rhp4.Usage
	if s.plan != nil {
		planU = s.prices.RPCAppendSectorsCost(s.plan.n-min(s.plan.n, free), duration)
	}
	acls, ccls := "random", "random"
	renter, price := toBig(fc.RenterOutput.Value), toBig(s.prices.ContractPrice)
	switch k := r.IntN(8); {
	case k <= 2 && partial && renter.Cmp(price) >= 0:
		// renterFunds = allowance + contract price lands on old renter output + d
		d := k - 1
		v := new(big.Int).Sub(renter, price)
		v.Add(v, big.NewInt(int64(d)))
		if v.Sign() > 0 {
			rp.Allowance, acls = fromBig(v), fmt.Sprintf("allowance+price=old%+d", d)
		}
	case k == 3:
		rp.Allowance, acls = types.NewCurrency64(1+r.Uint64N(100)), "tiny"
	case k == 4 && s.plan != nil:
		if partial {
			rp.Allowance = addDelta(planU.RenterCost(), s.plan.da)
		} else if c := usageCost(planU); c.Cmp(renter) > 0 {
			// full rollover: new renter output = old + allowance
			rp.Allowance = addDelta(fromBig(new(big.Int).Sub(c, renter)), s.plan.da)
		}
		acls = "planned"
	}
	if rp.Allowance.IsZero() && acls != "planned" {
		rp.Allowance = randCurrency(r, 112)
	}
	missed := toBig(fc.MissedHostValue)
	switch k := r.IntN(8); {
	case k <= 2 && partial:
		// host funds = risked revenue + risked collateral + collateral lands on old host output + d
		d := k - 1
		v := new(big.Int).Add(missed, big.NewInt(int64(d)))
		if v.Sign() >= 0 {
			rp.Collateral, ccls = fromBig(v), fmt.Sprintf("hostfunds=oldhost%+d", d)
		}
	case k == 3:
		rp.Collateral, ccls = types.ZeroCurrency, "zero"
	case k == 4 && s.plan != nil:
		if partial {
			rp.Collateral = addDelta(planU.RiskedCollateral, s.plan.dc)
		} else if c := toBig(planU.RiskedCollateral); c.Cmp(missed) > 0 {
			rp.Collateral = addDelta(fromBig(new(big.Int).Sub(c, missed)), s.plan.dc)
		}
		ccls = "planned"
	default:
		rp.Collateral = randCurrency(r, 110)
	}
	_ = one
	rp.Collateral = capCollateral(s.prices, rp.Collateral)
	if rp.Allowance.IsZero() {
		rp.Allowance = types.NewCurrency64(1)
	}
	if min := fromBig(minAllowanceBig(s.prices, rp.Collateral)); rp.Allowance.Cmp(min) < 0 {
		rp.Allowance = min
		acls += "/raised"
	}
	var total types.Currency
	if partial {
		total = fc.RiskedCollateral().Add(rp.Collateral)
	} else {
		total = fc.TotalCollateral.Add(rp.Collateral)
	}
	if s.maxCollateral.Cmp(total) < 0 || r.IntN(4) == 0 {
		s.maxCollateral = total
		if r.IntN(2) == 0 {
			s.maxCollateral = total.Add(randCurrency(r, 100))
		}
	}
	fee := s.randFee()
	req := rhp4.RPCRefreshContractRequest{Prices: s.prices, Refresh: rp, MinerFee: fee, Basis: tip, RenterInputs: []types.SiacoinElement{s.c.fund.Copy()}}
	req.ChallengeSignature = s.renter.sk.SignHash(req.ChallengeSigHash(fc.RevisionNumber))
	s.note(kind, map[string]any{"allowance": rp.Allowance.ExactString(), "collateral": rp.Collateral.ExactString(), "miner_fee": fee.ExactString(), "allowance_class": acls, "collateral_class": ccls, "tip": tip.Height})
	if err := req.Validate(s.host.pk, tip, fc, s.maxCollateral, partial); err != nil {
		b.Count("requests_rejected_by_validate", 1)
		b.SetAdd("validate_rejections", kind+": "+errClass(err))
		s.plan = nil
		return
	}
	b.Eval(1)
	hostAddr := s.nextHostAddr()
	var renewal types.V2FileContractRenewal
	if b.Guard("C17/"+kind+"/"+ctor, func() any { return s.witness(nil) }, func() {
		if partial {
			renewal, _ = rhp4.RefreshContractPartialRollover(fc, s.prices, hostAddr, rp)
		} else {
			renewal, _ = rhp4.RefreshContractFullRollover(fc, s.prices, hostAddr, rp)
		}
	}) {
		s.dead = true
		return
	}
	renterCap := rp.Allowance.Add(s.prices.ContractPrice)
	hostCap := renewal.NewContract.HostOutput.Value.Sub(s.prices.ContractPrice)
	shape := fmt.Sprint(acls, "|", ccls, "|r:", rolloverShape(renewal.RenterRollover, fc.RenterOutput.Value, renterCap), "|h:", rolloverShape(renewal.HostRollover, fc.HostOutput.Value, hostCap), "|data:", fc.Filesize > 0, "|free:", free > 0)
	prices := s.prices
	s.judgeRenewal(kind, ctor, renewal, fee, func() (types.Currency, types.Currency) { return rhp4.RefreshCost(s.c.cs, prices, renewal, fee) }, "RefreshCost", shape)
}

// ---------------------------------------------------------------------------
// chain-only operations

func (s *seqState) opAge() {
	child := s.c.childHeight()
	if s.fc.ProofHeight <= child {
		return
	}
	room := s.fc.ProofHeight - child // blocks that can be mined with the contract still revisable
	d := min(room, 25)
	if s.r.IntN(2) == 0 {
		d = 1 + s.r.Uint64N(d)
	}
	for i := uint64(0); i < d; i++ {
		if _, err := s.c.mine(nil, nil, nil, types.SiacoinOutputID{}, &s.elem.StateElement); err != nil {
			s.b.Inconclusive("empty block rejected: " + errClass(err))
			s.dead = true
			return
		}
	}
	s.b.Count("blocks_validated", int(d))
	s.note("age", map[string]any{"blocks": d, "at_proof_height": s.c.childHeight() == s.fc.ProofHeight})
	if s.c.childHeight() == s.fc.ProofHeight {
		s.b.Count("contract_aged_to_proof_height", 1)
	}
	s.plan = nil
	s.newPrices()
}

func (s *seqState) opConfirm() {
	if s.fc.RevisionNumber == s.elem.V2FileContract.RevisionNumber {
		return
	}
	s.note("confirm", nil)
	s.submitRevision("confirm", true)
}

// ---------------------------------------------------------------------------

func runSequence(b *harness.B, r *rand.Rand, base *chain, id int) {
	s := &seqState{b: b, r: r, c: base.snapshot(), id: id, renter: newActor(r), host: newActor(r)}
	s.newPrices()
	if !s.form() {
		b.Distinct("seq", strings.Join(s.ops, ">"))
		return
	}
	steps := 3 + r.IntN(10)
	for i := 0; i < steps && !s.dead; i++ {
		if s.c.childHeight() > s.fc.ProofHeight {
			// the confirmed contract is past its revisable window: only a renewal is admissible. A refresh keeps the
			// proof height: it is asked for all the same every third time - Validate has to refuse it (what it admits
			// goes to consensus like any other result)
			s.plan = nil
			if r.IntN(2) == 0 {
				s.appendPastProofHeight()
				if s.dead {
					break
				}
			}
			if r.IntN(3) == 0 {
				b.Count("refreshes_requested_past_the_proof_height", 1)
				s.opRefresh(r.IntN(2) == 0)
				if s.dead {
					break
				}
				s.plan = nil
			}
			s.opRenew()
			continue
		}
		if s.plan != nil {
			s.opAppend()
			continue
		}
		low := toBig(s.fc.RenterOutput.Value).BitLen() < 8
		k := r.IntN(100)
		if low && k < 50 {
			k = 70 + r.IntN(30)
		} else if s.fc.Capacity > s.fc.Filesize && k >= 30 && k < 60 {
			k = 0 // spare capacity: favour appends that (partly) fit
		}
		switch {
		case k < 18:
			s.opAppend()
		case k < 30:
			s.opFree()
		case k < 38:
			s.opRoots()
		case k < 46:
			s.opFund()
		case k < 52:
			s.opReplenish()
		case k < 60:
			s.opPay()
		case k < 64:
			s.plan = nil
			s.newPrices()
			s.note("reprice", nil)
		case k < 68:
			s.opAge()
		case k < 72:
			s.opConfirm()
		case k < 82:
			s.opRenew()
		case k < 91:
			s.opRefresh(false)
		default:
			s.opRefresh(true)
		}
	}
	b.Count("sequences", 1)
	b.MaxOf("max_sequence_length", int64(len(s.ops)))
	// sequence signature, truncated so that the class stays structural
	sig := s.ops
	if len(sig) > 7 {
		sig = sig[:7]
	}
	b.Distinct("seq", strings.Join(sig, ">"))
	if id < 2 {
		b.Sample(map[string]any{"kind": "rhp4 sequence", "ops": strings.Join(s.ops, ">"), "final_contract": jsonOf(s.fc)})
	}
}

func runV4(b *harness.B) {
	r := b.Rng
	// a few base chains of different heights / maturity delays; every sequence starts
	// from a snapshot of one of them
	var bases []*chain
	for _, h := range []int{0, 1 + r.IntN(30), 150 + r.IntN(200)} {
		c, err := newChain(true, uint64(r.IntN(3)), pow2(126))
		if err != nil {
			b.Inconclusive("cannot build base chain: " + err.Error())
			return
		}
		for i := 0; i < h; i++ {
			if _, err := c.mine(nil, nil, nil, types.SiacoinOutputID{}); err != nil {
				b.Inconclusive("cannot build base chain: " + errClass(err))
				return
			}
		}
		b.Count("blocks_validated", h)
		bases = append(bases, c)
	}
	n := b.Pick(2000, 25000)
	for i := 0; i < n; i++ {
		runSequence(b, r, bases[r.IntN(len(bases))], i)
	}
}
