// C17 — RHP contract constructors conserve funds and yield consensus-valid contracts.
//
// Monitor: the real RHP4 constructors / revision helpers / cost functions are driven
// through random sequences starting at NewContract with requests admitted by the real
// Validate methods and balances steered onto exact boundaries; every result is watched
// by a math/big conservation oracle and submitted (signed, funded with exactly the
// reported costs) to the real consensus.ValidateV2Transaction / ValidateBlock on a small
// real chain. The v1-era rhp2/rhp3 payout constructors are checked against the tax
// equation and consensus.ValidateTransaction.
package main

import (
	"fmt"
	"math/big"
	"math/rand/v2"
	"regexp"
	"strings"
	"time"

	"go.sia.tech/core/types"
	"verif/internal/harness"
)

var two128 = new(big.Int).Lsh(big.NewInt(1), 128)

func toBig(c types.Currency) *big.Int {
	b := new(big.Int).SetUint64(c.Hi)
	b.Lsh(b, 64)
	return b.Add(b, new(big.Int).SetUint64(c.Lo))
}

func fromBig(b *big.Int) types.Currency {
	if b.Sign() < 0 || b.Cmp(two128) >= 0 {
		panic("c17: fromBig out of range")
	}
	lo := new(big.Int).And(b, new(big.Int).SetUint64(^uint64(0))).Uint64()
	hi := new(big.Int).Rsh(b, 64).Uint64()
	return types.NewCurrency(lo, hi)
}

func bsum(cs ...types.Currency) *big.Int {
	s := new(big.Int)
	for _, c := range cs {
		s.Add(s, toBig(c))
	}
	return s
}

func pow2(n uint) types.Currency { return fromBig(new(big.Int).Lsh(big.NewInt(1), n)) }

// randCurrency returns a value with a random bit length in [0,maxBits].
func randCurrency(r *rand.Rand, maxBits int) types.Currency {
	n := r.IntN(maxBits + 1)
	if n == 0 {
		return types.ZeroCurrency
	}
	v := new(big.Int).SetUint64(r.Uint64())
	v.Lsh(v, 64)
	v.Add(v, new(big.Int).SetUint64(r.Uint64()))
	v.Rsh(v, uint(128-n))
	v.SetBit(v, n-1, 1)
	return fromBig(v)
}

// bitClass is a coarse magnitude class used in case shapes.
func bitClass(c types.Currency) string {
	n := toBig(c).BitLen()
	switch {
	case n == 0:
		return "0"
	case n <= 8:
		return "s"
	case n <= 40:
		return "m"
	case n <= 80:
		return "l"
	default:
		return "xl"
	}
}

var (
	reDec  = regexp.MustCompile(`[0-9]+\.[0-9]+`)
	reHex  = regexp.MustCompile(`[0-9a-fA-F]{16,}`)
	reNum  = regexp.MustCompile(`[0-9]+`)
	reUnit = regexp.MustCompile(`# ?(H|pS|nS|uS|mS|SC|KS|MS|GS|TS)\b`)
	reWS   = regexp.MustCompile(`\s+`)
)

// errClass strips numbers, amounts and hashes from an error string so that it names
// the rule that fired, not the case.
func errClass(err error) string {
	if err == nil {
		return "nil"
	}
	s := err.Error()
	s = reDec.ReplaceAllString(s, "#")
	s = reHex.ReplaceAllString(s, "#")
	s = reNum.ReplaceAllString(s, "#")
	s = reUnit.ReplaceAllString(s, "#")
	s = reWS.ReplaceAllString(s, "-")
	s = strings.NewReplacer("(", "", ")", "", ":", "", ",", "", "'", "", "\"", "").Replace(s)
	if len(s) > 90 {
		s = s[:90]
	}
	return s
}

// call runs f and reports a panic instead of propagating it.
func call(f func()) (panicked bool, msg string) {
	defer func() {
		if r := recover(); r != nil {
			panicked = true
			msg = fmt.Sprint(r)
		}
	}()
	f()
	return
}

func run(b *harness.B) {
	switch b.Batch % 16 {
	case 0:
		runV1Payouts(b)
	case 1:
		runV1Chain(b)
		runExtreme(b)
		runHugeContract(b)
		if b.Batch == 1 {
			runHostileAmounts(b)
			runEndOfLife(b)
		}
	default:
		runV4(b)
	}
}

func main() {
	harness.Main(harness.Spec{
		ID: "C17",
		Rule: "batches >=2: random RHP4 sequences NewContract -> {append (within capacity / growing), free, sector roots, fund, replenish, direct PayWithContract, reprice, age, confirm, renew, refresh full, refresh partial}*; " +
			"every request passes the real Validate (HostPrices signed by the host key, expiry fixed in 2100); formation / renewal / refresh parameters and a preceding fund-accounts revision steer the renter output to cost-1, cost, cost+1 and the missed host value to risked-1, risked, risked+1 of the next operation, and rollovers to allowance-1/=/+1 of the old outputs; " +
			"each result is judged by a math/big oracle and then signed with the renter/host keys, funded with exactly the reported costs from ephemeral outputs of a setup transaction and submitted to consensus.ValidateV2Transaction on the MidState of a real chain (contract parents are accumulator elements of earlier blocks, blocks pass ValidateBlock); under- and over-funding by 1 H and tampered revisions are the rejection controls. " +
			"batch 0: v1 tax inversion through rhp2.PrepareContractFormation/Renewal and rhp3.PrepareContractRenewal over a boundary grid (2^k±1, multiples of 961/1000/10000 ±1, tax-step payouts ±1) and random targets, with ValidateTransaction on funded transactions; batch 1: v1 contracts formed on a real v1 chain, rhp3.PayByContract revisions and rhp2/rhp3 renewals validated against the on-chain parent; plus the cost-overflow family for the Revise* helpers. " +
			"A case is distinct by (constructor sequence signature, boundary class, rollover shape, capacity growth, magnitude classes of the prices).",
		Assume: []string{
			"math/big is the arithmetic oracle; ed25519 and blake2b are trusted",
			"amounts are below 2^120 H (far above the coin supply): beyond that consensus' own overflow guard rejects every transaction and the constructors' panicking Currency arithmetic is outside the statement; the cost-overflow family of batch 1 is the only place where costs above 2^128 are used",
			"revisions are constructed only while prices.TipHeight < contract proof height (the host refuses to revise later; that check is outside core)",
			"RHP4 Validate methods are used as the admission filter and are not judged",
			"v1 Filesize/FileMerkleRoot of a revision are set by the harness as the rhp2 write RPC would (core has no v1 append constructor)",
		},
		Batches: func(t string) int {
			if t == "quick" {
				return 16
			}
			return 48
		},
		Run:          run,
		ChildTimeout: func(t string) time.Duration { return 25 * time.Minute },
		MinEvals:     20000,
		MinDistinct:  500,
		Require: []string{"appends_requested_at_or_past_the_proof_height", "appends_at_or_past_the_proof_height_refused",
			"revisions_checked", "renewals_checked", "refreshes_full_checked", "refreshes_partial_checked", "formations_checked",
			"insufficient_funds_cases", "insufficient_collateral_cases", "consensus_accepted", "consensus_rejected_controls",
			"boundary_renter_eq_cost", "boundary_renter_cost_minus_1", "boundary_renter_cost_plus_1",
			"boundary_missed_eq_risked", "boundary_missed_risked_minus_1", "boundary_missed_risked_plus_1",
			"append_with_growth", "append_within_capacity", "blocks_validated",
			"v1_payouts_checked", "v1_consensus_accepted", "v1_consensus_rejected_controls", "v1_revisions_checked", "v1_renewals_checked", "v1_paybycontract_insufficient",
			"overflow_family_cases",
			"appends_with_a_price_table_tip_past_expiration", "revisions_of_a_contract_at_the_last_revision_number", "v1_paybycontract_on_the_last_revision_number",
			"formations_against_a_stale_price_table_with_a_proof_height_already_reached", "v1_rhp3_renewals_ending_at_the_hosts_height", "v1_revisions_with_renter_missed_below_valid", "refreshes_requested_past_the_proof_height",
		},
	})
}
