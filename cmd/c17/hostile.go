package main

import (
	"fmt"

	"go.sia.tech/core/consensus"
	rhp4 "go.sia.tech/core/rhp/v4"
	"go.sia.tech/core/types"
	"verif/internal/harness"
)

// runHostileAmounts: ordinary prices, but amounts chosen by the peer at the top of the 128-bit range. A request that
// passes Validate must lead to a contract or a clean error ("fail cleanly when funds are insufficient"); the
// validators and cost functions themselves must not panic. One fixed witness per entry point.
func runHostileAmounts(b *harness.B) {
	r := b.SubRng("hostile")
	host, renter := newActor(r), newActor(r)
	hp := rhp4.HostPrices{ContractPrice: types.Siacoins(1).Div64(10), StoragePrice: types.NewCurrency64(23148), Collateral: types.NewCurrency64(46296),
		IngressPrice: types.NewCurrency64(100), EgressPrice: types.NewCurrency64(100), FreeSectorPrice: types.NewCurrency64(1), TipHeight: 1000, ValidUntil: farFuture}
	hp.Signature = host.sk.SignHash(hp.SigHash())
	if err := hp.Validate(host.pk); err != nil {
		b.Inconclusive("hostile amounts: ordinary price table not admitted: " + errClass(err))
		return
	}
	tip := types.ChainIndex{Height: 1000, ID: types.BlockID{1}}
	maxCollateral := types.Siacoins(1000)
	const maxDuration = 10000
	var cs consensus.State
	fee := types.Siacoins(1).Div64(100)
	existing, _ := rhp4.NewContract(hp, rhp4.RPCFormContractParams{RenterPublicKey: renter.pk, RenterAddress: renter.addr, Allowance: types.Siacoins(10), Collateral: types.Siacoins(20), ProofHeight: 2000}, host.pk, host.addr)
	// one appended sector, so that there is risked collateral
	withData, _, _ := rhp4.ReviseForAppendSectors(existing, hp, types.Hash256{1}, 1)

	probe := func(entry, field string, validate func() error, construct func()) {
		b.Eval(1)
		b.Count("hostile_amount_probes", 1)
		b.Distinct("hostile", entry, field)
		var verr error
		if p, msg := call(func() { verr = validate() }); p {
			b.Violate(fmt.Sprintf("C17/validate/%s/panics-on-%s-at-the-top-of-the-range", entry, field), fmt.Sprintf("%s.Validate panicked (%s) on a request with %s = 2^128-1 and ordinary prices", entry, msg, field), map[string]any{"entry": entry, "field": field, "panic": msg})
			return
		}
		if verr != nil {
			b.Count("hostile_amount_requests_rejected_by_validate", 1)
			return
		}
		if construct == nil {
			return
		}
		if p, msg := call(construct); p {
			b.Violate(fmt.Sprintf("C17/construct/%s/panics-after-validate-accepted-%s-at-the-top-of-the-range", entry, field), fmt.Sprintf("a %s with %s = 2^128-1 passed Validate; constructing the contract / computing its cost then panicked (%s)", entry, field, msg), map[string]any{"entry": entry, "field": field, "panic": msg})
		}
	}
	max := types.MaxCurrency
	// --- allowance
	refresh := rhp4.RPCRefreshContractRequest{Prices: hp, MinerFee: fee, Basis: tip, Refresh: rhp4.RPCRefreshContractParams{Allowance: max}}
	probe("RPCRefreshContractRequest(full-rollover)", "Allowance", func() error { return refresh.Validate(host.pk, tip, existing, maxCollateral, false) }, func() {
		ren, _ := rhp4.RefreshContractFullRollover(existing, hp, host.addr, refresh.Refresh)
		rhp4.RefreshCost(cs, hp, ren, fee)
	})
	probe("RPCRefreshContractRequest(partial-rollover)", "Allowance", func() error { return refresh.Validate(host.pk, tip, existing, maxCollateral, true) }, func() {
		ren, _ := rhp4.RefreshContractPartialRollover(existing, hp, host.addr, refresh.Refresh)
		rhp4.RefreshCost(cs, hp, ren, fee)
	})
	renew := rhp4.RPCRenewContractRequest{Prices: hp, MinerFee: fee, Basis: tip, Renewal: rhp4.RPCRenewContractParams{Allowance: max, ProofHeight: 3000}}
	probe("RPCRenewContractRequest", "Allowance", func() error { return renew.Validate(host.pk, tip, existing, maxCollateral, maxDuration) }, func() {
		ren, _ := rhp4.RenewContract(existing, hp, host.addr, renew.Renewal)
		rhp4.RenewalCost(cs, ren, fee)
	})
	form := rhp4.RPCFormContractRequest{Prices: hp, MinerFee: fee, Basis: tip, RenterInputs: []types.SiacoinElement{{}},
		Contract: rhp4.RPCFormContractParams{RenterPublicKey: renter.pk, RenterAddress: renter.addr, Allowance: max, ProofHeight: 2000}}
	probe("RPCFormContractRequest", "Allowance", func() error { return form.Validate(host.pk, tip, maxCollateral, maxDuration) }, func() {
		fc, _ := rhp4.NewContract(hp, form.Contract, host.pk, host.addr)
		rhp4.ContractCost(cs, fc, fee)
	})
	// --- collateral
	renewC := renew
	renewC.Renewal.Allowance, renewC.Renewal.Collateral = types.Siacoins(10), max
	probe("RPCRenewContractRequest", "Collateral", func() error { return renewC.Validate(host.pk, tip, withData, maxCollateral, maxDuration) }, nil)
	refreshC := refresh
	refreshC.Refresh.Allowance, refreshC.Refresh.Collateral = types.Siacoins(10), max
	probe("RPCRefreshContractRequest(full-rollover)", "Collateral", func() error { return refreshC.Validate(host.pk, tip, withData, maxCollateral, false) }, nil)
	probe("RPCRefreshContractRequest(partial-rollover)", "Collateral", func() error { return refreshC.Validate(host.pk, tip, withData, maxCollateral, true) }, nil)
	// --- deposits reported by the host
	resp := rhp4.RPCReplenishAccountsResponse{Deposits: []rhp4.AccountDeposit{{Amount: pow2(127)}, {Amount: pow2(127)}}}
	b.Eval(1)
	b.Count("hostile_amount_probes", 1)
	if p, msg := call(func() { resp.TotalCost() }); p {
		b.Violate("C17/cost/RPCReplenishAccountsResponse.TotalCost/panics-on-deposits-summing-beyond-128-bits", "TotalCost panicked ("+msg+") on two deposits of 2^127 reported by the host; its result is what the renter feeds to ReviseForReplenish", map[string]any{"panic": msg})
	}
}
