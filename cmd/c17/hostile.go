package main

import (
	"fmt"

	"go.sia.tech/core/consensus"
	rhp4 "go.sia.tech/core/rhp/v4"
	"go.sia.tech/core/types"
	"verif/internal/harness"
)

// runHostileAmounts: ordinary prices, but amounts chosen by the peer at the top of the 128-bit range. A request that
// passes Validate must lead to a contract or a clean error ("fail cleanly when funds are insufficient"); the
// validators and cost functions themselves must not panic. One fixed witness per entry point.
func runHostileAmounts(b *harness.B) {
	r := b.SubRng("hostile")
	host, renter := newActor(r), newActor(r)
	hp := rhp4.HostPrices{ContractPrice: types.Siacoins(1).Div64(10), StoragePrice: types.NewCurrency64(23148), Collateral: types.NewCurrency64(46296),
		IngressPrice: types.NewCurrency64(100), EgressPrice: types.NewCurrency64(100), FreeSectorPrice: types.NewCurrency64(1), TipHeight: 1000, ValidUntil: farFuture}
	hp.Signature = host.sk.SignHash(hp.SigHash())
	if err := hp.Validate(host.pk); err != nil {
		b.Inconclusive("hostile amounts: ordinary price table not admitted: " + errClass(err))
		return
	}
	tip := types.ChainIndex{Height: 1000, ID: types.BlockID{1}}
	maxCollateral := types.Siacoins(1000)
	const maxDuration = 10000
	var cs consensus.State
	fee := types.Siacoins(1).Div64(100)
	existing, _ := rhp4.NewContract(hp, rhp4.RPCFormContractParams{RenterPublicKey: renter.pk, RenterAddress: renter.addr, Allowance: types.Siacoins(10), Collateral: types.Siacoins(20), ProofHeight: 2000}, host.pk, host.addr)
	// one appended sector, so that there is risked collateral
	withData, _, _ := rhp4.ReviseForAppendSectors(existing, hp, types.Hash256{1}, 1)

	probe := func(entry, field string, validate func() error, construct func()) {
		b.Eval(1)
		b.Count("hostile_amount_probes", 1)
		b.Distinct("hostile", entry, field)
		var verr error
		if p, msg := call(func() { verr = validate() }); p {
			b.Violate(fmt.Sprintf("C17/validate/%s/panics-on-%s-at-the-top-of-the-range", entry, field), fmt.Sprintf("%s.Validate panicked (%s) on a request with %s = 2^128-1 and ordinary prices", entry, msg, field), map[string]any{"entry": entry, "field": field, "panic": msg})
			return
		}
		if verr != nil {
			b.Count("hostile_amount_requests_rejected_by_validate", 1)
			return
		}
		if construct == nil {
			return
		}
		if p, msg := call(construct); p {
			b.Violate(fmt.Sprintf("C17/construct/%s/panics-after-validate-accepted-%s-at-the-top-of-the-range", entry, field), fmt.Sprintf("a %s with %s = 2^128-1 passed Validate; constructing the contract / computing its cost then panicked (%s)", entry, field, msg), map[string]any{"entry": entry, "field": field, "panic": msg})
		}
	}
	max := types.MaxCurrency
	// --- allowance
	refresh := rhp4.RPCRefreshContractRequest{Prices: hp, MinerFee: fee, Basis: tip, Refresh: rhp4.RPCRefreshContractParams{Allowance: max}}
	probe("RPCRefreshContractRequest(full-rollover)", "Allowance", func() error { return refresh.Validate(host.pk, tip, existing, maxCollateral, false) }, func() {
		ren, _ := rhp4.RefreshContractFullRollover(existing, hp, host.addr, refresh.Refresh)
		rhp4.RefreshCost(cs, hp, ren, fee)
	})
	probe("RPCRefreshContractRequest(partial-rollover)", "Allowance", func() error { return refresh.Validate(host.pk, tip, existing, maxCollateral, true) }, func() {
		ren, _ := rhp4.RefreshContractPartialRollover(existing, hp, host.addr, refresh.Refresh)
		rhp4.RefreshCost(cs, hp, ren, fee)
	})
	renew := rhp4.RPCRenewContractRequest{Prices: hp, MinerFee: fee, Basis: tip, Renewal: rhp4.RPCRenewContractParams{Allowance: max, ProofHeight: 3000}}
	probe("RPCRenewContractRequest", "Allowance", func() error { return renew.Validate(host.pk, tip, existing, maxCollateral, maxDuration) }, func() {
		ren, _ := rhp4.RenewContract(existing, hp, host.addr, renew.Renewal)
		rhp4.RenewalCost(cs, ren, fee)
	})
	form := rhp4.RPCFormContractRequest{Prices: hp, MinerFee: fee, Basis: tip, RenterInputs: []types.SiacoinElement{{}},
		Contract: rhp4.RPCFormContractParams{RenterPublicKey: renter.pk, RenterAddress: renter.addr, Allowance: max, ProofHeight: 2000}}
	probe("RPCFormContractRequest", "Allowance", func() error { return form.Validate(host.pk, tip, maxCollateral, maxDuration) }, func() {
		fc, _ := rhp4.NewContract(hp, form.Contract, host.pk, host.addr)
		rhp4.ContractCost(cs, fc, fee)
	})
	// --- collateral
	renewC := renew
	renewC.Renewal.Allowance, renewC.Renewal.Collateral = types.Siacoins(10), max
	probe("RPCRenewContractRequest", "Collateral", func() error { return renewC.Validate(host.pk, tip, withData, maxCollateral, maxDuration) }, nil)
	refreshC := refresh
	refreshC.Refresh.Allowance, refreshC.Refresh.Collateral = types.Siacoins(10), max
	probe("RPCRefreshContractRequest(full-rollover)", "Collateral", func() error { return refreshC.Validate(host.pk, tip, withData, maxCollateral, false) }, nil)
	probe("RPCRefreshContractRequest(partial-rollover)", "Collateral", func() error { return refreshC.Validate(host.pk, tip, withData, maxCollateral, true) }, nil)
	// --- deposits reported by the host
	resp := rhp4.RPCReplenishAccountsResponse{Deposits: []rhp4.AccountDeposit{{Amount: pow2(127)}, {Amount: pow2(127)}}}
	b.Eval(1)
	b.Count("hostile_amount_probes", 1)
	if p, msg := call(func() { resp.TotalCost() }); p {
		b.Violate("C17/cost/RPCReplenishAccountsResponse.TotalCost/panics-on-deposits-summing-beyond-128-bits", "TotalCost panicked ("+msg+") on two deposits of 2^127 reported by the host; its result is what the renter feeds to ReviseForReplenish", map[string]any{"panic": msg})
	}
}

// runEndOfLife: contracts at the end of what a revision can express. (1) A price table whose tip lies past the
// contract's expiration height (nothing relates the host-signed TipHeight to the contract; both the table and the
// append request pass Validate): the remaining duration is not a number of blocks any more, the constructor must fail
// cleanly rather than charge for a wrapped-around duration or panic. The assumption "TipHeight < proof height" of the
// random sequences is about which results are submitted to consensus; this case is about the arithmetic only.
// (2) A contract whose revision number is the last one (types.MaxRevisionNumber, "no further revisions are possible"):
// a further revision cannot be accepted by consensus, so the paying constructors must refuse instead of wrapping the
// number around.
func runEndOfLife(b *harness.B) {
	r := b.SubRng("end-of-life")
	host, renter := newActor(r), newActor(r)
	for it := 0; it < 40; it++ {
		hp := rhp4.HostPrices{ContractPrice: types.Siacoins(1).Div64(10), StoragePrice: types.NewCurrency64(1 + r.Uint64N(40e9)), Collateral: types.NewCurrency64(r.Uint64N(80e9)),
			IngressPrice: types.NewCurrency64(100), EgressPrice: types.NewCurrency64(100), FreeSectorPrice: types.NewCurrency64(1), TipHeight: 1000, ValidUntil: farFuture}
		if it == 0 {
			hp.StoragePrice, hp.Collateral = types.NewCurrency64(1), types.ZeroCurrency
		}
		hp.Signature = host.sk.SignHash(hp.SigHash())
		fc, _ := rhp4.NewContract(hp, rhp4.RPCFormContractParams{RenterPublicKey: renter.pk, RenterAddress: renter.addr, Allowance: types.Siacoins(1000), Collateral: types.Siacoins(1000), ProofHeight: 1000 + 18 + r.Uint64N(500)}, host.pk, host.addr)
		late := hp
		past := 1 + r.Uint64N(3)
		if it%4 == 3 {
			past = 1 + r.Uint64N(1<<40)
		}
		late.TipHeight = fc.ExpirationHeight + past
		late.Signature = host.sk.SignHash(late.SigHash())
		n := uint64(1)
		if it%2 == 1 {
			n = 1 + r.Uint64N(256)
		}
		req := rhp4.RPCAppendSectorsRequest{Prices: late, Sectors: make([]types.Hash256, n)}
		if err := req.Validate(host.pk); err != nil {
			b.Inconclusive("end of life: append request with a late price table not admitted: " + errClass(err))
			return
		}
		b.Eval(1)
		b.Count("appends_with_a_price_table_tip_past_expiration", 1)
		b.Distinct("end-of-life", "append", past > 3, n > 1)
		wit := map[string]any{"contract": jsonOf(fc), "prices": jsonOf(late), "sectors": n}
		var rev types.V2FileContract
		var usage rhp4.Usage
		var err error
		if p, msg := call(func() { rev, usage, err = rhp4.ReviseForAppendSectors(fc, late, types.Hash256{1}, n) }); p {
			b.Violate("C17/v4/ReviseForAppendSectors/price-table-tip-past-expiration/panics", fmt.Sprintf("expiration height %d, price table tip %d, %d sectors at %v H/byte/block: the constructor panicked (%s) instead of failing cleanly", fc.ExpirationHeight, late.TipHeight, n, late.StoragePrice, msg), wit)
			continue
		}
		if err == nil {
			b.Violate("C17/v4/ReviseForAppendSectors/price-table-tip-past-expiration/charges-a-wrapped-duration", fmt.Sprintf("expiration height %d, price table tip %d: the constructor succeeded and charged %v for storage (renter output %v -> %v); the duration ExpirationHeight-TipHeight wrapped around", fc.ExpirationHeight, late.TipHeight, usage.Storage, fc.RenterOutput.Value, rev.RenterOutput.Value), wit)
		}
	}
	// (2) the last revision number
	hp := rhp4.HostPrices{ContractPrice: types.Siacoins(1).Div64(10), StoragePrice: types.NewCurrency64(23148), Collateral: types.NewCurrency64(46296),
		IngressPrice: types.NewCurrency64(100), EgressPrice: types.NewCurrency64(100), FreeSectorPrice: types.NewCurrency64(1), TipHeight: 1000, ValidUntil: farFuture}
	hp.Signature = host.sk.SignHash(hp.SigHash())
	fc, _ := rhp4.NewContract(hp, rhp4.RPCFormContractParams{RenterPublicKey: renter.pk, RenterAddress: renter.addr, Allowance: types.Siacoins(10), Collateral: types.Siacoins(20), ProofHeight: 2000}, host.pk, host.addr)
	fc.RevisionNumber = types.MaxRevisionNumber
	type ctor struct {
		name string
		f    func() (types.V2FileContract, error)
	}
	for _, c := range []ctor{
		{"PayWithContract", func() (types.V2FileContract, error) {
			x := fc
			err := rhp4.PayWithContract(&x, rhp4.Usage{RPC: types.Siacoins(1)})
			return x, err
		}},
		{"ReviseForAppendSectors", func() (types.V2FileContract, error) {
			x, _, err := rhp4.ReviseForAppendSectors(fc, hp, types.Hash256{1}, 1)
			return x, err
		}},
		{"ReviseForSectorRoots", func() (types.V2FileContract, error) {
			x, _, err := rhp4.ReviseForSectorRoots(fc, hp, 10)
			return x, err
		}},
		{"ReviseForFundAccounts", func() (types.V2FileContract, error) {
			x, _, err := rhp4.ReviseForFundAccounts(fc, types.Siacoins(1))
			return x, err
		}},
	} {
		b.Eval(1)
		b.Count("revisions_of_a_contract_at_the_last_revision_number", 1)
		b.Distinct("end-of-life", "last-revision-number", c.name)
		var x types.V2FileContract
		var err error
		if p, msg := call(func() { x, err = c.f() }); p {
			b.Violate("C17/v4/"+c.name+"/last-revision-number/panics", msg, nil)
		} else if err == nil {
			b.Violate("C17/v4/"+c.name+"/last-revision-number/revision-number-wraps-around", fmt.Sprintf("the contract is at revision number 2^64-1; %s succeeded with revision number %d, which consensus rejects (not higher than its parent)", c.name, x.RevisionNumber), map[string]any{"revisionNumber": x.RevisionNumber})
		}
	}
}
