package main

// A minimal chain client over the public consensus API: one funding element
// (anyone-can-spend) whose proof is kept current from ApplyUpdate, real blocks
// (commitment, payout, nonce) that are offered to ValidateBlock before they are
// applied. Only what C17 needs; no reorgs.

import (
	"errors"
	"fmt"
	"time"

	"go.sia.tech/core/consensus"
	"go.sia.tech/core/types"
)

var genesisTime = time.Unix(1700000000, 0).UTC()

type chain struct {
	n    *consensus.Network
	cs   consensus.State
	ts   time.Time            // timestamp of the tip block
	fund types.SiacoinElement // large anyone-can-spend output, proof kept current
	v1   bool                 // fund is locked by empty v1 UnlockConditions instead of a v2 policy
}

// snapshot returns an independent copy (State is a value; the proof is copied).
func (c *chain) snapshot() *chain {
	d := *c
	d.fund = c.fund.Copy()
	return &d
}

func (c *chain) childHeight() uint64 { return c.cs.Index.Height + 1 }

func maxTarget() (t types.BlockID) {
	for i := range t {
		t[i] = 0xFF
	}
	return
}

// newNetwork builds a tiny network. v2=true: v2 allowed from genesis and required from
// height 2; v2=false: v1 only (v2 heights unreachable), all v1 hardforks (incl. the tax
// hardfork) active from genesis.
func newNetwork(v2 bool, maturityDelay uint64) *consensus.Network {
	n := &consensus.Network{
		Name:            "c17",
		InitialCoinbase: types.Siacoins(300000),
		MinimumCoinbase: types.Siacoins(30000),
		InitialTarget:   maxTarget(),
		BlockInterval:   10 * time.Minute,
		MaturityDelay:   maturityDelay,
	}
	n.HardforkOak.GenesisTimestamp = genesisTime
	n.HardforkASIC.OakTime = 10000 * time.Second
	n.HardforkASIC.OakTarget = n.InitialTarget
	n.HardforkASIC.NonceFactor = 1
	n.HardforkFoundation.PrimaryAddress = types.VoidAddress // no subsidy outputs
	n.HardforkFoundation.FailsafeAddress = types.VoidAddress
	if v2 {
		n.HardforkV2.AllowHeight = 0
		n.HardforkV2.RequireHeight = 2
		n.HardforkV2.EphemeralOutputHeight = 0
		n.HardforkV2.FinalCutHeight = 1 << 40
	} else {
		n.HardforkV2.AllowHeight = 1 << 40
		n.HardforkV2.RequireHeight = 1 << 41
		n.HardforkV2.EphemeralOutputHeight = 1 << 41
		n.HardforkV2.FinalCutHeight = 1 << 42
	}
	return n
}

// newChain applies a genesis block giving `value` to an anyone-can-spend address.
func newChain(v2 bool, maturityDelay uint64, value types.Currency) (*chain, error) {
	c := &chain{n: newNetwork(v2, maturityDelay), v1: !v2}
	addr := types.AnyoneCanSpend().Address()
	if c.v1 {
		addr = types.UnlockConditions{}.UnlockHash()
	}
	gtxn := types.Transaction{SiacoinOutputs: []types.SiacoinOutput{{Address: addr, Value: value}}}
	genesis := types.Block{Timestamp: genesisTime, Transactions: []types.Transaction{gtxn}}
	bs := consensus.V1BlockSupplement{Transactions: make([]consensus.V1TransactionSupplement, 1)}
	cs, au := consensus.ApplyBlock(c.n.GenesisState(), genesis, bs, time.Time{})
	c.cs, c.ts = cs, genesisTime
	el, ok := findSiacoin(au, gtxn.SiacoinOutputID(0))
	if !ok {
		return nil, errors.New("genesis output not reported by ApplyUpdate")
	}
	c.fund = el
	return c, nil
}

func findSiacoin(au consensus.ApplyUpdate, id types.SiacoinOutputID) (types.SiacoinElement, bool) {
	for _, d := range au.SiacoinElementDiffs() {
		if d.SiacoinElement.ID == id && d.Created && !d.Spent {
			return d.SiacoinElement.Copy(), true
		}
	}
	return types.SiacoinElement{}, false
}

func findV2Contract(au consensus.ApplyUpdate, id types.FileContractID) (types.V2FileContractElement, bool) {
	for _, d := range au.V2FileContractElementDiffs() {
		if d.V2FileContractElement.ID != id {
			continue
		}
		if d.Resolution != nil {
			return types.V2FileContractElement{}, false
		}
		el := d.V2FileContractElement.Copy()
		if d.Revision != nil {
			el.V2FileContract = *d.Revision
		}
		return el, true
	}
	return types.V2FileContractElement{}, false
}

func findV1Contract(au consensus.ApplyUpdate, id types.FileContractID) (types.FileContractElement, bool) {
	for _, d := range au.FileContractElementDiffs() {
		if d.FileContractElement.ID != id || d.Resolved {
			continue
		}
		el := d.FileContractElement.Copy()
		if d.Revision != nil {
			el.FileContract = *d.Revision
		}
		return el, true
	}
	return types.FileContractElement{}, false
}

// mine seals a block with the given transactions, offers it to ValidateBlock and, if
// accepted, applies it. newFund, if non-zero, is the ID of the output that replaces the
// funding element (its change output); otherwise the funding element's proof is updated.
// extra are further tracked state elements whose proofs must follow the chain.
func (c *chain) mine(v1 []types.Transaction, sup []consensus.V1TransactionSupplement, v2 []types.V2Transaction, newFund types.SiacoinOutputID, extra ...*types.StateElement) (consensus.ApplyUpdate, error) {
	reward := c.cs.BlockReward()
	for _, t := range v1 {
		for _, f := range t.MinerFees {
			reward = reward.Add(f)
		}
	}
	for _, t := range v2 {
		reward = reward.Add(t.MinerFee)
	}
	b := types.Block{
		ParentID:     c.cs.Index.ID,
		Timestamp:    c.ts.Add(c.n.BlockInterval),
		Transactions: v1,
		MinerPayouts: []types.SiacoinOutput{{Address: types.VoidAddress, Value: reward}},
	}
	if c.childHeight() >= c.n.HardforkV2.AllowHeight {
		b.V2 = &types.V2BlockData{Height: c.childHeight(), Transactions: v2}
		b.V2.Commitment = c.cs.Commitment(b.MinerPayouts[0].Address, b.Transactions, b.V2Transactions())
	} else if len(v2) > 0 {
		return consensus.ApplyUpdate{}, errors.New("v2 transactions before allow height")
	}
	for b.Nonce%c.cs.NonceFactor() != 0 {
		b.Nonce++
	}
	for i := 0; b.ID().CmpWork(c.cs.PoWTarget()) < 0; i++ {
		b.Nonce += c.cs.NonceFactor()
		if i > 1<<20 {
			return consensus.ApplyUpdate{}, errors.New("proof of work infeasible")
		}
	}
	bs := consensus.V1BlockSupplement{Transactions: sup}
	if len(bs.Transactions) != len(v1) {
		bs.Transactions = make([]consensus.V1TransactionSupplement, len(v1))
	}
	if err := consensus.ValidateBlock(c.cs, b, bs); err != nil {
		return consensus.ApplyUpdate{}, fmt.Errorf("ValidateBlock: %w", err)
	}
	cs, au := consensus.ApplyBlock(c.cs, b, bs, time.Time{})
	c.cs, c.ts = cs, b.Timestamp
	if newFund != (types.SiacoinOutputID{}) {
		el, ok := findSiacoin(au, newFund)
		if !ok {
			return au, errors.New("change output not reported by ApplyUpdate")
		}
		c.fund = el
	} else {
		au.UpdateElementProof(&c.fund.StateElement)
	}
	for _, e := range extra {
		au.UpdateElementProof(e)
	}
	return au, nil
}
