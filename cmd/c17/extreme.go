package main

import (
	"fmt"
	"math/big"

	rhp4 "go.sia.tech/core/rhp/v4"
	"go.sia.tech/core/types"
	"verif/internal/harness"
)

// runExtreme is the cost-overflow family: price tables (signed, admitted by
// HostPrices.Validate) and admitted request sizes whose exact cost does not fit 128 bits.
// Such a cost exceeds every possible renter output, so the statement's "fail cleanly when
// funds are insufficient" demands an error from the Revise* helpers, not a panic.
// The exact cost is computed in math/big from the documented meaning of the prices
// (per byte per block, per byte rounded to 4 KiB, per sector).
func runExtreme(b *harness.B) {
	r := b.SubRng("extreme")
	host, renter := newActor(r), newActor(r)
	one := big.NewInt(1)
	round4k := func(n uint64) uint64 { return (n + 4095) &^ 4095 }
	big64 := func(v uint64) *big.Int { return new(big.Int).SetUint64(v) }
	mul := func(a *big.Int, f ...uint64) *big.Int {
		z := new(big.Int).Set(a)
		for _, x := range f {
			z.Mul(z, big64(x))
		}
		return z
	}
	n := b.Pick(2000, 30000)
	for i := 0; i < n; i++ {
		hp := rhp4.HostPrices{TipHeight: 10 + r.Uint64N(100), ValidUntil: farFuture}
		// one price is huge, the others ordinary
		which := r.IntN(5)
		hb := uint(90 + r.IntN(38))
		huge := fromBig(new(big.Int).Add(new(big.Int).Lsh(one, hb), toBig(randCurrency(r, int(hb)-1))))
		hp.StoragePrice, hp.Collateral, hp.IngressPrice, hp.EgressPrice, hp.FreeSectorPrice = randCurrency(r, 30), randCurrency(r, 30), randCurrency(r, 30), randCurrency(r, 30), randCurrency(r, 30)
		*[]*types.Currency{&hp.StoragePrice, &hp.Collateral, &hp.IngressPrice, &hp.EgressPrice, &hp.FreeSectorPrice}[which] = huge
		// the first three cases are fixed minimal witnesses (one sector, one huge price, all else zero)
		minimal := i < 3
		if minimal {
			hp = rhp4.HostPrices{TipHeight: 10, ValidUntil: farFuture}
			switch i {
			case 0:
				which, hp.StoragePrice = 0, pow2(107) // x 2^22 bytes overflows already
			case 1:
				which, hp.EgressPrice = 3, pow2(117) // x 4096 bytes
			case 2:
				which, hp.FreeSectorPrice = 4, pow2(127) // x 2 sectors
			}
		}
		hp.Signature = host.sk.SignHash(hp.SigHash())
		if err := hp.Validate(host.pk); err != nil {
			b.Inconclusive("extreme price table not admitted: " + errClass(err))
			continue
		}
		params := rhp4.RPCFormContractParams{RenterPublicKey: renter.pk, RenterAddress: renter.addr, Allowance: randCurrency(r, 100).Add(types.NewCurrency64(1)), Collateral: randCurrency(r, 100), ProofHeight: hp.TipHeight + 18 + r.Uint64N(1000)}
		if minimal {
			params.Allowance, params.Collateral, params.ProofHeight = types.Siacoins(1), types.ZeroCurrency, hp.TipHeight+18
		}
		var fc types.V2FileContract
		if p, _ := call(func() { fc, _ = rhp4.NewContract(hp, params, host.pk, host.addr) }); p {
			continue
		}
		sectors := 1 + r.Uint64N(rhp4.MaxSectorBatchSize)
		if r.IntN(2) == 0 {
			sectors = 1 + r.Uint64N(100)
		}
		if minimal {
			sectors = 2
		}
		// the data is put there by the real helper under an earlier, free price table
		cheap := rhp4.HostPrices{TipHeight: hp.TipHeight, ValidUntil: farFuture}
		var aerr error
		if p, _ := call(func() { fc, _, aerr = rhp4.ReviseForAppendSectors(fc, cheap, types.Hash256{3}, sectors) }); p || aerr != nil {
			b.Inconclusive("overflow family: preparatory append failed")
			continue
		}
		duration := fc.ExpirationHeight - hp.TipHeight
		type tc struct {
			helper     string
			cost, risk *big.Int
			f          func() error
			wit        map[string]any
		}
		var cases []tc
		switch which {
		case 0, 1, 2:
			k := 1 + r.Uint64N(rhp4.MaxSectorBatchSize)
			if minimal {
				k = 1
			}
			req := rhp4.RPCAppendSectorsRequest{Prices: hp, Sectors: sectorPool[:k]}
			if req.Validate(host.pk) != nil {
				continue
			}
			cost := mul(toBig(hp.StoragePrice), sectorSize, k, duration)
			cost.Add(cost, mul(toBig(hp.IngressPrice), round4k(32*k)))
			cases = append(cases, tc{"ReviseForAppendSectors", cost, mul(toBig(hp.Collateral), sectorSize, k, duration), func() error {
				_, _, err := rhp4.ReviseForAppendSectors(fc, hp, types.Hash256{1}, k)
				return err
			}, map[string]any{"appended": k}})
		case 3:
			length := 1 + r.Uint64N(sectors)
			if minimal {
				length = 1
			}
			req := rhp4.RPCSectorRootsRequest{Prices: hp, Length: length}
			if req.Validate(host.pk, fc) != nil {
				continue
			}
			cases = append(cases, tc{"ReviseForSectorRoots", mul(toBig(hp.EgressPrice), round4k(32*length)), new(big.Int), func() error {
				_, _, err := rhp4.ReviseForSectorRoots(fc, hp, length)
				return err
			}, map[string]any{"length": length}})
		case 4:
			k := 1 + r.Uint64N(min(sectors, 4096))
			if minimal {
				k = 2
			}
			idx := make([]uint64, k)
			for j := range idx {
				idx[j] = uint64(j)
			}
			req := rhp4.RPCFreeSectorsRequest{Prices: hp, Indices: idx}
			if req.Validate(host.pk, fc) != nil {
				continue
			}
			cases = append(cases, tc{"ReviseForFreeSectors", mul(toBig(hp.FreeSectorPrice), k), new(big.Int), func() error {
				_, _, err := rhp4.ReviseForFreeSectors(fc, hp, types.Hash256{2}, int(k))
				return err
			}, map[string]any{"deleted": k}})
		}
		for _, c := range cases {
			overflow := c.cost.Cmp(two128) >= 0 || c.risk.Cmp(two128) >= 0
			insufficient := c.cost.Cmp(toBig(fc.RenterOutput.Value)) > 0 || c.risk.Cmp(toBig(fc.MissedHostValue)) > 0
			if !overflow {
				b.Count("overflow_family_cost_fits", 1)
				continue
			}
			b.Eval(1)
			b.Count("overflow_family_cases", 1)
			b.Distinct("overflow", c.helper, which, c.cost.BitLen()/4, c.risk.BitLen()/16)
			var err error
			p, msg := call(func() { err = c.f() })
			c.wit["prices"], c.wit["contract"] = jsonOf(hp), jsonOf(fc)
			c.wit["exact_cost"], c.wit["exact_risked_collateral"] = c.cost.String(), c.risk.String()
			switch {
			case p:
				b.Violate("C17/revise/"+c.helper+"/panics-instead-of-error-when-cost-exceeds-128-bits",
					fmt.Sprintf("%s panicked (%s) for an admitted request whose exact cost %v / risked collateral %v exceeds 2^128 and therefore every possible balance; the statement demands a clean failure", c.helper, msg, c.cost, c.risk), c.wit)
			case err == nil && insufficient:
				b.Violate("C17/revise/"+c.helper+"/accepts-cost-exceeding-128-bits", fmt.Sprintf("%s succeeded although the exact cost %v exceeds the renter output", c.helper, c.cost), c.wit)
			default:
				b.Count("overflow_family_clean_errors", 1)
			}
		}
	}
}
