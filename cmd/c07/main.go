// C07 — contracts pay out exactly once with fixed totals; storage proofs are
// sound and complete.
//
// Batches 0..5: the storage-proof differential — contracts over files of every
// size class are put on real chains in each of the three historical v1
// leaf-handling eras and under v2 rules; the naive Merkle model builds the
// honest proof for the independently recomputed challenge index (must be
// accepted through a real block) and a family of corrupted proofs (must be
// rejected). Other batches: the contract lifecycle monitor over chaingen
// histories with reorgs.
package main

import (
	"fmt"
	"math/big"
	"math/rand/v2"

	"golang.org/x/crypto/blake2b"

	"go.sia.tech/core/consensus"
	rhp2 "go.sia.tech/core/rhp/v2"
	"go.sia.tech/core/types"
	"verif/internal/chaingen"
	"verif/internal/chainmon"
	"verif/internal/harness"
	"verif/internal/refmodel"
)

// challengeIndex recomputes the challenged leaf: the 256-bit big-endian number
// BLAKE2b(windowID || contractID) reduced modulo the number of leaves.
func challengeIndex(filesize uint64, windowID types.BlockID, fcid types.FileContractID) uint64 {
	n := (filesize + 63) / 64
	if n == 0 {
		return 0
	}
	seed := blake2b.Sum256(append(append([]byte{}, windowID[:]...), fcid[:]...))
	r := new(big.Int).SetBytes(seed[:])
	return r.Mod(r, new(big.Int).SetUint64(n)).Uint64()
}

func toH(hs []refmodel.Hash) []types.Hash256 {
	out := make([]types.Hash256, len(hs))
	for i, h := range hs {
		out[i] = types.Hash256(h)
	}
	return out
}

type proofCase struct {
	name   string
	leaf   [64]byte
	proof  []types.Hash256
	accept string // "must-accept" | "must-reject" | "either"
}

// cases builds the honest proof and the corrupted family for (data, idx).
func cases(rng *rand.Rand, data []byte, idx uint64, v2 bool, era string) []proofCase {
	leaves := refmodel.FileLeaves(data)
	n := uint64(len(leaves))
	var cs []proofCase
	if n == 0 {
		return cs
	}
	honestLeaf := refmodel.FileSegment(data, int(idx))
	honest := toH(refmodel.Proof(leaves, int(idx)))
	cs = append(cs, proofCase{"honest", honestLeaf, honest, "must-accept"})
	// another leaf of the same file
	if n > 1 {
		j := (idx + 1 + rng.Uint64N(n-1)) % n
		if refmodel.FileSegment(data, int(j)) != honestLeaf || fmt.Sprint(refmodel.Proof(leaves, int(j))) != fmt.Sprint(refmodel.Proof(leaves, int(idx))) {
			name := "other-leaf-of-the-file/same-path-length"
			if len(refmodel.Proof(leaves, int(j))) != len(honest) {
				name = "other-leaf-of-the-file/different-path-length"
			}
			cs = append(cs, proofCase{name, refmodel.FileSegment(data, int(j)), toH(refmodel.Proof(leaves, int(j))), "must-reject"})
			// directed: the last leaf of an unbalanced tree has the shortest path
			if last := int(n - 1); uint64(last) != idx && uint64(last) != j && len(refmodel.Proof(leaves, last)) != len(honest) {
				cs = append(cs, proofCase{"other-leaf-of-the-file/different-path-length", refmodel.FileSegment(data, last), toH(refmodel.Proof(leaves, last)), "must-reject"})
			}
		}
	}
	// the same index of another file of the same size
	other := make([]byte, len(data))
	for i := range other {
		other[i] = byte(rng.IntN(256))
	}
	if refmodel.FileSegment(other, int(idx)) == honestLeaf {
		other[int(idx)*64] ^= 0xFF // make sure the other file really differs in the challenged leaf
	}
	cs = append(cs, proofCase{"other-file-same-size", refmodel.FileSegment(other, int(idx)), toH(refmodel.Proof(refmodel.FileLeaves(other), int(idx))), "must-reject"})
	// the same data at another size (one leaf longer / shorter), proof for the same index
	longer := append(append([]byte{}, data...), make([]byte, 64)...)
	for i := len(data); i < len(longer); i++ {
		longer[i] = byte(1 + rng.IntN(255))
	}
	cs = append(cs, proofCase{"proof-for-larger-file", refmodel.FileSegment(longer, int(idx)), toH(refmodel.Proof(refmodel.FileLeaves(longer), int(idx))), "must-reject"})
	if n > 1 && idx < n-1 {
		shorter := data[:(n-1)*64]
		p := toH(refmodel.Proof(refmodel.FileLeaves(shorter), int(idx)))
		if fmt.Sprint(p) != fmt.Sprint(honest) {
			cs = append(cs, proofCase{"proof-for-smaller-file", refmodel.FileSegment(shorter, int(idx)), p, "must-reject"})
		}
	}
	// one proof hash flipped (first and last position)
	for _, pos := range []int{0, len(honest) - 1} {
		if pos >= 0 && pos < len(honest) {
			p := append([]types.Hash256(nil), honest...)
			p[pos][5] ^= 0x20
			cs = append(cs, proofCase{"proof-hash-flipped", honestLeaf, p, "must-reject"})
		}
	}
	// one data byte of the leaf flipped
	dataBytesInLeaf := 64
	if idx == n-1 && len(data)%64 != 0 {
		dataBytesInLeaf = len(data) % 64
	}
	{
		l := honestLeaf
		l[rng.IntN(dataBytesInLeaf)] ^= 0x01
		cs = append(cs, proofCase{"leaf-data-byte-flipped", l, honest, "must-reject"})
	}
	if dataBytesInLeaf < 64 {
		l := honestLeaf
		l[dataBytesInLeaf+rng.IntN(64-dataBytesInLeaf)] ^= 0x01
		// v1 trims the final partial leaf in the two later eras (the padding is
		// not data); the first era and v2 hash all 64 bytes
		acc := "must-reject"
		if !v2 && era != "A" {
			acc = "either"
		}
		cs = append(cs, proofCase{"leaf-padding-byte-flipped", l, honest, acc})
	}
	if len(honest) > 0 {
		cs = append(cs, proofCase{"proof-truncated", honestLeaf, honest[:len(honest)-1], "must-reject"})
		cs = append(cs, proofCase{"proof-first-hash-dropped", honestLeaf, honest[1:], "must-reject"})
	}
	cs = append(cs, proofCase{"proof-extended", honestLeaf, append(append([]types.Hash256(nil), honest...), types.Hash256{7}), "must-reject"})
	return cs
}

func sizesFor(b *harness.B, part int) []int {
	var s []int
	maxLeaves := b.Pick(24, 64)
	for k := 1; k <= maxLeaves; k++ {
		s = append(s, 64*k)
		s = append(s, 64*k-1-((k*7)%62))
	}
	s = append(s, 0, 1, 2, 63, 65)
	r := b.SubRng(fmt.Sprint("sizes", part))
	extra := b.Pick(4, 30)
	for i := 0; i < extra; i++ {
		s = append(s, 1+r.IntN(b.Pick(64*300, 64*5000)))
	}
	for _, k := range []int{127, 128, 129, 255, 256, 257, 1023, 1024} {
		s = append(s, 64*k, 64*k-5)
	}
	return s
}

func randData(rng *rand.Rand, n int) []byte {
	d := make([]byte, n)
	for i := range d {
		d[i] = byte(rng.IntN(256))
	}
	return d
}

func eraNet(era string, idx int, rng *rand.Rand) *chaingen.Net {
	n := chaingen.BaseNet("c07-" + era)
	never := uint64(1) << 40
	switch era {
	case "A":
		n.HardforkTax.Height, n.HardforkStorageProof.Height = never, never
	case "B":
		n.HardforkTax.Height, n.HardforkStorageProof.Height = 0, never
	case "C":
		n.HardforkTax.Height, n.HardforkStorageProof.Height = 0, 0
	case "boundary":
		n.HardforkTax.Height = uint64(12 + rng.IntN(4))
		n.HardforkStorageProof.Height = n.HardforkTax.Height + uint64(5+rng.IntN(4))
	}
	if era == "v2" {
		// v2 allowed from block 1, never required (so v1 payments can still fragment outputs)
		n.HardforkV2.AllowHeight, n.HardforkV2.RequireHeight, n.HardforkV2.FinalCutHeight, n.HardforkV2.EphemeralOutputHeight = 1, never, never+1, 1
	} else {
		n.HardforkV2.AllowHeight, n.HardforkV2.RequireHeight, n.HardforkV2.FinalCutHeight, n.HardforkV2.EphemeralOutputHeight = never, never+1, never+2, never
	}
	n.MaturityDelay = 1
	return &chaingen.Net{Name: n.Name, Family: "era-" + era, N: n}
}

// runProofs is the storage-proof differential for one era.
func runProofs(b *harness.B, era string, part int) {
	rng := b.SubRng("proofs-" + era)
	net := eraNet(era, part, rng)
	c := chaingen.NewChain(net, rng)
	life := chainmon.NewLifecycle("C07", b, net.N)
	life.OnApply(c.GenesisEvent)
	c.OnStoreApplied = func(ev chaingen.ApplyEvent) { life.OnApply(ev) }
	c.OnStoreReverted = func(ev chaingen.RevertEvent) { life.OnRevert(ev) }
	v2 := era == "v2"
	// fragment the genesis outputs so that many contracts can be funded per block
	pay := "v1-pay"
	if v2 {
		pay = "v2-pay"
	}
	c.Grow(6, chaingen.Plan{MaxTxns: 8, Only: []string{pay}})
	sizes := sizesFor(b, part)
	perSize := b.Pick(2, 6)
	type job struct {
		size     int
		data     []byte
		zeroRoot bool // the contract commits the all-zero hash as the root of a non-empty file
	}
	var jobs []job
	if v2 {
		for _, sz := range []int{256, 100, 64 * 5} {
			jobs = append(jobs, job{sz, randData(rng, sz), true})
		}
	}
	for _, sz := range sizes {
		for k := 0; k < perSize; k++ {
			jobs = append(jobs, job{sz, randData(rng, sz), false})
		}
	}
	const perBlock = 6
	boundary := era == "boundary"
	var doGroup func(grp []job, era string)
	if boundary {
		// proofs are offered exactly at the heights around the two v1 leaf-rule forks; the era of each proof height
		// is computed from the network parameters (A below the tax fork, B below the storage-proof fork, C from it on)
		n := net.N
		eraOf := func(h uint64) string {
			switch {
			case h < n.HardforkTax.Height:
				return "A"
			case h < n.HardforkStorageProof.Height:
				return "B"
			}
			return "C"
		}
		// each group consumes two blocks, so consecutive heights are visited on two chains of the same network
		targets := []uint64{n.HardforkTax.Height - 1, n.HardforkTax.Height + 1, n.HardforkStorageProof.Height - 1, n.HardforkStorageProof.Height + 1}
		if part == 1 {
			targets = []uint64{n.HardforkTax.Height, n.HardforkStorageProof.Height}
		}
		defer func() {
			for _, tgt := range targets {
				for c.Height()+2 < tgt {
					if blk, bs, err := c.EmptyBlock(); err != nil || c.Offer(blk, bs, nil) != nil {
						return
					}
				}
				if c.Height()+2 != tgt {
					b.Inconclusive("boundary schedule overshot its target height")
					continue
				}
				var grp []job
				for _, sz := range []int{64, 64, 128, 0, 100, 192} {
					grp = append(grp, job{sz, randData(rng, sz), false})
				}
				doGroup(grp, eraOf(tgt))
				b.Count("proofs_offered_at_era_boundary_heights", 1)
				b.SetAdd("boundary_heights", fmt.Sprintf("height %d = era %s (tax fork %d, storage-proof fork %d)", tgt, eraOf(tgt), n.HardforkTax.Height, n.HardforkStorageProof.Height))
			}
		}()
		jobs = nil
	}
	doGroup = func(grp []job, era string) {
		H := c.Height()
		var ids []types.FileContractID
		var blk types.Block
		var bs consensus.V1BlockSupplement
		var err error
		if v2 {
			specs := make([]chaingen.V2ContractSpec, len(grp))
			for i, j := range grp {
				specs[i] = chaingen.V2ContractSpec{Data: j.data, ProofHeight: H + 1, ExpirationHeight: H + 4, ZeroRoot: j.zeroRoot}
			}
			blk, bs, ids, err = c.BlockWithV2Contracts(specs)
		} else {
			specs := make([]chaingen.V1ContractSpec, len(grp))
			for i, j := range grp {
				specs[i] = chaingen.V1ContractSpec{Data: j.data, WindowStart: H + 2, WindowEnd: H + 5}
			}
			blk, bs, ids, err = c.BlockWithV1Contracts(specs)
		}
		if err != nil {
			b.Inconclusive("formation block could not be built: " + err.Error())
			return
		}
		if err := c.Offer(blk, bs, []string{"form"}); err != nil {
			b.Violate("C07/formation-rejected/"+era, "block forming generator contracts rejected: "+chaingen.NormErr(err), nil)
			return
		}
		// tip is now H+1; proofs are offered in candidate blocks at height H+2
		cs := c.Tip()
		var honestV1 []types.Transaction
		var emptyV1 []types.StorageProof
		var corruptV1 *types.StorageProof
		var corruptName string
		var honestV2 []types.V2Transaction
		for gi, j := range grp {
			id := ids[gi]
			if id == (types.FileContractID{}) {
				b.Count("contracts_not_funded", 1)
				continue
			}
			var windowID types.BlockID
			var cie types.ChainIndexElement
			if v2 {
				cie = c.S.CIEs[H+1].Copy()
				windowID = cie.ChainIndex.ID
			} else {
				windowID, _ = c.BlockIDAt(H + 1)
			}
			idx := challengeIndex(uint64(j.size), windowID, id)
			if lib := cs.StorageProofLeafIndex(uint64(j.size), windowID, id); lib != idx {
				b.Violate("C07/challenge-index", fmt.Sprintf("StorageProofLeafIndex = %d, the chain-derived challenge (hash of window ID and contract ID mod %d leaves) is %d", lib, (j.size+63)/64, idx), nil)
			}
			nLeaves := (j.size + 63) / 64
			mk := func(pc proofCase, parent types.FileContractID) (types.Block, consensus.V1BlockSupplement, error) {
				if v2 {
					e := c.S.V2FCEs[parent].Copy()
					txn := types.V2Transaction{FileContractResolutions: []types.V2FileContractResolution{{Parent: e, Resolution: &types.V2StorageProof{ProofIndex: cie.Copy(), Leaf: pc.leaf, Proof: pc.proof}}}}
					return c.BlockWith(nil, []types.V2Transaction{txn})
				}
				return c.BlockWith([]types.Transaction{{StorageProofs: []types.StorageProof{{ParentID: parent, Leaf: pc.leaf, Proof: pc.proof}}}}, nil)
			}
			if nLeaves == 0 {
				// empty file: no leaf to prove. v2: the contract can only expire. v1: the post-fork rule accepts any proof; recorded, not judged.
				blk, bs, err := mk(proofCase{name: "empty-file-empty-proof"}, id)
				if err == nil {
					verdict := consensus.ValidateBlock(cs, blk, bs) == nil
					if verdict && !v2 {
						emptyV1 = append(emptyV1, blk.Transactions[0].StorageProofs[0])
					}
					b.Count(fmt.Sprintf("observed:empty-file-proof-accepted=%v/era-%s", verdict, era), 1)
					b.Eval(1)
					b.Distinct(era, "empty-file")
				}
				continue
			}
			if j.zeroRoot {
				// no data hashes to the committed root: whatever is offered proves "other data"
				honest := refmodel.Proof(refmodel.FileLeaves(j.data), int(idx))
				for _, pc := range []proofCase{
					{"arbitrary-leaf-no-hashes", [64]byte{0xde, 0xad, 0xbe, 0xef}, nil, "must-reject"},
					{"zero-leaf-no-hashes", [64]byte{}, nil, "must-reject"},
					{"honest-leaf-one-hash-short", refmodel.FileSegment(j.data, int(idx)), toH(honest[:max(len(honest)-1, 0)]), "must-reject"},
					{"honest-proof-of-the-data", refmodel.FileSegment(j.data, int(idx)), toH(honest), "must-reject"},
				} {
					blk, bs, err := mk(pc, id)
					if err != nil {
						continue
					}
					verr := consensus.ValidateBlock(cs, blk, bs)
					b.Eval(1)
					b.Count("zero_root_contract_proofs_offered", 1)
					b.Distinct(era, "zero-root", pc.name, nLeaves)
					if verr == nil {
						b.Violate("C07/storage-proof/corrupted-proof-accepted/contract-committing-the-zero-hash-as-root/"+pc.name+"/era-"+era,
							fmt.Sprintf("a v2 contract commits the all-zero hash as the root of a %d-byte file (%d leaves, challenged leaf %d); the proof %q, which does not hash to that root, is accepted", j.size, nLeaves, idx, pc.name),
							map[string]any{"size": j.size, "index": idx, "case": pc.name})
					} else {
						b.Count("corrupted_proofs_rejected", 1)
					}
				}
				continue
			}
			knownIncomplete := era == "B" && j.size%64 == 0 && idx == uint64(nLeaves-1)
			if boundary {
				b.Distinct("boundary", era, H+2, j.size)
			}
			for _, pc := range cases(rng, j.data, idx, v2, era) {
				blk, bs, err := mk(pc, id)
				if err != nil {
					b.Inconclusive("candidate block: " + err.Error())
					continue
				}
				verr := consensus.ValidateBlock(cs, blk, bs)
				b.Eval(1)
				b.Distinct(era, pc.name, nLeaves <= 4, j.size%64 == 0, idx == uint64(nLeaves-1), idx == 0, len(pc.proof))
				switch {
				case pc.accept == "must-accept" && verr != nil:
					key := fmt.Sprintf("C07/storage-proof/honest-proof-rejected/era-%s", era)
					if knownIncomplete {
						key = "C07/storage-proof/honest-proof-rejected/era-B/last-leaf-of-64-byte-aligned-file"
					}
					b.Violate(key, fmt.Sprintf("honest proof (size %d, %d leaves, challenged leaf %d) rejected: %s", j.size, nLeaves, idx, chaingen.NormErr(verr)), map[string]any{"size": j.size, "index": idx, "era": era})
				case pc.accept == "must-accept":
					b.Count("honest_proofs_accepted", 1)
					if v2 {
						honestV2 = append(honestV2, blk.V2.Transactions[0])
					} else {
						honestV1 = append(honestV1, blk.Transactions[0])
					}
				case pc.accept == "must-reject" && verr == nil:
					if knownIncomplete {
						// the middle era hashes that leaf as zeros: soundness for it is not demanded either
						b.Count("observed:era-B-aligned-last-leaf-corruption-accepted", 1)
						continue
					}
					b.Violate(fmt.Sprintf("C07/storage-proof/corrupted-proof-accepted/%s/era-%s", pc.name, era), fmt.Sprintf("proof corrupted by %q accepted (size %d, %d leaves, challenged leaf %d)", pc.name, j.size, nLeaves, idx), map[string]any{"size": j.size, "index": idx, "era": era, "case": pc.name})
				case pc.accept == "must-reject":
					b.Count("corrupted_proofs_rejected", 1)
					if !v2 && corruptV1 == nil {
						sp := blk.Transactions[0].StorageProofs[0]
						corruptV1, corruptName = &sp, pc.name
					}
				default:
					b.Count(fmt.Sprintf("observed:%s-accepted=%v", pc.name, verr == nil), 1)
				}
			}
			// a proof that is honest for another contract of the group, submitted under this contract's ID
			if gi+1 < len(grp) && ids[gi+1] != (types.FileContractID{}) && len(grp[gi+1].data) > 0 {
				od := grp[gi+1].data
				oidx := challengeIndex(uint64(len(od)), windowID, ids[gi+1])
				pc := proofCase{"other-contracts-honest-proof", refmodel.FileSegment(od, int(oidx)), toH(refmodel.Proof(refmodel.FileLeaves(od), int(oidx))), "must-reject"}
				if blk, bs, err := mk(pc, id); err == nil {
					b.Eval(1)
					b.Distinct(era, pc.name)
					if consensus.ValidateBlock(cs, blk, bs) == nil {
						if !knownIncomplete {
							b.Violate(fmt.Sprintf("C07/storage-proof/corrupted-proof-accepted/%s/era-%s", pc.name, era), "another contract's honest proof accepted for this contract", nil)
						}
					} else {
						b.Count("corrupted_proofs_rejected", 1)
					}
				}
			}
		}
		// the same honest v1 proofs sharing ONE transaction, in group order and reversed: every proof is judged on its
		// own data whatever precedes it
		if len(honestV1) >= 2 {
			for _, rev := range []bool{false, true} {
				var one types.Transaction
				for k := range honestV1 {
					t := honestV1[k]
					if rev {
						t = honestV1[len(honestV1)-1-k]
					}
					one.StorageProofs = append(one.StorageProofs, t.StorageProofs...)
				}
				if blk, bs, err := c.BlockWith([]types.Transaction{one}, nil); err == nil {
					verr := consensus.ValidateBlock(cs, blk, bs)
					b.Eval(1)
					b.Count("honest_v1_proofs_sharing_one_transaction", 1)
					b.Distinct(era, "shared-transaction", rev, len(one.StorageProofs))
					if verr != nil {
						b.Violate("C07/storage-proof/honest-proof-rejected/proofs-sharing-one-transaction/era-"+era, fmt.Sprintf("%d honest proofs, each accepted in a transaction of its own, are rejected when they share one transaction (reversed=%v): %s", len(one.StorageProofs), rev, chaingen.NormErr(verr)), map[string]any{"era": era, "reversed": rev})
					}
				}
			}
		}
		// a corrupted v1 proof (rejected on its own) sharing one transaction with proofs that are accepted on their own -
		// honest proofs of other contracts, the proof of an empty contract - before and after them: still rejected
		if corruptV1 != nil {
			for _, comp := range []struct {
				name   string
				proofs []types.StorageProof
			}{{"honest-proofs-of-other-contracts", func() (ps []types.StorageProof) {
				for _, t := range honestV1 {
					if t.StorageProofs[0].ParentID != corruptV1.ParentID {
						ps = append(ps, t.StorageProofs[0])
					}
				}
				return
			}()}, {"the-proof-of-an-empty-contract", emptyV1}} {
				if len(comp.proofs) == 0 {
					continue
				}
				for _, after := range []bool{true, false} {
					one := types.Transaction{StorageProofs: append([]types.StorageProof(nil), comp.proofs...)}
					pos := "after"
					if after {
						one.StorageProofs = append(one.StorageProofs, *corruptV1)
					} else {
						one.StorageProofs, pos = append([]types.StorageProof{*corruptV1}, one.StorageProofs...), "before"
					}
					blk, bs, err := c.BlockWith([]types.Transaction{one}, nil)
					if err != nil {
						continue
					}
					b.Eval(1)
					b.Count("corrupted_v1_proofs_sharing_a_transaction_with_accepted_ones", 1)
					b.Count("corrupted_v1_proofs_sharing_a_transaction_with_"+comp.name, 1)
					b.Distinct(era, "corrupt-in-shared-transaction", comp.name, pos)
					if consensus.ValidateBlock(cs, blk, bs) == nil {
						b.Violate("C07/storage-proof/corrupted-proof-accepted/"+corruptName+"/sharing-a-transaction-"+pos+"-"+comp.name+"/era-"+era, fmt.Sprintf("a proof corrupted by %q, rejected in a transaction of its own, is accepted when it stands %s %s in one transaction", corruptName, pos, comp.name), map[string]any{"era": era})
					} else {
						b.Count("corrupted_proofs_rejected", 1)
					}
				}
			}
		}
		// resolve: submit all honest proofs in one real block (exercises the lifecycle monitor), then move on
		if len(honestV1)+len(honestV2) > 0 {
			if blk, bs, err := c.BlockWith(honestV1, honestV2); err == nil {
				if err := c.Offer(blk, bs, []string{"proofs"}); err != nil {
					b.Violate("C07/storage-proof/honest-proofs-block-rejected/era-"+era, "block with all honest proofs of the group rejected: "+chaingen.NormErr(err), nil)
				}
			}
		}
		// let the rest expire / keep the chain moving
		if !boundary {
			c.Grow(1, chaingen.Plan{MaxTxns: 4, Only: []string{pay}})
		}
	}
	for off := 0; off < len(jobs); off += perBlock {
		doGroup(jobs[off:min(off+perBlock, len(jobs))], era)
	}
	b.Sample(map[string]any{"era": era, "sizes": len(sizes), "contracts": len(jobs), "height": c.Height()})
}

// rhp2 as a second prover for a sector-aligned file
func runSecondProver(b *harness.B) {
	rng := b.SubRng("rhp2")
	var sector [rhp2.SectorSize]byte
	for i := 0; i < len(sector); i += 8 {
		v := rng.Uint64()
		for k := 0; k < 8; k++ {
			sector[i+k] = byte(v >> (8 * k))
		}
	}
	leaves := refmodel.FileLeaves(sector[:])
	root := refmodel.Root(leaves)
	if types.Hash256(root) != rhp2.SectorRoot(&sector) {
		b.Violate("C07/second-prover/sector-root", "rhp2.SectorRoot differs from the naive file root of the same 4 MiB", nil)
	}
	for k := 0; k < b.Pick(6, 40); k++ {
		i := rng.Uint64N(rhp2.LeavesPerSector)
		if k == 0 {
			i = 0
		} else if k == 1 {
			i = rhp2.LeavesPerSector - 1
		}
		p := rhp2.ConvertProofOrdering(rhp2.BuildProof(&sector, i, i+1, nil), i)
		want := toH(refmodel.Proof(leaves, int(i)))
		b.Eval(1)
		b.Distinct("rhp2-second-prover", i == 0, i == rhp2.LeavesPerSector-1, i%2)
		b.Count("second_prover_proofs_compared", 1)
		if fmt.Sprint(p) != fmt.Sprint(want) {
			b.Violate("C07/second-prover/proof-differs", fmt.Sprintf("rhp2.BuildProof+ConvertProofOrdering for leaf %d differs from the naive audit path", i), map[string]any{"index": i})
		}
	}
}

// rhp2 as the prover for files of several sectors (the host's real flow: SectorRoot per sector, MetaRoot as
// the contract root, BuildProof inside the challenged sector, BuildSectorRangeProof across sectors, then
// ConvertProofOrdering), for sector counts that are not powers of two. The naive audit path is the oracle.
func runSecondProverMulti(b *harness.B) {
	rng := b.SubRng("rhp2-multi")
	counts := []int{1, 2, 3, 5, 6, 7, 8, 9, 11, 12, 13, 14, 15, 16, 17, 23}
	if b.Tier == "quick" {
		counts = []int{1, 3, 6, 7, 11, 13, 14, 15}
	}
	seedOf := rng.Uint64()
	fill := func(sec *[rhp2.SectorSize]byte, k int) {
		x := seedOf ^ (uint64(k)+1)*0x9E3779B97F4A7C15
		for i := 0; i < len(sec); i += 8 {
			x ^= x << 13
			x ^= x >> 7
			x ^= x << 17
			for j := 0; j < 8; j++ {
				sec[i+j] = byte(x >> (8 * j))
			}
		}
	}
	var sector [rhp2.SectorSize]byte
	maxN := counts[len(counts)-1]
	roots := make([]types.Hash256, maxN)
	for k := 0; k < maxN; k++ {
		fill(&sector, k)
		roots[k] = rhp2.SectorRoot(&sector)
	}
	for _, n := range counts {
		rs := roots[:n]
		naive := make([]refmodel.Hash, n)
		for k := range rs {
			naive[k] = refmodel.Hash(rs[k])
		}
		metaWant := types.Hash256(refmodel.Root(naive))
		if got := rhp2.MetaRoot(rs); got != metaWant {
			b.Violate("C07/second-prover/meta-root", fmt.Sprintf("rhp2.MetaRoot of %d sector roots differs from the naive root", n), map[string]any{"sectors": n})
			continue
		}
		secs := map[int]bool{0: true, n - 1: true, n / 2: true, rng.IntN(n): true}
		for sIdx := range secs {
			fill(&sector, sIdx)
			leaves := refmodel.FileLeaves(sector[:])
			for _, i := range []uint64{0, rhp2.LeavesPerSector - 1, rng.Uint64N(rhp2.LeavesPerSector)} {
				idx := uint64(sIdx)*rhp2.LeavesPerSector + i
				// each left-to-right proof is converted on its own level (segment within sector, sector within file)
				got := rhp2.ConvertProofOrdering(rhp2.BuildProof(&sector, i, i+1, nil), i)
				got = append(got, rhp2.ConvertProofOrdering(rhp2.BuildSectorRangeProof(rs, uint64(sIdx), uint64(sIdx)+1), uint64(sIdx))...)
				want := append(toH(refmodel.Proof(leaves, int(i))), toH(refmodel.Proof(naive, sIdx))...)
				b.Eval(1)
				b.Count("second_prover_multi_sector_proofs_compared", 1)
				b.Distinct("rhp2-multi", n, sIdx == 0, sIdx == n-1, i == 0)
				if fmt.Sprint(got) != fmt.Sprint(want) {
					b.Violate("C07/second-prover/multi-sector-proof-differs", fmt.Sprintf("honest rhp2 proof (BuildProof and BuildSectorRangeProof, each through ConvertProofOrdering) for segment %d of a %d-sector file differs from the naive audit path", idx, n), map[string]any{"sectors": n, "sector": sIdx, "leaf": i})
					continue
				}
				// and the naive verifier accepts it under the contract root
				var seg [64]byte
				copy(seg[:], sector[i*64:])
				gotP := make([]refmodel.Hash, len(got))
				for k := range got {
					gotP[k] = refmodel.Hash(got[k])
				}
				if r, ok := refmodel.VerifyProof(refmodel.LeafHash(seg[:]), int(idx), n*rhp2.LeavesPerSector, gotP); !ok || types.Hash256(r) != metaWant {
					b.Violate("C07/second-prover/multi-sector-proof-does-not-verify", fmt.Sprintf("honest rhp2 proof for segment %d of a %d-sector file does not lead to the contract root", idx, n), map[string]any{"sectors": n, "sector": sIdx, "leaf": i})
				}
			}
		}
	}
}

func runHistories(b *harness.B) {
	nNets := b.Pick(3, 10)
	blocks := b.Pick(150, 600)
	for i := 0; i < nNets; i++ {
		fam := chaingen.Families[(b.Batch+i)%len(chaingen.Families)]
		rng := b.SubRng(fmt.Sprint("net", i))
		net := chaingen.GenNet(rng, fam, b.Batch*100+i)
		c := chaingen.NewChain(net, rng)
		life := chainmon.NewLifecycle("C07", b, net.N)
		life.OnApply(c.GenesisEvent)
		c.OnStoreApplied = func(ev chaingen.ApplyEvent) {
			life.OnApply(ev)
			b.Eval(1)
			b.Count("blocks_applied", 1)
			shape := ""
			for _, k := range ev.Kinds {
				if len(k) > 3 && (k[3:] == "form" || k[3:] == "revise" || k[3:] == "proof" || k[3:] == "renew" || k[3:] == "expire" || len(k) > 8) {
					shape += k + ","
				}
			}
			b.Distinct(chaingen.Era(net.N, ev.Next.Index.Height), shape)
		}
		c.OnStoreReverted = func(ev chaingen.RevertEvent) {
			life.OnRevert(ev)
			b.Count("blocks_reverted", 1)
		}
		c.OnAccepted = func(cs consensus.State, orig types.Block, bs consensus.V1BlockSupplement, kinds []string) {
			revisionLawVariants(b, c, cs, orig)
		}
		w := map[string]int{"v1-form": 5, "v1-revise": 5, "v1-proof": 5, "v1-revise+proof": 4, "v2-form": 5, "v2-revise": 5, "v2-renew": 4, "v2-proof": 5, "v2-expire": 5, "v2-revise+resolve": 4, "v1-arb": 0, "v2-arb": 0, "v2-attest": 0}
		for done := 0; done < blocks; {
			done += c.Grow(1+rng.IntN(12), chaingen.Plan{MaxTxns: 7, Weights: w})
			if c.Height() > 2 && rng.IntN(4) == 0 {
				k := min(1+rng.IntN(5), int(c.Height()))
				for r := 0; r < k; r++ {
					c.RevertTip()
				}
			}
		}
		for k, v := range c.Stats {
			if len(k) > 12 && k[:12] == "gen_rejected" {
				b.Count("generator_library_disagreement:"+k, v)
			}
		}
	}
}

// revisionLawVariants turns accepted revisions into revisions that break one of
// the statement's revision laws (re-signed by the contract's keys, block
// re-sealed) and demands rejection.
func revisionLawVariants(b *harness.B, c *chaingen.Chain, cs consensus.State, orig types.Block) {
	one := types.NewCurrency64(1)
	try := func(name string, blk types.Block, must bool) {
		err, _ := c.TryVariant(&blk)
		if chaingen.IsSealFailure(err) {
			return
		}
		b.Eval(1)
		b.Distinct("revision-law", name, chaingen.Era(c.Net.N, cs.Index.Height+1))
		if !must {
			b.Count(fmt.Sprintf("observed:%s-accepted=%v", name, err == nil), 1)
			return
		}
		if err == nil {
			b.Violate("C07/revision-law/"+name+"-accepted", "a block whose only fault is a revision that "+name+" was accepted", map[string]any{"height": cs.Index.Height + 1})
		} else {
			b.Count("illegal_revisions_rejected", 1)
			b.SetAdd("revision_law_rejections", name+" => "+chaingen.NormErr(err))
		}
	}
	// renewal into a smaller contract: everything the old contract holds is rolled over, the new contract costs one
	// hasting less than that, and the hasting left over leaves the transaction as an ordinary (undelayed) output.
	// The rollover may never exceed what the NEW contract costs.
	for i, t := range orig.V2Transactions() {
		for k, res := range t.FileContractResolutions {
			ren, ok := res.Resolution.(*types.V2FileContractRenewal)
			if !ok {
				continue
			}
			old := res.Parent.V2FileContract
			P := old.RenterOutput.Value.Add(old.HostOutput.Value)
			if P.Cmp(types.NewCurrency64(1000)) < 0 || P.Cmp(types.NewCurrency(0, 1<<56)) > 0 {
				continue // the arithmetic below multiplies by 25
			}
			blk := chaingen.CloneBlock(orig)
			tt := &blk.V2.Transactions[i]
			r2 := *ren
			r2.FinalRenterOutput.Value, r2.FinalHostOutput.Value = types.ZeroCurrency, types.ZeroCurrency
			r2.RenterRollover, r2.HostRollover = old.RenterOutput.Value, old.HostOutput.Value
			// new contract value v with v + v/25 <= P - 1 (the tax is 4%)
			v := P.Sub(one).Mul64(25).Div64(26)
			r2.NewContract.RenterOutput.Value, r2.NewContract.HostOutput.Value = v, types.ZeroCurrency
			r2.NewContract.MissedHostValue, r2.NewContract.TotalCollateral = types.ZeroCurrency, types.ZeroCurrency
			cost := v.Add(cs.V2FileContractTax(r2.NewContract))
			if cost.Cmp(P) >= 0 {
				continue
			}
			excess := P.Sub(cost)
			nt := types.V2Transaction{FileContractResolutions: []types.V2FileContractResolution{{Parent: res.Parent.Copy(), Resolution: &r2}},
				SiacoinOutputs: []types.SiacoinOutput{{Value: excess, Address: types.VoidAddress}}}
			*tt = nt
			blk.V2.Transactions = blk.V2.Transactions[:i+1]
			c.SignV2(cs, tt, nil)
			try("v2-renewal-rolls-over-more-than-the-new-contract-costs/excess-"+map[bool]string{true: "one-hasting", false: "more"}[excess.Cmp(one) == 0], blk, true)
			b.Count("renewal_rollover_variants", 1)
			_ = k
			break
		}
	}
	seenV2 := map[types.FileContractID]bool{}
	for i, t := range orig.V2Transactions() {
		if len(t.FileContractRevisions) == 0 {
			continue
		}
		r := t.FileContractRevisions[0]
		if seenV2[r.Parent.ID] {
			continue // a later revision of the same contract in this block: its predecessor is not the parent
		}
		seenV2[r.Parent.ID] = true
		cur := r.Parent.V2FileContract
		mut := func(name string, must bool, f func(rev *types.V2FileContract) bool) {
			blk := chaingen.CloneBlock(orig)
			tt := &blk.V2.Transactions[i]
			if !f(&tt.FileContractRevisions[0].Revision) {
				return
			}
			// later transactions of the block may depend on this contract's state; keep only up to this one plus independent ones
			blk.V2.Transactions = blk.V2.Transactions[:i+1]
			c.SignV2(cs, tt, nil)
			try(name, blk, must)
		}
		mut("v2-raises-missed-host-value", true, func(rev *types.V2FileContract) bool {
			nv := cur.MissedHostValue.Add(one)
			if nv.Cmp(rev.HostOutput.Value) > 0 {
				return false
			}
			rev.MissedHostValue = nv
			return true
		})
		// a second revision later in the same block stands on the first one, not on the parent the transaction
		// carries: the first lowers the host's missed value (by one hasting if it did not already), the second
		// restores the parent's value
		func() {
			blk := chaingen.CloneBlock(orig)
			tt := &blk.V2.Transactions[i]
			blk.V2.Transactions = blk.V2.Transactions[:i+1]
			rev1 := &tt.FileContractRevisions[0].Revision
			if cur.MissedHostValue.IsZero() || rev1.RevisionNumber >= types.MaxRevisionNumber-2 || cur.MissedHostValue.Cmp(rev1.HostOutput.Value) > 0 {
				return
			}
			if rev1.MissedHostValue.Cmp(cur.MissedHostValue) >= 0 {
				rev1.MissedHostValue = cur.MissedHostValue.Sub(one)
			}
			c.SignV2(cs, tt, nil)
			rev2 := *rev1
			rev2.RevisionNumber++
			rev2.MissedHostValue = cur.MissedHostValue
			txn2 := types.V2Transaction{FileContractRevisions: []types.V2FileContractRevision{{Parent: r.Parent.Copy(), Revision: rev2}}}
			c.SignV2(cs, &txn2, map[types.FileContractID]types.V2FileContract{r.Parent.ID: *rev1})
			blk.V2.Transactions = append(blk.V2.Transactions, txn2)
			try("v2-second-revision-in-the-block-restores-the-missed-host-value-the-first-lowered", blk, true)
			b.Count("second_in_block_revision_variants", 1)
			// control: the same second revision keeping the lowered value
			ctl := chaingen.CloneBlock(blk)
			t2 := &ctl.V2.Transactions[len(ctl.V2.Transactions)-1]
			t2.FileContractRevisions[0].Revision.MissedHostValue = rev1.MissedHostValue
			c.SignV2(cs, t2, map[types.FileContractID]types.V2FileContract{r.Parent.ID: *rev1})
			if err, _ := c.TryVariant(&ctl); !chaingen.IsSealFailure(err) {
				if err == nil {
					b.Count("second_in_block_revision_controls_accepted", 1)
				} else {
					b.SetAdd("second_in_block_revision_controls_rejected", chaingen.NormErr(err))
				}
			}
		}()
		mut("v2-changes-total-collateral", true, func(rev *types.V2FileContract) bool {
			rev.TotalCollateral = rev.TotalCollateral.Add(one)
			return true
		})
		mut("v2-changes-total-value", true, func(rev *types.V2FileContract) bool {
			rev.RenterOutput.Value = rev.RenterOutput.Value.Add(one)
			return true
		})
		mut("v2-moves-value-out-of-the-contract", true, func(rev *types.V2FileContract) bool {
			if rev.RenterOutput.Value.IsZero() {
				return false
			}
			rev.RenterOutput.Value = rev.RenterOutput.Value.Sub(one)
			return true
		})
		mut("v2-lowers-revision-number", true, func(rev *types.V2FileContract) bool {
			if cur.RevisionNumber == 0 {
				return false
			}
			rev.RevisionNumber = cur.RevisionNumber - 1
			return true
		})
		mut("v2-keeps-revision-number", false, func(rev *types.V2FileContract) bool {
			rev.RevisionNumber = cur.RevisionNumber
			return true
		})
	}
	seenV1 := map[types.FileContractID]bool{}
	for i, t := range orig.Transactions {
		if len(t.FileContractRevisions) == 0 {
			continue
		}
		r := t.FileContractRevisions[0]
		e, ok := c.S.FCEs[r.ParentID]
		if !ok || seenV1[r.ParentID] {
			continue
		}
		seenV1[r.ParentID] = true
		cur := e.FileContract
		mut := func(name string, must bool, f func(rev *types.FileContract) bool) {
			blk := chaingen.CloneBlock(orig)
			tt := &blk.Transactions[i]
			if !f(&tt.FileContractRevisions[0].FileContract) {
				return
			}
			blk.Transactions = blk.Transactions[:i+1]
			if blk.V2 != nil {
				blk.V2.Transactions = nil
			}
			c.SignV1(cs, tt, nil)
			try(name, blk, must)
		}
		mut("v1-changes-valid-payout-sum", true, func(rev *types.FileContract) bool {
			if len(rev.ValidProofOutputs) == 0 {
				return false
			}
			rev.ValidProofOutputs[0].Value = rev.ValidProofOutputs[0].Value.Add(one)
			return true
		})
		mut("v1-changes-missed-payout-sum", true, func(rev *types.FileContract) bool {
			if len(rev.MissedProofOutputs) == 0 {
				return false
			}
			rev.MissedProofOutputs[0].Value = rev.MissedProofOutputs[0].Value.Add(one)
			return true
		})
		mut("v1-lowers-revision-number", true, func(rev *types.FileContract) bool {
			if cur.RevisionNumber == 0 {
				return false
			}
			rev.RevisionNumber = cur.RevisionNumber - 1
			return true
		})
		mut("v1-keeps-revision-number", false, func(rev *types.FileContract) bool {
			rev.RevisionNumber = cur.RevisionNumber
			return true
		})
	}
}

func main() {
	harness.Main(harness.Spec{
		ID:     "C07",
		Rule:   "batches 0-3: storage-proof differential in v1 eras A (before the tax fork), B (between tax and storage-proof fork), C (after) and under v2: files of sizes 64k and 64k-r for k=1..bound, 0..2, 63, 65, powers of two +-1 leaf, random larger; per size several contracts (distinct IDs -> distinct challenged leaves); per contract the honest proof from the naive Merkle model and ~12 corrupted proofs are validated in real candidate blocks. batch 4: rhp/v2 as a second prover. other batches: lifecycle monitor over chaingen histories weighted towards contracts, with reorgs. distinct = (era, case, small/aligned/last/first leaf, proof length) and (era, contract kinds of block).",
		Assume: []string{"the challenged leaf is recomputed as BLAKE2b(window id || contract id) mod leaf count with math/big", "naive RFC-6962 Merkle tree over zero-padded 64-byte segments is the file commitment", "an empty file has no leaf: no completeness demanded of it", "bytes of a final partial leaf beyond the file size are not data: v1 eras B/C may ignore them"},
		Batches: func(t string) int {
			if t == "quick" {
				return 16
			}
			return 48
		},
		Run: func(b *harness.B) {
			switch b.Batch {
			case 0:
				runProofs(b, "A", 0)
			case 1:
				runProofs(b, "B", 0)
			case 2:
				runProofs(b, "C", 0)
			case 3:
				runProofs(b, "v2", 0)
			case 4:
				runSecondProver(b)
				runSecondProverMulti(b)
				runHugeFiles(b)
			case 5:
				runProofs(b, "boundary", 0)
			case 6:
				runProofs(b, "boundary", 1)
			default:
				runHistories(b)
			}
		},
		MinEvals:    3000,
		MinDistinct: 150,
		Require:     []string{"zero_root_contract_proofs_offered", "honest_proofs_accepted", "corrupted_proofs_rejected", "second_prover_proofs_compared", "proofs_offered_at_era_boundary_heights", "blocks_applied", "blocks_reverted", "v1_resolved_valid", "v1_resolved_missed", "v2_resolved_proof", "v2_resolved_expiration", "v2_resolved_renewal", "v1_revisions_checked", "v2_revisions_checked", "contract_payout_outputs_checked", "illegal_revisions_rejected", "second_in_block_revision_variants", "corrupted_v1_proofs_sharing_a_transaction_with_accepted_ones", "corrupted_v1_proofs_sharing_a_transaction_with_the-proof-of-an-empty-contract"},
	})
}
