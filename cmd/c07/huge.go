package main

import (
	"fmt"
	"math"
	"math/big"
	"time"

	"go.sia.tech/core/blake2b"
	"go.sia.tech/core/consensus"
	"go.sia.tech/core/types"
	"verif/internal/chaingen"
	"verif/internal/harness"
)

// runHugeFiles: contracts whose committed size is at the top of the 64-bit range (2^58 leaves). The file is virtual:
// leaf 0 is A, every other leaf is B, so the root and every audit path follow from two hash ladders. The challenge is
// computed here as the 256-bit seed modulo the leaf count in math/big; the honest proof of that leaf must be accepted
// and the proof of leaf 0 rejected by the real ValidateBlock.
func runHugeFiles(b *harness.B) {
	const depth = 58
	n := &consensus.Network{Name: "c07-huge", InitialCoinbase: types.Siacoins(300000), MinimumCoinbase: types.Siacoins(300000), InitialTarget: types.BlockID{0xFF}, BlockInterval: 10 * time.Minute, MaturityDelay: 5}
	n.HardforkOak.GenesisTimestamp = time.Unix(1618033988, 0)
	n.HardforkASIC.OakTime, n.HardforkASIC.OakTarget, n.HardforkASIC.NonceFactor = 10000*time.Second, n.InitialTarget, 1
	n.HardforkFoundation.PrimaryAddress, n.HardforkFoundation.FailsafeAddress = types.VoidAddress, types.VoidAddress
	n.HardforkV2.AllowHeight, n.HardforkV2.RequireHeight, n.HardforkV2.FinalCutHeight, n.HardforkV2.EphemeralOutputHeight = 1<<40, 1<<41, 1<<42, 1<<41
	var st consensus.State
	var leafA, leafB [64]byte
	leafA[0], leafB[0] = 0xAA, 0xBB
	var hA, hB [depth + 1]types.Hash256
	hA[0], hB[0] = st.StorageProofLeafHash(leafA[:]), st.StorageProofLeafHash(leafB[:])
	for k := 1; k <= depth; k++ {
		hA[k] = blake2b.SumPair(hA[k-1], hB[k-1])
		hB[k] = blake2b.SumPair(hB[k-1], hB[k-1])
	}
	honest := func(index uint64) (leaf [64]byte, proof []types.Hash256) {
		leaf = leafB
		if index == 0 {
			leaf = leafA
		}
		for k := 0; k < depth; k++ {
			if (index>>k)^1 == 0 {
				proof = append(proof, hA[k])
			} else {
				proof = append(proof, hB[k])
			}
		}
		return
	}
	for i, size := range []uint64{math.MaxUint64, math.MaxUint64 - 62, math.MaxUint64 - 63, 1 << 63, 1<<63 + 1} {
		// depth of the tree for this size: ceil(size/64) leaves
		leaves := new(big.Int).SetUint64(size)
		leaves.Add(leaves, big.NewInt(63)).Div(leaves, big.NewInt(64))
		if leaves.BitLen()-1 != depth && !(leaves.BitLen() == depth && false) {
			// only sizes with exactly 2^58 leaves use the full ladder; smaller powers of two use a shorter one
		}
		d := leaves.BitLen() - 1
		if new(big.Int).Lsh(big.NewInt(1), uint(d)).Cmp(leaves) != 0 {
			continue // not a power-of-two leaf count: the ladder does not describe it
		}
		fc := types.FileContract{Filesize: size, FileMerkleRoot: hA[d], WindowStart: 1, WindowEnd: 10, Payout: types.Siacoins(1),
			ValidProofOutputs: []types.SiacoinOutput{{Value: types.Siacoins(1), Address: types.VoidAddress}}, MissedProofOutputs: []types.SiacoinOutput{{Value: types.Siacoins(1), Address: types.VoidAddress}}}
		fc.RevisionNumber = uint64(i)
		gtx := types.Transaction{FileContracts: []types.FileContract{fc}}
		genesis := types.Block{Timestamp: n.HardforkOak.GenesisTimestamp, Transactions: []types.Transaction{gtx}}
		cs, au := consensus.ApplyBlock(n.GenesisState(), genesis, consensus.V1BlockSupplement{Transactions: make([]consensus.V1TransactionSupplement, 1)}, time.Time{})
		fcid := gtx.FileContractID(0)
		var fce types.FileContractElement
		for _, df := range au.FileContractElementDiffs() {
			if df.FileContractElement.ID == fcid {
				fce = df.FileContractElement.Copy()
			}
		}
		windowID := genesis.ID()
		seed := types.HashBytes(append(append([]byte(nil), windowID[:]...), fcid[:]...))
		challenge := new(big.Int).Mod(new(big.Int).SetBytes(seed[:]), leaves).Uint64()
		validate := func(index uint64) error {
			leaf, proof := honest(index)
			proof = proof[:d]
			blk := types.Block{ParentID: cs.Index.ID, Timestamp: genesis.Timestamp.Add(10 * time.Minute), MinerPayouts: []types.SiacoinOutput{{Address: types.VoidAddress, Value: cs.BlockReward()}},
				Transactions: []types.Transaction{{StorageProofs: []types.StorageProof{{ParentID: fcid, Leaf: leaf, Proof: proof}}}}}
			if err := chaingen.Mine(cs, &blk); err != nil {
				return fmt.Errorf("harness: %w", err)
			}
			bs := consensus.V1BlockSupplement{Transactions: []consensus.V1TransactionSupplement{{StorageProofs: []consensus.V1StorageProofSupplement{{FileContract: fce.Copy(), WindowID: windowID}}}}}
			return consensus.ValidateBlock(cs, blk, bs)
		}
		wit := map[string]any{"filesize": size, "leaves": leaves.String(), "challenge": challenge}
		b.Eval(1)
		b.Count("huge_file_contracts", 1)
		b.Distinct("huge", size)
		var e1, e2 error
		if b.Guard("C07/storage-proof/huge-file", func() any { return wit }, func() { e1 = validate(challenge) }) {
			continue
		}
		if e1 != nil {
			b.Violate("C07/storage-proof/honest-proof-rejected/huge-file", fmt.Sprintf("contract of %d bytes (%v leaves): the honest proof of the challenged leaf %d is rejected: %v", size, leaves, challenge, e1), wit)
		}
		if challenge != 0 {
			b.Guard("C07/storage-proof/huge-file", func() any { return wit }, func() { e2 = validate(0) })
			if e2 == nil {
				b.Violate("C07/storage-proof/other-leaf-accepted/huge-file", fmt.Sprintf("contract of %d bytes: a proof of leaf 0 is accepted although the challenge is leaf %d", size, challenge), wit)
			}
		}
	}
}
