package main

// Independent proof-of-work model (math/big): era selection, clamp bounds,
// target<->difficulty inversion, median-of-11 rule, "sufficiently heavier".
// Nothing in this file calls into consensus except to read exported fields and
// the String() form of consensus.Work.

import (
	"fmt"
	"math/big"
	"sort"
	"time"

	"go.sia.tech/core/consensus"
	"go.sia.tech/core/types"
)

var (
	bigOne   = big.NewInt(1)
	bigTwo   = big.NewInt(2)
	maxT     = new(big.Int).Sub(new(big.Int).Lsh(bigOne, 256), bigOne) // 2^256-1
	two192   = new(big.Int).Lsh(bigOne, 192)
	two50    = new(big.Int).Lsh(bigOne, 50)
	two50p1  = new(big.Int).Add(two50, bigOne)
	two50m1  = new(big.Int).Sub(two50, bigOne)
	two20    = new(big.Int).Lsh(bigOne, 20)
	two20m1  = new(big.Int).Sub(two20, bigOne)
	two20p1  = new(big.Int).Add(two20, bigOne)
	big250   = big.NewInt(250)
	big5     = big.NewInt(5)
	feasible = big.NewInt(1 << 12) // required work up to which headers are really mined
)

// workBig reads a consensus.Work (unexported bytes) through its text form.
func workBig(w consensus.Work) *big.Int {
	v, ok := new(big.Int).SetString(w.String(), 10)
	if !ok {
		panic("c13: Work.String() is not a decimal integer: " + w.String())
	}
	return v
}

func idBig(id types.BlockID) *big.Int { return new(big.Int).SetBytes(id[:]) }

// invFloor is floor((2^256-1)/v), v >= 1.
func invFloor(v *big.Int) *big.Int { return new(big.Int).Quo(maxT, v) }

type era int

const (
	eraPreOak era = iota
	eraOak
	eraV2
	eraFinalCut
)

func (e era) String() string {
	return [...]string{"pre-oak", "oak", "v2", "finalcut"}[e]
}

// eraOf gives the retargeting era of the step that applies the block at
// child height h (property statement + the comments in application.go:
// "pre-Oak algorithm" up to and including the Oak height, v2 from AllowHeight,
// final cut from FinalCutHeight; domain: FinalCutHeight >= AllowHeight).
func eraOf(n *consensus.Network, h uint64) era {
	switch {
	case h >= n.HardforkV2.AllowHeight && h >= n.HardforkV2.FinalCutHeight:
		return eraFinalCut
	case h >= n.HardforkV2.AllowHeight:
		return eraV2
	case h > n.HardforkOak.Height:
		return eraOak
	default:
		return eraPreOak
	}
}

const (
	sideInside = "inside"
	sideUpper  = "upper"
	sideLower  = "lower"
	sideNone   = "unchanged"
	sideReset  = "asic-reset"
)

// ratioClamp decides lo <= D2/D <= hi up to the stated tolerance: D and D2 are
// floors of the real work, so one unit of rounding on each (two floors), plus a
// relative 2^-50:
//
//	D2     <= hi * (D+1) * (1+2^-50)
//	D2 + 1 >= lo *  D    * (1-2^-50)
func ratioClamp(D, D2 *big.Int, loNum, loDen, hiNum, hiDen int64) (ok bool, side string) {
	l := new(big.Int).Mul(D2, big.NewInt(hiDen))
	l.Mul(l, two50)
	r := new(big.Int).Add(D, bigOne)
	r.Mul(r, big.NewInt(hiNum)).Mul(r, two50p1)
	upOK := l.Cmp(r) <= 0

	l2 := new(big.Int).Add(D2, bigOne)
	l2.Mul(l2, big.NewInt(loDen)).Mul(l2, two50)
	r2 := new(big.Int).Mul(D, big.NewInt(loNum))
	r2.Mul(r2, two50m1)
	loOK := l2.Cmp(r2) >= 0

	// classification only (never a verdict): within 2 units / 2^-20 of a bound
	side = sideInside
	switch D2.Cmp(D) {
	case 1:
		a := new(big.Int).Add(D2, bigTwo)
		a.Mul(a, big.NewInt(hiDen)).Mul(a, two20)
		c := new(big.Int).Mul(D, big.NewInt(hiNum))
		c.Mul(c, two20m1)
		if a.Cmp(c) >= 0 {
			side = sideUpper
		}
	case -1:
		a := new(big.Int).Sub(D2, bigTwo)
		if a.Sign() < 0 {
			a.SetInt64(0)
		}
		a.Mul(a, big.NewInt(loDen)).Mul(a, two20)
		c := new(big.Int).Mul(D, big.NewInt(loNum))
		c.Mul(c, two20p1)
		if a.Cmp(c) <= 0 {
			side = sideLower
		}
	}
	return upOK && loOK, side
}

// absClamp decides |D2-D| <= adj exactly.
func absClamp(D, D2, adj *big.Int) (ok bool, side string) {
	diff := new(big.Int).Sub(D2, D)
	ok = new(big.Int).Abs(diff).Cmp(adj) <= 0
	side = sideInside
	if adj.Sign() > 0 && new(big.Int).Abs(diff).Cmp(adj) == 0 {
		if diff.Sign() > 0 {
			side = sideUpper
		} else {
			side = sideLower
		}
	}
	return
}

// twiceMedian returns 2*median (in seconds) of the newest cnt entries of prev;
// all timestamps in this check are whole seconds, so this is exact. For an even
// count the median is the mean of the two middle values.
func twiceMedian(prev [11]time.Time, cnt int) int64 {
	secs := make([]int64, cnt)
	for i := range secs {
		secs[i] = prev[i].Unix()
	}
	sort.Slice(secs, func(i, j int) bool { return secs[i] < secs[j] })
	if cnt%2 == 1 {
		return 2 * secs[cnt/2]
	}
	return secs[cnt/2-1] + secs[cnt/2]
}

// prevCount is the number of timestamps the state at the given height holds:
// the block's own and its ancestors', at most eleven.
func prevCount(height uint64) int {
	if height+1 < 11 {
		return int(height + 1)
	}
	return 11
}

// minAllowedTS is the smallest whole-second timestamp that is not before the median.
func minAllowedTS(twiceMed int64) int64 {
	q := twiceMed / 2
	if twiceMed%2 != 0 && twiceMed > 0 {
		q++
	}
	return q
}

func tsPermitted(ts, twiceMed int64) bool { return 2*ts >= twiceMed }

// modelNonceFactor: nonces must be divisible by the ASIC factor from the ASIC height on.
func modelNonceFactor(n *consensus.Network, childHeight uint64) uint64 {
	if childHeight >= n.HardforkASIC.Height {
		return n.HardforkASIC.NonceFactor
	}
	return 1
}

// modelPoWTarget: the target the child of s must meet: the recorded child
// target before the final cut, the floored inverse of the difficulty from it.
func modelPoWTarget(s consensus.State) *big.Int {
	if s.Index.Height+1 < s.Network.HardforkV2.FinalCutHeight {
		return idBig(s.ChildTarget)
	}
	return invFloor(workBig(s.Difficulty))
}

// modelHeavier: a is sufficiently heavier than b iff its total work exceeds b's
// by more than a fifth of b's difficulty.
func modelHeavier(twA, twB, dB *big.Int) bool {
	th := new(big.Int).Quo(dB, big5)
	th.Add(th, twB)
	return twA.Cmp(th) > 0
}

func hexID(id types.BlockID) string { return fmt.Sprintf("%x", id[:]) }
