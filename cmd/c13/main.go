// C13 — Difficulty retargeting is total, clamped, identical for headers and
// full blocks.
//
// Monitor: header-only histories (ApplyHeader does not check work, so nothing
// is mined on this path) over netgen networks, long enough to cross every fork
// height of the network, with timestamps from a timestamp model and filtered
// through the median-of-11 rule computed here from State.PrevTimestamps. Every
// step is watched by an independent math/big model of the era clamps, the
// target<->difficulty inversion, zero-freedom and cumulative work; up to a block
// limit past the last fork the same headers are also applied as real empty
// blocks through ApplyBlock and all PoW fields compared; at feasible targets
// headers are really mined and ValidateHeader / ValidateBlock exercised with
// each acceptance condition violated singly; SufficientlyHeavierThan is checked
// for asymmetry on pairs of visited states.
package main

import (
	"fmt"
	"time"

	"verif/internal/harness"
	"verif/internal/netgen"
)

var spans = []uint64{200, 1500, 4000}

func minU(a, b uint64) uint64 {
	if a < b {
		return a
	}
	return b
}

// fixedCases: the repo's literal testnet (outside the BlockInterval domain as
// written; run with the interval lifted to 1 s) and the out-of-domain probe.
func fixedCases(r *runner) {
	b := r.b
	tn := netgen.TestnetLiteral()
	if err := tn.InDomain(); err != nil {
		b.Count("networks_skipped_outside_stated_domain", 1)
		b.SetAdd("domain_skips", "testnet literal: "+err.Error())
	}
	for _, m := range []string{"on-schedule", "fast", "slow", "min-median", "regime", "far-future-blip"} {
		t := netgen.TestnetLiteral()
		t.Network.BlockInterval = time.Second
		t.Name, t.Network.Name = "testnet-1s", "testnet-1s"
		r.history(histCfg{net: t, model: m, length: 3700, blockLimit: 3700, mineProb: 8})
	}
	// Out-of-domain probe (observation only): FinalCutHeight < AllowHeight.
	p := netgen.FinalCutBeforeAllow(b.SubRng("probe"), 5, 20)
	pr := &runner{b: b, rng: b.SubRng("probe-run")}
	pr.history(histCfg{net: p, model: "on-schedule", length: 40, probe: true})
}

func run(b *harness.B) {
	r := &runner{b: b, rng: b.Rng}
	if b.Batch == 0 {
		fixedCases(r)
		directed(b)
	}
	budget := int64(b.Pick(800_000, 14_000_000))
	netRng := b.SubRng("netgen")
	for g := 0; r.steps < budget; g++ {
		span := spans[g%len(spans)]
		nets := netgen.NetworksOpt(netRng, len(netgen.Families), netgen.Options{Span: span, HardPoW: true})
		for k, nt := range nets {
			if err := nt.InDomain(); err != nil {
				b.Count("networks_skipped_outside_stated_domain", 1)
				continue
			}
			nt.Name = fmt.Sprintf("%s-b%d-g%d", nt.Family, b.Batch, g)
			nt.Network.Name = nt.Name
			model := modelNames[(g+3*k+b.Batch)%len(modelNames)]
			last := nt.LastFork()
			length := last + 300 + r.rng.Uint64N(1500)
			if nt.Family == netgen.V1Only && r.rng.IntN(2) == 0 {
				length += 1000 + r.rng.Uint64N(3000) // long Oak era, pre-Oak retargets at 500/1000/...
			}
			if (g*4+k)%29 == 7 {
				length = 20000 + r.rng.Uint64N(80000)
			}
			r.history(histCfg{net: nt, model: model, length: length, blockLimit: minU(minU(length, last+800), 6000), mineProb: 16})
			b.Count("networks", 1)
		}
	}
	b.Count("steps", int(r.steps))
}

func main() {
	harness.Main(harness.Spec{
		ID: "C13",
		Rule: "a case is one retarget step of a header-only history (1e3..1e5 headers, crossing every reachable fork height of the network) over netgen networks " +
			"(compressed-mainnet, v1-only, v2-from-genesis, scrambled; spans 200/1500/4000; InitialTarget 2^192..2^256-1; BlockInterval 1s..24h) with timestamps from 13 models " +
			"(on-schedule, jitter, constant, min-median, fast, slow, far-future blip/shift/every-block, oscillating, decreasing, random, regime-switching) filtered by the median-of-11 rule; " +
			"plus ValidateHeader cases (accepting header really mined, each condition violated singly and in combination) and pairs for SufficientlyHeavierThan. " +
			"Distinct shape = (family, era, timestamp model, clamp side hit lower/upper/inside/unchanged/reset, block interval, difficulty magnitude class, fork boundary touched, header/v1/v2 block form).",
		Assume: []string{
			"generated networks keep BlockInterval >= 1s, V2.FinalCutHeight >= V2.AllowHeight and NonceFactor >= 1 so that ordinary histories can run; the edge of that domain is judged by the directed histories of batch 0 (one fixed witness each)",
			"a history ends (counted, not judged) when difficulty exceeds 2^192 or stays <= 2 for 2500 steps past the last fork",
			"targetTimestamp is the timestamp of the ancestor at height max(0, childHeight-1000), as the chain manager supplies it",
			"ratio clamps are compared with one unit of integer rounding on each of the two floored difficulties plus a relative 2^-50",
			"header timestamps are whole seconds (the header ID commits to Unix seconds only)",
		},
		Batches: func(t string) int {
			if t == "quick" {
				return 16
			}
			return 32
		},
		Run: run,
		ChildTimeout: func(t string) time.Duration {
			if t == "quick" {
				return 6 * time.Minute
			}
			return 90 * time.Minute
		},
		MinEvals:    1_000_000,
		MinDistinct: 1000,
		Require: []string{
			"oak_time_steps_bounded", "oak_time_steps_bounded_with_more_than_107_days_accumulated", "steps_pre_oak_adjust", "steps_pre_oak_noadjust", "steps_oak", "asic_reset_seen", "asic_reset_outside_clamp", "steps_v2", "steps_finalcut",
			"clamp_upper_hit", "clamp_lower_hit", "clamp_inside", "header_vs_block_compared",
			"validate_header_accept", "validate_header_accept_timestamp_equals_median", "validate_header_reject",
			"validate_header_reject/wrong-parent", "validate_header_reject/timestamp-before-median", "validate_header_reject/nonce-not-multiple-of-factor", "validate_header_reject/hash-above-target",
			"validate_block_accept_mined_empty_block", "heavier_pairs_related", "heavier_pairs_unrelated", "ts_proposals_filtered_by_median_rule",
		},
		Extra: func(m *harness.Result, cov map[string]any) {
			cov["out_of_domain_probe"] = "FinalCutHeight < AllowHeight: see counter probe_out_of_domain_panics(...) and set probe_out_of_domain (observation, not judged)"
		},
	})
}
