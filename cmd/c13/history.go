package main

import (
	"fmt"
	"math"
	"math/big"
	"math/rand/v2"
	"time"

	"go.sia.tech/core/consensus"
	"go.sia.tech/core/types"
	"verif/internal/harness"
	"verif/internal/netgen"
)

// stateDump is the JSON-able PoW part of a State (timestamps as unix seconds:
// far-future histories leave the year range time.Time can marshal).
type stateDump struct {
	Height         uint64  `json:"height"`
	ID             string  `json:"id"`
	PrevTimestamps []int64 `json:"prevTimestampsUnix"`
	Depth          string  `json:"depth"`
	ChildTarget    string  `json:"childTarget"`
	OakTimeNS      int64   `json:"oakTimeNS"`
	OakTarget      string  `json:"oakTarget"`
	TotalWork      string  `json:"totalWork"`
	Difficulty     string  `json:"difficulty"`
	OakWork        string  `json:"oakWork"`
}

func dump(s consensus.State) stateDump {
	d := stateDump{
		Height: s.Index.Height, ID: hexID(s.Index.ID),
		Depth: hexID(s.Depth), ChildTarget: hexID(s.ChildTarget), OakTimeNS: int64(s.OakTime), OakTarget: hexID(s.OakTarget),
		TotalWork: s.TotalWork.String(), Difficulty: s.Difficulty.String(), OakWork: s.OakWork.String(),
	}
	for _, t := range s.PrevTimestamps {
		d.PrevTimestamps = append(d.PrevTimestamps, t.Unix())
	}
	return d
}

type stepWitness struct {
	Network         *consensus.Network `json:"network"`
	Family          string             `json:"family"`
	Model           string             `json:"timestampModel"`
	ChildHeight     uint64             `json:"childHeight"`
	Parent          stateDump          `json:"parentState"`
	HeaderParentID  string             `json:"headerParentID"`
	HeaderNonce     uint64             `json:"headerNonce"`
	HeaderTimestamp int64              `json:"headerTimestampUnix"`
	HeaderCommit    string             `json:"headerCommitment"`
	TargetTimestamp int64              `json:"targetTimestampUnix"`
	Result          *stateDump         `json:"resultState,omitempty"`
}

// visited is a state kept for the SufficientlyHeavierThan oracle.
type visited struct {
	s      consensus.State
	tw, d  *big.Int
	era    era
	histID int
}

type runner struct {
	b      *harness.B
	rng    *rand.Rand
	steps  int64
	histN  int
	pool   []visited // states from earlier histories (cross-history pairs)
	sample int
}

type histCfg struct {
	net        netgen.Net
	model      string
	length     uint64
	blockLimit uint64 // heights up to which the same headers are also applied as full blocks
	mineProb   int    // 1/mineProb of the feasible steps are really mined and validated
	probe      bool   // out-of-domain probe: observe only, never judge
}

// powFieldsDiff compares every PoW field of a header-only and a full-block state.
func powFieldsDiff(a, b consensus.State) string {
	switch {
	case a.Index != b.Index:
		return "Index"
	case a.PrevTimestamps != b.PrevTimestamps:
		return "PrevTimestamps"
	case a.Depth != b.Depth:
		return "Depth"
	case a.ChildTarget != b.ChildTarget:
		return "ChildTarget"
	case a.OakTime != b.OakTime:
		return "OakTime"
	case a.OakTarget != b.OakTarget:
		return "OakTarget"
	case a.TotalWork != b.TotalWork:
		return "TotalWork"
	case a.Difficulty != b.Difficulty:
		return "Difficulty"
	case a.OakWork != b.OakWork:
		return "OakWork"
	}
	return ""
}

func forkAt(nt netgen.Net, h uint64) string {
	for _, f := range nt.Forks() {
		switch h {
		case f.Height:
			return f.Name
		case f.Height + 1:
			return f.Name + "+1"
		}
		if f.Height > 0 && h == f.Height-1 {
			return f.Name + "-1"
		}
	}
	return ""
}

// history runs one header-only history (and, up to blockLimit, the same headers
// as full blocks) under all per-step oracles. It returns the number of steps.
func (r *runner) history(cfg histCfg) {
	b, n, nt := r.b, cfg.net.Network, cfg.net
	r.histN++
	histID := r.histN
	rng := r.rng
	bi := int64(n.BlockInterval / time.Second)
	g := n.HardforkOak.GenesisTimestamp.Unix()
	model := newModel(cfg.model, rng, bi)
	lastFork := nt.LastFork()
	judge := !cfg.probe
	keyp := "C13"
	violate := func(key, detail string, w any) {
		if judge {
			b.Violate(keyp+"/"+key, detail, w)
		}
	}
	var hs, bs consensus.State
	// guard: a panic is a violation, except in the out-of-domain probe where it is only recorded
	guard := func(key string, w func() any, f func()) (panicked bool) {
		if judge {
			return b.Guard(key, w, f)
		}
		defer func() {
			if x := recover(); x != nil {
				panicked = true
				b.Count("probe_out_of_domain_panics(observed, not judged)", 1)
				b.SetAdd("probe_out_of_domain", fmt.Sprintf("%s: %s at child height %d: panic: %v", nt.Name, key, hs.Index.Height+1, x))
			}
		}()
		f()
		return false
	}

	gs := n.GenesisState()
	gb := nt.Genesis
	withBlocks := cfg.blockLimit > 0
	gw := func() any { return map[string]any{"network": n, "genesisTimestampUnix": g} }
	if guard(keyp+"/ApplyHeader/genesis", gw, func() { hs = consensus.ApplyHeader(gs, gb.Header(), time.Time{}) }) {
		return
	}
	if withBlocks {
		if guard(keyp+"/ApplyBlock/genesis", gw, func() { bs, _ = consensus.ApplyBlock(gs, gb, consensus.V1BlockSupplement{}, time.Time{}) }) {
			return
		}
		b.Count("header_vs_block_compared", 1)
		if f := powFieldsDiff(hs, bs); f != "" {
			violate("header-vs-block/"+f+"/genesis", "ApplyHeader and ApplyBlock disagree on "+f+" for the genesis block", gw())
		}
	}
	lastID := gb.Header().ID()
	ts := make([]int64, 1, cfg.length+1)
	ts[0] = g

	// genesis state: difficulty is the floored inverse of the initial target
	{
		D := workBig(hs.Difficulty)
		if D.Sign() == 0 || D.Cmp(invFloor(idBig(n.InitialTarget))) != 0 {
			violate("inverse/genesis/difficulty-not-inverse-of-initial-target", fmt.Sprintf("Difficulty %v, InitialTarget %x", D, n.InitialTarget[:]), gw())
		}
		if hs.Index.Height != 0 || hs.Index.ID != lastID || hs.PrevTimestamps[0].Unix() != g {
			violate("apply/genesis/index-or-timestamp", fmt.Sprintf("index %v", hs.Index), gw())
		}
		if pt := idBig(hs.PoWTarget()); pt.Cmp(modelPoWTarget(hs)) != 0 || pt.Sign() == 0 {
			violate("inverse/genesis/powtarget", fmt.Sprintf("PoWTarget %x", pt), gw())
		}
	}

	addr := types.Address{1, 2, 3, byte(histID)}
	var vis []visited
	floorRun := 0
	D := workBig(hs.Difficulty)
	TW := workBig(hs.TotalWork)
	unclampedSteps := 0
	ctx := &tsCtx{rng: rng, genesis: g, bi: bi}

	for h := uint64(1); h <= cfg.length; h++ {
		r.steps++
		b.Eval(1)
		// ---- next timestamp: model proposal filtered by the median rule (own median)
		tm := twiceMedian(hs.PrevTimestamps, prevCount(h-1))
		minTS := minAllowedTS(tm)
		ctx.h, ctx.prev, ctx.minAllowed = h, ts[h-1], minTS
		t := propose(model, ctx)
		if !tsPermitted(t, tm) {
			b.Count("ts_proposals_filtered_by_median_rule", 1)
			t = minTS
		}
		sub := cfg.model
		if ctx.sub != "" {
			sub = cfg.model + ":" + ctx.sub
		}
		// ---- ancestor timestamp as the chain manager supplies it
		anc := uint64(0)
		if h > 1000 {
			anc = h - 1000
		}
		target := time.Unix(ts[anc], 0)

		// ---- the block / header
		e := eraOf(n, h)
		useBlocks := withBlocks && h <= cfg.blockLimit
		if withBlocks && !useBlocks {
			withBlocks = false
			bs = consensus.State{}
		}
		factor := modelNonceFactor(n, h)
		mine := cfg.mineProb > 0 && D.Cmp(feasible) <= 0 && (rng.IntN(cfg.mineProb) == 0 || (forkAt(nt, h) != "" && rng.IntN(3) == 0))
		if mine { // feasibility is decided on the target the header must really meet
			if pt := modelPoWTarget(hs); pt.Sign() == 0 || invFloor(pt).Cmp(feasible) > 0 {
				mine = false
				b.Count("mining_skipped_target_infeasible_although_difficulty_feasible", 1)
			}
		}
		var blk types.Block
		var bh types.BlockHeader
		if useBlocks {
			blk = types.Block{ParentID: lastID, Timestamp: time.Unix(t, 0), Nonce: factor * rng.Uint64N(1<<20),
				MinerPayouts: []types.SiacoinOutput{{Address: addr, Value: bs.BlockReward()}}}
			v2form := h >= n.HardforkV2.AllowHeight && (h >= n.HardforkV2.RequireHeight || rng.IntN(2) == 0)
			if v2form {
				blk.V2 = &types.V2BlockData{Height: h}
				if mine {
					blk.V2.Commitment = bs.Commitment(addr, nil, nil)
				} else {
					blk.V2.Commitment = types.Hash256{byte(h), byte(h >> 8), byte(h >> 16), 0xC1, 0x3}
				}
			}
			bh = blk.Header()
		} else {
			bh = types.BlockHeader{ParentID: lastID, Timestamp: time.Unix(t, 0), Nonce: factor * rng.Uint64N(1<<20),
				Commitment: types.Hash256{byte(h), byte(h >> 8), byte(h >> 16), byte(histID)}}
		}
		parent := hs
		wit := func() any {
			return stepWitness{Network: n, Family: nt.Family, Model: sub, ChildHeight: h, Parent: dump(parent),
				HeaderParentID: hexID(bh.ParentID), HeaderNonce: bh.Nonce, HeaderTimestamp: t, HeaderCommit: fmt.Sprintf("%x", bh.Commitment[:]), TargetTimestamp: ts[anc]}
		}

		// ---- ValidateHeader / ValidateBlock at feasible targets
		if mine && judge {
			if nonce, ok := r.validateHeaderCases(parent, bh, lastID, tm, t, factor, e, nt, sub); ok {
				bh.Nonce = nonce
				if useBlocks {
					blk.Nonce = nonce
					var err error
					if !b.Guard(keyp+"/ValidateBlock", wit, func() { err = consensus.ValidateBlock(bs, blk, consensus.V1BlockSupplement{}) }) {
						if err == nil {
							b.Count("validate_block_accept_mined_empty_block", 1)
						} else if hdrErr(err) {
							violate("ValidateBlock/rejects-valid-header/"+e.String(), "ValidateBlock rejected a mined empty block whose header satisfies all four conditions: "+err.Error(), wit())
						} else {
							b.Count("validate_block_generator_disagreement", 1)
							b.SetAdd("validate_block_disagreement_errors", err.Error())
						}
					}
				}
			}
		}

		// ---- apply
		var next consensus.State
		if guard(keyp+"/ApplyHeader/"+e.String(), wit, func() { next = consensus.ApplyHeader(hs, bh, target) }) {
			return
		}
		if useBlocks {
			var nb consensus.State
			if guard(keyp+"/ApplyBlock/"+e.String(), wit, func() { nb, _ = consensus.ApplyBlock(bs, blk, consensus.V1BlockSupplement{}, target) }) {
				return
			}
			b.Count("header_vs_block_compared", 1)
			if h%5 == 0 {
				// the miner's own copy of the block carries a wall-clock timestamp with a sub-second part; ID and
				// wire form know whole seconds only, so it is the same header and the same block
				bh2, blk2 := bh, blk
				bh2.Timestamp = bh.Timestamp.Add(437 * time.Millisecond)
				blk2.Timestamp = bh2.Timestamp
				var s1, s2 consensus.State
				if !guard(keyp+"/ApplyHeader/sub-second/"+e.String(), wit, func() { s1 = consensus.ApplyHeader(hs, bh2, target) }) &&
					!guard(keyp+"/ApplyBlock/sub-second/"+e.String(), wit, func() { s2, _ = consensus.ApplyBlock(bs, blk2, consensus.V1BlockSupplement{}, target) }) {
					b.Count("header_vs_block_compared_with_sub_second_timestamp", 1)
					if f := powFieldsDiff(next, s1); f != "" {
						violate("header-vs-block/"+f+"/sub-second-in-memory-timestamp/ApplyHeader", fmt.Sprintf("ApplyHeader of the same header stamped 0.437 s later in memory (same ID) differs in %s at height %d", f, h), wit())
					} else if f := powFieldsDiff(next, s2); f != "" {
						violate("header-vs-block/"+f+"/sub-second-in-memory-timestamp/ApplyBlock", fmt.Sprintf("ApplyBlock of the same block stamped 0.437 s later in memory (same ID) differs from ApplyHeader in %s at height %d", f, h), wit())
					}
				}
			}
			if f := powFieldsDiff(next, nb); f != "" {
				w := wit().(stepWitness)
				d1, d2 := dump(next), dump(nb)
				violate("header-vs-block/"+f+"/"+e.String(), fmt.Sprintf("after the same header at height %d ApplyHeader and ApplyBlock disagree on %s: header-only %+v, full block %+v", h, f, d1, d2), w)
				// the two chains have diverged: everything after this would only repeat the finding
				withBlocks, nb = false, consensus.State{}
			}
			bs = nb
		}
		hs = next
		lastID = bh.ID()
		ts = append(ts, t)
		if cfg.probe {
			continue
		}

		// ---- oracles on the step parent -> hs
		D2 := workBig(hs.Difficulty)
		TW2 := workBig(hs.TotalWork)
		fail := func(key, detail string) {
			w := wit().(stepWitness)
			d := dump(hs)
			w.Result = &d
			violate(key, detail, w)
		}
		// bookkeeping fields
		if hs.Index.Height != h || hs.Index.ID != lastID {
			fail("apply/index", fmt.Sprintf("index %v after applying header %x at height %d", hs.Index, lastID[:], h))
		}
		for i := 0; i < prevCount(h); i++ {
			if hs.PrevTimestamps[i].Unix() != ts[int(h)-i] {
				fail("apply/prev-timestamps", fmt.Sprintf("PrevTimestamps[%d]=%d, header %d had %d", i, hs.PrevTimestamps[i].Unix(), int(h)-i, ts[int(h)-i]))
				break
			}
		}
		// the block-time accumulator is a decayed sum: whatever the decay rate, the new value lies between the block's
		// own time and that time plus the previous value. Judged only where both ends are representable (a wrapped
		// value outside them is an arithmetic overflow on the way, not a decay).
		if h != n.HardforkASIC.Height-1 && h > 0 {
			P := big.NewInt(int64(parent.OakTime))
			if h == n.HardforkOak.Height-1 {
				P = new(big.Int).Mul(big.NewInt(int64(parent.BlockInterval())), new(big.Int).SetUint64(h))
			}
			delta := big.NewInt(int64(time.Unix(t, 0).Sub(time.Unix(ts[len(ts)-2], 0))))
			lo, hi := new(big.Int).Set(delta), new(big.Int).Set(delta)
			if P.Sign() < 0 {
				lo.Add(lo, P)
			} else {
				hi.Add(hi, P)
			}
			if lo.IsInt64() && hi.IsInt64() && P.IsInt64() && time.Unix(t, 0).Sub(time.Unix(ts[len(ts)-2], 0)) < math.MaxInt64 && time.Unix(t, 0).Sub(time.Unix(ts[len(ts)-2], 0)) > math.MinInt64 {
				b.Count("oak_time_steps_bounded", 1)
				if P.Cmp(big.NewInt(int64(107*24*time.Hour))) > 0 {
					b.Count("oak_time_steps_bounded_with_more_than_107_days_accumulated", 1)
				}
				if N := big.NewInt(int64(hs.OakTime)); N.Cmp(lo) < 0 || N.Cmp(hi) > 0 {
					fail("oak-time/not-a-decayed-sum/"+e.String(), fmt.Sprintf("OakTime went from %v to %v with a block time of %v at height %d: outside [%v, %v], the range of a decayed sum", parent.OakTime, hs.OakTime, time.Duration(delta.Int64()), h, time.Duration(lo.Int64()), time.Duration(hi.Int64())))
				}
			}
		}
		// never zero
		if D2.Sign() == 0 {
			fail("zero/difficulty/"+e.String(), "Difficulty became 0")
		}
		T2 := idBig(hs.ChildTarget)
		if h < n.HardforkV2.FinalCutHeight && T2.Sign() == 0 {
			fail("zero/child-target/"+e.String(), "ChildTarget became 0 before the final cut")
		}
		pt := idBig(hs.PoWTarget())
		if pt.Sign() == 0 {
			fail("zero/pow-target/"+e.String(), "PoWTarget() is 0")
		}
		// floored inverse in the direction of the era
		if D2.Sign() != 0 && T2.Sign() != 0 || h >= n.HardforkV2.FinalCutHeight && D2.Sign() != 0 {
			switch {
			case h < n.HardforkV2.AllowHeight:
				if D2.Cmp(invFloor(T2)) != 0 {
					fail("inverse/pre-v2/difficulty-not-floor-inverse-of-target", fmt.Sprintf("Difficulty %v, floor(max/ChildTarget) %v", D2, invFloor(T2)))
				}
			case h < n.HardforkV2.FinalCutHeight:
				if T2.Cmp(invFloor(D2)) != 0 {
					fail("inverse/v2/target-not-floor-inverse-of-difficulty", fmt.Sprintf("ChildTarget %x, floor(max/Difficulty) %x", T2, invFloor(D2)))
				}
			}
			if h+1 >= n.HardforkV2.FinalCutHeight {
				if pt.Cmp(invFloor(D2)) != 0 {
					fail("inverse/finalcut/powtarget-not-floor-inverse-of-difficulty", fmt.Sprintf("PoWTarget %x, floor(max/Difficulty) %x", pt, invFloor(D2)))
				}
			} else if pt.Cmp(T2) != 0 {
				fail("inverse/powtarget-not-child-target", fmt.Sprintf("PoWTarget %x, ChildTarget %x before the final cut", pt, T2))
			}
		}
		// cumulative work
		if c := TW2.Cmp(TW); c < 0 {
			fail("total-work/decreased/"+e.String(), fmt.Sprintf("TotalWork %v -> %v", TW, TW2))
		} else if c == 0 && h >= n.HardforkV2.AllowHeight {
			fail("total-work/not-strictly-increasing/"+e.String(), fmt.Sprintf("TotalWork stayed %v at v2 height %d", TW, h))
		}
		// clamp of the era
		side := sideInside
		if D2.Sign() != 0 {
			var ok bool
			switch e {
			case eraPreOak:
				if h%500 != 0 {
					ok, side = D2.Cmp(D) == 0 && hs.ChildTarget == parent.ChildTarget, sideNone
					b.Count("steps_pre_oak_noadjust", 1)
					if !ok {
						fail("clamp/pre-oak/changed-off-schedule", fmt.Sprintf("difficulty %v -> %v at height %d (not a multiple of 500)", D, D2, h))
					}
				} else {
					ok, side = ratioClamp(D, D2, 4, 10, 25, 10)
					b.Count("steps_pre_oak_adjust", 1)
					if !ok {
						fail("clamp/pre-oak/outside-0.4-2.5", fmt.Sprintf("difficulty %v -> %v", D, D2))
					}
				}
			case eraOak:
				ok, side = ratioClamp(D, D2, 1000, 1004, 1004, 1000)
				b.Count("steps_oak", 1)
				if h == n.HardforkASIC.Height {
					b.Count("asic_reset_seen", 1)
					if !ok {
						b.Count("asic_reset_outside_clamp", 1)
						unclampedSteps++
					}
					side = sideReset
				} else if !ok {
					fail("clamp/oak/outside-0.4-percent", fmt.Sprintf("difficulty %v -> %v at height %d (ASIC height %d)", D, D2, h, n.HardforkASIC.Height))
				}
				// before v2 the target is the primary quantity; at trivial difficulty (1..3) the integer difficulty
				// is too coarse to see the clamp, the 256-bit target is not: T*1000/1004 - 1 <= T2 <= T*1004/1000 + 1,
				// where the upper bound may only be cut by the largest target there is
				if h != n.HardforkASIC.Height && h < n.HardforkV2.AllowHeight {
					Tp := idBig(parent.ChildTarget)
					if Tp.Sign() != 0 && T2.Sign() != 0 {
						up := new(big.Int).Mul(Tp, big.NewInt(1004))
						up.Quo(up, big.NewInt(1000)).Add(up, bigOne)
						lo := new(big.Int).Mul(Tp, big.NewInt(1000))
						lo.Quo(lo, big.NewInt(1004)).Sub(lo, bigOne)
						b.Count("steps_oak_target_clamp_checked", 1)
						if T2.Cmp(up) > 0 || T2.Cmp(lo) < 0 {
							fail("clamp/oak/target-outside-0.4-percent", fmt.Sprintf("target %x -> %x at height %d", Tp, T2, h))
						}
					}
				}
			case eraV2:
				ok, side = absClamp(D, D2, new(big.Int).Quo(D, big250))
				b.Count("steps_v2", 1)
				if !ok {
					fail("clamp/v2/outside-floor-D-over-250", fmt.Sprintf("difficulty %v -> %v, allowed +-%v", D, D2, new(big.Int).Quo(D, big250)))
				}
			case eraFinalCut:
				adj := new(big.Int).Quo(D, big250)
				if adj.Sign() == 0 {
					adj.SetInt64(1)
				}
				ok, side = absClamp(D, D2, adj)
				b.Count("steps_finalcut", 1)
				if !ok {
					fail("clamp/finalcut/outside-max(floor-D-over-250,1)", fmt.Sprintf("difficulty %v -> %v, allowed +-%v", D, D2, adj))
				}
			}
		}
		switch side {
		case sideUpper:
			b.Count("clamp_upper_hit", 1)
		case sideLower:
			b.Count("clamp_lower_hit", 1)
		case sideInside:
			b.Count("clamp_inside", 1)
		}
		form := "header"
		if useBlocks {
			form = "v1block"
			if blk.V2 != nil {
				form = "v2block"
			}
		}
		b.Distinct("step", nt.Family, e, sub, side, n.BlockInterval, D2.BitLen()/16, forkAt(nt, h), form, h%500 == 0)
		b.MaxOf("max_difficulty_bits", int64(D2.BitLen()))

		// ---- keep some states for the heavier-than relation
		if len(vis) < 32 && (rng.IntN(int(cfg.length/32)+1) == 0 || forkAt(nt, h) != "") {
			vis = append(vis, visited{s: hs, tw: TW2, d: D2, era: e, histID: histID})
		}

		D, TW = D2, TW2
		// ---- domain guard (counted, not judged)
		if D.Cmp(two192) > 0 {
			b.Count("histories_ended_difficulty_above_2^192", 1)
			break
		}
		if D.Cmp(bigTwo) <= 0 {
			floorRun++
		} else {
			floorRun = 0
		}
		if floorRun > 2500 && h > lastFork+600 {
			b.Count("histories_ended_at_difficulty_floor", 1)
			break
		}
	}
	if cfg.probe {
		return
	}
	if unclampedSteps > 1 {
		b.Violate(keyp+"/clamp/more-than-one-unclamped-step", "more than one unclamped step in one history", map[string]any{"network": n})
	}
	b.Count("histories", 1)
	b.MaxOf("max_history_length", int64(len(ts)-1))
	b.SetAdd("families", nt.Family)
	b.SetAdd("timestamp_models", cfg.model)
	if r.sample < 3 {
		r.sample++
		b.Sample(map[string]any{"network": n, "family": nt.Family, "timestampModel": cfg.model, "headers": len(ts) - 1, "finalState": dump(hs)})
	}
	r.heavierPairs(vis)
}

// hdrErr reports whether a ValidateBlock error is one of ValidateHeader's
// (ValidateOrphan wraps them as "block has ...").
func hdrErr(err error) bool {
	s := err.Error()
	return len(s) >= 9 && s[:9] == "block has"
}
