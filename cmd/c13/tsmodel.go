package main

// Timestamp models. A model proposes the next header timestamp (unix seconds)
// from the history so far; the caller filters the proposal through the
// median-of-11 rule (model.go) so that only permitted histories are applied.

import "math/rand/v2"

const (
	yearSecs = int64(31557600)
	capUnix  = int64(1) << 45 // ~1.1 million years: keeps time.Time arithmetic far from its limits
)

type tsCtx struct {
	rng        *rand.Rand
	h          uint64 // child height being produced
	genesis    int64
	bi         int64 // block interval, seconds (>= 1)
	prev       int64 // timestamp of the parent
	minAllowed int64 // smallest permitted timestamp
	sub        string
}

type tsModel func(c *tsCtx) int64

var modelNames = []string{
	"on-schedule", "jitter", "constant", "min-median", "fast", "slow",
	"far-future-blip", "far-future-shift", "far-future-every-block",
	"oscillating", "decreasing", "random", "regime",
}

func newModel(name string, rng *rand.Rand, bi int64) tsModel {
	switch name {
	case "on-schedule":
		return func(c *tsCtx) int64 { return c.genesis + int64(c.h)*c.bi }
	case "jitter":
		return func(c *tsCtx) int64 { return c.prev + c.bi + c.rng.Int64N(c.bi+1) - c.bi/2 }
	case "constant":
		return func(c *tsCtx) int64 { return c.genesis }
	case "min-median":
		return func(c *tsCtx) int64 { return c.minAllowed }
	case "fast":
		div := int64(2 + rng.IntN(8))
		return func(c *tsCtx) int64 { return c.prev + c.bi/div }
	case "slow":
		mul := int64(2 + rng.IntN(8))
		return func(c *tsCtx) int64 { return c.prev + c.bi*mul }
	case "far-future-blip":
		every := uint64(3 + rng.IntN(200))
		return func(c *tsCtx) int64 {
			if c.h%every == 0 {
				return c.minAllowed + int64(1+c.rng.IntN(50))*yearSecs
			}
			return c.minAllowed + c.bi
		}
	case "far-future-shift":
		every := uint64(20 + rng.IntN(400))
		return func(c *tsCtx) int64 {
			if c.h%every == 0 {
				return c.prev + int64(1+c.rng.IntN(50))*yearSecs
			}
			return c.prev + c.bi
		}
	case "far-future-every-block":
		return func(c *tsCtx) int64 { return c.prev + int64(1+c.rng.IntN(40))*yearSecs }
	case "oscillating":
		xs := []int64{10 * bi, 7200, 86400, yearSecs, 30 * yearSecs}
		x := xs[rng.IntN(len(xs))]
		return func(c *tsCtx) int64 {
			if c.h%2 == 0 {
				return c.minAllowed + x
			}
			return c.minAllowed
		}
	case "decreasing":
		// climb for a while, then strictly decrease as far as the rule allows
		up := uint64(6 + rng.IntN(30))
		return func(c *tsCtx) int64 {
			if c.h%(4*up) < up {
				return c.prev + 5*c.bi + c.rng.Int64N(10*c.bi+1)
			}
			return c.prev - 1 - c.rng.Int64N(c.bi+1)
		}
	case "random":
		return func(c *tsCtx) int64 {
			switch c.rng.IntN(20) {
			case 0:
				return c.prev + c.rng.Int64N(yearSecs*3)
			case 1:
				return c.minAllowed
			case 2:
				return c.prev - c.rng.Int64N(yearSecs)
			default:
				return c.prev + c.rng.Int64N(10*c.bi+1) - 4*c.bi
			}
		}
	case "regime":
		// switch among the other models every few hundred blocks so that one
		// history drives the difficulty up and down and meets both clamp sides
		var cur tsModel
		var curName string
		var until uint64
		return func(c *tsCtx) int64 {
			if cur == nil || c.h >= until {
				curName = modelNames[c.rng.IntN(len(modelNames)-1)] // all but "regime"
				cur = newModel(curName, c.rng, c.bi)
				until = c.h + 30 + c.rng.Uint64N(700)
			}
			c.sub = curName
			return cur(c)
		}
	}
	panic("unknown timestamp model " + name)
}

// propose runs the model and keeps the value inside the representable band.
func propose(m tsModel, c *tsCtx) int64 {
	c.sub = ""
	v := m(c)
	if v > capUnix {
		v = c.prev + c.bi
		if v > capUnix+(1<<40) {
			v = c.prev
		}
	}
	return v
}
