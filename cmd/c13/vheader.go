package main

import (
	"bytes"
	"fmt"
	"math/big"
	"strings"
	"time"

	"go.sia.tech/core/consensus"
	"go.sia.tech/core/types"
	"verif/internal/netgen"
)

const (
	badParent = 1 << iota
	badTime
	badNonce
	badWork
)

func maskName(m int) string {
	var p []string
	if m&badParent != 0 {
		p = append(p, "wrong-parent")
	}
	if m&badTime != 0 {
		p = append(p, "timestamp-before-median")
	}
	if m&badNonce != 0 {
		p = append(p, "nonce-not-multiple-of-factor")
	}
	if m&badWork != 0 {
		p = append(p, "hash-above-target")
	}
	return strings.Join(p, "+")
}

type vhWitness struct {
	Network  *consensus.Network `json:"network"`
	State    stateDump          `json:"state"`
	ParentID string             `json:"headerParentID"`
	Nonce    uint64             `json:"headerNonce"`
	TS       int64              `json:"headerTimestampUnix"`
	Commit   string             `json:"headerCommitment"`
	HeaderID string             `json:"headerID"`
	Target   string             `json:"modelPoWTarget"`
	TwiceMed int64              `json:"modelTwiceMedianUnix"`
	Factor   uint64             `json:"modelNonceFactor"`
	Violated string             `json:"conditionsViolated"`
	Error    string             `json:"validateHeaderError"`
}

// validateHeaderCases builds, for state s (really mined at its target), headers
// that satisfy all four conditions (two timestamp variants: exactly the
// smallest permitted timestamp, and the history's next timestamp t) and headers
// that violate each condition singly (sometimes every combination), and checks
// ValidateHeader accepts iff none is violated. The four conditions are decided
// here from this check's own parent ID, median, nonce factor and target.
// It returns the nonce of the fully valid header with timestamp t.
func (r *runner) validateHeaderCases(s consensus.State, base types.BlockHeader, lastID types.BlockID, twiceMed, t int64, factor uint64, e era, nt netgen.Net, sub string) (uint64, bool) {
	b := r.b
	T := modelPoWTarget(s)
	if T.Sign() == 0 {
		return 0, false
	}
	var tb [32]byte
	T.FillBytes(tb[:])
	tries := new(big.Int).Mul(invFloor(T), big.NewInt(64))
	maxTries := int(tries.Int64()) + 4096
	meets := func(id types.BlockID) bool { return bytes.Compare(id[:], tb[:]) <= 0 }

	find := func(h *types.BlockHeader, nonceBad, workBad bool) bool {
		start := r.rng.Uint64N(1<<32) * factor
		if nonceBad {
			if factor == 1 {
				return false
			}
			start += 1 + r.rng.Uint64N(factor-1)
		}
		if workBad && T.Cmp(maxT) == 0 {
			return false
		}
		for i := 0; i < maxTries; i++ {
			h.Nonce = start + uint64(i)*factor
			if meets(h.ID()) != workBad {
				return true
			}
		}
		return false
	}
	minTS := minAllowedTS(twiceMed)
	masks := []int{0, badParent, badTime, badNonce, badWork}
	if r.rng.IntN(4) == 0 {
		masks = []int{0, 1, 2, 3, 4, 5, 6, 7, 8, 9, 10, 11, 12, 13, 14, 15}
	}
	var goodNonce uint64
	var haveGood bool
	for _, m := range masks {
		variants := []int64{t}
		if m&badTime != 0 {
			variants = []int64{minTS - 1}
		} else if m == 0 && minTS != t {
			variants = []int64{minTS, t}
		}
		for _, ts := range variants {
			h := base
			h.ParentID = lastID
			if m&badParent != 0 {
				h.ParentID[r.rng.IntN(32)] ^= 1 << r.rng.IntN(8)
			}
			h.Timestamp = time.Unix(ts, 0)
			if !find(&h, m&badNonce != 0, m&badWork != 0) {
				b.Count("validate_header_case_not_constructible", 1)
				continue
			}
			// the conditions, decided independently
			condOK := h.ParentID == lastID && tsPermitted(ts, twiceMed) && h.Nonce%factor == 0 && meets(h.ID())
			if condOK != (m == 0) {
				panic("c13: case construction is inconsistent")
			}
			w := func() any {
				return vhWitness{Network: s.Network, State: dump(s), ParentID: hexID(h.ParentID), Nonce: h.Nonce, TS: ts,
					Commit: fmt.Sprintf("%x", h.Commitment[:]), HeaderID: hexID(h.ID()), Target: fmt.Sprintf("%064x", T), TwiceMed: twiceMed, Factor: factor, Violated: maskName(m)}
			}
			var err error
			b.Eval(1)
			if b.Guard("C13/ValidateHeader", w, func() { err = consensus.ValidateHeader(s, h) }) {
				continue
			}
			verdict := "accept"
			if err != nil {
				verdict = "reject"
			}
			tsKind := "later"
			if ts == minTS {
				tsKind = "smallest-permitted"
				if twiceMed%2 == 0 {
					tsKind = "equals-median"
				}
			}
			b.Distinct("vh", nt.Family, e, m, factor, tsKind, prevCount(s.Index.Height), verdict)
			switch {
			case m == 0 && err != nil:
				ww := w().(vhWitness)
				ww.Error = err.Error()
				b.Violate("C13/ValidateHeader/rejects-valid/timestamp-"+tsKind, "a header extending the tip, not before the median, with admissible nonce and meeting the target was rejected: "+err.Error(), ww)
			case m == 0:
				b.Count("validate_header_accept", 1)
				if ts == minTS && twiceMed%2 == 0 {
					b.Count("validate_header_accept_timestamp_equals_median", 1)
				}
				if ts == t {
					goodNonce, haveGood = h.Nonce, true
				}
			case err == nil:
				b.Violate("C13/ValidateHeader/accepts/"+maskName(m), "accepted a header violating: "+maskName(m), w())
			default:
				if m&(m-1) == 0 {
					b.Count("validate_header_reject", 1)
					b.Count("validate_header_reject/"+maskName(m), 1)
				} else {
					b.Count("validate_header_reject_combination", 1)
				}
				b.SetAdd("validate_header_errors", err.Error())
			}
		}
	}
	return goodNonce, haveGood
}

// heavierPairs checks SufficientlyHeavierThan on all pairs of the states kept
// from one history and on pairs with states of earlier histories.
func (r *runner) heavierPairs(vis []visited) {
	b := r.b
	check := func(x, y visited) {
		var xy, yx bool
		w := func() any {
			return map[string]any{"a": dump(x.s), "b": dump(y.s), "networkA": x.s.Network, "networkB": y.s.Network}
		}
		if b.Guard("C13/SufficientlyHeavierThan", w, func() { xy = x.s.SufficientlyHeavierThan(y.s); yx = y.s.SufficientlyHeavierThan(x.s) }) {
			return
		}
		b.Eval(1)
		b.Count("heavier_pairs", 1)
		if xy && yx {
			b.Violate("C13/heavier/not-asymmetric", "each of two states is sufficiently heavier than the other", w())
		}
		if xy || yx {
			b.Count("heavier_pairs_related", 1)
		} else {
			b.Count("heavier_pairs_unrelated", 1)
		}
		// observation only: the documented 20% threshold
		if xy != modelHeavier(x.tw, y.tw, y.d) || yx != modelHeavier(y.tw, x.tw, x.d) {
			b.Count("heavier_differs_from_20_percent_model(observed, not judged)", 1)
		}
		b.Distinct("heavier", xy, yx, x.era, y.era, x.histID == y.histID, x.tw.Cmp(y.tw), x.d.BitLen()/32, y.d.BitLen()/32)
	}
	for i := range vis {
		for j := i; j < len(vis); j++ {
			check(vis[i], vis[j])
		}
		for k := 0; k < 6 && len(r.pool) > 0; k++ {
			check(vis[i], r.pool[r.rng.IntN(len(r.pool))])
		}
	}
	for _, v := range vis {
		if len(r.pool) < 400 {
			r.pool = append(r.pool, v)
		} else if r.rng.IntN(4) == 0 {
			r.pool[r.rng.IntN(len(r.pool))] = v
		}
	}
}
