package main

import (
	"fmt"
	"math/big"
	"time"

	"go.sia.tech/core/consensus"
	"go.sia.tech/core/types"
	"verif/internal/harness"
)

// Directed histories at the edge of the parameter space that the generated
// networks stay away from (the generators keep BlockInterval >= 1 s and
// FinalCutHeight >= AllowHeight so that ordinary histories can run at all).
// The quantifier of C13 does not exclude these parameters, so what happens
// there is judged here, on one fixed witness each.

func directedNet(interval time.Duration) *consensus.Network {
	n := &consensus.Network{Name: "c13-directed", InitialTarget: types.BlockID{0xFF}, BlockInterval: interval}
	n.HardforkOak.Height = 1000
	n.HardforkOak.FixHeight = 1100
	n.HardforkOak.GenesisTimestamp = time.Unix(1618033988, 0)
	n.HardforkASIC.Height = 1200
	n.HardforkASIC.OakTime = 10000 * time.Second
	n.HardforkASIC.OakTarget = n.InitialTarget
	n.HardforkASIC.NonceFactor = 1009
	n.HardforkV2.AllowHeight = 2000
	n.HardforkV2.RequireHeight = 3000
	n.HardforkV2.FinalCutHeight = 4000
	return n
}

func mineHeader(s consensus.State, ts time.Time) (types.BlockHeader, bool) {
	bh := types.BlockHeader{ParentID: s.Index.ID, Timestamp: ts}
	f := s.NonceFactor()
	if f == 0 {
		f = 1
	}
	for i := 0; i < 1<<22; i++ {
		if consensus.ValidateHeader(s, bh) == nil {
			return bh, true
		}
		bh.Nonce += f
	}
	return bh, false
}

func applyGuarded(s consensus.State, bh types.BlockHeader, target time.Time) (next consensus.State, panicked any) {
	defer func() { panicked = recover() }()
	return consensus.ApplyHeader(s, bh, target), nil
}

func directed(b *harness.B) {
	// (1) block interval below one second (the repository's own test network uses 10 ms), every header stamped
	// like the genesis block: legal under the median rule. The first pre-Oak retarget (height 500) divides 0 by 0.
	{
		n := directedNet(10 * time.Millisecond)
		g := n.HardforkOak.GenesisTimestamp
		s := consensus.ApplyHeader(n.GenesisState(), types.BlockHeader{Timestamp: g}, time.Time{})
		for s.Index.Height < 600 {
			bh, ok := mineHeader(s, g)
			if !ok {
				b.Inconclusive("directed sub-second history: no valid header found")
				break
			}
			next, p := applyGuarded(s, bh, g)
			b.Eval(1)
			if p != nil {
				b.Violate("C13/apply-header/panic/pre-oak-retarget/sub-second-block-interval-constant-timestamps",
					fmt.Sprintf("ApplyHeader panicked (%v) at height %d for a header accepted by ValidateHeader: BlockInterval %v, all timestamps equal", p, s.Index.Height+1, n.BlockInterval),
					map[string]any{"block_interval": n.BlockInterval.String(), "height": s.Index.Height + 1, "panic": fmt.Sprint(p)})
				break
			}
			s = next
		}
		b.Count("directed_sub_second_history_steps", int(s.Index.Height))
	}
	// (2) final-cut height below the v2 allow height (the fork heights of the repository's own TestValidateHeader)
	{
		n := directedNet(10 * time.Minute)
		n.HardforkV2.AllowHeight, n.HardforkV2.RequireHeight, n.HardforkV2.FinalCutHeight = 1000, 2000, 1
		g := n.HardforkOak.GenesisTimestamp
		s := consensus.ApplyHeader(n.GenesisState(), types.BlockHeader{Timestamp: g}, time.Time{})
		for s.Index.Height < 5 {
			var bh types.BlockHeader
			ok := false
			var vp any
			func() {
				defer func() { vp = recover() }()
				bh, ok = mineHeader(s, s.PrevTimestamps[0].Add(n.BlockInterval))
			}()
			b.Eval(1)
			if vp != nil {
				b.Violate("C13/apply-header/panic/final-cut-height-below-allow-height", fmt.Sprintf("ValidateHeader panicked (%v) at height %d", vp, s.Index.Height+1), map[string]any{"allow": 1000, "final_cut": 1, "panic": fmt.Sprint(vp)})
				break
			}
			if !ok {
				b.Inconclusive("directed final-cut history: no valid header found")
				break
			}
			next, p := applyGuarded(s, bh, g)
			if p != nil {
				b.Violate("C13/apply-header/panic/final-cut-height-below-allow-height",
					fmt.Sprintf("ApplyHeader panicked (%v) at height %d for a header accepted by ValidateHeader (AllowHeight 1000, FinalCutHeight 1)", p, s.Index.Height+1),
					map[string]any{"allow": 1000, "final_cut": 1, "height": s.Index.Height + 1, "panic": fmt.Sprint(p)})
				break
			}
			s = next
		}
	}
	// (3) the median of an even number of previous timestamps is computed with a time.Duration, which saturates at
	// about 292 years: with {G, G+1000y} the median is G+500y, yet a header stamped G+200y passes.
	{
		n := directedNet(10 * time.Minute)
		const year = 365 * 24 * 3600
		g := n.HardforkOak.GenesisTimestamp
		s := consensus.ApplyHeader(n.GenesisState(), types.BlockHeader{Timestamp: g}, time.Time{})
		b1, ok := mineHeader(s, g.Add(0).Add(time.Duration(0)).AddDate(1000, 0, 0))
		if !ok {
			b.Inconclusive("directed far-future history: the far-future header is not accepted")
		} else {
			s1, p := applyGuarded(s, b1, g)
			if p == nil {
				old := types.BlockHeader{ParentID: s1.Index.ID, Timestamp: time.Unix(g.Unix()+200*year, 0)}
				f := s1.NonceFactor()
				accepted := false
				for i := 0; i < 1<<20 && !accepted; i++ {
					accepted = consensus.ValidateHeader(s1, old) == nil
					old.Nonce += f
				}
				b.Eval(1)
				b.Count("directed_far_future_median_cases", 1)
				if accepted {
					b.Violate("C13/ValidateHeader/accepts/timestamp-before-median/even-window-spanning-more-than-292-years",
						"previous timestamps {G, G+1000y} (median G+500y): a header stamped G+200y is accepted",
						map[string]any{"prev": []string{g.String(), b1.Timestamp.String()}, "header_timestamp": time.Unix(g.Unix()+200*year, 0).String()})
				}
			}
		}
	}
	// (4) a network of very low difficulty (InitialTarget 0x90.., difficulty 1): at the v2 allow height the target is
	// re-derived as floor(2^256 / Difficulty) from a difficulty that is itself a floor; below a difficulty of 250 the
	// two floors dominate the 0.4 % clamp.
	{
		n := directedNet(10 * time.Minute)
		n.InitialTarget = types.BlockID{0x90}
		n.HardforkOak.Height, n.HardforkOak.FixHeight = 0, 0
		n.HardforkASIC.Height, n.HardforkASIC.NonceFactor, n.HardforkASIC.OakTarget = 0, 1, n.InitialTarget
		n.HardforkV2.AllowHeight, n.HardforkV2.RequireHeight, n.HardforkV2.FinalCutHeight = 5, 100, 1000
		g := n.HardforkOak.GenesisTimestamp
		s := consensus.ApplyHeader(n.GenesisState(), types.BlockHeader{Timestamp: g}, time.Time{})
		toInt := func(t types.BlockID) *big.Int { return new(big.Int).SetBytes(t[:]) }
		for s.Index.Height < 8 {
			bh, ok := mineHeader(s, g.Add(time.Duration(s.Index.Height+1)*n.BlockInterval))
			if !ok {
				b.Inconclusive("directed low-difficulty history: no valid header found")
				break
			}
			next, p := applyGuarded(s, bh, g)
			if p != nil {
				b.Inconclusive(fmt.Sprintf("directed low-difficulty history: ApplyHeader panicked: %v", p))
				break
			}
			b.Eval(1)
			b.Count("directed_low_difficulty_steps", 1)
			// required work ~ 2^256/target: its change factor is old target / new target
			oldT, newT := new(big.Float).SetInt(toInt(s.PoWTarget())), new(big.Float).SetInt(toInt(next.PoWTarget()))
			ratio, _ := new(big.Float).Quo(newT, oldT).Float64()
			if ratio > 1.0041 || ratio < 1/1.0041 {
				b.Violate("C13/clamp/v2-transition/low-difficulty-network/target-outside-0.4-percent",
					fmt.Sprintf("on schedule, the proof-of-work target moves by a factor of %.3f in the block at height %d (v2 allow height %d) of a network with InitialTarget 0x90..: recorded difficulty %v -> %v", ratio, next.Index.Height, n.HardforkV2.AllowHeight, s.Difficulty, next.Difficulty),
					map[string]any{"height": next.Index.Height, "factor": ratio})
				break
			}
			s = next
		}
	}
	// (5) the ASIC hardfork inside the v2 window, with a reset time below one second (a fast development network that
	// scales the reset to its block time): the reset installs the only sub-second OakTime there is, and the v2
	// retarget divides by OakTime in whole seconds. Headers on schedule from genesis past the reset: applying an
	// accepted header never fails.
	for _, oak := range []time.Duration{400 * time.Millisecond, 999 * time.Millisecond, time.Nanosecond} {
		n := directedNet(10 * time.Minute)
		n.HardforkOak.Height, n.HardforkOak.FixHeight = 2, 3
		n.HardforkV2.AllowHeight, n.HardforkV2.RequireHeight, n.HardforkV2.FinalCutHeight = 5, 30, 40
		n.HardforkASIC.Height, n.HardforkASIC.OakTime, n.HardforkASIC.NonceFactor = 9, oak, 1
		g := n.HardforkOak.GenesisTimestamp
		s := consensus.ApplyHeader(n.GenesisState(), types.BlockHeader{Timestamp: g}, time.Time{})
		for s.Index.Height < 14 {
			bh, ok := mineHeader(s, g.Add(time.Duration(s.Index.Height+1)*n.BlockInterval))
			if !ok {
				b.Inconclusive("directed ASIC-reset-in-the-v2-window history: no valid header found")
				break
			}
			next, p := applyGuarded(s, bh, g)
			b.Eval(1)
			b.Count("directed_asic_reset_in_the_v2_window_steps", 1)
			b.Distinct("directed", "asic-reset-in-v2-window", oak, next.Index.Height)
			if p != nil {
				b.Violate("C13/ApplyHeader/asic-reset-in-the-v2-window/panic", fmt.Sprintf("with the ASIC hardfork at height %d inside the v2 window and a reset time of %v, applying the accepted header of height %d panicked: %v", n.HardforkASIC.Height, oak, s.Index.Height+1, p), map[string]any{"height": s.Index.Height + 1, "oak_time": oak.String()})
				break
			}
			s = next
		}
	}
}
