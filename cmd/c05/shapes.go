package main

import (
	"fmt"
	"math/bits"

	"go.sia.tech/core/consensus"
	"go.sia.tech/core/types"
	"verif/internal/chaingen"
	"verif/internal/chainmon"
	"verif/internal/harness"
)

// shapeNet: v2 from genesis, no maturity delay, no subsidy, anyone-can-spend
// outputs, so blocks need no signatures and every output is spendable in the
// next block.
func shapeNet() *chaingen.Net {
	n := chaingen.BaseNet("shapes")
	n.MaturityDelay = 0
	n.HardforkFoundation.PrimaryAddress = types.VoidAddress
	n.HardforkFoundation.FailsafeAddress = types.VoidAddress
	// all fork heights 0 (v2 allowed and required from genesis)
	return &chaingen.Net{Name: "shapes", Family: "shapes", N: n}
}

type shaper struct {
	b    *harness.B
	c    *chaingen.Chain
	mon  *chainmon.ForestMon
	addr types.Address
	pol  types.SpendPolicy
}

func newShaper(b *harness.B, genesisOutputs int) *shaper {
	net := shapeNet()
	pol := types.AnyoneCanSpend()
	addr := pol.Address()
	var outs []types.SiacoinOutput
	for i := 0; i < genesisOutputs; i++ {
		outs = append(outs, types.SiacoinOutput{Value: types.Siacoins(1000), Address: addr})
	}
	g := types.Block{Timestamp: chaingen.GenesisTime(), V2: &types.V2BlockData{Height: 0}}
	if len(outs) > 0 {
		g.V2.Transactions = []types.V2Transaction{{SiacoinOutputs: outs}}
	}
	s := &shaper{b: b, addr: addr, pol: pol}
	s.c = chaingen.NewBareChain(net, g, b.SubRng("shapes"))
	s.mon = chainmon.NewForestMon("C05", b)
	s.mon.OnApply(s.c.GenesisEvent)
	s.c.OnStoreApplied = func(ev chaingen.ApplyEvent) {
		s.mon.OnApply(ev)
		s.mon.CheckStore(s.c.S, ev.Next, "after-apply")
		b.Eval(1)
	}
	s.c.OnStoreReverted = func(ev chaingen.RevertEvent) {
		s.mon.OnRevert(ev)
		s.mon.CheckStore(s.c.S, ev.Prev, "after-revert")
		b.Eval(1)
	}
	return s
}

// spendable lists the unspent, mature siacoin outputs in deterministic order.
func (s *shaper) spendable() []types.SiacoinElement {
	h := s.c.Height() + 1
	var out []types.SiacoinElement
	for _, id := range s.c.S.OrderedSC() {
		e := s.c.S.SCEs[id]
		if e.MaturityHeight <= h && e.SiacoinOutput.Address == s.addr {
			out = append(out, e.Copy()) // deep copy: the store updates proofs in place
		}
	}
	return out
}

// block builds a block spending the given elements and creating `added` outputs.
func (s *shaper) block(spend []types.SiacoinElement, added int) (types.Block, bool) {
	cs := s.c.Tip()
	b := types.Block{ParentID: cs.Index.ID, Timestamp: cs.PrevTimestamps[0].Add(cs.Network.BlockInterval), V2: &types.V2BlockData{}}
	if len(spend) > 0 {
		var txn types.V2Transaction
		var total types.Currency
		for _, e := range spend {
			txn.SiacoinInputs = append(txn.SiacoinInputs, types.V2SiacoinInput{Parent: e.Copy(), SatisfiedPolicy: types.SatisfiedPolicy{Policy: s.pol}})
			total = total.Add(e.SiacoinOutput.Value)
		}
		if added > 0 {
			per := total.Div64(uint64(added) + 1)
			if per.IsZero() {
				return b, false
			}
			for i := 0; i < added; i++ {
				txn.SiacoinOutputs = append(txn.SiacoinOutputs, types.SiacoinOutput{Value: per, Address: s.addr})
				total = total.Sub(per)
			}
		}
		txn.MinerFee = total
		b.V2.Transactions = []types.V2Transaction{txn}
	} else if added > 0 {
		return b, false
	}
	if err := s.c.Seal(cs, &b, s.addr, 1, nil); err != nil {
		s.b.Inconclusive("shape enumerator: " + err.Error())
		return b, false
	}
	return b, true
}

// try applies, reverts and re-applies one case on the current tip; the chain is
// left as it was.
func (s *shaper) try(spend []types.SiacoinElement, added int, keep bool) bool {
	b, ok := s.block(spend, added)
	if !ok {
		return false
	}
	n0 := s.c.Tip().Elements.NumLeaves
	if err := s.c.Offer(b, consensus.V1BlockSupplement{}, []string{"shape"}); err != nil {
		dbg := ""
		for _, e := range spend {
			dbg += fmt.Sprintf("[leaf %d mat %d prooflen %d val %v] ", e.StateElement.LeafIndex, e.MaturityHeight, len(e.StateElement.MerkleProof), e.SiacoinOutput.Value)
		}
		s.b.Violate("C05/shape/valid-block-rejected", fmt.Sprintf("enumerator block (spend %d, add %d) at n=%d height=%d rejected: %v %s", len(spend), added, n0, s.c.Height(), err, dbg), nil)
		return false
	}
	st1 := s.c.Tip()
	s.b.Count("shape_cases", 1)
	s.b.Distinct("shape", n0, spendMask(spend), added)
	s.c.RevertTip()
	// re-apply must give the same accumulator
	if err := s.c.Offer(b, consensus.V1BlockSupplement{}, []string{"shape"}); err != nil {
		s.b.Violate("C05/shape/reapply-rejected", fmt.Sprintf("re-apply after revert rejected: %v", err), nil)
		return false
	}
	if st2 := s.c.Tip(); st2.Elements != st1.Elements {
		s.b.Violate("C05/shape/reapply-differs", "accumulator after apply-revert-apply differs from the first apply", nil)
	}
	if !keep {
		s.c.RevertTip()
	}
	return true
}

func spendMask(spend []types.SiacoinElement) string {
	// the set of leaf indices, as a compact string
	m := ""
	for _, e := range spend {
		m += fmt.Sprintf("%d,", e.StateElement.LeafIndex)
	}
	return m
}

func runShapes(b *harness.B) {
	maxSubsetLeaves := uint64(b.Pick(9, 13)) // accumulators up to this many leaves: all subsets
	maxAdded := b.Pick(6, 8)
	exhN := b.Pick(24, 44)

	seenN := map[uint64]bool{}
	// 1. exhaustive subsets on small accumulators, from several genesis sizes (parities and bit patterns)
	for g := 0; g <= 5; g++ {
		s := newShaper(b, g)
		for steps := 0; steps < 6; steps++ {
			n := s.c.Tip().Elements.NumLeaves
			seenN[n] = true
			if n > maxSubsetLeaves {
				break
			}
			sp := s.spendable()
			if len(sp) > 10 {
				sp = sp[:10]
			}
			for mask := 0; mask < 1<<len(sp); mask++ {
				var sub []types.SiacoinElement
				for i := range sp {
					if mask&(1<<i) != 0 {
						sub = append(sub, sp[i])
					}
				}
				for a := 0; a <= maxAdded; a++ {
					if s.try(sub, a, false) {
						b.Count("shape_exhaustive_cases", 1)
					}
				}
			}
			// advance the base by a small block (alternating shapes) to reach another leaf count
			sp = s.spendable()
			var sub []types.SiacoinElement
			if len(sp) > 0 && steps%2 == 0 {
				sub = sp[:1]
			}
			add := 0
			if len(sub) > 0 {
				add = 1 + steps%2
			}
			if !s.try(sub, add, true) {
				break
			}
		}
	}
	// 2. every leaf count up to exhN and around powers of two, with random subsets, plus apply/revert interleavings
	rng := b.SubRng("shapes2")
	for g := 0; g <= 2; g++ {
		s := newShaper(b, g)
		limit := uint64(b.Pick(1<<9, 1<<12)) + 6
		for s.c.Tip().Elements.NumLeaves < limit {
			n := s.c.Tip().Elements.NumLeaves
			seenN[n] = true
			sp := s.spendable()
			// random subset
			var sub []types.SiacoinElement
			for _, e := range sp {
				if rng.IntN(4) == 0 && len(sub) < 12 {
					sub = append(sub, e)
				}
			}
			// choose how many to add: small steps near interesting sizes, big jumps otherwise
			next := uint64(1) << bits.Len64(n)
			add := 0
			nearPow := next-n <= 8 || n-(next>>1) <= 8
			if len(sub) == 0 && len(sp) > 0 {
				sub = sp[:1]
			}
			if len(sub) > 0 {
				switch {
				case n < uint64(exhN) || nearPow:
					add = rng.IntN(2)
				default:
					room := int(next - n)
					add = room - 8
					if add > 120 {
						add = 120
					}
					if add < 0 {
						add = 0
					}
				}
			}
			if n < uint64(exhN) || nearPow {
				// depth-<=4 apply/revert interleaving at interesting sizes
				if !s.try(sub, add, true) {
					break
				}
				d := 1 + rng.IntN(3)
				applied := 0
				for i := 0; i < d; i++ {
					sp2 := s.spendable()
					var sub2 []types.SiacoinElement
					if len(sp2) > 0 {
						sub2 = sp2[:1+rng.IntN(min(len(sp2), 3))]
					}
					if blk, ok := s.block(sub2, rng.IntN(3)); ok && s.c.Offer(blk, consensus.V1BlockSupplement{}, []string{"shape"}) == nil {
						applied++
					}
				}
				for i := 0; i < applied; i++ {
					s.c.RevertTip()
				}
				b.Count("shape_interleavings", 1)
			} else if !s.try(sub, add, true) {
				break
			}
		}
	}
	covered := 0
	for n := uint64(1); n <= uint64(exhN); n++ {
		if seenN[n] {
			covered++
		} else {
			b.Count("shape_leafcounts_not_reached", 1)
		}
	}
	b.Count("shape_leafcounts_1_to_bound_covered", covered)
	b.MaxOf("shape_leafcount_bound", int64(exhN))
	pow := 0
	for k := 3; k <= 12; k++ {
		if seenN[1<<k] || seenN[1<<k-1] || seenN[1<<k+1] {
			pow++
		}
	}
	b.Count("shape_powers_of_two_crossed", pow)
	b.Sample(map[string]any{"kind": "shape enumerator", "all_subsets_up_to_leaves": maxSubsetLeaves, "added_outputs_0_to": maxAdded, "leafcounts_covered_1_to": exhN})
}
