package main

import (
	"fmt"
	"math/bits"
	"reflect"

	"go.sia.tech/core/consensus"
	"go.sia.tech/core/types"
	"verif/internal/chaingen"
	"verif/internal/elems"
	"verif/internal/harness"
	"verif/internal/refmodel"
)

// runHighBits: leaf counts with arbitrary high bits set (including bit 63) cannot be
// reached by applying blocks, so the accumulator is fabricated through its exported
// fields: one small complete tree (height k, the lowest set bit of the leaf count)
// holds real siacoin elements with naive proofs, every other tree is an opaque root.
// A block spends a subset of the real elements and adds outputs; it is applied and
// reverted; every reported and every tracked element must verify against the
// resulting accumulator (independent membership test + the library's own), and the
// revert must give the tracked proofs back.
func runHighBits(b *harness.B) {
	rng := b.SubRng("highbits")
	net := shapeNet()
	pol := types.AnyoneCanSpend()
	addr := pol.Address()
	g := types.Block{Timestamp: chaingen.GenesisTime(), V2: &types.V2BlockData{Height: 0}}
	c := chaingen.NewBareChain(net, g, rng)
	base := c.Tip()
	iters := b.Pick(400, 4000)
	for it := 0; it < iters; it++ {
		k := 1 + rng.IntN(4)
		hi := rng.Uint64() &^ (1<<(k+1) - 1)
		switch it % 5 {
		case 0:
			hi |= 1 << 63
		case 1:
			hi &^= 1 << 63
		case 2:
			hi = 1 << 63 // only the top tree besides the small one
		case 3:
			// a run of ones above the small tree: the leaves added by the block complete it and the merge cascades
			// through every tree of the run (up to heights far beyond 32)
			k = 1 + rng.IntN(2)
			top := 20 + rng.IntN(42)
			hi = rng.Uint64()&^(1<<(top+2)-1) | (1<<(top+1)-1)&^(1<<(k+1)-1)
		}
		hi &^= 1 << 62 // keep the count far from 2^64 so that added leaves cannot overflow it
		numLeaves := hi | 1<<k
		// directed: leaf counts at which a leaf added by the block receives the index types.UnassignedLeafIndex
		// (10101010101010101010 < 2^64 is a legal position)
		sentinel := ""
		switch it {
		case 7:
			k, numLeaves, sentinel = 1, types.UnassignedLeafIndex, "/leaf-index-equal-to-the-unassigned-sentinel"
		case 8:
			k, numLeaves, sentinel = 4, types.UnassignedLeafIndex-2, "/leaf-index-equal-to-the-unassigned-sentinel"
		}
		hi = numLeaves &^ (1 << k)
		m := 1 << k
		start := hi
		leafHashes := make([]refmodel.Hash, m)
		var real []types.SiacoinElement
		realAt := map[int]int{}
		for j := 0; j < m; j++ {
			if sentinel == "" && rng.IntN(4) == 0 && !(j == m-1 && len(real) < 2) {
				leafHashes[j] = refmodel.Hash{0xA0, byte(j), byte(it)}
				continue
			}
			var id types.SiacoinOutputID
			id[0], id[1], id[2], id[3] = 0x5C, byte(j), byte(it), byte(it>>8)
			e := types.SiacoinElement{ID: id, StateElement: types.StateElement{LeafIndex: start + uint64(j)}, SiacoinOutput: types.SiacoinOutput{Value: types.Siacoins(uint32(10 + j)), Address: addr}}
			leafHashes[j] = refmodel.ElementLeafHash(elems.Siacoin(e), e.StateElement.LeafIndex, false)
			realAt[j] = len(real)
			real = append(real, e)
		}
		if len(real) < 2 {
			continue
		}
		for j, ri := range realAt {
			for _, h := range refmodel.Proof(leafHashes, j) {
				real[ri].StateElement.MerkleProof = append(real[ri].StateElement.MerkleProof, types.Hash256(h))
			}
		}
		acc := consensus.ElementAccumulator{NumLeaves: numLeaves}
		acc.Trees[k] = types.Hash256(refmodel.Root(leafHashes))
		for bit := k + 1; bit < 64; bit++ {
			if hi&(1<<bit) != 0 {
				acc.Trees[bit] = types.Hash256{0xBB, byte(bit), byte(it)}
			}
		}
		cs := base
		cs.Elements = acc
		wit := map[string]any{"num_leaves": fmt.Sprintf("%#x", numLeaves), "small_tree_height": k, "real_elements": len(real)}
		okSetup := true
		for _, e := range real {
			if cs.Elements.ValidateTransactionElements(types.V2Transaction{SiacoinInputs: []types.V2SiacoinInput{{Parent: e.Copy()}}}) != nil {
				okSetup = false
			}
		}
		if !okSetup {
			b.Inconclusive("fabricated high-bit accumulator: the library does not accept the fabricated elements")
			continue
		}
		// the block: spend a subset (at least one, often several of the same tree), add outputs
		var spend []types.SiacoinElement
		spentIdx := map[int]bool{}
		for ri := range real {
			if rng.IntN(2) == 0 {
				spend = append(spend, real[ri].Copy())
				spentIdx[ri] = true
			}
		}
		if len(spend) == 0 {
			spend = append(spend, real[0].Copy())
			spentIdx[0] = true
		}
		added := 1 + rng.IntN(6)
		var total types.Currency
		txn := types.V2Transaction{}
		for _, e := range spend {
			txn.SiacoinInputs = append(txn.SiacoinInputs, types.V2SiacoinInput{Parent: e, SatisfiedPolicy: types.SatisfiedPolicy{Policy: pol}})
			total = total.Add(e.SiacoinOutput.Value)
		}
		per := total.Div64(uint64(added))
		for i := 0; i < added; i++ {
			v := per
			if i == added-1 {
				v = total.Sub(per.Mul64(uint64(added - 1)))
			}
			txn.SiacoinOutputs = append(txn.SiacoinOutputs, types.SiacoinOutput{Value: v, Address: addr})
		}
		blk := types.Block{ParentID: cs.Index.ID, Timestamp: cs.PrevTimestamps[0].Add(net.N.BlockInterval), V2: &types.V2BlockData{Transactions: []types.V2Transaction{txn}}}
		if err := c.Seal(cs, &blk, types.VoidAddress, 1, nil); err != nil {
			b.Inconclusive("fabricated high-bit accumulator: block could not be sealed")
			continue
		}
		bs := consensus.V1BlockSupplement{}
		if err := consensus.ValidateBlock(cs, blk, bs); err != nil {
			b.Inconclusive("fabricated high-bit accumulator: block rejected: " + chaingen.NormErr(err))
			continue
		}
		b.Eval(1)
		b.Count("high_bit_cases", 1)
		if sentinel != "" {
			b.Count("high_bit_cases_reaching_the_unassigned_sentinel_index", 1)
		}
		b.Distinct("highbits", k, numLeaves>>63, min(bits.OnesCount64(numLeaves), 8), min(len(spend), 4), added)
		var next consensus.State
		var au consensus.ApplyUpdate
		if b.Guard("C05/high-leaf-count/ApplyBlock", func() any { return wit }, func() {
			next, au = consensus.ApplyBlock(cs, blk, bs, chaingen.GenesisTime())
		}) {
			continue
		}
		if next.Elements.NumLeaves != numLeaves+uint64(added)+2 && next.Elements.NumLeaves < numLeaves+uint64(added) {
			b.Violate("C05/high-leaf-count/leaf-count", fmt.Sprintf("leaf count %#x after adding at least %d leaves to %#x", next.Elements.NumLeaves, added, numLeaves), wit)
		}
		for _, d := range au.SiacoinElementDiffs() {
			e := d.SiacoinElement
			if !elems.Member(next.Elements, elems.Siacoin(e), e.StateElement, d.Spent) {
				b.Violate("C05/high-leaf-count/reported-element-does-not-verify", fmt.Sprintf("siacoin element at leaf %#x (created=%v spent=%v) reported by the update does not verify against the new accumulator", e.StateElement.LeafIndex, d.Created, d.Spent), wit)
			}
			b.Count("high_bit_reported_elements_verified", 1)
		}
		cie := au.ChainIndexElement()
		if !elems.Member(next.Elements, elems.ChainIndex(cie.ID, cie.ChainIndex), cie.StateElement, false) {
			b.Violate("C05/high-leaf-count/chain-index-does-not-verify", "the chain index element of the block does not verify against the new accumulator", wit)
		}
		// bystanders
		type tracked struct {
			e      types.SiacoinElement
			before types.StateElement
		}
		var by []tracked
		for ri := range real {
			if spentIdx[ri] {
				continue
			}
			t := tracked{e: real[ri].Copy(), before: real[ri].StateElement.Copy()}
			au.UpdateElementProof(&t.e.StateElement)
			if !elems.Member(next.Elements, elems.Siacoin(t.e), t.e.StateElement, false) || next.Elements.ValidateTransactionElements(types.V2Transaction{SiacoinInputs: []types.V2SiacoinInput{{Parent: t.e.Copy()}}}) != nil {
				b.Violate("C05/high-leaf-count/tracked-element-does-not-verify/after-apply", fmt.Sprintf("untouched element at leaf %#x does not verify after UpdateElementProof", t.e.StateElement.LeafIndex), wit)
			}
			by = append(by, t)
			b.Count("high_bit_tracked_elements_verified", 1)
		}
		// a second, empty block: the elements the first block created are brought up to date like any other
		blk2 := types.Block{ParentID: next.Index.ID, Timestamp: next.PrevTimestamps[0].Add(net.N.BlockInterval), V2: &types.V2BlockData{}}
		if c.Seal(next, &blk2, types.VoidAddress, 1, nil) == nil && consensus.ValidateBlock(next, blk2, bs) == nil {
			var next2 consensus.State
			var au2 consensus.ApplyUpdate
			if !b.Guard("C05/high-leaf-count"+sentinel+"/ApplyBlock-of-the-next-block", func() any { return wit }, func() {
				next2, au2 = consensus.ApplyBlock(next, blk2, bs, chaingen.GenesisTime())
			}) {
				for _, d := range au.SiacoinElementDiffs() {
					if !d.Created || d.Spent {
						continue
					}
					e := d.SiacoinElement.Copy()
					if b.Guard("C05/high-leaf-count"+sentinel+"/UpdateElementProof-of-a-created-element", func() any { return wit }, func() { au2.UpdateElementProof(&e.StateElement) }) {
						break
					}
					if !elems.Member(next2.Elements, elems.Siacoin(e), e.StateElement, false) {
						b.Violate("C05/high-leaf-count"+sentinel+"/created-element-does-not-verify/one-block-later", fmt.Sprintf("siacoin element created at leaf %#x does not verify one block later after UpdateElementProof", e.StateElement.LeafIndex), wit)
					}
					b.Count("high_bit_created_elements_verified_one_block_later", 1)
				}
			}
		}
		var ru consensus.RevertUpdate
		if b.Guard("C05/high-leaf-count/RevertBlock", func() any { return wit }, func() {
			ru = consensus.RevertBlock(cs, blk, bs)
		}) {
			continue
		}
		for _, t := range by {
			se := t.e.StateElement.Copy()
			ru.UpdateElementProof(&se)
			if !reflect.DeepEqual(se.MerkleProof, t.before.MerkleProof) && !(len(se.MerkleProof) == 0 && len(t.before.MerkleProof) == 0) {
				b.Violate("C05/high-leaf-count/tracked-proof-not-restored/after-revert", fmt.Sprintf("element at leaf %#x: proof after apply+revert differs from the proof before", se.LeafIndex), wit)
			}
		}
		for _, d := range ru.SiacoinElementDiffs() {
			if d.Spent && !d.Created {
				e := d.SiacoinElement
				if !elems.Member(cs.Elements, elems.Siacoin(e), e.StateElement, false) {
					b.Violate("C05/high-leaf-count/reverted-element-does-not-verify", fmt.Sprintf("element at leaf %#x restored by the revert does not verify (unspent) against the parent accumulator", e.StateElement.LeafIndex), wit)
				}
			}
		}
	}
}

var _ = harness.Main
