// C05 — element proofs survive every apply/revert; the accumulator equals the
// naive Merkle forest.
//
// Workload A (batches >= 1): chaingen histories over every network family with
// reorg schedules; the ForestMon monitor rebuilds the forest naively from the
// diff stream and, after every apply and every revert, compares roots, leaf
// count, reported tree nodes and EVERY proof held by the client store (kept up
// to date only through UpdateElementProof) with the naive paths.
// Workload B (batch 0): the shape enumerator — real blocks on a signature-free
// network driving the leaf count through every small value and, for small
// accumulators, every subset of updated leaves x every number of added leaves,
// each followed by revert and re-apply.
package main

import (
	"encoding/json"
	"fmt"
	"go.sia.tech/core/consensus"
	"math/rand/v2"
	"reflect"
	"strconv"

	"go.sia.tech/core/types"
	"verif/internal/chaingen"
	"verif/internal/chainmon"
	"verif/internal/elems"
	"verif/internal/harness"
)

func runHistories(b *harness.B) {
	nNets := b.Pick(3, 10)
	blocks := b.Pick(150, 500)
	for i := 0; i < nNets; i++ {
		fam := chaingen.Families[(b.Batch+i)%len(chaingen.Families)]
		if b.Batch%4 == 2 && i == 0 {
			fam = "legacywin" // long window in which in-block siafund parents (with whatever proof a relayer attached) are legal
		}
		rng := b.SubRng(fmt.Sprint("net", i))
		net := chaingen.GenNet(rng, fam, b.Batch*100+i)
		c := chaingen.NewChain(net, rng)
		mon := chainmon.NewForestMon("C05", b)
		spent := newSpentTracker(b, c, mon)
		mon.OnApply(c.GenesisEvent)
		// a client that receives its updates in their JSON form: before the store applies a block, a sample of the
		// proofs it holds is brought up to date once with the update and once with the update's JSON round trip
		c.OnApply = func(ev chaingen.ApplyEvent) {
			if ev.Next.Index.Height%3 != 0 {
				return
			}
			js, err := json.Marshal(ev.AU)
			var au2 consensus.ApplyUpdate
			if err != nil || json.Unmarshal(js, &au2) != nil {
				b.Violate("C05/update-json/does-not-round-trip", "an ApplyUpdate does not survive its own JSON form", nil)
				return
			}
			n := 0
			for _, id := range c.S.OrderedSC() {
				if n >= 8 {
					break
				}
				e := c.S.SCEs[id]
				touched := false
				for _, d := range ev.AU.SiacoinElementDiffs() {
					touched = touched || d.SiacoinElement.ID == id
				}
				if touched {
					continue
				}
				n++
				s1, s2 := e.StateElement.Copy(), e.StateElement.Copy()
				ev.AU.UpdateElementProof(&s1)
				au2.UpdateElementProof(&s2)
				b.Count("proofs_updated_from_the_json_form_of_an_update", 1)
				if !reflect.DeepEqual(s1.MerkleProof, s2.MerkleProof) && (len(s1.MerkleProof) > 0 || len(s2.MerkleProof) > 0) {
					b.Violate("C05/update-json/proof-updated-from-json-differs", fmt.Sprintf("element at leaf %d: UpdateElementProof with the JSON round trip of the update of height %d gives another proof than with the update itself", s1.LeafIndex, ev.Next.Index.Height), map[string]any{"height": ev.Next.Index.Height, "kinds": ev.Kinds})
					break
				}
			}
		}
		// a client that OWNS the elements it is handed: the created elements of an update are taken over with Move()
		// (no copy - the update is not used again) and kept current in place with UpdateElementProof. Each stays a
		// proof of its own element whatever happens to the elements that were created beside it.
		type ownedSC struct {
			e  types.SiacoinElement
			at uint64
		}
		var owned []*ownedSC
		ownedGone := map[types.SiacoinOutputID]bool{}
		checkOwned := func(cs consensus.State, when string) {
			for _, o := range owned {
				if ownedGone[o.e.ID] {
					continue
				}
				b.Count("owned_elements_verified", 1)
				if !elems.Member(cs.Elements, elems.Siacoin(o.e), o.e.StateElement, false) {
					b.Violate("C05/proof/siacoin/owned-element-does-not-verify/"+when, fmt.Sprintf("an element taken over with Move() from the update that created it (height %d, leaf %d) and kept current in place no longer verifies %s at height %d", o.at, o.e.StateElement.LeafIndex, when, cs.Index.Height), map[string]any{"height": cs.Index.Height, "created_at": o.at, "leaf": o.e.StateElement.LeafIndex})
					owned = nil
					return
				}
			}
		}
		c.OnStoreApplied = func(ev chaingen.ApplyEvent) {
			if len(ev.Kinds) >= 3 {
				b.Sample(chaingen.DescribeBlock(ev.Prev, ev.Block, ev.Kinds))
			}
			mon.OnApply(ev)
			mon.CheckStore(c.S, ev.Next, "after-apply")
			spent.onApply(ev)
			for _, o := range owned {
				ev.AU.UpdateElementProof(&o.e.StateElement)
			}
			for _, d := range ev.AU.SiacoinElementDiffs() {
				switch {
				case d.Spent && !d.Created:
					ownedGone[d.SiacoinElement.ID] = true
				case d.Created && !d.Spent:
					owned = append(owned, &ownedSC{d.SiacoinElement.Move(), ev.Next.Index.Height})
				}
			}
			if len(owned) > 96 {
				owned = owned[len(owned)-96:]
			}
			checkOwned(ev.Next, "after-apply")
			b.Eval(1)
			b.Count("blocks_applied", 1)
			b.SetAdd("eras", chaingen.Era(net.N, ev.Next.Index.Height))
			for _, k := range ev.Kinds {
				b.SetAdd("kinds", k)
			}
		}
		c.OnStoreReverted = func(ev chaingen.RevertEvent) {
			mon.OnRevert(ev)
			mon.CheckStore(c.S, ev.Prev, "after-revert")
			spent.onRevert(ev)
			// the owning client: elements created by the reverted block are gone, the others are walked back
			keep := owned[:0]
			for _, o := range owned {
				if o.at >= ev.Reverted.Index.Height {
					continue
				}
				ev.RU.UpdateElementProof(&o.e.StateElement)
				keep = append(keep, o)
			}
			owned = keep
			for _, d := range ev.RU.SiacoinElementDiffs() {
				if d.Spent && !d.Created {
					delete(ownedGone, d.SiacoinElement.ID)
				}
			}
			checkOwned(ev.Prev, "after-revert")
			b.Eval(1)
			b.Count("blocks_reverted", 1)
		}
		mon.CheckStore(c.S, c.Tip(), "after-genesis")
		for done := 0; done < blocks; {
			n := 1 + rng.IntN(12)
			done += c.Grow(n, chaingen.Plan{MaxTxns: 6, TimeMode: []string{"schedule", "jitter", "fast", "slow"}[rng.IntN(4)]})
			if c.Height() > 2 && rng.IntN(3) == 0 {
				depth := 1 + rng.IntN(6)
				if rng.IntN(10) == 0 {
					depth = int(c.Height()) // whole chain
				}
				if uint64(depth) > c.Height() {
					depth = int(c.Height())
				}
				b.MaxOf("max_reorg_depth", int64(depth))
				for r := 0; r < depth; r++ {
					c.RevertTip()
				}
				b.Distinct("reorg", fam, depth)
			}
		}
		for k, v := range c.Stats {
			if len(k) > 12 && k[:12] == "gen_rejected" {
				b.Count("generator_library_disagreement:"+k, v)
			}
			if k == "ephemeral_parent_with_attached_proof" || k == "ephemeral_siafund_parent_with_attached_proof" {
				b.Count(k, v)
			}
		}
		if i == 0 {
			b.Sample(map[string]any{"network": net.Name, "family": fam, "final_height": c.Height(), "leaves": c.Tip().Elements.NumLeaves, "tracked_elements": len(c.S.SCEs) + len(c.S.SFEs) + len(c.S.FCEs) + len(c.S.V2FCEs) + len(c.S.CIEs)})
		}
	}
}

// spentTracker keeps proofs of SPENT elements alive through the store's Extra
// list and checks they keep verifying as spent (C05: "reflects the element's
// current spent or unspent status").
type spentTracker struct {
	b   *harness.B
	c   *chaingen.Chain
	mon *chainmon.ForestMon
	sc  []*trackedSC
}

type trackedSC struct {
	e       types.SiacoinElement
	x       *chaingen.ExtraElem
	spentAt uint64
}

func newSpentTracker(b *harness.B, c *chaingen.Chain, mon *chainmon.ForestMon) *spentTracker {
	return &spentTracker{b: b, c: c, mon: mon}
}

func (t *spentTracker) onApply(ev chaingen.ApplyEvent) {
	// verify the ones tracked so far (their proofs were updated by the store)
	for _, s := range t.sc {
		if s.x.Dead {
			continue
		}
		s.e.StateElement = *s.x.SE
		t.mon.CheckElement("spent-siacoin", elems.Siacoin(s.e), s.e.StateElement, true, ev.Next, "after-apply")
		t.b.Count("spent_elements_verified", 1)
	}
	// start tracking a few elements spent by this block (they have their post-block proof in the diff)
	n := 0
	for _, d := range ev.AU.SiacoinElementDiffs() {
		if d.Spent && n < 2 && len(t.sc) < 60 {
			e := d.SiacoinElement.Copy()
			ts := &trackedSC{e: e, spentAt: ev.Next.Index.Height}
			ts.x = &chaingen.ExtraElem{Tag: "spent-sc", SE: &ts.e.StateElement}
			// the element in the diff carries the proof valid for the new state
			t.mon.CheckElement("spent-siacoin", elems.Siacoin(ts.e), ts.e.StateElement, true, ev.Next, "at-spend")
			t.c.S.Extra = append(t.c.S.Extra, ts.x)
			t.sc = append(t.sc, ts)
			n++
		}
	}
}

func (t *spentTracker) onRevert(ev chaingen.RevertEvent) {
	for _, s := range t.sc {
		if s.x.Dead {
			continue
		}
		// spent in a block that still stands -> still spent; spent in the reverted block -> unspent again
		stillSpent := s.spentAt <= ev.Prev.Index.Height
		t.mon.CheckElement("spent-siacoin", elems.Siacoin(s.e), *s.x.SE, stillSpent, ev.Prev, "after-revert")
		if !stillSpent {
			s.x.Dead = true // from here on it is an ordinary live element tracked by the store
		}
		t.b.Count("spent_elements_verified", 1)
	}
}

func main() {
	harness.Main(harness.Spec{
		ID:     "C05",
		Rule:   "batch 1 also: fabricated accumulators with arbitrary high bits of the leaf count set (incl. bit 63): one small real tree, a block spending several of its leaves and adding outputs, apply + revert, reported and tracked elements verified; batch 0: shape enumerator (signature-free network; leaf counts 1..N exhaustively, for small accumulators every subset of spent leaves x number of added outputs, each applied, reverted and re-applied); other batches: chaingen histories over the five network families with random reorg schedules (depth up to the whole chain). After every apply/revert every proof in the client store (all kinds, plus proofs of spent outputs) is compared with the naive forest path and verified against State.Elements. distinct = (leaf-count low bits, popcount/trailing-ones pattern before and after, updated?/attestations?, reorg depth per family, enumerated (n, subset, added) shapes).",
		Assume: []string{"blake2b from x/crypto and the element hashes from the public types.Hasher are the trusted primitives", "the store applies updates in order, as the statement requires"},
		Batches: func(t string) int {
			if t == "quick" {
				return 17
			}
			return 66
		},
		// the last batches run the fabricated high-leaf-count cases from a GOARCH=386 build: slice indices and the
		// shifts derived from them are 32 bits wide there
		Arch386Batches: func(t string) []int {
			if t == "quick" {
				return []int{16}
			}
			return []int{64, 65}
		},
		Run: func(b *harness.B) {
			if strconv.IntSize == 32 {
				b.Count("high_bit_batches_run_with_32_bit_int", 1)
				runHighBits(b)
				return
			}
			if b.Batch == 0 {
				runShapes(b)
				return
			}
			if b.Batch == 1 {
				runHighBits(b)
			}
			runHistories(b)
		},
		MinEvals:    500,
		MinDistinct: 100,
		Require:     []string{"high_bit_cases_reaching_the_unassigned_sentinel_index", "high_bit_created_elements_verified_one_block_later", "blocks_applied", "blocks_reverted", "store_elements_verified", "forest_root_comparisons", "spent_elements_verified", "tree_nodes_row0_checked", "shape_cases", "high_bit_cases", "high_bit_batches_run_with_32_bit_int", "owned_elements_verified"},
		Extra: func(m *harness.Result, cov map[string]any) {
			cov["exhaustive_subspace"] = "shape enumerator: all leaf counts up to the bound and all spent-subsets x added-counts for small accumulators (batch 0); see counters shape_*"
		},
	})
}

var _ = rand.New
