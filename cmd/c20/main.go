// C20 — Text and JSON forms round-trip and reject corrupted identifiers.
//
//  1. Registry (registry.go) of every public type of types, consensus, gateway,
//     rhp/v2, rhp/v3, rhp/v4 with a textual or JSON form; its completeness is
//     checked at run time against the repository source with go/parser
//     (complete.go) and the check fails closed if the tree declares a
//     MarshalText / UnmarshalText / MarshalJSON / UnmarshalJSON / Parse* /
//     json-tagged struct the registry does not exercise.
//  2. Round trip (roundtrip.go, policy.go): parse(format(v)) ≡ normalise(v) for
//     generated values of every registered type and every form, including the
//     unusual values the quantifier names. The normaliser is explicit.
//  3. Update round trip (update.go): on chaingen histories every ApplyUpdate and
//     RevertUpdate goes through JSON; a shadow client store driven only by the
//     round-tripped updates must stay identical to the store driven by the
//     originals and its proofs must verify (independent membership test).
//  4. Corruption (corrupt.go): every single-character substitution of address
//     strings, and length / prefix / alphabet corruptions of every other
//     identifier syntax => error (or the same value where the string still
//     denotes it), never a different value, never a panic.
package main

import (
	"fmt"
	"sort"
	"strings"
	"time"

	"verif/internal/harness"
)

// role assigns the work of a batch.
func role(tier string, batch, nb int) (string, int) {
	if tier == "quick" {
		switch {
		case batch == 0:
			return "directed", 0
		case batch == 1:
			return "corrupt", 0
		case batch < 7:
			return "values", batch - 2
		default:
			return "histories", batch - 7
		}
	}
	switch {
	case batch == 0:
		return "directed", 0
	case batch < 4:
		return "corrupt", batch - 1
	case batch < 28:
		return "values", batch - 4
	default:
		return "histories", batch - 28
	}
}

func runDirectedBatch(b *harness.B) {
	// 1. completeness of the registry against the source tree
	repo := repoDir()
	declared, missing, stale, err := MissingFromRegistry(repo)
	switch {
	case err != nil:
		b.Inconclusive("registry completeness: cannot parse the repository at " + repo + ": " + err.Error())
	case len(missing) > 0 || len(stale) > 0:
		b.Inconclusive(fmt.Sprintf("registry incomplete: the tree declares text/JSON forms the registry does not exercise: missing=%v stale=%v", missing, stale))
	case len(declared) < 100:
		b.Inconclusive(fmt.Sprintf("registry completeness: only %d declarations found in %s (wrong directory?)", len(declared), repo))
	default:
		b.Count("registry_complete", 1)
	}
	b.MaxOf("source_declarations_scanned", int64(len(declared)))
	b.MaxOf("registry_entries", int64(len(Registry())))
	nForms := 0
	for _, e := range Registry() {
		nForms += len(e.Forms)
		b.SetAdd("registry", e.Name)
	}
	b.MaxOf("registry_forms", int64(nForms))

	// 2. every registered type at its zero / maximal / empty / nil value
	c := &checker{b: b, rng: b.SubRng("directed")}
	c.runPolicyDirected() // first, so that the isolated (minimal) policy witnesses are the ones kept
	n := c.runDirected()
	want := 0
	for _, e := range Registry() {
		if !e.ViaHistories {
			want++
		}
	}
	if n == want {
		b.Count("types_covered", n)
	} else {
		b.Inconclusive(fmt.Sprintf("only %d of %d registered types could be exercised", n, want))
	}
	c.runValues(b.Pick(6, 60))
	usedJSON(b)

	// observed only (outside the property's domain): specifiers that are not valid UTF-8
	observeNonUTF8Specifiers(b, c)

	// 3. the smallest update shapes (so that the first witness is minimal)
	runShapes(b)
	b.Sample(map[string]any{"kind": "registry", "entries": len(Registry()), "forms": nForms, "source_declarations": len(declared), "repo": repo})
}

func run(b *harness.B) {
	r, idx := role(b.Tier, b.Batch, b.NB)
	switch r {
	case "directed":
		runDirectedBatch(b)
	case "corrupt":
		rng := b.SubRng("corrupt")
		runAddressCorruption(b, rng, b.Pick(100, 1000))
		runIDCorruption(b, rng, b.Pick(25, 300))
		runOtherCorruption(b, rng)
		runHeldTexts(b, b.SubRng("held-texts"))
		b.Sample(map[string]any{"kind": "corruption", "addresses_with_all_76_positions": b.Pick(100, 1000), "replacement_characters_per_position": 28})
	case "values":
		c := &checker{b: b, rng: b.SubRng("values")}
		c.runValues(b.Pick(220, 2000))
		_ = idx
	case "histories":
		runHistories(b, idx)
	}
}

func main() {
	harness.Main(harness.Spec{
		ID:   "C20",
		Rule: "registry of every public type with a text/JSON form (completeness checked against the source with go/parser). Values: valgen shapes (nil/empty/populated collections, extreme integers incl. 64-bit signature counts, currencies of every byte length incl. 2^128-1, all resolution kinds, every policy kind nested, sub-second and non-UTC times in years 0..9999) with unusual valid-UTF-8 specifiers and strings injected, plus the zero / all-maximal / all-empty / all-nil value of every type; every form (text, json, String()+Parse*). Policy strings additionally over isolated features (signature count around 2^8/2^32/2^64, each specifier class). Updates: chaingen histories over the five network families with reorgs plus an enumeration of the smallest shapes (g<=4 genesis outputs x spent subset x added outputs, apply then revert). Corruption: 76 positions x 28 replacement characters of address strings through 4 parsers, and ~160 length/prefix/alphabet/case corruptions per identifier syntax. distinct = (type, form, origin, structural shape of the value) / (update kind, family, leaf-count low bits, updated?, block kinds) / (form, corruption class) / (address parser, position).",
		Assume: []string{
			"domain as the property states: string fields valid UTF-8, timestamps within years 0..9999 (in their own location), interface fields (policy type, resolution) non-nil",
			"normaliser (documented behaviour, not judged): nil == empty collection; times compared by instant; PolicyTypeAfter carries whole seconds; FileContractRevision.Payout is not carried and decodes to the documented sentinel 2^128-1; State.Network is tagged json:\"-\"; ElementAccumulator.Trees[i] with bit i of NumLeaves clear is dead storage and not carried",
			"an upper-cased hex digit denotes the same value: accepting it as the same value is correct; ChainIndex.String() is a documented abbreviation for logs, not a parseable form",
			"blake2b and the element hashes re-derived from the public types.Hasher are the trusted primitives of the membership test",
		},
		Batches: func(t string) int {
			if t == "quick" {
				return 16
			}
			return 64
		},
		Run: run,
		ChildTimeout: func(t string) time.Duration {
			if t == "quick" {
				return 4 * time.Minute
			}
			return 25 * time.Minute
		},
		MinEvals:    20000,
		MinDistinct: 1500,
		Require: []string{"held_texts_parsed_back", "map_key_roundtrips", "registry_complete", "types_covered", "roundtrips", "update_roundtrips_apply", "update_roundtrips_revert",
			"shadow_store_elements_compared", "corruptions_tried", "corruptions_rejected", "corruption_positive_controls", "shape_cases", "policy_directed_cases", "shadow_proofs_verified"},
		Extra: func(m *harness.Result, cov map[string]any) {
			cov["exhaustive_subspace"] = "all 76 positions x 28 replacement characters of each sampled address string; all update shapes with <= 4 genesis outputs (batch 0)"
			keys := map[string]bool{}
			for _, v := range m.Violations {
				keys[v.Key] = true
			}
			var ks []string
			for k := range keys {
				ks = append(ks, k)
			}
			sort.Strings(ks)
			cov["violation_keys"] = ks
			if ts := m.Sets["types_roundtripped"]; len(ts) > 0 {
				cov["types_roundtripped_count"] = len(ts)
			}
			_ = strings.Join
		},
	})
}
