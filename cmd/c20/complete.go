package main

import (
	"go/ast"
	"go/parser"
	"go/token"
	"os"
	"path/filepath"
	"sort"
	"strings"
)

// formMethods are the method names that give a type a textual / JSON form.
var formMethods = map[string]bool{
	"MarshalText": true, "UnmarshalText": true, "MarshalJSON": true, "UnmarshalJSON": true, "LoadString": true,
}

func repoDir() string {
	if r := os.Getenv("VERIF_REPO"); r != "" {
		return r
	}
	mod := os.Getenv("VERIF_MODFILE")
	if mod == "" {
		mod = "/verif/go.mod"
	}
	raw, err := os.ReadFile(mod)
	if err == nil {
		for _, ln := range strings.Split(string(raw), "\n") {
			if i := strings.Index(ln, "go.sia.tech/core =>"); i >= 0 {
				return strings.TrimSpace(ln[i+len("go.sia.tech/core =>"):])
			}
		}
	}
	return "/repo"
}

// DeclaredForms parses every non-test Go file of the repository (build tags
// ignored) and returns
//
//	"dir.Type.Method"  for each MarshalText/UnmarshalText/MarshalJSON/UnmarshalJSON/LoadString method,
//	"dir.ParseX"       for each package-level function whose name starts with Parse,
//	"dir.Type{json}"   for each struct type (exported or not) with a json struct tag.
func DeclaredForms(repo string) ([]string, error) {
	found := map[string]bool{}
	fset := token.NewFileSet()
	err := filepath.Walk(repo, func(path string, info os.FileInfo, err error) error {
		if err != nil {
			return err
		}
		if info.IsDir() {
			n := info.Name()
			if path != repo && (strings.HasPrefix(n, ".") || n == "testdata" || n == "internal" || n == "vendor") {
				return filepath.SkipDir
			}
			return nil
		}
		if !strings.HasSuffix(path, ".go") || strings.HasSuffix(path, "_test.go") {
			return nil
		}
		f, err := parser.ParseFile(fset, path, nil, parser.SkipObjectResolution)
		if err != nil {
			return err
		}
		if f.Name.Name == "main" {
			return nil
		}
		rel, _ := filepath.Rel(repo, filepath.Dir(path))
		dir := filepath.ToSlash(rel)
		for _, d := range f.Decls {
			switch d := d.(type) {
			case *ast.FuncDecl:
				if d.Recv == nil {
					if strings.HasPrefix(d.Name.Name, "Parse") && d.Name.IsExported() {
						found[dir+"."+d.Name.Name] = true
					}
					continue
				}
				if len(d.Recv.List) != 1 || !formMethods[d.Name.Name] {
					continue
				}
				rt := d.Recv.List[0].Type
				if s, ok := rt.(*ast.StarExpr); ok {
					rt = s.X
				}
				if ix, ok := rt.(*ast.IndexExpr); ok {
					rt = ix.X
				}
				if id, ok := rt.(*ast.Ident); ok {
					found[dir+"."+id.Name+"."+d.Name.Name] = true
				}
			case *ast.GenDecl:
				if d.Tok != token.TYPE {
					continue
				}
				for _, s := range d.Specs {
					ts := s.(*ast.TypeSpec)
					st, ok := ts.Type.(*ast.StructType)
					if !ok {
						continue
					}
					for _, fl := range st.Fields.List {
						if fl.Tag != nil && strings.Contains(fl.Tag.Value, "json:") {
							found[dir+"."+ts.Name.Name+"{json}"] = true
							break
						}
					}
				}
			}
		}
		return nil
	})
	var out []string
	for k := range found {
		out = append(out, k)
	}
	sort.Strings(out)
	return out, err
}

// MissingFromRegistry: missing = declared in the tree but not exercised by the
// registry; stale = named by the registry (explicit function names and
// non-optional indirect entries) but no longer declared.
func MissingFromRegistry(repo string) (declared, missing, stale []string, err error) {
	declared, err = DeclaredForms(repo)
	if err != nil {
		return
	}
	isDecl := map[string]bool{}
	for _, d := range declared {
		isDecl[d] = true
	}
	cov := CoveredDecls()
	for _, d := range declared {
		if _, ok := cov[d]; !ok {
			missing = append(missing, d)
		}
	}
	for _, e := range Registry() {
		for _, f := range e.Funcs {
			if !isDecl[f] {
				stale = append(stale, f)
			}
		}
	}
	for k, v := range IndirectlyCovered {
		if !v.Optional && !isDecl[k] {
			stale = append(stale, k)
		}
	}
	sort.Strings(stale)
	return
}
