package main

import (
	"encoding"
	"encoding/json"
	"fmt"
	"math/rand/v2"
	"reflect"
	"sort"
	"strings"

	"go.sia.tech/core/consensus"
	rhp2 "go.sia.tech/core/rhp/v2"
	rhp3 "go.sia.tech/core/rhp/v3"
	rhp4 "go.sia.tech/core/rhp/v4"
	"go.sia.tech/core/types"
	"verif/internal/valgen"
)

// A form is one textual representation of a type: a formatter and the parser
// that is documented to read it back.
type form struct {
	Name   string                        // "text", "json", "string"
	Format func(ptr any) (string, error) // ptr is *T
	Parse  func(s string, dst any) error // dst is a fresh *T
}

// An entry is one public type with a textual or JSON form.
type entry struct {
	Name  string       // "<dir>.<Type>", the same spelling the source scanner produces
	Short string       // "<Type>" (used in violation keys)
	Type  reflect.Type // T
	Forms []form
	// Gen overrides the default generator (valgen.Fill + unusual-value injection).
	Gen func(rng *rand.Rand, o *valgen.Opts) any
	// Funcs are the package-level parse/format functions this entry exercises
	// ("types.ParseAddress"); they count as covered for the completeness check.
	Funcs []string
	// ViaHistories: the type has no exported fields; its values come from real
	// chain histories (update batches), not from the value generator.
	ViaHistories bool
	// IsID marks identifier-like types (hash / key / signature / ...).
	IsID bool
}

const corePath = "go.sia.tech/core/"

func typeName(t reflect.Type) string {
	return strings.TrimPrefix(t.PkgPath(), corePath) + "." + t.Name()
}

var (
	textMarshaler   = reflect.TypeOf((*encoding.TextMarshaler)(nil)).Elem()
	textUnmarshaler = reflect.TypeOf((*encoding.TextUnmarshaler)(nil)).Elem()
)

func jsonForm() form {
	return form{
		Name: "json",
		Format: func(ptr any) (string, error) {
			// marshal the VALUE (value-receiver marshalers are reached either way;
			// this is how the value appears as a field of a larger object)
			buf, err := json.Marshal(reflect.ValueOf(ptr).Elem().Interface())
			return string(buf), err
		},
		Parse: func(s string, dst any) error { return json.Unmarshal([]byte(s), dst) },
	}
}

func textForm() form {
	return form{
		Name: "text",
		Format: func(ptr any) (string, error) {
			buf, err := reflect.ValueOf(ptr).Elem().Interface().(encoding.TextMarshaler).MarshalText()
			return string(buf), err
		},
		Parse: func(s string, dst any) error { return dst.(encoding.TextUnmarshaler).UnmarshalText([]byte(s)) },
	}
}

// stringForm: String() read back by the type's UnmarshalText (or by parse).
func stringForm(parse func(s string, dst any) error) form {
	return form{
		Name: "string",
		Format: func(ptr any) (string, error) {
			return reflect.ValueOf(ptr).Elem().Interface().(fmt.Stringer).String(), nil
		},
		Parse: parse,
	}
}

func viaUnmarshalText(s string, dst any) error {
	return dst.(encoding.TextUnmarshaler).UnmarshalText([]byte(s))
}

// reg builds the entry of T: a "text" form when T has MarshalText and *T has
// UnmarshalText, and always a "json" form.
func reg[T any](extra ...form) *entry {
	var z T
	t := reflect.TypeOf(z)
	e := &entry{Name: typeName(t), Short: t.Name(), Type: t}
	if t.Implements(textMarshaler) && reflect.PointerTo(t).Implements(textUnmarshaler) {
		e.Forms = append(e.Forms, textForm())
	}
	e.Forms = append(e.Forms, jsonForm())
	e.Forms = append(e.Forms, extra...)
	return e
}

func (e *entry) id() *entry               { e.IsID = true; return e }
func (e *entry) funcs(f ...string) *entry { e.Funcs = append(e.Funcs, f...); return e }
func (e *entry) histories() *entry        { e.ViaHistories = true; return e }
func (e *entry) gen(g func(*rand.Rand, *valgen.Opts) any) *entry {
	e.Gen = g
	return e
}

func (e *entry) form(name string) *form {
	for i := range e.Forms {
		if e.Forms[i].Name == name {
			return &e.Forms[i]
		}
	}
	return nil
}

// hexID registers a fixed-size identifier whose String() equals its text form.
func hexID[T any]() *entry { return reg[T](stringForm(viaUnmarshalText)).id() }

var registryCache []*entry

// Registry lists every public type of types, consensus, gateway, rhp/v2, rhp/v3
// and rhp/v4 that has a textual or JSON form. (gateway declares none.)
func Registry() []*entry {
	if registryCache != nil {
		return registryCache
	}
	r := []*entry{
		// ---- types: identifiers and scalars
		hexID[types.Hash256](),
		hexID[types.BlockID](),
		hexID[types.TransactionID](),
		hexID[types.AttestationID](),
		hexID[types.SiacoinOutputID](),
		hexID[types.SiafundOutputID](),
		hexID[types.FileContractID](),
		hexID[types.Signature](),
		hexID[types.PublicKey](),
		reg[types.Address](
			stringForm(func(s string, dst any) error {
				a, err := types.ParseAddress(s)
				*dst.(*types.Address) = a
				return err
			})).id().funcs("types.ParseAddress"),
		reg[types.Specifier](stringForm(viaUnmarshalText)).id(),
		reg[types.UnlockKey]().id(),
		// ChainIndex: String() is a documented abbreviation (last 4 bytes of the ID)
		// for logs and is not a parseable form; MarshalText is the text form.
		reg[types.ChainIndex](form{
			Name: "parse",
			Format: func(ptr any) (string, error) {
				buf, err := ptr.(*types.ChainIndex).MarshalText()
				return string(buf), err
			},
			Parse: func(s string, dst any) error {
				ci, err := types.ParseChainIndex(s)
				*dst.(*types.ChainIndex) = ci
				return err
			},
		}).id().funcs("types.ParseChainIndex"),
		reg[types.Currency](
			stringForm(func(s string, dst any) error {
				c, err := types.ParseCurrency(s)
				*dst.(*types.Currency) = c
				return err
			}),
			form{
				Name:   "exactstring",
				Format: func(ptr any) (string, error) { return ptr.(*types.Currency).ExactString(), nil },
				Parse: func(s string, dst any) error {
					c, err := types.ParseCurrency(s)
					*dst.(*types.Currency) = c
					return err
				},
			}).funcs("types.ParseCurrency"),
		// ---- types: policies
		reg[types.SpendPolicy](
			stringForm(func(s string, dst any) error {
				p, err := types.ParseSpendPolicy(s)
				*dst.(*types.SpendPolicy) = p
				return err
			})).funcs("types.ParseSpendPolicy"),
		reg[types.PolicyTypeThreshold](),
		reg[types.SatisfiedPolicy](),
		reg[types.UnlockConditions](),
		// ---- types: transactions, blocks, elements
		reg[types.SiacoinOutput](),
		reg[types.SiafundOutput](),
		reg[types.SiacoinInput](),
		reg[types.SiafundInput](),
		reg[types.FileContract](),
		reg[types.FileContractRevision](),
		reg[types.StorageProof](),
		reg[types.FoundationAddressUpdate](),
		reg[types.CoveredFields](),
		reg[types.TransactionSignature](),
		reg[types.Transaction](),
		reg[types.V2FileContract](),
		reg[types.V2SiacoinInput](),
		reg[types.V2SiafundInput](),
		reg[types.V2FileContractRevision](),
		reg[types.V2FileContractResolution](),
		reg[types.V2FileContractRenewal](),
		reg[types.V2StorageProof](),
		reg[types.Attestation](),
		reg[types.StateElement](),
		reg[types.ChainIndexElement](),
		reg[types.SiacoinElement](),
		reg[types.SiafundElement](),
		reg[types.FileContractElement](),
		reg[types.V2FileContractElement](),
		reg[types.AttestationElement](),
		reg[types.V2Transaction](),
		reg[types.V2BlockData](),
		reg[types.BlockHeader](),
		reg[types.Block](),
		// ---- consensus
		reg[consensus.Work](stringForm(viaUnmarshalText)),
		reg[consensus.ElementAccumulator](),
		reg[consensus.Network](),
		reg[consensus.State](),
		reg[consensus.SiacoinElementDiff](),
		reg[consensus.SiafundElementDiff](),
		reg[consensus.FileContractElementDiff](),
		reg[consensus.V2FileContractElementDiff]().gen(genV2Diff),
		reg[consensus.ApplyUpdate]().histories(),
		reg[consensus.RevertUpdate]().histories(),
		// ---- rhp/v2
		reg[rhp2.HostSettings](),
		// ---- rhp/v3
		reg[rhp3.SettingsID](form{
			Name:   "loadstring",
			Format: func(ptr any) (string, error) { return ptr.(*rhp3.SettingsID).String(), nil },
			Parse:  func(s string, dst any) error { return dst.(*rhp3.SettingsID).LoadString(s) },
		}).id(),
		reg[rhp3.Account](stringForm(viaUnmarshalText)).id(),
		reg[rhp3.HostPriceTable](),
		// ---- rhp/v4
		reg[rhp4.Account](stringForm(viaUnmarshalText)).id(),
		reg[rhp4.ProtocolVersion](stringForm(viaUnmarshalText)),
		reg[rhp4.Usage](),
		reg[rhp4.HostPrices](),
		reg[rhp4.HostSettings](),
		reg[rhp4.AccountToken](),
		reg[rhp4.AccountDeposit](),
		reg[rhp4.PoolAttachment](),
		reg[rhp4.PoolDetachment](),
		reg[rhp4.RPCSettingsResponse](),
		reg[rhp4.RPCFormContractParams](),
		reg[rhp4.RPCFormContractRequest](),
		reg[rhp4.RPCFormContractResponse](),
		reg[rhp4.RPCFormContractSecondResponse](),
		reg[rhp4.RPCFormContractThirdResponse](),
		reg[rhp4.RPCRefreshContractParams](),
		reg[rhp4.RPCRefreshContractRequest](),
		reg[rhp4.RPCRefreshContractResponse](),
		reg[rhp4.RPCRefreshContractSecondResponse](),
		reg[rhp4.RPCRefreshContractThirdResponse](),
		reg[rhp4.RPCRenewContractParams](),
		reg[rhp4.RPCRenewContractRequest](),
		reg[rhp4.RPCRenewContractResponse](),
		reg[rhp4.RPCRenewContractSecondResponse](),
		reg[rhp4.RPCRenewContractThirdResponse](),
		reg[rhp4.RPCFreeSectorsRequest](),
		reg[rhp4.RPCFreeSectorsResponse](),
		reg[rhp4.RPCFreeSectorsSecondResponse](),
		reg[rhp4.RPCFreeSectorsThirdResponse](),
		reg[rhp4.RPCLatestRevisionRequest](),
		reg[rhp4.RPCLatestRevisionResponse](),
		reg[rhp4.RPCReadSectorRequest](),
		reg[rhp4.RPCReadSectorResponse](),
		reg[rhp4.RPCAppendSectorsRequest](),
		reg[rhp4.RPCAppendSectorsResponse](),
		reg[rhp4.RPCAppendSectorsSecondResponse](),
		reg[rhp4.RPCAppendSectorsThirdResponse](),
		reg[rhp4.RPCWriteSectorRequest](),
		reg[rhp4.RPCWriteSectorResponse](),
		reg[rhp4.RPCSectorRootsRequest](),
		reg[rhp4.RPCSectorRootsResponse](),
		reg[rhp4.RPCAccountBalanceRequest](),
		reg[rhp4.RPCAccountBalanceResponse](),
		reg[rhp4.RPCReplenishAccountsRequest](),
		reg[rhp4.RPCReplenishAccountsResponse](),
		reg[rhp4.RPCReplenishAccountsSecondResponse](),
		reg[rhp4.RPCReplenishAccountsThirdResponse](),
		reg[rhp4.RPCVerifySectorRequest](),
		reg[rhp4.RPCVerifySectorResponse](),
		reg[rhp4.RPCFundAccountsRequest](),
		reg[rhp4.RPCFundAccountsResponse](),
		reg[rhp4.RPCAttachPoolsRequest](),
		reg[rhp4.RPCDetachPoolsRequest](),
	}
	sort.SliceStable(r, func(i, j int) bool { return r[i].Name < r[j].Name })
	registryCache = r
	return r
}

// IndirectlyCovered lists source declarations that are not public types of
// their own but are exercised through a registered type. optional entries may
// be absent from the tree (they name the repair the check proposes).
var IndirectlyCovered = map[string]struct {
	Via      string
	Optional bool
}{
	"consensus.applyUpdateJSON{json}":        {Via: "consensus.ApplyUpdate"},
	"consensus.revertUpdateJSON{json}":       {Via: "consensus.RevertUpdate"},
	"consensus.elementLeaf.MarshalJSON":      {Via: "consensus.ApplyUpdate / consensus.RevertUpdate (updatedLeaves)", Optional: true},
	"consensus.elementLeaf.UnmarshalJSON":    {Via: "consensus.ApplyUpdate / consensus.RevertUpdate (updatedLeaves)", Optional: true},
	"consensus.elementLeaf{json}":            {Via: "consensus.ApplyUpdate / consensus.RevertUpdate (updatedLeaves)", Optional: true},
	"rhp/v3.SettingsID.LoadString":           {Via: "rhp/v3.SettingsID"},
	"types.PolicyTypeUnlockConditions{json}": {Via: "types.SpendPolicy", Optional: true},
	"rhp/v4.RPCSettingsRequest{json}":        {Via: "rhp/v4 (empty struct)", Optional: true},
	"rhp/v4.RPCAttachPoolsResponse{json}":    {Via: "rhp/v4 (empty struct)", Optional: true},
	"rhp/v4.RPCDetachPoolsResponse{json}":    {Via: "rhp/v4 (empty struct)", Optional: true},
	"types.V2FileContractExpiration{json}":   {Via: "types.V2FileContractResolution", Optional: true},
}

// CoveredDecls computes, by reflection over the registry, the set of source
// declarations ("dir.Type.Method", "dir.Func", "dir.Type{json}") the registry
// exercises.
func CoveredDecls() map[string]string {
	cov := map[string]string{}
	for _, e := range Registry() {
		pt := reflect.PointerTo(e.Type)
		for _, m := range []string{"MarshalText", "UnmarshalText", "MarshalJSON", "UnmarshalJSON", "LoadString"} {
			if _, ok := pt.MethodByName(m); ok {
				cov[e.Name+"."+m] = e.Name
			}
		}
		if e.Type.Kind() == reflect.Struct {
			for i := 0; i < e.Type.NumField(); i++ {
				if _, ok := e.Type.Field(i).Tag.Lookup("json"); ok {
					cov[e.Name+"{json}"] = e.Name
					break
				}
			}
		}
		for _, f := range e.Funcs {
			cov[f] = e.Name
		}
	}
	for k, v := range IndirectlyCovered {
		cov[k] = v.Via
	}
	return cov
}

// genV2Diff: V2FileContractElementDiff with every combination of created /
// revision / resolution including "no resolution" (valgen never leaves an
// interface nil).
func genV2Diff(rng *rand.Rand, o *valgen.Opts) any {
	d := new(consensus.V2FileContractElementDiff)
	valgen.Fill(rng, reflect.ValueOf(d).Elem(), o)
	switch rng.IntN(4) {
	case 0:
		d.Resolution = nil
	case 1:
		d.Resolution = nil
		if d.Revision == nil {
			fc := valgen.New[types.V2FileContract](rng, o)
			d.Revision = &fc
		}
	}
	return d
}
