package main

import (
	"encoding/json"
	"fmt"
	"reflect"

	"go.sia.tech/core/consensus"
	"go.sia.tech/core/types"
	"verif/internal/harness"
)

// usedJSON: the hand-written JSON decoders of the library overwrite the value they are given (they assign every field
// from what they parsed). Read into a variable that already holds another value - a reused element of a slice, a loop
// variable - the own output of B therefore gives B: a member that B's output writes as null, or leaves out because B
// does not have it, does not keep what the variable held before. (Plain structs decoded by encoding/json itself merge
// by that package's documented rules and are not judged here.)
func usedJSON(b *harness.B) {
	h := func(x byte) types.Hash256 { return types.Hash256{x, x} }
	type pair struct {
		name string
		a, b any // b is decoded into a variable that held a
	}
	cie := types.ChainIndexElement{ID: types.BlockID{5}, StateElement: types.StateElement{LeafIndex: 4, MerkleProof: []types.Hash256{h(9)}}, ChainIndex: types.ChainIndex{Height: 3, ID: types.BlockID{5}}}
	fc := types.V2FileContract{Capacity: 4096, Filesize: 4096, ProofHeight: 10, ExpirationHeight: 20, RevisionNumber: 1}
	fc7 := fc
	fc7.RevisionNumber = 7
	fce := func(id byte) types.V2FileContractElement {
		return types.V2FileContractElement{ID: types.FileContractID{id}, StateElement: types.StateElement{LeafIndex: uint64(id)}, V2FileContract: fc}
	}
	pairs := []pair{
		{"types.StorageProof/proof-hashes-then-none", &types.StorageProof{ParentID: types.FileContractID{1}, Proof: []types.Hash256{h(1), h(2)}}, &types.StorageProof{ParentID: types.FileContractID{2}}},
		{"types.V2StorageProof/proof-hashes-then-none", &types.V2StorageProof{ProofIndex: cie.Copy(), Proof: []types.Hash256{h(1), h(2)}}, &types.V2StorageProof{ProofIndex: cie.Copy()}},
		{"types.Transaction/storage-proof-with-hashes-then-without", &types.Transaction{StorageProofs: []types.StorageProof{{ParentID: types.FileContractID{1}, Proof: []types.Hash256{h(1), h(2)}}}}, &types.Transaction{StorageProofs: []types.StorageProof{{ParentID: types.FileContractID{2}}}}},
		{"consensus.V2FileContractElementDiff/resolved-then-revised", &consensus.V2FileContractElementDiff{V2FileContractElement: fce(1), Resolution: &types.V2FileContractExpiration{}}, &consensus.V2FileContractElementDiff{V2FileContractElement: fce(2), Revision: &fc7}},
		{"consensus.V2FileContractElementDiff/revised-then-resolved", &consensus.V2FileContractElementDiff{V2FileContractElement: fce(1), Revision: &fc7}, &consensus.V2FileContractElementDiff{V2FileContractElement: fce(2), Resolution: &types.V2FileContractExpiration{}}},
		{"consensus.FileContractElementDiff/revised-then-plain", &consensus.FileContractElementDiff{FileContractElement: types.FileContractElement{ID: types.FileContractID{1}}, Revision: &types.FileContract{RevisionNumber: 3}}, &consensus.FileContractElementDiff{FileContractElement: types.FileContractElement{ID: types.FileContractID{2}}, Resolved: true, Valid: true}},
		{"types.SatisfiedPolicy/signatures-then-none", &types.SatisfiedPolicy{Policy: types.PolicyPublicKey(types.PublicKey{1}), Signatures: []types.Signature{{1, 2, 3}}}, &types.SatisfiedPolicy{Policy: types.PolicyAbove(0)}},
		{"types.SatisfiedPolicy/preimages-then-none", &types.SatisfiedPolicy{Policy: types.AnyoneCanSpend(), Preimages: [][32]byte{{1}, {2}}}, &types.SatisfiedPolicy{Policy: types.PolicyAbove(3)}},
		{"types.V2FileContractResolution/storage-proof-then-expiration", &types.V2FileContractResolution{Parent: fce(1), Resolution: &types.V2StorageProof{ProofIndex: cie.Copy(), Proof: []types.Hash256{h(1)}}}, &types.V2FileContractResolution{Parent: fce(2), Resolution: &types.V2FileContractExpiration{}}},
	}
	for _, p := range pairs {
		ja, err1 := json.Marshal(p.a)
		jb, err2 := json.Marshal(p.b)
		if err1 != nil || err2 != nil {
			b.Inconclusive("used-json: cannot marshal " + p.name)
			continue
		}
		fresh := reflect.New(reflect.TypeOf(p.b).Elem()).Interface()
		used := reflect.New(reflect.TypeOf(p.b).Elem()).Interface()
		if json.Unmarshal(jb, fresh) != nil || json.Unmarshal(ja, used) != nil || json.Unmarshal(jb, used) != nil {
			b.Inconclusive("used-json: own output not accepted for " + p.name)
			continue
		}
		b.Eval(1)
		b.Count("own_json_read_into_a_used_value", 1)
		b.Distinct("used-json", p.name)
		jf, _ := json.Marshal(fresh)
		ju, _ := json.Marshal(used)
		if string(jf) != string(ju) {
			b.Violate("C20/roundtrip/json-read-into-a-used-value/"+p.name, fmt.Sprintf("the JSON of B read into a variable that held A gives %s, read into a fresh variable %s", capStr(string(ju), 300), capStr(string(jf), 300)), map[string]any{"a": string(ja), "b": string(jb)})
		}
	}
}
