package main

import (
	"encoding/hex"
	"encoding/json"
	"fmt"
	"math/rand/v2"
	"strings"

	"go.sia.tech/core/consensus"
	rhp3 "go.sia.tech/core/rhp/v3"
	rhp4 "go.sia.tech/core/rhp/v4"
	"go.sia.tech/core/types"
	"verif/internal/harness"
)

// An idForm is one identifier syntax under corruption: a canonical string s of
// a value, and a parser returning the canonical string of what it accepted.
type idForm struct {
	Name   string // "types.Hash256/text"
	Prefix string // literal prefix before the hex part ("ed25519:", "0x", "<height>::"), "" if none
	Suffix string // literal suffix after the hex part (")" for policy leaves)
	Bytes  int    // size of the value in bytes (hex part = 2*Bytes digits); 0 = variable
	// Parse parses s and returns the canonical form of the accepted value.
	Parse func(s string) (string, error)
	// Canon returns the canonical string of a random value (Prefix + hex + Suffix).
	Gen func(rng *rand.Rand) string
}

func randHex(rng *rand.Rand, n int) string {
	b := make([]byte, n)
	for i := range b {
		b[i] = byte(rng.Uint32())
	}
	// first and last byte non-zero with a letter digit each, so truncation, zero
	// padding and case changes are all visible
	if n > 0 {
		b[0] |= 0xA0
		b[n-1] = b[n-1]&0xF0 | 0x0B
		if b[n-1]>>4 == 0 {
			b[n-1] |= 0xC0
		}
	}
	return hex.EncodeToString(b)
}

// textID builds the idForm of a fixed-size identifier type with Text methods.
func textID[T any, PT interface {
	*T
	UnmarshalText([]byte) error
	MarshalText() ([]byte, error)
}](name, prefix string, size int) []idForm {
	canon := func(v *T) string {
		buf, _ := PT(v).MarshalText()
		return string(buf)
	}
	return []idForm{
		{
			Name: name + "/text", Prefix: prefix, Bytes: size,
			Parse: func(s string) (string, error) {
				var v T
				err := PT(&v).UnmarshalText([]byte(s))
				return canon(&v), err
			},
			Gen: func(rng *rand.Rand) string { return prefix + randHex(rng, size) },
		},
		{
			Name: name + "/json", Prefix: prefix, Bytes: size,
			Parse: func(s string) (string, error) {
				var v T
				js, err := json.Marshal(s) // the corrupted text as a JSON string
				if err != nil {
					return "", err
				}
				err = json.Unmarshal(js, &v)
				return canon(&v), err
			},
			Gen: func(rng *rand.Rand) string { return prefix + randHex(rng, size) },
		},
	}
}

func idForms() []idForm {
	var fs []idForm
	fs = append(fs, textID[types.Hash256]("types.Hash256", "", 32)...)
	fs = append(fs, textID[types.BlockID]("types.BlockID", "", 32)...)
	fs = append(fs, textID[types.TransactionID]("types.TransactionID", "", 32)...)
	fs = append(fs, textID[types.AttestationID]("types.AttestationID", "", 32)...)
	fs = append(fs, textID[types.SiacoinOutputID]("types.SiacoinOutputID", "", 32)...)
	fs = append(fs, textID[types.SiafundOutputID]("types.SiafundOutputID", "", 32)...)
	fs = append(fs, textID[types.FileContractID]("types.FileContractID", "", 32)...)
	fs = append(fs, textID[types.Signature]("types.Signature", "", 64)...)
	fs = append(fs, textID[types.PublicKey]("types.PublicKey", "ed25519:", 32)...)
	fs = append(fs, textID[rhp3.Account]("rhp/v3.Account", "ed25519:", 32)...)
	fs = append(fs, textID[rhp4.Account]("rhp/v4.Account", "ed25519:", 32)...)
	// chain index: <height>::<id>
	ciCanon := func(ci types.ChainIndex) string { b, _ := ci.MarshalText(); return string(b) }
	for _, h := range []string{"0", "7", "18446744073709551615"} {
		h := h
		fs = append(fs,
			idForm{Name: "types.ChainIndex/text", Prefix: h + "::", Bytes: 32,
				Parse: func(s string) (string, error) {
					var ci types.ChainIndex
					err := ci.UnmarshalText([]byte(s))
					return ciCanon(ci), err
				},
				Gen: func(rng *rand.Rand) string { return h + "::" + randHex(rng, 32) }},
			idForm{Name: "types.ParseChainIndex", Prefix: h + "::", Bytes: 32,
				Parse: func(s string) (string, error) {
					ci, err := types.ParseChainIndex(s)
					return ciCanon(ci), err
				},
				Gen: func(rng *rand.Rand) string { return h + "::" + randHex(rng, 32) }})
	}
	// JSON object form of a chain index: the id field
	fs = append(fs, idForm{Name: "types.ChainIndex/json.id", Prefix: "", Bytes: 32,
		Parse: func(s string) (string, error) {
			var ci types.ChainIndex
			js, _ := json.Marshal(map[string]any{"height": 5, "id": s})
			err := json.Unmarshal(js, &ci)
			return hex.EncodeToString(ci.ID[:]), err
		},
		Gen: func(rng *rand.Rand) string { return randHex(rng, 32) }})
	// spend policy leaves: 0x-prefixed hex
	for _, k := range []string{"pk", "h", "opaque"} {
		k := k
		fs = append(fs, idForm{Name: "types.ParseSpendPolicy/" + k, Prefix: k + "(0x", Suffix: ")", Bytes: 32,
			Parse: func(s string) (string, error) {
				p, err := types.ParseSpendPolicy(s)
				return p.String(), err
			},
			Gen: func(rng *rand.Rand) string { return k + "(0x" + randHex(rng, 32) + ")" }})
	}
	// rhp3 settings id (JSON and LoadString), 16 bytes
	fs = append(fs,
		idForm{Name: "rhp/v3.SettingsID/json", Bytes: 16,
			Parse: func(s string) (string, error) {
				var id rhp3.SettingsID
				js, _ := json.Marshal(s)
				err := json.Unmarshal(js, &id)
				return id.String(), err
			},
			Gen: func(rng *rand.Rand) string { return randHex(rng, 16) }},
		idForm{Name: "rhp/v3.SettingsID/loadstring", Bytes: 16,
			Parse: func(s string) (string, error) {
				var id rhp3.SettingsID
				err := id.LoadString(s)
				return id.String(), err
			},
			Gen: func(rng *rand.Rand) string { return randHex(rng, 16) }})
	// hex fields spliced by hand into JSON objects
	fs = append(fs,
		idForm{Name: "types.StorageProof/json.leaf", Bytes: 64,
			Parse: func(s string) (string, error) {
				var sp types.StorageProof
				js, _ := json.Marshal(map[string]any{"parentID": strings.Repeat("00", 32), "leaf": s, "proof": []string{}})
				err := json.Unmarshal(js, &sp)
				return hex.EncodeToString(sp.Leaf[:]), err
			},
			Gen: func(rng *rand.Rand) string { return randHex(rng, 64) }},
		idForm{Name: "types.V2StorageProof/json.leaf", Bytes: 64,
			Parse: func(s string) (string, error) {
				var sp types.V2StorageProof
				js, _ := json.Marshal(map[string]any{"leaf": s, "proof": []string{}})
				err := json.Unmarshal(js, &sp)
				return hex.EncodeToString(sp.Leaf[:]), err
			},
			Gen: func(rng *rand.Rand) string { return randHex(rng, 64) }},
		idForm{Name: "types.SatisfiedPolicy/json.preimage", Bytes: 32,
			Parse: func(s string) (string, error) {
				var sp types.SatisfiedPolicy
				js, _ := json.Marshal(map[string]any{"policy": map[string]any{"type": "above", "policy": 1}, "preimages": []string{s}})
				err := json.Unmarshal(js, &sp)
				if err != nil || len(sp.Preimages) != 1 {
					return "", err
				}
				return hex.EncodeToString(sp.Preimages[0][:]), err
			},
			Gen: func(rng *rand.Rand) string { return randHex(rng, 32) }})
	return fs
}

type corruption struct {
	class string
	s     string
	// sameBytes: the corruption does not change the denoted byte string (hex case
	// change only): accepting it as the SAME value is correct.
	sameBytes bool
}

const nonHex = "gGzZ xX-_:;.,/\\\"'`~!@\x00\n\tOolI"

// corruptions derives the length / prefix / alphabet corruptions of the
// canonical string s = Prefix + hex + Suffix.
func corruptions(f *idForm, s string, rng *rand.Rand) []corruption {
	hx := s[len(f.Prefix) : len(s)-len(f.Suffix)]
	mk := func(h string) string { return f.Prefix + h + f.Suffix }
	var out []corruption
	add := func(class, v string) {
		if v != s {
			out = append(out, corruption{class: class, s: v})
		}
	}
	// wrong length
	add("length-1", mk(hx[:len(hx)-1]))
	add("length-2", mk(hx[:len(hx)-2]))
	add("length-1-front", mk(hx[1:]))
	add("length-2-front", mk(hx[2:]))
	add("length+1", mk(hx+"a"))
	add("length+2", mk(hx+"ab"))
	add("length+2-zero-front", mk("00"+hx))
	add("length+2-zero-back", mk(hx+"00"))
	add("length+4", mk(hx+"abcd"))
	add("length-x2", mk(hx+hx))
	add("length-x2-whole", s+s)
	add("length-half", mk(hx[:len(hx)/2]))
	// every even length below the right one, cut from either end (abbreviated forms as logs print them)
	for n := 2; n < len(hx) && n <= 62; n += 2 {
		add("length-abbreviated-tail", mk(hx[len(hx)-n:]))
		add("length-abbreviated-head", mk(hx[:n]))
	}
	add("length-0", mk(""))
	add("length-x8", mk(strings.Repeat(hx, 8)))
	// prefix
	if f.Prefix != "" {
		add("prefix-missing", hx+f.Suffix)
		add("prefix-doubled", f.Prefix+s)
		add("prefix-upper", strings.ToUpper(f.Prefix)+hx+f.Suffix)
		p := []byte(f.Prefix)
		for i := range p {
			q := append([]byte(nil), p...)
			switch {
			case q[i] >= '0' && q[i] <= '8':
				q[i]++
			case q[i] == '9':
				q[i] = '0'
			case q[i] == ':':
				q[i] = ';'
			case q[i] == '(':
				q[i] = '['
			default:
				q[i] ^= 0x01
			}
			if strings.HasSuffix(f.Prefix, "::") && i < len(p)-2 {
				continue // a different decimal height is a different valid value, not a corruption
			}
			add("prefix-char", string(q)+hx+f.Suffix)
		}
		if !strings.HasSuffix(f.Prefix, "::") { // dropping a digit of the height gives another valid index
			add("prefix-truncated", f.Prefix[1:]+hx+f.Suffix)
		}
		add("prefix-only-separator", f.Prefix[len(f.Prefix)-1:]+hx+f.Suffix)
		if strings.HasSuffix(f.Prefix, ":") {
			add("prefix-no-separator", strings.TrimRight(f.Prefix, ":")+hx+f.Suffix)
			add("prefix-extra-separator", f.Prefix+":"+hx+f.Suffix)
		}
		if strings.HasSuffix(f.Prefix, "::") {
			h := strings.TrimSuffix(f.Prefix, "::")
			add("prefix-single-colon", h+":"+hx)
			add("prefix-triple-colon", h+":::"+hx)
			add("prefix-height-negative", "-"+h+"::"+hx)
			add("prefix-height-plus", "+"+h+"::"+hx)
			add("prefix-height-hex", "0x"+h+"::"+hx)
			add("prefix-height-overflow", "18446744073709551616::"+hx)
			add("prefix-height-empty", "::"+hx)
			add("prefix-height-blank", " "+h+"::"+hx)
			add("prefix-height-float", h+".0::"+hx)
		}
	} else {
		add("prefix-added-0x", "0x"+hx)
		add("prefix-added-ed25519", "ed25519:"+hx)
		add("prefix-added-0x-same-length", "0x"+hx[2:])
	}
	if f.Suffix != "" {
		add("suffix-missing", f.Prefix+hx)
		add("suffix-doubled", s+f.Suffix)
	}
	// alphabet: one position replaced by a non-hex character
	pos := []int{0, 1, len(hx) / 2, len(hx) - 2, len(hx) - 1, rng.IntN(len(hx)), rng.IntN(len(hx))}
	for _, p := range pos {
		for _, ch := range nonHex {
			b := []byte(hx)
			b[p] = byte(ch)
			add("alphabet", mk(string(b)))
		}
		add("alphabet-multibyte", mk(hx[:p]+"é"+hx[p+1:]))
		add("alphabet-multibyte-same-length", mk(hx[:p]+"é"+hx[min(p+2, len(hx)):]))
	}
	add("alphabet-all", mk(strings.Repeat("z", len(hx))))
	add("alphabet-fullwidth", mk(strings.Repeat("０", len(hx)/3)+hx[len(hx)/3*3:]))
	// whitespace around
	add("blank-lead", " "+s)
	add("blank-trail", s+" ")
	add("blank-newline", s+"\n")
	add("blank-inner", mk(hx[:len(hx)/2]+" "+hx[len(hx)/2:]))
	// case: the same bytes written with upper-case digits
	out = append(out, corruption{class: "case-upper-all", s: mk(strings.ToUpper(hx)), sameBytes: true})
	for _, p := range pos {
		if c := hx[p]; c >= 'a' && c <= 'f' {
			b := []byte(hx)
			b[p] = c - 32
			out = append(out, corruption{class: "case-upper-one", s: mk(string(b)), sameBytes: true})
		}
	}
	return out
}

type corWitness struct {
	Form      string `json:"form"`
	Class     string `json:"class"`
	Original  string `json:"original"`
	Corrupted string `json:"corrupted"`
	Accepted  string `json:"accepted_as,omitempty"`
}

// judge runs one corrupted string. mustReject: the corruption changes the
// denoted content, so anything but an error (or, for forms without redundancy,
// the same value) is a violation.
func judge(b *harness.B, name, class, orig, cor string, sameBytes, strict bool, parse func(string) (string, error)) {
	b.Eval(1)
	b.Count("corruptions_tried", 1)
	w := corWitness{Form: name, Class: class, Original: orig, Corrupted: capStr(cor, 700)}
	var got string
	var err error
	if b.Guard("C20", func() any { return w }, func() { got, err = parse(cor) }) {
		b.Count("corruptions_panicked", 1)
		return
	}
	switch {
	case err != nil:
		b.Count("corruptions_rejected", 1)
	case got == orig && (sameBytes || !strict):
		b.Count("corruptions_accepted_as_same_value", 1)
		b.SetAdd("accepted_as_same_value", name+" "+class)
	case got == orig:
		// strict form (checksummed address): the string denotes different content
		// (e.g. another checksum) yet was accepted
		w.Accepted = got
		b.Violate(fmt.Sprintf("C20/corruption/%s/%s/accepted", name, class), fmt.Sprintf("%s: corrupted string %q (class %s) of %q was accepted", name, capStr(cor, 200), class, orig), w)
	default:
		w.Accepted = got
		b.Violate(fmt.Sprintf("C20/corruption/%s/%s/accepted-as-different-value", name, class), fmt.Sprintf("%s: corrupted string %q (class %s) of %q was accepted as the different value %q", name, capStr(cor, 200), class, orig, got), w)
	}
}

func runIDCorruption(b *harness.B, rng *rand.Rand, perForm int) {
	for _, f := range idForms() {
		f := f
		for k := 0; k < perForm; k++ {
			s := f.Gen(rng)
			// positive control: the canonical string is accepted as itself
			got, err := f.Parse(s)
			b.Eval(1)
			if err != nil || got != s {
				b.Violate(fmt.Sprintf("C20/corruption/%s/positive-control", f.Name), fmt.Sprintf("canonical string %q not accepted as itself: got %q, err %v", s, got, err), corWitness{Form: f.Name, Original: s})
				continue
			}
			b.Count("corruption_positive_controls", 1)
			for _, c := range corruptions(&f, s, rng) {
				judge(b, f.Name, c.class, s, c.s, c.sameBytes, false, f.Parse)
				b.Distinct("corrupt", f.Name, c.class)
			}
		}
	}
}

// ---------------------------------------------------------------------------
// addresses: EVERY position x several replacement characters

func runAddressCorruption(b *harness.B, rng *rand.Rand, nAddr int) {
	parsers := []struct {
		name  string
		parse func(string) (string, error)
	}{
		{"types.Address/text", func(s string) (string, error) {
			var a types.Address
			err := a.UnmarshalText([]byte(s))
			return a.String(), err
		}},
		{"types.ParseAddress", func(s string) (string, error) {
			a, err := types.ParseAddress(s)
			return a.String(), err
		}},
		{"types.Address/json", func(s string) (string, error) {
			var a types.Address
			js, _ := json.Marshal(s)
			err := json.Unmarshal(js, &a)
			return a.String(), err
		}},
		{"types.SiacoinOutput/json.address", func(s string) (string, error) {
			var o types.SiacoinOutput
			js, _ := json.Marshal(map[string]any{"value": "1", "address": s})
			err := json.Unmarshal(js, &o)
			return o.Address.String(), err
		}},
	}
	repl := []byte("0123456789abcdefABCDEFgG xz:\x00")
	for k := 0; k < nAddr; k++ {
		var a types.Address
		switch k {
		case 0: // the void address
		case 1:
			for i := range a {
				a[i] = 0xFF
			}
		default:
			for i := range a {
				a[i] = byte(rng.Uint32())
			}
		}
		s := a.String()
		if len(s) != 76 {
			b.Violate("C20/corruption/types.Address/length", fmt.Sprintf("address string has %d characters", len(s)), s)
			continue
		}
		for pi, p := range parsers {
			if got, err := p.parse(s); err != nil || got != s {
				b.Violate("C20/corruption/"+p.name+"/positive-control", fmt.Sprintf("own address string %q not accepted: %q, %v", s, got, err), s)
				continue
			}
			b.Count("corruption_positive_controls", 1)
			if pi >= 2 && k >= 3 && k%4 != 0 {
				continue // JSON paths share the text parser: sample them
			}
			for pos := 0; pos < len(s); pos++ {
				for _, r := range repl {
					if r == s[pos] {
						continue
					}
					c := []byte(s)
					c[pos] = r
					same := strings.EqualFold(string(c), s) // only the case of a hex letter changed
					class := "substitute-hex-digit"
					switch {
					case same:
						class = "case-change"
					case !strings.ContainsRune("0123456789abcdefABCDEF", rune(r)):
						class = "substitute-non-hex"
					case pos >= 64:
						class = "substitute-hex-digit-in-checksum"
					}
					judge(b, p.name, class, s, string(c), same, true, p.parse)
				}
				b.Distinct("addr", p.name, pos)
			}
			// wrong length / prefix / alphabet on the whole string
			f := idForm{Name: p.name, Bytes: 38, Parse: p.parse}
			for _, c := range corruptions(&f, s, rng) {
				judge(b, p.name, c.class, s, c.s, c.sameBytes, true, p.parse)
				b.Distinct("corrupt", p.name, c.class)
			}
			// transpositions of adjacent different characters and a valid checksum of another address
			for pos := 0; pos+1 < len(s); pos += 1 + rng.IntN(3) {
				if s[pos] != s[pos+1] {
					c := []byte(s)
					c[pos], c[pos+1] = c[pos+1], c[pos]
					judge(b, p.name, "transpose-adjacent", s, string(c), false, true, p.parse)
				}
			}
			var other types.Address
			other[0] = a[0] ^ 1
			judge(b, p.name, "checksum-of-another-address", s, s[:64]+other.String()[64:], false, true, p.parse)
			judge(b, p.name, "address-without-checksum", s, s[:64], false, true, p.parse)
			judge(b, p.name, "checksum-zeroed", s, s[:64]+"000000000000", false, true, p.parse)
		}
	}
	b.Count("address_positions_exhausted", 76)
}

// ---------------------------------------------------------------------------
// the other identifier syntaxes: unlock keys, specifiers, versions, work, currency

func runOtherCorruption(b *harness.B, rng *rand.Rand) {
	// UnlockKey <algorithm>:<hex key>: variable length, so the corruptions are a
	// missing separator, a non-hex key, an odd number of digits and an overlong algorithm
	ukParse := func(s string) (string, error) {
		var uk types.UnlockKey
		err := uk.UnmarshalText([]byte(s))
		out, _ := uk.MarshalText()
		return string(out), err
	}
	ukJSON := func(s string) (string, error) {
		var uk types.UnlockKey
		js, _ := json.Marshal(s)
		err := json.Unmarshal(js, &uk)
		out, _ := uk.MarshalText()
		return string(out), err
	}
	for _, p := range []struct {
		name  string
		parse func(string) (string, error)
	}{{"types.UnlockKey/text", ukParse}, {"types.UnlockKey/json", ukJSON}} {
		for _, alg := range []string{"ed25519", "entropy", `"a b"`, `"a:b"`, ""} {
			hx := randHex(rng, 32)
			s := alg + ":" + hx
			if got, err := p.parse(s); err != nil || got != s {
				b.Violate("C20/corruption/"+p.name+"/positive-control", fmt.Sprintf("canonical %q not accepted as itself: %q %v", s, got, err), s)
				continue
			}
			b.Count("corruption_positive_controls", 1)
			cases := []corruption{
				{class: "separator-missing", s: alg + hx},
				{class: "separator-semicolon", s: alg + ";" + hx},
				{class: "length-odd", s: alg + ":" + hx[:len(hx)-1]},
				{class: "alphabet", s: alg + ":" + "g" + hx[1:]},
				{class: "alphabet", s: alg + ":" + hx[:10] + " " + hx[11:]},
				{class: "alphabet", s: alg + ":" + hx[:len(hx)-1] + "\x00"},
				{class: "prefix-0x-key", s: alg + ":0x" + hx},
				{class: "algorithm-too-long", s: "abcdefghijklmnopq:" + hx},
				{class: "algorithm-too-long-quoted", s: `"abcdefghijklmnop q":` + hx},
				{class: "algorithm-bad-quote", s: `"abc:` + hx},
				{class: "blank-trail", s: s + " "},
				{class: "blank-lead-key", s: alg + ": " + hx},
				{class: "case-upper-all", s: alg + ":" + strings.ToUpper(hx), sameBytes: true},
			}
			for _, c := range cases {
				judge(b, p.name, c.class, s, c.s, c.sameBytes, false, p.parse)
				b.Distinct("corrupt", p.name, c.class, specifierClass(spec(strings.Trim(alg, `"`))))
			}
		}
	}
	// Specifier: at most 16 bytes, optionally a Go-quoted string
	spParse := func(s string) (string, error) {
		var sp types.Specifier
		err := sp.UnmarshalText([]byte(s))
		return sp.String(), err
	}
	for _, s := range []string{"ed25519", "abcdefghijklmnop", `"a b"`, `"a\"b"`} {
		if got, err := spParse(s); err != nil || got != s {
			b.Violate("C20/corruption/types.Specifier/positive-control", fmt.Sprintf("canonical %q not accepted as itself: %q %v", s, got, err), s)
			continue
		}
		b.Count("corruption_positive_controls", 1)
	}
	// overlong / malformed specifiers must never be accepted at all
	for _, bad := range []string{"abcdefghijklmnopq", strings.Repeat("x", 64), `"abcdefghijklmnop "`, "abcdefghijklmno\u00e9", `"abc`, `"a\q"`, `"a"b`} {
		b.Eval(1)
		b.Distinct("corrupt", "types.Specifier/text", bad)
		b.Count("corruptions_tried", 1)
		var sp types.Specifier
		var err error
		if b.Guard("C20", func() any { return bad }, func() { err = sp.UnmarshalText([]byte(bad)) }) {
			continue
		}
		if err == nil {
			b.Violate("C20/corruption/types.Specifier/text/malformed-accepted", fmt.Sprintf("malformed / overlong specifier %q accepted as %q", bad, sp.String()), bad)
		} else {
			b.Count("corruptions_rejected", 1)
		}
	}
	// protocol version v<a>.<b>.<c>
	pvParse := func(s string) (string, error) {
		var v rhp4.ProtocolVersion
		err := v.UnmarshalText([]byte(s))
		return v.String(), err
	}
	pvJSON := func(s string) (string, error) {
		var v rhp4.ProtocolVersion
		js, _ := json.Marshal(s)
		err := json.Unmarshal(js, &v)
		return v.String(), err
	}
	for _, p := range []struct {
		name  string
		parse func(string) (string, error)
	}{{"rhp/v4.ProtocolVersion/text", pvParse}, {"rhp/v4.ProtocolVersion/json", pvJSON}} {
		for _, s := range []string{"v1.2.3", "v0.0.0", "v255.255.255", "v10.20.30"} {
			if got, err := p.parse(s); err != nil || got != s {
				b.Violate("C20/corruption/"+p.name+"/positive-control", fmt.Sprintf("canonical %q not accepted as itself: %q %v", s, got, err), s)
				continue
			}
			b.Count("corruption_positive_controls", 1)
			body := s[1:]
			for _, c := range []corruption{
				{class: "prefix-missing", s: body},
				{class: "prefix-upper", s: "V" + body},
				{class: "prefix-wrong", s: "x" + body},
				{class: "prefix-doubled", s: "vv" + body},
				{class: "length-two-components", s: s[:strings.LastIndexByte(s, '.')]},
				{class: "component-overflow", s: "v256.0.0"},
				{class: "component-negative", s: "v-1.2.3"},
				{class: "component-empty", s: "v1..3"},
				{class: "separator-comma", s: strings.ReplaceAll(s, ".", ",")},
				{class: "alphabet", s: "v1.a.3"},
				{class: "blank-lead", s: " " + s},
			} {
				judge(b, p.name, c.class, s, c.s, false, false, p.parse)
				b.Distinct("corrupt", p.name, c.class)
			}
		}
	}
	// Currency with a unit suffix: the number is a plain decimal there too
	curParse := func(s string) (string, error) {
		c, err := types.ParseCurrency(s)
		return c.String(), err
	}
	for _, n := range []string{"10", "11", "17", "777"} {
		s := n + " SC"
		if got, err := curParse(s); err != nil || got != s {
			b.Violate("C20/corruption/types.Currency/unit-suffixed/positive-control", fmt.Sprintf("canonical %q not accepted as itself: %q %v", s, got, err), s)
			continue
		}
		b.Count("corruption_positive_controls", 1)
		for _, c := range []corruption{
			{class: "leading-zero", s: "0" + s},
			{class: "hex-prefix", s: "0x" + s},
			{class: "binary-prefix", s: "0b" + s},
			{class: "octal-prefix", s: "0o" + s},
			{class: "digit-separator", s: n[:1] + "_" + n[1:] + " SC"},
			{class: "quotient-with-a-leading-zero", s: "0" + n + "/1 SC"},
			{class: "hexadecimal-fraction", s: "0x" + n + ".8 SC"},
		} {
			judge(b, "types.Currency/unit-suffixed", c.class, s, c.s, false, false, curParse)
			b.Distinct("corrupt", "types.Currency/unit-suffixed", c.class)
		}
	}
	// Work: non-negative decimal below 2^256
	wkParse := func(s string) (string, error) {
		var w consensus.Work
		err := w.UnmarshalText([]byte(s))
		return w.String(), err
	}
	for _, s := range []string{"0", "1", "10", "11", "777", "1000", "115792089237316195423570985008687907853269984665640564039457584007913129639935"} {
		if got, err := wkParse(s); err != nil || got != s {
			b.Violate("C20/corruption/consensus.Work/positive-control", fmt.Sprintf("canonical %q not accepted as itself: %q %v", s, got, err), s)
			continue
		}
		b.Count("corruption_positive_controls", 1)
		for _, c := range []corruption{
			{class: "negative", s: "-" + s},
			{class: "overflow", s: "115792089237316195423570985008687907853269984665640564039457584007913129639936"},
			{class: "alphabet", s: s + "x"},
			{class: "empty", s: ""},
			{class: "fraction", s: s + ".5"},
			{class: "blank", s: " " + s},
			// every textual form of a Work is a plain decimal number: the notations of other bases either denote the
			// decimal value or nothing
			{class: "leading-zero", s: "0" + s},
			{class: "hex-prefix", s: "0x" + s},
			{class: "binary-prefix", s: "0b" + s},
			{class: "octal-prefix", s: "0o" + s},
			{class: "digit-separator", s: s[:1] + "_" + s[1:]},
		} {
			if c.class == "negative" && s == "0" {
				continue // "-0" denotes the same value
			}
			judge(b, "consensus.Work/text", c.class, s, c.s, false, false, wkParse)
			b.Distinct("corrupt", "consensus.Work/text", c.class)
		}
	}
}
