package main

import (
	"bytes"
	"fmt"
	"math"
	"reflect"
	"strings"
	"time"

	"go.sia.tech/core/types"
	"verif/internal/valgen"
)

// policyFeatures reports the two value classes for which the STRING form of a
// legacy unlock-conditions policy is suspected not to re-parse (DESIGN §7 rows
// 12 and 15): a 64-bit signature count above 255, and a key-algorithm
// specifier containing one of the tokenizer's delimiters.
func policyFeatures(p types.SpendPolicy) (sigOver255, delim bool) {
	var walk func(p types.SpendPolicy)
	walk = func(p types.SpendPolicy) {
		switch t := p.Type.(type) {
		case types.PolicyTypeThreshold:
			for _, sp := range t.Of {
				walk(sp)
			}
		case types.PolicyTypeUnlockConditions:
			if t.SignaturesRequired > 255 {
				sigOver255 = true
			}
			for _, k := range t.PublicKeys {
				if strings.ContainsAny(strings.TrimRight(string(k.Algorithm[:]), "\x00"), "(),[]") {
					delim = true
				}
			}
		}
	}
	walk(p)
	return
}

// withoutFeatures returns a deep copy of p with those two classes removed, so
// that a value that has them is still judged on everything else.
func withoutFeatures(p types.SpendPolicy) types.SpendPolicy {
	c := valgen.DeepCopy(p)
	rewrite(reflect.ValueOf(&c).Elem(), func(v reflect.Value) bool {
		if uc, ok := v.Interface().(types.PolicyTypeUnlockConditions); ok && v.Kind() == reflect.Struct {
			uc.SignaturesRequired &= 0xFF
			for i := range uc.PublicKeys {
				for j, ch := range uc.PublicKeys[i].Algorithm {
					if strings.ContainsRune("(),[]", rune(ch)) {
						uc.PublicKeys[i].Algorithm[j] = '_'
					}
				}
			}
			v.Set(reflect.ValueOf(uc))
			return true
		}
		return false
	})
	return c
}

func policyShape(p types.SpendPolicy) string {
	var sb strings.Builder
	var walk func(p types.SpendPolicy, d int)
	walk = func(p types.SpendPolicy, d int) {
		switch t := p.Type.(type) {
		case types.PolicyTypeAbove:
			sb.WriteString("ab")
		case types.PolicyTypeAfter:
			if time.Time(t).Unix() < 0 {
				sb.WriteString("af-")
			} else {
				sb.WriteString("af")
			}
		case types.PolicyTypePublicKey:
			sb.WriteString("pk")
		case types.PolicyTypeHash:
			sb.WriteString("h")
		case types.PolicyTypeOpaque:
			sb.WriteString("op")
		case types.PolicyTypeThreshold:
			fmt.Fprintf(&sb, "th%d(", min(len(t.Of), 3))
			for _, sp := range t.Of {
				walk(sp, d+1)
				sb.WriteByte(',')
			}
			sb.WriteByte(')')
		case types.PolicyTypeUnlockConditions:
			fmt.Fprintf(&sb, "uc[k%d,s%d", min(len(t.PublicKeys), 3), bitlen(t.SignaturesRequired))
			for _, k := range t.PublicKeys {
				sb.WriteString("," + specifierClass(k.Algorithm))
			}
			sb.WriteByte(']')
		}
	}
	walk(p, 0)
	return sb.String()
}

// policyString judges the String()/ParseSpendPolicy form of one policy.
func (c *checker) policyString(e *entry, f *form, p *types.SpendPolicy, origin string) {
	b := c.b
	b.Distinct("rt", e.Name, f.Name, origin, policyShape(*p))
	sig, delim := policyFeatures(*p)
	class, detail, wit := c.roundtripForm(e, f, p)
	if class == "panicked" {
		return
	}
	if !sig && !delim {
		if class != "" {
			b.Violate(fmt.Sprintf("C20/roundtrip/%s/%s/%s", e.Short, f.Name, class), detail, wit)
		}
		return
	}
	feature := "uc.SignaturesRequired>255"
	if !sig {
		feature = "uc.specifier-with-delimiter"
	}
	if class == "" {
		b.Count("policy_string_suspected_class_roundtrips_fine:"+feature, 1)
	} else {
		wit.Note = "value class: " + feature + "; failure: " + class
		b.Violate(fmt.Sprintf("C20/roundtrip/%s/%s/%s", e.Short, f.Name, feature), detail, wit)
		b.Count("policy_string_failures:"+feature, 1)
	}
	// judge the same policy with the two classes removed under the ordinary rule,
	// so that a second defect cannot hide behind the known ones
	q := withoutFeatures(*p)
	if s2, d2 := policyFeatures(q); s2 || d2 {
		b.Inconclusive("policy repair left a suspected class in place")
		return
	}
	b.Eval(1)
	if class, detail, wit := c.roundtripForm(e, f, &q); class != "" && class != "panicked" {
		b.Violate(fmt.Sprintf("C20/roundtrip/%s/%s/%s", e.Short, f.Name, class), detail, wit)
	}
}

func spec(s string) (x types.Specifier) { copy(x[:], s); return }

func encBin(v types.EncoderTo) []byte {
	var buf bytes.Buffer
	e := types.NewEncoder(&buf)
	v.EncodeTo(e)
	e.Flush()
	return buf.Bytes()
}

// runPolicyDirected enumerates the policy string/JSON forms over isolated
// unusual features: every kind alone, every kind nested in a threshold in
// every position, signature counts around 2^8/2^32/2^64, every unusual
// specifier class on its own.
func (c *checker) runPolicyDirected() {
	b := c.b
	var e *entry
	for _, x := range Registry() {
		if x.Name == "types.SpendPolicy" {
			e = x
		}
	}
	pk := types.PublicKey{1, 2, 3, 0xFF}
	key := types.UnlockKey{Algorithm: types.SpecifierEd25519, Key: pk[:]}
	uc := func(tl uint64, sigs uint64, keys ...types.UnlockKey) types.SpendPolicy {
		return types.SpendPolicy{Type: types.PolicyTypeUnlockConditions{Timelock: tl, PublicKeys: keys, SignaturesRequired: sigs}}
	}
	leaves := []types.SpendPolicy{
		types.PolicyAbove(0), types.PolicyAbove(math.MaxUint64),
		types.PolicyAfter(time.Unix(0, 0)), types.PolicyAfter(time.Unix(-1, 0)), types.PolicyAfter(time.Unix(253402300799, 0)), types.PolicyAfter(time.Time{}), types.PolicyAfter(time.Unix(1700000000, 999999999)),
		types.PolicyPublicKey(pk), types.PolicyPublicKey(types.PublicKey{}),
		types.PolicyHash(types.Hash256{0xAB}), {Type: types.PolicyTypeOpaque(types.Address{0xCD})},
		types.AnyoneCanSpend(), types.PolicyThreshold(0, []types.SpendPolicy{}), types.PolicyThreshold(255, nil),
		uc(0, 1, key), uc(math.MaxUint64, 0), uc(0, 0, types.UnlockKey{}), uc(5, 2, key, key, types.UnlockKey{Algorithm: spec("entropy"), Key: []byte{}}),
	}
	for _, p := range leaves {
		p := p
		c.roundtrip(e, &p, "directed-leaf")
	}
	// nesting: each leaf inside thresholds of depth 1..3, at first / middle / last position
	for _, p := range leaves {
		for depth := 1; depth <= 3; depth++ {
			for pos := 0; pos < 3; pos++ {
				q := p
				for d := 0; d < depth; d++ {
					of := []types.SpendPolicy{types.PolicyAbove(1), types.PolicyAbove(2)}
					of = append(of[:pos], append([]types.SpendPolicy{q}, of[pos:]...)...)
					q = types.PolicyThreshold(uint8(d+1), of)
				}
				c.roundtrip(e, &q, "directed-nested")
			}
		}
	}
	// nesting up to the deepest policy the binary codec carries (the root is depth 0, a leaf may sit at depth 32):
	// every form that prints such a policy parses it back
	for _, depth := range []int{4, 16, 30, 31, 32} {
		for _, leaf := range []types.SpendPolicy{types.PolicyAbove(7), types.PolicyPublicKey(pk), {Type: types.PolicyTypeOpaque(types.Address{0xCD})}} {
			q := leaf
			for d := 0; d < depth; d++ {
				q = types.PolicyThreshold(1, []types.SpendPolicy{q})
			}
			var back types.SpendPolicy
			dec := types.NewBufDecoder(encBin(q))
			back.DecodeFrom(dec)
			if dec.Err() != nil {
				b.Count(fmt.Sprintf("observed:depth-%d-not-carried-by-the-binary-codec", depth), 1)
				continue
			}
			c.roundtrip(e, &q, fmt.Sprintf("directed-depth-%d", depth))
			b.Count("policy_directed_deep_nestings", 1)
		}
	}
	// wide policies: every threshold within the 255 children the binary codec carries, the text forms tens and hundreds
	// of kilobytes long
	for _, w := range [][2]int{{16, 64}, {255, 5}, {32, 255}, {255, 255}} {
		var groups []types.SpendPolicy
		for g := 0; g < w[0]; g++ {
			var of []types.SpendPolicy
			for k := 0; k < w[1]; k++ {
				of = append(of, types.PolicyPublicKey(types.PublicKey{byte(g), byte(k), 7}))
			}
			groups = append(groups, types.PolicyThreshold(1, of))
		}
		q := types.PolicyThreshold(1, groups)
		var back types.SpendPolicy
		dec := types.NewBufDecoder(encBin(q))
		back.DecodeFrom(dec)
		if dec.Err() != nil {
			b.Count(fmt.Sprintf("observed:width-%dx%d-not-carried-by-the-binary-codec", w[0], w[1]), 1)
			continue
		}
		c.roundtrip(e, &q, fmt.Sprintf("directed-wide-%dx%d", w[0], w[1]))
		b.Count("policy_directed_wide_policies", 1)
		b.MaxOf("policy_directed_longest_text_form_bytes", int64(len(q.String())))
	}
	// signature counts
	for _, sigs := range []uint64{0, 1, 2, 254, 255, 256, 257, 1<<16 - 1, 1 << 16, 1<<32 - 1, 1 << 32, 1<<63 - 1, 1 << 63, math.MaxUint64} {
		p := uc(0, sigs, key)
		class, _, _ := c.roundtripForm(e, e.form("string"), &p)
		b.SetAdd("policy_string_uc_signature_count_outcomes", fmt.Sprintf("bits=%02d:%s", bitlen(sigs), okOr(class)))
		c.roundtrip(e, &p, "directed-sigs")
		n := types.PolicyThreshold(1, []types.SpendPolicy{p})
		c.roundtrip(e, &n, "directed-sigs-nested")
	}
	// specifier classes, one at a time, standard count
	for _, us := range unusualSpecifiers {
		k := types.UnlockKey{Algorithm: spec(us.s), Key: pk[:]}
		p := uc(0, 1, k)
		class, _, _ := c.roundtripForm(e, e.form("string"), &p)
		b.SetAdd("policy_string_uc_specifier_class_outcomes", us.class+":"+okOr(class))
		c.roundtrip(e, &p, "directed-spec")
		p2 := uc(0, 1, key, k, key)
		c.roundtrip(e, &p2, "directed-spec-middle")
	}
	b.Count("policy_directed_cases", 1)
}

func okOr(class string) string {
	if class == "" {
		return "roundtrips"
	}
	if i := strings.IndexByte(class, '/'); i > 0 {
		class = class[:i]
	}
	return "FAILS(" + class + ")"
}
