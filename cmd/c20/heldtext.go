package main

import (
	"encoding"
	"fmt"
	"math/rand/v2"
	"reflect"
	"sync"

	"go.sia.tech/core/types"
	"verif/internal/harness"
)

// runHeldTexts: a caller that collects the texts of several values (a list of IDs for a request, a map key set)
// before using them holds several MarshalText results at once; each text stays the text of the value it was made
// from. One goroutine holding k texts, then several goroutines marshalling and parsing side by side.
func runHeldTexts(b *harness.B, rng *rand.Rand) {
	rnd32 := func() (h [32]byte) {
		for i := range h {
			h[i] = byte(rng.Uint32())
		}
		return
	}
	type tv struct {
		name string
		mk   func() encoding.TextMarshaler
		back func() encoding.TextUnmarshaler
	}
	kinds := []tv{
		{"Hash256", func() encoding.TextMarshaler { return types.Hash256(rnd32()) }, func() encoding.TextUnmarshaler { return new(types.Hash256) }},
		{"BlockID", func() encoding.TextMarshaler { return types.BlockID(rnd32()) }, func() encoding.TextUnmarshaler { return new(types.BlockID) }},
		{"TransactionID", func() encoding.TextMarshaler { return types.TransactionID(rnd32()) }, func() encoding.TextUnmarshaler { return new(types.TransactionID) }},
		{"AttestationID", func() encoding.TextMarshaler { return types.AttestationID(rnd32()) }, func() encoding.TextUnmarshaler { return new(types.AttestationID) }},
		{"SiacoinOutputID", func() encoding.TextMarshaler { return types.SiacoinOutputID(rnd32()) }, func() encoding.TextUnmarshaler { return new(types.SiacoinOutputID) }},
		{"SiafundOutputID", func() encoding.TextMarshaler { return types.SiafundOutputID(rnd32()) }, func() encoding.TextUnmarshaler { return new(types.SiafundOutputID) }},
		{"FileContractID", func() encoding.TextMarshaler { return types.FileContractID(rnd32()) }, func() encoding.TextUnmarshaler { return new(types.FileContractID) }},
		{"PublicKey", func() encoding.TextMarshaler { return types.PublicKey(rnd32()) }, func() encoding.TextUnmarshaler { return new(types.PublicKey) }},
		{"Address", func() encoding.TextMarshaler { return types.Address(rnd32()) }, func() encoding.TextUnmarshaler { return new(types.Address) }},
		{"Signature", func() encoding.TextMarshaler {
			var s types.Signature
			a, c := rnd32(), rnd32()
			copy(s[:], a[:])
			copy(s[32:], c[:])
			return s
		}, func() encoding.TextUnmarshaler { return new(types.Signature) }},
		{"Currency", func() encoding.TextMarshaler { return types.NewCurrency(rng.Uint64(), rng.Uint64()>>uint(rng.IntN(64))) }, func() encoding.TextUnmarshaler { return new(types.Currency) }},
		{"Specifier", func() encoding.TextMarshaler { return types.NewSpecifier(fmt.Sprintf("spec%d", rng.IntN(1000000))) }, func() encoding.TextUnmarshaler { return new(types.Specifier) }},
	}
	check := func(name, how string, vals []encoding.TextMarshaler, texts [][]byte, backs []func() encoding.TextUnmarshaler) {
		for i, v := range vals {
			got := backs[i]()
			b.Eval(1)
			b.Count("held_texts_parsed_back", 1)
			if err := got.UnmarshalText(texts[i]); err != nil {
				b.Violate("C20/held-text/"+how+"/"+name, fmt.Sprintf("the text %q obtained from MarshalText of a %s and held while %d other values were marshalled no longer parses: %v", texts[i], name, len(vals)-1, err), nil)
				return
			}
			if !reflect.DeepEqual(reflect.ValueOf(got).Elem().Interface(), reflect.ValueOf(v).Interface()) {
				b.Violate("C20/held-text/"+how+"/"+name, fmt.Sprintf("the text obtained from MarshalText of %s %v, held while %d other values were marshalled, now reads %q and parses to %v", name, v, len(vals)-1, texts[i], reflect.ValueOf(got).Elem().Interface()), nil)
				return
			}
		}
	}
	// (1) one goroutine, k texts of one kind, then of mixed kinds, held together
	for round := 0; round < 8; round++ {
		for _, kd := range kinds {
			k := 2 + rng.IntN(6)
			var vals []encoding.TextMarshaler
			var texts [][]byte
			var backs []func() encoding.TextUnmarshaler
			for i := 0; i < k; i++ {
				v := kd.mk()
				t, err := v.MarshalText()
				if err != nil {
					b.Inconclusive("MarshalText failed: " + err.Error())
					return
				}
				vals, texts, backs = append(vals, v), append(texts, t), append(backs, kd.back)
			}
			check(kd.name, "one-kind", vals, texts, backs)
			b.Distinct("held-text", kd.name, k)
		}
		var vals []encoding.TextMarshaler
		var texts [][]byte
		var backs []func() encoding.TextUnmarshaler
		for _, i := range rng.Perm(len(kinds)) {
			v := kinds[i].mk()
			t, _ := v.MarshalText()
			vals, texts, backs = append(vals, v), append(texts, t), append(backs, kinds[i].back)
		}
		check("mixed", "mixed-kinds", vals, texts, backs)
	}
	// (2) goroutines side by side, each marshalling a value, yielding, and parsing its own text
	type job struct {
		kd tv
		v  encoding.TextMarshaler
	}
	var jobs []job
	for i := 0; i < 64; i++ {
		kd := kinds[rng.IntN(len(kinds))]
		jobs = append(jobs, job{kd, kd.mk()})
	}
	var wg sync.WaitGroup
	bad := make([]string, len(jobs))
	for i, j := range jobs {
		wg.Add(1)
		go func() {
			defer wg.Done()
			for rep := 0; rep < 50; rep++ {
				t, _ := j.v.MarshalText()
				s := string(t)
				want := fmt.Sprint(j.v)
				_ = want
				got := j.kd.back()
				if err := got.UnmarshalText([]byte(s)); err != nil || !reflect.DeepEqual(reflect.ValueOf(got).Elem().Interface(), reflect.ValueOf(j.v).Interface()) {
					bad[i] = fmt.Sprintf("%s %v read back from its own text %q as %v (err %v) while other goroutines marshalled", j.kd.name, j.v, s, reflect.ValueOf(got).Elem().Interface(), err)
					return
				}
			}
		}()
	}
	wg.Wait()
	b.Count("concurrent_text_roundtrips", len(jobs)*50)
	for i, m := range bad {
		if m != "" {
			b.Violate("C20/held-text/concurrent/"+jobs[i].kd.name, m, nil)
			break
		}
	}
}
