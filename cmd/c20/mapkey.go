package main

import (
	"encoding/json"
	"fmt"
	"reflect"
)

// mapKeys: encoding/json writes a map key with the key type's MarshalText; a type that offers a text form and is
// comparable can therefore appear as the key of a JSON object, and that output has to parse back to the same key.
func (c *checker) mapKeys(e *entry, vals []any) {
	t := e.Type
	if !t.Comparable() || !t.Implements(textMarshaler) || !reflect.PointerTo(t).Implements(textUnmarshaler) {
		return
	}
	mt := reflect.MapOf(t, reflect.TypeOf(0))
	m := reflect.MakeMap(mt)
	for i, v := range vals {
		m.SetMapIndex(reflect.ValueOf(v).Elem(), reflect.ValueOf(i+1))
	}
	var js []byte
	var err error
	back := reflect.New(mt)
	if c.b.Guard("C20/map-key/"+e.Short+"/panic", func() any { return e.Name }, func() {
		js, err = json.Marshal(m.Interface())
		if err == nil {
			err = json.Unmarshal(js, back.Interface())
		}
	}) {
		return
	}
	c.b.Eval(1)
	c.b.Count("map_key_roundtrips", 1)
	c.b.Distinct("map-key", e.Short)
	c.b.SetAdd("types_round_tripped_as_json_object_keys", e.Short)
	if err != nil {
		c.b.Violate("C20/roundtrip/"+e.Short+"/json-object-key/parse-error", fmt.Sprintf("a map keyed by %s is written by encoding/json as %.200s and does not parse back: %v", e.Name, js, err), map[string]any{"json": string(js)})
		return
	}
	if back.Elem().Len() != m.Len() {
		c.b.Violate("C20/roundtrip/"+e.Short+"/json-object-key/differs", fmt.Sprintf("a map keyed by %s written as %.200s parses back with %d keys instead of %d", e.Name, js, back.Elem().Len(), m.Len()), nil)
		return
	}
	for _, k := range m.MapKeys() {
		if got := back.Elem().MapIndex(k); !got.IsValid() || got.Int() != m.MapIndex(k).Int() {
			c.b.Violate("C20/roundtrip/"+e.Short+"/json-object-key/differs", fmt.Sprintf("a map keyed by %s written as %.200s parses back without the key %v (or with another value under it)", e.Name, js, k.Interface()), nil)
			return
		}
	}
}
