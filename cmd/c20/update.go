package main

import (
	"bytes"
	"encoding/json"
	"fmt"
	"reflect"
	"sort"
	"strings"

	"go.sia.tech/core/consensus"
	"go.sia.tech/core/types"
	"verif/internal/chaingen"
	"verif/internal/elems"
	"verif/internal/harness"
	"verif/internal/valgen"
)

// shadow is a second client store that sees ONLY updates that have been
// through json.Marshal -> json.Unmarshal. After every apply and revert it must
// equal the chain's own store (driven by the original updates) element for
// element, leaf index for leaf index and proof hash for proof hash, and its
// proofs must verify against the state.
type shadow struct {
	usedAU consensus.ApplyUpdate // every update is also read into these, which hold the previous one
	usedRU consensus.RevertUpdate
	b      *harness.B
	c      *chaingen.Chain
	S      *chaingen.Store
	ctx    string // network family / scenario, for witnesses
	// resync: the shadow could not follow the last update (reported); copy the chain's store
	resync bool
	// lastJSON is the JSON form of the update being judged (for witnesses)
	lastJSON string
	// divergences seen (for the caller's minimal-witness search)
	diverged int
}

func newShadow(b *harness.B, c *chaingen.Chain, ctx string) *shadow {
	s := &shadow{b: b, c: c, S: chaingen.NewStore(), ctx: ctx}
	return s
}

type updWitness struct {
	Context   string         `json:"context"`
	Update    string         `json:"update"`
	Height    uint64         `json:"height"`
	OldLeaves uint64         `json:"leaves_before"`
	NewLeaves uint64         `json:"leaves_after"`
	Kinds     []string       `json:"block_kinds,omitempty"`
	Element   string         `json:"element,omitempty"`
	Leaf      uint64         `json:"leaf_index"`
	ProofIdx  int            `json:"proof_index"`
	Original  string         `json:"proof_hash_from_original_update,omitempty"`
	RoundTrip string         `json:"proof_hash_from_roundtripped_update,omitempty"`
	Updated   []uint64       `json:"updated_leaf_indices,omitempty"`
	JSON      string         `json:"update_json,omitempty"`
	Extra     map[string]any `json:"extra,omitempty"`
}

// roundtripApply sends au through JSON; ok=false if that failed (reported).
func (s *shadow) roundtripApply(au consensus.ApplyUpdate, w updWitness) (out consensus.ApplyUpdate, js []byte, ok bool) {
	b := s.b
	var err error
	if b.Guard("C20", func() any { return w }, func() { js, err = json.Marshal(au) }) {
		return out, nil, false
	}
	if err != nil {
		b.Violate("C20/update-roundtrip/ApplyUpdate/marshal-error", "json.Marshal(ApplyUpdate) of a real block failed: "+err.Error(), w)
		return out, nil, false
	}
	w.JSON = capStr(string(js), 6000)
	if b.Guard("C20", func() any { return w }, func() { err = json.Unmarshal(js, &out) }) {
		return out, js, false
	}
	if err != nil {
		b.Violate("C20/update-roundtrip/ApplyUpdate/unmarshal-error", "ApplyUpdate does not parse its own JSON: "+err.Error(), w)
		return out, js, false
	}
	// parse(format(v)) ≡ v on everything the update exposes
	s.compareDiffs("ApplyUpdate", w,
		au.SiacoinElementDiffs(), out.SiacoinElementDiffs(), au.SiafundElementDiffs(), out.SiafundElementDiffs(),
		au.FileContractElementDiffs(), out.FileContractElementDiffs(), au.V2FileContractElementDiffs(), out.V2FileContractElementDiffs(),
		au.ChainIndexElement(), out.ChainIndexElement())
	var js2 []byte
	if !b.Guard("C20", func() any { return w }, func() { js2, err = json.Marshal(out) }) && (err != nil || !bytes.Equal(js, js2)) {
		b.Violate("C20/update-roundtrip/ApplyUpdate/rejson-differs", fmt.Sprintf("json(parse(json(au))) != json(au) (err=%v)", err), w)
	}
	// a client that reads every stored update into one variable: the variable still holds the previous block's update
	var js3 []byte
	if !b.Guard("C20", func() any { return w }, func() {
		if err = json.Unmarshal(js, &s.usedAU); err == nil {
			js3, err = json.Marshal(s.usedAU)
		}
	}) {
		b.Count("updates_read_into_a_used_value", 1)
		if err != nil || !bytes.Equal(js, js3) {
			b.Violate("C20/update-roundtrip/ApplyUpdate/read-into-a-used-value/rejson-differs", fmt.Sprintf("the JSON of an ApplyUpdate read into a variable that held the previous block's update reads back differently (err=%v)", err), w)
			s.usedAU = consensus.ApplyUpdate{}
		}
	}
	return out, js, true
}

func (s *shadow) roundtripRevert(ru consensus.RevertUpdate, w updWitness) (out consensus.RevertUpdate, js []byte, ok bool) {
	b := s.b
	var err error
	if b.Guard("C20", func() any { return w }, func() { js, err = json.Marshal(ru) }) {
		return out, nil, false
	}
	if err != nil {
		b.Violate("C20/update-roundtrip/RevertUpdate/marshal-error", "json.Marshal(RevertUpdate) of a real block failed: "+err.Error(), w)
		return out, nil, false
	}
	w.JSON = capStr(string(js), 6000)
	if b.Guard("C20", func() any { return w }, func() { err = json.Unmarshal(js, &out) }) {
		return out, js, false
	}
	if err != nil {
		b.Violate("C20/update-roundtrip/RevertUpdate/unmarshal-error", "RevertUpdate does not parse its own JSON: "+err.Error(), w)
		return out, js, false
	}
	s.compareDiffs("RevertUpdate", w,
		ru.SiacoinElementDiffs(), out.SiacoinElementDiffs(), ru.SiafundElementDiffs(), out.SiafundElementDiffs(),
		ru.FileContractElementDiffs(), out.FileContractElementDiffs(), ru.V2FileContractElementDiffs(), out.V2FileContractElementDiffs(),
		ru.ChainIndexElement(), out.ChainIndexElement())
	var js2 []byte
	if !b.Guard("C20", func() any { return w }, func() { js2, err = json.Marshal(out) }) && (err != nil || !bytes.Equal(js, js2)) {
		b.Violate("C20/update-roundtrip/RevertUpdate/rejson-differs", fmt.Sprintf("json(parse(json(ru))) != json(ru) (err=%v)", err), w)
	}
	var js3 []byte
	if !b.Guard("C20", func() any { return w }, func() {
		if err = json.Unmarshal(js, &s.usedRU); err == nil {
			js3, err = json.Marshal(s.usedRU)
		}
	}) {
		b.Count("updates_read_into_a_used_value", 1)
		if err != nil || !bytes.Equal(js, js3) {
			b.Violate("C20/update-roundtrip/RevertUpdate/read-into-a-used-value/rejson-differs", fmt.Sprintf("the JSON of a RevertUpdate read into a variable that held an earlier update reads back differently (err=%v)", err), w)
			s.usedRU = consensus.RevertUpdate{}
		}
	}
	return out, js, true
}

// compareDiffs compares the accessor results pairwise (original, round-tripped).
func (s *shadow) compareDiffs(kind string, w updWitness, pairs ...any) {
	names := []string{"SiacoinElementDiffs", "SiafundElementDiffs", "FileContractElementDiffs", "V2FileContractElementDiffs", "ChainIndexElement"}
	for i := 0; i+1 < len(pairs); i += 2 {
		a, c := valgen.CopyAny(pairs[i]), valgen.CopyAny(pairs[i+1])
		pa, pc := ptrTo(a), ptrTo(c)
		valgen.Canon(pa)
		valgen.Canon(pc)
		if d := valgen.Diff(pa, pc); d != "" {
			w.Extra = map[string]any{"accessor": names[i/2], "diff": capStr(d, 600)}
			s.b.Violate(fmt.Sprintf("C20/update-roundtrip/%s/diff-differs/%s/%s", kind, names[i/2], diffClass(d)),
				fmt.Sprintf("%s.%s() differs after a JSON round trip: %s", kind, names[i/2], capStr(d, 400)), w)
		}
		s.b.Count("update_diff_accessors_compared", 1)
	}
}

// OnApply is called with the original update BEFORE the chain's store sees it.
func (s *shadow) OnApply(ev chaingen.ApplyEvent) {
	w := updWitness{Context: s.ctx, Update: "ApplyUpdate", Height: ev.Next.Index.Height, OldLeaves: ev.Prev.Elements.NumLeaves, NewLeaves: ev.Next.Elements.NumLeaves, Kinds: ev.Kinds}
	au2, js, ok := s.roundtripApply(ev.AU, w)
	s.lastJSON = string(js)
	if !ok {
		s.resync = true
		return
	}
	if s.b.Guard("C20", func() any { return w }, func() { s.S.Apply(au2) }) {
		s.resync = true
	}
	s.b.Count("update_roundtrips_apply", 1)
}

// AfterApply is called when the chain's own store has applied the original.
func (s *shadow) AfterApply(ev chaingen.ApplyEvent) {
	w := updWitness{Context: s.ctx, Update: "ApplyUpdate", Height: ev.Next.Index.Height, OldLeaves: ev.Prev.Elements.NumLeaves, NewLeaves: ev.Next.Elements.NumLeaves, Kinds: ev.Kinds}
	for _, d := range ev.AU.SiacoinElementDiffs() {
		if d.Spent && !d.Created {
			w.Updated = append(w.Updated, d.SiacoinElement.StateElement.LeafIndex)
		}
	}
	s.compare("ApplyUpdate", ev.Next, w)
	s.b.Distinct("upd-apply", s.family(), ev.Prev.Elements.NumLeaves&0x3f, len(w.Updated) > 0, ev.Next.Elements.NumLeaves-ev.Prev.Elements.NumLeaves > 3, strings.Join(ev.Kinds, ","))
}

func (s *shadow) OnRevert(ev chaingen.RevertEvent) {
	w := updWitness{Context: s.ctx, Update: "RevertUpdate", Height: ev.Reverted.Index.Height, OldLeaves: ev.Reverted.Elements.NumLeaves, NewLeaves: ev.Prev.Elements.NumLeaves}
	ru2, js, ok := s.roundtripRevert(ev.RU, w)
	s.lastJSON = string(js)
	if !ok {
		s.resync = true
		return
	}
	if s.b.Guard("C20", func() any { return w }, func() { s.S.Revert(ru2, ev.Prev.Elements.NumLeaves) }) {
		s.resync = true
	}
	s.b.Count("update_roundtrips_revert", 1)
}

func (s *shadow) AfterRevert(ev chaingen.RevertEvent) {
	w := updWitness{Context: s.ctx, Update: "RevertUpdate", Height: ev.Reverted.Index.Height, OldLeaves: ev.Reverted.Elements.NumLeaves, NewLeaves: ev.Prev.Elements.NumLeaves}
	for _, d := range ev.RU.SiacoinElementDiffs() {
		if d.Spent && !d.Created {
			w.Updated = append(w.Updated, d.SiacoinElement.StateElement.LeafIndex)
		}
	}
	s.compare("RevertUpdate", ev.Prev, w)
	s.b.Distinct("upd-revert", s.family(), ev.Prev.Elements.NumLeaves&0x3f, len(w.Updated) > 0)
}

func (s *shadow) family() string {
	if i := strings.IndexByte(s.ctx, ' '); i > 0 {
		return s.ctx[:i]
	}
	return s.ctx
}

type tracked struct {
	kind string
	id   string
	se   types.StateElement
	hash elems.Hash
	body any
}

func snapshot(st *chaingen.Store) map[string]tracked {
	m := map[string]tracked{}
	for id, e := range st.SCEs {
		b := e.Copy()
		b.StateElement = types.StateElement{}
		m["sc:"+id.String()] = tracked{"siacoin", id.String(), e.StateElement, elems.Siacoin(e), b}
	}
	for id, e := range st.SFEs {
		b := e.Copy()
		b.StateElement = types.StateElement{}
		m["sf:"+id.String()] = tracked{"siafund", id.String(), e.StateElement, elems.Siafund(e), b}
	}
	for id, e := range st.FCEs {
		b := e.Copy()
		b.StateElement = types.StateElement{}
		m["fc:"+id.String()] = tracked{"filecontract", id.String(), e.StateElement, elems.FileContract(e.ID, e.FileContract), b}
	}
	for id, e := range st.V2FCEs {
		b := e.Copy()
		b.StateElement = types.StateElement{}
		m["v2fc:"+id.String()] = tracked{"v2filecontract", id.String(), e.StateElement, elems.V2FileContract(e.ID, e.V2FileContract), b}
	}
	for h, e := range st.CIEs {
		b := e.Copy()
		b.StateElement = types.StateElement{}
		m[fmt.Sprintf("ci:%012d", h)] = tracked{"chainindex", fmt.Sprint(h), e.StateElement, elems.ChainIndex(e.ID, e.ChainIndex), b}
	}
	return m
}

// compare checks shadow == chain store and verifies the shadow's proofs; on
// any divergence the shadow is re-synchronised from the chain's store so that
// the next update is judged on its own.
func (s *shadow) compare(kind string, cs consensus.State, w updWitness) {
	b := s.b
	if s.resync {
		s.resyncNow()
		return
	}
	main, sh := snapshot(s.c.S), snapshot(s.S)
	keys := make([]string, 0, len(main))
	for k := range main {
		keys = append(keys, k)
	}
	sort.Strings(keys)
	bad := false
	viol := func(class, detail string, w updWitness) {
		bad = true
		w.JSON = capStr(s.lastJSON, 5000)
		b.Violate(fmt.Sprintf("C20/update-roundtrip/%s/%s", kind, class), detail, w)
	}
	for k := range sh {
		if _, ok := main[k]; !ok {
			w2 := w
			w2.Element = k
			viol("store-differs/extra-element", fmt.Sprintf("the store driven by round-tripped updates holds %s which the original store does not", k), w2)
		}
	}
	n := 0
	for _, k := range keys {
		m := main[k]
		x, ok := sh[k]
		w2 := w
		w2.Element, w2.Leaf = m.kind+" "+m.id, m.se.LeafIndex
		if !ok {
			viol("store-differs/missing-element", fmt.Sprintf("the store driven by round-tripped updates lacks %s", k), w2)
			continue
		}
		n++
		if d := diffBody(m.body, x.body); d != "" {
			w2.Extra = map[string]any{"diff": capStr(d, 500)}
			viol("store-differs/element-body/"+m.kind, fmt.Sprintf("%s differs between the two stores: %s", k, capStr(d, 300)), w2)
		}
		if m.se.LeafIndex != x.se.LeafIndex {
			viol("leaf-index-differs", fmt.Sprintf("%s: leaf index %d (original update) vs %d (round-tripped update)", k, m.se.LeafIndex, x.se.LeafIndex), w2)
			continue
		}
		if len(m.se.MerkleProof) != len(x.se.MerkleProof) {
			viol("proof-length-differs", fmt.Sprintf("%s (leaf %d): proof has %d hashes after the original update, %d after the round-tripped one", k, m.se.LeafIndex, len(m.se.MerkleProof), len(x.se.MerkleProof)), w2)
			continue
		}
		differs := false
		for i := range m.se.MerkleProof {
			if m.se.MerkleProof[i] != x.se.MerkleProof[i] {
				w2.ProofIdx = i
				w2.Original, w2.RoundTrip = m.se.MerkleProof[i].String(), x.se.MerkleProof[i].String()
				viol("proof-differs", fmt.Sprintf("%s (leaf %d of %d): UpdateElementProof of the round-tripped %s writes proof[%d] = %v, the original writes %v (updated leaves of the block: %v)",
					k, m.se.LeafIndex, cs.Elements.NumLeaves, kind, i, x.se.MerkleProof[i], m.se.MerkleProof[i], w.Updated), w2)
				differs = true
				break
			}
		}
		// the shadow's proof must verify on its own (independent membership test)
		if !elems.Member(cs.Elements, x.hash, x.se, false) {
			if !differs {
				viol("proof-does-not-verify", fmt.Sprintf("%s (leaf %d of %d): proof kept up to date through round-tripped updates does not verify against State.Elements", k, x.se.LeafIndex, cs.Elements.NumLeaves), w2)
			} else {
				b.Count("shadow_proofs_differing_and_not_verifying", 1)
			}
		} else {
			b.Count("shadow_proofs_verified", 1)
			if differs {
				// two different proofs cannot both verify
				b.Count("shadow_proof_differs_but_verifies(original store then wrong)", 1)
			}
		}
	}
	b.Count("shadow_store_elements_compared", n)
	b.Eval(1)
	if bad {
		s.diverged++
		b.Count("shadow_divergences_"+kind, 1)
		s.resyncNow()
	}
}

// ptrTo returns a pointer to a copy of the value held in v.
func ptrTo(v any) any {
	p := reflect.New(reflect.TypeOf(v))
	p.Elem().Set(reflect.ValueOf(v))
	return p.Interface()
}

func diffBody(a, c any) string {
	pa, pc := ptrTo(valgen.CopyAny(a)), ptrTo(valgen.CopyAny(c))
	valgen.Canon(pa)
	valgen.Canon(pc)
	return valgen.Diff(pa, pc)
}

func (s *shadow) resyncNow() {
	n := chaingen.NewStore()
	for id, e := range s.c.S.SCEs {
		n.SCEs[id] = e.Copy()
	}
	for id, e := range s.c.S.SFEs {
		n.SFEs[id] = e.Copy()
	}
	for id, e := range s.c.S.FCEs {
		n.FCEs[id] = e.Copy()
	}
	for id, e := range s.c.S.V2FCEs {
		n.V2FCEs[id] = e.Copy()
	}
	for h, e := range s.c.S.CIEs {
		n.CIEs[h] = e.Copy()
	}
	s.S = n
	s.resync = false
	s.b.Count("shadow_resyncs", 1)
}

// attach wires the shadow into a chain (after NewChain / NewBareChain).
func (s *shadow) attach() {
	c := s.c
	s.OnApply(c.GenesisEvent)
	s.AfterApply(c.GenesisEvent)
	prevApply, prevStoreApplied, prevRevert, prevStoreReverted := c.OnApply, c.OnStoreApplied, c.OnRevert, c.OnStoreReverted
	c.OnApply = func(ev chaingen.ApplyEvent) {
		if prevApply != nil {
			prevApply(ev)
		}
		s.OnApply(ev)
	}
	c.OnStoreApplied = func(ev chaingen.ApplyEvent) {
		if prevStoreApplied != nil {
			prevStoreApplied(ev)
		}
		s.AfterApply(ev)
	}
	c.OnRevert = func(ev chaingen.RevertEvent) {
		if prevRevert != nil {
			prevRevert(ev)
		}
		s.OnRevert(ev)
	}
	c.OnStoreReverted = func(ev chaingen.RevertEvent) {
		if prevStoreReverted != nil {
			prevStoreReverted(ev)
		}
		s.AfterRevert(ev)
	}
}

// runHistories: chaingen histories over the network families with reorgs.
func runHistories(b *harness.B, idx int) {
	nNets := b.Pick(3, 6)
	blocks := b.Pick(180, 400)
	for i := 0; i < nNets; i++ {
		fam := chaingen.Families[(idx+i)%len(chaingen.Families)]
		rng := b.SubRng(fmt.Sprint("net", i))
		net := chaingen.GenNet(rng, fam, idx*100+i)
		c := chaingen.NewChain(net, rng)
		s := newShadow(b, c, fmt.Sprintf("%s network %s", fam, net.Name))
		s.attach()
		c.OnStoreApplied = wrapApplied(c.OnStoreApplied, func(ev chaingen.ApplyEvent) {
			b.Count("blocks_applied", 1)
			b.SetAdd("eras", chaingen.Era(net.N, ev.Next.Index.Height))
			for _, k := range ev.Kinds {
				b.SetAdd("kinds", k)
			}
		})
		for done := 0; done < blocks; {
			n := 1 + rng.IntN(12)
			done += c.Grow(n, chaingen.Plan{MaxTxns: 6, TimeMode: []string{"schedule", "jitter", "fast", "slow"}[rng.IntN(4)]})
			if c.Height() > 2 && rng.IntN(3) == 0 {
				depth := 1 + rng.IntN(6)
				if rng.IntN(12) == 0 {
					depth = int(c.Height())
				}
				if uint64(depth) > c.Height() {
					depth = int(c.Height())
				}
				b.MaxOf("max_reorg_depth", int64(depth))
				for r := 0; r < depth; r++ {
					c.RevertTip()
				}
				b.Distinct("reorg", fam, depth)
			}
		}
		for k, v := range c.Stats {
			if strings.HasPrefix(k, "gen_rejected") {
				b.Count("generator_library_disagreement:"+k, v)
			}
		}
		if i == 0 {
			b.Sample(map[string]any{"kind": "update round-trip history", "network": net.Name, "family": fam, "final_height": c.Height(), "leaves": c.Tip().Elements.NumLeaves,
				"tracked_elements": len(c.S.SCEs) + len(c.S.SFEs) + len(c.S.FCEs) + len(c.S.V2FCEs) + len(c.S.CIEs), "divergences": s.diverged})
		}
	}
}

func wrapApplied(prev func(chaingen.ApplyEvent), f func(chaingen.ApplyEvent)) func(chaingen.ApplyEvent) {
	return func(ev chaingen.ApplyEvent) {
		if prev != nil {
			prev(ev)
		}
		f(ev)
	}
}

// ---------------------------------------------------------------------------
// minimal shapes: a signature-free v2 network; g genesis outputs; one block
// spending a subset and adding a few outputs; then the revert. Enumerated from
// the smallest shape upwards so the first divergence reported is minimal.

func runShapes(b *harness.B) {
	maxG := b.Pick(4, 6)
	for g := 1; g <= maxG; g++ {
		for mask := 1; mask < 1<<g; mask++ {
			for added := 0; added <= 1; added++ {
				shapeCase(b, g, mask, added)
			}
		}
	}
}

func shapeCase(b *harness.B, g, mask, added int) {
	n := chaingen.BaseNet("c20-shapes")
	n.MaturityDelay = 0
	n.HardforkFoundation.PrimaryAddress = types.VoidAddress
	n.HardforkFoundation.FailsafeAddress = types.VoidAddress
	net := &chaingen.Net{Name: "c20-shapes", Family: "shapes", N: n}
	pol := types.AnyoneCanSpend()
	addr := pol.Address()
	var outs []types.SiacoinOutput
	for i := 0; i < g; i++ {
		outs = append(outs, types.SiacoinOutput{Value: types.Siacoins(1000), Address: addr})
	}
	gen := types.Block{Timestamp: chaingen.GenesisTime(), V2: &types.V2BlockData{Height: 0, Transactions: []types.V2Transaction{{SiacoinOutputs: outs}}}}
	c := chaingen.NewBareChain(net, gen, b.SubRng("shapes"))
	ctx := fmt.Sprintf("shapes: signature-free v2 network, genesis with %d anyone-can-spend outputs (leaves 0..%d, chain index leaf %d); block 1 spends the outputs at leaves %v and creates %d output(s); then block 1 is reverted",
		g, g-1, g, maskLeaves(mask), added)
	s := newShadow(b, c, ctx)
	s.attach()
	cs := c.Tip()
	blk := types.Block{ParentID: cs.Index.ID, Timestamp: cs.PrevTimestamps[0].Add(cs.Network.BlockInterval), V2: &types.V2BlockData{}}
	var txn types.V2Transaction
	var total types.Currency
	for _, id := range c.S.OrderedSC() {
		e := c.S.SCEs[id]
		if e.StateElement.LeafIndex < uint64(g) && mask&(1<<e.StateElement.LeafIndex) != 0 {
			txn.SiacoinInputs = append(txn.SiacoinInputs, types.V2SiacoinInput{Parent: e.Copy(), SatisfiedPolicy: types.SatisfiedPolicy{Policy: pol}})
			total = total.Add(e.SiacoinOutput.Value)
		}
	}
	for i := 0; i < added; i++ {
		v := total.Div64(2)
		txn.SiacoinOutputs = append(txn.SiacoinOutputs, types.SiacoinOutput{Value: v, Address: addr})
		total = total.Sub(v)
	}
	txn.MinerFee = total
	blk.V2.Transactions = []types.V2Transaction{txn}
	if err := c.Seal(cs, &blk, addr, 1, nil); err != nil {
		b.Inconclusive("shape enumerator: " + err.Error())
		return
	}
	if err := c.Offer(blk, consensus.V1BlockSupplement{}, []string{"shape"}); err != nil {
		b.Inconclusive("shape enumerator: block rejected: " + chaingen.NormErr(err))
		return
	}
	c.RevertTip()
	b.Count("shape_cases", 1)
	b.Distinct("shape", g, mask, added)
}

func maskLeaves(mask int) []int {
	var out []int
	for i := 0; mask>>i != 0; i++ {
		if mask&(1<<i) != 0 {
			out = append(out, i)
		}
	}
	return out
}
