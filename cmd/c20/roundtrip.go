package main

import (
	"fmt"
	"math"
	"math/rand/v2"
	"reflect"
	"regexp"
	"strings"
	"time"
	"unicode/utf8"

	"go.sia.tech/core/consensus"
	"go.sia.tech/core/types"
	"verif/internal/harness"
	"verif/internal/valgen"
)

var (
	specifierType = reflect.TypeOf(types.Specifier{})
	timeType      = reflect.TypeOf(time.Time{})
	errorType     = reflect.TypeOf((*error)(nil)).Elem()
	afterType     = reflect.TypeOf(types.PolicyTypeAfter{})
	fcrType       = reflect.TypeOf(types.FileContractRevision{})
	stateType     = reflect.TypeOf(consensus.State{})
	accType       = reflect.TypeOf(consensus.ElementAccumulator{})
	workType      = reflect.TypeOf(consensus.Work{})
	currencyType  = reflect.TypeOf(types.Currency{})
)

func isByteSeq(t reflect.Type) bool {
	return (t.Kind() == reflect.Array || t.Kind() == reflect.Slice) && t.Elem().Kind() == reflect.Uint8
}

// rewrite walks every exported position of v (settable) depth first; fn may
// replace the value and returns true to stop descending. Values held in
// interfaces are copied out, rewritten and stored back.
func rewrite(v reflect.Value, fn func(reflect.Value) bool) {
	if fn(v) {
		return
	}
	t := v.Type()
	switch t.Kind() {
	case reflect.Ptr:
		if !v.IsNil() {
			rewrite(v.Elem(), fn)
		}
	case reflect.Interface:
		if v.IsNil() || t == errorType {
			return
		}
		e := v.Elem()
		if e.Kind() == reflect.Ptr {
			if !e.IsNil() {
				rewrite(e.Elem(), fn)
			}
			return
		}
		c := reflect.New(e.Type()).Elem()
		c.Set(e)
		rewrite(c, fn)
		v.Set(c)
	case reflect.Struct:
		for i := 0; i < t.NumField(); i++ {
			if t.Field(i).IsExported() {
				rewrite(v.Field(i), fn)
			}
		}
	case reflect.Slice, reflect.Array:
		if isByteSeq(t) {
			return
		}
		for i := 0; i < v.Len(); i++ {
			rewrite(v.Index(i), fn)
		}
	}
}

// ---------------------------------------------------------------------------
// unusual values the quantifier names

// unusualSpecifiers: valid UTF-8, at most 16 bytes. class -> values.
var unusualSpecifiers = []struct{ class, s string }{
	{"alnum", "ed25519"}, {"alnum", "a"}, {"alnum", "entropy"}, {"full16", "abcdefghijklmnop"}, {"empty", ""},
	{"blank-inner", "a b"}, {"blank-lead", " a"}, {"blank-trail", "a "}, {"blank-only", " "}, {"blank-only", "   "},
	{"quote", `a"b`}, {"quote-lead", `"a`}, {"quote-only", `"`}, {"quote-wrapped", `"ab"`}, {"apostrophe", "a'b"}, {"backquote", "`"},
	{"backslash", `a\b`}, {"backslash-trail", `a\`}, {"nul-inner", "a\x00b"}, {"nul-lead", "\x00a"},
	{"colon", "a:b"}, {"colon-only", ":"}, {"colon-trail", "ab:"},
	{"delim-comma", "a,b"}, {"delim-lparen", "("}, {"delim-rparen", ")"}, {"delim-brackets", "[x]"}, {"delim-mixed", "a(b)c"}, {"delim-comma-only", ","}, {"delim-rbracket", "a]"},
	{"unicode", "é"}, {"unicode", "日本語"}, {"unicode-astral", "😀"}, {"unicode-replacement", "\ufffd"}, {"unicode-linesep", "a\u2028b"}, {"unicode-nbsp", "\u00a0a\u00a0"},
	{"control", "a\nb"}, {"control", "\t"}, {"control", "\x7f"}, {"control-lead-nl", "\nab"},
	{"punct", "a-b_c.d"}, {"punct", "#$%&*+/<=>?@^|~"},
}

func specifierClass(s types.Specifier) string {
	str := strings.TrimRight(string(s[:]), "\x00")
	switch {
	case !utf8.ValidString(str):
		return "non-utf8"
	case str == "":
		return "empty"
	case strings.ContainsAny(str, "(),[]"):
		return "delim"
	case strings.ContainsAny(str, `"`):
		return "quote"
	case strings.Contains(str, "\x00"):
		return "nul"
	case strings.TrimSpace(str) != str:
		return "blank-edge"
	case strings.ContainsAny(str, " "):
		return "blank"
	case strings.ContainsAny(str, `\`):
		return "backslash"
	case strings.ContainsAny(str, ":"):
		return "colon"
	}
	for _, c := range str {
		if c > 127 {
			return "unicode"
		}
		if c < 32 || c == 127 {
			return "control"
		}
		if !(('A' <= c && c <= 'Z') || ('a' <= c && c <= 'z') || ('0' <= c && c <= '9')) {
			return "punct"
		}
	}
	return "alnum"
}

func genSpecifier(rng *rand.Rand) types.Specifier {
	var s types.Specifier
	if rng.IntN(3) == 0 {
		copy(s[:], "ed25519")
		return s
	}
	copy(s[:], unusualSpecifiers[rng.IntN(len(unusualSpecifiers))].s)
	return s
}

var unusualStrings = []string{
	"", `"`, `\`, `a"b\c`, "a\x00b", "<script>&amp;</script>", "  ", "😀 emoji", "\ufffd", "\u2028\u2029", "line\nbreak\ttab\r", "\x7f\x01",
	"null", `{"a":1}`, " lead", "trail ", "héllo wörld ✓", "host.example.com:9982", strings.Repeat("x", 300), "v1.2.3", "\\u0041", "'single'", "%s%d%!",
}

// year0 draws an instant in year 0 (0000-01-01 .. 0000-12-31 UTC).
func year0(rng *rand.Rand) time.Time {
	return time.Unix(-62167219200+rng.Int64N(366*86400), 0).UTC()
}

// adjust injects the unusual values into a generated value and keeps every
// value inside the property's domain (valid UTF-8, years 0..9999).
func adjust(rng *rand.Rand, ptr any) {
	rewrite(reflect.ValueOf(ptr).Elem(), func(v reflect.Value) bool {
		t := v.Type()
		switch {
		case t == specifierType:
			v.Set(reflect.ValueOf(genSpecifier(rng)))
			return true
		case valgen.IsTimeLike(t):
			tm := v.Convert(timeType).Interface().(time.Time)
			if rng.IntN(16) == 0 {
				tm = year0(rng)
			}
			if y := tm.Year(); y < 0 || y > 9999 {
				tm = tm.UTC()
			}
			v.Set(reflect.ValueOf(tm).Convert(t))
			return true
		case t.Kind() == reflect.String:
			if rng.IntN(3) == 0 {
				v.SetString(unusualStrings[rng.IntN(len(unusualStrings))])
			}
			return true
		}
		return false
	})
}

// maximise turns every number into its maximum, every byte array into 0xFF…,
// every currency into 2^128-1 and every time into the last representable
// nanosecond of year 9999.
func maximise(ptr any) {
	rewrite(reflect.ValueOf(ptr).Elem(), func(v reflect.Value) bool {
		t := v.Type()
		switch {
		case valgen.IsTimeLike(t):
			v.Set(reflect.ValueOf(time.Date(9999, 12, 31, 23, 59, 59, 999999999, time.UTC)).Convert(t))
			return true
		case t == workType:
			var b [32]byte
			for i := range b {
				b[i] = 0xFF
			}
			valgen.SetWork(v.Addr().Interface().(*consensus.Work), b)
			return true
		case t == currencyType:
			v.Set(reflect.ValueOf(types.NewCurrency(math.MaxUint64, math.MaxUint64)))
			return true
		case t == specifierType:
			var s types.Specifier
			copy(s[:], `"\,()[]: "\,()[]:`)
			v.Set(reflect.ValueOf(s))
			return true
		}
		switch t.Kind() {
		case reflect.Uint8, reflect.Uint16, reflect.Uint32, reflect.Uint64, reflect.Uint:
			v.SetUint(math.MaxUint64 >> uint(64-t.Bits()))
			return true
		case reflect.Int8, reflect.Int16, reflect.Int32, reflect.Int64, reflect.Int:
			v.SetInt(math.MaxInt64 >> uint(64-t.Bits()))
			return true
		case reflect.Bool:
			v.SetBool(true)
			return true
		case reflect.Array:
			if isByteSeq(t) {
				for i := 0; i < v.Len(); i++ {
					v.Index(i).SetUint(0xFF)
				}
				return true
			}
		}
		return false
	})
}

// ---------------------------------------------------------------------------
// the explicit normaliser (everything a form is DOCUMENTED not to carry)

var sentinelPayout = types.NewCurrency(math.MaxUint64, math.MaxUint64)

// normalise rewrites the EXPECTED value:
//   - PolicyTypeAfter carries whole seconds in both its string and JSON form;
//   - FileContractRevision JSON omits Payout and the decoder sets the documented sentinel;
//   - State.Network is tagged json:"-" ("network parameters are not encoded");
//   - ElementAccumulator carries only the trees its leaf count has (Trees[i] with bit i of NumLeaves clear is dead storage).
//
// nil vs empty collections and time representation are handled by valgen.Canon;
// times are compared by instant (valgen.Diff uses time.Equal).
func normalise(ptr any) {
	rewrite(reflect.ValueOf(ptr).Elem(), func(v reflect.Value) bool {
		switch v.Type() {
		case afterType:
			tm := time.Time(v.Interface().(types.PolicyTypeAfter))
			v.Set(reflect.ValueOf(types.PolicyTypeAfter(time.Unix(tm.Unix(), 0))))
			return true
		case fcrType:
			fcr := v.Addr().Interface().(*types.FileContractRevision)
			fcr.Payout = sentinelPayout
			return false // descend: unlock conditions etc.
		case stateType:
			v.Addr().Interface().(*consensus.State).Network = nil
			return false
		case accType:
			acc := v.Addr().Interface().(*consensus.ElementAccumulator)
			for i := range acc.Trees {
				if acc.NumLeaves&(1<<uint(i)) == 0 {
					acc.Trees[i] = types.Hash256{}
				}
			}
			return true
		}
		return false
	})
}

// ---------------------------------------------------------------------------

var (
	reQuoted = regexp.MustCompile(`"(?:[^"\\]|\\.)*"`)
	reHex    = regexp.MustCompile(`[0-9a-fA-F]{8,}`)
	reNum    = regexp.MustCompile(`[0-9]+`)
	reBytes  = regexp.MustCompile(`\[[0-9 ]*\]`)
)

// normErr makes an error message seed-independent.
func normErr(err error) string {
	s := err.Error()
	s = reQuoted.ReplaceAllString(s, "Q")
	s = reBytes.ReplaceAllString(s, "B")
	s = reHex.ReplaceAllString(s, "H")
	s = reNum.ReplaceAllString(s, "N")
	s = strings.Map(func(r rune) rune {
		if r < 32 || r > 126 {
			return '?'
		}
		return r
	}, s)
	if len(s) > 90 {
		s = s[:90]
	}
	return s
}

func capStr(s string, n int) string {
	if len(s) > n {
		return s[:n] + fmt.Sprintf("…(+%d bytes)", len(s)-n)
	}
	return s
}

func dump(v any) string {
	return capStr(fmt.Sprintf("%+v", reflect.ValueOf(v).Elem().Interface()), 3000)
}

// diffClass turns a valgen.Diff message into a field class: the path with
// indices stripped ("value" for a scalar type).
func diffClass(d string) string {
	p := d
	if i := strings.Index(d, ": "); i >= 0 {
		p = d[:i]
	}
	p = valgen.StripIndices(p)
	p = strings.ReplaceAll(p, "types.", "")
	p = strings.ReplaceAll(p, "*", "")
	if p == "" {
		p = "value"
	}
	return p
}

type rtWitness struct {
	Type  string `json:"type"`
	Form  string `json:"form"`
	Text  string `json:"text"`
	Value string `json:"value"`
	Got   string `json:"parsed,omitempty"`
	Diff  string `json:"diff,omitempty"`
	Note  string `json:"note,omitempty"`
}

type checker struct {
	b        *harness.B
	rng      *rand.Rand
	prevText map[string]string // last text parsed per (type, form): the receiver content of the reuse monitor
}

// roundtripForm checks parse(format(v)) ≡ normalise(v) for one form. It
// returns "" when the round trip held, otherwise the violation class (and the
// violation has NOT yet been reported: the caller decides the key).
func (c *checker) roundtripForm(e *entry, f *form, ptr any) (class, detail string, wit rtWitness) {
	b := c.b
	wit = rtWitness{Type: e.Name, Form: f.Name, Value: dump(ptr)}
	var s string
	var err error
	if b.Guard("C20", func() any { return wit }, func() { s, err = f.Format(ptr) }) {
		return "panicked", "", wit
	}
	wit.Text = capStr(s, 4000)
	if err != nil {
		return "format-error", fmt.Sprintf("%s form of a generated %s cannot be produced: %v", f.Name, e.Name, err), wit
	}
	dst := reflect.New(e.Type).Interface()
	if b.Guard("C20", func() any { return wit }, func() { err = f.Parse(s, dst) }) {
		return "panicked", "", wit
	}
	if err != nil {
		return "parse-error/" + normErr(err), fmt.Sprintf("%s does not parse its own %s form %s: %v", e.Name, f.Name, capStr(s, 300), err), wit
	}
	exp := valgen.CopyAny(ptr)
	normalise(exp)
	valgen.Canon(exp)
	valgen.Canon(dst)
	if d := valgen.Diff(exp, dst); d != "" {
		wit.Diff = d
		wit.Got = dump(dst)
		return diffClass(d), fmt.Sprintf("%s: parse(format(v)) differs from v in the %s form at %s (text %s)", e.Name, f.Name, capStr(d, 400), capStr(s, 300)), wit
	}
	// a caller that reuses one variable: parsing a text into a value that already holds another one yields the parsed
	// value (text forms only; encoding/json merges into a used value by its own documented rules)
	if f.Name != "json" {
		k := e.Name + "/" + f.Name
		if c.prevText == nil {
			c.prevText = map[string]string{}
		}
		if prev, ok := c.prevText[k]; ok && prev != s {
			dst2 := reflect.New(e.Type).Interface()
			var e1, e2 error
			if !b.Guard("C20", func() any { return wit }, func() { e1 = f.Parse(prev, dst2); e2 = f.Parse(s, dst2) }) && e1 == nil && e2 == nil {
				b.Count("texts_parsed_into_a_used_value", 1)
				valgen.Canon(dst2)
				if d := valgen.Diff(exp, dst2); d != "" {
					wit.Diff = d
					wit.Got = dump(dst2)
					wit.Note = "receiver held the value parsed from: " + capStr(prev, 300)
					c.prevText[k] = s
					return "parsed-into-a-used-value/" + diffClass(d), fmt.Sprintf("%s: parsing %s into a variable that held the value of %s gives a mixture (differs at %s)", e.Name, capStr(s, 200), capStr(prev, 200), capStr(d, 300)), wit
				}
			}
		}
		c.prevText[k] = s
	}
	return "", "", wit
}

// roundtrip runs every form of e on the value *ptr.
func (c *checker) roundtrip(e *entry, ptr any, origin string) {
	b := c.b
	for i := range e.Forms {
		f := &e.Forms[i]
		b.Eval(1)
		b.Count("roundtrips", 1)
		if e.Type == reflect.TypeOf(types.SpendPolicy{}) && f.Name == "string" {
			c.policyString(e, f, ptr.(*types.SpendPolicy), origin)
			continue
		}
		class, detail, wit := c.roundtripForm(e, f, ptr)
		shape := valgen.Shape(ptr)
		if e.IsID {
			shape = idShape(ptr)
		}
		b.Distinct("rt", e.Name, f.Name, origin, shape)
		if class == "" || class == "panicked" {
			continue
		}
		b.Violate(fmt.Sprintf("C20/roundtrip/%s/%s/%s", e.Short, f.Name, class), detail, wit)
	}
	b.SetAdd("types_roundtripped", e.Name)
}

func idShape(ptr any) string {
	v := reflect.ValueOf(ptr).Elem()
	if v.Type() == specifierType {
		return specifierClass(v.Interface().(types.Specifier))
	}
	if v.Kind() == reflect.Array && isByteSeq(v.Type()) {
		zero, ff := true, true
		for i := 0; i < v.Len(); i++ {
			x := v.Index(i).Uint()
			zero = zero && x == 0
			ff = ff && x == 0xFF
		}
		switch {
		case zero:
			return "zero"
		case ff:
			return "ff"
		}
		return fmt.Sprint("b0=", v.Index(0).Uint()>>6, "bN=", v.Index(v.Len()-1).Uint()>>6)
	}
	if uk, ok := ptr.(*types.UnlockKey); ok {
		kl := "many"
		switch {
		case uk.Key == nil:
			kl = "nil"
		case len(uk.Key) == 0:
			kl = "empty"
		case len(uk.Key) == 32:
			kl = "32"
		}
		return specifierClass(uk.Algorithm) + "/" + kl
	}
	if ci, ok := ptr.(*types.ChainIndex); ok {
		return fmt.Sprint("h", bitlen(ci.Height))
	}
	return valgen.Shape(ptr)
}

func bitlen(x uint64) int {
	n := 0
	for ; x != 0; x >>= 1 {
		n++
	}
	return n
}

// generate draws one in-domain value of e.
func (c *checker) generate(e *entry, o *valgen.Opts) any {
	var ptr any
	if e.Gen != nil {
		ptr = e.Gen(c.rng, o)
	} else {
		p := reflect.New(e.Type)
		valgen.Fill(c.rng, p.Elem(), o)
		ptr = p.Interface()
	}
	adjust(c.rng, ptr)
	return ptr
}

func (c *checker) opts() *valgen.Opts {
	return &valgen.Opts{MaxLen: 1 + c.rng.IntN(4), MaxDepth: 1 + c.rng.IntN(3), Budget: 20 + c.rng.IntN(200), SubSecond: c.rng.IntN(2) == 0}
}

// runValues: n generated values per registered type.
func (c *checker) runValues(n int) {
	for _, e := range Registry() {
		if e.ViaHistories {
			continue
		}
		var keys []any
		for i := 0; i < n; i++ {
			v := c.generate(e, c.opts())
			c.roundtrip(e, v, "random")
			if i < 3 {
				keys = append(keys, v)
			}
		}
		c.mapKeys(e, keys)
	}
}

// runDirected: zero value, all-maximal value and a populated-then-emptied value
// of every registered type; returns the number of types exercised.
func (c *checker) runDirected() int {
	n := 0
	for _, e := range Registry() {
		if e.ViaHistories {
			continue
		}
		panicked := c.b.Guard("C20/registry/"+e.Name, func() any { return e.Name }, func() {
			zero := reflect.New(e.Type).Interface()
			if e.Type == reflect.TypeOf(types.SpendPolicy{}) {
				*zero.(*types.SpendPolicy) = types.AnyoneCanSpend() // a policy with a nil Type is not a value of the type
			}
			fillNilInterfaces(c.rng, zero)
			c.roundtrip(e, zero, "zero")
			for k := 0; k < 3; k++ {
				mx := c.generate(e, &valgen.Opts{MaxLen: 2, MaxDepth: 2, Budget: 60})
				maximise(mx)
				c.roundtrip(e, mx, "max")
			}
			// every collection empty-but-not-nil, then every collection nil
			for _, mode := range []string{"empty", "nil"} {
				v := c.generate(e, &valgen.Opts{MaxLen: 2, MaxDepth: 2, Budget: 60})
				emptyCollections(v, mode == "nil")
				c.roundtrip(e, v, mode)
			}
		})
		if !panicked {
			n++
		}
	}
	return n
}

// fillNilInterfaces gives every nil (non-error) interface field of a zero value
// a dynamic value: a nil resolution / policy is not a value of the wire type.
func fillNilInterfaces(rng *rand.Rand, ptr any) {
	rewrite(reflect.ValueOf(ptr).Elem(), func(v reflect.Value) bool {
		if v.Kind() == reflect.Interface && v.IsNil() && v.Type() != errorType {
			if v.Type() == reflect.TypeOf(types.SpendPolicy{}).Field(0).Type {
				v.Set(reflect.ValueOf(types.AnyoneCanSpend().Type))
				return true
			}
			valgen.Fill(rng, v, &valgen.Opts{Budget: 4, MaxLen: 1, MaxDepth: 1})
			return true
		}
		return false
	})
}

func emptyCollections(ptr any, toNil bool) {
	rewrite(reflect.ValueOf(ptr).Elem(), func(v reflect.Value) bool {
		if v.Kind() == reflect.Slice {
			if toNil {
				v.Set(reflect.Zero(v.Type()))
			} else {
				v.Set(reflect.MakeSlice(v.Type(), 0, 0))
			}
			return true
		}
		return false
	})
}

// observeNonUTF8Specifiers records (without judging: the property restricts
// itself to what JSON can represent) whether specifiers that are not valid
// UTF-8 survive their text and JSON forms.
func observeNonUTF8Specifiers(b *harness.B, c *checker) {
	var e *entry
	for _, x := range Registry() {
		if x.Name == "types.Specifier" {
			e = x
		}
	}
	for i := 0; i < 200; i++ {
		var s types.Specifier
		n := 1 + c.rng.IntN(16)
		for j := 0; j < n; j++ {
			s[j] = byte(c.rng.Uint32())
		}
		s[c.rng.IntN(n)] = 0xFF // never valid UTF-8
		for k := range e.Forms {
			class, _, _ := c.roundtripForm(e, &e.Forms[k], &s)
			if class == "" {
				b.Count("observed_non_utf8_specifier_roundtrips_ok(not judged)", 1)
			} else {
				b.Count("observed_non_utf8_specifier_roundtrip_fails(not judged)", 1)
			}
		}
	}
}
