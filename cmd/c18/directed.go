package main

import (
	"bytes"
	"encoding/binary"
	"fmt"
	"time"

	"go.sia.tech/core/consensus"
	"go.sia.tech/core/gateway"
	"go.sia.tech/core/types"
	"verif/internal/harness"
)

func encOf(v types.EncoderTo) []byte {
	var buf bytes.Buffer
	e := types.NewEncoder(&buf)
	v.EncodeTo(e)
	e.Flush()
	return buf.Bytes()
}

// directedLeafHashAmbiguity: v1 and v2 transactions are hashed into the block commitment the same way
// (hash(0x00 || encoding)), and Complete looks an omitted hash up in both pools, preferring the v1 match. The witness
// is a valid block whose second v2 transaction spends an in-block output with a (never validated) Merkle proof on the
// parent chosen so that the v2 encoding is byte for byte the v1 encoding of another transaction. Completing the
// block's outline from a pool that holds both must still give back the original block.
func directedLeafHashAmbiguity(b *harness.B) {
	n := &consensus.Network{Name: "c18-directed", InitialCoinbase: types.Siacoins(300000), MinimumCoinbase: types.Siacoins(300000), InitialTarget: types.BlockID{0xFF}, BlockInterval: 10 * time.Minute, MaturityDelay: 5}
	n.HardforkDevAddr.Height, n.HardforkTax.Height, n.HardforkStorageProof.Height = 1, 2, 3
	n.HardforkOak.Height, n.HardforkOak.FixHeight = 4, 5
	n.HardforkOak.GenesisTimestamp = time.Unix(1618033988, 0)
	n.HardforkASIC.Height, n.HardforkASIC.OakTime, n.HardforkASIC.OakTarget, n.HardforkASIC.NonceFactor = 6, 10000*time.Second, n.InitialTarget, 1009
	n.HardforkFoundation.Height, n.HardforkFoundation.PrimaryAddress, n.HardforkFoundation.FailsafeAddress = 7, types.AnyoneCanSpend().Address(), types.VoidAddress
	n.HardforkV2.AllowHeight, n.HardforkV2.RequireHeight, n.HardforkV2.FinalCutHeight, n.HardforkV2.EphemeralOutputHeight = 1, 1000, 2000, 0
	genesis := types.Block{Timestamp: n.HardforkOak.GenesisTimestamp, Transactions: []types.Transaction{{SiacoinOutputs: []types.SiacoinOutput{{Address: types.AnyoneCanSpend().Address(), Value: types.Siacoins(1000)}}}}}
	cs, au := consensus.ApplyBlock(n.GenesisState(), genesis, consensus.V1BlockSupplement{Transactions: make([]consensus.V1TransactionSupplement, 1)}, time.Time{})
	var gel types.SiacoinElement
	for _, d := range au.SiacoinElementDiffs() {
		if d.SiacoinElement.ID == genesis.Transactions[0].SiacoinOutputID(0) {
			gel = d.SiacoinElement.Copy()
		}
	}
	t0 := types.V2Transaction{SiacoinInputs: []types.V2SiacoinInput{{Parent: gel, SatisfiedPolicy: types.SatisfiedPolicy{Policy: types.AnyoneCanSpend()}}},
		SiacoinOutputs: []types.SiacoinOutput{{Address: types.AnyoneCanSpend().Address(), Value: gel.SiacoinOutput.Value}}}
	makeT2 := func(proof []types.Hash256) types.V2Transaction {
		parent := t0.EphemeralSiacoinOutput(0)
		parent.StateElement.MerkleProof = proof
		return types.V2Transaction{SiacoinInputs: []types.V2SiacoinInput{{Parent: parent, SatisfiedPolicy: types.SatisfiedPolicy{Policy: types.AnyoneCanSpend()}}},
			SiacoinOutputs: []types.SiacoinOutput{{Address: types.Address{9}, Value: gel.SiacoinOutput.Value}}}
	}
	const numV1Inputs = 2 + 256*3
	const P = 1400
	proof := make([]types.Hash256, P)
	t2 := makeT2(proof)
	enc2 := encOf(t2)
	if binary.LittleEndian.Uint64(enc2[:8]) != numV1Inputs {
		b.Inconclusive("directed leaf-hash ambiguity: v2 encoding prefix changed, witness construction no longer applies")
		return
	}
	t1 := types.Transaction{SiacoinInputs: make([]types.SiacoinInput, numV1Inputs), Signatures: make([]types.TransactionSignature, 1)}
	copy(t1.SiacoinInputs[0].ParentID[:], enc2[8:40])
	hdrLen := len(encOf(t1))
	const proofStart = 1 + 8 + 8 + 8 + 8
	if hdrLen > proofStart+32*P {
		b.Inconclusive("directed leaf-hash ambiguity: proof region too small")
		return
	}
	t1.Signatures[0].Signature = make([]byte, len(enc2)-hdrLen)
	hdr := encOf(t1)[:hdrLen]
	raw := make([]byte, 32*P)
	copy(raw, hdr[proofStart:])
	for i := range proof {
		copy(proof[i][:], raw[32*i:])
	}
	t2 = makeT2(proof)
	enc2 = encOf(t2)
	copy(t1.SiacoinInputs[0].ParentID[:], enc2[8:40])
	t1.Signatures[0].Signature = append([]byte(nil), enc2[hdrLen:]...)
	if !bytes.Equal(encOf(t1), enc2) || t1.MerkleLeafHash() != t2.MerkleLeafHash() {
		b.Inconclusive("directed leaf-hash ambiguity: could not craft the colliding encodings")
		return
	}
	miner := types.Address{1, 2, 3}
	blk := types.Block{ParentID: cs.Index.ID, Timestamp: cs.PrevTimestamps[0].Add(time.Second), MinerPayouts: []types.SiacoinOutput{{Address: miner, Value: cs.BlockReward()}},
		V2: &types.V2BlockData{Height: cs.Index.Height + 1, Transactions: []types.V2Transaction{t0, t2}}}
	blk.V2.Commitment = cs.Commitment(miner, blk.Transactions, blk.V2Transactions())
	for blk.Nonce%cs.NonceFactor() != 0 || blk.ID().CmpWork(cs.PoWTarget()) < 0 {
		blk.Nonce++
	}
	if err := consensus.ValidateBlock(cs, blk, consensus.V1BlockSupplement{}); err != nil {
		b.Count("directed_leaf_hash_ambiguity_block_rejected", 1)
		b.SetAdd("directed_rejections", err.Error())
		return // the witness needs a parent proof that validation ignores; if it no longer does, nothing to judge
	}
	orig := encOf(types.V2Block(blk))
	bo := gateway.OutlineBlock(blk, nil, []types.V2Transaction{t2})
	got, missing := bo.Complete(cs, []types.Transaction{t1}, []types.V2Transaction{t2})
	b.Eval(1)
	b.Count("directed_leaf_hash_ambiguity_cases", 1)
	if len(missing) != 0 || !bytes.Equal(encOf(types.V2Block(got)), orig) {
		b.Violate("C18/outline/complete-differs/v1-and-v2-transaction-with-the-same-leaf-hash",
			fmt.Sprintf("a valid block with %d v1 / %d v2 transactions; its outline omitting one v2 transaction, completed from a pool that holds that transaction and a v1 transaction with the same leaf hash, has %d v1 / %d v2 transactions (missing reported: %d)", len(blk.Transactions), len(blk.V2Transactions()), len(got.Transactions), len(got.V2Transactions()), len(missing)),
			map[string]any{"v1_inputs_of_the_colliding_transaction": numV1Inputs, "proof_hashes_on_the_in_block_parent": P})
	}
}
