// C18 — multiproof block compression and compact block relay are lossless.
//
// On the states of generated histories: (1) v2 transaction sets — the accepted
// block's own transactions, and synthetic sets wrapping many live elements of
// the client store (inputs, revisions, resolutions, storage-proof chain
// indices, ephemeral parents, the same leaf listed twice, leaves from trees of
// different heights) — are encoded in multiproof form and decoded again: every
// proof must come back bit for bit, the block keeps its ID, commitment and
// ValidateBlock verdict, and the number of transmitted hashes equals the
// minimal multiproof size computed independently from the leaf positions.
// (2) block outlines for every subset of omitted transactions: same ID,
// survives its codec, completes to exactly the original block from any
// superset / permutation of the candidate pool, and reports exactly the
// missing hashes otherwise.
package main

import (
	"bytes"
	"fmt"
	"math/rand/v2"
	"reflect"
	"sort"

	"go.sia.tech/core/consensus"
	"go.sia.tech/core/gateway"
	"go.sia.tech/core/types"
	"verif/internal/chaingen"
	"verif/internal/harness"
)

func enc(v types.EncoderTo) []byte {
	var buf bytes.Buffer
	e := types.NewEncoder(&buf)
	v.EncodeTo(e)
	e.Flush()
	return buf.Bytes()
}

type leafRef struct {
	se   *types.StateElement
	what string
}

func leavesOf(txns []types.V2Transaction) []leafRef {
	var out []leafRef
	for i := range txns {
		t := &txns[i]
		for k := range t.SiacoinInputs {
			out = append(out, leafRef{&t.SiacoinInputs[k].Parent.StateElement, "siacoin-input"})
		}
		for k := range t.SiafundInputs {
			out = append(out, leafRef{&t.SiafundInputs[k].Parent.StateElement, "siafund-input"})
		}
		for k := range t.FileContractRevisions {
			out = append(out, leafRef{&t.FileContractRevisions[k].Parent.StateElement, "revision-parent"})
		}
		for k := range t.FileContractResolutions {
			out = append(out, leafRef{&t.FileContractResolutions[k].Parent.StateElement, "resolution-parent"})
			if sp, ok := t.FileContractResolutions[k].Resolution.(*types.V2StorageProof); ok {
				out = append(out, leafRef{&sp.ProofIndex.StateElement, "storage-proof-chain-index"})
			}
		}
	}
	return out
}

// minimalMultiproofSize: per tree (identified by proof length and the leaf
// range it covers), the hashes needed are the siblings of the nodes on the
// union of the leaf-to-root paths that are not themselves on that union.
func minimalMultiproofSize(refs []leafRef) int {
	type treeKey struct {
		height int
		start  uint64
	}
	trees := map[treeKey]map[uint64]bool{}
	for _, r := range refs {
		if r.se.LeafIndex == types.UnassignedLeafIndex {
			continue
		}
		h := len(r.se.MerkleProof)
		k := treeKey{h, r.se.LeafIndex &^ (1<<h - 1)}
		if trees[k] == nil {
			trees[k] = map[uint64]bool{}
		}
		trees[k][r.se.LeafIndex] = true
	}
	total := 0
	for k, leaves := range trees {
		level := map[uint64]bool{}
		for l := range leaves {
			level[l] = true
		}
		for row := 0; row < k.height; row++ {
			next := map[uint64]bool{}
			for n := range level {
				if !level[n^1] {
					total++ // sibling must be supplied
				}
				next[n>>1] = true
			}
			level = next
		}
	}
	return total
}

func proofsOf(txns []types.V2Transaction) [][]types.Hash256 {
	var out [][]types.Hash256
	for _, r := range leavesOf(txns) {
		out = append(out, append([]types.Hash256(nil), r.se.MerkleProof...))
	}
	return out
}

func stripped(txns []types.V2Transaction) []types.V2Transaction {
	out := make([]types.V2Transaction, len(txns))
	for i := range txns {
		out[i] = chaingen.CloneV2(txns[i])
	}
	for _, r := range leavesOf(out) {
		if r.se.LeafIndex != types.UnassignedLeafIndex {
			r.se.MerkleProof = nil
		}
	}
	return out
}

// checkMultiproof round-trips one transaction set.
func checkMultiproof(b *harness.B, txns []types.V2Transaction, shape string) ([]types.V2Transaction, bool) {
	orig := make([]types.V2Transaction, len(txns))
	for i := range txns {
		orig[i] = chaingen.CloneV2(txns[i])
	}
	want := proofsOf(orig)
	var encoded []byte
	if b.Guard("C18/multiproof/encode/"+shape, func() any { return shape }, func() { encoded = enc(types.V2TransactionsMultiproof(txns)) }) {
		return nil, false
	}
	// encoding must not have touched the input
	if got := proofsOf(txns); !reflect.DeepEqual(got, want) {
		b.Violate("C18/multiproof/encode-modified-input", "encoding a transaction set in multiproof form changed the proofs of the set passed in", shape)
	}
	var dec types.V2TransactionsMultiproof
	d := types.NewBufDecoder(encoded)
	if b.Guard("C18/multiproof/decode/"+shape, func() any { return shape }, func() { dec.DecodeFrom(d) }) {
		return nil, false
	}
	b.Eval(1)
	b.Count("multiproof_roundtrips", 1)
	refs := leavesOf(orig)
	nLeaves, dup, eph := 0, false, false
	seen := map[uint64]bool{}
	heights := map[int]bool{}
	for _, r := range refs {
		if r.se.LeafIndex == types.UnassignedLeafIndex {
			eph = true
			continue
		}
		nLeaves++
		if seen[r.se.LeafIndex] {
			dup = true
		}
		seen[r.se.LeafIndex] = true
		heights[len(r.se.MerkleProof)] = true
	}
	b.Distinct("multiproof", shape, min(nLeaves, 12), dup, eph, len(heights))
	if d.Err() != nil {
		b.Violate("C18/multiproof/decode-error/"+shape, "a transaction set with proofs valid for one state does not decode from its own multiproof encoding: "+d.Err().Error(), shape)
		return nil, false
	}
	got := proofsOf([]types.V2Transaction(dec))
	if len(got) != len(want) {
		b.Violate("C18/multiproof/leaf-count/"+shape, "decoded set has a different number of parent elements", shape)
		return nil, false
	}
	for i := range want {
		if !reflect.DeepEqual(normH(got[i]), normH(want[i])) {
			b.Violate("C18/multiproof/proof-not-restored/"+shape+"/"+refs[i].what, fmt.Sprintf("proof of a %s (leaf %d, %d hashes) is not restored bit for bit", refs[i].what, refs[i].se.LeafIndex, len(want[i])), shape)
			return nil, false
		}
	}
	// everything else identical too
	for i := range orig {
		if !bytes.Equal(enc(orig[i]), enc(dec[i])) {
			b.Violate("C18/multiproof/transaction-differs/"+shape, "a transaction differs after the multiproof round trip", shape)
			return nil, false
		}
	}
	// size: transmitted hashes == minimal multiproof
	hashes := (len(encoded) - len(enc(types.V2TransactionsMultiproof(stripped(orig)))))
	// the stripped set encodes with a zero-length multiproof; the difference is 32 bytes per hash
	if hashes%32 != 0 || hashes/32 != minimalMultiproofSize(refs) {
		b.Violate("C18/multiproof/size/"+shape, fmt.Sprintf("multiproof transmits %d bytes of hashes; the minimal set for these leaf positions is %d hashes", hashes, minimalMultiproofSize(refs)), shape)
	}
	return dec, true
}

func normH(h []types.Hash256) []types.Hash256 {
	if len(h) == 0 {
		return nil
	}
	return h
}

// synthetic set over live store elements (not a valid block; legal to encode)
func syntheticSet(c *chaingen.Chain, rng *rand.Rand, n int, withDup bool) []types.V2Transaction {
	var txns []types.V2Transaction
	s := c.S
	scs, sfs, v2s := s.OrderedSC(), s.OrderedSF(), s.OrderedV2FC()
	cur := types.V2Transaction{}
	flush := func() {
		if len(cur.SiacoinInputs)+len(cur.SiafundInputs)+len(cur.FileContractRevisions)+len(cur.FileContractResolutions) > 0 {
			txns = append(txns, cur)
			cur = types.V2Transaction{}
		}
	}
	for i := 0; i < n; i++ {
		switch rng.IntN(5) {
		case 0, 1:
			if len(scs) > 0 {
				e := s.SCEs[scs[rng.IntN(len(scs))]]
				cur.SiacoinInputs = append(cur.SiacoinInputs, types.V2SiacoinInput{Parent: e.Copy(), SatisfiedPolicy: types.SatisfiedPolicy{Policy: types.AnyoneCanSpend()}})
			}
		case 2:
			if len(sfs) > 0 {
				e := s.SFEs[sfs[rng.IntN(len(sfs))]]
				cur.SiafundInputs = append(cur.SiafundInputs, types.V2SiafundInput{Parent: e.Copy(), SatisfiedPolicy: types.SatisfiedPolicy{Policy: types.AnyoneCanSpend()}})
			}
		case 3:
			if len(v2s) > 0 {
				e := s.V2FCEs[v2s[rng.IntN(len(v2s))]]
				if rng.IntN(2) == 0 {
					cur.FileContractRevisions = append(cur.FileContractRevisions, types.V2FileContractRevision{Parent: e.Copy(), Revision: e.V2FileContract})
				} else {
					h := uint64(rng.IntN(int(c.Height()) + 1))
					if ci, ok := s.CIEs[h]; ok {
						cur.FileContractResolutions = append(cur.FileContractResolutions, types.V2FileContractResolution{Parent: e.Copy(), Resolution: &types.V2StorageProof{ProofIndex: ci.Copy()}})
					} else {
						cur.FileContractResolutions = append(cur.FileContractResolutions, types.V2FileContractResolution{Parent: e.Copy(), Resolution: &types.V2FileContractExpiration{}})
					}
				}
			}
		case 4:
			// ephemeral parent
			cur.SiacoinInputs = append(cur.SiacoinInputs, types.V2SiacoinInput{Parent: types.SiacoinElement{ID: types.SiacoinOutputID{byte(i)}, StateElement: types.StateElement{LeafIndex: types.UnassignedLeafIndex}, SiacoinOutput: types.SiacoinOutput{Value: types.Siacoins(1)}}, SatisfiedPolicy: types.SatisfiedPolicy{Policy: types.AnyoneCanSpend()}})
		}
		if rng.IntN(3) == 0 {
			flush()
		}
	}
	flush()
	if withDup && len(txns) > 0 {
		// the same leaf listed twice (in another transaction)
		for _, t := range txns {
			if len(t.SiacoinInputs) > 0 && t.SiacoinInputs[0].Parent.StateElement.LeafIndex != types.UnassignedLeafIndex {
				txns = append(txns, types.V2Transaction{SiacoinInputs: []types.V2SiacoinInput{{Parent: t.SiacoinInputs[0].Parent.Copy(), SatisfiedPolicy: t.SiacoinInputs[0].SatisfiedPolicy}}})
				break
			}
		}
	}
	return txns
}

// ---------------------------------------------------------------- outlines

func blockEqual(a, b types.Block) bool {
	return bytes.Equal(enc(types.V2Block(a)), enc(types.V2Block(b)))
}

func checkOutlines(b *harness.B, c *chaingen.Chain, cs consensus.State, blk types.Block, rng *rand.Rand) {
	if blk.V2 == nil {
		return
	}
	n1, n2 := len(blk.Transactions), len(blk.V2.Transactions)
	n := n1 + n2
	id := blk.ID()
	hashOf := func(i int) types.Hash256 {
		if i < n1 {
			return blk.Transactions[i].MerkleLeafHash()
		}
		return blk.V2.Transactions[i-n1].MerkleLeafHash()
	}
	// identical transactions inside one block (valid for attestation-only transactions) come from run()'s directed block
	masks := []uint64{}
	if n <= 10 {
		for m := uint64(0); m < 1<<n; m++ {
			masks = append(masks, m)
		}
		b.Count("outline_blocks_all_subsets", 1)
	} else {
		masks = append(masks, 0, 1<<n-1)
		for k := 0; k < 60; k++ {
			masks = append(masks, rng.Uint64()&(1<<n-1))
		}
	}
	for _, m := range masks {
		var om1 []types.Transaction
		var om2 []types.V2Transaction
		var omitted []int
		for i := 0; i < n; i++ {
			if m&(1<<i) != 0 {
				omitted = append(omitted, i)
				if i < n1 {
					om1 = append(om1, blk.Transactions[i])
				} else {
					om2 = append(om2, blk.V2.Transactions[i-n1])
				}
			}
		}
		// transactions are omitted by hash: a copy of an omitted transaction elsewhere in the block goes with it
		if len(omitted) > 0 && len(omitted) < n {
			gone := map[types.Hash256]bool{}
			for _, i := range omitted {
				gone[hashOf(i)] = true
			}
			omitted = omitted[:0]
			for i := 0; i < n; i++ {
				if gone[hashOf(i)] {
					omitted = append(omitted, i)
				}
			}
		}
		work := chaingen.CloneBlock(blk)
		ob := gateway.OutlineBlock(work, om1, om2)
		b.Eval(1)
		b.Count("outlines_checked", 1)
		b.Distinct("outline", min(n, 12), len(omitted), n1 > 0, len(omitted) == n)
		wit := map[string]any{"txns": n, "omitted": omitted, "height": cs.Index.Height + 1}
		if ob.ID(cs) != id {
			b.Violate("C18/outline/id-differs", fmt.Sprintf("outline with %d of %d transactions omitted has a different ID than the block", len(omitted), n), wit)
			continue
		}
		// missing hashes: exactly the omitted ones, in block order
		var wantMissing []types.Hash256
		for _, i := range omitted {
			wantMissing = append(wantMissing, hashOf(i))
		}
		if !reflect.DeepEqual(normH(ob.Missing()), normH(wantMissing)) {
			b.Violate("C18/outline/missing-list", "Missing() does not list exactly the omitted transactions", wit)
		}
		// codec
		var buf bytes.Buffer
		e := types.NewEncoder(&buf)
		gateway.VerifEncodeOutline(&ob, e)
		e.Flush()
		var ob2 gateway.V2BlockOutline
		d := types.NewBufDecoder(buf.Bytes())
		if b.Guard("C18/outline/decode", func() any { return wit }, func() { gateway.VerifDecodeOutline(&ob2, d) }) {
			continue
		}
		if d.Err() != nil {
			b.Violate("C18/outline/codec-error", "an outline does not decode from its own encoding: "+d.Err().Error(), wit)
			continue
		}
		if ob2.ID(cs) != id || !reflect.DeepEqual(normH(ob2.Missing()), normH(wantMissing)) {
			b.Violate("C18/outline/codec-changes-outline", "the decoded outline has a different ID or missing list", wit)
			continue
		}
		// a relay that trims what it forwards: the outline of the whole block as it came off the wire, the same subset
		// removed from it afterwards - the same ID, the same missing list, and it still travels and completes
		if len(omitted) > 0 {
			full := gateway.OutlineBlock(chaingen.CloneBlock(blk), nil, nil)
			var fb bytes.Buffer
			fe := types.NewEncoder(&fb)
			gateway.VerifEncodeOutline(&full, fe)
			fe.Flush()
			var relayed gateway.V2BlockOutline
			fd := types.NewBufDecoder(fb.Bytes())
			if !b.Guard("C18/outline/decode", func() any { return wit }, func() { gateway.VerifDecodeOutline(&relayed, fd) }) && fd.Err() == nil {
				relayed.RemoveTransactions(om1, om2)
				b.Count("outlines_trimmed_after_arriving_from_the_wire", 1)
				if relayed.ID(cs) != id || !reflect.DeepEqual(normH(relayed.Missing()), normH(wantMissing)) {
					b.Violate("C18/outline/trimmed-after-relay/id-or-missing-list-differs", fmt.Sprintf("an outline decoded from the wire and then trimmed by %d of %d transactions has another ID or missing list than the outline built without them", len(omitted), n), wit)
				} else {
					p1 := append([]types.Transaction(nil), om1...)
					p2 := append([]types.V2Transaction(nil), om2...)
					if got, miss := relayed.Complete(cs, p1, p2); len(miss) != 0 || !blockEqual(got, blk) {
						b.Violate("C18/outline/trimmed-after-relay/does-not-complete", "an outline decoded from the wire, trimmed, and offered the removed transactions does not complete to the block", wit)
					}
				}
			}
		}
		// completion from a superset, permuted
		pool1 := append([]types.Transaction(nil), om1...)
		pool2 := append([]types.V2Transaction(nil), om2...)
		pool1 = append(pool1, types.Transaction{ArbitraryData: [][]byte{[]byte("unrelated pool transaction")}})
		pool2 = append(pool2, types.V2Transaction{ArbitraryData: []byte("unrelated pool transaction")})
		rng.Shuffle(len(pool1), func(i, j int) { pool1[i], pool1[j] = pool1[j], pool1[i] })
		rng.Shuffle(len(pool2), func(i, j int) { pool2[i], pool2[j] = pool2[j], pool2[i] })
		full, miss := ob2.Complete(cs, pool1, pool2)
		if len(miss) != 0 {
			b.Violate("C18/outline/complete-reports-missing", "Complete reports missing transactions although all omitted ones were offered", wit)
		} else if !blockEqual(full, blk) {
			b.Violate("C18/outline/complete-differs", "the completed block is not exactly the original block", wit)
		} else {
			b.Count("outlines_completed_exactly", 1)
			if consensus.ValidateBlock(cs, full, c.SupplementFor(full)) != nil {
				b.Violate("C18/outline/completed-block-invalid", "the completed block is rejected although the original was accepted", wit)
			}
		}
		// partial pool: withhold one omitted transaction
		if len(omitted) > 0 {
			ob3 := gateway.OutlineBlock(chaingen.CloneBlock(blk), om1, om2)
			w := omitted[rng.IntN(len(omitted))]
			twin := false
			for _, i := range omitted {
				twin = twin || (i != w && hashOf(i) == hashOf(w))
			}
			if twin {
				continue // an identical transaction stays in the pool: withholding one copy withholds nothing
			}
			var p1 []types.Transaction
			var p2 []types.V2Transaction
			for _, i := range omitted {
				if i == w {
					continue
				}
				if i < n1 {
					p1 = append(p1, blk.Transactions[i])
				} else {
					p2 = append(p2, blk.V2.Transactions[i-n1])
				}
			}
			_, miss := ob3.Complete(cs, p1, p2)
			if len(miss) != 1 || miss[0] != hashOf(w) {
				b.Violate("C18/outline/partial-complete-missing-list", fmt.Sprintf("with one omitted transaction withheld Complete reports %d missing hashes, expected exactly that one", len(miss)), wit)
			}
			if !reflect.DeepEqual(normH(ob3.Missing()), normH(miss)) {
				b.Violate("C18/outline/missing-disagrees-with-complete", "Missing() after Complete disagrees with the list Complete returned", wit)
			}
			b.Count("outlines_partial_checked", 1)
		}
	}
}

func run(b *harness.B) {
	if b.Batch == 0 {
		directedLeafHashAmbiguity(b)
	}
	nNets := b.Pick(3, 8)
	blocks := b.Pick(100, 350)
	for i := 0; i < nNets; i++ {
		fam := []string{"compressed", "v2genesis", "scrambled", "testnet", "legacywin"}[(b.Batch+i)%5]
		rng := b.SubRng(fmt.Sprint("net", i))
		net := chaingen.GenNet(rng, fam, b.Batch*100+i)
		c := chaingen.NewChain(net, rng)
		r2 := b.SubRng(fmt.Sprint("c18", i))
		c.OnAccepted = func(cs consensus.State, blk types.Block, bs consensus.V1BlockSupplement, kinds []string) {
			if len(kinds) >= 3 {
				b.Sample(chaingen.DescribeBlock(cs, blk, kinds))
			}
			if blk.V2 == nil {
				return
			}
			b.Count("v2_blocks", 1)
			b.SetAdd("eras", chaingen.Era(net.N, cs.Index.Height+1))
			// (1a) the block's own transactions: round trip keeps ID, commitment, verdict
			if len(blk.V2.Transactions) > 0 {
				work := chaingen.CloneBlock(blk)
				if dec, ok := checkMultiproof(b, work.V2.Transactions, "block"); ok {
					nb := chaingen.CloneBlock(blk)
					nb.V2.Transactions = dec
					if nb.ID() != blk.ID() || cs.Commitment(nb.MinerPayouts[0].Address, nb.Transactions, nb.V2.Transactions) != blk.V2.Commitment {
						b.Violate("C18/multiproof/block-id-or-commitment-changed", "block ID or commitment changed by the multiproof round trip", kinds)
					}
					if err := consensus.ValidateBlock(cs, nb, bs); err != nil {
						b.Violate("C18/multiproof/block-verdict-changed", "an accepted block is rejected after the multiproof round trip: "+chaingen.NormErr(err), kinds)
					}
					// whole-block codec
					var out types.Block
					d := types.NewBufDecoder(enc(types.V2Block(blk)))
					(*types.V2Block)(&out).DecodeFrom(d)
					if d.Err() != nil || !blockEqual(out, blk) {
						b.Violate("C18/multiproof/v2block-codec", "V2Block codec does not restore the block", kinds)
					}
					b.Count("blocks_roundtripped", 1)
				}
			}
			// (1b) synthetic sets over the store at this state
			if cs.Index.Height%3 == 0 {
				for k := 0; k < 3; k++ {
					set := syntheticSet(c, r2, 1+r2.IntN(b.Pick(14, 40)), k == 2)
					if len(set) > 0 {
						checkMultiproof(b, set, map[bool]string{true: "synthetic-with-duplicate-leaf", false: "synthetic"}[k == 2])
					}
				}
			}
			// (2) outlines
			checkOutlines(b, c, cs, blk, r2)
			// (2b) a block that carries the same transaction twice (an attestation-only transaction consumes nothing and
			// is valid any number of times): every outline of it completes to it as well
			if cs.Index.Height%8 == 0 {
				key := c.W.Keys[1]
				a := types.Attestation{PublicKey: key.PublicKey(), Key: "relay", Value: []byte{byte(cs.Index.Height)}}
				a.Signature = key.SignHash(cs.AttestationSigHash(a))
				t := types.V2Transaction{Attestations: []types.Attestation{a}}
				other := types.V2Transaction{ArbitraryData: []byte("between the twins")}
				if dup, dbs, err := c.BlockWith(nil, []types.V2Transaction{chaingen.CloneV2(t), other, chaingen.CloneV2(t)}); err == nil && consensus.ValidateBlock(cs, dup, dbs) == nil {
					b.Count("outline_blocks_with_a_repeated_transaction", 1)
					checkOutlines(b, c, cs, dup, r2)
				}
			}
		}
		for done := 0; done < blocks; {
			done += c.Grow(1+rng.IntN(10), chaingen.Plan{MaxTxns: b.Pick(7, 9)})
			if c.Height() > 2 && rng.IntN(8) == 0 {
				c.RevertTip()
			}
		}
		if i == 0 {
			b.Sample(map[string]any{"network": net.Name, "family": fam, "height": c.Height(), "leaves": c.Tip().Elements.NumLeaves})
		}
	}
}

var _ = sort.Strings

func main() {
	harness.Main(harness.Spec{
		ID:     "C18",
		Rule:   "v2 blocks accepted on chaingen histories (families with v2 heights). Multiproof: the block's transactions and synthetic sets of up to 40 parents drawn from all live store elements (siacoin/siafund inputs, revision and resolution parents, storage-proof chain indices at random heights, ephemeral parents, optionally the same leaf twice) are encoded and decoded; proofs compared hash by hash, size against the independently computed minimal multiproof. Outlines: every subset of omitted transactions for blocks of <= 10 transactions (random subsets beyond): ID, Missing(), codec, Complete from a shuffled superset pool, Complete with one transaction withheld. distinct = (set kind, #leaves, duplicate?, ephemeral?, #tree heights) and (block size, #omitted, mixed?).",
		Assume: []string{"all proofs of a set are valid for one state (they come from the client store at that state)", "a block never contains two byte-identical transactions"},
		Batches: func(t string) int {
			if t == "quick" {
				return 16
			}
			return 48
		},
		Run:         run,
		MinEvals:    3000,
		MinDistinct: 100,
		Require:     []string{"v2_blocks", "multiproof_roundtrips", "blocks_roundtripped", "outlines_checked", "outlines_completed_exactly", "outlines_partial_checked", "outline_blocks_all_subsets"},
	})
}
