package main

import (
	"bytes"
	"fmt"
	"math"

	"go.sia.tech/core/consensus"
	"go.sia.tech/core/types"
	"verif/internal/chaingen"
)

// Directed scenarios for authorizations that depend on what happened earlier in the
// same block or on which contract a signature was made for. Each builds its witness
// on the chain the batch is running (when v2 is allowed and the wallet can fund it)
// and offers it to the real ValidateBlock.

func (e *env) directed() {
	c := e.c
	cs := c.Tip()
	h := cs.Index.Height + 1
	n := c.Net.N
	if h < n.HardforkV2.AllowHeight || e.directedDone {
		return
	}
	data := []byte("directed scenarios of C03")
	blk, bs, ids, err := c.BlockWithV2Contracts([]chaingen.V2ContractSpec{{Data: data, ProofHeight: h + 12, ExpirationHeight: h + 16}, {Twin: true}})
	if err != nil || ids[0] == (types.FileContractID{}) || ids[1] == (types.FileContractID{}) {
		return // not funded at this point of the chain; tried again later
	}
	if c.Offer(blk, bs, nil) != nil {
		return
	}
	e.directedDone = true
	x, okX := c.S.V2FCEs[ids[0]]
	y, okY := c.S.V2FCEs[ids[1]]
	if !okX || !okY {
		return
	}
	cs = c.Tip()
	judge := func(key, what string, b2 types.Block, must string) {
		err, _ := c.TryVariant(&b2)
		if chaingen.IsSealFailure(err) {
			return
		}
		e.b.Eval(1)
		e.b.Count("directed_authorization_scenarios", 1)
		e.b.Distinct("directed", key)
		switch {
		case must == "reject" && err == nil:
			e.b.Violate("C03/tamper-accepted/v2-witness/"+key, what, map[string]any{"height": cs.Index.Height + 1})
		case must == "accept" && err != nil:
			e.b.SetAdd("directed_controls_rejected", key+" => "+chaingen.NormErr(err))
			e.b.Inconclusive("directed scenario " + key + ": control rejected: " + chaingen.NormErr(err))
		}
	}

	// (1) a revision signed for contract X, submitted against its twin Y (same keys, same values, another ID):
	// nobody ever signed a revision of Y
	one := types.NewCurrency64(1)
	if !x.V2FileContract.RenterOutput.Value.IsZero() {
		rev := x.V2FileContract
		rev.RevisionNumber++
		rev.RenterOutput.Value = rev.RenterOutput.Value.Sub(one)
		rev.HostOutput.Value = rev.HostOutput.Value.Add(one)
		tx := types.V2Transaction{FileContractRevisions: []types.V2FileContractRevision{{Parent: x.Copy(), Revision: rev}}}
		c.SignV2(cs, &tx, nil)
		eb, _, err := c.EmptyBlock()
		if err == nil {
			ctrl := chaingen.CloneBlock(eb)
			ensureV2Data(&ctrl)
			ctrl.V2.Transactions = []types.V2Transaction{chaingen.CloneV2(tx)}
			judge("revision-of-the-signed-contract(control)", "", ctrl, "accept")
			sub := chaingen.CloneV2(tx)
			sub.FileContractRevisions[0].Parent = y.Copy() // signatures untouched
			b2 := chaingen.CloneBlock(eb)
			ensureV2Data(&b2)
			b2.V2.Transactions = []types.V2Transaction{sub}
			judge("revision-signed-for-another-contract-with-the-same-keys", fmt.Sprintf("a revision signed by renter and host for contract %v was accepted as a revision of contract %v (same keys and terms), which nobody signed", x.ID, y.ID), b2, "reject")
		}
	}

	// (2) a revision rotates the renter key A -> B; a renewal later in the same block is signed by A
	var keyB types.PrivateKey
	for _, k := range c.W.Keys {
		if k.PublicKey() != x.V2FileContract.RenterPublicKey && k.PublicKey() != x.V2FileContract.HostPublicKey {
			keyB = k
			break
		}
	}
	if keyB != nil {
		rot := x.V2FileContract
		rot.RevisionNumber++
		rot.RenterPublicKey = keyB.PublicKey()
		t1 := types.V2Transaction{FileContractRevisions: []types.V2FileContractRevision{{Parent: x.Copy(), Revision: rot}}}
		c.SignV2(cs, &t1, nil)
		// renewal: everything rolls over into a new contract of the same size; the tax is paid by a wallet input
		fc := x.V2FileContract
		nc := fc
		nc.RevisionNumber = 0
		nc.ProofHeight, nc.ExpirationHeight = fc.ProofHeight+10, fc.ExpirationHeight+10
		nc.MissedHostValue, nc.TotalCollateral = types.ZeroCurrency, types.ZeroCurrency
		tax := cs.V2FileContractTax(nc)
		ren := &types.V2FileContractRenewal{NewContract: nc, RenterRollover: fc.RenterOutput.Value, HostRollover: fc.HostOutput.Value,
			FinalRenterOutput: types.SiacoinOutput{Address: fc.RenterOutput.Address}, FinalHostOutput: types.SiacoinOutput{Address: fc.HostOutput.Address}}
		var fund *types.SiacoinElement
		var lock *chaingen.Lock
		for _, id := range c.S.OrderedSC() {
			el := c.S.SCEs[id]
			l := c.W.Locks[el.SiacoinOutput.Address]
			if l != nil && l.Kind != "uc-unknown-alg" && l.SpendableV2(cs.Index.Height, chaingen.Median(cs)) && el.MaturityHeight <= cs.Index.Height+1 && el.SiacoinOutput.Value.Cmp(tax) > 0 {
				ec := el.Copy()
				fund, lock = &ec, l
				break
			}
		}
		if fund != nil {
			t2 := types.V2Transaction{
				SiacoinInputs:           []types.V2SiacoinInput{{Parent: *fund, SatisfiedPolicy: types.SatisfiedPolicy{Policy: lock.Policy}}},
				SiacoinOutputs:          []types.SiacoinOutput{{Value: fund.SiacoinOutput.Value.Sub(tax), Address: types.VoidAddress}},
				FileContractResolutions: []types.V2FileContractResolution{{Parent: x.Copy(), Resolution: ren}},
			}
			c.SignV2(cs, &t2, nil) // signs the renewal with the keys of the parent as it is in the accumulator: A and H
			eb, _, err := c.EmptyBlock()
			if err == nil {
				ctrl := chaingen.CloneBlock(eb)
				ensureV2Data(&ctrl)
				ctrl.V2.Transactions = []types.V2Transaction{chaingen.CloneV2(t2)}
				judge("renewal-alone-signed-by-the-contract-keys(control)", "", ctrl, "accept")
				// the same signed renewal submitted against the twin contract (same keys and values, another ID)
				rsub := chaingen.CloneV2(t2)
				rsub.FileContractResolutions[0].Parent = y.Copy()
				// the submitter funds the tax with an input of its own: only the input is signed anew, the renewal and
				// new-contract signatures are the ones made for X
				rsub.SiacoinInputs[0].SatisfiedPolicy = c.W.Satisfy(lock, cs.InputSigHash(rsub))
				b3 := chaingen.CloneBlock(eb)
				ensureV2Data(&b3)
				b3.V2.Transactions = []types.V2Transaction{rsub}
				judge("renewal-signed-for-another-contract-with-the-same-keys", fmt.Sprintf("a renewal signed by renter and host for contract %v was accepted as a renewal of contract %v (same keys and terms), which nobody signed", x.ID, y.ID), b3, "reject")
				b2 := chaingen.CloneBlock(eb)
				ensureV2Data(&b2)
				b2.V2.Transactions = []types.V2Transaction{chaingen.CloneV2(t1), chaingen.CloneV2(t2)}
				judge("renewal-after-in-block-key-rotation-signed-by-the-rotated-out-key", "a revision rotated the renter key of the contract; a renewal later in the same block, signed by the rotated-out key, was accepted", b2, "reject")
			}
		}
	}

	// (4) two inputs controlled by the same address in one transaction: every input carries its own witness, and
	// the second one is judged on its own (not on the strength of the first)
	{
		pl := c.W.StdV2(c.W.Keys[3])
		var fund *types.SiacoinElement
		var lock *chaingen.Lock
		for _, id := range c.S.OrderedSC() {
			el := c.S.SCEs[id]
			l := c.W.Locks[el.SiacoinOutput.Address]
			if l != nil && l.Kind != "uc-unknown-alg" && l.SpendableV2(cs.Index.Height, chaingen.Median(cs)) && el.MaturityHeight <= cs.Index.Height+1 && el.SiacoinOutput.Value.Cmp(types.NewCurrency64(4)) > 0 {
				ec := el.Copy()
				fund, lock = &ec, l
				break
			}
		}
		eb, _, err := c.EmptyBlock()
		if fund != nil && err == nil {
			half := fund.SiacoinOutput.Value.Div64(2)
			t1 := types.V2Transaction{
				SiacoinInputs:  []types.V2SiacoinInput{{Parent: *fund, SatisfiedPolicy: types.SatisfiedPolicy{Policy: lock.Policy}}},
				SiacoinOutputs: []types.SiacoinOutput{{Value: half, Address: pl.Addr}, {Value: fund.SiacoinOutput.Value.Sub(half), Address: pl.Addr}},
			}
			c.SignV2(cs, &t1, nil)
			t2 := types.V2Transaction{
				SiacoinInputs: []types.V2SiacoinInput{
					{Parent: t1.EphemeralSiacoinOutput(0), SatisfiedPolicy: types.SatisfiedPolicy{Policy: pl.Policy}},
					{Parent: t1.EphemeralSiacoinOutput(1), SatisfiedPolicy: types.SatisfiedPolicy{Policy: pl.Policy}},
				},
				SiacoinOutputs: []types.SiacoinOutput{{Value: fund.SiacoinOutput.Value, Address: types.VoidAddress}},
			}
			sh := cs.InputSigHash(t2)
			good := c.W.Satisfy(pl, sh)
			t2.SiacoinInputs[0].SatisfiedPolicy = good
			t2.SiacoinInputs[1].SatisfiedPolicy = good
			mkb := func(t types.V2Transaction) types.Block {
				b2 := chaingen.CloneBlock(eb)
				ensureV2Data(&b2)
				b2.V2.Transactions = []types.V2Transaction{chaingen.CloneV2(t1), t}
				return b2
			}
			judge("two-inputs-of-one-address-both-signed(control)", "", mkb(chaingen.CloneV2(t2)), "accept")
			for _, v := range []struct {
				key string
				mut func(sp *types.SatisfiedPolicy)
			}{
				{"second-input-of-the-same-address-signed-by-another-key", func(sp *types.SatisfiedPolicy) {
					sp.Signatures = []types.Signature{c.W.Keys[4].SignHash(sh)}
				}},
				{"second-input-of-the-same-address-without-a-signature", func(sp *types.SatisfiedPolicy) { sp.Signatures = nil }},
				{"second-input-of-the-same-address-with-a-damaged-signature", func(sp *types.SatisfiedPolicy) {
					sp.Signatures = append([]types.Signature(nil), sp.Signatures...)
					sp.Signatures[0][5] ^= 0x10
				}},
			} {
				t := chaingen.CloneV2(t2)
				v.mut(&t.SiacoinInputs[1].SatisfiedPolicy)
				judge(v.key, "a transaction spending two outputs of one address was accepted although only the first input carried a valid signature", mkb(t), "reject")
			}
		}
	}

	// (3) Foundation: an update rotates the management address F -> G; a second update in the same block is
	// authorized by an input of F only
	if h >= n.HardforkFoundation.Height {
		var fs []types.SiacoinElement
		var fl *chaingen.Lock
		for _, id := range c.S.OrderedSC() {
			el := c.S.SCEs[id]
			l := c.W.Locks[el.SiacoinOutput.Address]
			if el.SiacoinOutput.Address == cs.FoundationManagementAddress && l != nil && l.SpendableV2(cs.Index.Height, chaingen.Median(cs)) && el.MaturityHeight <= cs.Index.Height+1 && !el.SiacoinOutput.Value.IsZero() {
				fs = append(fs, el.Copy())
				fl = l
			}
		}
		if len(fs) >= 2 {
			g := c.W.StdV1(c.W.Keys[4]).Addr
			hh := c.W.StdV1(c.W.Keys[5]).Addr
			mk := func(el types.SiacoinElement, to types.Address) types.V2Transaction {
				a := to
				t := types.V2Transaction{SiacoinInputs: []types.V2SiacoinInput{{Parent: el, SatisfiedPolicy: types.SatisfiedPolicy{Policy: fl.Policy}}},
					SiacoinOutputs: []types.SiacoinOutput{{Value: el.SiacoinOutput.Value, Address: types.VoidAddress}}, NewFoundationAddress: &a}
				c.SignV2(cs, &t, nil)
				return t
			}
			if g != cs.FoundationManagementAddress && hh != cs.FoundationManagementAddress {
				eb, _, err := c.EmptyBlock()
				if err == nil {
					ctrl := chaingen.CloneBlock(eb)
					ensureV2Data(&ctrl)
					ctrl.V2.Transactions = []types.V2Transaction{mk(fs[1].Copy(), hh)}
					judge("foundation-update-by-the-current-address(control)", "", ctrl, "accept")
					b2 := chaingen.CloneBlock(eb)
					ensureV2Data(&b2)
					b2.V2.Transactions = []types.V2Transaction{mk(fs[0].Copy(), g), mk(fs[1].Copy(), hh)}
					judge("second-foundation-update-in-block-authorized-by-the-replaced-address", "after an update moved the Foundation management address from F to G, a second update in the same block authorized only by an input of F was accepted", b2, "reject")
				}
			}
		}
	}
}

// directedV1: the developer-address exception belongs to siafund outputs only. A siacoin output at the old
// developer address is spent with the unlock conditions of the NEW developer address (which do not hash to the
// output's address), signed by that key, at a height where the exception is active.
func (e *env) directedV1() {
	c := e.c
	cs := c.Tip()
	h := cs.Index.Height + 1
	n := c.Net.N
	if e.directedV1Done || h+2 >= n.HardforkV2.RequireHeight || h < n.HardforkDevAddr.Height || c.DevOld == nil || c.DevNew == nil || c.DevOld.UC == nil || c.DevNew.UC == nil {
		return
	}
	var src *types.SiacoinElement
	var lock *chaingen.Lock
	for _, id := range c.S.OrderedSC() {
		el := c.S.SCEs[id]
		l := c.W.Locks[el.SiacoinOutput.Address]
		if l != nil && l.UC != nil && l.Kind != "uc-unknown-alg" && l.SpendableV1(h) && el.MaturityHeight <= h && el.SiacoinOutput.Value.Cmp(types.Siacoins(2)) > 0 {
			ec := el.Copy()
			src, lock = &ec, l
			break
		}
	}
	if src == nil {
		return
	}
	pay := c.NewV1Spend(cs, src.ID, src.SiacoinOutput.Value, lock, c.DevOld.Addr)
	blk, bs, err := c.BlockWith([]types.Transaction{pay}, nil)
	if err != nil || c.Offer(blk, bs, nil) != nil {
		return
	}
	e.directedV1Done = true
	cs = c.Tip()
	id := pay.SiacoinOutputID(0)
	spend := func(l *chaingen.Lock) types.Block {
		t := c.NewV1Spend(cs, id, src.SiacoinOutput.Value, l, types.VoidAddress)
		b2, _, _ := c.EmptyBlock()
		b2.Transactions = []types.Transaction{t}
		return b2
	}
	for _, cse := range []struct {
		key  string
		l    *chaingen.Lock
		must string
	}{{"siacoin-at-the-old-developer-address-spent-by-its-own-conditions(control)", c.DevOld, "accept"}, {"siacoin-at-the-old-developer-address-spent-with-the-new-developer-address-conditions", c.DevNew, "reject"}} {
		b2 := spend(cse.l)
		err, _ := c.TryVariant(&b2)
		if chaingen.IsSealFailure(err) {
			continue
		}
		e.b.Eval(1)
		e.b.Count("directed_authorization_scenarios", 1)
		e.b.Distinct("directed", cse.key)
		if cse.must == "reject" && err == nil {
			e.b.Violate("C03/tamper-accepted/v1-witness/"+cse.key, "a siacoin output was spent with unlock conditions that do not hash to its address (the siafund-only developer-address exception was applied to a siacoin input)", map[string]any{"height": cs.Index.Height + 1})
		} else if cse.must == "accept" && err != nil {
			e.b.Inconclusive("directed scenario " + cse.key + ": control rejected: " + chaingen.NormErr(err))
		}
	}
}

// directedV1b: two more v1 scenarios (seeded wave 6).
//
// (a) an input whose unlock conditions list no key and require 2^64-1 signatures (unspendable on its own) next to an
// ordinary single-key input, the transaction carrying no signature at all: the required counts of all parents sum
// to 0 modulo 2^64 - every parent needs its own signatures.
//
// (b) a Foundation address update appended to a transaction in which the Foundation's input is signed with partial
// covered fields (its own input and output only) while another party's input is signed over the whole transaction:
// no Foundation key signed the update.
func (e *env) directedV1b() {
	c := e.c
	cs := c.Tip()
	h := cs.Index.Height + 1
	n := c.Net.N
	if e.directedV1bDone || h+3 >= n.HardforkV2.RequireHeight {
		return
	}
	type owned struct {
		el   types.SiacoinElement
		lock *chaingen.Lock
		key  types.PrivateKey
	}
	var singles, foundation []owned
	for _, id := range c.S.OrderedSC() {
		el := c.S.SCEs[id]
		l := c.W.Locks[el.SiacoinOutput.Address]
		if l == nil || l.UC == nil || l.Kind == "uc-unknown-alg" || !l.SpendableV1(h+1) || el.MaturityHeight > h || el.SiacoinOutput.Value.IsZero() {
			continue
		}
		if len(l.UC.PublicKeys) != 1 || l.UC.SignaturesRequired != 1 || l.UC.Timelock != 0 || l.UC.PublicKeys[0].Algorithm != types.SpecifierEd25519 {
			continue
		}
		var pk types.PublicKey
		copy(pk[:], l.UC.PublicKeys[0].Key)
		k, ok := c.W.Priv(pk)
		if !ok {
			continue
		}
		o := owned{el.Copy(), l, k}
		if el.SiacoinOutput.Address == cs.FoundationManagementAddress || el.SiacoinOutput.Address == cs.FoundationSubsidyAddress {
			foundation = append(foundation, o)
		} else {
			singles = append(singles, o)
		}
	}
	if len(singles) < 2 {
		return
	}
	e.directedV1bDone = true
	judge := func(key, what string, txn types.Transaction, must string) {
		b2, _, err := c.EmptyBlock()
		if err != nil {
			return
		}
		b2.Transactions = []types.Transaction{txn}
		verr, _ := c.TryVariant(&b2)
		if chaingen.IsSealFailure(verr) {
			return
		}
		e.b.Eval(1)
		e.b.Count("directed_authorization_scenarios", 1)
		e.b.Distinct("directed", key)
		if must == "reject" && verr == nil {
			e.b.Violate("C03/tamper-accepted/v1-witness/"+key, what, map[string]any{"height": c.Tip().Index.Height + 1})
		} else if must == "accept" && verr != nil {
			e.b.Inconclusive("directed scenario " + key + ": control rejected: " + chaingen.NormErr(verr))
		}
	}
	// (a)
	comp := types.UnlockConditions{SignaturesRequired: math.MaxUint64}
	pay := c.NewV1Spend(cs, singles[0].el.ID, singles[0].el.SiacoinOutput.Value, singles[0].lock, comp.UnlockHash())
	if blk, bs, err := c.BlockWith([]types.Transaction{pay}, nil); err == nil && c.Offer(blk, bs, nil) == nil {
		victim := singles[1]
		txn := types.Transaction{
			SiacoinInputs:  []types.SiacoinInput{{ParentID: pay.SiacoinOutputID(0), UnlockConditions: comp}, {ParentID: victim.el.ID, UnlockConditions: *victim.lock.UC}},
			SiacoinOutputs: []types.SiacoinOutput{{Value: singles[0].el.SiacoinOutput.Value.Add(victim.el.SiacoinOutput.Value), Address: types.VoidAddress}},
		}
		judge("unsigned-input-next-to-an-input-requiring-2^64-1-signatures", "a single-key output was spent without any signature in a transaction that also spends an output whose unlock conditions require 2^64-1 signatures (the required counts sum to 0 modulo 2^64)", txn, "reject")
	}
	// (b)
	cs = c.Tip()
	if cs.Index.Height+1 >= n.HardforkFoundation.Height && len(foundation) > 0 && len(singles) > 2 {
		f, o := foundation[0], singles[2]
		var buf bytes.Buffer
		enc := types.NewEncoder(&buf)
		types.SpecifierFoundation.EncodeTo(enc)
		types.FoundationAddressUpdate{NewPrimary: o.el.SiacoinOutput.Address, NewFailsafe: o.el.SiacoinOutput.Address}.EncodeTo(enc)
		enc.Flush()
		mk := func(withUpdate bool) types.Transaction {
			txn := types.Transaction{
				SiacoinInputs:  []types.SiacoinInput{{ParentID: f.el.ID, UnlockConditions: *f.lock.UC}, {ParentID: o.el.ID, UnlockConditions: *o.lock.UC}},
				SiacoinOutputs: []types.SiacoinOutput{{Value: f.el.SiacoinOutput.Value, Address: types.VoidAddress}, {Value: o.el.SiacoinOutput.Value, Address: o.el.SiacoinOutput.Address}},
			}
			if withUpdate {
				txn.ArbitraryData = [][]byte{buf.Bytes()}
			}
			cf := types.CoveredFields{SiacoinInputs: []uint64{0}, SiacoinOutputs: []uint64{0}}
			s1 := f.key.SignHash(cs.PartialSigHash(txn, cf))
			txn.Signatures = append(txn.Signatures, types.TransactionSignature{ParentID: types.Hash256(f.el.ID), CoveredFields: cf, Signature: s1[:]})
			txn.Signatures = append(txn.Signatures, types.TransactionSignature{ParentID: types.Hash256(o.el.ID), CoveredFields: types.CoveredFields{WholeTransaction: true}})
			s2 := o.key.SignHash(cs.WholeSigHash(txn, types.Hash256(o.el.ID), 0, 0, nil))
			txn.Signatures[1].Signature = s2[:]
			return txn
		}
		judge("jointly-funded-transaction-foundation-input-partially-signed(control)", "", mk(false), "accept")
		judge("foundation-update-appended-beside-a-partially-signed-foundation-input", "a Foundation address update was accepted although the only Foundation-controlled input is signed with covered fields that do not include it; the whole-transaction signature belongs to another party's input", mk(true), "reject")
	}
	// (c) two parties, each signing its own input and its own output by index: the second party's signature lists
	// output 1, and it is output 1 - not the first as many outputs as it lists - that it protects
	cs = c.Tip()
	if len(singles) > 2 {
		a, o := singles[len(singles)-1], singles[len(singles)-2]
		mk := func(out0, out1 types.Address, resign bool) types.Transaction {
			txn := types.Transaction{
				SiacoinInputs:  []types.SiacoinInput{{ParentID: a.el.ID, UnlockConditions: *a.lock.UC}, {ParentID: o.el.ID, UnlockConditions: *o.lock.UC}},
				SiacoinOutputs: []types.SiacoinOutput{{Value: a.el.SiacoinOutput.Value, Address: a.el.SiacoinOutput.Address}, {Value: o.el.SiacoinOutput.Value, Address: o.el.SiacoinOutput.Address}},
			}
			cfA := types.CoveredFields{SiacoinInputs: []uint64{0}, SiacoinOutputs: []uint64{0}}
			cfO := types.CoveredFields{SiacoinInputs: []uint64{1}, SiacoinOutputs: []uint64{1}}
			sA := a.key.SignHash(cs.PartialSigHash(txn, cfA))
			sO := o.key.SignHash(cs.PartialSigHash(txn, cfO))
			txn.SiacoinOutputs[0].Address, txn.SiacoinOutputs[1].Address = out0, out1
			if resign {
				sA = a.key.SignHash(cs.PartialSigHash(txn, cfA))
				sO = o.key.SignHash(cs.PartialSigHash(txn, cfO))
			}
			txn.Signatures = []types.TransactionSignature{{ParentID: types.Hash256(a.el.ID), CoveredFields: cfA, Signature: sA[:]}, {ParentID: types.Hash256(o.el.ID), CoveredFields: cfO, Signature: sO[:]}}
			return txn
		}
		stranger := types.StandardUnlockHash(types.GeneratePrivateKey().PublicKey())
		judge("two-parties-each-signing-their-own-output-by-index(control)", "", mk(a.el.SiacoinOutput.Address, o.el.SiacoinOutput.Address, false), "accept")
		judge("two-parties-each-signing-their-own-output-by-index/resigned-for-other-recipients(control)", "", mk(types.VoidAddress, stranger, true), "accept")
		judge("output-listed-by-index-in-the-second-partys-signature-redirected", "the output a party's partial signature lists by index (output 1) was redirected to a stranger after signing and the transaction was accepted", mk(a.el.SiacoinOutput.Address, stranger, false), "reject")
		judge("output-listed-by-index-in-the-first-partys-signature-redirected", "the output a party's partial signature lists by index (output 0) was redirected to a stranger after signing and the transaction was accepted", mk(stranger, o.el.SiacoinOutput.Address, false), "reject")
		e.b.Count("partial_signature_output_index_cases", 1)
	}
}

func ensureV2Data(b *types.Block) {
	if b.V2 == nil {
		b.V2 = &types.V2BlockData{}
	}
}

var _ = consensus.ValidateBlock
