// C03 — spends, revisions, renewals and attestations need content-binding
// authorization.
//
// Every block accepted on generated histories is tampered with, one point at a
// time, WITHOUT re-signing (the block envelope — payout, commitment, proof of
// work — is re-sealed and the supplement rebuilt): every exported leaf field of
// every signed transaction (enumerated by reflection), plus witness-level
// tampers (dropped / duplicated / surplus / swapped / foreign signatures,
// substituted unlock conditions or policies, revisions signed by the proposed
// instead of the current keys, Foundation changes without Foundation
// authorization). A rule table says for each field class whether the statement
// demands rejection; documented exceptions are only recorded. The untampered
// block is the positive control; "tamper + correct re-sign is accepted" is
// checked as a second positive control.
package main

import (
	"bytes"
	"fmt"
	"regexp"
	"strings"

	"go.sia.tech/core/consensus"
	"go.sia.tech/core/types"
	"verif/internal/chaingen"
	"verif/internal/harness"
	"verif/internal/mutate"
)

var reAuth = regexp.MustCompile(`invalid (renter|host) signature|signature N is invalid|failed to satisfy spend policy|claims incorrect (policy|unlock conditions)|missing signatures|is redundant|unsigned FoundationAddressUpdate`)

type env struct {
	b                               *harness.B
	c                               *chaingen.Chain
	per                             int
	directedDone                    bool
	directedV1Done, directedV1bDone bool
}

func (e *env) judge(kind, class string, must bool, reason string, cs consensus.State, blk types.Block, kinds []string) {
	var err error
	panicked := false
	func() {
		defer func() {
			if r := recover(); r != nil {
				// a crash of validation on a tampered block is C10's subject; for C03 it is "not accepted"
				panicked = true
				err = fmt.Errorf("validation panicked: %v", r)
			}
		}()
		err, _ = e.c.TryVariant(&blk)
	}()
	if panicked {
		e.b.Count("tampers_on_which_validation_panicked(judged by C10):"+kind+class, 1)
	}
	if chaingen.IsSealFailure(err) {
		e.b.Inconclusive("variant could not be sealed")
		return
	}
	e.b.Eval(1)
	e.b.Distinct(kind, class, must)
	if !must {
		e.b.Count(fmt.Sprintf("may-accept[%s]:%s%s accepted=%v", reason, kind, class, err == nil), 1)
		return
	}
	if err == nil {
		e.b.Violate("C03/tamper-accepted/"+kind+class, fmt.Sprintf("block at height %d accepted after tampering %s%s of a signed transaction without re-signing", cs.Index.Height+1, kind, class), map[string]any{"height": cs.Index.Height + 1, "field": kind + class, "kinds": kinds})
	} else {
		e.b.Count("tampers_rejected", 1)
		e.b.SetAdd("rejection_rules_hit", chaingen.NormErr(err))
	}
}

// ---------------------------------------------------------------- v1

func v1BoundByEd25519(c *chaingen.Chain, t *types.Transaction) bool {
	// at least one signature under an ed25519 key we know
	ucs := map[types.Hash256]types.UnlockConditions{}
	for _, in := range t.SiacoinInputs {
		ucs[types.Hash256(in.ParentID)] = in.UnlockConditions
	}
	for _, in := range t.SiafundInputs {
		ucs[types.Hash256(in.ParentID)] = in.UnlockConditions
	}
	for _, r := range t.FileContractRevisions {
		ucs[types.Hash256(r.ParentID)] = r.UnlockConditions
	}
	for _, s := range t.Signatures {
		uc, ok := ucs[s.ParentID]
		if ok && s.PublicKeyIndex < uint64(len(uc.PublicKeys)) && uc.PublicKeys[s.PublicKeyIndex].Algorithm == types.SpecifierEd25519 {
			return true
		}
	}
	return false
}

func sigUnderUnknownAlg(t *types.Transaction, sigIdx int) bool {
	s := t.Signatures[sigIdx]
	find := func(uc types.UnlockConditions) bool {
		return s.PublicKeyIndex < uint64(len(uc.PublicKeys)) && uc.PublicKeys[s.PublicKeyIndex].Algorithm != types.SpecifierEd25519
	}
	for _, in := range t.SiacoinInputs {
		if types.Hash256(in.ParentID) == s.ParentID {
			return find(in.UnlockConditions)
		}
	}
	for _, in := range t.SiafundInputs {
		if types.Hash256(in.ParentID) == s.ParentID {
			return find(in.UnlockConditions)
		}
	}
	for _, r := range t.FileContractRevisions {
		if types.Hash256(r.ParentID) == s.ParentID {
			return find(r.UnlockConditions)
		}
	}
	return false
}

// ucAmbiguous: the unlock conditions the signature refers to list an
// unknown-algorithm key (any signature passes for it) or the same key twice.
func ucAmbiguous(t *types.Transaction, sigIdx int) bool {
	s := t.Signatures[sigIdx]
	amb := func(uc types.UnlockConditions) bool {
		seen := map[string]bool{}
		for _, k := range uc.PublicKeys {
			if k.Algorithm != types.SpecifierEd25519 || seen[string(k.Key)] {
				return true
			}
			seen[string(k.Key)] = true
		}
		return false
	}
	for _, in := range t.SiacoinInputs {
		if types.Hash256(in.ParentID) == s.ParentID {
			return amb(in.UnlockConditions)
		}
	}
	for _, in := range t.SiafundInputs {
		if types.Hash256(in.ParentID) == s.ParentID {
			return amb(in.UnlockConditions)
		}
	}
	for _, r := range t.FileContractRevisions {
		if types.Hash256(r.ParentID) == s.ParentID {
			return amb(r.UnlockConditions)
		}
	}
	return false
}

func (e *env) v1Fields(cs consensus.State, orig types.Block, kinds []string) {
	rng := e.c.Rng
	for i := range orig.Transactions {
		t := &orig.Transactions[i]
		if len(t.Signatures) == 0 || !v1BoundByEd25519(e.c, t) {
			continue
		}
		allWhole := true
		for _, s := range t.Signatures {
			if !s.CoveredFields.WholeTransaction {
				allWhole = false
			}
		}
		paths := mutate.Leaves(t)
		picked := paths
		if len(paths) > e.per {
			picked = nil
			for _, k := range rng.Perm(len(paths))[:e.per] {
				picked = append(picked, paths[k])
			}
		}
		for _, p := range picked {
			class := mutate.Class(p)
			must, reason := true, ""
			switch {
			case strings.Contains(class, ".FileContractRevisions[].(FileContract).Payout"):
				must, reason = false, "revision payout is never transmitted"
			case strings.HasPrefix(class, ".Signatures[]"):
				var k int
				fmt.Sscanf(p, ".Signatures[%d]", &k)
				if sigUnderUnknownAlg(t, k) {
					must, reason = false, "signature under an unknown algorithm (accepted by design)"
				} else if strings.HasSuffix(class, ".PublicKeyIndex") && ucAmbiguous(t, k) {
					must, reason = false, "the conditions list an unknown-algorithm key or the same key twice: another index can be legitimately satisfied"
				} else if strings.HasSuffix(class, ".Timelock") && !t.Signatures[k].CoveredFields.WholeTransaction {
					must, reason = false, "timelock of a partial signature is not in the partial sighash"
				} else if strings.Contains(class, ".CoveredFields.") && !strings.HasSuffix(class, ".WholeTransaction") {
					// changing an index list of a whole-transaction signature's covered fields other than Signatures has no meaning in the sighash
					if t.Signatures[k].CoveredFields.WholeTransaction && !strings.Contains(class, ".CoveredFields.Signatures") {
						must, reason = false, "index lists are ignored by a whole-transaction signature"
					}
				}
			}
			_ = allWhole
			variant := rng.IntN(3)
			if strings.HasSuffix(class, ".Signatures[].Signature") {
				variant = 0 // a bit flip inside the 64 signature bytes; bytes beyond the 64th are not part of an ed25519 signature
			}
			blk := chaingen.CloneBlock(orig)
			if !mutate.Apply(&blk.Transactions[i], p, variant) {
				continue
			}
			if must && strings.HasPrefix(class, ".Signatures[].CoveredFields.") {
				// an index list of a partial signature altered so that it selects the very same bytes (two equal miner
				// fees, equal outputs): the signature hash is the same hash of the same content, nothing it
				// authorizes has changed
				var k int
				fmt.Sscanf(p, ".Signatures[%d]", &k)
				mt := &blk.Transactions[i]
				if k < len(t.Signatures) && k < len(mt.Signatures) && !t.Signatures[k].CoveredFields.WholeTransaction {
					same := false
					func() {
						defer func() { recover() }() // an out-of-range index is for the library to refuse
						same = cs.PartialSigHash(*t, t.Signatures[k].CoveredFields) == cs.PartialSigHash(*mt, mt.Signatures[k].CoveredFields)
					}()
					if same {
						must, reason = false, "the altered index list of a partial signature selects identical content"
					}
				}
			}
			e.judge("v1", class, must, reason, cs, blk, kinds)
		}
	}
}

func (e *env) v1Witness(cs consensus.State, orig types.Block, kinds []string) {
	c := e.c
	for i := range orig.Transactions {
		t := &orig.Transactions[i]
		if len(t.Signatures) == 0 || !v1BoundByEd25519(c, t) {
			continue
		}
		variant := func(name string, must bool, f func(tt *types.Transaction) bool) {
			blk := chaingen.CloneBlock(orig)
			if f(&blk.Transactions[i]) {
				e.judge("v1-witness", "/"+name, must, "", cs, blk, kinds)
			}
		}
		// a dropped signature: the parent then lacks signatures (unless it was under an unknown algorithm AND redundant — never the case here: exactly SignaturesRequired are supplied)
		variant("signature-dropped", true, func(tt *types.Transaction) bool {
			tt.Signatures = tt.Signatures[1:]
			return true
		})
		// the same key signing twice must not count as two signatures
		variant("one-key-signs-twice-instead-of-two-distinct-keys", true, func(tt *types.Transaction) bool {
			for a := range tt.Signatures {
				for b2 := a + 1; b2 < len(tt.Signatures); b2++ {
					if tt.Signatures[a].ParentID == tt.Signatures[b2].ParentID && !sigUnderUnknownAlg(tt, a) && !ucAmbiguous(tt, a) && tt.Signatures[a].CoveredFields.WholeTransaction && len(tt.Signatures[a].CoveredFields.Signatures) == 0 {
						// signature b2 is replaced by a second, fully valid signature of key a
						tt.Signatures[b2] = tt.Signatures[a]
						tt.Signatures[b2].Signature = append([]byte(nil), tt.Signatures[a].Signature...)
						return true
					}
				}
			}
			return false
		})
		// a partial (explicit covered fields) signature made for one output, copied onto another output of the same
		// address that its owner never offered: input and an output to a stranger are appended beyond the covered
		// indices, the signatures for the first parent are copied with only their ParentID changed
		if len(t.SiacoinInputs) > 0 && len(t.StorageProofs) == 0 && len(t.SiafundInputs) == 0 && len(t.FileContractRevisions) == 0 {
			allPartial := true
			for _, sg := range t.Signatures {
				allPartial = allPartial && !sg.CoveredFields.WholeTransaction
			}
			in0 := t.SiacoinInputs[0]
			addr := in0.UnlockConditions.UnlockHash()
			used := map[types.SiacoinOutputID]bool{}
			for _, tx := range orig.Transactions {
				for _, in := range tx.SiacoinInputs {
					used[in.ParentID] = true
				}
			}
			for _, tx := range orig.V2Transactions() {
				for _, in := range tx.SiacoinInputs {
					used[in.Parent.ID] = true
				}
			}
			var other *types.SiacoinElement
			if allPartial {
				for _, id := range c.S.OrderedSC() {
					el := c.S.SCEs[id]
					if !used[id] && el.SiacoinOutput.Address == addr && el.MaturityHeight <= cs.Index.Height+1 && !el.SiacoinOutput.Value.IsZero() {
						ec := el.Copy()
						other = &ec
						break
					}
				}
			}
			if other != nil {
				variant("partial-signature-copied-onto-another-output-of-the-same-address", true, func(tt *types.Transaction) bool {
					tt.SiacoinInputs = append(tt.SiacoinInputs, types.SiacoinInput{ParentID: other.ID, UnlockConditions: in0.UnlockConditions})
					tt.SiacoinOutputs = append(tt.SiacoinOutputs, types.SiacoinOutput{Value: other.SiacoinOutput.Value, Address: types.StandardUnlockHash(foreignKey.PublicKey())})
					n := len(tt.Signatures)
					for k := 0; k < n; k++ {
						if tt.Signatures[k].ParentID == types.Hash256(in0.ParentID) {
							cp := tt.Signatures[k]
							cp.Signature = append([]byte(nil), cp.Signature...)
							cp.ParentID = types.Hash256(other.ID)
							tt.Signatures = append(tt.Signatures, cp)
						}
					}
					e.b.Count("partial_signature_replays_tried", 1)
					return true
				})
			}
		}
		// a partial signature binds the CONTENT of the fields it lists, not their kind: the last miner fee - listed, hence
		// signed - is removed, its value goes to a stranger in an output beyond the covered indices, and the bytes the
		// fee contributed to the signed hash are supplied by a new arbitrary-data entry listed in its place
		if len(t.MinerFees) > 0 && len(t.StorageProofs) == 0 {
			allPartial := true
			for _, sg := range t.Signatures {
				cf := sg.CoveredFields
				allPartial = allPartial && !cf.WholeTransaction && len(cf.Signatures) == 0 && len(cf.MinerFees) == len(t.MinerFees) && len(cf.ArbitraryData) == len(t.ArbitraryData)
			}
			if allPartial {
				variant("signed-miner-fee-relabelled-as-arbitrary-data-and-paid-to-a-stranger", true, func(tt *types.Transaction) bool {
					last := len(tt.MinerFees) - 1
					fee := tt.MinerFees[last]
					var buf bytes.Buffer
					enc := types.NewEncoder(&buf)
					types.V1Currency(fee).EncodeTo(enc)
					enc.Flush()
					a := uint64(len(tt.ArbitraryData))
					tt.MinerFees = tt.MinerFees[:last]
					tt.ArbitraryData = append(append([][]byte(nil), tt.ArbitraryData...), buf.Bytes()[8:])
					tt.SiacoinOutputs = append(append([]types.SiacoinOutput(nil), tt.SiacoinOutputs...), types.SiacoinOutput{Value: fee, Address: types.StandardUnlockHash(foreignKey.PublicKey())})
					for k := range tt.Signatures {
						cf := &tt.Signatures[k].CoveredFields
						var fees []uint64
						for _, x := range cf.MinerFees {
							if x != uint64(last) {
								fees = append(fees, x)
							}
						}
						if len(fees) != last || (len(cf.MinerFees) > 0 && cf.MinerFees[len(cf.MinerFees)-1] != uint64(last)) {
							return false // the removed fee was not hashed last among the fees
						}
						cf.MinerFees = fees
						cf.ArbitraryData = append([]uint64{a}, cf.ArbitraryData...)
					}
					e.b.Count("partial_signature_field_kind_relabellings_tried", 1)
					return true
				})
			}
		}
		// Observed, not judged (audit round 2 reported both; see DESIGN 9.3/9.6): bytes appended after the 64 signature
		// bytes, and index lists filled in beside the whole-transaction flag, are parts of the signature object that no
		// rule reads - the 64-byte signature still verifies over the same hash, so what is authorized is unchanged.
		observe := func(name string, f func(tt *types.Transaction) bool) {
			blk := chaingen.CloneBlock(orig)
			if f(&blk.Transactions[i]) {
				if err, _ := c.TryVariant(&blk); !chaingen.IsSealFailure(err) {
					e.b.Count(fmt.Sprintf("observed:%s-accepted=%v", name, err == nil), 1)
				}
			}
		}
		observe("v1-signature-bytes-appended-after-the-64th", func(tt *types.Transaction) bool {
			if sigUnderUnknownAlg(tt, 0) || len(tt.Signatures[0].Signature) != 64 {
				return false
			}
			tt.Signatures[0].Signature = append(append([]byte(nil), tt.Signatures[0].Signature...), []byte("these bytes were never produced by the signer")...)
			return true
		})
		observe("v1-covered-field-lists-beside-the-whole-transaction-flag", func(tt *types.Transaction) bool {
			cf := &tt.Signatures[0].CoveredFields
			if sigUnderUnknownAlg(tt, 0) || !cf.WholeTransaction || len(cf.SiacoinOutputs)+len(cf.MinerFees)+len(cf.ArbitraryData) != 0 {
				return false
			}
			cf.SiacoinOutputs = []uint64{7 + uint64(len(tt.SiacoinOutputs))}
			cf.MinerFees = []uint64{3, 2, 1}
			cf.ArbitraryData = []uint64{1<<64 - 1}
			return true
		})
		variant("signature-duplicated", true, func(tt *types.Transaction) bool {
			tt.Signatures = append(tt.Signatures, tt.Signatures[0])
			return true
		})
		variant("signature-by-another-actors-key", true, func(tt *types.Transaction) bool {
			if sigUnderUnknownAlg(tt, 0) {
				return false
			}
			s := &tt.Signatures[0]
			var h types.Hash256
			if s.CoveredFields.WholeTransaction {
				h = cs.WholeSigHash(*tt, s.ParentID, s.PublicKeyIndex, s.Timelock, s.CoveredFields.Signatures)
			} else {
				h = cs.PartialSigHash(*tt, s.CoveredFields)
			}
			sig := foreignKey.SignHash(h)
			s.Signature = sig[:]
			return true
		})
		variant("public-key-index-changed", true, func(tt *types.Transaction) bool {
			if sigUnderUnknownAlg(tt, 0) || ucAmbiguous(tt, 0) {
				return false
			}
			tt.Signatures[0].PublicKeyIndex++
			return true
		})
		// substitute the unlock conditions of input 0 by another actor's standard conditions, fully re-signed by that actor
		if len(t.SiacoinInputs) > 0 {
			variant("unlock-conditions-substituted-and-resigned-by-other-actor", true, func(tt *types.Transaction) bool {
				for _, k := range c.W.Keys {
					l := c.W.StdV1(k)
					if l.Addr != tt.SiacoinInputs[0].UnlockConditions.UnlockHash() {
						tt.SiacoinInputs[0].UnlockConditions = *l.UC
						c.SignV1(cs, tt, nil)
						return true
					}
				}
				return false
			})
		}
		// positive control: change an output address and re-sign correctly -> accepted
		if len(t.SiacoinOutputs) > 0 && len(t.StorageProofs) == 0 {
			blk := chaingen.CloneBlock(orig)
			tt := &blk.Transactions[i]
			ids := map[types.SiacoinOutputID]bool{}
			for k := range t.SiacoinOutputs {
				ids[t.SiacoinOutputID(k)] = true
			}
			dep := false
			for j := range orig.Transactions {
				for _, in := range orig.Transactions[j].SiacoinInputs {
					dep = dep || ids[in.ParentID]
				}
			}
			for _, vt := range orig.V2Transactions() {
				for _, in := range vt.SiacoinInputs {
					dep = dep || ids[in.Parent.ID]
				}
			}
			if !dep && len(t.SiafundOutputs) == 0 && len(t.FileContracts) == 0 {
				tt.SiacoinOutputs[0].Address[0] ^= 1
				partial := map[types.Hash256]bool{}
				for _, s := range t.Signatures {
					if !s.CoveredFields.WholeTransaction {
						partial[s.ParentID] = true
					}
				}
				c.SignV1(cs, tt, func(p types.Hash256) bool { return partial[p] })
				err, _ := c.TryVariant(&blk)
				if !chaingen.IsSealFailure(err) {
					e.b.Eval(1)
					if err != nil {
						e.b.Violate("C03/control/v1-tamper-then-resign-rejected", "changing an output address and re-signing correctly was rejected: "+chaingen.NormErr(err), map[string]any{"kinds": kinds})
					} else {
						e.b.Count("positive_controls_resigned_accepted", 1)
					}
				}
			}
		}
	}
	// Foundation update signed by a non-Foundation key
	h := cs.Index.Height + 1
	if h >= c.Net.N.HardforkFoundation.Height && h < c.Net.N.HardforkV2.RequireHeight {
		for i := range orig.Transactions {
			t := &orig.Transactions[i]
			if len(t.SiacoinInputs) == 0 || len(t.ArbitraryData) != 0 || len(t.StorageProofs) != 0 {
				continue
			}
			a := t.SiacoinInputs[0].UnlockConditions.UnlockHash()
			if a == cs.FoundationSubsidyAddress || a == cs.FoundationManagementAddress {
				continue
			}
			anyF := false
			for _, in := range t.SiacoinInputs {
				u := in.UnlockConditions.UnlockHash()
				anyF = anyF || u == cs.FoundationSubsidyAddress || u == cs.FoundationManagementAddress
			}
			if anyF {
				continue
			}
			blk := chaingen.CloneBlock(orig)
			tt := &blk.Transactions[i]
			np := c.W.StdV1(c.W.Keys[4]).Addr
			var buf strings.Builder
			enc := types.NewEncoder(&buf)
			types.FoundationAddressUpdate{NewPrimary: np, NewFailsafe: np}.EncodeTo(enc)
			enc.Flush()
			tt.ArbitraryData = [][]byte{append(append([]byte{}, types.SpecifierFoundation[:]...), []byte(buf.String())...)}
			c.SignV1(cs, tt, nil)
			// later transactions may depend on this one's outputs (its ID changed): drop them
			blk.Transactions = blk.Transactions[:i+1]
			if blk.V2 != nil {
				blk.V2.Transactions = nil
			}
			e.judge("v1-foundation", "/update-signed-by-non-foundation-key", true, "", cs, blk, kinds)
			break
		}
	}
}

// ---------------------------------------------------------------- v2

// lockBinds reports whether spending from l requires a signature under a
// recognised key (binds) and whether the lock lists an unknown-algorithm key
// (a legacy unlock-conditions policy lets such a key consume ANY signature, so
// the signatures of that input bind nothing).
func (e *env) lockBinds(l *chaingen.Lock) (binds, unknownAlg bool) {
	if l == nil {
		return false, false
	}
	if l.UC != nil {
		for _, k := range l.UC.PublicKeys {
			if k.Algorithm != types.SpecifierEd25519 {
				unknownAlg = true
			}
		}
	}
	for _, pk := range l.PolKeys {
		if _, ok := e.c.W.Priv(pk); ok {
			binds = true
		}
	}
	if unknownAlg {
		binds = false
	}
	return
}

func (e *env) v2InputsSigned(t *types.V2Transaction) (signed bool, unknownAlg bool) {
	for _, in := range t.SiacoinInputs {
		b, u := e.lockBinds(e.c.W.Locks[in.Parent.SiacoinOutput.Address])
		signed, unknownAlg = signed || b, unknownAlg || u
	}
	for _, in := range t.SiafundInputs {
		b, u := e.lockBinds(e.c.W.Locks[in.Parent.SiafundOutput.Address])
		signed, unknownAlg = signed || b, unknownAlg || u
	}
	return
}

var foreignKey = types.NewPrivateKeyFromSeed(make([]byte, 32)) // a key no lock of the generator lists

func (e *env) v2Fields(cs consensus.State, orig types.Block, kinds []string) {
	rng := e.c.Rng
	h := cs.Index.Height + 1
	eoh := e.c.Net.N.HardforkV2.EphemeralOutputHeight
	for i := range orig.V2Transactions() {
		t := &orig.V2.Transactions[i]
		signed, unknown := e.v2InputsSigned(t)
		paths := mutate.Leaves(t)
		picked := paths
		if len(paths) > e.per {
			picked = nil
			for _, k := range rng.Perm(len(paths))[:e.per] {
				picked = append(picked, paths[k])
			}
		}
		for _, p := range picked {
			class := mutate.Class(p)
			must, reason := signed, "transaction has no input that requires a signature: its plain content is not bound"
			switch {
			// bound by their own signatures regardless of inputs
			case strings.HasPrefix(class, ".FileContracts[]"),
				strings.HasPrefix(class, ".FileContractRevisions[].Revision"),
				strings.HasPrefix(class, ".FileContractResolutions[].Resolution<V2FileContractRenewal>"),
				strings.HasPrefix(class, ".Attestations[]"):
				must, reason = true, ""
			// bound by the accumulator / the proof check
			case strings.HasPrefix(class, ".FileContractRevisions[].Parent"),
				strings.HasPrefix(class, ".FileContractResolutions[].Parent"),
				strings.HasPrefix(class, ".FileContractResolutions[].Resolution<V2StorageProof>"):
				must, reason = true, ""
			case strings.HasPrefix(class, ".NewFoundationAddress"):
				must, reason = true, ""
			case strings.Contains(class, ".SatisfiedPolicy.Signatures"):
				must = signed
				if unknown {
					must, reason = false, "a signature under an unknown-algorithm key of a legacy unlock-conditions policy is not checked"
				}
			case strings.Contains(class, ".SatisfiedPolicy.Preimages"), strings.Contains(class, ".SatisfiedPolicy.Policy"):
				must, reason = true, ""
			case strings.HasPrefix(class, ".SiacoinInputs[].Parent"), strings.HasPrefix(class, ".SiafundInputs[].Parent"):
				must, reason = true, ""
				var k int
				eph := false
				if _, err := fmt.Sscanf(p, ".SiacoinInputs[%d]", &k); err == nil && k < len(t.SiacoinInputs) {
					eph = t.SiacoinInputs[k].Parent.StateElement.LeafIndex == types.UnassignedLeafIndex
				} else if _, err := fmt.Sscanf(p, ".SiafundInputs[%d]", &k); err == nil && k < len(t.SiafundInputs) {
					eph = t.SiafundInputs[k].Parent.StateElement.LeafIndex == types.UnassignedLeafIndex
				}
				if eph && (h < eoh || strings.Contains(class, ".StateElement.MerkleProof")) {
					must, reason = false, "contents of an ephemeral parent below the ephemeral-output fix height are not checked (documented legacy window)"
				}
				if eph && strings.Contains(class, ".ClaimStart") {
					must, reason = false, "ephemeral siafund parent (legacy window)"
				}
			}
			blk := chaingen.CloneBlock(orig)
			if !mutate.Apply(&blk.V2.Transactions[i], p, rng.IntN(3)) {
				continue
			}
			e.judge("v2", class, must, reason, cs, blk, kinds)
		}
	}
}

func (e *env) v2Witness(cs consensus.State, orig types.Block, kinds []string) {
	c := e.c
	// the contract as it currently stands inside the block (a revision is judged
	// against the latest revision accepted earlier in the same block)
	inBlock := map[types.FileContractID]types.V2FileContract{}
	for i := range orig.V2Transactions() {
		t := &orig.V2.Transactions[i]
		standing := map[types.FileContractID]types.V2FileContract{}
		for id, fc := range inBlock {
			standing[id] = fc
		}
		for _, r := range t.FileContractRevisions {
			inBlock[r.Parent.ID] = r.Revision
		}
		variant := func(name string, must bool, f func(tt *types.V2Transaction) bool) {
			blk := chaingen.CloneBlock(orig)
			if f(&blk.V2.Transactions[i]) {
				e.judge("v2-witness", "/"+name, must, "", cs, blk, kinds)
			}
		}
		for k := range t.SiacoinInputs {
			in := t.SiacoinInputs[k]
			l := c.W.Locks[in.Parent.SiacoinOutput.Address]
			if l == nil {
				continue
			}
			_, hasUnknown := e.lockBinds(l)
			if len(in.SatisfiedPolicy.Signatures) > 0 && !hasUnknown {
				variant("signature-dropped", true, func(tt *types.V2Transaction) bool {
					sp := &tt.SiacoinInputs[k].SatisfiedPolicy
					sp.Signatures = sp.Signatures[1:]
					return true
				})
				variant("signature-by-another-actors-key", true, func(tt *types.V2Transaction) bool {
					sp := &tt.SiacoinInputs[k].SatisfiedPolicy
					sp.Signatures[0] = foreignKey.SignHash(cs.InputSigHash(*tt))
					return true
				})
			}
			variant("surplus-signature", true, func(tt *types.V2Transaction) bool {
				sp := &tt.SiacoinInputs[k].SatisfiedPolicy
				sp.Signatures = append(sp.Signatures, c.W.Keys[0].SignHash(cs.InputSigHash(*tt)))
				return true
			})
			variant("surplus-preimage", true, func(tt *types.V2Transaction) bool {
				sp := &tt.SiacoinInputs[k].SatisfiedPolicy
				sp.Preimages = append(sp.Preimages, [32]byte{1})
				return true
			})
			if len(in.SatisfiedPolicy.Preimages) > 0 {
				variant("preimage-dropped", true, func(tt *types.V2Transaction) bool {
					sp := &tt.SiacoinInputs[k].SatisfiedPolicy
					sp.Preimages = sp.Preimages[1:]
					return true
				})
			}
			distinctKeys := true
			if l.UC != nil {
				seen := map[string]bool{}
				for _, k := range l.UC.PublicKeys {
					if seen[string(k.Key)] {
						distinctKeys = false // the same key listed twice can legitimately match in another order
					}
					seen[string(k.Key)] = true
				}
			}
			if len(in.SatisfiedPolicy.Signatures) > 1 && in.SatisfiedPolicy.Signatures[0] != in.SatisfiedPolicy.Signatures[1] && !hasUnknown && distinctKeys {
				variant("signatures-swapped/"+l.Kind, true, func(tt *types.V2Transaction) bool {
					sp := &tt.SiacoinInputs[k].SatisfiedPolicy
					sp.Signatures[0], sp.Signatures[1] = sp.Signatures[1], sp.Signatures[0]
					return true
				})
			}
			// legacy unlock conditions spent through the v2 policy: one holder of an m-of-n key set repeating their own
			// signature does not make m signatures
			if l.UC != nil && len(in.SatisfiedPolicy.Signatures) > 1 && in.SatisfiedPolicy.Signatures[0] != in.SatisfiedPolicy.Signatures[1] && !hasUnknown && distinctKeys {
				variant("one-key-signs-twice-instead-of-two-distinct-keys/"+l.Kind, true, func(tt *types.V2Transaction) bool {
					sp := &tt.SiacoinInputs[k].SatisfiedPolicy
					sp.Signatures[1] = sp.Signatures[0]
					e.b.Count("v2_multisig_spends_with_one_signature_repeated", 1)
					return true
				})
			}
			// another actor's policy with that actor's valid signature
			variant("policy-substituted-and-signed-by-other-actor", true, func(tt *types.V2Transaction) bool {
				for _, key := range c.W.Keys {
					p := types.PolicyPublicKey(key.PublicKey())
					if p.Address() != in.Parent.SiacoinOutput.Address {
						tt.SiacoinInputs[k].SatisfiedPolicy = types.SatisfiedPolicy{Policy: p}
						tt.SiacoinInputs[k].SatisfiedPolicy.Signatures = []types.Signature{key.SignHash(cs.InputSigHash(*tt))}
						return true
					}
				}
				return false
			})
			variant("policy-substituted-by-anyone-can-spend", true, func(tt *types.V2Transaction) bool {
				if in.Parent.SiacoinOutput.Address == types.AnyoneCanSpend().Address() {
					return false
				}
				tt.SiacoinInputs[k].SatisfiedPolicy = types.SatisfiedPolicy{Policy: types.AnyoneCanSpend()}
				return true
			})
			break // first input is enough per transaction
		}
		// the claimed parent re-addressed to another actor, with that actor's policy and valid signature: the
		// claimed address is all that ties the revealed policy to the output, so it must be bound to the real
		// output (by the accumulator proof, or by comparison with the output created earlier in the block)
		doneAcc, doneEph := false, false
		for k := range t.SiacoinInputs {
			in := t.SiacoinInputs[k]
			eph := in.Parent.StateElement.LeafIndex == types.UnassignedLeafIndex
			if (eph && doneEph) || (!eph && doneAcc) {
				continue
			}
			must := true
			name := "accumulator"
			if eph {
				name = "in-block"
				doneEph = true
				if cs.Index.Height+1 < c.Net.N.HardforkV2.EphemeralOutputHeight {
					// the claimed contents of an in-block parent are not cross-checked below this height; the
					// statement makes no exception: judged under a key of its own
					name = "in-block/below-the-ephemeral-output-height"
				}
				e.b.Count("in_block_parents_readdressed", 1)
			} else {
				doneAcc = true
			}
			fp := types.PolicyPublicKey(foreignKey.PublicKey())
			if in.Parent.SiacoinOutput.Address == fp.Address() {
				continue
			}
			variant("claimed-parent-address-and-policy-substituted-by-another-actor/"+name+"-siacoin-parent", must, func(tt *types.V2Transaction) bool {
				tt.SiacoinInputs[k].Parent.SiacoinOutput.Address = fp.Address()
				tt.SiacoinInputs[k].SatisfiedPolicy = types.SatisfiedPolicy{Policy: fp}
				tt.SiacoinInputs[k].SatisfiedPolicy.Signatures = []types.Signature{foreignKey.SignHash(cs.InputSigHash(*tt))}
				return true
			})
		}
		for k := range t.SiafundInputs {
			in := t.SiafundInputs[k]
			if in.Parent.StateElement.LeafIndex == types.UnassignedLeafIndex {
				continue // only spendable in the legacy window, where nothing is cross-checked
			}
			fp := types.PolicyPublicKey(foreignKey.PublicKey())
			variant("claimed-parent-address-and-policy-substituted-by-another-actor/accumulator-siafund-parent", true, func(tt *types.V2Transaction) bool {
				tt.SiafundInputs[k].Parent.SiafundOutput.Address = fp.Address()
				tt.SiafundInputs[k].SatisfiedPolicy = types.SatisfiedPolicy{Policy: fp}
				tt.SiafundInputs[k].SatisfiedPolicy.Signatures = []types.Signature{foreignKey.SignHash(cs.InputSigHash(*tt))}
				return true
			})
			break
		}
		// revisions: signed by the proposed instead of the current keys
		for k := range t.FileContractRevisions {
			r := t.FileContractRevisions[k]
			cur := r.Parent.V2FileContract
			if st, ok := standing[r.Parent.ID]; ok {
				cur = st
			}
			variant("revision-renter-signature-by-other-key", true, func(tt *types.V2Transaction) bool {
				rev := &tt.FileContractRevisions[k].Revision
				rev.RenterSignature = foreignKey.SignHash(cs.ContractSigHash(*rev))
				return true
			})
			variant("revision-hijack-rotates-both-keys-to-a-foreign-key-signed-by-that-key", true, func(tt *types.V2Transaction) bool {
				rev := &tt.FileContractRevisions[k].Revision
				rev.RenterPublicKey, rev.HostPublicKey = foreignKey.PublicKey(), foreignKey.PublicKey()
				sig := foreignKey.SignHash(cs.ContractSigHash(*rev))
				rev.RenterSignature, rev.HostSignature = sig, sig
				return true
			})
			variant("revision-signatures-swapped", cur.RenterPublicKey != cur.HostPublicKey, func(tt *types.V2Transaction) bool {
				rev := &tt.FileContractRevisions[k].Revision
				rev.RenterSignature, rev.HostSignature = rev.HostSignature, rev.RenterSignature
				return true
			})
			if st, ok := standing[r.Parent.ID]; ok && (st.RenterPublicKey != r.Parent.V2FileContract.RenterPublicKey || st.HostPublicKey != r.Parent.V2FileContract.HostPublicKey) {
				// an earlier revision of this block rotated a key: the rotated-out keys must no longer authorize
				pr, okR := c.W.Priv(r.Parent.V2FileContract.RenterPublicKey)
				ph, okH := c.W.Priv(r.Parent.V2FileContract.HostPublicKey)
				if okR && okH {
					variant("later-revision-in-block-signed-by-rotated-out-keys", true, func(tt *types.V2Transaction) bool {
						rev := &tt.FileContractRevisions[k].Revision
						hsh := cs.ContractSigHash(*rev)
						rev.RenterSignature, rev.HostSignature = pr.SignHash(hsh), ph.SignHash(hsh)
						return true
					})
					e.b.Count("in_block_key_rotation_followed_by_revision_seen", 1)
				}
			}
			if r.Revision.RenterPublicKey != cur.RenterPublicKey {
				if nk, ok := c.W.Priv(r.Revision.RenterPublicKey); ok {
					variant("rotating-revision-signed-by-proposed-renter-key", true, func(tt *types.V2Transaction) bool {
						rev := &tt.FileContractRevisions[k].Revision
						rev.RenterSignature = nk.SignHash(cs.ContractSigHash(*rev))
						return true
					})
					e.b.Count("key_rotating_revisions_seen", 1)
				}
			}
			break
		}
		for k := range t.FileContractResolutions {
			ren, ok := t.FileContractResolutions[k].Resolution.(*types.V2FileContractRenewal)
			if !ok {
				continue
			}
			parent := t.FileContractResolutions[k].Parent.V2FileContract
			variant("renewal-signature-by-other-key", true, func(tt *types.V2Transaction) bool {
				rr := tt.FileContractResolutions[k].Resolution.(*types.V2FileContractRenewal)
				rr.HostSignature = foreignKey.SignHash(cs.RenewalSigHash(*rr))
				return true
			})
			variant("renewal-new-contract-to-other-keys-fully-resigned", true, func(tt *types.V2Transaction) bool {
				rr := tt.FileContractResolutions[k].Resolution.(*types.V2FileContractRenewal)
				for _, key := range c.W.Keys {
					if key.PublicKey() != parent.RenterPublicKey {
						rr.NewContract.RenterPublicKey = key.PublicKey()
						c.SignV2(cs, tt, nil)
						return true
					}
				}
				return false
			})
			_ = ren
			break
		}
		for k := range t.Attestations {
			variant("attestation-signed-by-other-key", true, func(tt *types.V2Transaction) bool {
				a := &tt.Attestations[k]
				a.Signature = foreignKey.SignHash(cs.AttestationSigHash(*a))
				return true
			})
			break
		}
		// Foundation change without an input of the management address, everything else correctly signed
		if t.NewFoundationAddress == nil && len(t.SiacoinInputs) > 0 && len(t.FileContractResolutions) == 0 {
			mgmt := false
			for _, in := range t.SiacoinInputs {
				mgmt = mgmt || in.Parent.SiacoinOutput.Address == cs.FoundationManagementAddress
			}
			if !mgmt {
				variant("foundation-change-without-management-input-fully-resigned", true, func(tt *types.V2Transaction) bool {
					a := c.W.StdV1(c.W.Keys[5]).Addr
					tt.NewFoundationAddress = &a
					c.SignV2(cs, tt, nil)
					return true
				})
			}
		}
		// positive control
		if signed, _ := e.v2InputsSigned(t); signed && len(t.SiacoinOutputs) > 0 && len(t.FileContractRevisions) == 0 {
			blk := chaingen.CloneBlock(orig)
			tt := &blk.V2.Transactions[i]
			id := t.ID()
			dep := false
			for j := range orig.V2.Transactions {
				for _, in := range orig.V2.Transactions[j].SiacoinInputs {
					for k := range t.SiacoinOutputs {
						dep = dep || in.Parent.ID == t.SiacoinOutputID(id, k)
					}
				}
				for _, in := range orig.V2.Transactions[j].SiafundInputs {
					for k := range t.SiafundOutputs {
						dep = dep || in.Parent.ID == t.SiafundOutputID(id, k)
					}
				}
			}
			if !dep && len(t.FileContracts) == 0 {
				tt.SiacoinOutputs[0].Address[0] ^= 1
				c.SignV2(cs, tt, nil)
				err, _ := c.TryVariant(&blk)
				if !chaingen.IsSealFailure(err) {
					e.b.Eval(1)
					if err != nil {
						e.b.Violate("C03/control/v2-tamper-then-resign-rejected", "changing an output address and re-signing correctly was rejected: "+chaingen.NormErr(err), map[string]any{"kinds": kinds})
					} else {
						e.b.Count("positive_controls_resigned_accepted", 1)
					}
				}
			}
		}
	}
}

func run(b *harness.B) {
	nNets := b.Pick(3, 8)
	blocks := b.Pick(70, 300)
	for i := 0; i < nNets; i++ {
		fam := chaingen.Families[(b.Batch+i)%len(chaingen.Families)]
		rng := b.SubRng(fmt.Sprint("net", i))
		net := chaingen.GenNet(rng, fam, b.Batch*100+i)
		c := chaingen.NewChain(net, rng)
		e := &env{b: b, c: c, per: b.Pick(14, 40)}
		c.OnAccepted = func(cs consensus.State, orig types.Block, bs consensus.V1BlockSupplement, kinds []string) {
			if len(kinds) >= 3 {
				b.Sample(chaingen.DescribeBlock(cs, orig, kinds))
			}
			b.Count("accepted_blocks_tampered", 1)
			b.SetAdd("eras", chaingen.Era(net.N, cs.Index.Height+1))
			e.v1Fields(cs, orig, kinds)
			e.v1Witness(cs, orig, kinds)
			e.v2Fields(cs, orig, kinds)
			e.v2Witness(cs, orig, kinds)
		}
		for done := 0; done < blocks; {
			done += c.Grow(1+rng.IntN(10), chaingen.Plan{MaxTxns: 5})
			e.directed()
			e.directedV1()
			e.directedV1b()
			if c.Height() > 2 && rng.IntN(6) == 0 {
				c.RevertTip()
			}
		}
		for k, v := range c.Stats {
			if strings.HasPrefix(k, "gen_rejected:") {
				cls := strings.TrimPrefix(k, "gen_rejected:")
				if reAuth.MatchString(cls) {
					b.Violate("C03/valid-signed-block-rejected/"+cls, fmt.Sprintf("%d generated blocks whose transactions are correctly authorized were rejected: %s", v, cls), map[string]any{"network": net.Name, "family": fam})
				} else {
					b.Count("generator_library_disagreement:"+cls, v)
				}
			}
		}
		if i == 0 {
			b.Sample(map[string]any{"network": net.Name, "family": fam, "height": c.Height()})
		}
	}
}

func main() {
	harness.Main(harness.Spec{
		ID:     "C03",
		Rule:   "chaingen histories; every accepted block: (1) for each signed transaction a sample of all exported leaf fields (reflection paths such as .SiafundInputs[].ClaimAddress) is mutated without re-signing, envelope re-sealed; (2) witness-level tampers (see sets); rule table decides must-reject vs documented may-accept; (3) positive control: output address changed and correctly re-signed must be accepted. distinct = (tx version, field class, demanded?).",
		Assume: []string{"a transaction's plain content is 'signed content' iff at least one of its inputs/revisions requires a signature under a recognised key; contract, renewal and attestation fields are bound by their own signatures; parents and proofs by the accumulator", "documented exceptions are recorded as may-accept with their reason: unknown-algorithm signatures, timelock of partial v1 signatures, never-transmitted revision payout, index lists of whole-transaction signatures, ephemeral parents in the legacy window"},
		Batches: func(t string) int {
			if t == "quick" {
				return 16
			}
			return 48
		},
		Run:         run,
		MinEvals:    3000,
		MinDistinct: 150,
		Require:     []string{"directed_authorization_scenarios", "accepted_blocks_tampered", "tampers_rejected", "positive_controls_resigned_accepted", "key_rotating_revisions_seen", "v2_multisig_spends_with_one_signature_repeated", "partial_signature_field_kind_relabellings_tried", "partial_signature_output_index_cases"},
	})
}
