package main

import (
	"fmt"
	"sort"
	"strings"
	"time"

	"go.sia.tech/core/consensus"
	"go.sia.tech/core/types"
)

// End to end: real outputs locked by policies are spent through
// consensus.ValidateV2Transaction at a series of chain states. The oracle is
// the same functional evaluator, fed with the conventions the property names:
// height = height of the parent block (the tip the transaction is validated
// against), time = median of the (up to) 11 most recent block timestamps, both
// computed here from the list of blocks, not read from consensus.State.

func e2eNetwork() *consensus.Network {
	n := &consensus.Network{
		Name:            "verif-c14",
		InitialCoinbase: types.Siacoins(300000),
		MinimumCoinbase: types.Siacoins(300000),
		InitialTarget:   types.BlockID{0xFF},
		BlockInterval:   10 * time.Minute,
		MaturityDelay:   5,
	}
	n.HardforkDevAddr.Height = 1
	n.HardforkTax.Height = 2
	n.HardforkStorageProof.Height = 3
	n.HardforkOak.Height = 4
	n.HardforkOak.FixHeight = 5
	n.HardforkOak.GenesisTimestamp = time.Unix(lockTs-100000, 0)
	n.HardforkASIC.Height = 6
	n.HardforkASIC.OakTime = 10000 * time.Second
	n.HardforkASIC.OakTarget = n.InitialTarget
	n.HardforkASIC.NonceFactor = 1009
	n.HardforkFoundation.Height = 7
	n.HardforkFoundation.PrimaryAddress = types.VoidAddress
	n.HardforkFoundation.FailsafeAddress = types.VoidAddress
	n.HardforkV2.AllowHeight = 0
	n.HardforkV2.RequireHeight = 1 << 40
	n.HardforkV2.FinalCutHeight = 1 << 41
	n.HardforkV2.EphemeralOutputHeight = 0
	return n
}

// modelMedian: median of the last min(11, len) timestamps; the midpoint of the
// two middle ones for an even count.
func modelMedian(ts []time.Time) time.Time {
	w := ts
	if len(w) > 11 {
		w = w[len(w)-11:]
	}
	s := append([]time.Time(nil), w...)
	sort.Slice(s, func(i, j int) bool { return strictlyAfter(s[j], s[i]) })
	if len(s)%2 == 1 {
		return s[len(s)/2]
	}
	l, r := s[len(s)/2-1], s[len(s)/2]
	return l.Add(r.Sub(l) / 2)
}

func (c *ctx) e2e(nRandom int, tag string) {
	b := c.b
	r := b.SubRng("e2e/" + tag)
	const nBlocks = 18
	// timestamps: irregular, sometimes going backwards, so that the median is
	// neither the tip's timestamp nor monotone with it
	ts := make([]time.Time, nBlocks)
	cur := lockTs - 4000
	for i := range ts {
		switch r.IntN(5) {
		case 0:
			cur -= int64(r.IntN(900))
		case 1:
			cur += int64(1500 + r.IntN(3000))
		default:
			cur += int64(1 + r.IntN(900))
		}
		ts[i] = time.Unix(cur, 0)
	}
	med := make([]time.Time, nBlocks) // med[h]: median seen by a child of block h
	for h := range med {
		med[h] = modelMedian(ts[:h+1])
	}

	// policies
	type entry struct {
		p     types.SpendPolicy
		shape string
	}
	var pols []entry
	add := func(shape string, p types.SpendPolicy) { pols = append(pols, entry{p, shape}) }
	pk0 := types.PolicyPublicKey(c.m.pub[0])
	for _, k := range []uint64{9, 10, 11, 13} {
		add(fmt.Sprintf("above@%d", k), types.PolicyAbove(k))
		add(fmt.Sprintf("T2(pk,above@%d)", k), types.PolicyThreshold(2, []types.SpendPolicy{pk0, types.PolicyAbove(k)}))
		uc := types.UnlockConditions{Timelock: k, PublicKeys: []types.UnlockKey{c.m.pub[1].UnlockKey(), c.m.pub[2].UnlockKey()}, SignaturesRequired: 1}
		add(fmt.Sprintf("uc(tl@%d,1of2)", k), types.SpendPolicy{Type: types.PolicyTypeUnlockConditions(uc)})
	}
	for _, h := range []int{8, 10, 11, 12, 14} {
		for _, d := range []int64{-1, 0, 1} {
			t := time.Unix(med[h].Unix()+d, 0)
			add(fmt.Sprintf("after@med%d%+d", h, d), types.PolicyAfter(t))
			add(fmt.Sprintf("T2(after@med%d%+d,h)", h, d), types.PolicyThreshold(2, []types.SpendPolicy{types.PolicyAfter(t), types.PolicyHash(c.m.hash[1])}))
		}
	}
	add("pk", pk0)
	add("anyone", types.AnyoneCanSpend())
	add("uc-standard", types.SpendPolicy{Type: types.PolicyTypeUnlockConditions(types.StandardUnlockConditions(c.m.pub[3]))})
	add("T1(pk,opaque(pk))", types.PolicyThreshold(1, []types.SpendPolicy{pk0, {Type: types.PolicyTypeOpaque(modelAddress(types.PolicyPublicKey(c.m.pub[1])))}}))
	g := &rgen{r: r, maxDepth: 3}
	for i := 0; i < nRandom; i++ {
		root := g.node(3, false)
		if root.kind != 'T' {
			root = &node{kind: 'T', n: 1, kids: []*node{root}}
		}
		// move the locks into the chain's range
		var fix func(n *node)
		fix = func(n *node) {
			switch n.kind {
			case 'a':
				n.set, n.height = true, uint64(8+r.IntN(8))
			case 't':
				n.set, n.unix = true, med[8+r.IntN(8)].Unix()+int64(r.IntN(3)-1)
			}
			for _, k := range n.kids {
				fix(k)
			}
		}
		fix(root)
		bd := &builder{m: c.m}
		p := bd.build(root)
		if visitedSubPolicies(p) > 200 {
			continue
		}
		add("rnd:"+trunc(root.Shape(), 40), p)
	}

	// genesis + chain
	n := e2eNetwork()
	outs := make([]types.SiacoinOutput, len(pols))
	for i, e := range pols {
		outs[i] = types.SiacoinOutput{Address: modelAddress(e.p), Value: types.Siacoins(uint32(1 + i%7))}
	}
	// unlock conditions whose (only) ed25519 key is not 32 bytes long: the real key followed by further bytes. What such
	// a key means is not stated anywhere, but the unlock-conditions policy is the v2 way of spending the very outputs
	// v1 transactions spend with these conditions: the two must agree on a spend signed by the real key.
	var oddUCs []types.UnlockConditions
	for _, tail := range [][]byte{{0x07}, c.m.pub[1][:], make([]byte, 8)} {
		k := append(append([]byte(nil), c.m.pub[0][:]...), tail...)
		oddUCs = append(oddUCs, types.UnlockConditions{PublicKeys: []types.UnlockKey{{Algorithm: types.SpecifierEd25519, Key: k}}, SignaturesRequired: 1})
	}
	for _, uc := range oddUCs {
		outs = append(outs, types.SiacoinOutput{Address: uc.UnlockHash(), Value: types.Siacoins(3)})
	}
	var states []consensus.State
	var elems [][]types.SiacoinElement // per state
	failed := b.Guard("C14/e2e/chain-construction", func() any { return "building the e2e chain" }, func() {
		genesis := types.Block{Timestamp: ts[0], Transactions: []types.Transaction{{SiacoinOutputs: outs}}}
		s, au := consensus.ApplyBlock(n.GenesisState(), genesis, consensus.V1BlockSupplement{Transactions: make([]consensus.V1TransactionSupplement, 1)}, time.Time{})
		var live []types.SiacoinElement
		for _, d := range au.SiacoinElementDiffs() {
			if d.Created && !d.Spent {
				live = append(live, d.SiacoinElement.Copy())
			}
		}
		snap := func() {
			cp := make([]types.SiacoinElement, len(live))
			for i := range live {
				cp[i] = live[i].Copy()
			}
			states = append(states, s)
			elems = append(elems, cp)
		}
		snap()
		for h := 1; h < nBlocks; h++ {
			blk := types.Block{ParentID: s.Index.ID, Timestamp: ts[h], V2: &types.V2BlockData{Height: uint64(h)}}
			s, au = consensus.ApplyBlock(s, blk, consensus.V1BlockSupplement{}, ts[h-1])
			for i := range live {
				au.UpdateElementProof(&live[i].StateElement)
			}
			snap()
		}
	})
	if failed || len(states) != nBlocks {
		b.Inconclusive("e2e: chain construction failed")
		return
	}
	if len(elems[0]) < len(pols) {
		b.Inconclusive("e2e: genesis elements missing")
		return
	}
	// element i <-> policy i (creation order); checked by address
	for i := range pols {
		if elems[0][i].SiacoinOutput.Address != outs[i].Address {
			b.Inconclusive("e2e: genesis element order unexpected")
			return
		}
	}

	for h := 6; h < nBlocks; h++ {
		s := states[h]
		for i, pe := range pols {
			if len(pols) > 60 && (i+h)%3 != 0 && strings.HasPrefix(pe.shape, "rnd:") {
				continue // random ones: a third of the states each
			}
			el := elems[h][i]
			txn := types.V2Transaction{
				SiacoinInputs:  []types.V2SiacoinInput{{Parent: el.Copy(), SatisfiedPolicy: types.SatisfiedPolicy{Policy: pe.p}}},
				SiacoinOutputs: []types.SiacoinOutput{{Address: types.VoidAddress, Value: el.SiacoinOutput.Value}},
			}
			sigHash := s.InputSigHash(txn)
			e := env{uint64(h), med[h], sigHash}
			var sigs []types.Signature
			var pre [][32]byte
			class := "canonical"
			if uc, ok := pe.p.Type.(types.PolicyTypeUnlockConditions); ok {
				for j := uint64(0); j < uc.SignaturesRequired; j++ {
					var pk types.PublicKey
					copy(pk[:], uc.PublicKeys[j].Key)
					sigs = append(sigs, c.m.sign(c.m.keyIdx[pk], sigHash))
				}
			} else {
				pks, hashes := revealedLeaves(pe.p)
				a := assignment{sigCls: make([]byte, len(pks)), preCls: make([]byte, len(hashes))}
				for k := range a.sigCls {
					a.sigCls[k] = 'V'
				}
				for k := range a.preCls {
					a.preCls[k] = 'V'
				}
				if r.IntN(5) == 0 && len(pks)+len(hashes) > 0 {
					k := r.IntN(len(pks) + len(hashes))
					cl := []byte{'F', 'O', 'M'}[r.IntN(3)]
					if k < len(pks) {
						a.sigCls[k] = cl
					} else {
						a.preCls[k-len(pks)] = cl
					}
					class = a.class()
				} else if r.IntN(12) == 0 {
					a.extra = "+sigE"
					class = a.class()
				}
				sigs, pre = c.m.realise(pks, hashes, a, sigHash, r.IntN(256))
			}
			txn.SiacoinInputs[0].SatisfiedPolicy.Signatures = sigs
			txn.SiacoinInputs[0].SatisfiedPolicy.Preimages = pre

			want, reason := evalTop(pe.p, e, sigs, pre)
			var err error
			if b.Guard("C14/e2e/ValidateV2Transaction", func() any { return mkWit("e2e", pe.shape, class, pe.p, e, sigs, pre, "", "panic") }, func() {
				err = consensus.ValidateV2Transaction(consensus.NewMidState(s), txn)
			}) {
				continue
			}
			b.Eval(1)
			b.Distinct("e2e", pe.shape, class, h)
			policyErr := err != nil && strings.Contains(err.Error(), "failed to satisfy spend policy")
			switch {
			case err == nil && want:
				b.Count("e2e_accept", 1)
			case policyErr && !want:
				b.Count("e2e_reject", 1)
				if reason == "height-lock" || reason == "uc/timelock" {
					b.Count("e2e_reject_by_height_lock", 1)
				}
				if reason == "time-lock" {
					b.Count("e2e_reject_by_time_lock", 1)
				}
			case err == nil && !want:
				b.Violate("C14/e2e/consensus-accepts/"+reason,
					fmt.Sprintf("ValidateV2Transaction accepted a spend at tip height %d (median %d) although the policy's meaning does not hold: %s [%s]", h, med[h].Unix(), reason, pe.shape),
					mkWit("e2e", pe.shape, class, pe.p, e, sigs, pre, "reject:"+reason, "accepted"))
			case policyErr && want:
				b.Violate("C14/e2e/consensus-rejects",
					fmt.Sprintf("ValidateV2Transaction refused a spend at tip height %d (median %d) although the policy's meaning holds: %v [%s]", h, med[h].Unix(), err, pe.shape),
					mkWit("e2e", pe.shape, class, pe.p, e, sigs, pre, "accept", trunc(err.Error(), 300)))
			default:
				b.Inconclusive("e2e: transaction refused for a reason unrelated to the policy: " + trunc(err.Error(), 80))
			}
		}
	}
	for k, uc := range oddUCs {
		h := nBlocks - 1
		s := states[h]
		if len(elems[h]) < len(pols)+len(oddUCs) {
			break
		}
		el := elems[h][len(pols)+k]
		if el.SiacoinOutput.Address != uc.UnlockHash() {
			b.Inconclusive("e2e: odd-key element order unexpected")
			break
		}
		v1 := types.Transaction{SiacoinInputs: []types.SiacoinInput{{ParentID: el.ID, UnlockConditions: uc}}, SiacoinOutputs: []types.SiacoinOutput{{Address: types.VoidAddress, Value: el.SiacoinOutput.Value}},
			Signatures: []types.TransactionSignature{{ParentID: types.Hash256(el.ID), CoveredFields: types.CoveredFields{WholeTransaction: true}}}}
		sg := c.m.priv[0].SignHash(s.WholeSigHash(v1, v1.Signatures[0].ParentID, 0, 0, nil))
		v1.Signatures[0].Signature = sg[:]
		v2 := types.V2Transaction{SiacoinInputs: []types.V2SiacoinInput{{Parent: el.Copy(), SatisfiedPolicy: types.SatisfiedPolicy{Policy: types.SpendPolicy{Type: types.PolicyTypeUnlockConditions(uc)}}}},
			SiacoinOutputs: []types.SiacoinOutput{{Address: types.VoidAddress, Value: el.SiacoinOutput.Value}}}
		v2.SiacoinInputs[0].SatisfiedPolicy.Signatures = []types.Signature{c.m.priv[0].SignHash(s.InputSigHash(v2))}
		var e1, e2 error
		if b.Guard("C14/e2e/odd-length-key", func() any { return fmt.Sprintf("key of %d bytes", len(uc.PublicKeys[0].Key)) }, func() {
			e1 = consensus.ValidateTransaction(consensus.NewMidState(s), v1, consensus.V1TransactionSupplement{SiacoinInputs: []types.SiacoinElement{el.Copy()}})
			e2 = consensus.ValidateV2Transaction(consensus.NewMidState(s), v2)
		}) {
			continue
		}
		b.Eval(1)
		b.Count("e2e_unlock_conditions_spent_both_ways", 1)
		b.Distinct("e2e", "uc-odd-key", len(uc.PublicKeys[0].Key), e1 == nil, e2 == nil)
		if (e1 == nil) != (e2 == nil) {
			b.Violate(fmt.Sprintf("C14/e2e/unlock-conditions-judged-differently-by-v1-and-v2/ed25519-key-of-%d-bytes", len(uc.PublicKeys[0].Key)),
				fmt.Sprintf("an output held by unlock conditions listing a %d-byte ed25519 key (the real key plus %d bytes), spent with a signature of the real key: the v1 transaction gives %v, the v2 transaction through the unlock-conditions policy gives %v", len(uc.PublicKeys[0].Key), len(uc.PublicKeys[0].Key)-32, e1, e2), nil)
		}
	}
	b.Count("e2e_chains", 1)
}
