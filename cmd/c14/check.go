package main

import (
	"bytes"
	"crypto/sha256"
	"encoding/hex"
	"fmt"
	"math/rand/v2"
	"sort"
	"strings"
	"time"

	"go.sia.tech/core/types"
	"verif/internal/harness"
)

type ctx struct {
	b  *harness.B
	m  *material
	r  *rand.Rand
	h0 types.Hash256
}

func newCtx(b *harness.B) *ctx {
	c := &ctx{b: b, m: newMaterial(b.Seed), r: b.Rng}
	c.h0 = types.Hash256(sha256.Sum256([]byte(fmt.Sprint("verif/C14/sighash/", b.Seed))))
	return c
}

// ---------------------------------------------------------------------------
// witnesses (JSON-able)

type caseWit struct {
	Family     string   `json:"family"`
	Shape      string   `json:"shape,omitempty"`
	Class      string   `json:"class,omitempty"`
	Policy     string   `json:"policy"`
	PolicyHex  string   `json:"policy_hex,omitempty"`
	Height     uint64   `json:"height"`
	MedianUnix int64    `json:"median_unix"`
	MedianNano int      `json:"median_nano"`
	SigHash    string   `json:"sighash"`
	Sigs       []string `json:"signatures"`
	Preimages  []string `json:"preimages"`
	Oracle     string   `json:"oracle"`
	Real       string   `json:"real"`
}

func trunc(s string, n int) string {
	if len(s) > n {
		return s[:n] + fmt.Sprintf("...(+%d bytes)", len(s)-n)
	}
	return s
}

func policyString(p types.SpendPolicy) string {
	if visitedSubPolicies(p) > 400 || policyDepth(p) > 200 {
		return fmt.Sprintf("(large policy: %d sub-policies, depth %d)", visitedSubPolicies(p), policyDepth(p))
	}
	return trunc(p.String(), 30000)
}

func mkWit(fam, shape, class string, p types.SpendPolicy, e env, sigs []types.Signature, pre [][32]byte, oracle, real string) caseWit {
	w := caseWit{Family: fam, Shape: trunc(shape, 400), Class: class, Policy: policyString(p), Height: e.height,
		MedianUnix: e.median.Unix(), MedianNano: e.median.Nanosecond(), SigHash: hex.EncodeToString(e.sigHash[:]), Oracle: oracle, Real: real}
	if visitedSubPolicies(p) <= 1100 && policyDepth(p) <= 2000 {
		w.PolicyHex = trunc(hex.EncodeToString(modelEncode(p)), 120000)
	}
	for _, s := range sigs {
		w.Sigs = append(w.Sigs, hex.EncodeToString(s[:]))
	}
	for _, x := range pre {
		w.Preimages = append(w.Preimages, hex.EncodeToString(x[:]))
	}
	return w
}

// errClass normalises a Verify error into a stable token.
func errClass(err error) string {
	if err == nil {
		return "accepted"
	}
	s := err.Error()
	for _, p := range []struct{ pre, tok string }{
		{"height (", "height-not-above"}, {"median timestamp", "time-not-after"}, {"invalid signature", "invalid-signature"},
		{"invalid preimage", "invalid-preimage"}, {"policy is too complex", "too-complex"}, {"threshold exceeded", "threshold-exceeded"},
		{"threshold not reached: satisfied", "threshold-not-reached"}, {"threshold not reached: remaining", "uc-threshold-not-reached"},
		{"opaque policy", "opaque"}, {"unlock conditions cannot be sub-policies", "uc-subpolicy"}, {"policy uses an entropy", "uc-entropy"},
		{"superfluous signature", "superfluous-signature"}, {"superfluous preimage", "superfluous-preimage"},
	} {
		if strings.HasPrefix(s, p.pre) {
			return p.tok
		}
	}
	return "other:" + trunc(s, 40)
}

// realVerify calls the code under test under the crash monitor.
func (c *ctx) realVerify(fam string, p types.SpendPolicy, e env, sigs []types.Signature, pre [][32]byte) (ok bool, cls string, panicked bool) {
	var err error
	panicked = c.b.Guard("C14/verify", func() any { return mkWit(fam, "", "", p, e, sigs, pre, "", "panic") }, func() {
		err = p.Verify(e.height, e.median, e.sigHash, sigs, pre)
	})
	return err == nil && !panicked, errClass(err), panicked
}

// checkCase compares Verify with the oracle on one input. It returns the real
// verdict and whether the case was judged.
func (c *ctx) checkCase(fam, shape, class, lock string, p types.SpendPolicy, e env, sigs []types.Signature, pre [][32]byte) (realOK, judged bool) {
	b := c.b
	b.Eval(1)
	want, reason := evalTop(p, e, sigs, pre)
	want2 := flatTop(p, e, sigs, pre)
	realOK, cls, panicked := c.realVerify(fam, p, e, sigs, pre)
	if panicked {
		return false, false
	}
	b.SetAdd("verify_outcomes", cls)
	entropyReached := false // the in-order key walk meets an entropy key while signatures are still outstanding
	if want != want2 {
		uc, isUC := p.Type.(types.PolicyTypeUnlockConditions)
		if isUC && hasEntropy(uc.PublicKeys) && !want && want2 {
			// the two formulations differ only in whether an entropy key that
			// is listed before the keys actually used is fatal. By the statement
			// the conditions "need the required count of distinct listed keys":
			// that count has signed, so the meaning holds; judge by it.
			b.Count("uc_unused_entropy_key_before_used_keys", 1)
			want, reason = true, ""
			entropyReached = true
		} else {
			b.Inconclusive("oracle self-disagreement (functional evaluator vs flatten/zip formulation)")
			b.Sample(map[string]any{"kind": "ORACLE SELF-DISAGREEMENT", "case": mkWit(fam, shape, class, p, e, sigs, pre, fmt.Sprint(want, "/", want2), cls)})
			return realOK, false
		}
	}
	b.Distinct(fam, shape, class, lock)
	switch {
	case realOK && want:
		b.Count("agree_accept", 1)
	case !realOK && !want:
		b.Count("agree_reject", 1)
		b.SetAdd("reject_reasons_oracle", reason)
	case realOK && !want:
		if i := strings.Index(fam, "/"); i >= 0 {
			reason += fam[i:] // directed families name the corner they probe
		}
		b.Violate("C14/verify-accepts/"+reason,
			fmt.Sprintf("Verify accepted but the policy's meaning does not hold (%s) [%s %s %s]", reason, fam, trunc(shape, 120), class),
			mkWit(fam, shape, class, p, e, sigs, pre, "reject:"+reason, cls))
	default:
		if cls == "uc-entropy" && !entropyReached {
			// not the recorded in-order-walk case: the entropy key is listed where the walk never gets to
			cls += "/key-never-reached-by-the-walk"
		}
		b.Violate("C14/verify-rejects/"+cls,
			fmt.Sprintf("Verify rejected (%s) although the policy's meaning holds and no witness is left over [%s %s %s]", cls, fam, trunc(shape, 120), class),
			mkWit(fam, shape, class, p, e, sigs, pre, "accept", cls))
	}
	return realOK, true
}

// ---------------------------------------------------------------------------
// structure helpers on built policies

func replaceAt(p types.SpendPolicy, path []int, f func(types.SpendPolicy) types.SpendPolicy) types.SpendPolicy {
	if len(path) == 0 {
		return f(p)
	}
	t := p.Type.(types.PolicyTypeThreshold)
	of := append([]types.SpendPolicy(nil), t.Of...)
	of[path[0]] = replaceAt(of[path[0]], path[1:], f)
	return types.PolicyThreshold(t.N, of)
}

// allPaths lists every non-root node.
func allPaths(p types.SpendPolicy, limit int) (out [][]int) {
	var walk func(p types.SpendPolicy, path []int)
	walk = func(p types.SpendPolicy, path []int) {
		t, ok := p.Type.(types.PolicyTypeThreshold)
		if !ok {
			return
		}
		for i, c := range t.Of {
			if len(out) >= limit {
				return
			}
			cp := append(append([]int(nil), path...), i)
			out = append(out, cp)
			walk(c, cp)
		}
	}
	walk(p, nil)
	return
}

// rnode is a revealed (non-opaque, reachable through revealed thresholds)
// non-root node with the span of witnesses its subtree consumes.
type rnode struct {
	path                       []int
	sigOff, nSig, preOff, nPre int
}

func revealedNodes(p types.SpendPolicy, limit int) (out []rnode) {
	so, po := 0, 0
	var walk func(p types.SpendPolicy, path []int)
	walk = func(p types.SpendPolicy, path []int) {
		switch t := p.Type.(type) {
		case types.PolicyTypePublicKey:
			so++
		case types.PolicyTypeHash:
			po++
		case types.PolicyTypeThreshold:
			for i, ch := range t.Of {
				if _, op := ch.Type.(types.PolicyTypeOpaque); op {
					continue
				}
				cp := append(append([]int(nil), path...), i)
				s0, p0 := so, po
				walk(ch, cp)
				if len(out) < limit {
					out = append(out, rnode{cp, s0, so - s0, p0, po - p0})
				}
			}
		}
	}
	walk(p, nil)
	return
}

func lockDeps(p types.SpendPolicy) (above, after bool) {
	switch t := p.Type.(type) {
	case types.PolicyTypeAbove:
		return true, false
	case types.PolicyTypeAfter:
		return false, true
	case types.PolicyTypeUnlockConditions:
		return true, false
	case types.PolicyTypeThreshold:
		for _, ch := range t.Of {
			a, f := lockDeps(ch)
			above, after = above || a, after || f
		}
	}
	return
}

// ---------------------------------------------------------------------------
// address laws

func (c *ctx) realAddress(what string, p types.SpendPolicy) (a types.Address, ok bool) {
	panicked := c.b.Guard("C14/address", func() any { return map[string]string{"what": what, "policy": policyString(p)} }, func() {
		a = p.Address()
	})
	return a, !panicked
}

func (c *ctx) realOpaque(p types.SpendPolicy) (o types.SpendPolicy, ok bool) {
	panicked := c.b.Guard("C14/opaque", func() any { return map[string]string{"policy": policyString(p)} }, func() {
		o = types.PolicyOpaque(p)
	})
	return o, !panicked
}

// addressLaws: Address == model; Address invariant under opaquing any subset
// of non-root nodes; PolicyOpaque is idempotent. nRandom bounds the number of random subsets beyond the
// systematic ones.
func (c *ctx) addressLaws(fam, shape string, p types.SpendPolicy, allSubsetsUpTo, nRandom int) {
	b := c.b
	addr, ok := c.realAddress("base", p)
	if !ok {
		return
	}
	b.Eval(1)
	if want := modelAddress(p); addr != want {
		b.Violate("C14/address/differs-from-definition/"+kindOf(p),
			fmt.Sprintf("Address()=%v, definition (blake2b(\"sia/address|\"||v1||policy with children opaque) / unlock-conditions Merkle root) gives %v [%s]", addr, want, trunc(shape, 120)),
			map[string]string{"policy": policyString(p), "policy_hex": trunc(hex.EncodeToString(modelEncode(p)), 100000), "got": addr.String(), "want": want.String()})
	} else {
		b.Count("address_matches_definition", 1)
	}
	// whole policy
	if op, ok := c.realOpaque(p); ok {
		oa, ok2 := c.realAddress("opaque(p)", op)
		op2, ok3 := c.realOpaque(op)
		if ok2 && oa != addr {
			// The statement speaks of SUB-policies (the parent's address is kept). A whole
			// policy replaced by its opaque form is a different policy with a different
			// address (although PolicyOpaque's comment says "same address as p"): observed only.
			b.Count("opaque_form_of_a_whole_policy_has_a_different_Address(observed; doc comment of PolicyOpaque says same)", 1)
		}
		if ok3 && op2.Type != op.Type {
			b.Violate("C14/address/opaque-not-idempotent", "PolicyOpaque(PolicyOpaque(p)) != PolicyOpaque(p)", map[string]string{"policy": policyString(p)})
		}
	}
	paths := allPaths(p, 4096)
	if len(paths) == 0 {
		return
	}
	apply := func(sel [][]int) (types.SpendPolicy, bool) {
		// deepest first so that every path is still valid when applied
		sort.SliceStable(sel, func(i, j int) bool { return len(sel[i]) > len(sel[j]) })
		q := p
		okAll := true
		for _, pa := range sel {
			q = replaceAt(q, pa, func(x types.SpendPolicy) types.SpendPolicy {
				o, ok := c.realOpaque(x)
				okAll = okAll && ok
				return o
			})
		}
		return q, okAll
	}
	check := func(sel [][]int, how string) {
		q, ok := apply(sel)
		if !ok {
			return
		}
		qa, ok := c.realAddress("subset", q)
		if !ok {
			return
		}
		b.Eval(1)
		b.Count("opaque_subsets_checked", 1)
		if qa != addr {
			b.Violate("C14/address/changes-when-subpolicies-made-opaque",
				fmt.Sprintf("Address changed from %v to %v after replacing %d sub-policies by PolicyOpaque (%s) [%s]", addr, qa, len(sel), how, trunc(shape, 120)),
				map[string]any{"policy": policyString(p), "opaqued_paths": sel, "after": policyString(q)})
		}
	}
	if len(paths) <= allSubsetsUpTo {
		for mask := 1; mask < 1<<len(paths); mask++ {
			var sel [][]int
			for i := range paths {
				if mask>>i&1 == 1 {
					sel = append(sel, paths[i])
				}
			}
			check(sel, "all subsets")
		}
		b.Count("opaque_all_subsets_trees", 1)
		return
	}
	// all subsets of the root's children when few, every single node (bounded), random subsets
	var rootKids [][]int
	for _, pa := range paths {
		if len(pa) == 1 {
			rootKids = append(rootKids, pa)
		}
	}
	if len(rootKids) <= 4 {
		for mask := 1; mask < 1<<len(rootKids); mask++ {
			var sel [][]int
			for i := range rootKids {
				if mask>>i&1 == 1 {
					sel = append(sel, rootKids[i])
				}
			}
			check(sel, "root children subset")
		}
	}
	singles := paths
	maxSingles := 24
	if len(paths) > 64 {
		maxSingles = 8
	}
	if len(singles) > maxSingles {
		singles = nil
		for i := 0; i < maxSingles; i++ {
			singles = append(singles, paths[c.r.IntN(len(paths))])
		}
	}
	for _, pa := range singles {
		check([][]int{pa}, "single")
	}
	for i := 0; i < nRandom; i++ {
		var sel [][]int
		pr := 1 + c.r.IntN(3)
		for _, pa := range paths {
			if c.r.IntN(4) < pr {
				sel = append(sel, pa)
			}
		}
		if len(sel) > 0 {
			check(sel, "random subset")
		}
	}
}

func kindOf(p types.SpendPolicy) string {
	switch p.Type.(type) {
	case types.PolicyTypeAbove:
		return "above"
	case types.PolicyTypeAfter:
		return "after"
	case types.PolicyTypePublicKey:
		return "pk"
	case types.PolicyTypeHash:
		return "hash"
	case types.PolicyTypeThreshold:
		return "thresh"
	case types.PolicyTypeOpaque:
		return "opaque"
	case types.PolicyTypeUnlockConditions:
		return "uc"
	}
	return "?"
}

// ---------------------------------------------------------------------------
// laws on an accepted case

// acceptedLaws runs the direct consequences on a case that Verify accepted:
// an opaqued branch is unusable (with and without its witnesses), every single
// corrupted signature / preimage is refused, every leftover witness is refused.
func (c *ctx) acceptedLaws(fam, shape string, p types.SpendPolicy, e env, sigs []types.Signature, pre [][32]byte, maxNodes int) {
	b := c.b
	mustReject := func(key, what string, q types.SpendPolicy, s []types.Signature, x [][32]byte) {
		b.Eval(1)
		ok, cls, panicked := c.realVerify(fam+"/law", q, e, s, x)
		if panicked {
			return
		}
		b.Count(key, 1)
		if ok {
			b.Violate("C14/law/"+key+"/accepted", what+" ["+trunc(shape, 120)+"]", mkWit(fam+"/law/"+key, shape, what, q, e, s, x, "reject", cls))
		}
	}
	// opaqued whole policy
	if op, ok := c.realOpaque(p); ok {
		mustReject("opaqued_branch_unusable", "PolicyOpaque(p) was satisfied by the witnesses of p", op, sigs, pre)
	}
	_, isUC := p.Type.(types.PolicyTypeUnlockConditions)
	if !isUC {
		nodes := revealedNodes(p, 1<<20)
		if len(nodes) > maxNodes {
			c.r.Shuffle(len(nodes), func(i, j int) { nodes[i], nodes[j] = nodes[j], nodes[i] })
			nodes = nodes[:maxNodes]
		}
		for _, n := range nodes {
			q := replaceAt(p, n.path, func(x types.SpendPolicy) types.SpendPolicy { o, _ := c.realOpaque(x); return o })
			mustReject("opaqued_branch_unusable", fmt.Sprintf("sub-policy at path %v made opaque, same witnesses: still accepted", n.path), q, sigs, pre)
			if n.nSig+n.nPre > 0 {
				s2 := append(append([]types.Signature(nil), sigs[:n.sigOff]...), sigs[n.sigOff+n.nSig:]...)
				x2 := append(append([][32]byte(nil), pre[:n.preOff]...), pre[n.preOff+n.nPre:]...)
				mustReject("opaqued_branch_unusable", fmt.Sprintf("sub-policy at path %v made opaque, its witnesses removed: still accepted", n.path), q, s2, x2)
			}
		}
	}
	// single corruption (only where every signature is checked against a
	// recognised key type: pk leaves, or unlock conditions without unknown algorithms)
	recognised := true
	if uc, ok := p.Type.(types.PolicyTypeUnlockConditions); ok {
		for _, k := range uc.PublicKeys {
			if k.Algorithm != types.SpecifierEd25519 && k.Algorithm != types.SpecifierEntropy {
				recognised = false
			}
		}
	}
	idxs := func(n int) []int {
		out := c.r.Perm(n)
		if len(out) > 6 {
			out = out[:6]
		}
		return out
	}
	if recognised {
		for _, i := range idxs(len(sigs)) {
			s2 := append([]types.Signature(nil), sigs...)
			s2[i] = flipSig(s2[i], c.r.IntN(512))
			mustReject("corrupted_signature_rejected", fmt.Sprintf("signature %d with one bit flipped: still accepted", i), p, s2, pre)
		}
	} else if len(sigs) > 0 {
		b.Count("uc_with_unknown_algorithm_key: corruption law not applicable (by statement)", 1)
	}
	for _, i := range idxs(len(pre)) {
		x2 := append([][32]byte(nil), pre...)
		x2[i] = flipPre(x2[i], c.r.IntN(256))
		mustReject("corrupted_preimage_rejected", fmt.Sprintf("preimage %d with one bit flipped: still accepted", i), p, sigs, x2)
	}
	// leftover witnesses: a copy of a valid one, at the end and at the front
	extraSig := c.m.sign(nKeys-1, e.sigHash)
	if len(sigs) > 0 {
		extraSig = sigs[len(sigs)-1]
	}
	mustReject("leftover_witness_rejected", "one more signature appended", p, append(append([]types.Signature(nil), sigs...), extraSig), pre)
	if len(sigs) > 0 {
		mustReject("leftover_witness_rejected", "first signature duplicated at the front", p, append([]types.Signature{sigs[0]}, sigs...), pre)
	}
	extraPre := c.m.pre[0]
	if len(pre) > 0 {
		extraPre = pre[len(pre)-1]
	}
	mustReject("leftover_witness_rejected", "one more preimage appended", p, sigs, append(append([][32]byte(nil), pre...), extraPre))
}

// ---------------------------------------------------------------------------
// one tree: address laws, witness assignments x lock offsets, laws

type treeOpts struct {
	fam            string
	capAssign      int
	allSubsetsUpTo int
	nRandomSubsets int
	lawNodes       int
	light          bool // fewer environments for tampered assignments
}

func envsFor(above, after bool, h0 types.Hash256, baseH uint64, baseT int64) (envs []env, labels []string) {
	hs := []uint64{baseH}
	hl := []string{"h+0"}
	if above {
		hs = []uint64{baseH - 1, baseH, baseH + 1}
		hl = []string{"h-1", "h+0", "h+1"}
	}
	ts := []time.Time{time.Unix(baseT+1, 0)}
	tl := []string{"t+1s"}
	if after {
		ts = []time.Time{time.Unix(baseT-1, 0), time.Unix(baseT, 0), time.Unix(baseT, 1), time.Unix(baseT+1, 0)}
		tl = []string{"t-1s", "t+0", "t+1ns", "t+1s"}
	}
	for i, h := range hs {
		for j, t := range ts {
			envs = append(envs, env{h, t, h0})
			labels = append(labels, hl[i]+","+tl[j])
		}
	}
	return
}

func (c *ctx) treeCase(n *node, o treeOpts) {
	b := c.b
	bd := &builder{m: c.m}
	p := bd.build(n)
	shape := n.Shape()
	c.addressLaws(o.fam, shape, p, o.allSubsetsUpTo, o.nRandomSubsets)

	pks, hashes := revealedLeaves(p)
	asg, full := allAssignments(len(pks), len(hashes), o.capAssign, c.r)
	if full {
		b.Count("trees_with_full_witness_product", 1)
	} else {
		b.Count("trees_with_sampled_witness_product", 1)
	}
	above, after := lockDeps(p)
	envs, labels := envsFor(above, after, c.h0, lockH, lockTs)
	sat := env{lockH, time.Unix(lockTs+1, 0), c.h0}
	satLabel := "h+0,t+1s"
	lawsDone := false
	for ai, a := range asg {
		sigs, pre := c.m.realise(pks, hashes, a, c.h0, ai)
		cls := a.class()
		if a.canonical() || !o.light {
			for i, e := range envs {
				ok, judged := c.checkCase(o.fam, shape, cls, labels[i], p, e, sigs, pre)
				if ok && judged && a.canonical() && !lawsDone {
					lawsDone = true
					c.acceptedLaws(o.fam, shape, p, e, sigs, pre, o.lawNodes)
				}
			}
		} else {
			c.checkCase(o.fam, shape, cls, satLabel, p, sat, sigs, pre)
			if (above || after) && ai%4 == 1 {
				k := c.r.IntN(len(envs))
				c.checkCase(o.fam, shape, cls, labels[k], p, envs[k], sigs, pre)
			}
		}
	}
}

// ---------------------------------------------------------------------------
// random trees

func (c *ctx) randomTrees(count int) {
	b := c.b
	g := &rgen{r: c.r, maxDepth: 6}
	for i := 0; i < count; i++ {
		root := g.node(g.maxDepth, true)
		if root.kind != 'T' && c.r.IntN(4) != 0 {
			root = &node{kind: 'T', n: 1, kids: []*node{root}}
		}
		bd := &builder{m: c.m}
		p := bd.build(root)
		total, depth := visitedSubPolicies(p), policyDepth(p)
		b.MaxOf("random_tree_max_subpolicies", int64(total))
		b.MaxOf("random_tree_max_depth", int64(depth))
		shape := root.Shape()
		if len(shape) > 48 {
			// structural class of a big tree: depth, size bucket, kinds present, prefix of the shape
			shape = fmt.Sprintf("d%d/s%d/%s/%s", depth, bucket(total), kindsPresent(root), shape[:32])
		}
		c.addressLaws("random", shape, p, 5, 6)
		c.roundTrip("random", shape, p)

		pks, hashes := revealedLeaves(p)
		asg, _ := allAssignments(len(pks), len(hashes), 24, c.r)
		// environments: around the largest lock on a revealed path
		maxH, maxT := maxLocks(p)
		var envs []env
		var labels []string
		for _, dh := range []int64{-1, 0, 1} {
			for _, dt := range []int64{-1, 0, 1} {
				h := maxH + uint64(dh)
				if maxH == 0 && dh < 0 || maxH == ^uint64(0) && dh > 0 {
					continue
				}
				envs = append(envs, env{h, time.Unix(maxT+dt, 0), c.h0})
				labels = append(labels, fmt.Sprintf("H%+d,T%+d", dh, dt))
			}
		}
		satI := len(envs) - 1
		lawsDone := false
		for ai, a := range asg {
			sigs, pre := c.m.realise(pks, hashes, a, c.h0, c.r.IntN(512))
			if a.canonical() {
				for k, e := range envs {
					ok, judged := c.checkCase("random", shape, a.class(), labels[k], p, e, sigs, pre)
					if ok && judged && !lawsDone {
						lawsDone = true
						b.Count("random_trees_satisfied", 1)
						c.acceptedLaws("random", shape, p, e, sigs, pre, 8)
					}
				}
				continue
			}
			k := satI
			if ai%5 == 0 {
				k = c.r.IntN(len(envs))
			}
			c.checkCase("random", shape, classSummary(a), labels[k], p, envs[k], sigs, pre)
		}
		b.Count("random_trees", 1)
	}
}

func bucket(n int) int {
	k := 0
	for n > 0 {
		n >>= 1
		k++
	}
	return k
}

func kindsPresent(n *node) string {
	seen := map[byte]bool{}
	var walk func(n *node)
	walk = func(n *node) {
		seen[n.kind] = true
		for _, k := range n.kids {
			walk(k)
		}
	}
	walk(n)
	var ks []byte
	for k := range seen {
		ks = append(ks, k)
	}
	sort.Slice(ks, func(i, j int) bool { return ks[i] < ks[j] })
	return string(ks)
}

// classSummary of a (possibly long) assignment: counts of each class + extra.
func classSummary(a assignment) string {
	if len(a.sigCls)+len(a.preCls) <= 8 {
		return a.class()
	}
	cnt := map[byte]int{}
	for _, c := range a.sigCls {
		cnt[c]++
	}
	pc := map[byte]int{}
	for _, c := range a.preCls {
		pc[c]++
	}
	return fmt.Sprintf("s[V%dF%dO%dM%d]p[V%dF%dO%dM%d]%s", cnt['V'], cnt['F'], cnt['O'], cnt['M'], pc['V'], pc['F'], pc['O'], pc['M'], a.extra)
}

// maxLocks: the largest height / time lock on a revealed path (0/lockTs if none).
func maxLocks(p types.SpendPolicy) (h uint64, t int64) {
	t = lockTs
	first := true
	var walk func(p types.SpendPolicy)
	walk = func(p types.SpendPolicy) {
		switch x := p.Type.(type) {
		case types.PolicyTypeAbove:
			if uint64(x) > h {
				h = uint64(x)
			}
		case types.PolicyTypeAfter:
			if u := time.Time(x).Unix(); first || u > t {
				t, first = u, false
			}
		case types.PolicyTypeUnlockConditions:
			if x.Timelock > h {
				h = x.Timelock
			}
		case types.PolicyTypeThreshold:
			for _, ch := range x.Of {
				walk(ch)
			}
		}
	}
	walk(p)
	return
}

// roundTrip: the wire form is the documented layout, decodes to the same
// policy (depth <= 32, breadth <= 255), and deeper ones are refused.
func (c *ctx) roundTrip(fam, shape string, p types.SpendPolicy) {
	b := c.b
	maxB := 0
	var walk func(p types.SpendPolicy)
	walk = func(p types.SpendPolicy) {
		if t, ok := p.Type.(types.PolicyTypeThreshold); ok {
			if len(t.Of) > maxB {
				maxB = len(t.Of)
			}
			for _, ch := range t.Of {
				walk(ch)
			}
		}
	}
	walk(p)
	if maxB > 255 {
		return // the count byte cannot represent it; not a wire policy
	}
	want := modelEncode(p)
	var got bytes.Buffer
	var dec types.SpendPolicy
	var derr error
	if b.Guard("C14/encoding", func() any { return map[string]string{"policy_hex": trunc(hex.EncodeToString(want), 100000)} }, func() {
		e := types.NewEncoder(&got)
		p.EncodeTo(e)
		e.Flush()
		d := types.NewBufDecoder(want)
		dec.DecodeFrom(d)
		derr = d.Err()
	}) {
		return
	}
	b.Eval(1)
	if !bytes.Equal(got.Bytes(), want) {
		b.Violate("C14/encoding/layout", "EncodeTo differs from the documented layout ["+trunc(shape, 120)+"]",
			map[string]string{"policy": policyString(p), "got": trunc(hex.EncodeToString(got.Bytes()), 100000), "want": trunc(hex.EncodeToString(want), 100000)})
		return
	}
	depth := policyDepth(p)
	if depth > 32 {
		if derr == nil {
			b.Violate("C14/limit/decode-depth/accepted", fmt.Sprintf("policy of nesting depth %d decoded", depth), map[string]string{"policy_hex": trunc(hex.EncodeToString(want), 100000)})
		}
		b.Count("decode_depth_over_32_rejected", 1)
		return
	}
	if derr != nil {
		b.Violate("C14/encoding/decode-own-output", "DecodeFrom refuses EncodeTo's output: "+derr.Error()+" ["+trunc(shape, 120)+"]",
			map[string]string{"policy": policyString(p), "policy_hex": trunc(hex.EncodeToString(want), 100000)})
		return
	}
	if !bytes.Equal(modelEncode(dec), want) {
		b.Violate("C14/encoding/roundtrip", "decode(encode(p)) != p ["+trunc(shape, 120)+"]",
			map[string]string{"policy": policyString(p), "decoded": policyString(dec)})
		return
	}
	b.Count("encoding_roundtrips", 1)
}
