// C14 — Spend policy verification matches the policy's meaning and address
// commitment.
//
// Monitor: every call of the real SpendPolicy.Verify made by the workload is
// compared with an independent functional evaluator (model.go) written from
// the property statement; Address / PolicyOpaque / the wire form are compared
// with the definition; direct laws (address invariance under opaquing, opaqued
// branch unusable, single corruption refused, leftover witness refused,
// complexity limits) are asserted on top; a sample is spent through
// consensus.ValidateV2Transaction.
package main

import (
	"fmt"
	"os"
	"runtime/pprof"
	"time"

	"verif/internal/harness"
)

// Exhaustive sub-spaces (leaf kinds: above, after, pk, hash, opaque, uc):
//
//	E1  nesting depth <= 1, <= 3 children, n in 0..|of|+1          (1 250 trees)
//	E2  nesting depth <= 2, <= 2 children at both levels           (116 118 trees)
//	E3  nesting depth <= 2, <= 3 children at the root, <= 2 below  (24.7 M trees; thorough only)
//
// E1 and E2 are run with the full product of witness classes per slot
// (valid / bit-flipped / valid-for-another-key / missing) x surplus/swap
// variants when that product has <= cap members (else canonical + all single
// tampers + extras + random members), at every lock offset for the canonical
// assignment.
func run(b *harness.B) {
	c := newCtx(b)
	if pf := os.Getenv("C14_CPUPROFILE"); pf != "" {
		f, _ := os.Create(pf)
		pprof.StartCPUProfile(f)
		defer pprof.StopCPUProfile()
	}
	t0 := time.Now() // diagnostics only (stderr); never read by an oracle
	phase := func(name string) {
		fmt.Fprintf(os.Stderr, "phase %-10s %6.1fs\n", name, time.Since(t0).Seconds())
		t0 = time.Now()
	}

	// E1
	e1 := options(1, []int{3})
	for i, n := range e1 {
		if i%b.NB != b.Batch {
			continue
		}
		c.treeCase(n, treeOpts{fam: "E1", capAssign: 1 << 14, allSubsetsUpTo: 6, nRandomSubsets: 0, lawNodes: 16})
		b.Count("exhaustive_trees", 1)
		b.Count("exhaustive_trees_E1", 1)
	}
	phase("E1")
	// E2
	sub := options(1, []int{2})
	tot := forEachRoot(sub, 2, b.Batch, b.NB, func(n *node) {
		c.treeCase(n, treeOpts{fam: "E2", capAssign: b.Pick(40, 300), allSubsetsUpTo: 6, nRandomSubsets: 2, lawNodes: 8, light: b.Quick()})
		b.Count("exhaustive_trees", 1)
		b.Count("exhaustive_trees_E2", 1)
	})
	b.MaxOf("E2_space_size", tot)
	phase("E2")
	if !b.Quick() {
		tot := forEachRoot(sub, 3, b.Batch, b.NB, func(n *node) {
			if len(n.kids) < 3 {
				return // already in E2
			}
			c.treeCase(n, treeOpts{fam: "E3", capAssign: 12, allSubsetsUpTo: 3, nRandomSubsets: 1, lawNodes: 3, light: true})
			b.Count("exhaustive_trees", 1)
			b.Count("exhaustive_trees_E3", 1)
		})
		b.MaxOf("E3_space_size", tot)
	}

	phase("E3")
	// legacy unlock conditions, exhaustive over small key lists / signature sequences
	c.ucExhaustive(b.Pick(3, 4), b.Pick(4, 5))

	phase("uc")
	// limits and decode depth (cheap; one batch)
	if b.Batch == b.NB-1 {
		c.limits()
	}

	phase("limits")
	// random trees to depth 6 and up to the limits
	c.randomTrees(b.Pick(1400, 30000))

	phase("random")
	// end to end through consensus
	for i := 0; i < b.Pick(1, 6); i++ {
		c.e2e(b.Pick(40, 300), fmt.Sprint(i))
	}

	phase("e2e")
	b.Sample(map[string]any{"kind": "batch summary", "batch": b.Batch, "E1_size": len(e1), "E2_inner_options": len(sub)})
}

func main() {
	harness.Main(harness.Spec{
		ID: "C14",
		Rule: "Verify vs an independent functional evaluator on: (E1) ALL policy trees over {above,after,pk,hash,opaque,uc,thresh} of nesting depth<=1 with <=3 children and n in 0..|of|+1; (E2) ALL trees of depth<=2 with <=2 children per threshold; (E3, thorough) ALL trees of depth<=2 with <=3 root children and <=2 below; " +
			"each with witness assignments from the per-slot product {valid, bit-flipped, valid-for-another-key, missing} x {none, surplus sig/preimage at end/front, swapped} (full product when small, else canonical+all single tampers+random), heights at lock-1/lock/lock+1 and median at lock-1s/lock/lock+1ns/lock+1s; " +
			"(uc) ALL unlock conditions with <=3 (thorough 4) keys from {3 ed25519 keys, unknown algorithm, entropy}, required 0..|keys|+1, all signature sequences up to required+1 from {3 valid, unlisted key, flipped}; " +
			"random trees to depth 6 / breadth 256 / >1024 sub-policies; directed limit cases (255/256 children, 1024/1025 sub-policies, chains to 200000, decode depth 0..10^6); address laws on every tree (all subsets of nodes made opaque for small trees); " +
			"a sample spent through consensus.ValidateV2Transaction on an 18-block chain. A case is distinct by (family, tree shape signature, witness class string, lock offset).",
		Assume: []string{
			"crypto/ed25519, crypto/sha256 and golang.org/x/crypto/blake2b are the primitives of the oracle",
			"legacy unlock conditions: signatures are matched to listed keys in order (each listed key at most once); a listed entropy key reached while signatures are still needed is refused; unknown algorithms accept any signature (statement + DESIGN C14)",
			"ed25519 unlock keys whose length is not 32 bytes are observed, not judged",
			"the corruption law is applied only where every key is of a recognised type (statement)",
		},
		Batches: func(t string) int {
			if t == "quick" {
				return 14
			}
			return 16
		},
		Run: run,
		ChildTimeout: func(t string) time.Duration {
			if t == "quick" {
				return 20 * time.Minute
			}
			return 90 * time.Minute
		},
		MinEvals:    300000,
		MinDistinct: 20000,
		Require: []string{"e2e_unlock_conditions_spent_both_ways", "exhaustive_trees", "exhaustive_trees_E1", "exhaustive_trees_E2", "agree_accept", "agree_reject", "opaque_subsets_checked", "opaque_all_subsets_trees",
			"uc_cases", "uc_accepted", "limit_cases", "address_matches_definition", "opaqued_branch_unusable", "corrupted_signature_rejected",
			"corrupted_preimage_rejected", "leftover_witness_rejected", "random_trees", "random_trees_satisfied", "encoding_roundtrips",
			"decode_depth_over_32_rejected", "decode_depth_within_32_accepted", "e2e_accept", "e2e_reject", "e2e_reject_by_height_lock", "e2e_reject_by_time_lock",
			"standard_address_checks", "uc_address_checks"},
		Extra: func(m *harness.Result, cov map[string]any) {
			cov["exhaustive_subspace"] = fmt.Sprintf("E1 (depth<=1, breadth<=3): %d trees; E2 (depth<=2, breadth<=2): %d trees; E3 (depth<=2, root breadth 3, inner <=2; thorough only): %d trees; unlock conditions: %d cases",
				m.Counters["exhaustive_trees_E1"], m.Counters["exhaustive_trees_E2"], m.Counters["exhaustive_trees_E3"], m.Counters["uc_cases"])
			cov["exhaustive"] = true
		},
	})
}
