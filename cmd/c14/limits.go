package main

import (
	"bytes"
	"encoding/hex"
	"fmt"
	"time"

	"go.sia.tech/core/types"
)

// Complexity limits: 255 children, 1024 sub-policies in total, decode depth 32.
// Every case here would be satisfied but for the limit (or is satisfied, just
// under it), so a rejection can only come from the limit and an acceptance
// shows the limit is not over-eager.

func (c *ctx) limitCase(name string, p types.SpendPolicy, sigs []types.Signature, pre [][32]byte) {
	e := env{lockH, time.Unix(lockTs+1, 0), c.h0}
	c.b.Journal("limit " + name)
	c.checkCase("limit", name, fmt.Sprintf("s%dp%d", len(sigs), len(pre)), "h+0,t+1s", p, e, sigs, pre)
	c.b.Count("limit_cases", 1)
}

func opaques(n int, a types.Address) []types.SpendPolicy {
	out := make([]types.SpendPolicy, n)
	for i := range out {
		out[i] = types.SpendPolicy{Type: types.PolicyTypeOpaque(a)}
	}
	return out
}

func (c *ctx) limits() {
	b := c.b
	r := c.r
	m := c.m
	free := types.PolicyAbove(0)

	// --- breadth
	for _, k := range []int{0, 1, 254, 255, 256, 257, 300, 1024, 1025} {
		c.limitCase(fmt.Sprintf("wide/opaque*%d,n=0", k), types.PolicyThreshold(0, opaques(k, m.opaqueAddr)), nil, nil)
		if k >= 1 {
			of := opaques(k, m.opaqueAddr)
			of[r.IntN(k)] = free
			c.limitCase(fmt.Sprintf("wide/opaque*%d+above,n=1", k-1), types.PolicyThreshold(1, of), nil, nil)
			of = opaques(k, m.opaqueAddr)
			of[k-1] = types.PolicyPublicKey(m.pub[1])
			c.limitCase(fmt.Sprintf("wide/opaque*%d+pk(last),n=1", k-1), types.PolicyThreshold(1, of), []types.Signature{m.sign(1, c.h0)}, nil)
		}
		if k >= 1 && k <= 300 {
			of := make([]types.SpendPolicy, k)
			for i := range of {
				of[i] = free
			}
			n := k
			if n > 255 {
				// only 255 can be required: reveal 255, hide the rest
				for i := 255; i < k; i++ {
					of[i] = types.SpendPolicy{Type: types.PolicyTypeOpaque(m.opaqueAddr)}
				}
				n = 255
			}
			c.limitCase(fmt.Sprintf("wide/above*%d,n=%d", k, n), types.PolicyThreshold(uint8(n), of), nil, nil)
		}
	}
	// a too-wide node deeper in the tree
	for _, k := range []int{255, 256} {
		inner := types.PolicyThreshold(0, opaques(k, m.opaqueAddr))
		c.limitCase(fmt.Sprintf("wide/nested-opaque*%d", k), types.PolicyThreshold(2, []types.SpendPolicy{free, inner}), nil, nil)
	}

	// --- total sub-policies: root of k thresholds whose breadths sum to total-k
	for _, total := range []int{1000, 1023, 1024, 1025, 1026, 1100, 2048} {
		for rep := 0; rep < 6; rep++ {
			k := 5 + r.IntN(6)
			if total > 1100 {
				k = 9
			}
			rest := total - k
			br := make([]int, k)
			for i := range br {
				br[i] = rest / k
			}
			br[0] += rest - (rest/k)*k
			// perturb while keeping the sum and the 255 bound
			for j := 0; j < 20; j++ {
				a, bb := r.IntN(k), r.IntN(k)
				d := r.IntN(40)
				if br[a]-d >= 0 && br[bb]+d <= 255 {
					br[a] -= d
					br[bb] += d
				}
			}
			ok := true
			for _, x := range br {
				if x > 255 {
					ok = false
				}
			}
			if !ok {
				continue
			}
			var sigs []types.Signature
			var pre [][32]byte
			kids := make([]types.SpendPolicy, k)
			for i := range kids {
				of := make([]types.SpendPolicy, br[i])
				n := 0
				for j := range of {
					switch x := r.IntN(40); {
					case x == 0 && n < 255:
						of[j] = types.PolicyPublicKey(m.pub[j%3])
						sigs = append(sigs, m.sign(j%3, c.h0))
						n++
					case x == 1 && n < 255:
						of[j] = types.PolicyHash(m.hash[j%3])
						pre = append(pre, m.pre[j%3])
						n++
					case x < 12 && n < 255:
						of[j] = free
						n++
					default:
						of[j] = types.SpendPolicy{Type: types.PolicyTypeOpaque(m.opaqueAddr)}
					}
				}
				kids[i] = types.PolicyThreshold(uint8(n), of)
			}
			p := types.PolicyThreshold(uint8(k), kids)
			if got := visitedSubPolicies(p); got != total {
				panic(fmt.Sprint("generator: total ", got, " != ", total))
			}
			c.limitCase(fmt.Sprintf("total/%d/two-level", total), p, sigs, pre)
		}
	}
	// exact totals with a clean three-level construction
	for _, total := range []int{1024, 1025} {
		mk := func(n int) types.SpendPolicy {
			of := make([]types.SpendPolicy, n)
			for i := range of {
				of[i] = free
			}
			return types.PolicyThreshold(uint8(n), of)
		}
		// root(2): [ mid(3): [mk(255), mk(255), mk(255)], mk(x) ]  => 2 + 3 + 765 + x
		x := total - (2 + 3 + 765)
		p := types.PolicyThreshold(2, []types.SpendPolicy{types.PolicyThreshold(3, []types.SpendPolicy{mk(255), mk(255), mk(255)}), mk(x)})
		c.limitCase(fmt.Sprintf("total/%d/three-level", total), p, nil, nil)
		// the excess hidden behind opaque children still counts (they are sub-policies of a visited threshold)
		q := types.PolicyThreshold(2, []types.SpendPolicy{types.PolicyThreshold(3, []types.SpendPolicy{mk(255), mk(255), mk(255)}), types.PolicyThreshold(0, opaques(x, m.opaqueAddr))})
		c.limitCase(fmt.Sprintf("total/%d/three-level-opaque-tail", total), q, nil, nil)
	}

	// --- time locks at the far end of the 64-bit range of Unix seconds (the wire carries any int64)
	for _, T := range []int64{1 << 40, 1<<62 + 5, 9223371974719179007, 9223371974719179008, 1<<63 - 2, 1<<63 - 1} {
		pa := types.PolicyAfter(time.Unix(T, 0))
		e := env{lockH, time.Unix(lockTs+1, 0), c.h0}
		fam := "limit"
		if T >= 9223371974719179008 {
			fam = "limit/unix-seconds-beyond-the-range-of-time.Time" // MaxInt64 - 62135596800 (seconds between year 1 and 1970)
		}
		c.checkCase(fam, fmt.Sprintf("after/unix-seconds-%d", T), "s0p0", "h+0,t+1s", pa, e, nil, nil)
		c.checkCase(fam, fmt.Sprintf("after/unix-seconds-%d/in-threshold-with-pk", T), "s1p0", "h+0,t+1s", types.PolicyThreshold(2, []types.SpendPolicy{pa, types.PolicyPublicKey(m.pub[1])}), e, []types.Signature{m.sign(1, c.h0)}, nil)
		c.b.Count("limit_cases", 2)
	}

	// --- nesting: chains
	for _, d := range []int{1, 2, 31, 32, 33, 34, 100, 1000, 1023, 1024, 1025, 1026, 2000, 5000, 20000, 200000} {
		p := chain(d, free)
		c.limitCase(fmt.Sprintf("chain/%d/above", d), p, nil, nil)
		if d <= 1026 {
			c.limitCase(fmt.Sprintf("chain/%d/pk", d), chain(d, types.PolicyPublicKey(m.pub[2])), []types.Signature{m.sign(2, c.h0)}, nil)
		}
		if d <= 5000 {
			c.addressLaws("limit", fmt.Sprintf("chain/%d", d), p, 0, 2)
		}
		b.MaxOf("deepest_chain_verified", int64(d))
		// what Verify accepts must be able to travel: a satisfied policy reaches every other node in its binary form
		if d <= 1100 {
			e := env{lockH, time.Unix(lockTs+1, 0), c.h0}
			if ok, _, _ := c.realVerify("limit", p, e, nil, nil); ok {
				var q types.SpendPolicy
				dec := types.NewBufDecoder(modelEncode(p))
				q.DecodeFrom(dec)
				b.Eval(1)
				b.Count("accepted_policies_decoded_from_their_encoding", 1)
				if dec.Err() != nil {
					b.Violate("C14/limit/verify-accepts-a-policy-that-does-not-decode-from-its-own-encoding", fmt.Sprintf("a chain of %d nested thresholds is accepted by Verify, but DecodeFrom refuses its encoding: %v", d, dec.Err()), map[string]any{"depth": d})
				}
			}
		}
	}

	// --- shared subtrees: a value in memory may use one sub-policy many times (240 distinct values spell a tree of
	// 8^30 nodes). The complexity limit must refuse it after about a thousand nodes, not walk it.
	{
		p := free
		for i := 0; i < 30; i++ {
			of := make([]types.SpendPolicy, 8)
			for k := range of {
				of[k] = p
			}
			p = types.PolicyThreshold(8, of)
		}
		done := make(chan bool, 1)
		go func() {
			ok, _, _ := c.realVerify("limit", p, env{lockH, time.Unix(lockTs+1, 0), c.h0}, nil, nil)
			done <- ok
		}()
		b.Eval(1)
		b.Count("shared_subtree_policies_verified", 1)
		select {
		case ok := <-done:
			if ok {
				b.Violate("C14/limit/verify-accepts/shared-subtree-policy-of-8^30-nodes", "a policy of 8^30 nodes (30 levels of thresh(8,[p x 8]) over one shared value) is accepted", nil)
			}
		case <-time.After(20 * time.Second):
			// between "refused after ~1000 nodes" (microseconds) and "walks 8^30 nodes" (never) lie many orders of magnitude
			b.Violate("C14/limit/verify-does-not-return/shared-subtree-policy-of-8^30-nodes", "Verify of a policy of 8^30 nodes (30 levels of thresh(8,[p x 8]) sharing one value per level; depth within the limit) had not returned after 20 s: the complexity limit is consulted only after the whole tree has been walked", nil)
		}
	}

	// --- decode depth
	leaf := append([]byte{1}, le64(7)...)
	for _, d := range []int{0, 1, 2, 30, 31, 32, 33, 34, 35, 40, 64, 100, 255, 1000, 100000, 1000000} {
		buf := []byte{1}
		buf = append(buf, bytes.Repeat([]byte{5, 1, 1}, d)...)
		buf = append(buf, leaf...)
		b.Journal(fmt.Sprintf("decode chain depth %d", d))
		var p types.SpendPolicy
		var err error
		if b.Guard("C14/decode", func() any { return map[string]any{"depth": d} }, func() {
			dec := types.NewBufDecoder(buf)
			p.DecodeFrom(dec)
			err = dec.Err()
		}) {
			continue
		}
		b.Eval(1)
		b.Count("limit_cases", 1)
		b.Distinct("decode-depth", d)
		if d > 32 {
			if err == nil {
				b.Violate("C14/limit/decode-depth/accepted", fmt.Sprintf("nesting depth %d decoded without error", d), map[string]any{"depth": d, "hex_prefix": hex.EncodeToString(buf[:40])})
			} else {
				b.Count("decode_depth_over_32_rejected", 1)
			}
			continue
		}
		if err != nil {
			b.Violate("C14/limit/decode-depth/rejected-within-limit", fmt.Sprintf("nesting depth %d refused: %v", d, err), map[string]any{"depth": d, "hex": hex.EncodeToString(buf)})
			continue
		}
		b.Count("decode_depth_within_32_accepted", 1)
		if !bytes.Equal(modelEncode(p), buf) {
			b.Violate("C14/encoding/roundtrip", fmt.Sprintf("chain of depth %d decodes to a different policy", d), map[string]any{"depth": d})
		}
		c.roundTrip("limit", fmt.Sprintf("decoded-chain/%d", d), p)
		// decoded policies go straight to Address + Verify in consensus
		c.limitCase(fmt.Sprintf("decoded-chain/%d", d), p, nil, nil)
	}
	// wide and deep decode: 255-ary thresholds nested to the limit, truncated input
	{
		buf := []byte{1}
		buf = append(buf, bytes.Repeat([]byte{5, 0, 255}, 40)...)
		b.Journal("decode wide+deep truncated")
		b.Guard("C14/decode", func() any { return "wide+deep truncated" }, func() {
			var p types.SpendPolicy
			dec := types.NewBufDecoder(buf)
			p.DecodeFrom(dec)
			if dec.Err() == nil {
				b.Violate("C14/limit/decode-depth/accepted", "40 nested 255-ary thresholds on a truncated input decoded", hex.EncodeToString(buf))
			}
		})
		b.Eval(1)
	}
}
