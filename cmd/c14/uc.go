package main

import (
	"fmt"
	"time"

	"go.sia.tech/core/types"
)

// Legacy unlock conditions as a top-level policy.
//
// Key symbols:  A,B,C = ed25519 keys 0,1,2   X = unknown algorithm   E = entropy
// Sig symbols:  a,b,c = valid signature by key 0,1,2   z = valid signature by the
//               key that is listed nowhere   f = signature by key 0 with a bit flipped

var ucKeySyms = []byte{'A', 'B', 'C', 'X', 'E'}
var ucSigSyms = []byte{'a', 'b', 'c', 'z', 'f'}

func (c *ctx) ucKey(sym byte) types.UnlockKey {
	switch sym {
	case 'A', 'B', 'C':
		return c.m.pub[sym-'A'].UnlockKey()
	case 'X':
		return types.UnlockKey{Algorithm: types.NewSpecifier("verif-unknown"), Key: []byte{1, 2, 3}}
	case 'E':
		return types.UnlockKey{Algorithm: types.SpecifierEntropy, Key: c.m.pub[3][:]}
	}
	panic("bad key symbol")
}

func (c *ctx) ucSig(sym byte, h types.Hash256) types.Signature {
	switch sym {
	case 'a', 'b', 'c':
		return c.m.sign(int(sym-'a'), h)
	case 'z':
		return c.m.sign(nKeys-1, h)
	case 'f':
		return flipSig(c.m.sign(0, h), 77)
	}
	panic("bad sig symbol")
}

func seqs(syms []byte, maxLen int, fn func([]byte)) {
	cur := make([]byte, 0, maxLen)
	var rec func()
	rec = func() {
		fn(cur)
		if len(cur) == maxLen {
			return
		}
		for _, s := range syms {
			cur = append(cur, s)
			rec()
			cur = cur[:len(cur)-1]
		}
	}
	rec()
}

func (c *ctx) ucExhaustive(maxKeys, maxSigs int) {
	b := c.b
	var idx int
	seqs(ucKeySyms, maxKeys, func(ks []byte) {
		idx++
		if idx%b.NB != b.Batch {
			return
		}
		keyStr := string(ks)
		keys := make([]types.UnlockKey, len(ks))
		for i, s := range ks {
			keys[i] = c.ucKey(s)
		}
		for req := 0; req <= len(ks)+1; req++ {
			ml := req + 1
			if ml > maxSigs {
				ml = maxSigs
			}
			for _, tl := range []uint64{0, lockH} {
				uc := types.UnlockConditions{Timelock: tl, PublicKeys: keys, SignaturesRequired: uint64(req)}
				p := types.SpendPolicy{Type: types.PolicyTypeUnlockConditions(uc)}
				shape := fmt.Sprintf("uc(%s,%d,tl=%d)", keyStr, req, tl)
				c.ucAddress(shape, uc)
				if tl != 0 {
					// the address commits to the time lock: the same keys without it are another address
					noTL := uc
					noTL.Timelock = 0
					b.Eval(1)
					if uc.UnlockHash() == noTL.UnlockHash() || p.Address() == (types.SpendPolicy{Type: types.PolicyTypeUnlockConditions(noTL)}).Address() {
						b.Violate("C14/address/unlock-conditions-timelock-not-committed", fmt.Sprintf("%s has the same address as the same conditions without the time lock", shape), map[string]any{"shape": shape})
					}
				}
				heights := []uint64{lockH}
				hl := []string{"h+0"}
				if tl != 0 {
					heights = []uint64{lockH - 1, lockH, lockH + 1}
					hl = []string{"h-1", "h+0", "h+1"}
				}
				lawsDone := false
				seqs(ucSigSyms, ml, func(ss []byte) {
					if tl != 0 && len(ss) != req && len(ss) != 0 {
						return // with a time lock: only the plausible lengths
					}
					sigs := make([]types.Signature, len(ss))
					for i, s := range ss {
						sigs[i] = c.ucSig(s, c.h0)
					}
					for i, h := range heights {
						e := env{h, time.Unix(lockTs, 0), c.h0}
						ok, judged := c.checkCase("uc", shape, string(ss), hl[i], p, e, sigs, nil)
						b.Count("uc_cases", 1)
						if ok && judged {
							b.Count("uc_accepted", 1)
							if len(sigs) != req {
								b.Violate("C14/uc/accepted-with-wrong-signature-count", fmt.Sprintf("%s accepted with %d signatures", shape, len(sigs)),
									mkWit("uc", shape, string(ss), p, e, sigs, nil, "", "accepted"))
							}
							if !lawsDone && req > 0 {
								lawsDone = true
								c.acceptedLaws("uc", shape, p, e, sigs, nil, 0)
							}
						}
					}
				})
				// a preimage is always left over
				e := env{lockH, time.Unix(lockTs, 0), c.h0}
				var canon []types.Signature
				c.checkCase("uc", shape, "canon+preimage", "h+0", p, e, canon, [][32]byte{c.m.pre[0]})
				// as a sub-policy it is refused even when it would be satisfied
				wrap := types.PolicyThreshold(1, []types.SpendPolicy{p})
				if req <= len(ks) && req <= 3 {
					var sigs []types.Signature
					n := 0
					for _, s := range ks {
						if n == req {
							break
						}
						switch s {
						case 'A', 'B', 'C':
							sigs = append(sigs, c.m.sign(int(s-'A'), c.h0))
							n++
						case 'X':
							sigs = append(sigs, c.m.sign(nKeys-1, c.h0))
							n++
						}
					}
					c.checkCase("uc-sub", "T1("+shape+")", "greedy-valid", "h+0", wrap, e, sigs, nil)
					b.Count("uc_as_subpolicy_cases", 1)
				}
			}
		}
	})

	if b.Batch == 0 {
		c.ucDirected()
	}
}

// ucAddress: the three spellings of a legacy address agree with the Merkle
// definition.
func (c *ctx) ucAddress(shape string, uc types.UnlockConditions) {
	b := c.b
	want := modelUnlockHash(uc)
	var a1, a2 types.Address
	if b.Guard("C14/address", func() any { return shape }, func() {
		a1 = types.SpendPolicy{Type: types.PolicyTypeUnlockConditions(uc)}.Address()
		a2 = uc.UnlockHash()
	}) {
		return
	}
	b.Eval(1)
	b.Count("uc_address_checks", 1)
	if a1 != want || a2 != want {
		b.Violate("C14/address/unlock-conditions", fmt.Sprintf("uc policy Address()=%v UnlockHash()=%v Merkle definition=%v [%s]", a1, a2, want, shape),
			map[string]any{"shape": shape, "timelock": uc.Timelock, "required": uc.SignaturesRequired})
	}
}

func (c *ctx) ucDirected() {
	b := c.b
	e := env{lockH, time.Unix(lockTs, 0), c.h0}
	// standard addresses
	for i := 0; i < nKeys; i++ {
		pk := c.m.pub[i]
		b.Eval(1)
		std := types.StandardAddress(pk)
		if got, want := std, modelAddress(types.PolicyPublicKey(pk)); got != want || types.PolicyPublicKey(pk).Address() != want {
			b.Violate("C14/address/StandardAddress", fmt.Sprintf("StandardAddress=%v PolicyPublicKey.Address=%v definition=%v", got, types.PolicyPublicKey(pk).Address(), want), pk.String())
		}
		suc := types.StandardUnlockConditions(pk)
		want := modelUnlockHash(suc)
		g1, g2, g3 := types.StandardUnlockHash(pk), suc.UnlockHash(), types.SpendPolicy{Type: types.PolicyTypeUnlockConditions(suc)}.Address()
		if g1 != want || g2 != want || g3 != want {
			b.Violate("C14/address/StandardUnlockHash", fmt.Sprintf("StandardUnlockHash=%v UnlockHash=%v uc policy=%v definition=%v", g1, g2, g3, want), pk.String())
		}
		b.Count("standard_address_checks", 1)
	}
	// huge requirement counts
	for _, req := range []uint64{256, 1<<31 - 1, 1 << 31, 1 << 32, 1<<63 - 1, 1 << 63, 1<<63 + 1, ^uint64(0) - 1, ^uint64(0)} {
		for nk := 0; nk <= 2; nk++ {
			uc := types.UnlockConditions{PublicKeys: []types.UnlockKey{c.ucKey('A'), c.ucKey('B')}[:nk], SignaturesRequired: req}
			p := types.SpendPolicy{Type: types.PolicyTypeUnlockConditions(uc)}
			all := []types.Signature{c.ucSig('a', c.h0), c.ucSig('b', c.h0)}
			// with every number of supplied signatures, in particular none at all
			for ns := 0; ns <= nk; ns++ {
				c.checkCase("uc", fmt.Sprintf("uc(%d keys,required %d)", nk, req), fmt.Sprintf("%d-sigs", ns), "h+0", p, e, all[:ns], nil)
				b.Count("uc_huge_required_cases", 1)
			}
			c.ucAddress("uc-huge-required", uc)
		}
	}
	// many keys (odd Merkle shapes) for the address; duplicates count per listing
	for n := 0; n <= 20; n++ {
		uc := types.UnlockConditions{Timelock: uint64(n), SignaturesRequired: uint64(n / 2)}
		for i := 0; i < n; i++ {
			uc.PublicKeys = append(uc.PublicKeys, c.ucKey(ucKeySyms[(i*7+n)%3]))
		}
		c.ucAddress(fmt.Sprintf("uc-%d-keys", n), uc)
	}
	{
		uc := types.UnlockConditions{PublicKeys: []types.UnlockKey{c.ucKey('A'), c.ucKey('A')}, SignaturesRequired: 2}
		p := types.SpendPolicy{Type: types.PolicyTypeUnlockConditions(uc)}
		ok, _ := c.checkCase("uc", "uc(AA,2)", "aa", "h+0", p, e, []types.Signature{c.ucSig('a', c.h0), c.ucSig('a', c.h0)}, nil)
		if ok {
			b.Count("uc_same_key_listed_twice_counts_twice(observed)", 1)
		}
	}
	// ed25519 keys of non-standard length: the statement does not say what they
	// mean; observed, not judged.
	for _, l := range []int{0, 31, 33, 64} {
		key := make([]byte, l)
		copy(key, c.m.pub[0][:])
		uc := types.UnlockConditions{PublicKeys: []types.UnlockKey{{Algorithm: types.SpecifierEd25519, Key: key}}, SignaturesRequired: 1}
		p := types.SpendPolicy{Type: types.PolicyTypeUnlockConditions(uc)}
		ok, cls, panicked := c.realVerify("uc-keylen", p, e, []types.Signature{c.ucSig('a', c.h0)}, nil)
		if !panicked {
			b.Count(fmt.Sprintf("uc_ed25519_key_of_%d_bytes:%v:%s(observed)", l, ok, cls), 1)
		}
		c.ucAddress(fmt.Sprintf("uc-keylen-%d", l), uc)
	}
}
