package main

import (
	"crypto/sha256"
	"encoding/binary"
	"fmt"
	"math/rand/v2"
	"strings"
	"time"

	"go.sia.tech/core/types"
)

// ---------------------------------------------------------------------------
// fixed material derived from the seed

const (
	nKeys  = 5 // keys 0..3 appear in policies; key 4 never does ("another key")
	lockH  = uint64(100)
	lockTs = int64(1_700_000_000)
)

type material struct {
	priv   [nKeys]types.PrivateKey
	pub    [nKeys]types.PublicKey
	keyIdx map[types.PublicKey]int
	pre    [8][32]byte
	hash   [8]types.Hash256
	preOf  map[types.Hash256][32]byte
	sigs   map[sigReq]types.Signature
	// an address that is the opaque form of something nobody can satisfy here
	opaqueAddr types.Address
}

type sigReq struct {
	key int
	h   types.Hash256
}

func newMaterial(seed uint64) *material {
	m := &material{keyIdx: map[types.PublicKey]int{}, preOf: map[types.Hash256][32]byte{}, sigs: map[sigReq]types.Signature{}}
	for i := 0; i < nKeys; i++ {
		var s [40]byte
		copy(s[:], "verif/C14/key")
		binary.LittleEndian.PutUint64(s[16:], seed)
		binary.LittleEndian.PutUint64(s[24:], uint64(i))
		d := sha256.Sum256(s[:])
		m.priv[i] = types.NewPrivateKeyFromSeed(d[:])
		m.pub[i] = m.priv[i].PublicKey()
		m.keyIdx[m.pub[i]] = i
	}
	for i := range m.pre {
		var s [40]byte
		copy(s[:], "verif/C14/pre")
		binary.LittleEndian.PutUint64(s[16:], seed)
		binary.LittleEndian.PutUint64(s[24:], uint64(i))
		m.pre[i] = sha256.Sum256(s[:])
		m.hash[i] = sha256.Sum256(m.pre[i][:])
		m.preOf[m.hash[i]] = m.pre[i]
	}
	m.opaqueAddr = types.Address(sha256.Sum256([]byte(fmt.Sprint("verif/C14/opaque", seed))))
	return m
}

func (m *material) sign(key int, h types.Hash256) types.Signature {
	r := sigReq{key, h}
	if s, ok := m.sigs[r]; ok {
		return s
	}
	s := m.priv[key].SignHash(h)
	m.sigs[r] = s
	return s
}

func flipSig(s types.Signature, bit int) types.Signature {
	s[(bit/8)%64] ^= 1 << (bit % 8)
	return s
}

func flipPre(p [32]byte, bit int) [32]byte {
	p[(bit/8)%32] ^= 1 << (bit % 8)
	return p
}

// ---------------------------------------------------------------------------
// abstract trees

type node struct {
	kind byte // a=above t=after p=pk h=hash o=opaque u=uc T=thresh
	n    int
	kids []*node
	// optional concrete parameters (random trees); zero value = canonical
	set    bool
	height uint64
	unix   int64
	key    int
	pre    int
	hidden *node                   // opaque of this subtree (random trees)
	uc     *types.UnlockConditions // for kind u
}

var leafKinds = []byte{'a', 't', 'p', 'h', 'o', 'u'}

func (n *node) shape(sb *strings.Builder) {
	switch n.kind {
	case 'T':
		fmt.Fprintf(sb, "T%d(", n.n)
		for i, k := range n.kids {
			if i > 0 {
				sb.WriteByte(',')
			}
			k.shape(sb)
		}
		sb.WriteByte(')')
	default:
		sb.WriteByte(n.kind)
	}
}

func (n *node) Shape() string {
	var sb strings.Builder
	n.shape(&sb)
	return sb.String()
}

// builder assigns keys / preimages to leaves by slot position.
type builder struct {
	m       *material
	pkSlot  int
	preSlot int
}

func (bd *builder) build(n *node) types.SpendPolicy {
	switch n.kind {
	case 'a':
		if n.set {
			return types.PolicyAbove(n.height)
		}
		return types.PolicyAbove(lockH)
	case 't':
		if n.set {
			return types.PolicyAfter(time.Unix(n.unix, 0))
		}
		return types.PolicyAfter(time.Unix(lockTs, 0))
	case 'p':
		k := bd.pkSlot % 3
		if n.set {
			k = n.key
		}
		bd.pkSlot++
		return types.PolicyPublicKey(bd.m.pub[k])
	case 'h':
		k := bd.preSlot % 3
		if n.set {
			k = n.pre
		}
		bd.preSlot++
		return types.PolicyHash(bd.m.hash[k])
	case 'o':
		if n.hidden != nil {
			sub := &builder{m: bd.m}
			return types.SpendPolicy{Type: types.PolicyTypeOpaque(modelAddress(sub.build(n.hidden)))}
		}
		return types.SpendPolicy{Type: types.PolicyTypeOpaque(bd.m.opaqueAddr)}
	case 'u':
		if n.uc != nil {
			return types.SpendPolicy{Type: types.PolicyTypeUnlockConditions(*n.uc)}
		}
		return types.SpendPolicy{Type: types.PolicyTypeUnlockConditions(types.StandardUnlockConditions(bd.m.pub[0]))}
	case 'T':
		of := make([]types.SpendPolicy, len(n.kids))
		for i, k := range n.kids {
			of[i] = bd.build(k)
		}
		if len(of) == 0 {
			of = nil
		}
		return types.PolicyThreshold(uint8(n.n), of)
	}
	panic("bad node kind")
}

// options returns every node of threshold-nesting depth <= d whose thresholds
// have at most breadth[d-1] children (breadth[len-1] applies to the outermost
// level), with n in 0..|of|+1.
func options(d int, breadth []int) []*node {
	var out []*node
	for _, k := range leafKinds {
		out = append(out, &node{kind: k})
	}
	if d == 0 {
		return out
	}
	sub := options(d-1, breadth)
	B := breadth[d-1]
	idx := make([]int, 0, B)
	var rec func(k int)
	rec = func(k int) {
		if len(idx) == k {
			kids := make([]*node, k)
			for i, j := range idx {
				kids[i] = sub[j]
			}
			for n := 0; n <= k+1; n++ {
				out = append(out, &node{kind: 'T', n: n, kids: kids})
			}
			return
		}
		for j := range sub {
			idx = append(idx, j)
			rec(k)
			idx = idx[:len(idx)-1]
		}
	}
	for k := 0; k <= B; k++ {
		rec(k)
	}
	return out
}

// forEachRoot enumerates, without materialising them, all roots
// thresh(n, kids) with kids in sub^k, k<=B, n in 0..k+1, plus the leaf roots;
// only indices i with i%nb==batch are visited. Returns the total count.
func forEachRoot(sub []*node, B int, batch, nb int, fn func(*node)) int64 {
	var i int64
	visit := func(n *node) {
		if int(i%int64(nb)) == batch {
			fn(n)
		}
		i++
	}
	for _, k := range leafKinds {
		visit(&node{kind: k})
	}
	idx := make([]int, 0, B)
	var rec func(k int)
	rec = func(k int) {
		if len(idx) == k {
			// skip building when none of the n-variants is ours
			lo := i
			hi := i + int64(k+2)
			mine := false
			for x := lo; x < hi; x++ {
				if int(x%int64(nb)) == batch {
					mine = true
					break
				}
			}
			if !mine {
				i = hi
				return
			}
			kids := make([]*node, k)
			for a, j := range idx {
				kids[a] = sub[j]
			}
			for n := 0; n <= k+1; n++ {
				visit(&node{kind: 'T', n: n, kids: kids})
			}
			return
		}
		for j := range sub {
			idx = append(idx, j)
			rec(k)
			idx = idx[:len(idx)-1]
		}
	}
	for k := 0; k <= B; k++ {
		rec(k)
	}
	return i
}

// ---------------------------------------------------------------------------
// witness assignments

// slot classes: V valid, F bit-flipped, O valid for another key (signatures) /
// another preimage of the pool (preimages), M missing.
type assignment struct {
	sigCls []byte
	preCls []byte
	extra  string // "", "+sigE", "+sigF", "+preE", "+preF", "swS", "swP"
}

func (a assignment) class() string {
	return string(a.sigCls) + "|" + string(a.preCls) + "|" + a.extra
}

func (a assignment) canonical() bool {
	if a.extra != "" {
		return false
	}
	for _, c := range a.sigCls {
		if c != 'V' {
			return false
		}
	}
	for _, c := range a.preCls {
		if c != 'V' {
			return false
		}
	}
	return true
}

// realise turns an assignment into concrete witness lists for policy p.
func (m *material) realise(pks []types.PublicKey, hashes []types.Hash256, a assignment, h types.Hash256, bit int) (sigs []types.Signature, pre [][32]byte) {
	for i, pk := range pks {
		ki, known := m.keyIdx[pk]
		if !known {
			ki = nKeys - 1
		}
		switch a.sigCls[i] {
		case 'V':
			sigs = append(sigs, m.sign(ki, h))
		case 'F':
			sigs = append(sigs, flipSig(m.sign(ki, h), bit+i*7))
		case 'O':
			// valid signature of the same hash by the key of the NEXT slot if it
			// differs, else by the key that appears in no policy
			o := nKeys - 1
			if i+1 < len(pks) {
				if kj, ok := m.keyIdx[pks[i+1]]; ok && kj != ki {
					o = kj
				}
			}
			sigs = append(sigs, m.sign(o, h))
		case 'M':
		}
	}
	for i, hh := range hashes {
		p, known := m.preOf[hh]
		switch a.preCls[i] {
		case 'V':
			if !known {
				p = [32]byte{}
			}
			pre = append(pre, p)
		case 'F':
			pre = append(pre, flipPre(p, bit+i*5))
		case 'O':
			// a correct preimage of a different pool hash
			o := m.pre[7]
			if i+1 < len(hashes) && hashes[i+1] != hh {
				if q, ok := m.preOf[hashes[i+1]]; ok {
					o = q
				}
			}
			pre = append(pre, o)
		case 'M':
		}
	}
	switch a.extra {
	case "+sigE":
		sigs = append(sigs, m.sign(0, h))
	case "+sigF":
		sigs = append([]types.Signature{m.sign(nKeys-1, h)}, sigs...)
	case "+preE":
		pre = append(pre, m.pre[0])
	case "+preF":
		pre = append([][32]byte{m.pre[7]}, pre...)
	case "swS":
		if len(sigs) >= 2 {
			sigs[0], sigs[1] = sigs[1], sigs[0]
		}
	case "swP":
		if len(pre) >= 2 {
			pre[0], pre[1] = pre[1], pre[0]
		}
	}
	return
}

var sigClasses = []byte{'V', 'F', 'O', 'M'}
var preClasses = []byte{'V', 'F', 'O', 'M'}
var extras = []string{"", "+sigE", "+sigF", "+preE", "+preF", "swS", "swP"}

// allAssignments enumerates the full product when it has at most `cap`
// members; otherwise the canonical one, every single-slot tamper, every extra,
// and random members up to cap.
func allAssignments(ns, np int, cap int, r *rand.Rand) (out []assignment, full bool) {
	total := 1
	for i := 0; i < ns+np; i++ {
		total *= 4
		if total > 1<<20 {
			break
		}
	}
	nextra := 0
	for _, e := range extras {
		if extraApplies(e, ns, np) {
			nextra++
		}
	}
	if total*nextra <= cap {
		cls := make([]byte, ns+np)
		var rec func(i int)
		rec = func(i int) {
			if i == ns+np {
				for _, e := range extras {
					if !extraApplies(e, ns, np) {
						continue
					}
					a := assignment{sigCls: append([]byte(nil), cls[:ns]...), preCls: append([]byte(nil), cls[ns:]...), extra: e}
					out = append(out, a)
				}
				return
			}
			set := sigClasses
			if i >= ns {
				set = preClasses
			}
			for _, c := range set {
				cls[i] = c
				rec(i + 1)
			}
		}
		rec(0)
		return out, true
	}
	base := func() assignment {
		a := assignment{sigCls: make([]byte, ns), preCls: make([]byte, np)}
		for i := range a.sigCls {
			a.sigCls[i] = 'V'
		}
		for i := range a.preCls {
			a.preCls[i] = 'V'
		}
		return a
	}
	out = append(out, base())
	for _, e := range extras[1:] {
		if extraApplies(e, ns, np) {
			a := base()
			a.extra = e
			out = append(out, a)
		}
	}
	// single-slot tampers (all slots if few, else a random selection)
	slots := r.Perm(ns + np)
	if len(slots) > 10 {
		slots = slots[:10]
	}
	for _, s := range slots {
		for _, c := range []byte{'F', 'O', 'M'} {
			a := base()
			if s < ns {
				a.sigCls[s] = c
			} else {
				a.preCls[s-ns] = c
			}
			out = append(out, a)
		}
	}
	for len(out) < cap {
		a := base()
		k := 1 + r.IntN(3)
		for j := 0; j < k; j++ {
			s := r.IntN(ns + np)
			c := sigClasses[r.IntN(4)]
			if s < ns {
				a.sigCls[s] = c
			} else {
				a.preCls[s-ns] = c
			}
		}
		if r.IntN(3) == 0 {
			e := extras[r.IntN(len(extras))]
			if extraApplies(e, ns, np) {
				a.extra = e
			}
		}
		out = append(out, a)
	}
	return out, false
}

func extraApplies(e string, ns, np int) bool {
	switch e {
	case "swS":
		return ns >= 2
	case "swP":
		return np >= 2
	}
	return true
}

// ---------------------------------------------------------------------------
// random trees

type rgen struct {
	r        *rand.Rand
	maxDepth int
}

func (g *rgen) lockHeight() uint64 {
	switch g.r.IntN(8) {
	case 0:
		return 0
	case 1:
		return 1
	case 2:
		return lockH - 1
	case 3:
		return lockH + 1
	case 4:
		return ^uint64(0)
	default:
		return lockH
	}
}

func (g *rgen) lockUnix() int64 {
	switch g.r.IntN(6) {
	case 0:
		return lockTs - 1
	case 1:
		return lockTs + 1
	case 2:
		return 0
	default:
		return lockTs
	}
}

func (g *rgen) leaf(depth int, allowUC bool) *node {
	x := g.r.IntN(100)
	switch {
	case x < 22:
		return &node{kind: 'p', set: true, key: g.r.IntN(4)}
	case x < 40:
		return &node{kind: 'h', set: true, pre: g.r.IntN(4)}
	case x < 55:
		return &node{kind: 'a', set: true, height: g.lockHeight()}
	case x < 70:
		return &node{kind: 't', set: true, unix: g.lockUnix()}
	case x < 97 || !allowUC:
		o := &node{kind: 'o'}
		if g.r.IntN(2) == 0 {
			if depth > 0 {
				o.hidden = g.node(depth-1, false)
			} else {
				o.hidden = &node{kind: 'p', set: true, key: g.r.IntN(4)}
			}
		}
		return o
	default:
		return &node{kind: 'u'}
	}
}

func (g *rgen) breadth() int {
	x := g.r.IntN(100)
	switch {
	case x < 5:
		return 0
	case x < 70:
		return 1 + g.r.IntN(4)
	case x < 92:
		return 5 + g.r.IntN(8)
	case x < 98:
		return 13 + g.r.IntN(40)
	default:
		return 200 + g.r.IntN(57) // up to 256
	}
}

// node generates a subtree with at most `depth` further threshold levels.
func (g *rgen) node(depth int, allowUC bool) *node {
	if depth <= 0 || g.r.IntN(100) < 45 {
		return g.leaf(depth, allowUC)
	}
	k := g.breadth()
	if depth < g.maxDepth-1 && k > 20 {
		k = 1 + g.r.IntN(4) // keep very wide nodes near the top
	}
	t := &node{kind: 'T', kids: make([]*node, k)}
	wide := k > 20
	for i := range t.kids {
		if wide {
			// wide nodes: mostly cheap children
			switch g.r.IntN(6) {
			case 0:
				t.kids[i] = g.leaf(0, false)
			default:
				t.kids[i] = &node{kind: 'o'}
			}
		} else {
			t.kids[i] = g.node(depth-1, allowUC)
		}
	}
	rev := 0
	for _, c := range t.kids {
		if c.kind != 'o' {
			rev++
		}
	}
	if g.r.IntN(100) < 80 {
		t.n = rev
	} else {
		t.n = g.r.IntN(k + 2)
	}
	if t.n > 255 {
		t.n = 255
	}
	return t
}

// chain builds `depth` nested thresholds thresh(1,[thresh(1,[... leaf])]).
func chain(depth int, leaf types.SpendPolicy) types.SpendPolicy {
	p := leaf
	for i := 0; i < depth; i++ {
		p = types.PolicyThreshold(1, []types.SpendPolicy{p})
	}
	return p
}
