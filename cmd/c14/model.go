package main

// Independent reference model for C14. Nothing in this file calls
// SpendPolicy.Verify, SpendPolicy.Address, PolicyOpaque, EncodeTo or any other
// function under test; the real policy *types* are only read as data.
//
// Three pieces:
//
//   evalTop      purely functional evaluator
//                (policy, env, sigs, preimages) -> (ok, reason)
//                every recursive step returns the witnesses it did NOT use.
//   flatTop      a second, structurally different formulation of the same
//                meaning: (1) the revealed structure is well formed,
//                (2) every lock on a revealed path holds, (3) the revealed
//                pk / hash leaves in document order zip exactly with the
//                signature / preimage lists. Used to cross-check the oracle
//                against itself (a disagreement is a broken oracle, reported as
//                inconclusive, never as a violation).
//   modelAddress address commitment from the wire layout + x/crypto blake2b +
//                a naive recursive Merkle tree for legacy unlock conditions.

import (
	"crypto/ed25519"
	"crypto/sha256"
	"encoding/binary"
	"time"

	xblake "golang.org/x/crypto/blake2b"

	"go.sia.tech/core/types"
)

const (
	limitTotal   = 1024 // total sub-policies over all visited thresholds
	limitBreadth = 255  // children of one threshold
	limitDepth   = 32   // nesting depth the binary decoder (and therefore every peer) accepts
)

type env struct {
	height  uint64
	median  time.Time
	sigHash types.Hash256
}

// ---------------------------------------------------------------------------
// signature primitive with a cache (ed25519 from the standard library)

type sigKey struct {
	pk  [32]byte
	h   [32]byte
	sig [64]byte
}

var sigCache = map[sigKey]bool{}

func sigValid(pk [32]byte, h types.Hash256, sig types.Signature) bool {
	k := sigKey{pk, h, sig}
	if v, ok := sigCache[k]; ok {
		return v
	}
	v := ed25519.Verify(ed25519.PublicKey(pk[:]), h[:], sig[:])
	if len(sigCache) > 200_000 {
		sigCache = map[sigKey]bool{}
	}
	sigCache[k] = v
	return v
}

// strictlyAfter reports a > b on the (seconds, nanoseconds) pair.
func strictlyAfter(a, b time.Time) bool {
	as, bs := a.Unix(), b.Unix()
	if as != bs {
		return as > bs
	}
	return a.Nanosecond() > 0 // the lock b commits to whole seconds only
}

// ---------------------------------------------------------------------------
// functional evaluator

type evalOut struct {
	ok     bool
	reason string // first cause of failure (for finding keys only)
	sigs   []types.Signature
	pre    [][32]byte
}

func fail(reason string) evalOut { return evalOut{reason: reason} }

// evalNode evaluates a policy that is NOT at top level.
func evalNode(p types.SpendPolicy, e env, sigs []types.Signature, pre [][32]byte) evalOut {
	switch t := p.Type.(type) {
	case types.PolicyTypeAbove:
		if e.height >= uint64(t) {
			return evalOut{ok: true, sigs: sigs, pre: pre}
		}
		return fail("height-lock")
	case types.PolicyTypeAfter:
		if strictlyAfter(e.median, time.Time(t)) {
			return evalOut{ok: true, sigs: sigs, pre: pre}
		}
		return fail("time-lock")
	case types.PolicyTypePublicKey:
		if len(sigs) == 0 {
			return fail("missing-signature")
		}
		if !sigValid(t, e.sigHash, sigs[0]) {
			return fail("bad-signature")
		}
		return evalOut{ok: true, sigs: sigs[1:], pre: pre}
	case types.PolicyTypeHash:
		if len(pre) == 0 {
			return fail("missing-preimage")
		}
		if sha256.Sum256(pre[0][:]) != [32]byte(t) {
			return fail("bad-preimage")
		}
		return evalOut{ok: true, sigs: sigs, pre: pre[1:]}
	case types.PolicyTypeOpaque:
		return fail("opaque")
	case types.PolicyTypeUnlockConditions:
		return fail("uc-as-subpolicy")
	case types.PolicyTypeThreshold:
		if len(t.Of) > limitBreadth {
			return fail("too-complex/breadth")
		}
		var revealed []types.SpendPolicy
		for _, c := range t.Of {
			switch c.Type.(type) {
			case types.PolicyTypeUnlockConditions:
				return fail("uc-as-subpolicy")
			case types.PolicyTypeOpaque:
			default:
				revealed = append(revealed, c)
			}
		}
		if len(revealed) > int(t.N) {
			return fail("threshold-exceeded")
		}
		cur := evalOut{ok: true, sigs: sigs, pre: pre}
		for _, c := range revealed {
			cur = evalNode(c, e, cur.sigs, cur.pre)
			if !cur.ok {
				return cur // a failing revealed child is fatal
			}
		}
		if len(revealed) < int(t.N) {
			return fail("threshold-not-reached")
		}
		return cur
	}
	return fail("unknown-type")
}

// visitedSubPolicies is the number of sub-policies (children of every
// threshold reached through revealed thresholds, opaque children included).
func visitedSubPolicies(p types.SpendPolicy) int {
	t, ok := p.Type.(types.PolicyTypeThreshold)
	if !ok {
		return 0
	}
	n := len(t.Of)
	for _, c := range t.Of {
		n += visitedSubPolicies(c)
		if n > 1<<30 {
			return n
		}
	}
	return n
}

func ucKeyBytes(k types.UnlockKey) (pk [32]byte) {
	copy(pk[:], k.Key) // v1 convention: first 32 bytes, zero padded
	return
}

// matchKeys: in-order matching of signatures to listed keys. Returns the
// signatures left when `need` keys have been matched.
func matchKeys(keys []types.UnlockKey, sigs []types.Signature, need uint64, h types.Hash256) evalOut {
	if need == 0 {
		return evalOut{ok: true, sigs: sigs}
	}
	if len(keys) == 0 {
		return fail("uc/not-enough-keys")
	}
	if len(sigs) == 0 {
		return fail("uc/missing-signature")
	}
	switch keys[0].Algorithm {
	case types.SpecifierEntropy:
		return fail("uc/entropy-key")
	case types.SpecifierEd25519:
		if sigValid(ucKeyBytes(keys[0]), h, sigs[0]) {
			return matchKeys(keys[1:], sigs[1:], need-1, h)
		}
		r := matchKeys(keys[1:], sigs, need, h)
		if !r.ok && r.reason == "uc/not-enough-keys" {
			r.reason = "uc/signature-matches-no-remaining-key"
		}
		return r
	default:
		return matchKeys(keys[1:], sigs[1:], need-1, h)
	}
}

// evalTop is the oracle: accepted exactly when the meaning holds and no witness
// is left over.
func evalTop(p types.SpendPolicy, e env, sigs []types.Signature, pre [][32]byte) (bool, string) {
	var out evalOut
	if uc, ok := p.Type.(types.PolicyTypeUnlockConditions); ok {
		if e.height < uc.Timelock {
			return false, "uc/timelock"
		}
		out = matchKeys(uc.PublicKeys, sigs, uc.SignaturesRequired, e.sigHash)
		out.pre = pre
	} else {
		if policyDepth(p) > limitDepth {
			return false, "too-complex/depth" // deeper than any encoding can carry
		}
		out = evalNode(p, e, sigs, pre)
		if out.ok && visitedSubPolicies(p) > limitTotal {
			return false, "too-complex/total"
		}
	}
	if !out.ok {
		return false, out.reason
	}
	if len(out.sigs) > 0 {
		return false, "leftover-signature"
	}
	if len(out.pre) > 0 {
		return false, "leftover-preimage"
	}
	return true, ""
}

// ---------------------------------------------------------------------------
// second formulation: flatten + zip

type flat struct {
	structOK bool
	locksOK  bool
	pks      []types.PublicKey
	hashes   []types.Hash256
	total    int
	hasUC    bool
}

func flattenInto(f *flat, p types.SpendPolicy, e env, top bool) {
	switch t := p.Type.(type) {
	case types.PolicyTypeAbove:
		if !(e.height >= uint64(t)) {
			f.locksOK = false
		}
	case types.PolicyTypeAfter:
		if !strictlyAfter(e.median, time.Time(t)) {
			f.locksOK = false
		}
	case types.PolicyTypePublicKey:
		f.pks = append(f.pks, types.PublicKey(t))
	case types.PolicyTypeHash:
		f.hashes = append(f.hashes, types.Hash256(t))
	case types.PolicyTypeOpaque:
		// only reachable at top level (opaque children are skipped below)
		f.structOK = false
	case types.PolicyTypeUnlockConditions:
		f.structOK = false
		f.hasUC = true
	case types.PolicyTypeThreshold:
		f.total += len(t.Of)
		if len(t.Of) > limitBreadth {
			f.structOK = false
			return
		}
		rev := 0
		for _, c := range t.Of {
			if _, op := c.Type.(types.PolicyTypeOpaque); op {
				continue
			}
			rev++
			flattenInto(f, c, e, false)
		}
		if rev != int(t.N) {
			f.structOK = false
		}
	default:
		f.structOK = false
	}
}

func flatten(p types.SpendPolicy, e env) flat {
	f := flat{structOK: true, locksOK: true}
	flattenInto(&f, p, e, true)
	return f
}

// existsMatching: is there a strictly increasing assignment of ALL signatures
// to listed keys such that each signature is acceptable to its key and exactly
// `need` keys are used? (entropy keys accept nothing, unknown algorithms accept
// anything). Dynamic programme over (key index, sig index).
func existsMatching(keys []types.UnlockKey, sigs []types.Signature, need uint64, h types.Hash256) bool {
	if uint64(len(sigs)) != need {
		return false
	}
	nk, ns := len(keys), len(sigs)
	// can[i][j]: sigs[j:] can be matched into keys[i:]
	can := make([][]bool, nk+1)
	for i := range can {
		can[i] = make([]bool, ns+1)
		can[i][ns] = true
	}
	for i := nk - 1; i >= 0; i-- {
		for j := ns - 1; j >= 0; j-- {
			ok := can[i+1][j]
			if !ok && can[i+1][j+1] {
				switch keys[i].Algorithm {
				case types.SpecifierEntropy:
				case types.SpecifierEd25519:
					ok = sigValid(ucKeyBytes(keys[i]), h, sigs[j])
				default:
					ok = true
				}
			}
			can[i][j] = ok
		}
	}
	return can[0][0]
}

// hasEntropy: the statement is silent on entropy keys; the library documents
// that it refuses them. Used only to classify a difference between the two
// formulations of the oracle, see checkCase.
func hasEntropy(keys []types.UnlockKey) bool {
	for _, k := range keys {
		if k.Algorithm == types.SpecifierEntropy {
			return true
		}
	}
	return false
}

func flatTop(p types.SpendPolicy, e env, sigs []types.Signature, pre [][32]byte) bool {
	if uc, ok := p.Type.(types.PolicyTypeUnlockConditions); ok {
		return e.height >= uc.Timelock && len(pre) == 0 &&
			existsMatching(uc.PublicKeys, sigs, uc.SignaturesRequired, e.sigHash)
	}
	if policyDepth(p) > limitDepth {
		return false
	}
	f := flatten(p, e)
	if !f.structOK || !f.locksOK || f.total > limitTotal {
		return false
	}
	if len(f.pks) != len(sigs) || len(f.hashes) != len(pre) {
		return false
	}
	for i := range f.pks {
		if !sigValid(f.pks[i], e.sigHash, sigs[i]) {
			return false
		}
	}
	for i := range f.hashes {
		if sha256.Sum256(pre[i][:]) != [32]byte(f.hashes[i]) {
			return false
		}
	}
	return true
}

// revealedLeaves lists the pk and hash leaves reachable through non-opaque
// nodes in document order, regardless of threshold counts and locks (used by
// the witness generator).
func revealedLeaves(p types.SpendPolicy) (pks []types.PublicKey, hashes []types.Hash256) {
	var walk func(p types.SpendPolicy)
	walk = func(p types.SpendPolicy) {
		switch t := p.Type.(type) {
		case types.PolicyTypePublicKey:
			pks = append(pks, types.PublicKey(t))
		case types.PolicyTypeHash:
			hashes = append(hashes, types.Hash256(t))
		case types.PolicyTypeThreshold:
			for _, c := range t.Of {
				walk(c)
			}
		}
	}
	walk(p)
	return
}

// ---------------------------------------------------------------------------
// address model

func b2(parts ...[]byte) (out [32]byte) {
	h, _ := xblake.New256(nil)
	for _, p := range parts {
		h.Write(p)
	}
	h.Sum(out[:0])
	return
}

func le64(v uint64) []byte {
	var b [8]byte
	binary.LittleEndian.PutUint64(b[:], v)
	return b[:]
}

// naive RFC 6962 shaped Merkle root over already hashed leaves.
func merkleRoot(leaves [][32]byte) [32]byte {
	switch len(leaves) {
	case 0:
		return [32]byte{}
	case 1:
		return leaves[0]
	}
	k := 1
	for k*2 < len(leaves) {
		k *= 2
	}
	l, r := merkleRoot(leaves[:k]), merkleRoot(leaves[k:])
	return b2([]byte{1}, l[:], r[:])
}

func modelUnlockHash(uc types.UnlockConditions) types.Address {
	var leaves [][32]byte
	leaves = append(leaves, b2([]byte{0}, le64(uc.Timelock)))
	for _, k := range uc.PublicKeys {
		leaves = append(leaves, b2([]byte{0}, k.Algorithm[:], le64(uint64(len(k.Key))), k.Key))
	}
	leaves = append(leaves, b2([]byte{0}, le64(uc.SignaturesRequired)))
	return types.Address(merkleRoot(leaves))
}

// modelBody is the wire form of a policy without the version byte, with the
// children of a threshold replaced by their opaque form when `opaqueKids`.
func modelBody(p types.SpendPolicy, opaqueKids bool) []byte {
	switch t := p.Type.(type) {
	case types.PolicyTypeAbove:
		return append([]byte{1}, le64(uint64(t))...)
	case types.PolicyTypeAfter:
		return append([]byte{2}, le64(uint64(time.Time(t).Unix()))...)
	case types.PolicyTypePublicKey:
		return append([]byte{3}, t[:]...)
	case types.PolicyTypeHash:
		return append([]byte{4}, t[:]...)
	case types.PolicyTypeThreshold:
		out := []byte{5, t.N, uint8(len(t.Of))}
		for _, c := range t.Of {
			if opaqueKids {
				if o, ok := c.Type.(types.PolicyTypeOpaque); ok {
					out = append(out, 6)
					out = append(out, o[:]...)
				} else {
					a := modelAddress(c)
					out = append(out, 6)
					out = append(out, a[:]...)
				}
			} else {
				out = append(out, modelBody(c, false)...)
			}
		}
		return out
	case types.PolicyTypeOpaque:
		return append([]byte{6}, t[:]...)
	case types.PolicyTypeUnlockConditions:
		out := []byte{7}
		out = append(out, le64(t.Timelock)...)
		out = append(out, le64(uint64(len(t.PublicKeys)))...)
		for _, k := range t.PublicKeys {
			out = append(out, k.Algorithm[:]...)
			out = append(out, le64(uint64(len(k.Key)))...)
			out = append(out, k.Key...)
		}
		out = append(out, le64(t.SignaturesRequired)...)
		return out
	}
	return nil
}

// modelEncode is the full wire form (version byte + body).
func modelEncode(p types.SpendPolicy) []byte {
	return append([]byte{1}, modelBody(p, false)...)
}

func modelAddress(p types.SpendPolicy) types.Address {
	if uc, ok := p.Type.(types.PolicyTypeUnlockConditions); ok {
		return modelUnlockHash(types.UnlockConditions(uc))
	}
	return types.Address(b2([]byte("sia/address|"), []byte{1}, modelBody(p, true)))
}

// policyDepth: nesting depth (root = 0).
func policyDepth(p types.SpendPolicy) int {
	t, ok := p.Type.(types.PolicyTypeThreshold)
	if !ok {
		return 0
	}
	d := 0
	for _, c := range t.Of {
		if x := policyDepth(c) + 1; x > d {
			d = x
		}
	}
	return d
}
